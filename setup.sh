#!/bin/bash
# MANIFEST.setup_cmd: regenerate Gen/*.v from /repo, then a full `make` of the Coq development.
# Offline, files on disk only, nothing under /tmp.
set -u
cd "$(dirname "$0")"
ROOT=$(pwd)
mkdir -p build evidence
python3 translator/py_to_coq.py "${VERIF_REPO:-/repo}" coq/theories/Gen || echo "setup: translator reported a broken tie (checks will report it)"
# redundant ties (decision and loop functions translated from the source; see DESIGN.md section 2, step 1b)
python3 translator/decisions.py "${VERIF_REPO:-/repo}" coq/theories/Gen || true
python3 translator/loops.py "${VERIF_REPO:-/repo}" coq/theories/Gen || true
for t in translator/loops_*.py translator/decisions_*.py; do [ -f "$t" ] && { python3 "$t" "${VERIF_REPO:-/repo}" coq/theories/Gen || true; }; done
cd coq
{
  echo "-Q theories PE"
  echo "-arg -w -arg -notation-overridden,-deprecated-hint-without-locality,-deprecated-instance-without-locality"
  find theories -name '*.v' | LC_ALL=C sort
} > _CoqProject.new
if ! cmp -s _CoqProject.new _CoqProject 2>/dev/null; then mv _CoqProject.new _CoqProject; else rm _CoqProject.new; fi
if [ ! -f Makefile ] || [ _CoqProject -nt Makefile ]; then
  coq_makefile -f _CoqProject -o Makefile > /dev/null
fi
# -k: a file that no longer proves must not stop the others from building
timeout 3000 make -k -j"${VERIF_JOBS:-16}" > "$ROOT/build/setup_make.log" 2>&1
rc=$?
tail -5 "$ROOT/build/setup_make.log"
if [ $rc -ne 0 ]; then echo "setup: make exited $rc (per-property checks report which obligations fail)"; fi
exit 0
