(* Lemmas for Props/GenTieManager.v (redundant tie, MANAGER layer, property C13).
   1. the HAND MODEL of the wiring of PerceptionEvaluationManager over the leaves of Gen/loops_manager.v (record `world`): the
      instances mG, mW, mT, mSc of the section variables G, W, T, Sc of Model/Manager.v, and the ABSTRACTION function from the state of
      the generated code (heap of ground-truth frames + list of frame results holding addresses) to Manager.state;
   2. dicts as association lists: a dict whose keys are K and whose value at L is g L is [rep g K]; dset / dget on it;
   3. the loops of get_scene_result (one rule per loop, by induction, for lists of any length). *)
From Coq Require Import String.
From Coq Require Import List Bool ZArith Arith Lia.
From PE Require Import Base.QUtil.
From PE Require Model.Filter Model.Lookup Model.Manager.
From PE Require Gen.loops_manager.
Import ListNotations.
Import Filter.
Import Gen.loops_manager.
Open Scope list_scope.
Open Scope nat_scope.

(* ================================================================================================ *)
(* 1. hand model and abstraction                                                                     *)
(* ================================================================================================ *)
Section Model.
Variable w : world.
Variable mc : mcfg w.

Definition ests : Type := (Z * list (ObjT w))%type.             (* unix_time, estimated_objects *)
Definition ccfg : Type := (CritT w * PassT w)%type.              (* the two configuration arguments *)
(* Core: the evaluated frame result with the ADDRESS of its ground-truth frame erased and the tracking scores removed, next to the
   CONTENT of the frame it holds *)
Definition core : Type := (fresult w * gtframe w)%type.

(* _filter_objects on the CONTENT of a frame: estimates filtered with is_gt = false, ground truths with is_gt = true, the matcher on
   the two filtered lists, the target-uuid post-filter when target_uuids is a non-empty list *)
Definition m_filter (f : gtframe w) (es : list (ObjT w)) : list (ResT w) * list (ObjT w) :=
  let fp := ec_fparams (mc_config mc) in
  let tr := Some (gf_transforms f) in
  let es' := filter_objects w fp false tr es in
  let gs' := filter_objects w fp true tr (gf_objects f) in
  let rs := get_object_results w (ec_task (mc_config mc)) (ec_targets (mc_config mc)) (lp_policy w (ec_lparams (mc_config mc)))
                               (fp_radii w fp) (fp_uuid_first w fp) tr es' gs' in
  (match fp_uuids w fp with
   | Some (u :: us) => filter_results_by_uuid w (Some (u :: us)) tr rs
   | _ => rs
   end, gs').

Definition mG (f : gtframe w) (e : ests) (c : ccfg) : core :=
  let '(rs, gs) := m_filter f (snd e) in
  let m := ec_metrics (mc_config mc) in
  let tl := ec_targets (mc_config mc) in
  let '(rs', gs', d) := eval_core w m (fst c) (snd c) (fst e) tl (gf_name f) (gf_transforms f) rs gs in
  (mkFR (gf_name f) (fst e) tl rs' 0 m (fst c) (snd c) (gf_transforms f) (Some d) None,
   mkGF (gf_name f) (gf_transforms f) gs').
Definition mW (f : gtframe w) (e : ests) (c : ccfg) : gtframe w := snd (mG f e c).
Definition mT (p : option core) (c : core) : TrkT w :=
  eval_track w (fr_metrics (fst c)) (fr_crit (fst c)) (option_map (fun q : core => fr_results (fst q)) p)
             (fr_results (fst c)) (gf_objects (snd c)).

(* the scene: per label an initial empty frame followed by every frame's bucket in order; the counts added up from 0 *)
Definition bucket (tl : list nat) (c : core) (L : nat) : list (ResT w) := divide_objects w (fr_results (fst c)) tl L.
Definition num (tl : list nat) (c : core) (L : nat) : nat := divide_objects_to_num w (gf_objects (snd c)) tl L.
Definition pool_results (tl : list nat) (cs : list core) (L : nat) : list (list (ResT w)) := [] :: map (fun c => bucket tl c L) cs.
Definition pool_num (tl : list nat) (cs : list core) (L : nat) : nat := fold_left (fun n c => (n + num tl c L)%nat) cs 0%nat.
Definition rep {V} (g : nat -> V) (K : list nat) : list (nat * V) := map (fun L => (L, g L)) K.
Definition scene_of (used : list Z) (d1 : list (nat * list (list (ResT w)))) (d2 : list (nat * nat)) : sscore w :=
  let m := ec_metrics (mc_config mc) in
  mkSS m used (if has_detection w m then Some (scene_detection w m used d1 d2) else None)
              (if has_tracking w m then Some (scene_tracking w m used d1 d2) else None)
              (if has_classification w m then Some (scene_classification w m used d1 d2) else None).
Definition used_of (cs : list core) : list Z := map (fun c : core => frame_number w (fr_name (fst c))) cs.
Definition mSc (cs : list core) : sscore w :=
  let tl := ec_targets (mc_config mc) in
  scene_of (used_of cs) (rep (pool_results tl cs) tl) (rep (pool_num tl cs) tl).

(* for ANY target list (repeated labels included): the keys are the labels in order of first occurrence, and a label that occurs k
   times receives every frame's bucket k times and every frame's count k times *)
Definition dedup_step (acc : list nat) (k : nat) : list nat := if existsb (Nat.eqb k) acc then acc else acc ++ [k].
Definition dedup (tl : list nat) : list nat := fold_left dedup_step tl [].
Definition mult (tl : list nat) (L : nat) : nat := count_occ Nat.eq_dec tl L.
Definition pool_results_any (tl : list nat) (cs : list core) (L : nat) : list (list (ResT w)) :=
  fold_left (fun v c => Nat.iter (mult tl L) (fun v => v ++ [bucket tl c L]) v) cs [[]].
Definition pool_num_any (tl : list nat) (cs : list core) (L : nat) : nat :=
  fold_left (fun n c => Nat.iter (mult tl L) (fun n => (n + num tl c L)%nat) n) cs 0%nat.
Definition mSc_any (cs : list core) : sscore w :=
  let tl := ec_targets (mc_config mc) in
  scene_of (used_of cs) (rep (pool_results_any tl cs) (dedup tl)) (rep (pool_num_any tl cs) (dedup tl)).

(* ---- abstraction: the dataset = the first n addresses of the heap; a stored frame result = its Core *)
Definition erase (r : fresult w) : fresult w :=
  mkFR (fr_name r) (fr_time r) (fr_targets r) (fr_results r) 0 (fr_metrics r) (fr_crit r) (fr_pass r) (fr_transforms r) (fr_det r) None.
Definition core_of (h : heap w) (r : fresult w) : core := (erase r, h_at h (fr_gt r)).
Definition dataset (n : nat) (h : heap w) : list (gtframe w) := map (h_at h) (seq 0 n).
Definition abs (n : nat) (h : heap w) (frs : list (fresult w)) : Manager.state (gtframe w) core :=
  Manager.mkState (dataset n h) (map (core_of h) frs).
(* the dataset is allocated; every stored frame result holds an allocated address *)
Definition wf (n : nat) (h : heap w) (frs : list (fresult w)) : Prop :=
  n <= h_next h /\ Forall (fun r => fr_gt r < h_next h) frs.

Definition mstep := Manager.step (gtframe w) ests ccfg core (TrkT w) (sscore w) mG mW mT mSc true.

Lemma dataset_nth : forall n h i, i < n -> nth_error (dataset n h) i = Some (h_at h i).
Proof.
  intros n h i H. unfold dataset. rewrite nth_error_map.
  rewrite (nth_error_nth' (seq 0 n) 0%nat) by (rewrite seq_length; exact H).
  rewrite seq_nth by exact H. reflexivity.
Qed.

Lemma dataset_none : forall n h i, n <= i -> nth_error (dataset n h) i = None.
Proof. intros n h i H. apply nth_error_None. unfold dataset. rewrite map_length, seq_length. exact H. Qed.

Lemma dataset_ext : forall n h h', (forall a, a < n -> h_at h' a = h_at h a) -> dataset n h' = dataset n h.
Proof. intros n h h' H. unfold dataset. apply map_ext_in. intros a Ha. apply in_seq in Ha. apply H. lia. Qed.

Lemma cores_ext : forall h h' frs k, Forall (fun r => fr_gt r < k) frs -> (forall a, a < k -> h_at h' a = h_at h a) ->
  map (core_of h') frs = map (core_of h) frs.
Proof.
  intros h h' frs k HF H. apply map_ext_in. intros r Hr. unfold core_of. rewrite H; [reflexivity|].
  rewrite Forall_forall in HF. exact (HF r Hr).
Qed.

Lemma last_opt_snoc : forall A (l : list A) x, Manager.last_opt (l ++ [x]) = Some x.
Proof. intros. unfold Manager.last_opt. rewrite rev_unit. reflexivity. Qed.

(* self.frame_results[-1] under len(self.frame_results) > 0 is the model's last_opt *)
Lemma last_code : forall A (l : list A),
  (if Nat.ltb 0 (length l) then nth_error l (length l - 1) else None) = Manager.last_opt l.
Proof.
  intros A l. destruct l as [|a l] using rev_ind; [reflexivity|].
  rewrite last_opt_snoc, app_length. cbn [length]. replace (length l + 1 - 1) with (length l) by lia.
  replace (Nat.ltb 0 (length l + 1)) with true by (symmetry; apply Nat.ltb_lt; lia).
  rewrite nth_error_app2 by lia. rewrite Nat.sub_diag. reflexivity.
Qed.
End Model.

Arguments rep {V} g K.

(* ================================================================================================ *)
(* 2. dicts                                                                                          *)
(* ================================================================================================ *)
Section Dict.
Context {V : Type}.

Lemma rep_dget : forall (g : nat -> V) K k, In k K -> dget (rep g K) k = Some (g k).
Proof.
  intros g K k. induction K as [|a K IH]; [intros []|]. intros H. cbn [rep map dget].
  destruct (Nat.eqb_spec a k) as [->|Hn]; [reflexivity|]. apply IH. destruct H; [contradiction|assumption].
Qed.

Lemma rep_ext : forall (g g' : nat -> V) K, (forall L, In L K -> g L = g' L) -> rep g K = rep g' K.
Proof. intros g g' K H. apply map_ext_in. intros L HL. rewrite (H L HL). reflexivity. Qed.

Definition upd (g : nat -> V) (k : nat) (v : V) : nat -> V := fun L => if Nat.eqb L k then v else g L.

Lemma rep_dset : forall (g : nat -> V) K k v, NoDup K -> In k K -> dset (rep g K) k v = rep (upd g k v) K.
Proof.
  intros g K k v. induction K as [|a K IH]; [intros _ []|]. intros HN H. inversion HN as [|? ? Ha HK]; subst.
  cbn [rep map dset]. unfold upd at 1. destruct (Nat.eqb_spec a k) as [->|Hn].
  - f_equal. apply map_ext_in. intros L HL. unfold upd. destruct (Nat.eqb_spec L k) as [->|]; [contradiction|reflexivity].
  - f_equal. apply IH; [assumption|]. destruct H; [contradiction|assumption].
Qed.

Lemma rep_dset_fresh : forall (g : nat -> V) K k v, ~ In k K -> dset (rep g K) k v = rep (upd g k v) (K ++ [k]).
Proof.
  intros g K k v. induction K as [|a K IH]; intros H.
  - cbn. unfold upd. rewrite Nat.eqb_refl. reflexivity.
  - cbn [rep map dset app]. destruct (Nat.eqb_spec a k) as [->|Hn]; [exfalso; apply H; left; reflexivity|].
    unfold upd at 1. destruct (Nat.eqb_spec a k); [contradiction|]. f_equal. apply IH. intro; apply H; right; assumption.
Qed.
End Dict.

Lemma NoDup_snoc : forall (l : list nat) k, NoDup l -> ~ In k l -> NoDup (l ++ [k]).
Proof.
  induction l as [|a l IH]; intros k HN Hk; cbn.
  - constructor; [intros []|constructor].
  - inversion HN; subst. constructor.
    + intro Hi. apply in_app_or in Hi. destruct Hi as [Hi|[<-|[]]]; [contradiction|]. apply Hk. left. reflexivity.
    + apply IH; [assumption|]. intro; apply Hk; right; assumption.
Qed.

(* {label: v for label in target_labels}: keys in order of first occurrence *)
Lemma existsb_eqb_in : forall k acc, existsb (Nat.eqb k) acc = true <-> In k acc.
Proof.
  intros k acc. rewrite existsb_exists. split.
  - intros [x [Hx He]]. apply Nat.eqb_eq in He. subst. exact Hx.
  - intros H. exists k. split; [exact H|apply Nat.eqb_refl].
Qed.

Lemma dict_init : forall V (v : V) p acc, NoDup acc ->
  fold_left (fun d_ k_ => dset d_ k_ v) p (rep (fun _ => v) acc) = rep (fun _ => v) (fold_left dedup_step p acc) /\
  NoDup (fold_left dedup_step p acc) /\ incl (acc ++ p) (fold_left dedup_step p acc).
Proof.
  intros V v p. induction p as [|k p IH]; intros acc HN.
  - cbn. rewrite app_nil_r. repeat split; [assumption|apply incl_refl].
  - cbn [fold_left]. unfold dedup_step at 2 4 6. destruct (existsb (Nat.eqb k) acc) eqn:Hk.
    + apply existsb_eqb_in in Hk. rewrite rep_dset by assumption.
      replace (rep (upd (fun _ => v) k v) acc) with (rep (fun _ : nat => v) acc)
        by (apply rep_ext; intros L _; unfold upd; destruct (Nat.eqb L k); reflexivity).
      destruct (IH acc HN) as [A [B Cc]]. repeat split; [exact A|exact B|].
      intros x Hx. apply Cc. apply in_app_or in Hx. apply in_or_app. destruct Hx as [Hx|[<-|Hx]]; auto.
    + assert (Hn : ~ In k acc) by (intro Hi; apply existsb_eqb_in in Hi; congruence).
      rewrite rep_dset_fresh by assumption.
      replace (rep (upd (fun _ => v) k v) (acc ++ [k])) with (rep (fun _ : nat => v) (acc ++ [k]))
        by (apply rep_ext; intros L _; unfold upd; destruct (Nat.eqb L k); reflexivity).
      assert (HN' : NoDup (acc ++ [k])).
      { apply NoDup_snoc; assumption. }
      destruct (IH (acc ++ [k]) HN') as [A [B Cc]]. repeat split; [exact A|exact B|].
      intros x Hx. apply Cc. rewrite <- app_assoc. exact Hx.
Qed.

Lemma dedup_spec : forall tl, NoDup (dedup tl) /\ incl tl (dedup tl).
Proof.
  intros tl. destruct (dict_init unit tt tl [] (NoDup_nil _)) as [_ [B Cc]]. split; [exact B|exact Cc].
Qed.

Lemma dict_init_nil : forall V (v : V) tl, fold_left (fun d_ k_ => dset d_ k_ v) tl [] = rep (fun _ => v) (dedup tl).
Proof. intros V v tl. exact (proj1 (dict_init V v tl [] (NoDup_nil _))). Qed.

Lemma dedup_nodup_acc : forall tl acc, NoDup (acc ++ tl) -> fold_left dedup_step tl acc = acc ++ tl.
Proof.
  induction tl as [|k tl IH]; intros acc H; cbn [fold_left]; [rewrite app_nil_r; reflexivity|].
  unfold dedup_step at 2. destruct (existsb (Nat.eqb k) acc) eqn:Hk.
  - apply existsb_eqb_in in Hk. exfalso. apply NoDup_remove_2 in H. apply H. apply in_or_app. left. exact Hk.
  - replace (acc ++ k :: tl) with ((acc ++ [k]) ++ tl) in * by (rewrite <- app_assoc; reflexivity). apply IH. exact H.
Qed.

Lemma dedup_nodup : forall tl, NoDup tl -> dedup tl = tl.
Proof. intros tl H. exact (dedup_nodup_acc tl [] H). Qed.

(* ================================================================================================ *)
(* 3. the loops of get_scene_result                                                                  *)
(* ================================================================================================ *)
(* the function of the label after `for k in p: d[k] = op d[k] k` *)
Fixpoint itf {V} (op : V -> nat -> V) (p : list nat) (g : nat -> V) : nat -> V :=
  match p with [] => g | k :: p' => itf op p' (upd g k (op (g k) k)) end.

Lemma iter_swap : forall V (f : V -> V) n x, Nat.iter n f (f x) = f (Nat.iter n f x).
Proof. induction n; intros; cbn [Nat.iter nat_rect]; [reflexivity|]. unfold Nat.iter in *. cbn. rewrite IHn. reflexivity. Qed.

Lemma itf_spec : forall V (op : V -> nat -> V) p g L,
  itf op p g L = Nat.iter (count_occ Nat.eq_dec p L) (fun v => op v L) (g L).
Proof.
  intros V op p. induction p as [|k p IH]; intros g L; [reflexivity|].
  cbn [itf]. rewrite IH. unfold upd. cbn [count_occ]. destruct (Nat.eq_dec k L) as [->|Hn].
  - rewrite Nat.eqb_refl. exact (iter_swap V (fun v => op v L) (count_occ Nat.eq_dec p L) (g L)).
  - destruct (Nat.eqb_spec L k); [congruence|reflexivity].
Qed.

Section Loops.
Variables A : Type.

(* the inner loop: for label in target_labels: d1[label].append(b label); d2[label] += n label *)
Lemma loop_labels : forall (body : res (list (nat * list A) * list (nat * nat)) -> nat -> res (list (nat * list A) * list (nat * nat)))
    (b : nat -> A) (n : nat -> nat) K,
  (forall d1 d2 L, body (Ok (d1, d2)) L =
     bind (dappend d1 L (b L)) (fun e1 => bind (dadd d2 L (n L)) (fun e2 => Ok (e1, e2)))) ->
  NoDup K -> forall p, incl p K -> forall g1 g2,
  fold_left body p (Ok (rep g1 K, rep g2 K)) =
  Ok (rep (itf (fun v L => v ++ [b L]) p g1) K, rep (itf (fun m L => (m + n L)%nat) p g2) K).
Proof.
  intros body b n K Hb HN p. induction p as [|k p IH]; intros Hi g1 g2; [reflexivity|].
  assert (Hk : In k K) by (apply Hi; left; reflexivity).
  cbn [fold_left itf]. rewrite Hb. unfold dappend, dadd. rewrite !rep_dget by exact Hk. cbn [bind].
  rewrite !rep_dset by assumption. apply IH. intros x Hx. apply Hi. right. exact Hx.
Qed.
End Loops.

(* a fold in the error monad whose body never fails is the pure fold *)
Lemma fold_ok : forall S X (body : res S -> X -> res S) (pure : S -> X -> S) xs s,
  (forall s x, body (Ok s) x = Ok (pure s x)) -> fold_left body xs (Ok s) = Ok (fold_left pure xs s).
Proof. intros S X body pure xs. induction xs as [|x xs IH]; intros s H; cbn; [reflexivity|]. rewrite H. apply IH. exact H. Qed.

Lemma fold_left_map : forall A B C (f : A -> C -> A) (c : B -> C) l a,
  fold_left f (map c l) a = fold_left (fun a x => f a (c x)) l a.
Proof. intros A B C f c l. induction l as [|x l IH]; intros a; cbn; [reflexivity|apply IH]. Qed.

Section Frames.
Variables A R : Type.
Notation D1 := (list (nat * list A)).
Notation D2 := (list (nat * nat)).

(* the outer loop: for frame in frame_results: <the inner loop with the frame's buckets / counts>; used_frame.append(int(frame_name)) *)
Lemma loop_frames : forall (body : res (D1 * D2 * list Z) -> R -> res (D1 * D2 * list Z))
    (inner : R -> res (D1 * D2) -> nat -> res (D1 * D2)) (B : R -> nat -> A) (N : R -> nat -> nat) (fnum : R -> Z) tl K,
  (forall r d1 d2 L, inner r (Ok (d1, d2)) L =
     bind (dappend d1 L (B r L)) (fun e1 => bind (dadd d2 L (N r L)) (fun e2 => Ok (e1, e2)))) ->
  (forall r d1 d2 u, body (Ok (d1, d2, u)) r =
     bind (fold_left (inner r) tl (Ok (d1, d2))) (fun '(d1, d2) => Ok (d1, d2, u ++ [fnum r]))) ->
  NoDup K -> incl tl K -> forall frs g1 g2 u,
  fold_left body frs (Ok (rep g1 K, rep g2 K, u)) =
  Ok (rep (fold_left (fun g r => itf (fun v L => v ++ [B r L]) tl g) frs g1) K,
      rep (fold_left (fun g r => itf (fun m L => (m + N r L)%nat) tl g) frs g2) K, u ++ map fnum frs).
Proof.
  intros body inner B N fnum tl K Hi Hb HN Hincl frs. induction frs as [|r frs IH]; intros g1 g2 u.
  - cbn. rewrite app_nil_r. reflexivity.
  - cbn [fold_left map]. rewrite Hb. rewrite (loop_labels A (inner r) (B r) (N r) K (Hi r) HN tl Hincl). cbn [bind].
    rewrite IH. rewrite <- app_assoc. reflexivity.
Qed.

Lemma fold_itf : forall V (op : R -> V -> nat -> V) tl frs g L,
  fold_left (fun g r => itf (op r) tl g) frs g L =
  fold_left (fun v r => Nat.iter (count_occ Nat.eq_dec tl L) (fun v => op r v L) v) frs (g L).
Proof.
  intros V op tl frs. induction frs as [|r frs IH]; intros g L; [reflexivity|]. cbn [fold_left]. rewrite IH, itf_spec. reflexivity.
Qed.
End Frames.

Lemma count_occ_nodup_in : forall tl L, NoDup tl -> In L tl -> count_occ Nat.eq_dec tl L = 1.
Proof.
  intros tl L HN HI. apply (NoDup_count_occ' Nat.eq_dec) with (x := L) in HN; assumption.
Qed.

Lemma pool_results_fold : forall A C (f : C -> A) (cs : list C) v, fold_left (fun v c => v ++ [f c]) cs v = v ++ map f cs.
Proof. intros A C f cs. induction cs as [|c cs IH]; intros v; cbn; [rewrite app_nil_r; reflexivity|]. rewrite IH, <- app_assoc. reflexivity. Qed.

(* the heap after _filter_objects: a copy of frame a at the next free address, holding the filtered ground truths *)
Definition filter_heap (w : world) (mc : mcfg w) (h : heap w) (es : list (ObjT w)) (a : addr) : heap w :=
  h_set_objects (fst (h_alloc h a)) (h_next h) (snd (m_filter w mc (h_at h a) es)).

Lemma filter_heap_spec : forall w mc h es a,
  h_next (filter_heap w mc h es a) = S (h_next h) /\
  h_at (filter_heap w mc h es a) (h_next h) =
    mkGF (gf_name (h_at h a)) (gf_transforms (h_at h a)) (snd (m_filter w mc (h_at h a) es)) /\
  (forall b, b <> h_next h -> h_at (filter_heap w mc h es a) b = h_at h b).
Proof.
  intros. unfold filter_heap, h_set_objects, h_set, h_alloc. cbn [fst snd h_at h_next]. rewrite !Nat.eqb_refl.
  repeat split. intros b Hb. apply Nat.eqb_neq in Hb. rewrite !Hb. reflexivity.
Qed.

Lemma wf_step : forall w n (h h' : heap w) frs r,
  n <= h_next h -> Forall (fun r => fr_gt r < h_next h) frs -> h_next h' = S (h_next h) -> fr_gt r = h_next h ->
  wf w n h' (frs ++ [r]).
Proof.
  intros w n h h' frs r Hn HF E Er. split; [lia|]. apply Forall_forall. intros x Hx. apply in_app_or in Hx.
  destruct Hx as [Hx|[<-|[]]]; [|lia]. rewrite Forall_forall in HF. specialize (HF x Hx). lia.
Qed.

Lemma last_opt_map : forall A B (f : A -> B) l, Manager.last_opt (map f l) = option_map f (Manager.last_opt l).
Proof. intros A B f l. unfold Manager.last_opt. rewrite <- map_rev. destruct (rev l); reflexivity. Qed.

Lemma hist_step : forall w (h h' : heap w) frs r k c,
  Forall (fun r => fr_gt r < k) frs -> (forall a, a < k -> h_at h' a = h_at h a) -> core_of w h' r = c ->
  map (core_of w h') (frs ++ [r]) = map (core_of w h) frs ++ [c].
Proof. intros w h h' frs r k c HF H E. rewrite map_app. cbn [map]. rewrite E. f_equal. exact (cores_ext w h h' frs k HF H). Qed.

(* ================================================================================================ *)
(* 4. a toy world and the generated code driven by a call sequence (non-vacuity examples)            *)
(* ================================================================================================ *)
(* objects are numbers, an object result is (estimate, matched ground truth); every leaf is distinguishable from the others *)
Definition toy : world :=
  mkWorld nat (nat * option nat)%type unit Z unit unit unit (option (list string)) unit (bool * bool * bool)%type nat nat
          (list (nat * option nat) * list nat)%type (option nat * nat)%type
          (list Z * list (nat * list (list (nat * option nat))) * list (nat * nat))%type
          (list Z * list (nat * list (list (nat * option nat))) * list (nat * nat))%type
          (list Z * list (nat * list (list (nat * option nat))) * list (nat * nat))%type
          (fun _ => tt) (fun _ => tt) (fun _ => false) (fun u => u)
          (fun m => fst (fst m)) (fun m => snd (fst m)) (fun _ => true) (fun m => snd m)
          (fun _ is_gt _ os => filter (fun o => if is_gt then Nat.ltb o 100 else Nat.ltb o 50) os)
          (fun _ _ _ _ _ _ es gs => map (fun e => (e, find (fun g => Nat.eqb (g mod 10) (e mod 10)) gs)) es)
          (fun _ _ rs => filter (fun r => Nat.even (fst r)) rs)
          (fun _ crit _ _ _ _ _ rs gs => (filter (fun r => Nat.ltb (fst r) crit) rs, filter (fun g => Nat.ltb g (crit + 50)) gs, (rs, gs)))
          (fun _ _ prev rs _ => (option_map (@length _) prev, length rs))
          (fun rs _ L => filter (fun r => Nat.eqb (fst r mod 3) L) rs)
          (fun gs _ L => length (filter (fun g => Nat.eqb (g mod 3) L) gs))
          (fun z => z)
          (fun _ used d n => (used, d, n)) (fun _ used d n => (used, d, n)) (fun _ used d n => (used, d, n)).

Definition toy_mc (uuids : option (list string)) (tl : list nat) : mcfg toy := mkMC toy (mkEC toy tt tl tt uuids (true, true, false)).
Definition toy_heap (d : list (gtframe toy)) : heap toy := mkHeap (length d) (fun a => nth a d (@mkGF toy 0%Z tt [])).

(* the generated functions driven by a sequence of calls; answers in the vocabulary of Model/Manager.v *)
Fixpoint gen_run (w : world) (mc : mcfg w) (n : nat) (h : heap w) (frs : list (fresult w))
    (ops : list (Manager.op (ests w) (ccfg w))) :
    res (heap w * list (fresult w) * list (Manager.out (core w) (option (TrkT w)) (sscore w))) :=
  match ops with
  | [] => Ok (h, frs, [])
  | Manager.Query :: t =>
      bind (Gen_get_scene_result.f w mc h frs) (fun s =>
      bind (gen_run w mc n h frs t) (fun '(h', frs', outs) => Ok (h', frs', Manager.SceneOut s :: outs)))
  | Manager.Add i e c :: t =>
      if Nat.ltb i n then
        bind (Gen_add_frame_result.f w mc h frs (fst e) i (snd e) (fst c) (snd c)) (fun '(h1, frs1, r) =>
        bind (gen_run w mc n h1 frs1 t) (fun '(h', frs', outs) => Ok (h', frs', Manager.FrameOut (core_of w h1 r) (fr_trk r) :: outs)))
      else bind (gen_run w mc n h frs t) (fun '(h', frs', outs) => Ok (h', frs', Manager.NoFrame :: outs))
  end.

Definition model_run (w : world) (mc : mcfg w) (d : list (gtframe w)) (ops : list (Manager.op (ests w) (ccfg w))) :=
  Manager.run (gtframe w) (ests w) (ccfg w) (core w) (option (TrkT w)) (sscore w) (mG w mc) (mW w mc)
              (fun p c => Some (mT w p c)) (mSc w mc) true (Manager.init (gtframe w) (core w) d) ops.

Lemma fold_left_ext : forall S X (f g : S -> X -> S) l a, (forall s x, f s x = g s x) -> fold_left f l a = fold_left g l a.
Proof. intros S X f g l. induction l as [|x l IH]; intros a H; cbn; [reflexivity|]. rewrite H. apply IH. exact H. Qed.
