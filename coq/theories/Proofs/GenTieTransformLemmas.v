(* Lemmas, the abstraction function and the proof tactics of Props/GenTieTransform.v (generated definitions of
   Gen/decisions_transform.v = hand model Model/Transform.v, property C18).

   REPRESENTATION.  The source keeps `self.__data`, a dict from TransformKey to HomogeneousMatrix; the generated file renders it as
   an association list [tdict] with Python's dict semantics (insertion order, `d[k] = v` replaces in place or appends, `del d[k]`
   KeyError when absent).  The hand model's registry is ANOTHER representation: the list of the matrices given to TransformDict(..),
   looked up by their own labels, the LAST matrix with given labels wins ([Transform.reg_get]).  The two are related by the
   explicit abstraction function [dict_of] (= the dict comprehension of TransformDict.__init__, which GenTie_TransformDict___init__
   proves is what the constructor builds) and the relation [represents d reg] (every canonical key finds in [d] what [reg_get]
   finds in [reg]); [dict_of_represents] proves [represents (dict_of reg) reg].  A dict whose keys disagree with the labels of
   their values (possible through `__setitem__`) represents no registry: for those the equations are stated on the dict itself
   ([transform_spec], [get_spec]). *)
From Coq Require Import String List Bool Arith Lia.
From PE Require Import Base.QUtil Base.StrUtil Model.EnumParse Gen.Enums Model.Transform Proofs.TransformProofs.
From PE Require Import Gen.decisions_transform.
Import ListNotations.
Open Scope string_scope.
Open Scope list_scope.
Open Scope nat_scope.

(* ---- canonical keys --------------------------------------------------------------------------------------------------------- *)
Definition ck (s d : string) : tkey := mkKey (inr s) (inr d).
Definition key_of (m : rigid) : tkey := ck (rsrc m) (rdst m).

(* TransformKey(a, b) in the model's terms: both elements through [Transform.canon]; the error of a rejected str is ValueError *)
Definition canon2 (a b : spelling) : res tkey :=
  match canon a, canon b with
  | Member s, Member d => Ok (ck s d)
  | _, _ => Err ValueError
  end.

(* a `key` argument -> the TransformKey every entry point of TransformDict works with *)
Definition key_of_arg (ka : keyarg) : res tkey :=
  match ka with
  | AKey k => Ok k
  | ASeq [a; b] => canon2 a b
  | ASeq _ => Err ValueError
  | AOther => Err TypeError
  end.

Lemma parser_member_or_raises s :
  (exists k, run_parser FrameID_enum FrameID_from_value s = Member k) \/ run_parser FrameID_enum FrameID_from_value s = Raises.
Proof.
  unfold run_parser. change (p_ret FrameID_from_value) with RetMember. change (p_miss FrameID_from_value) with MissRaise.
  destruct (scan _ _ _) as [k|]; [left; exists k; reflexivity|right; reflexivity].
Qed.

Lemma canon_cases a : (exists k, canon a = Member k) \/ canon a = Raises.
Proof.
  destruct a as [s|k]; [|left; exists k; reflexivity].
  unfold canon, enum_or_str. rewrite transform_key_str_branch. apply parser_member_or_raises.
Qed.
Lemma canon_inr k : canon (inr k) = Member k.
Proof. reflexivity. Qed.
Lemma canon_hm_canon a : canon_hm a = canon a.
Proof. destruct a; reflexivity. Qed.

Lemma from_value_canon s :
  frame_from_value (inl s) = match canon (inl s) with Member k => Ok (inr k) | _ => Err ValueError end.
Proof.
  unfold canon, enum_or_str. rewrite transform_key_str_branch. unfold frame_from_value.
  destruct (parser_member_or_raises s) as [[k H]|H]; rewrite H; reflexivity.
Qed.

(* one frame through `FrameID.from_value(x) if isinstance(x, str) else x` *)
Definition canon1 (a : spelling) : res frame := match canon a with Member k => Ok (inr k) | _ => Err ValueError end.
Lemma canon2_canon1 a b : canon2 a b = bind (canon1 a) (fun x => bind (canon1 b) (fun y => Ok (mkKey x y))).
Proof.
  unfold canon2, canon1. destruct (canon_cases a) as [[k H]|H]; rewrite H; simpl; [|reflexivity].
  destruct (canon_cases b) as [[k' H']|H']; rewrite H'; reflexivity.
Qed.

(* ---- tactics ------------------------------------------------------------------------------------------------------------------ *)
Arguments kw_find : simpl never.
Arguments dict_find : simpl never.
Arguments reg_get : simpl never.
Arguments inv : simpl never.
Arguments hm_transform : simpl never.
Arguments canon : simpl never.
Arguments frame_from_value : simpl never.

(* the str branch of a canonicalisation: the parser's answer, Member or Raises *)
Ltac canon_split :=
  match goal with
  | |- context [frame_from_value (inl ?s)] => rewrite (from_value_canon s)
  | |- context [canon (inr ?k)] => rewrite (canon_inr k)
  | |- context [canon_hm ?a] => rewrite (canon_hm_canon a)
  | |- context [canon (inl ?s)] =>
      let k := fresh "k" in let H := fresh "Hc" in
      destruct (canon_cases (inl s)) as [[k H]|H]; rewrite ?H in *
  end.

(* one case split on an atom both sides test *)
Ltac atom_split :=
  match goal with
  | |- context [kw_find ?k ?s] => let E := fresh "Ek" in destruct (kw_find k s) eqn:E
  | |- context [dict_find ?d ?k] => let E := fresh "Ed" in destruct (dict_find d k) eqn:E
  | |- context [reg_get ?r ?a ?b] => let E := fresh "Er" in destruct (reg_get r a b) eqn:E
  | |- context [String.eqb ?a ?b] => let E := fresh "Es" in destruct (String.eqb a b) eqn:E
  | |- context [value_is ?a ?b] => let E := fresh "Ev" in destruct (value_is a b) eqn:E
  | |- context [frame_eqb ?a ?b] => let E := fresh "Ef" in destruct (frame_eqb a b) eqn:E
  end.

Ltac tstep := first [canon_split | atom_split].
Ltac tie := repeat (cbn -[kw_find dict_find reg_get inv hm_transform canon frame_from_value String.eqb value_is frame_eqb] in *;
                    try reflexivity; try congruence; try discriminate; tstep).
(* the same when frame_eqb on constructors has to compute *)
Ltac tie' := repeat (cbn -[kw_find dict_find reg_get inv hm_transform canon frame_from_value String.eqb value_is] in *;
                     try reflexivity; try congruence; try discriminate; tstep).

(* ---- the translated functions, one level at a time ------------------------------------------------------------------------------
   This file must compile whatever the translated BODIES are (one changed function must not take the other equations with it), so it
   never names a generated function: the equation of each function is a predicate [.._spec_of f] over ANY function, the script that
   proves it for the generated one ([solve_..]) opens the head of the goal, and uses the equations of the callees that are in the
   context (recognised by their statements).  Props/GenTieTransform.v asserts, inside each theorem, the
   equations that theorem needs. *)
Ltac get_head t := lazymatch t with ?f _ => get_head f | _ => t end.
Ltac unfold_head := lazymatch goal with |- ?L = _ => let h := get_head L in unfold h end.

Definition labels_spec_of (f : frame -> frame -> res (frame * frame)) : Prop :=
  forall a b, f a b = bind (canon1 a) (fun x => bind (canon1 b) (fun y => Ok (x, y))).
Definition hm_new_spec_of (h : vec3 -> quat -> frame -> frame -> res rigid) : Prop :=
  forall p r s d, h p r (inr s) (inr d) = Ok (mkRigid r p s d).
Definition init_spec_of (f : frame -> frame -> res tkey) : Prop := forall a b, f a b = canon2 a b.
Definition get_spec_of (g : tdict -> keyarg -> res (option rigid)) : Prop :=
  forall d ka, g d ka = bind (key_of_arg ka) (fun k => Ok (dict_find d k)).
Definition getitem_spec_of (g : tdict -> keyarg -> res rigid) : Prop :=
  forall d ka, g d ka = bind (key_of_arg ka) (fun k => dict_getitem d k).
Definition setitem_spec_of (g : tdict -> keyarg -> rigid -> res tdict) : Prop :=
  forall d ka v, g d ka v = bind (key_of_arg ka) (fun k => Ok (dict_set d k v)).
Definition delitem_spec_of (g : tdict -> keyarg -> res tdict) : Prop :=
  forall d ka, g d ka = bind (key_of_arg ka) (fun k => dict_del d k).
Definition inv_spec_of (f : rigid -> res rigid) : Prop := forall m, f m = Ok (inv m).
Definition of_dot (r : dot_result) : res rigid := match r with DotOk m => Ok m | DotValueError => Err ValueError end.
Definition dot_spec_of (f : rigid -> rigid -> res rigid) : Prop := forall self other, f self other = of_dot (dot self other).

Lemma canon2_inr s d : canon2 (inr s) (inr d) = Ok (ck s d).
Proof. reflexivity. Qed.
Lemma bind_ret {A} (r : res A) : bind r (fun v => Ok v) = r.
Proof. destruct r; reflexivity. Qed.

Ltac open_key ka :=
  destruct ka as [k|l|]; [| destruct l as [|a [|b [|c l]]] |]; cbn [key_of_arg].

(* the equations of the callees that are in the context *)
Ltac calls :=
  repeat match goal with
         | H : get_spec_of ?g |- context [?g _ _] => progress rewrite !H
         | H : init_spec_of ?g |- context [?g _ _] => progress rewrite !H
         | H : inv_spec_of ?g |- context [?g _] => progress rewrite !H
         | H : hm_new_spec_of ?g |- context [?g _ _ (inr _) (inr _)] => progress rewrite !H
         | H : labels_spec_of ?g |- context [?g _ _] => progress rewrite !H
         end;
  rewrite ?canon2_inr, ?bind_ret.

Ltac solve_labels := intros a b; unfold_head; unfold canon1; destruct a, b; tie'.
Ltac solve_hm_new := intros p r s d; unfold_head; calls; reflexivity.
Ltac solve_init := intros a b; rewrite canon2_canon1; unfold_head; unfold canon1; destruct a, b; tie'.
Ltac solve_load := intros a b; unfold_head; calls; try reflexivity; destruct (canon2 a b); reflexivity.
Ltac solve_keyed :=
  red; intros; unfold_head;
  match goal with ka : keyarg |- _ => open_key ka end;
  cbn [unpack_keyarg unpack_seq bind]; calls; cbn [bind]; try reflexivity;
  repeat first [ reflexivity
               | match goal with
                 | |- context [canon2 ?a ?b] => destruct (canon2 a b); cbn [bind]; calls
                 | |- context [dict_getitem ?d ?k] => destruct (dict_getitem d k); cbn [bind]
                 | |- context [dict_del ?d ?k] => destruct (dict_del d k); cbn [bind]
                 end ].
Ltac solve_inv := intros m; unfold_head; unfold hm_src, hm_dst; cbn [pose_split pose_inv pose_of fst snd]; calls; reflexivity.
Ltac solve_dot :=
  intros self other; unfold_head; unfold dot, hm_src, hm_dst; cbn [frame_eqb pose_split pose_mul pose_of fst snd];
  repeat match goal with |- context [String.eqb ?a ?b] => destruct (String.eqb a b) eqn:? end; cbn [negb of_dot]; calls; try reflexivity; tie'.

(* TransformKey.__eq__ against a key, a tuple / list, anything else *)
Definition key_eq_spec (k : tkey) (other : keyarg) : res bool :=
  match other with
  | AKey k' => Ok (frame_eqb (ksrc k) (ksrc k') && frame_eqb (kdst k) (kdst k'))
  | ASeq [a; b] => Ok (frame_eqb (ksrc k) a && frame_eqb (kdst k) b)
  | ASeq _ => Err ValueError
  | AOther => Ok false
  end.
Ltac solve_eq :=
  intros k other; unfold_head; unfold key_eq_spec;
  destruct other as [k'|l|]; [| destruct l as [|a [|b [|c l]]] |]; cbn [unpack_seq bind]; tie.

Ltac have_labels f := assert (Hlabels : labels_spec_of f) by solve_labels.
Ltac have_new h := assert (Hnew : hm_new_spec_of h) by solve_hm_new.
Ltac have_init f := assert (Hinit : init_spec_of f) by solve_init.
Ltac have_load f := assert (Hload : init_spec_of f) by solve_load.
Ltac have_get f := assert (Hget : get_spec_of f) by solve_keyed.
Ltac have_inv f := assert (Hinv : inv_spec_of f) by solve_inv.

(* ---- TransformDict.transform on the dict itself ----------------------------------------------------------------------------- *)
(* src == dst: "the arguments are returned as they are" -- what that means for each call form *)
Definition pass_through (args : list tval) (kw : kwargs) : res tval :=
  match args with
  | [] => if kw_nonempty kw then
            match kw_find kw "position" with
            | Some p => if kw_mem kw "matrix" then Err ValueError
                        else match kw_find kw "rotation" with Some r => Ok (VTuple [p; r]) | None => Ok p end
            | None => match kw_find kw "matrix" with Some m => Ok m | None => Err KeyError end
            end
          else Err ValueError
  | [x] => Ok x
  | [x; y] => Ok (VTuple [x; y])
  | _ => Err ValueError
  end.

(* the decision for a key as it is (fields of any spelling): same-frame test on the key's own fields; then the key RE-canonicalised
   by get (load_key): direct entry, else the entry of the swapped key through inv(), else KeyError *)
Definition transform_spec (d : tdict) (k : tkey) (args : list tval) (kw : kwargs) : res tval :=
  if frame_eqb (ksrc k) (kdst k) then pass_through args kw
  else bind (canon2 (ksrc k) (kdst k)) (fun k1 =>
       match dict_find d k1 with
       | Some m => hm_transform m args kw
       | None => bind (canon2 (kdst k) (ksrc k)) (fun k2 =>
                 match dict_find d k2 with
                 | Some m => hm_transform (inv m) args kw
                 | None => Err KeyError
                 end)
       end).

(* the model's answer turned into the result of the call *)
Definition answer (l : lookup_result) (args : list tval) (kw : kwargs) : res tval :=
  match l with
  | LIdentity => pass_through args kw
  | LUse m => hm_transform m args kw
  | LKeyError => Err KeyError
  | LValueError => Err ValueError
  end.
Definition of_tresult {A} (inj : A -> tval) (r : tresult A) : res tval :=
  match r with TOk x => Ok (inj x) | TKeyError => Err KeyError | TValueError => Err ValueError end.
Definition pose_val (pr : vec3 * quat) : tval := VTuple [VPoint (fst pr); VQuat (snd pr)].

Ltac open_args args := destruct args as [|?x [|?y [|?z ?l]]].

Ltac tr_tie :=
  repeat (calls;
          cbn -[kw_find dict_find reg_get inv hm_transform canon canon2 frame_from_value String.eqb value_is frame_eqb key_of_arg] in *;
          calls; cbn [key_of_arg bind] in *;
          try reflexivity; try congruence; try discriminate;
          first [ match goal with |- context [canon2 ?a ?b] => let E := fresh "Ec" in destruct (canon2 a b) eqn:E end
                | atom_split ]).

Definition transform_spec_of (f : tdict -> keyarg -> list tval -> kwargs -> res tval) : Prop :=
  forall d ka args kw, f d ka args kw = bind (key_of_arg ka) (fun k => transform_spec d k args kw).

(* needs Hget Hload / Hinit Hinv in the context *)
Ltac solve_transform :=
  intros d ka args kw; unfold_head; unfold transform_spec, pass_through, kw_mem, kw_getitem, args_nth;
  open_key ka; cbn [unpack_keyarg unpack_seq bind]; try reflexivity;
  open_args args; destruct kw as [|p kw]; tr_tie.

(* ---- the abstraction: dict <-> registry ------------------------------------------------------------------------------------- *)
Definition dict_of (reg : registry) : tdict := fold_left (fun d m => dict_set d (key_of m) m) reg [].
Definition represents (d : tdict) (reg : registry) : Prop := forall s t, dict_find d (ck s t) = reg_get reg s t.
Definition canonical (d : tdict) : Prop := Forall (fun kv => exists s t, fst kv = ck s t) d.
Definition keys_of (d : tdict) : list tkey := map fst d.

Lemma key_eqb_ck s t s' t' : key_eqb (ck s t) (ck s' t') = String.eqb s s' && String.eqb t t'.
Proof. reflexivity. Qed.

Lemma find_cons k0 v d k : dict_find ((k0, v) :: d) k = if key_eqb k0 k then Some v else dict_find d k.
Proof. reflexivity. Qed.

Ltac str_cases :=
  repeat match goal with
         | |- context [String.eqb ?a ?b] => destruct (String.eqb_spec a b); subst
         | H : context [String.eqb ?a ?b] |- _ => destruct (String.eqb_spec a b); subst
         end; cbn [andb] in *.

Lemma find_set_canon d s t v s' t' :
  canonical d ->
  dict_find (dict_set d (ck s t) v) (ck s' t') = if String.eqb s s' && String.eqb t t' then Some v else dict_find d (ck s' t').
Proof.
  induction d as [|[k0 v0] d IH]; intros C.
  - cbn [dict_set]. rewrite find_cons, key_eqb_ck. reflexivity.
  - inversion C as [|x y (a&b&Hk) C']; subst. cbn [fst] in Hk. subst k0. cbn [dict_set]. rewrite key_eqb_ck.
    destruct (String.eqb a s && String.eqb b t) eqn:E.
    + rewrite !find_cons, !key_eqb_ck. str_cases; try reflexivity; try discriminate; congruence.
    + rewrite !find_cons, !key_eqb_ck, (IH C'). str_cases; try reflexivity; try discriminate; congruence.
Qed.

Lemma set_canonical d s t v : canonical d -> canonical (dict_set d (ck s t) v).
Proof.
  induction d as [|[k0 v0] d IH]; intros C; cbn [dict_set].
  - constructor; [exists s, t; reflexivity|constructor].
  - inversion C as [|x y Hk C']; subst. destruct (key_eqb k0 (ck s t)); constructor; cbn [fst] in *; auto; apply IH, C'.
Qed.

Lemma reg_get_snoc reg m s t : reg_get (reg ++ [m]) s t = if labelled s t m then Some m else reg_get reg s t.
Proof.
  induction reg as [|x reg IH]; cbn [app].
  - unfold reg_get. destruct (labelled s t m); reflexivity.
  - change (reg_get (x :: reg ++ [m]) s t) with
      (match reg_get (reg ++ [m]) s t with Some r => Some r | None => if labelled s t x then Some x else None end).
    rewrite IH. destruct (labelled s t m); reflexivity.
Qed.

Lemma set_represents d reg m :
  canonical d -> represents d reg -> represents (dict_set d (key_of m) m) (reg ++ [m]).
Proof.
  intros C R s t. unfold key_of. rewrite (find_set_canon _ _ _ _ _ _ C), reg_get_snoc, R. reflexivity.
Qed.

Lemma fold_represents reg : forall d r0,
  canonical d -> represents d r0 ->
  canonical (fold_left (fun d m => dict_set d (key_of m) m) reg d) /\
  represents (fold_left (fun d m => dict_set d (key_of m) m) reg d) (r0 ++ reg).
Proof.
  induction reg as [|m reg IH]; intros d r0 C R; cbn [fold_left].
  - rewrite app_nil_r. split; assumption.
  - replace (r0 ++ m :: reg) with ((r0 ++ [m]) ++ reg) by (rewrite <- app_assoc; reflexivity).
    apply IH; [apply set_canonical, C|apply set_represents; assumption].
Qed.

Theorem dict_of_represents reg : canonical (dict_of reg) /\ represents (dict_of reg) reg.
Proof.
  apply (fold_represents reg [] []); [constructor|]. intros s t. reflexivity.
Qed.

(* TransformDict.__init__'s comprehension is the abstraction function *)
Lemma init_fold (f : frame -> frame -> res tkey) (H : init_spec_of f) reg : forall d,
  fold_left (fun acc m => bind acc (fun d0 => bind (f (hm_src m) (hm_dst m)) (fun k => Ok (dict_set d0 k m)))) reg (Ok d)
  = Ok (fold_left (fun d m => dict_set d (key_of m) m) reg d).
Proof.
  induction reg as [|m reg IH]; intros d; cbn [fold_left]; [reflexivity|].
  cbn [bind]. unfold hm_src, hm_dst. rewrite H, canon2_inr. cbn [bind]. apply IH.
Qed.
Definition dictinit_spec_of (f : initarg -> res tdict) : Prop :=
  forall reg m, f (IMany reg) = Ok (dict_of reg) /\ f (IOne m) = Ok (dict_of [m]) /\ f INone = Ok (dict_of []) /\ f IOther = Err TypeError.
Ltac solve_dictinit :=
  intros reg m; repeat split; unfold_head; unfold dict_of; try (match goal with H : init_spec_of ?g |- _ => rewrite (init_fold g H) end; reflexivity); reflexivity.

(* the model's decision, read on a dict that represents the registry *)
Lemma transform_spec_model d reg s t args kw :
  represents d reg -> transform_spec d (ck s t) args kw = answer (reg_lookup reg (inr s) (inr t)) args kw.
Proof.
  intros R. unfold transform_spec, reg_lookup, reg_lookup_canon, answer. rewrite !canon_inr.
  cbn [ksrc kdst ck frame_eqb]. destruct (String.eqb s t); [reflexivity|].
  rewrite !canon2_inr. cbn [bind]. rewrite !R.
  destruct (reg_get reg s t); [reflexivity|]. destruct (reg_get reg t s); reflexivity.
Qed.

Lemma reg_lookup_canon2 reg a b :
  reg_lookup reg a b = match canon2 a b with Ok k => reg_lookup reg (ksrc k) (kdst k) | Err _ => LValueError end.
Proof.
  unfold reg_lookup, canon2. destruct (canon_cases a) as [[k H]|H]; rewrite H; [|reflexivity].
  destruct (canon_cases b) as [[k' H']|H']; rewrite H'; [|reflexivity]. cbn [ksrc kdst ck]. rewrite !canon_inr. reflexivity.
Qed.

Lemma canon2_ok a b k : canon2 a b = Ok k -> exists s t, k = ck s t /\ canon a = Member s /\ canon b = Member t.
Proof.
  unfold canon2. destruct (canon_cases a) as [[s H]|H]; rewrite H; [|discriminate].
  destruct (canon_cases b) as [[t H']|H']; rewrite H'; [|discriminate].
  intros E. injection E as <-. exists s, t. repeat split.
Qed.
Lemma canon2_err a b e : canon2 a b = Err e -> e = ValueError /\ (canon a = Raises \/ canon b = Raises).
Proof.
  unfold canon2. destruct (canon_cases a) as [[s H]|H]; rewrite H; [|intros E; injection E as <-; auto].
  destruct (canon_cases b) as [[t H']|H']; rewrite H'; [discriminate|intros E; injection E as <-; auto].
Qed.

(* equal keys hash equally (so that "the first entry whose key == k" is what a hash table finds) *)
Lemma frame_hash_eq a b : frame_eqb a b = true -> frame_hash a = frame_hash b.
Proof.
  destruct a as [s|k], b as [t|k']; cbn [frame_eqb frame_hash]; intros H.
  - apply String.eqb_eq in H. subst. reflexivity.
  - apply andb_true_iff in H as [_ H]. unfold value_is in H. destruct (member_value k') as [v|]; [|discriminate].
    apply String.eqb_eq in H. subst. reflexivity.
  - apply andb_true_iff in H as [_ H]. unfold value_is in H. destruct (member_value k) as [v|]; [|discriminate].
    apply String.eqb_eq in H. subst. reflexivity.
  - apply String.eqb_eq in H. subst. reflexivity.
Qed.

(* ---- __delitem__ on a dict with canonical keys -------------------------------------------------------------------------------- *)

Lemma find_none_del d : forall s t, canonical d -> dict_find d (ck s t) = None <-> dict_del d (ck s t) = Err KeyError.
Proof.
  induction d as [|[k0 v0] d IH]; intros s t C; cbn [dict_del]; [split; reflexivity|].
  inversion C as [|x y (a&b&Hk) C']; subst. cbn [fst] in Hk. subst k0. rewrite find_cons.
  destruct (key_eqb (ck a b) (ck s t)); [split; discriminate|].
  rewrite (IH s t C'). destruct (dict_del d (ck s t)); cbn [bind]; split; intros H; first [discriminate H | exact H].
Qed.

(* ---- from the equation of a function to the statements in the model's terms ---------------------------------------------------- *)
Lemma transform_model f (H : transform_spec_of f) d reg a b args kw :
  represents d reg -> f d (ASeq [a; b]) args kw = answer (reg_lookup reg a b) args kw.
Proof.
  intros R. rewrite H. cbn [key_of_arg]. rewrite reg_lookup_canon2.
  destruct (canon2 a b) as [k|e] eqn:E; cbn [bind].
  - destruct (canon2_ok _ _ _ E) as (s&t&->&_&_). rewrite (transform_spec_model d reg s t args kw R). reflexivity.
  - destruct (canon2_err _ _ _ E) as (->&_). reflexivity.
Qed.

Lemma key_of_arg_cases (ka : keyarg) :
  key_of_arg ka = match ka with
                  | AKey k => Ok k
                  | ASeq [a; b] => match canon a, canon b with
                                   | Member s, Member t => Ok (mkKey (inr s) (inr t))
                                   | _, _ => Err ValueError
                                   end
                  | ASeq _ => Err ValueError
                  | AOther => Err TypeError
                  end.
Proof. destruct ka as [k|l|]; [| destruct l as [|a [|b [|c l]]] |]; reflexivity. Qed.
