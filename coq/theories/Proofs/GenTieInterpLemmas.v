(* Helper lemmas and tactics of Props/GenTieInterp.v (generated functions of the ground-truth interpolation = Model/Lookup.v).

   Nothing here mentions a generated definition (Gen/loops_interp.v is regenerated on every run; this file is not):
     1. the hand model by one more element AT THE END, which is what a left-to-right loop computes:
          Lookup.find_id (the inner search loop with its `break`), Lookup.pass1 (first loop), Lookup.pass2 (second loop, the id list
          grows while it runs), `x in xs` on strings = Lookup.mem_id;
     2. element-wise linear interpolation of two lists (Lookup.lerp; on three components it is Lookup.vlerp);
     3. loop rules for a loop that ends in an exception (IndexError / ZeroDivisionError), so that what the generated functions return
        OUTSIDE the guards of their equations can be stated;
     4. the views of a Lookup.obj the generated functions speak about (state, object) and of the four-way return;
     5. the proof scripts (each theorem of Props/GenTieInterp.v is compiled on its own, so what they share lives here). *)
From Coq Require Import String.
From Coq Require Import List Bool ZArith QArith Arith Lia.
From PE Require Import Base.QUtil.
From PE Require Model.Filter Model.Lookup.
From PE Require Import Proofs.GenTieLoopsLemmas Proofs.GenTieTrackingLemmas.
Import ListNotations.
Import Filter.
Import Lookup.
Open Scope Q_scope.

(* ---- 1. the object-list model by one more element at the end ---------------------------------------------------------- *)
(* the search `for object2 in object_list2: if object1.uuid == object2.uuid: ...; break` stops at the FIRST object with that uuid *)
Lemma find_id_snoc id l y :
  find_id id (l ++ [y]) =
    match find_id id l with Some o => Some o | None => if String.eqb id (o_id y) then Some y else None end.
Proof.
  induction l as [|a l IH]; cbn [app find_id]; [reflexivity|].
  destruct (String.eqb id (o_id a)); [reflexivity | exact IH].
Qed.

(* what the first loop appends for an object of list 1 *)
Definition pick (t1 t2 t : Z) (l2 : list obj) (o1 : obj) : obj :=
  match find_id (o_id o1) l2 with Some o2 => interp_obj t1 t2 t o1 o2 | None => o1 end.

Lemma pass1_snoc t1 t2 t l x l2 : pass1 t1 t2 t (l ++ [x]) l2 = pass1 t1 t2 t l l2 ++ [pick t1 t2 t l2 x].
Proof. induction l as [|a l IH]; cbn [app pass1]; [reflexivity|]. rewrite IH. reflexivity. Qed.

(* `uuid in id_list` *)
Lemma mem_id_existsb x l : existsb (String.eqb x) l = mem_id x l.
Proof. induction l as [|a l IH]; cbn [existsb mem_id]; [reflexivity|]. destruct (String.eqb x a); [reflexivity | exact IH]. Qed.

(* the second loop: an object of list 2 is appended iff its uuid is neither in the start list nor among the ones appended so far *)
Lemma pass2_snoc l y ids :
  pass2 (l ++ [y]) ids = pass2 l ids ++ (if mem_id (o_id y) (ids ++ map o_id (pass2 l ids)) then [] else [y]).
Proof.
  revert ids; induction l as [|a l IH]; intros ids; cbn [app pass2 map].
  - rewrite app_nil_r. destruct (mem_id (o_id y) ids); reflexivity.
  - destruct (mem_id (o_id a) ids); [apply IH|].
    rewrite IH. cbn [app map].
    replace (ids ++ o_id a :: map o_id (pass2 l (ids ++ [o_id a]))) with ((ids ++ [o_id a]) ++ map o_id (pass2 l (ids ++ [o_id a])))
      by (rewrite <- app_assoc; reflexivity).
    reflexivity.
Qed.

(* state of the inner loop (break flag, (output_object_list, id_list, found)) for the result of the search so far *)
Definition inner_st (t1 t2 t : Z) (out : list obj) (ids : list string) (x : obj) (r : option obj) : bool * (list obj * list string * bool) :=
  match r with
  | Some o2 => (true, (out ++ [interp_obj t1 t2 t x o2], ids ++ [o_id x], true))
  | None => (false, (out, ids, false))
  end.

(* ---- 2. element-wise linear interpolation ------------------------------------------------------------------------------- *)
(* [a + (b - a) * (t - t1) / (t2 - t1) for a, b in zip(l1, l2)] *)
Fixpoint lerp_list (t1 t2 t : Z) (l1 l2 : list Q) : list Q :=
  match l1, l2 with
  | a :: r1, b :: r2 => lerp t1 t2 t a b :: lerp_list t1 t2 t r1 r2
  | _, _ => []
  end.

Definition vec_list (v : vec3) : list Q := [vx v; vy v; vz v].

Lemma lerp_list_vec t1 t2 t a b : lerp_list t1 t2 t (vec_list a) (vec_list b) = vec_list (vlerp t1 t2 t a b).
Proof. reflexivity. Qed.

Lemma lerp_list_step t1 t2 t : forall i l1 l2 a b,
  nth_error l1 i = Some a -> nth_error l2 i = Some b ->
  lerp_list t1 t2 t (firstn (S i) l1) (firstn (S i) l2) = lerp_list t1 t2 t (firstn i l1) (firstn i l2) ++ [lerp t1 t2 t a b].
Proof.
  induction i as [|i IH]; intros [|x l1] [|y l2] a b Ha Hb; cbn [nth_error] in Ha, Hb; try discriminate.
  - inversion Ha; inversion Hb; subst. destruct l1, l2; reflexivity.
  - change (firstn (S (S i)) (x :: l1)) with (x :: firstn (S i) l1). change (firstn (S (S i)) (y :: l2)) with (y :: firstn (S i) l2).
    change (firstn (S i) (x :: l1)) with (x :: firstn i l1). change (firstn (S i) (y :: l2)) with (y :: firstn i l2).
    cbn [lerp_list app]. f_equal. apply IH; assumption.
Qed.

Lemma lerp_list_firstn_r t1 t2 t l1 : forall l2, lerp_list t1 t2 t l1 (firstn (length l1) l2) = lerp_list t1 t2 t l1 l2.
Proof.
  induction l1 as [|a l1 IH]; intros [|b l2]; cbn [length firstn lerp_list]; try reflexivity. f_equal. apply IH.
Qed.

Lemma lerp_list_length t1 t2 t l1 : forall l2, (length l1 <= length l2)%nat -> length (lerp_list t1 t2 t l1 l2) = length l1.
Proof.
  induction l1 as [|a l1 IH]; intros [|b l2] H; cbn [length lerp_list] in *; try reflexivity; try lia. f_equal. apply IH. lia.
Qed.

Lemma sub_eqb_false (t1 t2 : Z) : t1 <> t2 -> Z.eqb (t2 - t1) 0 = false.
Proof. intros H. apply Z.eqb_neq. lia. Qed.

Lemma sub_eqb_true (t1 t2 : Z) : t1 = t2 -> Z.eqb (t2 - t1) 0 = true.
Proof. intros ->. rewrite Z.sub_diag. reflexivity. Qed.

(* ---- 3. loops that end in an exception ------------------------------------------------------------------------------------ *)
Lemma fold_stuck {St A} (body : res St -> A -> res St) (e : res St) xs : (forall x, body e x = e) -> fold_left body xs e = e.
Proof. intros H. induction xs as [|x xs IH]; cbn [fold_left]; [reflexivity|]. rewrite H. exact IH. Qed.

(* for i in range(n): the iterations below m go from G i to G (S i), iteration m raises e *)
Lemma loop_up_err {St} (body : res St -> nat -> res St) (G : nat -> St) (n m : nat) s0 (e : res St) :
  s0 = G 0%nat ->
  (forall i, (i < m)%nat -> body (Ok (G i)) i = Ok (G (S i))) ->
  (m < n)%nat -> body (Ok (G m)) m = e -> (forall x, body e x = e) ->
  fold_left body (seq 0 n) (Ok s0) = e.
Proof.
  intros Hs Hstep Hm He Hstuck.
  replace n with (m + S (n - S m))%nat by lia.
  rewrite seq_app, fold_left_app, (loop_up body G m s0 Hs Hstep).
  cbn [seq fold_left plus]. rewrite He. apply fold_stuck. exact Hstuck.
Qed.

(* ---- 4. views ---------------------------------------------------------------------------------------------------------- *)
(* the ObjectState of a Lookup.obj as the generated functions see it: (position, orientation, shape, velocity) *)
Definition state_of (o : obj) : list Q * Q * Z * option (list Q) :=
  (vec_list (o_pos o), o_yaw o, o_tag o, Some (vec_list (o_vel o))).

Definition frame_code (f : oframe) : Z := match f with FMap => 0%Z | FBase => 1%Z | FOther => 2%Z end.

(* the DynamicObject of a Lookup.obj: (uuid, what is merely deep-copied apart from the state, unix_time, state) *)
Definition dobj_of (o : obj) : string * Z * Z * (list Q * Q * Z * option (list Q)) :=
  (o_id o, frame_code (o_frame o), o_time o, state_of o).

(* what interpolate_state returns on two states given by their components *)
Definition state_result (t1 t2 t : Z) (p1 : list Q) (o1 : Q) (s1 : Z) (v1 : option (list Q)) (p2 : list Q) (o2 : Q) (v2 : option (list Q))
  : list Q * Q * Z * option (list Q) :=
  (lerp_list t1 t2 t p1 p2, yaw_interp t1 t2 t o1 o2, s1,
   match v1, v2 with Some a, Some b => Some (lerp_list t1 t2 t a b) | _, _ => None end).

Lemma state_result_obj t1 t2 t a b :
  state_result t1 t2 t (vec_list (o_pos a)) (o_yaw a) (o_tag a) (Some (vec_list (o_vel a))) (vec_list (o_pos b)) (o_yaw b) (Some (vec_list (o_vel b)))
  = state_of (interp_obj t1 t2 t a b).
Proof. reflexivity. Qed.

(* the four-way return of get_interpolated_now_frame in the terms of the code: None, one of the loaded frame objects, or the call
   interpolate_ground_truth_frames(before, after, unix_time) (a leaf: the triple of its arguments) *)
Definition fw_code (b a : option nb) (t : Z) : option (frame + frame * frame * Z) :=
  match b, a with
  | None, None => None
  | None, Some (_, fa, _) => Some (inl fa)
  | Some (_, fb, _), None => Some (inl fb)
  | Some (_, fb, _), Some (_, fa, _) => Some (inr (fb, fa, t))
  end.

(* ... and its agreement with a result of the model, which identifies a loaded frame by its index in the list *)
Definition fw_agrees (l : list frame) (r : result) (v : option (frame + frame * frame * Z)) : Prop :=
  match v with
  | None => r = RNone
  | Some (inl f) => exists i, r = RFrame i /\ nth_error l i = Some f
  | Some (inr (fb, fa, t)) => exists i j, r = interpolate_frames i j fb fa t /\ nth_error l i = Some fb /\ nth_error l j = Some fa
  end.

Lemma gate_some tol n x : gate tol n = Some x -> n = Some x.
Proof.
  destruct n as [[[i f] d]|]; cbn [gate]; [|discriminate]. destruct (d >? tol)%Z; [discriminate|]. intros H; exact H.
Qed.

Lemma four_way_agrees l t tol :
  let '(b, a) := nb_scan t l 0 None in
  fw_agrees l (get_interpolated_now_frame l t tol) (fw_code (gate tol b) (gate tol a) t).
Proof.
  unfold get_interpolated_now_frame.
  pose proof (nb_scan_index t l 0 None) as H.
  destruct (nb_scan t l 0 None) as [b a].
  destruct H as [Hb Ha]; [intros; discriminate|].
  assert (Hb' : forall j f d, gate tol b = Some (j, f, d) -> nth_error l j = Some f).
  { intros j f d E. apply gate_some in E. destruct (Hb j f d E) as [H|[H _]]; [subst; discriminate|].
    rewrite Nat.sub_0_r in H. exact H. }
  assert (Ha' : forall j f d, gate tol a = Some (j, f, d) -> nth_error l j = Some f).
  { intros j f d E. apply gate_some in E. destruct (Ha j f d E) as [H _]. rewrite Nat.sub_0_r in H. exact H. }
  destruct (gate tol b) as [[[i fb] db]|], (gate tol a) as [[[j fa] da]|]; cbn [fw_code fw_agrees four_way].
  - exists i, j. split; [reflexivity|]. split; [apply (Hb' i fb db) | apply (Ha' j fa da)]; reflexivity.
  - exists i. split; [reflexivity | apply (Hb' i fb db); reflexivity].
  - exists j. split; [reflexivity | apply (Ha' j fa da); reflexivity].
  - reflexivity.
Qed.

(* ---- 5. proof scripts --------------------------------------------------------------------------------------------------- *)
Ltac norm_lists := rewrite ?app_nil_r, ?map_app, <- ?app_assoc; cbn [map app]; reflexivity.

Ltac close_list_leaf := first [ reflexivity | norm_lists | congruence | solve [ exfalso; congruence ] ].

(* goal:  <body of interpolate_object_list> l1 l2 t1 t2 t = Ok (Lookup.interpolate_object_list t1 t2 t l1 l2) *)
Ltac object_list_script l1 l2 t1 t2 t :=
  unfold interpolate_object_list; cbv zeta;
  rewrite (loop_list _ (fun seen => (pass1 t1 t2 t seen l2, map o_id seen)) l1);
  [ cbn [bind];
    rewrite (loop_list _ (fun seen => (pass1 t1 t2 t l1 l2 ++ pass2 seen (map o_id l1), map o_id l1 ++ map o_id (pass2 seen (map o_id l1)))) l2);
    [ cbn [bind]; reflexivity
    | cbn [pass2 map]; rewrite !app_nil_r; reflexivity
    | let seen := fresh "seen" in let y := fresh "y" in let rest := fresh "rest" in
      intros seen y rest _; cbn [bind]; rewrite ?mem_id_existsb, pass2_snoc; split_ifs; close_list_leaf ]
  | reflexivity
  | let seen := fresh "seen" in let x := fresh "x" in let rest := fresh "rest" in
    intros seen x rest _; cbn [bind];
    rewrite (loop_list _ (fun seen' => inner_st t1 t2 t (pass1 t1 t2 t seen l2) (map o_id seen) x (find_id (o_id x) seen')) l2);
    [ cbn [bind]; rewrite pass1_snoc, map_app; unfold pick;
      destruct (find_id (o_id x) l2); cbn [inner_st bind map]; split_ifs; close_list_leaf
    | reflexivity
    | let seen' := fresh "seen" in let y := fresh "y" in let rest' := fresh "rest" in
      intros seen' y rest' _; rewrite find_id_snoc;
      destruct (find_id (o_id x) seen'); cbn [inner_st bind]; [reflexivity|]; split_ifs; close_list_leaf ] ].

(* goal:  <body of interpolate_list> l1 l2 t1 t2 t = Ok (lerp_list t1 t2 t l1 l2);  Hlen : length l1 <= length l2;  Hz : (t2 - t1 =? 0) = false *)
Ltac lerp_step l1 l2 t1 t2 t Hz i Hi Hlen :=
  let a := fresh "a" in let b := fresh "b" in let Ha := fresh "Ha" in let Hb := fresh "Hb" in
  destruct (nth_error_in_range l1 i Hi) as [a Ha];
  destruct (nth_error_in_range l2 i ltac:(lia)) as [b Hb];
  cbn [bind]; rewrite ?Ha, ?Hb; cbn [bind]; split_ifs; try congruence;
  rewrite (lerp_list_step t1 t2 t i l1 l2 a b Ha Hb); reflexivity.

Ltac interpolate_list_script l1 l2 t1 t2 t Hlen Hz :=
  cbv zeta;
  rewrite (loop_up _ (fun i => lerp_list t1 t2 t (firstn i l1) (firstn i l2)) (length l1));
  [ cbn [bind]; rewrite firstn_all, lerp_list_firstn_r; reflexivity
  | reflexivity
  | let i := fresh "i" in let Hi := fresh "Hi" in intros i Hi; lerp_step l1 l2 t1 t2 t Hz i Hi Hlen ].

(* goal:  <body of interpolate_list> (a :: r1) (b :: r2) t1 t1 t = ErrType   (ZeroDivisionError in the first iteration) *)
Ltac interpolate_list_zerodiv_script a b r1 r2 t1 t :=
  cbv zeta;
  rewrite (loop_up_err _ (fun i => lerp_list t1 t1 t (firstn i (a :: r1)) (firstn i (b :: r2))) (length (a :: r1)) 0%nat _ ErrType);
  [ reflexivity | reflexivity | intros ? ?; lia | cbn [length]; lia
  | cbn [nth_error bind]; rewrite ?(sub_eqb_true t1 t1 eq_refl); reflexivity | reflexivity ].

(* goal:  <body of interpolate_list> l1 l2 t1 t2 t = ErrIndex;  Hlen : length l2 < length l1;  Hz : t1 <> t2 \/ l2 = [] *)
Ltac interpolate_list_index_script l1 l2 t1 t2 t Hlen Hz :=
  cbv zeta;
  rewrite (loop_up_err _ (fun i => lerp_list t1 t2 t (firstn i l1) (firstn i l2)) (length l1) (length l2) _ ErrIndex);
  [ reflexivity | reflexivity
  | let i := fresh "i" in let Hi := fresh "Hi" in let Hz' := fresh "Hz" in let Hi1 := fresh "Hi1" in
    intros i Hi; destruct Hz as [Hz'|Hz']; [|subst l2; cbn [length] in Hi; lia]; apply sub_eqb_false in Hz';
    assert (Hi1 : (i < length l1)%nat) by lia;
    lerp_step l1 l2 t1 t2 t Hz' i Hi1 Hlen
  | exact Hlen
  | let a := fresh "a" in let Ha := fresh "Ha" in
    destruct (nth_error_in_range l1 (length l2) Hlen) as [a Ha]; cbn [bind]; rewrite ?Ha; cbn [bind];
    replace (nth_error l2 (length l2)) with (@None Q) by (symmetry; apply nth_error_None; lia); reflexivity
  | reflexivity ].

(* goal:  <body of interpolate_state> (p1, o1, s1, v1) (p2, o2, s2, v2) t1 t2 t = Ok (state_result ...)
   HL : the equation of interpolate_list, HQ : the equation of interpolate_quaternion (as in Props/GenTieInterp.v);
   Hz : t1 <> t2;  Hp : length p1 <= length p2;  Hv : forall a b, v1 = Some a -> v2 = Some b -> length a <= length b *)
Ltac interpolate_state_script HL HQ Hz Hp Hv v1 v2 :=
  cbv zeta; cbv beta delta [fst snd] iota;
  rewrite (HL _ _ _ _ _ Hz Hp); cbn [bind]; rewrite (HQ _ _ _ _ _ Hz); cbn [bind];
  unfold state_result;
  destruct v1 as [?a|]; [destruct v2 as [?b|]|]; cbn [bind];
  try (rewrite (HL _ _ _ _ _ Hz (Hv _ _ eq_refl eq_refl)); cbn [bind]); reflexivity.

(* ---- 6. the label table scans (LabelConverter.convert_label / convert_name) -------------------------------------------------------- *)
From PE Require Base.StrUtil Model.Label.   (* Model.Label: only so that it is built with this file (Props/GenTieInterp.v states its equations about it) *)

(* the table entries (label key, registered name) whose name is k, in table order: the entries whose counter convert_name increments *)
Definition hits (k : string) (tbl : list (string * string)) : list (string * string) := filter (fun p => String.eqb k (snd p)) tbl.
(* the FIRST of them: where the scan of convert_label leaves *)
Definition first_entry (k : string) (tbl : list (string * string)) : option (string * string) := find (fun p => String.eqb k (snd p)) tbl.

Lemma find_first_entry k tbl : StrUtil.find_first k tbl = option_map fst (first_entry k tbl).
Proof.
  induction tbl as [|[a n] t IH]; cbn [StrUtil.find_first first_entry find snd]; [reflexivity|].
  destruct (String.eqb k n); [reflexivity | exact IH].
Qed.

Lemma first_entry_snoc k l p :
  first_entry k (l ++ [p]) = match first_entry k l with Some q => Some q | None => if String.eqb k (snd p) then Some p else None end.
Proof.
  unfold first_entry. induction l as [|a l IH]; cbn [app find]; [reflexivity|].
  destruct (String.eqb k (snd a)); [reflexivity | exact IH].
Qed.

Lemma first_entry_hits k l : match first_entry k l with Some q => [q] | None => [] end = firstn 1 (hits k l).
Proof.
  unfold first_entry, hits. induction l as [|a l IH]; cbn [find filter]; [reflexivity|].
  destruct (String.eqb k (snd a)); [reflexivity | exact IH].
Qed.

Lemma hits_snoc k l p : hits k (l ++ [p]) = hits k l ++ (if String.eqb k (snd p) then [p] else []).
Proof. unfold hits. rewrite filter_app. cbn [filter]. destruct (String.eqb k (snd p)); reflexivity. Qed.

Lemma find_last_snoc {A} k (l : list (A * string)) a n acc :
  StrUtil.find_last k (l ++ [(a, n)]) acc = if String.eqb k n then Some a else StrUtil.find_last k l acc.
Proof.
  revert acc; induction l as [|[b m] l IH]; intros acc; cbn [app StrUtil.find_last]; [reflexivity|]. apply IH.
Qed.

(* state of the scan of convert_label (break flag, (log of incremented entries, return_label)) for the first hit so far *)
Definition label_st (cnt : bool) (name : string) (attrs : list string) (r : option (string * string))
  : bool * (list (string * string) * option (string * string * list string)) :=
  match r with
  | Some p => (true, ((if cnt then [p] else []), Some (fst p, name, attrs)))
  | None => (false, ([], None))
  end.

(* goal:  <body of convert_label> cnt tbl name attrs =
            Ok (Some (match find_first (lower name) tbl with Some l => l | None => "UNKNOWN" end, name, attrs),
                if cnt then firstn 1 (hits (lower name) tbl) else []) *)
Ltac convert_label_script cnt tbl name attrs :=
  cbv zeta;
  rewrite (loop_list _ (fun seen => label_st cnt name attrs (first_entry (StrUtil.lower name) seen)) tbl);
  [ cbn [bind]; rewrite find_first_entry, <- first_entry_hits;
    destruct (first_entry (StrUtil.lower name) tbl) as [[? ?]|]; cbn [label_st bind option_map fst]; destruct cnt; reflexivity
  | reflexivity
  | let seen := fresh "seen" in let p := fresh "p" in let rest := fresh "rest" in
    intros seen p rest _; rewrite first_entry_snoc;
    destruct (first_entry (StrUtil.lower name) seen) as [[? ?]|]; cbn [label_st bind]; [reflexivity|];
    split_ifs; cbn [label_st bind app]; close_list_leaf ].

(* goal:  <body of convert_name> cnt tbl name =
            Ok (Some (match find_last (lower name) tbl None with Some l => l | None => "UNKNOWN" end), if cnt then hits (lower name) tbl else []) *)
Ltac convert_name_script cnt tbl name :=
  cbv zeta;
  rewrite (loop_list _ (fun seen => ((if cnt then hits (StrUtil.lower name) seen else []), StrUtil.find_last (StrUtil.lower name) seen None)) tbl);
  [ cbn [bind]; destruct (StrUtil.find_last (StrUtil.lower name) tbl None); destruct cnt; reflexivity
  | destruct cnt; reflexivity
  | let seen := fresh "seen" in let a := fresh "a" in let n := fresh "n" in let rest := fresh "rest" in
    intros seen [a n] rest _; rewrite hits_snoc, find_last_snoc; cbn [bind fst snd];
    split_ifs; cbn [bind app]; rewrite ?app_nil_r; close_list_leaf ].
