(* Proofs about the dataset-loader model (C16). *)
From Coq Require Import QArith ZArith List String Bool Arith Lia DecimalString.
From PE Require Import Base.QUtil Base.CaseUtil Base.StrUtil Model.EnumParse Gen.Enums Gen.LabelTables
                       Model.Label Model.Transform Model.Dataset Proofs.EnumParseProofs Proofs.TransformProofs.
Import ListNotations.
Open Scope string_scope.

(* ------------------------------------------------------------------------------------------ *)
(* the exception monad                                                                          *)
(* ------------------------------------------------------------------------------------------ *)
Lemma bind_ok {A B} (r : res A) (f : A -> res B) y :
  bind r f = Ok y -> exists x, r = Ok x /\ f x = Ok y.
Proof. destruct r; simpl; [eauto|discriminate]. Qed.

Ltac binv H :=
  repeat match type of H with
         | bind _ _ = Ok _ =>
             let x := fresh "x" in let Hx := fresh "Hx" in
             apply bind_ok in H; destruct H as (x & Hx & H)
         end.

Lemma mapM_Forall2 {A B} (f : A -> res B) l ys :
  mapM f l = Ok ys -> Forall2 (fun x y => f x = Ok y) l ys.
Proof.
  revert ys; induction l as [|a l IH]; simpl; intros ys H.
  - inversion H; constructor.
  - binv H. inversion H; subst. constructor; auto.
Qed.

Lemma Forall2_mapM {A B} (f : A -> res B) l ys :
  Forall2 (fun x y => f x = Ok y) l ys -> mapM f l = Ok ys.
Proof. induction 1; simpl; [reflexivity|]. rewrite H, IHForall2. reflexivity. Qed.

Lemma mapM_total {A B} (f : A -> res B) l :
  (forall x, In x l -> exists y, f x = Ok y) -> exists ys, mapM f l = Ok ys.
Proof.
  induction l as [|a l IH]; simpl; intros H; [eauto|].
  destruct (H a (or_introl eq_refl)) as (y & Hy). rewrite Hy. simpl.
  destruct IH as (ys & Hys); [intros; apply H; auto|]. rewrite Hys. simpl. eauto.
Qed.

Lemma Forall2_length' {A B} (R : A -> B -> Prop) l l' : Forall2 R l l' -> List.length l' = List.length l.
Proof. induction 1; simpl; congruence. Qed.

Lemma Forall2_nth {A B} (R : A -> B -> Prop) l l' :
  Forall2 R l l' -> forall n x y, nth_error l n = Some x -> nth_error l' n = Some y -> R x y.
Proof.
  induction 1; intros [|n] a b Ha Hb; simpl in *; try discriminate.
  - inversion Ha; inversion Hb; subst; assumption.
  - eauto.
Qed.

Lemma Forall2_map_l {A B C} (g : A -> C) (R : C -> B -> Prop) l l' :
  Forall2 (fun x y => R (g x) y) l l' -> Forall2 R (map g l) l'.
Proof. induction 1; simpl; constructor; auto. Qed.

Lemma Forall2_impl {A B} (R R' : A -> B -> Prop) l l' :
  (forall x y, In x l -> R x y -> R' x y) -> Forall2 R l l' -> Forall2 R' l l'.
Proof.
  intros H F; induction F; constructor.
  - apply H; [left; reflexivity|assumption].
  - apply IHF. intros; apply H; [right|]; assumption.
Qed.

(* ------------------------------------------------------------------------------------------ *)
(* get                                                                                          *)
(* ------------------------------------------------------------------------------------------ *)
Section GetLemmas.
  Context {A : Type} (tok : A -> string).

  Lemma get_last_some l k x : get_last tok l k = Some x -> In x l /\ tok x = k.
  Proof.
    induction l as [|a l IH]; simpl; [discriminate|].
    destruct (get_last tok l k) eqn:E.
    - intros H; inversion H; subst. destruct (IH eq_refl); auto.
    - destruct (String.eqb_spec (tok a) k); [|discriminate]. intros H; inversion H; subst; auto.
  Qed.

  Lemma get_ok l k x : get tok l k = Ok x -> In x l /\ tok x = k.
  Proof. unfold get. destruct (get_last tok l k) eqn:E; [|discriminate]. intros H; inversion H; subst. now apply get_last_some. Qed.

  Lemma get_last_none l k : get_last tok l k = None -> ~ In k (map tok l).
  Proof.
    induction l as [|a l IH]; simpl; [tauto|].
    destruct (get_last tok l k) eqn:E; [discriminate|].
    destruct (String.eqb_spec (tok a) k); [discriminate|]. intros _ [H|H]; [contradiction|]. now apply IH.
  Qed.

  Lemma get_has l k : mem_str k (map tok l) = true -> exists x, get tok l k = Ok x.
  Proof.
    intros H. apply mem_str_In in H. unfold get. destruct (get_last tok l k) eqn:E; [eauto|].
    exfalso. now apply (get_last_none l k).
  Qed.

  Lemma get_last_unique l x : NoDup (map tok l) -> In x l -> get_last tok l (tok x) = Some x.
  Proof.
    induction l as [|a l IH]; simpl; intros ND Hin; [contradiction|].
    inversion ND as [|? ? Hn ND']; subst.
    destruct Hin as [->|Hin].
    - destruct (get_last tok l (tok x)) eqn:E.
      + apply get_last_some in E. destruct E as [E1 E2]. exfalso. apply Hn. rewrite <- E2. now apply in_map.
      + now rewrite String.eqb_refl.
    - now rewrite (IH ND' Hin).
  Qed.

  Lemma get_unique l x : NoDup (map tok l) -> In x l -> get tok l (tok x) = Ok x.
  Proof. intros. unfold get. now rewrite get_last_unique. Qed.
End GetLemmas.

(* ------------------------------------------------------------------------------------------ *)
(* structure of a successful load                                                               *)
(* ------------------------------------------------------------------------------------------ *)
Definition decimal (n : nat) : string := NilEmpty.string_of_uint (Nat.to_uint n).

Lemma make_index_ok d ix :
  make_index d = Ok ix ->
  Forall2 (fun a an => category_name d a = Ok (snd an) /\ fst an = a) (anns d) (ix_anns ix) /\
  Forall2 (fun sd x => channel_of d sd = Ok (snd x) /\ fst x = sd) (sample_datas d) (ix_sds ix).
Proof.
  unfold make_index. intros H. binv H. inversion H; subst; simpl. split.
  - apply mapM_Forall2 in Hx. eapply Forall2_impl; [|exact Hx]. cbv beta. intros a an _ Ha.
    binv Ha. inversion Ha; subst; simpl. auto.
  - apply mapM_Forall2 in Hx0. eapply Forall2_impl; [|exact Hx0]. cbv beta. intros a an _ Ha.
    binv Ha. inversion Ha; subst; simpl. auto.
Qed.

Lemma sample_anns_spec d ix s :
  make_index d = Ok ix ->
  Forall2 (fun a an => category_name d a = Ok (snd an) /\ fst an = a)
          (annotations_of d s) (sample_anns ix (s_token s)).
Proof.
  intros H. apply make_index_ok in H. destruct H as [H _].
  unfold annotations_of, sample_anns. induction H as [|a an l l' [Hc He] F IH]; simpl; [constructor|].
  subst a. destruct (String.eqb (a_sample (fst an)) (s_token s)); [constructor; auto|assumption].
Qed.

Lemma frames_from_spec d ix tk fid merge : forall l n fs,
  frames_from d ix tk fid merge n l = Ok fs ->
  List.length fs = List.length l /\
  forall j s f, nth_error l j = Some s -> nth_error fs j = Some f ->
                sample_to_frame d ix tk fid merge (n + j) s = Ok f.
Proof.
  induction l as [|s0 l IH]; simpl; intros n fs H.
  - inversion H; subst. split; [reflexivity|]. intros [|j]; discriminate.
  - binv H. inversion H; subst. destruct (IH _ _ Hx0) as [IHl IHn]. split; [simpl; congruence|].
    intros [|j] s f Hs Hf; simpl in *.
    + inversion Hs; inversion Hf; subst. now rewrite Nat.add_0_r.
    + rewrite Nat.add_succ_r. apply (IHn j s f Hs Hf).
Qed.

Lemma sample_to_frame_ok d ix tk fid merge n s f :
  sample_to_frame d ix tk fid merge n s = Ok f ->
  exists sd md,
    lidar_sd ix s = Some (sd, md) /\
    get_transforms d sd = Ok (f_transforms f) /\
    mapM (make_object d tk fid merge s sd md) (sample_anns ix (s_token s)) = Ok (f_objects f) /\
    f_time f = s_timestamp s /\ f_name f = decimal n.
Proof.
  unfold sample_to_frame. destruct (lidar_sd ix s) as [[sd md]|]; [|discriminate].
  intros H. binv H. inversion H; subst; simpl. exists sd, md. auto.
Qed.

(* everything the other theorems need about one frame of a successful load *)
Lemma load_frame d tk fid merge fs :
  load d tk fid merge = Ok fs ->
  List.length fs = List.length (samples d) /\
  exists ix, make_index d = Ok ix /\
  forall n s f, nth_error (samples d) n = Some s -> nth_error fs n = Some f ->
    f_time f = s_timestamp s /\ f_name f = decimal n /\
    exists sd md,
      lidar_sd ix s = Some (sd, md) /\
      get_transforms d sd = Ok (f_transforms f) /\
      List.length (f_objects f) = List.length (annotations_of d s) /\
      forall j a o, nth_error (annotations_of d s) j = Some a -> nth_error (f_objects f) j = Some o ->
        exists cname, category_name d a = Ok cname /\ make_object d tk fid merge s sd md (a, cname) = Ok o.
Proof.
  unfold load. intros H. binv H. rename x into ix.
  destruct (samples d) as [|s0 l] eqn:Es; [discriminate|]. rewrite <- Es in *.
  apply frames_from_spec in H. destruct H as [Hl Hn]. split; [assumption|]. exists ix. split; [assumption|].
  intros n s f Hs Hf. specialize (Hn n s f Hs Hf). simpl in Hn.
  apply sample_to_frame_ok in Hn. destruct Hn as (sd & md & Hsd & Htf & Hobj & Ht & Hname).
  split; [assumption|]. split; [assumption|]. exists sd, md. split; [assumption|]. split; [assumption|].
  pose proof (sample_anns_spec d ix s Hx) as Hsa. apply mapM_Forall2 in Hobj.
  split.
  - rewrite (Forall2_length' _ _ _ Hobj). now rewrite (Forall2_length' _ _ _ Hsa).
  - intros j a o Ha Ho.
    assert (exists an, nth_error (sample_anns ix (s_token s)) j = Some an) as (an & Han).
    { destruct (nth_error (sample_anns ix (s_token s)) j) eqn:E; [eauto|].
      apply nth_error_None in E. rewrite (Forall2_length' _ _ _ Hsa) in E.
      assert (j < List.length (annotations_of d s))%nat by (apply nth_error_Some; congruence). lia. }
    destruct (Forall2_nth _ _ _ Hsa j a an Ha Han) as [Hc He].
    pose proof (Forall2_nth _ _ _ Hobj j an o Han Ho) as Hm. cbv beta in Hm.
    exists (snd an). split; [assumption|]. destruct an as [a' c]; simpl in *; subst a'. assumption.
Qed.

(* ------------------------------------------------------------------------------------------ *)
(* one object                                                                                   *)
(* ------------------------------------------------------------------------------------------ *)
Lemma make_object_ok d tk fid merge s sd md a cname o :
  make_object d tk fid merge s sd md (a, cname) = Ok o ->
  o_ann o = a_token a /\ o_uuid o = a_instance a /\
  o_label o = convert_label (label_table merge) cname /\ o_name o = cname /\
  mapM (fun t => at_ <- get_attribute d t ;; Ok (at_name at_)) (a_attrs a) = Ok (o_attrs o) /\
  o_size o = a_size a /\ o_pts o = a_pts a /\
  object_visibility d a = Ok (o_vis o) /\
  box_pose d fid sd md a = Ok (o_pos o, o_ori o) /\
  o_time o = s_timestamp s /\ o_frame o = fid /\
  match tk with
  | Tracking => exists h, past_annotations d (s_token s) (a_instance a) = Ok h /\ o_history o = Some (map past_of h)
  | _ => o_history o = None
  end.
Proof.
  unfold make_object. cbn [fst snd]. intros H. binv H. inversion H; subst; simpl.
  repeat (split; [first [reflexivity|assumption|now destruct x]|]).
  destruct tk; simpl in Hx3.
  - inversion Hx3; reflexivity.
  - binv Hx3. inversion Hx3; subst. eauto.
  - inversion Hx3; reflexivity.
Qed.

(* ------------------------------------------------------------------------------------------ *)
(* frames                                                                                       *)
(* ------------------------------------------------------------------------------------------ *)
Theorem one_frame_per_sample_in_order d tk fid merge fs :
  load d tk fid merge = Ok fs ->
  List.length fs = List.length (samples d) /\
  forall n s, nth_error (samples d) n = Some s ->
    exists f, nth_error fs n = Some f /\ f_name f = decimal n /\ f_time f = s_timestamp s /\
              List.length (f_objects f) = List.length (annotations_of d s).
Proof.
  intros H. destruct (load_frame _ _ _ _ _ H) as (Hl & ix & Hix & Hn). split; [assumption|].
  intros n s Hs.
  assert (exists f, nth_error fs n = Some f) as (f & Hf).
  { destruct (nth_error fs n) eqn:E; [eauto|]. apply nth_error_None in E.
    assert (n < List.length (samples d))%nat by (apply nth_error_Some; congruence). lia. }
  exists f. destruct (Hn n s f Hs Hf) as (Ht & Hname & sd & md & _ & _ & Hlen & _). auto.
Qed.

Lemma map_ext_nth {A B C} (f : A -> C) (g : B -> C) : forall l l',
  List.length l = List.length l' ->
  (forall n x y, nth_error l n = Some x -> nth_error l' n = Some y -> f x = g y) ->
  map f l = map g l'.
Proof.
  induction l as [|a l IH]; intros [|b l'] Hl H; simpl in *; try discriminate; [reflexivity|].
  f_equal; [apply (H 0%nat); reflexivity|]. apply IH; [congruence|]. intros n; apply (H (S n)).
Qed.

Theorem frame_timestamp d tk fid merge fs :
  load d tk fid merge = Ok fs -> map f_time fs = map s_timestamp (samples d).
Proof.
  intros H. destruct (load_frame _ _ _ _ _ H) as (Hl & ix & Hix & Hn).
  apply map_ext_nth; [assumption|]. intros n f s Hf Hs. now destruct (Hn n s f Hs Hf).
Qed.

Theorem frame_names d tk fid merge fs :
  load d tk fid merge = Ok fs -> map f_name fs = map decimal (seq 0 (List.length (samples d))).
Proof.
  intros H. destruct (load_frame _ _ _ _ _ H) as (Hl & ix & Hix & Hn).
  apply map_ext_nth; [now rewrite seq_length|]. intros n f m Hf Hm.
  assert (n < List.length (samples d))%nat as Hlt by (rewrite <- Hl; apply nth_error_Some; congruence).
  destruct (nth_error (samples d) n) as [s|] eqn:Es; [|apply nth_error_None in Es; lia].
  destruct (Hn n s f Es Hf) as (_ & Hname & _). rewrite Hname.
  apply nth_error_nth with (d := 0%nat) in Hm. rewrite seq_nth in Hm by assumption. simpl in Hm. now subst m.
Qed.

(* ------------------------------------------------------------------------------------------ *)
(* objects                                                                                      *)
(* ------------------------------------------------------------------------------------------ *)
Lemma category_name_ok d a cname :
  category_name d a = Ok cname ->
  exists inst cat, In inst (instances d) /\ i_token inst = a_instance a /\
                   In cat (categories d) /\ c_token cat = i_category inst /\ cname = c_name cat.
Proof.
  unfold category_name. intros H. binv H. inversion H; subst.
  apply get_ok in Hx, Hx0. destruct Hx, Hx0. exists x, x0. auto.
Qed.

Lemma attrs_ok d ts names :
  mapM (fun t => at_ <- get_attribute d t ;; Ok (at_name at_)) ts = Ok names ->
  Forall2 (fun t nm => exists at_, In at_ (attributes d) /\ at_token at_ = t /\ nm = at_name at_) ts names.
Proof.
  intros H. apply mapM_Forall2 in H. eapply Forall2_impl; [|exact H]. cbv beta. intros t nm _ Ht.
  binv Ht. inversion Ht; subst. apply get_ok in Hx. destruct Hx. eauto.
Qed.

Lemma visibility_ok d a v :
  object_visibility d a = Ok v ->
  match visibilities d with
  | [] => v = None
  | _ => exists r, In r (visibilities d) /\ v_token r = a_vis a /\
                   v = Some (run_parser Visibility_enum Visibility_from_value (v_level r))
  end.
Proof.
  unfold object_visibility. destruct (visibilities d) eqn:E.
  - intros H; inversion H; reflexivity.
  - rewrite <- E. intros H. binv H. inversion H; subst. apply get_ok in Hx. unfold get_visibility in *. destruct Hx. eauto.
Qed.

Theorem objects_are_annotations d tk fid merge fs :
  load d tk fid merge = Ok fs ->
  forall n s f, nth_error (samples d) n = Some s -> nth_error fs n = Some f ->
    List.length (f_objects f) = List.length (annotations_of d s) /\
    forall j a o, nth_error (annotations_of d s) j = Some a -> nth_error (f_objects f) j = Some o ->
      o_ann o = a_token a /\
      o_uuid o = a_instance a /\
      (exists inst cat, In inst (instances d) /\ i_token inst = a_instance a /\
                        In cat (categories d) /\ c_token cat = i_category inst /\
                        o_name o = c_name cat /\
                        o_label o = convert_label (table_of Autoware merge "") (c_name cat)) /\
      Forall2 (fun t nm => exists at_, In at_ (attributes d) /\ at_token at_ = t /\ nm = at_name at_)
              (a_attrs a) (o_attrs o) /\
      o_size o = a_size a /\
      o_pts o = a_pts a /\
      match visibilities d with
      | [] => o_vis o = None
      | _ => exists r, In r (visibilities d) /\ v_token r = a_vis a /\
                       o_vis o = Some (run_parser Visibility_enum Visibility_from_value (v_level r))
      end /\
      o_time o = s_timestamp s /\ o_frame o = fid.
Proof.
  intros H n s f Hs Hf. destruct (load_frame _ _ _ _ _ H) as (Hl & ix & Hix & Hn).
  destruct (Hn n s f Hs Hf) as (_ & _ & sd & md & _ & _ & Hlen & Hobj). split; [assumption|].
  intros j a o Ha Ho. destruct (Hobj j a o Ha Ho) as (cname & Hc & Hm).
  apply make_object_ok in Hm. destruct Hm as (H1 & H2 & H3 & H4 & H5 & H6 & H7 & H8 & H9 & H10 & H11 & _).
  split; [assumption|]. split; [assumption|]. split.
  { destruct (category_name_ok _ _ _ Hc) as (inst & cat & ? & ? & ? & ? & ->). exists inst, cat.
    repeat (split; [assumption|]). exact H3. }
  split; [now apply attrs_ok|]. split; [assumption|]. split; [assumption|].
  split; [now apply visibility_ok|]. auto.
Qed.

(* every visibility the loader can produce is a member of the enum (never a string, None or an exception) *)
Lemma visibility_is_member : forall level,
  exists k, run_parser Visibility_enum Visibility_from_value level = Member k /\
            In k (map fst (members Visibility_enum)).
Proof.
  intros level. unfold run_parser.
  change (p_ret Visibility_from_value) with RetMember. change (p_miss Visibility_from_value) with MissAlias.
  destruct (scan _ _ _) as [k|] eqn:E.
  - exists k. split; [reflexivity|]. apply scan_some in E. destruct E as (v & Hin & _).
    change k with (fst (k, v)). now apply in_map.
  - unfold on_miss.
    assert (Hal : forallb (fun ak => mem_str (snd ak) (map fst (members Visibility_enum))) (aliases Visibility_enum) = true)
      by (vm_compute; reflexivity).
    destruct (alias_lookup _ _) as [k|] eqn:Ea.
    + exists k. split; [reflexivity|]. apply alias_lookup_in in Ea. rewrite forallb_forall in Hal.
      apply mem_str_In. apply (Hal _ Ea).
    + destruct (alias_default Visibility_enum) as [k|] eqn:Ed; [|vm_compute in Ed; discriminate].
      exists k. split; [reflexivity|]. vm_compute in Ed. inversion Ed; subst. vm_compute. tauto.
Qed.

(* ------------------------------------------------------------------------------------------ *)
(* poses                                                                                        *)
(* ------------------------------------------------------------------------------------------ *)
Definition pose_eq (a b : vec3 * quat) : Prop := veq (fst a) (fst b) /\ qeq (snd a) (snd b).

Lemma pose_eq_trans a b c : pose_eq a b -> pose_eq b c -> pose_eq a c.
Proof. intros [? ?] [? ?]. split; [eapply veq_trans|eapply qeq_trans]; eassumption. Qed.

Lemma apply_pose_pose_eq T a b : pose_eq a b -> pose_eq (apply_pose T a) (apply_pose T b).
Proof. destruct a, b. intros [? ?]. apply apply_pose_eq; assumption. Qed.

Theorem map_pose_is_global_pose d tk merge fs :
  load d tk MapFrame merge = Ok fs ->
  forall n s f, nth_error (samples d) n = Some s -> nth_error fs n = Some f ->
  forall j a o, nth_error (annotations_of d s) j = Some a -> nth_error (f_objects f) j = Some o ->
    o_pos o = a_trans a /\ o_ori o = a_rot a.
Proof.
  intros H n s f Hs Hf j a o Ha Ho. destruct (load_frame _ _ _ _ _ H) as (Hl & ix & Hix & Hn).
  destruct (Hn n s f Hs Hf) as (_ & _ & sd & md & _ & _ & _ & Hobj).
  destruct (Hobj j a o Ha Ho) as (cname & _ & Hm). apply make_object_ok in Hm.
  destruct Hm as (_ & _ & _ & _ & _ & _ & _ & _ & Hp & _). simpl in Hp. inversion Hp; auto.
Qed.

Lemma to_sensor_frame_spec ego cs src p :
  pose_eq (to_sensor_frame ego cs p)
          (apply_pose (inv (sensor2ego_of cs src)) (apply_pose (inv (ego2map_of ego)) p)).
Proof.
  destruct p as [p o]. unfold pose_eq, to_sensor_frame, box_rotate, box_translate, sensor2ego_of, ego2map_of.
  split; poly.
Qed.

Lemma qeq_sym a b : qeq a b -> qeq b a.
Proof. unfold qeq. intros (?&?&?&?). repeat split; symmetry; assumption. Qed.

(* identity calibration: the sensor step does nothing *)
Lemma identity_calibration_noop cs src p :
  identity_calibration cs -> pose_eq (apply_pose (inv (sensor2ego_of cs src)) p) p.
Proof.
  destruct p as [p o]. intros [(Q1&Q2&Q3&Q4) (T1&T2&T3)]. unfold pose_eq, sensor2ego_of.
  unf. rewrite Q1, Q2, Q3, Q4, T1, T2, T3. repeat split; ring.
Qed.

Lemma box_pose_base_link d sd md a p :
  box_pose d BaseLink sd md a = Ok p ->
  exists ego cs, get_ego d (sd_ego sd) = Ok ego /\ get_cs d (sd_cs sd) = Ok cs /\
                 p = to_sensor_frame ego cs (a_trans a, a_rot a).
Proof.
  unfold box_pose. intros H. binv H. destruct (String.eqb md "camera"); [discriminate|].
  inversion H; subst. eauto.
Qed.

Lemma get_transforms_ok d sd tfs :
  get_transforms d sd = Ok tfs ->
  exists ego rest, get_ego d (sd_ego sd) = Ok ego /\
                   mapM (sensor_transforms d (ego2map_of ego)) (calibs d) = Ok rest /\
                   tfs = ego2map_of ego :: List.concat rest.
Proof. unfold get_transforms. intros H. binv H. inversion H; subst. eauto. Qed.

Lemma sensor_transforms_labels d e2m cs l m :
  rsrc e2m = "BASE_LINK" -> rdst e2m = "MAP" ->
  forallb sensor_ok (sensors d) = true ->
  sensor_transforms d e2m cs = Ok l -> In m l -> ~ (rsrc m = "BASE_LINK" /\ rdst m = "MAP").
Proof.
  intros Hs Hd Hok. unfold sensor_transforms. intros H. binv H. apply get_ok in Hx. destruct Hx as [Hin _].
  rewrite forallb_forall in Hok. specialize (Hok _ Hin). unfold sensor_ok in Hok.
  destruct (run_parser FrameID_enum FrameID_from_value (sn_channel x)) as [k| | |]; try discriminate.
  destruct (contains "CAM_TRAFFIC_LIGHT" k); [discriminate|].
  apply andb_true_iff in Hok. destruct Hok as [Hok _]. simpl in Hok.
  apply andb_true_iff in Hok. destruct Hok as [Hk1 Hk2]. apply negb_true_iff in Hk1. apply String.eqb_neq in Hk1.
  unfold dot in H. unfold sensor2ego_of in H. cbn [rsrc rdst] in H. rewrite Hs in H. simpl in H.
  inversion H; subst. intros [Hm|[Hm|[]]] [E1 E2]; subst m; cbn [rsrc rdst] in *; congruence.
Qed.

Lemma stored_ego2map d sd tfs :
  forallb sensor_ok (sensors d) = true ->
  get_transforms d sd = Ok tfs ->
  exists ego, get_ego d (sd_ego sd) = Ok ego /\ reg_get tfs "BASE_LINK" "MAP" = Some (ego2map_of ego).
Proof.
  intros Hok H. apply get_transforms_ok in H. destruct H as (ego & rest & He & Hr & ->). exists ego. split; [assumption|].
  cbn [reg_get].
  assert (Hn : reg_get (List.concat rest) "BASE_LINK" "MAP" = None).
  { apply reg_get_none. intros m Hm. apply in_concat in Hm. destruct Hm as (l & Hl & Hm).
    apply mapM_Forall2 in Hr.
    assert (exists cs, sensor_transforms d (ego2map_of ego) cs = Ok l) as (cs & Hcs).
    { clear - Hr Hl. induction Hr as [|c0 l0 cl rl Hc0 F IH]; [contradiction|].
      destruct Hl as [E|Hl]; [subst l0; exists c0; exact Hc0|exact (IH Hl)]. }
    exact (sensor_transforms_labels d (ego2map_of ego) cs l m eq_refl eq_refl Hok Hcs Hm). }
  rewrite Hn. reflexivity.
Qed.

(* ------------------------------------------------------------------------------------------ *)
(* well-formedness, unfolded                                                                    *)
(* ------------------------------------------------------------------------------------------ *)
Lemma wf_parts d :
  wf d = true ->
  unique_tokens d = true /\ references_resolve d = true /\ samples d <> [] /\
  forallb (sample_has_lidar d) (samples d) = true /\ unit_quaternions d = true /\
  pairs_unique (anns d) = true /\ forallb (prev_ok d) (anns d) = true.
Proof.
  unfold wf. intros H.
  apply andb_true_iff in H; destruct H as [H HV]. apply andb_true_iff in H; destruct H as [H HP].
  apply andb_true_iff in H; destruct H as [H HQ]. apply andb_true_iff in H; destruct H as [H HL].
  apply andb_true_iff in H; destruct H as [H HN]. apply andb_true_iff in H; destruct H as [HU HR].
  repeat (split; [assumption|]). split; [|repeat split; assumption].
  destruct (samples d); [discriminate|congruence].
Qed.

Lemma wf_sensor_ok d : wf d = true -> forallb sensor_ok (sensors d) = true.
Proof.
  intros H. apply wf_parts in H. destruct H as (_ & H & _). unfold references_resolve in H.
  apply andb_true_iff in H; destruct H as [H _]. apply andb_true_iff in H; destruct H as [H _].
  apply andb_true_iff in H; destruct H as [_ H]. exact H.
Qed.

Lemma unit_quat_spec q : unit_quat q = true -> qnorm2 q == 1.
Proof. unfold unit_quat. destruct (Qeqb_spec (qnorm2 q) 1); [auto|discriminate]. Qed.

Lemma wf_units d :
  wf d = true ->
  (forall e, In e (ego_poses d) -> qnorm2 (e_rot e) == 1) /\
  (forall c, In c (calibs d) -> qnorm2 (cs_rot c) == 1) /\
  (forall a, In a (anns d) -> qnorm2 (a_rot a) == 1).
Proof.
  intros H. apply wf_parts in H. destruct H as (_ & _ & _ & _ & H & _). unfold unit_quaternions in H.
  apply andb_true_iff in H; destruct H as [H H3]. apply andb_true_iff in H; destruct H as [H1 H2].
  rewrite forallb_forall in H1, H2, H3.
  repeat split; intros x Hin; apply unit_quat_spec; auto.
Qed.

(* ------------------------------------------------------------------------------------------ *)
(* which sample_data a frame is built from                                                      *)
(* ------------------------------------------------------------------------------------------ *)
Lemma find_data_some l stok chan : forall acc sd md,
  find_data l stok chan acc = Some (sd, md) ->
  acc = Some (sd, md) \/ (In (sd, (chan, md)) l /\ sd_key sd = true /\ sd_sample sd = stok).
Proof.
  induction l as [|[sd0 [ch0 md0]] l IH]; simpl; intros acc sd md H; [auto|].
  apply IH in H. destruct H as [H|H]; [|right; tauto].
  destruct (sd_key sd0 && String.eqb (sd_sample sd0) stok && String.eqb ch0 chan) eqn:E; [|auto].
  inversion H; subst. right. apply andb_true_iff in E. destruct E as [E E3]. apply andb_true_iff in E. destruct E as [E1 E2].
  apply String.eqb_eq in E2, E3. subst. auto.
Qed.

Lemma Forall2_in_r {A B} (R : A -> B -> Prop) l l' y :
  Forall2 R l l' -> In y l' -> exists x, In x l /\ R x y.
Proof.
  induction 1; intros Hin; [contradiction|]. destruct Hin as [->|Hin].
  - eexists; split; [left; reflexivity|assumption].
  - destruct (IHForall2 Hin) as (x0 & ? & ?). exists x0; split; [right|]; assumption.
Qed.

(* a key frame of the sample, recorded by a sensor whose channel is LIDAR_TOP or LIDAR_CONCAT *)
Definition key_lidar_of (d : dataset) (s : sample) (sd : sample_data) : Prop :=
  In sd (sample_datas d) /\ sd_key sd = true /\ sd_sample sd = s_token s /\
  exists cs sn, In cs (calibs d) /\ cs_token cs = sd_cs sd /\ In sn (sensors d) /\ sn_token sn = cs_sensor cs /\
                is_lidar_channel (sn_channel sn) = true.

Lemma lidar_sd_spec d ix s sd md :
  make_index d = Ok ix -> lidar_sd ix s = Some (sd, md) -> key_lidar_of d s sd.
Proof.
  intros Hix H. apply make_index_ok in Hix. destruct Hix as [_ Hsd]. unfold lidar_sd in H.
  assert (exists chan, is_lidar_channel chan = true /\ In (sd, (chan, md)) (ix_sds ix) /\ sd_key sd = true /\ sd_sample sd = s_token s)
    as (chan & Hch & Hin & Hk & Hs).
  { destruct (find_data (ix_sds ix) (s_token s) "LIDAR_TOP" None) as [[sd1 md1]|] eqn:E1.
    - inversion H; subst. apply find_data_some in E1. destruct E1 as [E1|E1]; [discriminate|]. exists "LIDAR_TOP". tauto.
    - apply find_data_some in H. destruct H as [H|H]; [discriminate|]. exists "LIDAR_CONCAT". tauto. }
  destruct (Forall2_in_r _ _ _ _ Hsd Hin) as (sd' & Hin' & Hc & He). simpl in He, Hc. subst sd'.
  unfold key_lidar_of. repeat (split; [assumption|]).
  unfold channel_of in Hc. binv Hc. inversion Hc; subst. apply get_ok in Hx, Hx0. destruct Hx, Hx0.
  exists x, x0. auto.
Qed.

(* ------------------------------------------------------------------------------------------ *)
(* ego-frame poses                                                                              *)
(* ------------------------------------------------------------------------------------------ *)
Theorem ego_pose_is_inverse_ego_applied d tk merge fs :
  load d tk BaseLink merge = Ok fs ->
  forall n s f, nth_error (samples d) n = Some s -> nth_error fs n = Some f ->
  exists sd ego cs,
    key_lidar_of d s sd /\
    In ego (ego_poses d) /\ e_token ego = sd_ego sd /\
    In cs (calibs d) /\ cs_token cs = sd_cs sd /\
    forall j a o, nth_error (annotations_of d s) j = Some a -> nth_error (f_objects f) j = Some o ->
      (forall src, pose_eq (o_pos o, o_ori o)
                     (apply_pose (inv (sensor2ego_of cs src)) (apply_pose (inv (ego2map_of ego)) (a_trans a, a_rot a)))) /\
      (identity_calibration cs ->
         pose_eq (o_pos o, o_ori o) (apply_pose (inv (ego2map_of ego)) (a_trans a, a_rot a))).
Proof.
  intros H n s f Hs Hf. destruct (load_frame _ _ _ _ _ H) as (Hl & ix & Hix & Hn).
  destruct (Hn n s f Hs Hf) as (_ & _ & sd & md & Hsd & Htf & _ & Hobj).
  apply get_transforms_ok in Htf. destruct Htf as (ego & rest & Hego & _ & _).
  (* the calibration record: from any object, or directly from the index *)
  pose proof (lidar_sd_spec _ _ _ _ _ Hix Hsd) as Hkl.
  assert (exists cs, get_cs d (sd_cs sd) = Ok cs) as (cs & Hcs).
  { destruct Hkl as (_ & _ & _ & cs & sn & Hin & Htok & _).
    apply get_has. rewrite <- Htok. apply mem_str_In. now apply in_map. }
  exists sd, ego, cs. split; [assumption|].
  pose proof (get_ok _ _ _ _ Hego) as [? ?]. pose proof (get_ok _ _ _ _ Hcs) as [? ?].
  repeat (split; [assumption|]).
  intros j a o Ha Ho. destruct (Hobj j a o Ha Ho) as (cname & _ & Hm). apply make_object_ok in Hm.
  destruct Hm as (_ & _ & _ & _ & _ & _ & _ & _ & Hp & _).
  apply box_pose_base_link in Hp. destruct Hp as (ego' & cs' & He' & Hc' & Hp).
  rewrite Hego in He'. rewrite Hcs in Hc'. inversion He'; inversion Hc'; subst ego' cs'. rewrite Hp.
  split.
  - intros src. apply to_sensor_frame_spec.
  - intros Hid. eapply pose_eq_trans; [apply (to_sensor_frame_spec ego cs "")|].
    now apply identity_calibration_noop.
Qed.

(* ------------------------------------------------------------------------------------------ *)
(* the stored ego-to-map transform                                                              *)
(* ------------------------------------------------------------------------------------------ *)
Lemma pose_surj (p : vec3 * quat) : p = (fst p, snd p).
Proof. now destruct p. Qed.

Lemma apply_inv_cancel_pose T P : qnorm2 (rq T) == 1 -> pose_eq (apply_pose T (apply_pose (inv T) P)) P.
Proof. destruct P as [p o]. intros H. exact (apply_inv_cancel T p o H). Qed.

Lemma sensor_frame_roundtrip ego cs src P :
  qnorm2 (e_rot ego) == 1 -> qnorm2 (cs_rot cs) == 1 ->
  pose_eq (apply_pose (ego2map_of ego) (apply_pose (sensor2ego_of cs src) (to_sensor_frame ego cs P))) P.
Proof.
  intros He Hc.
  assert (S1 : pose_eq (apply_pose (sensor2ego_of cs src) (to_sensor_frame ego cs P))
                       (apply_pose (inv (ego2map_of ego)) P)).
  { eapply pose_eq_trans; [apply apply_pose_pose_eq, (to_sensor_frame_spec ego cs src)|].
    apply apply_inv_cancel_pose. exact Hc. }
  eapply pose_eq_trans; [apply apply_pose_pose_eq, S1|].
  apply apply_inv_cancel_pose. exact He.
Qed.

Lemma ego_frame_roundtrip ego cs P :
  qnorm2 (e_rot ego) == 1 -> identity_calibration cs ->
  pose_eq (apply_pose (ego2map_of ego) (to_sensor_frame ego cs P)) P.
Proof.
  intros He Hid. eapply pose_eq_trans.
  { apply apply_pose_pose_eq. eapply pose_eq_trans; [apply (to_sensor_frame_spec ego cs "")|].
    apply identity_calibration_noop. exact Hid. }
  apply apply_inv_cancel_pose. exact He.
Qed.

Lemma nth_error_same_length {A B} (l : list A) (l' : list B) j x :
  List.length l = List.length l' -> nth_error l j = Some x -> exists y, nth_error l' j = Some y.
Proof.
  intros Hl Hx. destruct (nth_error l' j) eqn:E; [eauto|]. apply nth_error_None in E.
  assert (j < List.length l)%nat by (apply nth_error_Some; congruence). lia.
Qed.

Theorem ego2map_maps_ego_pose_to_map_pose d tk tk' merge merge' fsE fsM :
  wf d = true ->
  load d tk BaseLink merge = Ok fsE -> load d tk' MapFrame merge' = Ok fsM ->
  forall n s fE fM, nth_error (samples d) n = Some s -> nth_error fsE n = Some fE -> nth_error fsM n = Some fM ->
  exists sd ego cs,
    key_lidar_of d s sd /\
    In ego (ego_poses d) /\ e_token ego = sd_ego sd /\ In cs (calibs d) /\ cs_token cs = sd_cs sd /\
    reg_get (f_transforms fE) "BASE_LINK" "MAP" = Some (ego2map_of ego) /\
    reg_get (f_transforms fM) "BASE_LINK" "MAP" = Some (ego2map_of ego) /\
    List.length (f_objects fE) = List.length (f_objects fM) /\
    forall j oE oM, nth_error (f_objects fE) j = Some oE -> nth_error (f_objects fM) j = Some oM ->
      o_ann oE = o_ann oM /\ o_uuid oE = o_uuid oM /\
      (forall src, pose_eq (apply_pose (ego2map_of ego) (apply_pose (sensor2ego_of cs src) (o_pos oE, o_ori oE)))
                           (o_pos oM, o_ori oM)) /\
      (identity_calibration cs -> pose_eq (apply_pose (ego2map_of ego) (o_pos oE, o_ori oE)) (o_pos oM, o_ori oM)).
Proof.
  intros Hwf HE HM n s fE fM Hs HfE HfM.
  destruct (load_frame _ _ _ _ _ HE) as (_ & ix & Hix & HnE).
  destruct (load_frame _ _ _ _ _ HM) as (_ & ix' & Hix' & HnM).
  rewrite Hix in Hix'. inversion Hix'; subst ix'. clear Hix'.
  destruct (HnE n s fE Hs HfE) as (_ & _ & sd & md & Hsd & HtfE & HlenE & HobjE).
  destruct (HnM n s fM Hs HfM) as (_ & _ & sd' & md' & Hsd' & HtfM & HlenM & HobjM).
  rewrite Hsd in Hsd'. inversion Hsd'; subst sd' md'. clear Hsd'.
  pose proof (wf_sensor_ok _ Hwf) as Hok. destruct (wf_units _ Hwf) as (Hue & Huc & _).
  destruct (stored_ego2map _ _ _ Hok HtfE) as (ego & Hego & HregE).
  destruct (stored_ego2map _ _ _ Hok HtfM) as (ego' & Hego' & HregM).
  rewrite Hego in Hego'. inversion Hego'; subst ego'. clear Hego'.
  pose proof (lidar_sd_spec _ _ _ _ _ Hix Hsd) as Hkl.
  assert (exists cs, get_cs d (sd_cs sd) = Ok cs) as (cs & Hcs).
  { destruct Hkl as (_ & _ & _ & cs & sn & Hin & Htok & _).
    apply get_has. rewrite <- Htok. apply mem_str_In. now apply in_map. }
  exists sd, ego, cs. split; [assumption|].
  pose proof (get_ok _ _ _ _ Hego) as [Hine ?]. pose proof (get_ok _ _ _ _ Hcs) as [Hinc ?].
  repeat (split; [assumption|]). split; [congruence|].
  intros j oE oM HoE HoM.
  destruct (nth_error_same_length _ (annotations_of d s) j oE HlenE HoE) as (a & Ha).
  destruct (HobjE j a oE Ha HoE) as (cn & _ & HmE). destruct (HobjM j a oM Ha HoM) as (cn' & _ & HmM).
  apply make_object_ok in HmE, HmM.
  destruct HmE as (A1 & A2 & _ & _ & _ & _ & _ & _ & ApE & _).
  destruct HmM as (B1 & B2 & _ & _ & _ & _ & _ & _ & ApM & _).
  split; [congruence|]. split; [congruence|].
  simpl in ApM. inversion ApM as [[Bp Bo]]. 
  apply box_pose_base_link in ApE. destruct ApE as (ego' & cs' & He' & Hc' & Hp).
  rewrite Hego in He'. rewrite Hcs in Hc'. inversion He'; inversion Hc'; subst ego' cs'. rewrite Hp.
  split.
  - intros src. apply sensor_frame_roundtrip; [apply Hue|apply Huc]; assumption.
  - intros Hid. apply ego_frame_roundtrip; [apply Hue; assumption|assumption].
Qed.

(* ------------------------------------------------------------------------------------------ *)
(* tracking history                                                                             *)
(* ------------------------------------------------------------------------------------------ *)
Open Scope Z_scope.

(* hs is what one meets walking `prev` from a: prev(a), prev(prev(a)), ... *)
Inductive prev_walk (d : dataset) : annotation -> list annotation -> Prop :=
| pw_nil a : prev_walk d a []
| pw_cons a b l : a_prev a <> "" -> In b (anns d) -> a_token b = a_prev a -> prev_walk d b l -> prev_walk d a (b :: l).

(* the timestamp of the sample an annotation belongs to *)
Definition ann_time (d : dataset) (a : annotation) (t : Z) : Prop :=
  exists sa, get_sample d (a_sample a) = Ok sa /\ s_timestamp sa = t.

(* why a walk that ended at [lst] did not go on: no `prev`, or the next one is 3.15 s or more back *)
Definition walk_stops (d : dataset) (t0 : Z) (lst : annotation) : Prop :=
  a_prev lst = "" \/
  exists b tb, In b (anns d) /\ a_token b = a_prev lst /\ ann_time d b tb /\ t0 - tb >= window_us.

Lemma ann_time_fun d a t t' : ann_time d a t -> ann_time d a t' -> t = t'.
Proof. intros (s & Hs & <-) (s' & Hs' & <-). congruence. Qed.

Lemma sample_time_ann_time d a t : sample_time d (a_sample a) = Ok t <-> ann_time d a t.
Proof.
  unfold sample_time, ann_time. split.
  - intros H. binv H. inversion H; subst. eauto.
  - intros (sa & Hs & <-). rewrite Hs. reflexivity.
Qed.

Lemma prev_ok_step d cur nxt tc :
  prev_ok d cur = true -> a_prev cur <> "" -> get_ann d (a_prev cur) = Ok nxt -> ann_time d cur tc ->
  exists tn, ann_time d nxt tn /\ tn < tc /\ a_instance nxt = a_instance cur.
Proof.
  unfold prev_ok. intros H Hne Hg (sa & Hsa & Ht). apply String.eqb_neq in Hne. rewrite Hne in H. simpl in H.
  unfold get_ann, get in Hg. destruct (get_last a_token (anns d) (a_prev cur)) as [b|]; [|discriminate].
  inversion Hg; subst b. unfold get_sample, get in Hsa.
  destruct (get_last s_token (samples d) (a_sample cur)) as [sa'|]; [|discriminate]. inversion Hsa; subst sa'.
  apply andb_true_iff in H. destruct H as [Hi H]. apply String.eqb_eq in Hi.
  destruct (get_last s_token (samples d) (a_sample nxt)) as [sb|] eqn:Eb; [|discriminate].
  apply Z.ltb_lt in H. exists (s_timestamp sb). split; [|split; [lia|assumption]].
  exists sb. split; [|reflexivity]. unfold get_sample, get. now rewrite Eb.
Qed.

Section Iterate.
  Variable d : dataset.
  Variable t0 : Z.
  Variable itok : string.
  Hypothesis Hprev : forall a, In a (anns d) -> prev_ok d a = true.

  (* once an annotation is 3.15 s or more back, nothing further is collected *)
  Lemma iterate_beyond : forall fuel cur n hs tc,
    In cur (anns d) -> ann_time d cur tc -> t0 - tc >= window_us ->
    iterate fuel d t0 cur n = Ok hs -> hs = [].
  Proof.
    intros [|fuel] cur n hs tc Hin Ht Hge; cbn [iterate]; [discriminate|].
    destruct (Nat.leb max_history n); [intros H; inversion H; reflexivity|].
    destruct (String.eqb_spec (a_prev cur) "") as [Hp|Hp]; [intros H; inversion H; reflexivity|].
    intros H. binv H. rename x into nxt, x0 into t.
    destruct (prev_ok_step d cur nxt tc (Hprev _ Hin) Hp Hx Ht) as (tn & Htn & Hlt & _).
    apply sample_time_ann_time in Hx0. rewrite (ann_time_fun _ _ _ _ Hx0 Htn) in H.
    unfold window_us in *.
    destruct (Z.ltb_spec (Z.abs (tn - t0)) 3150000); [lia|].
    destruct (Z.eqb_spec (Z.abs (tn - t0)) 3150000); [lia|]. inversion H; reflexivity.
  Qed.

  Lemma last_cons {A} (x : A) l dflt : last (x :: l) dflt = last l x.
  Proof.
    revert x dflt; induction l as [|y l IH]; intros x dflt; [reflexivity|].
    change (last (x :: y :: l) dflt) with (last (y :: l) dflt). now rewrite (IH y dflt), (IH y x).
  Qed.

  Lemma iterate_spec : forall fuel cur n hs tc,
    In cur (anns d) -> a_instance cur = itok -> ann_time d cur tc -> tc <= t0 -> (n <= max_history)%nat ->
    iterate fuel d t0 cur n = Ok hs ->
    prev_walk d cur hs /\
    Forall (fun h => In h (anns d) /\ a_instance h = itok /\ exists th, ann_time d h th /\ 0 < t0 - th < window_us) hs /\
    ((n + List.length hs)%nat = max_history \/ walk_stops d t0 (last hs cur)).
  Proof.
    induction fuel as [|fuel IH]; intros cur n hs tc Hin Hi Ht Hle Hn; cbn [iterate]; [discriminate|].
    destruct (Nat.leb_spec max_history n) as [Hmx|Hmx].
    { intros H; injection H as <-. split; [constructor|]. split; [constructor|]. left. simpl. lia. }
    destruct (String.eqb_spec (a_prev cur) "") as [Hp|Hp].
    { intros H; injection H as <-. split; [constructor|]. split; [constructor|]. right. simpl. now left. }
    intros H. binv H. rename x into nxt, x0 into t.
    destruct (prev_ok_step d cur nxt tc (Hprev _ Hin) Hp Hx Ht) as (tn & Htn & Hlt & Hinst).
    apply sample_time_ann_time in Hx0. rewrite (ann_time_fun _ _ _ _ Hx0 Htn) in H. clear Hx0 t.
    pose proof (get_ok _ _ _ _ Hx) as [Hin' Htok].
    unfold window_us in *.
    destruct (Z.ltb_spec (Z.abs (tn - t0)) 3150000).
    - binv H. injection H as <-. rename x into rest.
      destruct (IH nxt (S n) rest tn Hin' (eq_trans Hinst Hi) Htn ltac:(lia) ltac:(lia) Hx0) as (W & F & M).
      split; [constructor; assumption|]. split.
      + constructor; [|assumption]. split; [assumption|]. split; [congruence|]. exists tn. split; [assumption|lia].
      + rewrite last_cons. simpl. destruct M as [M|M]; [left; lia|right; assumption].
    - assert (Hstop : walk_stops d t0 cur).
      { right. exists nxt, tn. repeat (split; [assumption|]). unfold window_us. lia. }
      destruct (Z.eqb_spec (Z.abs (tn - t0)) 3150000).
      + apply (iterate_beyond fuel nxt n hs tn Hin' Htn) in H; [|unfold window_us; lia]. subst hs.
        split; [constructor|]. split; [constructor|]. right. exact Hstop.
      + injection H as <-. split; [constructor|]. split; [constructor|]. right. exact Hstop.
  Qed.
End Iterate.

Lemma find_pair_acc l stok itok : forall acc,
  (forall b, In b l -> ~ (a_sample b = stok /\ a_instance b = itok)) -> find_pair l stok itok acc = acc.
Proof.
  induction l as [|b l IH]; simpl; intros acc H; [reflexivity|].
  rewrite IH by (intros; apply H; auto).
  destruct (String.eqb_spec (a_sample b) stok); [|reflexivity].
  destruct (String.eqb_spec (a_instance b) itok); [|reflexivity].
  exfalso. apply (H b); auto.
Qed.

Lemma find_pair_unique l a : forall acc,
  pairs_unique l = true -> In a l -> find_pair l (a_sample a) (a_instance a) acc = Some a.
Proof.
  induction l as [|b l IH]; simpl; intros acc Hu Hin; [contradiction|].
  apply andb_true_iff in Hu. destruct Hu as [Hn Hu]. destruct Hin as [->|Hin].
  - rewrite !String.eqb_refl. simpl. apply find_pair_acc. intros b Hb [E1 E2].
    apply negb_true_iff in Hn. assert (existsb (fun b0 => String.eqb (a_sample b0) (a_sample a) && String.eqb (a_instance b0) (a_instance a)) l = true); [|congruence].
    apply existsb_exists. exists b. split; [assumption|]. rewrite E1, E2, !String.eqb_refl. reflexivity.
  - apply IH; assumption.
Qed.

Lemma unique_tokens_parts d :
  unique_tokens d = true ->
  NoDup (map s_token (samples d)) /\ NoDup (map sd_token (sample_datas d)) /\ NoDup (map e_token (ego_poses d)) /\
  NoDup (map cs_token (calibs d)) /\ NoDup (map sn_token (sensors d)) /\ NoDup (map a_token (anns d)) /\
  NoDup (map i_token (instances d)) /\ NoDup (map c_token (categories d)) /\ NoDup (map at_token (attributes d)) /\
  NoDup (map v_token (visibilities d)).
Proof.
  unfold unique_tokens. intros H.
  repeat (apply andb_true_iff in H; let H' := fresh "U" in destruct H as [H H']; apply nodup_str_NoDup in H').
  apply nodup_str_NoDup in H. repeat split; assumption.
Qed.

Lemma annotations_of_in d s a j :
  nth_error (annotations_of d s) j = Some a -> In a (anns d) /\ a_sample a = s_token s.
Proof.
  intros H. apply nth_error_In in H. unfold annotations_of in H. apply filter_In in H.
  destruct H as [H1 H2]. apply String.eqb_eq in H2. auto.
Qed.

Theorem tracking_history_is_prev_chain d fid merge fs :
  wf d = true -> load d Tracking fid merge = Ok fs ->
  forall n s f, nth_error (samples d) n = Some s -> nth_error fs n = Some f ->
  forall j a o, nth_error (annotations_of d s) j = Some a -> nth_error (f_objects f) j = Some o ->
  exists hs,
    o_history o = Some (map past_of hs) /\
    prev_walk d a hs /\
    (List.length hs <= max_history)%nat /\
    Forall (fun h => In h (anns d) /\ a_instance h = a_instance a /\
                     exists th, ann_time d h th /\ 0 < s_timestamp s - th < window_us) hs /\
    (List.length hs = max_history \/ walk_stops d (s_timestamp s) (last hs a)).
Proof.
  intros Hwf H n s f Hs Hf j a o Ha Ho. destruct (load_frame _ _ _ _ _ H) as (Hl & ix & Hix & Hn).
  destruct (Hn n s f Hs Hf) as (_ & _ & sd & md & _ & _ & _ & Hobj).
  destruct (Hobj j a o Ha Ho) as (cname & _ & Hm). apply make_object_ok in Hm.
  destruct Hm as (_ & _ & _ & _ & _ & _ & _ & _ & _ & _ & _ & (hs & Hpast & Hhist)).
  exists hs. split; [assumption|].
  destruct (wf_parts _ Hwf) as (Huniq & _ & _ & _ & _ & Hpairs & Hprev).
  destruct (unique_tokens_parts _ Huniq) as (Us & _ & _ & _ & _ & Ua & _).
  destruct (annotations_of_in _ _ _ _ Ha) as [Hin Hsamp].
  rewrite forallb_forall in Hprev.
  unfold past_annotations in Hpast. binv Hpast. rename x into start, x0 into t0.
  assert (start = a).
  { unfold start_annotation in Hx. rewrite <- Hsamp in Hx. rewrite (find_pair_unique _ a None Hpairs Hin) in Hx.
    unfold get_ann in Hx. rewrite (get_unique a_token _ _ Ua Hin) in Hx. now inversion Hx. }
  subst start.
  assert (t0 = s_timestamp s).
  { unfold sample_time in Hx0. rewrite Hsamp in Hx0. unfold get_sample in Hx0.
    rewrite (get_unique s_token _ _ Us (nth_error_In _ _ Hs)) in Hx0. simpl in Hx0. now inversion Hx0. }
  subst t0.
  assert (Hat : ann_time d a (s_timestamp s)).
  { exists s. split; [|reflexivity]. rewrite Hsamp. unfold get_sample. apply get_unique; [assumption|]. eapply nth_error_In; eassumption. }
  destruct (iterate_spec d (s_timestamp s) (a_instance a) Hprev _ a 0%nat hs (s_timestamp s) Hin eq_refl Hat ltac:(lia) ltac:(unfold max_history; lia) Hpast)
    as (W & F & M).
  split; [assumption|]. split.
  { destruct M as [M|M]; [simpl in M; lia|].
    (* bounded by the loop test in any case *)
    clear - Hpast. unfold iterate_fuel in Hpast.
    assert (G : forall fuel cur n l, iterate fuel d (s_timestamp s) cur n = Ok l -> (n <= max_history -> n + List.length l <= max_history)%nat).
    { induction fuel as [|fuel IH]; intros cur n l; cbn [iterate]; [discriminate|].
      destruct (Nat.leb_spec max_history n) as [Hmx|Hmx]; [intros E; inversion E; simpl; lia|].
      destruct (String.eqb (a_prev cur) ""); [intros E; inversion E; simpl; lia|].
      intros E. binv E.
      destruct (Z.ltb _ _).
      - binv E. inversion E; subst. intros _. specialize (IH _ _ _ Hx1). simpl. lia.
      - destruct (Z.eqb _ _); [apply (IH _ _ _ E)|inversion E; simpl; lia]. }
    specialize (G _ _ _ _ Hpast). simpl in G. apply G. unfold max_history. lia. }
  split; [assumption|]. destruct M as [M|M]; [left; exact M|right; exact M].
Qed.

Theorem history_only_for_tracking d tk fid merge fs :
  load d tk fid merge = Ok fs -> tk <> Tracking ->
  forall n s f, nth_error (samples d) n = Some s -> nth_error fs n = Some f ->
  forall j a o, nth_error (annotations_of d s) j = Some a -> nth_error (f_objects f) j = Some o ->
    o_history o = None.
Proof.
  intros H Htk n s f Hs Hf j a o Ha Ho. destruct (load_frame _ _ _ _ _ H) as (Hl & ix & Hix & Hn).
  destruct (Hn n s f Hs Hf) as (_ & _ & sd & md & _ & _ & _ & Hobj).
  destruct (Hobj j a o Ha Ho) as (cname & _ & Hm). apply make_object_ok in Hm.
  destruct Hm as (_ & _ & _ & _ & _ & _ & _ & _ & _ & _ & _ & Hh).
  destruct tk; [assumption|contradiction|assumption].
Qed.
Close Scope Z_scope.
