(* Helper lemmas of Props/GenTieSensing.v (generated sensing layer = hand models Model/Sensing.v / Model/Winding.v, for lists of any
   length).

   Of Gen/loops_sensing.v only PART 1 is used here (the fixed text: exceptions, the error monad, the attributes of a
   SensingFrameConfig, the leaf `crop`); no generated function is mentioned (they are regenerated on every run; this file is not).

   1. what a config object built by the constructor is ([config_of]) and the scale a config object really applies ([fc_scale]:
      the slope CACHED by the constructor, whatever box_scale_100m holds afterwards);
   2. the model's executable definitions generalised over the scale function and the point threshold ([result_with],
      [eval_detection_with], [crop_outside_with], [eval_non_detection_with]), with the proofs that at (scale_of cfg, c_min_points cfg)
      they ARE Model/Sensing.v's -- the `_outside` companions are stated with them;
   3. LOOP RULES for the shapes translator/loops_sensing.py emits (a `for x in xs` is  fold_left body xs (Ok <state>)  in the error
      monad): when ONE iteration of the generated body is the model's step (the only obligation left to the caller, closed by the
      case-splitting tactic [stie]), the whole loop started from ANY state computes the model's recursive function. *)
From Coq Require Import String.
From Coq Require Import List Bool ZArith Arith QArith Lia.
From PE Require Import Base.QUtil.
From PE Require Import Model.Winding Model.Sensing.
From PE Require Gen.loops_sensing.
Import Gen.loops_sensing.
Import ListNotations.
Open Scope list_scope.
Open Scope Q_scope.

(* ---- the monad ------------------------------------------------------------------------------------------------------------------- *)
Lemma bind_assoc {A B C} (m : res A) (f : A -> res B) (g : B -> res C) : bind (bind m f) g = bind m (fun x => bind (f x) g).
Proof. destruct m; reflexivity. Qed.
Lemma bind_ret {A} (m : res A) : bind m (fun x => Ok x) = m.
Proof. destruct m; reflexivity. Qed.
Lemma bind_ret_triple {A B C} (m : res (A * B * C)) : bind m (fun '(a, b, c) => Ok (a, b, c)) = m.
Proof. destruct m as [[[a b] c]|]; reflexivity. Qed.
Lemma bind_ext {A B} (m m' : res A) (f f' : A -> res B) : m = m' -> (forall a, f a = f' a) -> bind m f = bind m' f'.
Proof. intros -> H. destruct m'; simpl; auto. Qed.
Lemma fold_err {St A} (body : res St -> A -> res St) xs e :
  (forall x, body (Err e) x = Err e) -> fold_left body xs (Err e) = Err e.
Proof. intros H. induction xs; simpl; [reflexivity|]. rewrite H. exact IHxs. Qed.

(* ---- 1. config objects ------------------------------------------------------------------------------------------------------------- *)
(* SensingFrameConfig(target_uuids, box_scale_0m, box_scale_100m, min_points_threshold) *)
Definition config_of (uuids : option (list string)) (cfg : sensing_config) : frame_config :=
  mkFC uuids (c_s0 cfg) (c_s100 cfg) (c_min_points cfg) ((1 # 100) * (c_s100 cfg - c_s0 cfg)).
(* what get_scale_factor computes from the attributes of ANY config object *)
Definition fc_scale (fc : frame_config) (g : gt_object) : Q := fc_slope fc * g_dist g + fc_s0 fc.
Lemma fc_scale_config_of uuids cfg g : fc_scale (config_of uuids cfg) g = scale_of cfg g.
Proof. reflexivity. Qed.

(* ---- 2. the model's definitions over an arbitrary scale ---------------------------------------------------------------------------- *)
(* DynamicObjectWithSensingResult(ground_truth_object, pointcloud, scale_factor = k, min_points_threshold = m) *)
Definition result_k (k : Q) (m : Z) (cloud : list point) (ig : nat * gt_object) : sensing_result :=
  let g := snd ig in
  let ins := box_crop_idx (g_box g) k true cloud in
  let n := length ins in
  mkRes (fst ig) ins n (m <=? Z.of_nat n)%Z (is_occluded (g_vis g)).

Section WithScale.
  Variable sc : gt_object -> Q.
  Variable m : Z.
  Definition result_with (cloud : list point) (ig : nat * gt_object) : sensing_result := result_k (sc (snd ig)) m cloud ig.
  Fixpoint eval_detection_with (cloud : list point) (gts : list (nat * gt_object)) : det_lists :=
    match gts with
    | [] => ([], [], [])
    | ig :: t =>
        let r := result_with cloud ig in
        let '(su, fa, wa) := eval_detection_with cloud t in
        if r_occluded r then (su, fa, r :: wa)
        else if r_detected r then (r :: su, fa, wa)
        else (su, r :: fa, wa)
    end.
  Definition crop_outside_with (gts : list gt_object) (pc : list point) : list point :=
    fold_left (fun acc g => filter (box_selected (g_box g) (sc g) false) acc) gts pc.
  Fixpoint eval_non_detection_with (gts : list gt_object) (pcs : list (list point)) : list (list point) :=
    match pcs with
    | [] => []
    | pc :: t =>
        match crop_outside_with gts pc with
        | [] => eval_non_detection_with gts t
        | (_ :: _) as rem => rem :: eval_non_detection_with gts t
        end
    end.
End WithScale.

Lemma result_with_model cfg cloud ig : result_with (scale_of cfg) (c_min_points cfg) cloud ig = sensing_result_of cfg cloud ig.
Proof. reflexivity. Qed.
Lemma eval_detection_with_model cfg cloud gts :
  eval_detection_with (scale_of cfg) (c_min_points cfg) cloud gts = eval_detection cfg cloud gts.
Proof. induction gts as [|ig t IH]; [reflexivity|]. cbn [eval_detection_with eval_detection]. rewrite IH, result_with_model. reflexivity. Qed.
Lemma crop_outside_with_model cfg gts pc : crop_outside_with (scale_of cfg) gts pc = crop_outside_boxes (fun p => p) cfg gts pc.
Proof. reflexivity. Qed.
Lemma eval_non_detection_with_model cfg gts pcs :
  eval_non_detection_with (scale_of cfg) gts pcs = eval_non_detection (fun p => p) cfg gts pcs.
Proof.
  induction pcs as [|pc t IH]; [reflexivity|]. cbn [eval_non_detection_with eval_non_detection].
  rewrite IH, crop_outside_with_model. reflexivity.
Qed.

(* only the values of the scale function matter *)
Lemma eval_detection_with_ext sc sc' m cloud gts :
  (forall g, sc g = sc' g) -> eval_detection_with sc m cloud gts = eval_detection_with sc' m cloud gts.
Proof. intros H. induction gts as [|ig t IH]; [reflexivity|]. cbn [eval_detection_with]. unfold result_with. rewrite IH, H. reflexivity. Qed.
Lemma crop_outside_with_ext sc sc' gts pc : (forall g, sc g = sc' g) -> crop_outside_with sc gts pc = crop_outside_with sc' gts pc.
Proof. intros H. unfold crop_outside_with. revert pc. induction gts as [|g t IH]; intros pc; cbn [fold_left]; [reflexivity|]. rewrite H. apply IH. Qed.
Lemma eval_non_detection_with_ext sc sc' gts pcs :
  (forall g, sc g = sc' g) -> eval_non_detection_with sc gts pcs = eval_non_detection_with sc' gts pcs.
Proof.
  intros H. induction pcs as [|pc t IH]; [reflexivity|]. cbn [eval_non_detection_with].
  rewrite IH, (crop_outside_with_ext sc sc' gts pc H). reflexivity.
Qed.

(* objects are handed to the frame as (index in the caller's list, facts) *)
Lemma map_snd_combine_seq {A} (l : list A) s : map snd (combine (seq s (length l)) l) = l.
Proof. revert s. induction l as [|a l IH]; intros s; [reflexivity|]. cbn. rewrite IH. reflexivity. Qed.
Lemma map_snd_indexed {A} (l : list A) : map snd (indexed l) = l.
Proof. apply map_snd_combine_seq. Qed.

(* ---- 3. loop rules ------------------------------------------------------------------------------------------------------------------- *)
(* if is_occluded: warning / elif is_detected: success / else: fail *)
Definition det_step (r : sensing_result) (st : det_lists) : det_lists :=
  let '(su, fa, wa) := st in
  if r_occluded r then (su, fa, wa ++ [r]) else if r_detected r then (su ++ [r], fa, wa) else (su, fa ++ [r], wa).
Definition app3 (a b : det_lists) : det_lists :=
  let '(a1, a2, a3) := a in let '(b1, b2, b3) := b in (a1 ++ b1, a2 ++ b2, a3 ++ b3).

Lemma loop_detection sc m cloud (body : res det_lists -> nat * gt_object -> res det_lists) :
  (forall su fa wa ig, body (Ok (su, fa, wa)) ig = Ok (det_step (result_with sc m cloud ig) (su, fa, wa))) ->
  forall gts su fa wa, fold_left body gts (Ok (su, fa, wa)) = Ok (app3 (su, fa, wa) (eval_detection_with sc m cloud gts)).
Proof.
  intros H. induction gts as [|ig t IH]; intros su fa wa.
  - cbn. rewrite !app_nil_r. reflexivity.
  - cbn [fold_left eval_detection_with]. rewrite H. unfold det_step.
    destruct (r_occluded (result_with sc m cloud ig)); [|destruct (r_detected (result_with sc m cloud ig))];
      rewrite IH; destruct (eval_detection_with sc m cloud t) as [[a b] c]; cbn [app3]; rewrite <- ?app_assoc; reflexivity.
Qed.

(* for ground_truth_object in ground_truth_objects: point_non_detection = crop(point_non_detection, box of the object, inside=False) *)
Lemma loop_crop_boxes sc (body : res (list point) -> nat * gt_object -> res (list point)) :
  (forall pc ig, body (Ok pc) ig = Ok (filter (box_selected (g_box (snd ig)) (sc (snd ig)) false) pc)) ->
  forall igs pc, fold_left body igs (Ok pc) = Ok (crop_outside_with sc (map snd igs) pc).
Proof.
  intros H. unfold crop_outside_with. induction igs as [|ig t IH]; intros pc; [reflexivity|].
  cbn [fold_left map]. rewrite H. apply IH.
Qed.

(* for point_non_detection in pointcloud_for_non_detection: <crop>; if len(point_non_detection) != 0: failed.append(...) *)
Definition nondet_step (rem : list point) (nd : list (list point)) : list (list point) :=
  match rem with [] => nd | _ :: _ => nd ++ [rem] end.
Lemma loop_non_detection sc gts (body : res (list (list point)) -> list point -> res (list (list point))) :
  (forall nd pc, body (Ok nd) pc = Ok (nondet_step (crop_outside_with sc gts pc) nd)) ->
  forall pcs nd, fold_left body pcs (Ok nd) = Ok (nd ++ eval_non_detection_with sc gts pcs).
Proof.
  intros H. induction pcs as [|pc t IH]; intros nd.
  - cbn. rewrite app_nil_r. reflexivity.
  - cbn [fold_left eval_non_detection_with]. rewrite H. unfold nondet_step.
    destruct (crop_outside_with sc gts pc) as [|p r]; rewrite IH; [reflexivity|]. rewrite <- app_assoc. reflexivity.
Qed.

(* the leaf `crop` on the corners of a box: the area always has 8 vertices *)
Lemma crop_box (b : box) (k : Q) (inside : bool) (pc : list point) :
  crop pc (box_corners b k) inside = Ok (filter (box_selected b k inside) pc).
Proof.
  assert (L : length (box_corners b k) = 8%nat) by (unfold box_corners; rewrite map_length, app_length, !map_length; reflexivity).
  unfold crop, area_ok. rewrite L. reflexivity.
Qed.

(* the geometry is a leaf of this layer: never unfolded by the proof search (a false equation fails at once) *)
Global Opaque box_crop_idx box_selected box_corners.

(* ---- the one proof tactic: normalise the monad, split the scrutinee that blocks reduction ------------------------------------------ *)
Ltac sdestruct s :=
  lazymatch s with
  | Qltb ?a ?b => destruct (Qltb_spec a b)
  | Qleb ?a ?b => destruct (Qleb_spec a b)
  | Qeqb ?a ?b => destruct (Qeqb_spec a b)
  | Z.leb ?a ?b => destruct (Z.leb_spec a b)
  | Z.ltb ?a ?b => destruct (Z.ltb_spec a b)
  | Z.eqb ?a ?b => destruct (Z.eqb_spec a b)
  | Nat.eqb ?a ?b => destruct (Nat.eqb_spec a b)
  | Nat.leb ?a ?b => destruct (Nat.leb_spec a b)
  | Nat.ltb ?a ?b => destruct (Nat.ltb_spec a b)
  | _ => destruct s eqn:?
  end.
Ltac ssplit :=
  match goal with
  | |- context [match ?s with _ => _ end] =>
      lazymatch s with
      | context [match _ with _ => _ end] => fail
      | _ => sdestruct s
      end
  | |- context [Z.leb ?a ?b] => destruct (Z.leb_spec a b)
  | |- context [Z.ltb ?a ?b] => destruct (Z.ltb_spec a b)
  | |- context [Nat.eqb ?a ?b] => destruct (Nat.eqb_spec a b)
  | |- context [Nat.ltb ?a ?b] => destruct (Nat.ltb_spec a b)
  | |- context [Nat.leb ?a ?b] => destruct (Nat.leb_spec a b)
  end.
Ltac snorm :=
  cbv zeta; cbv delta [result_k]; cbv beta zeta;
  repeat (progress (cbn [bind andb orb negb length app3 det_step nondet_step r_obj r_inside r_num r_detected r_occluded fst snd];
                    rewrite ?map_id, ?crop_box, ?bind_assoc)).
(* the geometric leaves are compared as atoms: an application of a leaf is replaced by a variable before terms are compared *)
Ltac sabstract :=
  repeat match goal with
         | |- context [box_crop_idx ?a ?b ?c ?d] => generalize (box_crop_idx a b c d); intro
         | |- context [box_selected ?a ?b ?c] => generalize (box_selected a b c); intro
         | |- context [box_corners ?a ?b] => generalize (box_corners a b); intro
         end.
Ltac sclose := first [ reflexivity | congruence | exfalso; lia | exfalso; congruence | exfalso; cbn [length] in *; lia ].
Ltac stie_go := snorm; sabstract; first [ reflexivity | once ssplit; stie_go | sclose ].
Ltac stie := intros; timeout 30 (solve [ stie_go ]).
