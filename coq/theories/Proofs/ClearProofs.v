(* C05 -- proofs about the CLEAR model (Model/Clear.v).  Statements are collected in Props/C05.v. *)
From Coq Require Import List Bool Arith ZArith QArith Lia Lqa.
From PE Require Import Base.QUtil Model.Clear.
Import ListNotations.
Open Scope Q_scope.

(* ---------- small facts ---------- *)
Lemma max0_nonneg x : 0 <= max0 x.
Proof. unfold max0. destruct (Qltb_spec 0 x); lra. Qed.
Lemma max0_ge x : x <= max0 x.
Proof. unfold max0. destruct (Qltb_spec 0 x); lra. Qed.
Lemma max0_cases x : (0 < x /\ max0 x = x) \/ (x <= 0 /\ max0 x = 0).
Proof. unfold max0. destruct (Qltb_spec 0 x); [left|right]; split; auto; lra. Qed.

Lemma is_correct_has_gt m t r : is_correct m t r = true -> r_gt r <> None.
Proof. unfold is_correct. destruct (r_gt r); congruence. Qed.

Lemma is_same_has_gt c p : is_same c p = true -> r_gt c <> None /\ r_gt p <> None.
Proof. unfold is_same. destruct (r_gt c), (r_gt p); intros; split; congruence. Qed.

Lemma same_not_switched c p : is_same c p = true -> is_switched c p = false.
Proof.
  unfold is_same, is_switched. destruct (r_gt c), (r_gt p); try discriminate.
  cbv zeta. intros H. apply andb_true_iff in H. destruct H as [-> ->]. reflexivity.
Qed.

(* is_switched in closed form: exactly one of "same estimated track", "same ground truth" *)
Lemma is_switched_xor c p : is_switched c p = match r_gt c, r_gt p with
   | Some gc, Some gp => xorb (same_est c p) (Nat.eqb (g_id gc) (g_id gp)) | _, _ => false end.
Proof.
  unfold is_switched. destruct (r_gt c), (r_gt p); auto. cbv zeta.
  destruct (same_est c p), (Nat.eqb _ _); reflexivity.
Qed.

(* ---------- the inner loop ---------- *)
Definition hit (m : mode) (t : Q) (c p : result) : bool :=
  is_correct m t p && (is_switched c p || is_same c p).

Lemma scan_find m t c prevs :
  scan m t c prevs false =
  match find (hit m t c) prevs with
  | None => (None, false)
  | Some p => if is_switched c p then (None, true) else (Some p, false)
  end.
Proof.
  induction prevs as [|p ps IH]; [reflexivity|].
  cbn [scan find]. unfold hit at 1.
  destruct (is_correct m t p); cbn [negb andb]; [|exact IH].
  destruct (is_switched c p) eqn:Es; cbn [orb]; [rewrite Es; reflexivity|].
  destruct (is_same c p) eqn:Ea; [rewrite Es; reflexivity|exact IH].
Qed.

Lemma scan_same_sound m t c prevs p sw :
  scan m t c prevs false = (Some p, sw) ->
  In p prevs /\ is_correct m t p = true /\ is_same c p = true /\ sw = false.
Proof.
  rewrite scan_find. destruct (find (hit m t c) prevs) as [q|] eqn:F; [|discriminate].
  apply find_some in F. destruct F as [Hin Hh]. unfold hit in Hh.
  destruct (is_switched c q) eqn:Es; [discriminate|]. intros H; inversion H; subst.
  apply andb_true_iff in Hh. destruct Hh as [Hc Ho]. cbn [orb] in Ho. auto.
Qed.

(* the score of a previous result is only read when that result has a ground truth *)
Lemma carried_score_guarded m t c prevs p sw :
  scan m t c prevs false = (Some p, sw) -> exists g, r_gt p = Some g /\ score_of p = g_score g.
Proof.
  intros H. apply scan_same_sound in H. destruct H as (_ & Hc & _ & _).
  unfold is_correct in Hc. unfold score_of. destruct (r_gt p) as [g|]; [eauto|discriminate].
Qed.
Lemma own_score_guarded m t c : is_correct m t c = true -> exists g, r_gt c = Some g /\ score_of c = g_score g.
Proof. unfold is_correct, score_of. destruct (r_gt c) as [g|]; [eauto|discriminate]. Qed.

(* ---------- partition ---------- *)
Definition b2n (b : bool) : nat := if b then 1%nat else 0%nat.

Lemma decide_ignored m T prevs c : is_target T c = false -> decide m T prevs c = DIgnored.
Proof. unfold is_target, decide. destruct (label_threshold T (thr_label c)); [discriminate|reflexivity]. Qed.

Lemma decide_target m T prevs c : is_target T c = true -> decide m T prevs c <> DIgnored.
Proof.
  unfold is_target, decide. destruct (label_threshold T (thr_label c)); [|discriminate]. intros _.
  destruct (scan m q c prevs false) as [[p|] sw]; [discriminate|]. destruct (is_correct m q c); discriminate.
Qed.

(* each result adds exactly one to TP or to FP if its label is evaluated, nothing otherwise *)
Lemma step_partition m T prevs a c :
  let a' := apply_dec a (decide m T prevs c) in
  if is_target T c
  then (c_tp a' = S (c_tp a) /\ c_fp a' = c_fp a) \/ (c_tp a' = c_tp a /\ c_fp a' = S (c_fp a))
  else a' = a.
Proof.
  cbv zeta. destruct (is_target T c) eqn:E.
  - pose proof (decide_target m T prevs c E) as H. destruct (decide m T prevs c); cbn; auto. congruence.
  - rewrite decide_ignored by assumption. reflexivity.
Qed.

Lemma step_tp_fp m T prevs a c :
  let a' := apply_dec a (decide m T prevs c) in
  (c_tp a' + c_fp a' = c_tp a + c_fp a + b2n (is_target T c))%nat /\ c_num a' = c_num a.
Proof.
  cbv zeta. pose proof (step_partition m T prevs a c) as H. cbv zeta in H.
  destruct (is_target T c); cbn [b2n].
  - split; [lia|]. destruct (decide m T prevs c); reflexivity.
  - rewrite H. split; lia.
Qed.

Lemma fold_tp_fp m T prevs curs : forall a,
  let a' := fold_left (fun a c => apply_dec a (decide m T prevs c)) curs a in
  (c_tp a' + c_fp a' = c_tp a + c_fp a + countb (is_target T) curs)%nat /\ c_num a' = c_num a.
Proof.
  induction curs as [|c cs IH]; intros a; cbn [fold_left]; [unfold countb; cbn; split; lia|].
  cbv zeta in *. destruct (IH (apply_dec a (decide m T prevs c))) as [H1 H2].
  destruct (step_tp_fp m T prevs a c) as [H3 H4]. cbv zeta in H3, H4.
  rewrite H1, H2, H3, H4. unfold countb. cbn [filter]. destruct (is_target T c); cbn [length b2n]; split; lia.
Qed.

Lemma calc_tp_fp_partition m T prevs curs :
  (c_tp (calc_tp_fp m T prevs curs) + c_fp (calc_tp_fp m T prevs curs) = countb (is_target T) curs)%nat
  /\ c_num (calc_tp_fp m T prevs curs) = 0%nat.
Proof. unfold calc_tp_fp. destruct (fold_tp_fp m T prevs curs zero) as [H1 H2]. cbv zeta in *. rewrite H1, H2. cbn. split; lia. Qed.

Lemma countb_app {A} (f : A -> bool) l1 l2 : countb f (l1 ++ l2) = (countb f l1 + countb f l2)%nat.
Proof. unfold countb. rewrite filter_app, app_length. reflexivity. Qed.

Lemma accumulate_partition m T : forall rest prev a,
  let a' := accumulate m T prev rest a in
  (c_tp a' + c_fp a' = c_tp a + c_fp a + countb (is_target T) (concat rest))%nat /\
  c_num a' = (c_num a + length (concat rest))%nat.
Proof.
  induction rest as [|cur rest IH]; intros prev a; cbn [accumulate concat].
  - unfold countb; cbn. split; lia.
  - cbv zeta in *. destruct (IH cur (add_counters a (calc_tp_fp m T prev cur) (length cur))) as [H1 H2].
    rewrite H1, H2. destruct (calc_tp_fp_partition m T prev cur) as [H3 _].
    rewrite countb_app, app_length. cbn [add_counters c_tp c_fp c_num]. split; lia.
Qed.

Theorem clear_partition m T h :
  let a := clear_counts m T h in
  (c_tp a + c_fp a = countb (is_target T) (evaluated h))%nat /\ c_num a = length (evaluated h).
Proof.
  cbv zeta. destruct h as [|f0 rest]; [cbn; auto|].
  unfold clear_counts, evaluated. cbn [tl].
  destruct (accumulate_partition m T rest f0 zero) as [H1 H2]. cbv zeta in *. rewrite H1, H2. cbn. split; lia.
Qed.

(* ---------- refinement to the declarative specification ---------- *)
Definition cs (m : mode) (t : Q) (c p : result) : bool := is_correct m t p && is_same c p.

Lemma same_est_trans_l c p q : same_est c p = true -> same_est c q = same_est p q.
Proof.
  unfold same_est. intros H. apply andb_true_iff in H. destruct H as [H1 H2].
  apply Nat.eqb_eq in H1. apply Nat.eqb_eq in H2. rewrite H1, H2. reflexivity.
Qed.

Lemma consistent_carried_no_switch m t prevs c p :
  pairing_consistent m t prevs -> In p prevs -> is_correct m t p = true -> is_same c p = true ->
  forall q, In q prevs -> is_correct m t q = true -> is_switched c q = false.
Proof.
  intros Hc Hp Hcp Hs q Hq Hcq.
  specialize (Hc p q Hp Hq Hcp Hcq).
  rewrite is_switched_xor. unfold is_same in Hs. unfold same_gt in Hc.
  pose proof (is_correct_has_gt _ _ _ Hcq) as Hgq.
  destruct (r_gt c) as [gc|]; [|reflexivity]. destruct (r_gt p) as [gp|]; [|discriminate].
  destruct (r_gt q) as [gq|]; [|congruence].
  apply andb_true_iff in Hs. destruct Hs as [Hse Hg]. apply Nat.eqb_eq in Hg.
  rewrite (same_est_trans_l c p q Hse), Hc, Hg. apply xorb_nilpotent.
Qed.

Lemma find_ext_in {A} (f g : A -> bool) l : (forall x, In x l -> f x = g x) -> find f l = find g l.
Proof.
  induction l as [|a l IH]; intros H; [reflexivity|]. cbn [find].
  rewrite (H a (or_introl eq_refl)). rewrite IH; [reflexivity|]. intros x Hx. apply H. right. exact Hx.
Qed.

Lemma find_none_existsb {A} (f : A -> bool) l : find f l = None -> existsb f l = false.
Proof.
  induction l as [|a l IH]; [reflexivity|]. cbn [find existsb]. destruct (f a); [discriminate|]. exact IH.
Qed.
Lemma find_some_existsb {A} (f : A -> bool) l x : find f l = Some x -> existsb f l = true.
Proof. intros H. apply find_some in H. apply existsb_exists. exists x. exact H. Qed.

Lemma decide_spec m T prevs c t :
  label_threshold T (thr_label c) = Some t -> pairing_consistent m t prevs ->
  decide m T prevs c =
  match find (cs m t c) prevs with
  | Some p => DCarry (score_of p)
  | None => if is_correct m t c then DNew (score_of c) (switchedb m t prevs c) else DFp
  end.
Proof.
  intros Ht Hc. unfold decide. rewrite Ht, scan_find.
  destruct (find (cs m t c) prevs) as [p|] eqn:Fc.
  - (* carried: no correct previous result is switched, so the first hit is the first same match *)
    pose proof (find_some _ _ Fc) as [Hp Hcs]. unfold cs in Hcs. apply andb_true_iff in Hcs. destruct Hcs as [Hcp Hsp].
    assert (E : find (hit m t c) prevs = find (cs m t c) prevs).
    { apply find_ext_in. intros q Hq. unfold hit, cs. destruct (is_correct m t q) eqn:Eq; [|reflexivity].
      rewrite (consistent_carried_no_switch m t prevs c p Hc Hp Hcp Hsp q Hq Eq). reflexivity. }
    rewrite E, Fc, (same_not_switched _ _ Hsp). reflexivity.
  - (* not carried: a hit, if any, is a switch *)
    assert (Hn : forall q, In q prevs -> cs m t c q = false) by (intros q Hq; exact (find_none _ _ Fc q Hq)).
    destruct (find (hit m t c) prevs) as [q|] eqn:Fh.
    + pose proof (find_some _ _ Fh) as [Hq Hh]. specialize (Hn q Hq). unfold hit in Hh. unfold cs in Hn.
      apply andb_true_iff in Hh. destruct Hh as [Hcq Ho]. rewrite Hcq in Hn. cbn [andb] in Hn. rewrite Hn, orb_false_r in Ho.
      rewrite Ho. assert (Hs : switchedb m t prevs c = true).
      { unfold switchedb. apply existsb_exists. exists q. rewrite Hcq, Ho. auto. }
      rewrite Hs. reflexivity.
    + assert (Hs : switchedb m t prevs c = false).
      { unfold switchedb. apply not_true_is_false. intros H. apply existsb_exists in H. destruct H as (q & Hq & Hh).
        pose proof (find_none _ _ Fh q Hq) as Hf. unfold hit in Hf. apply andb_true_iff in Hh. destruct Hh as [H1 H2].
        rewrite H1, H2 in Hf. discriminate. }
      rewrite Hs. reflexivity.
Qed.

Lemma step_spec m T prevs a c :
  (forall t, label_threshold T (thr_label c) = Some t -> pairing_consistent m t prevs) ->
  let a' := apply_dec a (decide m T prevs c) in
  c_tp a' = (c_tp a + b2n (spec_tp m T prevs c))%nat /\ c_fp a' = (c_fp a + b2n (spec_fp m T prevs c))%nat /\
  c_sw a' = (c_sw a + b2n (spec_sw m T prevs c))%nat /\ c_score a' == c_score a + spec_score m T prevs c /\
  c_num a' = c_num a.
Proof.
  intros Hc. cbv zeta. unfold spec_tp, spec_fp, spec_sw, spec_score.
  destruct (label_threshold T (thr_label c)) as [t|] eqn:Ht.
  - rewrite (decide_spec m T prevs c t Ht (Hc t eq_refl)). unfold carriedb. fold (cs m t c).
    destruct (find (cs m t c) prevs) as [p|] eqn:F.
    + rewrite (find_some_existsb _ _ _ F). cbn. repeat split; try lia. destruct (is_correct m t c); cbn; lia.
    + rewrite (find_none_existsb _ _ F). cbn [orb negb andb].
      destruct (is_correct m t c); cbn [apply_dec c_tp c_fp c_sw c_score c_num b2n andb negb].
      * destruct (switchedb m t prevs c); cbn [b2n]; repeat split; try lia; reflexivity.
      * repeat split; try lia. ring.
  - unfold decide. rewrite Ht. cbn. repeat split; try lia. ring.
Qed.

Lemma fold_spec m T prevs curs :
  (forall c t, In c curs -> label_threshold T (thr_label c) = Some t -> pairing_consistent m t prevs) ->
  forall a,
  let a' := fold_left (fun a c => apply_dec a (decide m T prevs c)) curs a in
  c_tp a' = (c_tp a + countb (spec_tp m T prevs) curs)%nat /\ c_fp a' = (c_fp a + countb (spec_fp m T prevs) curs)%nat /\
  c_sw a' = (c_sw a + countb (spec_sw m T prevs) curs)%nat /\
  c_score a' == c_score a + qsum (map (spec_score m T prevs) curs) /\ c_num a' = c_num a.
Proof.
  induction curs as [|c cs0 IH]; intros Hc a; cbn [fold_left].
  - unfold countb. cbn. repeat split; try lia. ring.
  - cbv zeta in *.
    destruct (IH (fun c' t Hin => Hc c' t (or_intror Hin)) (apply_dec a (decide m T prevs c))) as (H1 & H2 & H3 & H4 & H5).
    destruct (step_spec m T prevs a c (fun t => Hc c t (or_introl eq_refl))) as (G1 & G2 & G3 & G4 & G5). cbv zeta in *.
    rewrite H1, H2, H3, H4, H5, G1, G2, G3, G4, G5. unfold countb. cbn [filter map qsum].
    destruct (spec_tp m T prevs c), (spec_fp m T prevs c), (spec_sw m T prevs c); cbn [length b2n]; repeat split; try lia; ring.
Qed.

Lemma calc_spec m T prevs curs :
  (forall t, pairing_consistent m t prevs) -> counters_eq (calc_tp_fp m T prevs curs) (spec_frame m T prevs curs).
Proof.
  intros Hc. unfold calc_tp_fp, counters_eq.
  destruct (fold_spec m T prevs curs (fun _ t _ _ => Hc t) zero) as (H1 & H2 & H3 & H4 & H5). cbv zeta in *.
  rewrite H1, H2, H3, H4, H5. cbn. repeat split; try lia. ring.
Qed.

Lemma accumulate_spec m T : forall rest prev a,
  (forall f, In f (prev :: rest) -> forall t, pairing_consistent m t f) ->
  let a' := accumulate m T prev rest a in
  let s := spec_history m T prev rest in
  c_tp a' = (c_tp a + c_tp s)%nat /\ c_fp a' = (c_fp a + c_fp s)%nat /\ c_sw a' = (c_sw a + c_sw s)%nat /\
  c_score a' == c_score a + c_score s /\ c_num a' = (c_num a + c_num s)%nat.
Proof.
  induction rest as [|cur rest IH]; intros prev a Hc; cbn [accumulate spec_history].
  - cbn. repeat split; try lia. ring.
  - cbv zeta in *.
    destruct (IH cur (add_counters a (calc_tp_fp m T prev cur) (length cur)) (fun f Hf => Hc f (or_intror Hf))) as (H1 & H2 & H3 & H4 & H5).
    destruct (calc_spec m T prev cur (Hc prev (or_introl eq_refl))) as (G1 & G2 & G3 & G4 & G5).
    rewrite H1, H2, H3, H4, H5. cbn [add_counters c_tp c_fp c_sw c_score c_num]. rewrite G1, G2, G3, G4.
    cbn [spec_frame c_tp c_fp c_sw c_score c_num]. repeat split; try lia. ring.
Qed.

Theorem clear_refines_spec m T h :
  (forall f, In f h -> forall t, pairing_consistent m t f) ->
  counters_eq (clear_counts m T h) (spec_counts m T h).
Proof.
  intros Hc. destruct h as [|f0 rest]; [cbn; repeat split; reflexivity|].
  unfold clear_counts, spec_counts, counters_eq.
  destruct (accumulate_spec m T rest f0 zero Hc) as (H1 & H2 & H3 & H4 & H5). cbv zeta in *.
  rewrite H1, H2, H3, H4, H5. cbn. repeat split; try lia. ring.
Qed.

(* per-frame uniqueness implies a consistent pairing *)
Lemma NoDup_map_In_inj {A B} (f : A -> B) l :
  NoDup (map f l) -> forall x y, In x l -> In y l -> f x = f y -> x = y.
Proof.
  induction l as [|a l IH]; cbn [map]; intros Hn x y Hx Hy E; [destruct Hx|].
  apply NoDup_cons_iff in Hn. destruct Hn as [Hna Hn].
  destruct Hx as [<-|Hx], Hy as [<-|Hy]; auto.
  - exfalso. apply Hna. rewrite E. apply in_map. exact Hy.
  - exfalso. apply Hna. rewrite <- E. apply in_map. exact Hx.
Qed.

Lemma NoDup_app_disj {A} (l1 l2 : list A) : NoDup (l1 ++ l2) -> NoDup l2 /\ forall x, In x l1 -> ~ In x l2.
Proof.
  induction l1 as [|a l1 IH]; cbn [app]; intros H; [split; auto|].
  apply NoDup_cons_iff in H. destruct H as [Ha H]. destruct (IH H) as [H2 Hd]. split; [exact H2|].
  intros x [<-|Hx]; [intros Hin; apply Ha; apply in_or_app; right; exact Hin|apply Hd; exact Hx].
Qed.

Lemma NoDup_flat_map_inj {A B} (g : A -> list B) l :
  NoDup (flat_map g l) -> forall p q x, In p l -> In q l -> In x (g p) -> In x (g q) -> p = q.
Proof.
  induction l as [|a l IH]; cbn [flat_map]; intros Hn p q x Hp Hq Xp Xq; [destruct Hp|].
  destruct (NoDup_app_disj _ _ Hn) as [Hn2 Hd].
  destruct Hp as [<-|Hp], Hq as [<-|Hq]; auto.
  - exfalso. apply (Hd x Xp). apply in_flat_map. exists q. auto.
  - exfalso. apply (Hd x Xq). apply in_flat_map. exists p. auto.
  - apply (IH Hn2 p q x); auto.
Qed.

Lemma same_est_refl p : same_est p p = true.
Proof. unfold same_est. rewrite !Nat.eqb_refl. reflexivity. Qed.

Lemma same_est_key p q : same_est p q = true <-> est_key p = est_key q.
Proof.
  unfold same_est, est_key. rewrite andb_true_iff, !Nat.eqb_eq. split; [intros [-> ->]; reflexivity|intros H; inversion H; auto].
Qed.

Lemma frame_unique_consistent f : frame_unique f -> forall m t, pairing_consistent m t f.
Proof.
  intros [He Hg] m t p q Hp Hq Hcp Hcq.
  destruct (same_est p q) eqn:E.
  - apply same_est_key in E. pose proof (NoDup_map_In_inj _ _ He p q Hp Hq E) as ->.
    unfold same_gt. pose proof (is_correct_has_gt _ _ _ Hcq). destruct (r_gt q); [|congruence]. symmetry. apply Nat.eqb_refl.
  - unfold same_gt. pose proof (is_correct_has_gt _ _ _ Hcq). pose proof (is_correct_has_gt _ _ _ Hcp).
    destruct (r_gt p) as [gp|] eqn:Gp; [|congruence]. destruct (r_gt q) as [gq|] eqn:Gq; [|congruence].
    destruct (Nat.eqb (g_id gp) (g_id gq)) eqn:Eg; [|reflexivity]. apply Nat.eqb_eq in Eg.
    assert (p = q).
    { unfold gt_ids in Hg. apply (NoDup_flat_map_inj _ _ Hg p q (g_id gp)); auto.
      - rewrite Gp. left. reflexivity.
      - rewrite Gq. left. symmetry. exact Eg. }
    subst q. rewrite same_est_refl in E. discriminate.
Qed.

Corollary clear_refines_spec_unique m T h :
  (forall f, In f h -> frame_unique f) -> counters_eq (clear_counts m T h) (spec_counts m T h).
Proof. intros H. apply clear_refines_spec. intros f Hf t. apply frame_unique_consistent. apply H. exact Hf. Qed.

(* the booleans of the specification, as propositions *)
Lemma carriedb_iff m t prevs r :
  carriedb m t prevs r = true <-> exists p, In p prevs /\ is_correct m t p = true /\ is_same r p = true.
Proof.
  unfold carriedb. rewrite existsb_exists. split; intros (p & Hp & H); exists p; split; auto.
  - apply andb_true_iff in H. exact H.
  - apply andb_true_iff. exact H.
Qed.
Lemma switchedb_iff m t prevs r :
  switchedb m t prevs r = true <-> exists p, In p prevs /\ is_correct m t p = true /\ is_switched r p = true.
Proof.
  unfold switchedb. rewrite existsb_exists. split; intros (p & Hp & H); exists p; split; auto.
  - apply andb_true_iff in H. exact H.
  - apply andb_true_iff. exact H.
Qed.
(* ---------- renaming of track ids ---------- *)
Definition injective (f : nat -> nat) : Prop := forall x y, f x = f y -> x = y.

Lemma eqb_inj f x y : injective f -> Nat.eqb (f x) (f y) = Nat.eqb x y.
Proof.
  intros Hf. destruct (Nat.eqb x y) eqn:E.
  - apply Nat.eqb_eq in E. subst. apply Nat.eqb_refl.
  - apply Nat.eqb_neq. intros H. apply Hf in H. apply Nat.eqb_neq in E. contradiction.
Qed.

Section Rename.
  Variables fe fg : nat -> nat.
  Hypothesis Hfe : injective fe.
  Hypothesis Hfg : injective fg.
  Let ren := rename_result fe fg.

  Lemma ren_correct m t r : is_correct m t (ren r) = is_correct m t r.
  Proof. unfold ren, rename_result, is_correct. cbn. destruct (r_gt r); reflexivity. Qed.
  Lemma ren_thr_label r : thr_label (ren r) = thr_label r.
  Proof. unfold ren, rename_result, thr_label. cbn. destruct (r_gt r); reflexivity. Qed.
  Lemma ren_score r : score_of (ren r) = score_of r.
  Proof. unfold ren, rename_result, score_of. cbn. destruct (r_gt r); reflexivity. Qed.
  Lemma ren_same_est c p : same_est (ren c) (ren p) = same_est c p.
  Proof. unfold ren, rename_result, same_est. cbn. rewrite (eqb_inj fe _ _ Hfe). reflexivity. Qed.
  Lemma ren_switched c p : is_switched (ren c) (ren p) = is_switched c p.
  Proof.
    unfold is_switched. rewrite ren_same_est. unfold ren, rename_result. cbn.
    destruct (r_gt c), (r_gt p); try reflexivity. cbn. rewrite (eqb_inj fg _ _ Hfg). reflexivity.
  Qed.
  Lemma ren_same c p : is_same (ren c) (ren p) = is_same c p.
  Proof.
    unfold is_same. rewrite ren_same_est. unfold ren, rename_result. cbn.
    destruct (r_gt c), (r_gt p); try reflexivity. cbn. rewrite (eqb_inj fg _ _ Hfg). reflexivity.
  Qed.

  Lemma ren_scan m t c prevs : forall sw,
    scan m t (ren c) (map ren prevs) sw = (option_map ren (fst (scan m t c prevs sw)), snd (scan m t c prevs sw)).
  Proof.
    induction prevs as [|p ps IH]; intros sw; cbn [map scan]; [reflexivity|].
    rewrite ren_correct, ren_switched, ren_same.
    destruct (is_correct m t p); cbn [negb]; [|apply IH].
    destruct (is_switched c p); [reflexivity|]. destruct (is_same c p); [reflexivity|apply IH].
  Qed.

  Lemma ren_decide m T prevs c : decide m T (map ren prevs) (ren c) = decide m T prevs c.
  Proof.
    unfold decide. rewrite ren_thr_label. destruct (label_threshold T (thr_label c)) as [t|]; [|reflexivity].
    rewrite ren_scan, ren_correct, ren_score. destruct (scan m t c prevs false) as [[p|] sw]; cbn [fst snd option_map]; [|reflexivity].
    rewrite ren_score. reflexivity.
  Qed.

  Lemma ren_fold m T prevs curs : forall a,
    fold_left (fun a c => apply_dec a (decide m T (map ren prevs) c)) (map ren curs) a =
    fold_left (fun a c => apply_dec a (decide m T prevs c)) curs a.
  Proof. induction curs as [|c cs0 IH]; intros a; cbn [map fold_left]; [reflexivity|]. rewrite ren_decide. apply IH. Qed.

  Lemma ren_accumulate m T : forall rest prev a,
    accumulate m T (map ren prev) (map (map ren) rest) a = accumulate m T prev rest a.
  Proof.
    induction rest as [|cur rest IH]; intros prev a; cbn [map accumulate]; [reflexivity|].
    rewrite IH. unfold calc_tp_fp. rewrite ren_fold, map_length. reflexivity.
  Qed.

  Lemma ren_clear_counts m T h : clear_counts m T (rename_history fe fg h) = clear_counts m T h.
  Proof. destruct h as [|f0 rest]; [reflexivity|]. unfold rename_history, clear_counts. cbn [map]. apply ren_accumulate. Qed.
End Rename.

Theorem clear_rename_invariant fe fg : injective fe -> injective fg -> forall m T numgt h,
  make_clear m T numgt (rename_history fe fg h) = make_clear m T numgt h.
Proof. intros He Hg m T numgt h. unfold make_clear. rewrite (ren_clear_counts fe fg He Hg). reflexivity. Qed.

(* ---------- MOTP: mean of the scores assigned to the TPs ---------- *)
Lemma step_scores a d :
  c_tp (apply_dec a d) = (c_tp a + length (dec_scores d))%nat /\ c_score (apply_dec a d) == c_score a + qsum (dec_scores d).
Proof. destruct d; cbn; split; try lia; ring. Qed.

Lemma fold_scores m T prevs curs : forall a,
  let a' := fold_left (fun a c => apply_dec a (decide m T prevs c)) curs a in
  let l := flat_map (fun c => dec_scores (decide m T prevs c)) curs in
  c_tp a' = (c_tp a + length l)%nat /\ c_score a' == c_score a + qsum l.
Proof.
  induction curs as [|c cs0 IH]; intros a; cbn [fold_left flat_map]; [cbn; split; [lia|ring]|].
  cbv zeta in *. destruct (IH (apply_dec a (decide m T prevs c))) as [H1 H2].
  destruct (step_scores a (decide m T prevs c)) as [G1 G2].
  rewrite H1, H2, G1, G2, app_length, qsum_app. split; [lia|ring].
Qed.

Lemma accumulate_scores m T : forall rest prev a,
  let a' := accumulate m T prev rest a in
  c_tp a' = (c_tp a + length (tp_scores m T prev rest))%nat /\ c_score a' == c_score a + qsum (tp_scores m T prev rest).
Proof.
  induction rest as [|cur rest IH]; intros prev a; cbn [accumulate tp_scores]; [cbn; split; [lia|ring]|].
  cbv zeta in *. destruct (IH cur (add_counters a (calc_tp_fp m T prev cur) (length cur))) as [H1 H2].
  rewrite H1, H2. unfold calc_tp_fp. destruct (fold_scores m T prev cur zero) as [G1 G2]. cbv zeta in *.
  cbn [add_counters c_tp c_score]. rewrite G1, G2, app_length, qsum_app. cbn [zero c_tp c_score]. split; [lia|ring].
Qed.

Lemma clear_scores m T h :
  c_tp (clear_counts m T h) = length (tp_score_list m T h) /\ c_score (clear_counts m T h) == qsum (tp_score_list m T h).
Proof.
  destruct h as [|f0 rest]; [cbn; split; reflexivity|]. unfold clear_counts, tp_score_list.
  destruct (accumulate_scores m T rest f0 zero) as [H1 H2]. cbv zeta in *. rewrite H1, H2. cbn. split; [lia|ring].
Qed.

Definition oq_eq (a b : option Q) : Prop :=
  match a, b with Some x, Some y => x == y | None, None => True | _, _ => False end.

Theorem motp_formula m T numgt h :
  let l := tp_score_list m T h in
  c_tp (clear_counts m T h) = length l /\
  oq_eq (k_motp (make_clear m T numgt h))
        (match l with [] => None | _ => Some (qsum l / Qnat (length l)) end).
Proof.
  cbv zeta. destruct (clear_scores m T h) as [H1 H2]. split; [exact H1|].
  unfold make_clear, motp_of. cbn [k_motp]. rewrite H1.
  destruct (tp_score_list m T h) as [|x l] eqn:E; [exact I|]. cbn [length oq_eq].
  rewrite H2. reflexivity.
Qed.

(* ---------- MOTA ---------- *)
Theorem mota_formula m T numgt h :
  let a := clear_counts m T h in
  k_mota (make_clear m T numgt h) =
    match numgt with
    | O => None
    | _ => Some (max0 ((Qnat (c_tp a) - Qnat (c_fp a) - Qnat (c_sw a)) / Qnat numgt))
    end.
Proof. reflexivity. Qed.

Lemma mota_range m T numgt h x :
  k_mota (make_clear m T numgt h) = Some x ->
  0 <= x /\ (x == 0 \/ x == (Qnat (c_tp (clear_counts m T h)) - Qnat (c_fp (clear_counts m T h)) - Qnat (c_sw (clear_counts m T h))) / Qnat numgt).
Proof.
  unfold make_clear, mota_of. cbn [k_mota]. destruct numgt; [discriminate|]. intros H. inversion H; subst. clear H.
  split; [apply max0_nonneg|]. destruct (max0_cases ((Qnat (c_tp (clear_counts m T h)) - Qnat (c_fp (clear_counts m T h)) - Qnat (c_sw (clear_counts m T h))) / Qnat (S numgt))) as [[_ ->]|[_ ->]]; [right|left]; reflexivity.
Qed.
(* ---------- _sum_clear: ground-truth-weighted MOTA, TP-weighted MOTP ---------- *)
Definition sumN (f : clear -> nat) (ks : list clear) : nat := fold_right (fun k n => (f k + n)%nat) 0%nat ks.
Definition sumQ (f : clear -> Q) (ks : list clear) : Q := qsum (map f ks).

Definition k_tp (k : clear) : nat := c_tp (k_cnt k).
Definition k_sw (k : clear) : nat := c_sw (k_cnt k).
Definition mota_weight (k : clear) : Q := match k_mota k with Some x => x * Qnat (k_numgt k) | None => 0 end.
Definition motp_weight (k : clear) : Q := match k_motp k with Some x => x * Qnat (k_tp k) | None => 0 end.
(* the same weights from the counters *)
Definition clamp_num (k : clear) : Q :=
  match k_numgt k with
  | O => 0
  | _ => max0 (Qnat (c_tp (k_cnt k)) - Qnat (c_fp (k_cnt k)) - Qnat (c_sw (k_cnt k)))
  end.

(* a CLEAR object as the constructor leaves it *)
Definition wf_clear (k : clear) : Prop :=
  k_mota k = mota_of (k_numgt k) (k_cnt k) /\ k_motp k = motp_of (k_cnt k) /\
  (c_tp (k_cnt k) = 0%nat -> c_score (k_cnt k) == 0).

Lemma make_clear_wf m T numgt h : wf_clear (make_clear m T numgt h).
Proof.
  unfold wf_clear, make_clear. cbn [k_mota k_motp k_cnt k_numgt]. repeat split.
  destruct (clear_scores m T h) as [H1 H2]. intros H0. rewrite H2. rewrite H0 in H1.
  destruct (tp_score_list m T h); [reflexivity|discriminate].
Qed.

Lemma max0_scale x d : 0 < d -> max0 (x / d) * d == max0 x.
Proof.
  intros Hd. assert (E : x == x / d * d) by (field; lra).
  unfold max0. destruct (Qltb_spec 0 (x / d)) as [H|H], (Qltb_spec 0 x) as [G|G]; try lra.
  - exfalso. assert (0 < x / d * d) by (apply Qmult_lt_0_compat; assumption). lra.
  - exfalso. assert (x / d * d <= 0 * d) by (apply Qmult_le_compat_r; lra). lra.
Qed.

Lemma mota_weight_counters k : wf_clear k -> mota_weight k == clamp_num k /\ 0 <= mota_weight k.
Proof.
  intros (Hm & _ & _). unfold mota_weight, clamp_num. rewrite Hm. unfold mota_of.
  destruct (k_numgt k) as [|n]; [split; lra|].
  assert (Hd : 0 < Qnat (S n)) by (apply Qnat_pos; lia).
  rewrite max0_scale by exact Hd. split; [reflexivity|apply max0_nonneg].
Qed.

Lemma motp_weight_counters k : wf_clear k -> motp_weight k == c_score (k_cnt k).
Proof.
  intros (_ & Hp & H0). unfold motp_weight, k_tp. rewrite Hp. unfold motp_of.
  destruct (c_tp (k_cnt k)) as [|n] eqn:E; [symmetry; apply H0; reflexivity|].
  assert (Hd : 0 < Qnat (S n)) by (apply Qnat_pos; lia). field. lra.
Qed.

Lemma sum_fold ks : forall a0 p0 g0 t0 s0, exists a p,
  fold_left sum_step ks (a0, p0, g0, t0, s0) =
    (a, p, (g0 + sumN k_numgt ks)%nat, (t0 + sumN k_tp ks)%nat, (s0 + sumN k_sw ks)%nat) /\
  a == a0 + sumQ mota_weight ks /\ p == p0 + sumQ motp_weight ks.
Proof.
  induction ks as [|k ks IH]; intros a0 p0 g0 t0 s0; cbn [fold_left sumN sumQ map qsum fold_right].
  - exists a0, p0. rewrite !Nat.add_0_r. split; [reflexivity|split; ring].
  - unfold sum_step at 2.
    destruct (IH (match k_mota k with Some x => a0 + x * Qnat (k_numgt k) | None => a0 end)
                 (match k_motp k with Some x => p0 + x * Qnat (c_tp (k_cnt k)) | None => p0 end)
                 (g0 + k_numgt k)%nat (t0 + c_tp (k_cnt k))%nat (s0 + c_sw (k_cnt k))%nat) as (a & p & E & Ha & Hp).
    exists a, p. rewrite E. split; [|split].
    + unfold k_tp, k_sw. rewrite !Nat.add_assoc. reflexivity.
    + rewrite Ha. unfold sumQ, mota_weight at 2. destruct (k_mota k); ring.
    + rewrite Hp. unfold sumQ, motp_weight at 2, k_tp. destruct (k_motp k); ring.
Qed.

Theorem sum_clear_weighted ks :
  Forall wf_clear ks ->
  let G := sumN k_numgt ks in
  let Tp := sumN k_tp ks in
  oq_eq (fst (fst (sum_clear ks))) (match G with O => None | _ => Some (sumQ mota_weight ks / Qnat G) end) /\
  oq_eq (snd (fst (sum_clear ks))) (match Tp with O => None | _ => Some (sumQ motp_weight ks / Qnat Tp) end) /\
  snd (sum_clear ks) = sumN k_sw ks /\
  sumQ mota_weight ks == sumQ clamp_num ks /\
  sumQ motp_weight ks == sumQ (fun k => c_score (k_cnt k)) ks.
Proof.
  intros Hwf. cbv zeta. unfold sum_clear.
  destruct (sum_fold ks 0 0 0%nat 0%nat 0%nat) as (a & p & E & Ha & Hp). rewrite E. cbn [fst snd Nat.add].
  assert (Hw : sumQ mota_weight ks == sumQ clamp_num ks /\ 0 <= sumQ mota_weight ks /\
               sumQ motp_weight ks == sumQ (fun k => c_score (k_cnt k)) ks).
  { clear E Ha Hp. unfold sumQ. induction Hwf as [|k ks Hk _ IH]; cbn [map qsum]; [split; [reflexivity|split; [lra|reflexivity]]|].
    destruct IH as (I1 & I2 & I3). destruct (mota_weight_counters k Hk) as [M1 M2].
    pose proof (motp_weight_counters k Hk) as M3. rewrite M1 in *. rewrite I1 in *. rewrite M3, I3.
    split; [reflexivity|split; [lra|reflexivity]]. }
  destruct Hw as (W1 & W2 & W3).
  split; [|split; [|split; [reflexivity|split; assumption]]].
  - destruct (sumN k_numgt ks) as [|n] eqn:EG; [exact I|]. cbn [oq_eq].
    assert (Hd : 0 < Qnat (S n)) by (apply Qnat_pos; lia).
    assert (Hq : a / Qnat (S n) == sumQ mota_weight ks / Qnat (S n)) by (rewrite Ha; field; lra).
    rewrite <- Hq. destruct (max0_cases (a / Qnat (S n))) as [[_ ->]|[Hle ->]]; [reflexivity|].
    assert (0 <= a / Qnat (S n)) by (apply Qdiv_nonneg; lra). lra.
  - destruct (sumN k_tp ks) as [|n] eqn:ET; [exact I|]. cbn [oq_eq].
    assert (Hd : 0 < Qnat (S n)) by (apply Qnat_pos; lia). rewrite Hp. field. lra.
Qed.
(* ---------- histories produced by a tracker that follows every target ---------- *)
Lemma decide_no_switch m T prevs c t :
  label_threshold T (thr_label c) = Some t -> is_correct m t c = true ->
  (forall p, In p prevs -> is_correct m t p = true -> is_switched c p = false) ->
  exists s, decide m T prevs c = DCarry s \/ decide m T prevs c = DNew s false.
Proof.
  intros Ht Hc Hn. unfold decide. rewrite Ht, scan_find.
  destruct (find (hit m t c) prevs) as [p|] eqn:F.
  - apply find_some in F. destruct F as [Hp Hh]. unfold hit in Hh. apply andb_true_iff in Hh. destruct Hh as [Hcp _].
    rewrite (Hn p Hp Hcp). eauto.
  - rewrite Hc. eauto.
Qed.

Lemma decide_switch m T prevs c t :
  label_threshold T (thr_label c) = Some t -> is_correct m t c = true ->
  (exists p, In p prevs /\ is_correct m t p = true /\ is_switched c p = true) ->
  (forall p, In p prevs -> is_same c p = false) ->
  decide m T prevs c = DNew (score_of c) true.
Proof.
  intros Ht Hc (p & Hp & Hcp & Hsp) Hn. unfold decide. rewrite Ht, scan_find.
  destruct (find (hit m t c) prevs) as [q|] eqn:F.
  - apply find_some in F. destruct F as [Hq Hh]. unfold hit in Hh. apply andb_true_iff in Hh. destruct Hh as [_ Ho].
    rewrite (Hn q Hq), orb_false_r in Ho. rewrite Ho, Hc. reflexivity.
  - exfalso. pose proof (find_none _ _ F p Hp) as H. unfold hit in H. rewrite Hcp, Hsp in H. discriminate.
Qed.

Definition marked_ok (m : mode) (T : targets) (prevs : frame) (mark : result -> bool) (c : result) : Prop :=
  exists t, label_threshold T (thr_label c) = Some t /\ is_correct m t c = true /\
    if mark c
    then (exists p, In p prevs /\ is_correct m t p = true /\ is_switched c p = true) /\
         (forall p, In p prevs -> is_same c p = false)
    else forall p, In p prevs -> is_correct m t p = true -> is_switched c p = false.

Lemma fold_marked m T prevs mark curs :
  (forall c, In c curs -> marked_ok m T prevs mark c) ->
  forall a, let a' := fold_left (fun a c => apply_dec a (decide m T prevs c)) curs a in
  c_tp a' = (c_tp a + length curs)%nat /\ c_fp a' = c_fp a /\ c_sw a' = (c_sw a + countb mark curs)%nat.
Proof.
  induction curs as [|c cs0 IH]; intros H a; cbn [fold_left]; [unfold countb; cbn; lia|].
  cbv zeta in *. destruct (IH (fun c' Hc' => H c' (or_intror Hc')) (apply_dec a (decide m T prevs c))) as (H1 & H2 & H3).
  rewrite H1, H2, H3. unfold countb. cbn [filter length].
  destruct (H c (or_introl eq_refl)) as (t & Ht & Hc & Hm).
  destruct (mark c).
  - destruct Hm as [He Hn]. rewrite (decide_switch m T prevs c t Ht Hc He Hn). cbn. lia.
  - destruct (decide_no_switch m T prevs c t Ht Hc Hm) as (s & [E|E]); rewrite E; cbn; lia.
Qed.

Lemma calc_marked m T prevs mark curs :
  (forall c, In c curs -> marked_ok m T prevs mark c) ->
  let a := calc_tp_fp m T prevs curs in
  c_tp a = length curs /\ c_fp a = 0%nat /\ c_sw a = countb mark curs.
Proof. intros H. destruct (fold_marked m T prevs mark curs H zero) as (H1 & H2 & H3). cbv zeta in *. unfold calc_tp_fp. rewrite H1, H2, H3. cbn. lia. Qed.

(* facts about tracked results *)
Definition frame_ok (m : mode) (T : targets) (lab : nat -> nat) (gs : list gtobj) : Prop :=
  all_matched m T gs /\ gt_frame_ok lab gs.

Lemma tracked_correct m T trk gs o : all_matched m T gs -> In o gs ->
  exists t, label_threshold T (thr_label (tracked trk o)) = Some t /\ is_correct m t (tracked trk o) = true.
Proof.
  intros H Hin. destruct (H o Hin) as (t & Ht & Hb). exists t. split; [exact Ht|].
  unfold is_correct, tracked. cbn. rewrite Hb. reflexivity.
Qed.

Lemma tracked_switched trkc trkp o o' :
  is_switched (tracked trkc o) (tracked trkp o') =
  xorb (Nat.eqb (trkc (o_id o)) (trkp (o_id o')) && Nat.eqb (o_lab o) (o_lab o')) (Nat.eqb (o_id o) (o_id o')).
Proof. rewrite is_switched_xor. reflexivity. Qed.

Lemma tracked_same trkc trkp o o' :
  is_same (tracked trkc o) (tracked trkp o') =
  Nat.eqb (trkc (o_id o)) (trkp (o_id o')) && Nat.eqb (o_lab o) (o_lab o') && Nat.eqb (o_id o) (o_id o').
Proof. reflexivity. Qed.

Lemma in_tracked_frame trk gs p : In p (tracked_frame trk gs) -> exists o, In o gs /\ p = tracked trk o.
Proof. unfold tracked_frame. intros H. apply in_map_iff in H. destruct H as (o & E & Ho). eauto. Qed.

(* same tracker function in both frames: never a switch *)
Lemma tracked_no_switch lab trk o o' : injective trk ->
  o_lab o = lab (o_id o) -> o_lab o' = lab (o_id o') -> is_switched (tracked trk o) (tracked trk o') = false.
Proof.
  intros Hi L L'. rewrite tracked_switched, L, L', (eqb_inj trk _ _ Hi).
  destruct (Nat.eqb (o_id o) (o_id o')) eqn:E; [|reflexivity].
  apply Nat.eqb_eq in E. rewrite E, Nat.eqb_refl. reflexivity.
Qed.

Lemma pair_perfect m T lab trk gsp gsc : injective trk -> frame_ok m T lab gsp -> frame_ok m T lab gsc ->
  let a := calc_tp_fp m T (tracked_frame trk gsp) (tracked_frame trk gsc) in
  c_tp a = length gsc /\ c_fp a = 0%nat /\ c_sw a = 0%nat.
Proof.
  intros Hi [Mp [_ Lp]] [Mc [_ Lc]].
  destruct (calc_marked m T (tracked_frame trk gsp) (fun _ => false) (tracked_frame trk gsc)) as (H1 & H2 & H3).
  - intros c Hc. apply in_tracked_frame in Hc. destruct Hc as (o & Ho & ->).
    destruct (tracked_correct m T trk gsc o Mc Ho) as (t & Ht & Hct). exists t. split; [exact Ht|split; [exact Hct|]].
    intros p Hp _. apply in_tracked_frame in Hp. destruct Hp as (o' & Ho' & ->).
    apply (tracked_no_switch lab); auto.
  - cbv zeta. rewrite H1, H2, H3. unfold tracked_frame, countb. rewrite map_length.
    split; [reflexivity|split; [reflexivity|]]. induction (map (tracked trk) gsc); [reflexivity|exact IHl].
Qed.

Lemma concat_map_length {A B} (f : A -> B) (l : list (list A)) : length (concat (map (map f) l)) = length (concat l).
Proof. induction l as [|x l IH]; [reflexivity|]. cbn [map concat]. rewrite !app_length, map_length, IH. reflexivity. Qed.

Lemma seg_perfect m T lab trk : injective trk -> forall l g0s a,
  (forall gs, In gs (g0s :: l) -> frame_ok m T lab gs) ->
  let a' := accumulate m T (tracked_frame trk g0s) (map (tracked_frame trk) l) a in
  c_tp a' = (c_tp a + length (concat l))%nat /\ c_fp a' = c_fp a /\ c_sw a' = c_sw a.
Proof.
  intros Hi. induction l as [|gs l IH]; intros g0s a Hok; cbn [map accumulate concat]; [cbn; lia|].
  cbv zeta in *.
  destruct (IH gs (add_counters a (calc_tp_fp m T (tracked_frame trk g0s) (tracked_frame trk gs)) (length (tracked_frame trk gs))))
    as (H1 & H2 & H3).
  { intros x Hx. apply Hok. right. exact Hx. }
  rewrite H1, H2, H3.
  destruct (pair_perfect m T lab trk g0s gs Hi (Hok g0s (or_introl eq_refl)) (Hok gs (or_intror (or_introl eq_refl)))) as (G1 & G2 & G3).
  cbv zeta in *. cbn [add_counters c_tp c_fp c_sw]. rewrite G1, G2, G3, app_length. lia.
Qed.

Lemma evaluated_tracked_length (F : list gtobj -> frame) l :
  (forall gs, length (F gs) = length gs) -> length (evaluated (map F l)) = length (concat (tl l)).
Proof.
  intros HF. unfold evaluated. destruct l as [|x l]; [reflexivity|]. cbn [map tl].
  induction l as [|y l IH]; [reflexivity|]. cbn [map concat]. rewrite !app_length, HF, IH. reflexivity.
Qed.

Theorem perfect_tracker m T lab trk (l : list (list gtobj)) :
  injective trk -> (forall gs, In gs l -> frame_ok m T lab gs) ->
  let h := map (tracked_frame trk) l in
  let a := clear_counts m T h in
  c_sw a = 0%nat /\ c_fp a = 0%nat /\ c_tp a = length (evaluated h) /\
  (length (evaluated h) <> 0%nat -> oq_eq (k_mota (make_clear m T (length (evaluated h)) h)) (Some 1)).
Proof.
  intros Hi Hok. cbv zeta.
  assert (HC : c_sw (clear_counts m T (map (tracked_frame trk) l)) = 0%nat /\ c_fp (clear_counts m T (map (tracked_frame trk) l)) = 0%nat /\
               c_tp (clear_counts m T (map (tracked_frame trk) l)) = length (evaluated (map (tracked_frame trk) l))).
  { destruct (clear_partition m T (map (tracked_frame trk) l)) as [_ Hn]. cbv zeta in Hn.
    destruct l as [|g0s l]; [cbn; auto|]. cbn [map clear_counts].
    destruct (seg_perfect m T lab trk Hi l g0s zero Hok) as (H1 & H2 & H3). cbv zeta in *.
    rewrite H1, H2, H3. cbn [zero c_tp c_fp c_sw]. split; [reflexivity|split; [reflexivity|]].
    change (tracked_frame trk g0s :: map (tracked_frame trk) l) with (map (tracked_frame trk) (g0s :: l)).
    rewrite evaluated_tracked_length by (intros; apply map_length). reflexivity. }
  destruct HC as (S0 & F0 & TP). split; [exact S0|split; [exact F0|split; [exact TP|]]].
  intros Hne. unfold make_clear, mota_of. cbn [k_mota]. rewrite S0, F0, TP.
  destruct (length (evaluated (map (tracked_frame trk) l))) as [|n] eqn:E; [congruence|]. cbn [oq_eq].
  assert (Hd : 0 < Qnat (S n)) by (apply Qnat_pos; lia).
  assert (E1 : (Qnat (S n) - Qnat 0 - Qnat 0) / Qnat (S n) == 1) by (unfold Qnat at 2 3; cbn [Z.of_nat inject_Z]; field; lra).
  unfold max0. destruct (Qltb_spec 0 ((Qnat (S n) - Qnat 0 - Qnat 0) / Qnat (S n))); lra.
Qed.
(* ---------- one id change / one exchange of identities ---------- *)
Lemma last_cons {A} (l : list A) : forall a d, last (a :: l) d = last l a.
Proof.
  induction l as [|b l IH]; intros a d; [reflexivity|].
  change (last (a :: b :: l) d) with (last (b :: l) d). rewrite (IH b d), (IH b a). reflexivity.
Qed.

Lemma accumulate_app m T r1 : forall r2 prev a,
  accumulate m T prev (r1 ++ r2) a = accumulate m T (last r1 prev) r2 (accumulate m T prev r1 a).
Proof.
  induction r1 as [|cur r1 IH]; intros r2 prev a; [reflexivity|].
  cbn [app accumulate]. rewrite IH, last_cons. reflexivity.
Qed.

Lemma count_one (g0 : nat) (gs : list gtobj) :
  NoDup (map o_id gs) -> In g0 (map o_id gs) -> countb (fun o => Nat.eqb (o_id o) g0) gs = 1%nat.
Proof.
  unfold countb. induction gs as [|o gs IH]; cbn [map]; intros Hn Hin; [destruct Hin|].
  apply NoDup_cons_iff in Hn. destruct Hn as [Hni Hn]. cbn [filter].
  destruct (Nat.eqb (o_id o) g0) eqn:E.
  - apply Nat.eqb_eq in E. subst g0. cbn [length]. f_equal.
    assert (Hz : forall l, (forall x, In x l -> o_id x <> o_id o) -> length (filter (fun o0 => Nat.eqb (o_id o0) (o_id o)) l) = 0%nat).
    { induction l as [|x l IHl]; intros H; [reflexivity|]. cbn [filter].
      destruct (Nat.eqb (o_id x) (o_id o)) eqn:Ex; [apply Nat.eqb_eq in Ex; exfalso; apply (H x (or_introl eq_refl) Ex)|].
      apply IHl. intros y Hy. apply H. right. exact Hy. }
    apply Hz. intros x Hx Ex. apply Hni. rewrite <- Ex. apply in_map. exact Hx.
  - apply IH; [exact Hn|]. destruct Hin as [Hin|Hin]; [apply Nat.eqb_neq in E; contradiction|exact Hin].
Qed.

Lemma count_two (g1 g2 : nat) (gs : list gtobj) : g1 <> g2 ->
  NoDup (map o_id gs) -> In g1 (map o_id gs) -> In g2 (map o_id gs) ->
  countb (fun o => Nat.eqb (o_id o) g1 || Nat.eqb (o_id o) g2) gs = 2%nat.
Proof.
  intros Hne Hn H1 H2.
  rewrite <- (count_one g1 gs Hn H1) at 1. rewrite <- (Nat.add_0_l (countb _ gs)).
  assert (E : forall l, countb (fun o => Nat.eqb (o_id o) g1 || Nat.eqb (o_id o) g2) l =
                        (countb (fun o => Nat.eqb (o_id o) g1) l + countb (fun o => Nat.eqb (o_id o) g2) l)%nat).
  { unfold countb. induction l as [|x l IHl]; [reflexivity|]. cbn [filter].
    destruct (Nat.eqb (o_id x) g1) eqn:E1, (Nat.eqb (o_id x) g2) eqn:E2; cbn [orb length]; try lia.
    apply Nat.eqb_eq in E1. apply Nat.eqb_eq in E2. congruence. }
  rewrite E, (count_one g1 gs Hn H1), (count_one g2 gs Hn H2). reflexivity.
Qed.

Lemma countb_map {A B} (f : A -> B) (g : B -> bool) l : countb g (map f l) = countb (fun x => g (f x)) l.
Proof. unfold countb. induction l as [|x l IH]; [reflexivity|]. cbn [map filter]. destruct (g (f x)); cbn [length]; rewrite IH; reflexivity. Qed.

Definition mark_ids (ids : nat -> bool) (c : result) : bool :=
  match r_gt c with Some g => ids (g_id g) | None => false end.

Lemma in_ids (g : nat) (gs : list gtobj) : In g (map o_id gs) -> exists o, In o gs /\ o_id o = g.
Proof. intros H. apply in_map_iff in H. destruct H as (o & E & Ho). eauto. Qed.

(* a result whose ground truth is also in the previous frame under a different estimated id, and
   whose estimated id is not the previous estimate of the same ground truth: counted as a switch *)
Lemma tracked_marked_switch m T lab trkp trkc gsp gsc o :
  frame_ok m T lab gsp -> frame_ok m T lab gsc -> In o gsc ->
  In (o_id o) (map o_id gsp) ->
  (forall o', In o' gsp -> o_id o' = o_id o -> trkp (o_id o') <> trkc (o_id o)) ->
  forall mark, mark (tracked trkc o) = true ->
  marked_ok m T (tracked_frame trkp gsp) mark (tracked trkc o).
Proof.
  intros [Mp [_ Lp]] [Mc [_ Lc]] Ho Hin Hd mark Hm.
  destruct (tracked_correct m T trkc gsc o Mc Ho) as (t & Ht & Hct). exists t. split; [exact Ht|split; [exact Hct|]].
  rewrite Hm. split.
  - destruct (in_ids _ _ Hin) as (o' & Ho' & E). exists (tracked trkp o'). split; [apply in_map; exact Ho'|split].
    + destruct (Mp o' Ho') as (t' & Ht' & Hb'). cbn [tracked thr_label r_gt g_lab] in Ht.
      rewrite (Lp o' Ho'), E, <- (Lc o Ho), Ht in Ht'. inversion Ht'; subst t'.
      unfold is_correct, tracked. cbn. rewrite Hb'. reflexivity.
    + rewrite tracked_switched.
      assert (Ne : Nat.eqb (trkc (o_id o)) (trkp (o_id o')) = false).
      { apply Nat.eqb_neq. intros X. apply (Hd o' Ho' E). symmetry. exact X. }
      rewrite Ne, E, Nat.eqb_refl. reflexivity.
  - intros p Hp. apply in_tracked_frame in Hp. destruct Hp as (o' & Ho' & ->). rewrite tracked_same.
    destruct (Nat.eqb (o_id o) (o_id o')) eqn:E.
    + apply Nat.eqb_eq in E. assert (Ne : Nat.eqb (trkc (o_id o)) (trkp (o_id o')) = false).
      { apply Nat.eqb_neq. intros X. apply (Hd o' Ho' (eq_sym E)). symmetry. exact X. }
      rewrite Ne. reflexivity.
    + apply andb_false_r.
Qed.
Lemma tracked_marked_noswitch m T lab trkp trkc gsp gsc o :
  frame_ok m T lab gsp -> frame_ok m T lab gsc -> In o gsc ->
  (forall o', In o' gsp -> Nat.eqb (trkc (o_id o)) (trkp (o_id o')) = Nat.eqb (o_id o) (o_id o')) ->
  forall mark, mark (tracked trkc o) = false ->
  marked_ok m T (tracked_frame trkp gsp) mark (tracked trkc o).
Proof.
  intros [Mp [_ Lp]] [Mc [_ Lc]] Ho He mark Hm.
  destruct (tracked_correct m T trkc gsc o Mc Ho) as (t & Ht & Hct). exists t. split; [exact Ht|split; [exact Hct|]].
  rewrite Hm. intros p Hp _. apply in_tracked_frame in Hp. destruct Hp as (o' & Ho' & ->).
  rewrite tracked_switched, (He o' Ho'). destruct (Nat.eqb (o_id o) (o_id o')) eqn:E; [|reflexivity].
  apply Nat.eqb_eq in E. rewrite (Lc o Ho), (Lp o' Ho'), E, Nat.eqb_refl. reflexivity.
Qed.

(* a frame pair in which the tracker function changes from trkp to trkc on the ids selected by [ids] *)
Lemma pair_boundary m T lab trkp trkc ids gsp gsc :
  frame_ok m T lab gsp -> frame_ok m T lab gsc ->
  (forall o, In o gsc -> ids (o_id o) = true ->
     In (o_id o) (map o_id gsp) /\ forall o', In o' gsp -> o_id o' = o_id o -> trkp (o_id o') <> trkc (o_id o)) ->
  (forall o, In o gsc -> ids (o_id o) = false ->
     forall o', In o' gsp -> Nat.eqb (trkc (o_id o)) (trkp (o_id o')) = Nat.eqb (o_id o) (o_id o')) ->
  let a := calc_tp_fp m T (tracked_frame trkp gsp) (tracked_frame trkc gsc) in
  c_tp a = length gsc /\ c_fp a = 0%nat /\ c_sw a = countb (fun o => ids (o_id o)) gsc.
Proof.
  intros Fp Fc H1 H0.
  destruct (calc_marked m T (tracked_frame trkp gsp) (mark_ids ids) (tracked_frame trkc gsc)) as (G1 & G2 & G3).
  - intros c Hc. apply in_tracked_frame in Hc. destruct Hc as (o & Ho & ->).
    destruct (ids (o_id o)) eqn:E.
    + destruct (H1 o Ho E) as [Hin Hd]. apply (tracked_marked_switch m T lab trkp trkc gsp gsc o Fp Fc Ho Hin Hd). exact E.
    + apply (tracked_marked_noswitch m T lab trkp trkc gsp gsc o Fp Fc Ho (H0 o Ho E)). exact E.
  - cbv zeta. rewrite G1, G2, G3. unfold tracked_frame. rewrite map_length, countb_map. auto.
Qed.

Lemma all_target_count T l : (forall r, In r l -> is_target T r = true) -> countb (is_target T) l = length l.
Proof.
  unfold countb. induction l as [|r l IH]; intros H; [reflexivity|]. cbn [filter]. rewrite (H r (or_introl eq_refl)). cbn [length].
  f_equal. apply IH. intros x Hx. apply H. right. exact Hx.
Qed.

Lemma tracked_is_target m T trk gs o : all_matched m T gs -> In o gs -> is_target T (tracked trk o) = true.
Proof. intros H Ho. destruct (tracked_correct m T trk gs o H Ho) as (t & Ht & _). unfold is_target. rewrite Ht. reflexivity. Qed.

(* a history: frames [pre ++ [gsa]] reported through trk, frames [gsb :: post] through trk' *)
Definition change_history (trk trk' : nat -> nat) (pre : list (list gtobj)) (gsa gsb : list gtobj) (post : list (list gtobj)) : list frame :=
  map (tracked_frame trk) pre ++ tracked_frame trk gsa :: tracked_frame trk' gsb :: map (tracked_frame trk') post.

Lemma change_history_counts m T lab trk trk' ids pre gsa gsb post :
  injective trk -> injective trk' ->
  (forall gs, In gs (pre ++ gsa :: gsb :: post) -> frame_ok m T lab gs) ->
  (forall o, In o gsb -> ids (o_id o) = true ->
     In (o_id o) (map o_id gsa) /\ forall o', In o' gsa -> o_id o' = o_id o -> trk (o_id o') <> trk' (o_id o)) ->
  (forall o, In o gsb -> ids (o_id o) = false ->
     forall o', In o' gsa -> Nat.eqb (trk' (o_id o)) (trk (o_id o')) = Nat.eqb (o_id o) (o_id o')) ->
  let h := change_history trk trk' pre gsa gsb post in
  let a := clear_counts m T h in
  c_sw a = countb (fun o => ids (o_id o)) gsb /\ c_fp a = 0%nat /\ c_tp a = length (evaluated h).
Proof.
  intros Hi Hi' Hok H1 H0. cbv zeta.
  assert (Oka : frame_ok m T lab gsa) by (apply Hok; apply in_or_app; right; left; reflexivity).
  assert (Okb : frame_ok m T lab gsb) by (apply Hok; apply in_or_app; right; right; left; reflexivity).
  assert (Okpre : forall gs, In gs pre -> frame_ok m T lab gs) by (intros gs Hg; apply Hok; apply in_or_app; left; exact Hg).
  assert (Okpost : forall gs, In gs post -> frame_ok m T lab gs) by (intros gs Hg; apply Hok; apply in_or_app; right; right; right; exact Hg).
  (* the part from the boundary on *)
  assert (Tail : forall a0,
    let a' := accumulate m T (tracked_frame trk gsa) (tracked_frame trk' gsb :: map (tracked_frame trk') post) a0 in
    c_fp a' = c_fp a0 /\ c_sw a' = (c_sw a0 + countb (fun o => ids (o_id o)) gsb)%nat).
  { intros a0. cbn [accumulate]. cbv zeta.
    destruct (seg_perfect m T lab trk' Hi' post gsb
               (add_counters a0 (calc_tp_fp m T (tracked_frame trk gsa) (tracked_frame trk' gsb)) (length (tracked_frame trk' gsb))))
      as (_ & S2 & S3).
    { intros gs [<-|Hg]; [exact Okb|apply Okpost; exact Hg]. }
    cbv zeta in *. rewrite S2, S3.
    destruct (pair_boundary m T lab trk trk' ids gsa gsb Oka Okb H1 H0) as (_ & B2 & B3). cbv zeta in *.
    cbn [add_counters c_fp c_sw]. rewrite B2, B3. lia. }
  assert (SF : c_sw (clear_counts m T (change_history trk trk' pre gsa gsb post)) = countb (fun o => ids (o_id o)) gsb /\
               c_fp (clear_counts m T (change_history trk trk' pre gsa gsb post)) = 0%nat).
  { unfold change_history. destruct pre as [|p0 pre].
    - cbn [map app clear_counts]. destruct (Tail zero) as [T1 T2]. cbv zeta in *. rewrite T1, T2. cbn. lia.
    - cbn [map app clear_counts].
      replace (map (tracked_frame trk) pre ++ tracked_frame trk gsa :: tracked_frame trk' gsb :: map (tracked_frame trk') post)
        with (map (tracked_frame trk) (pre ++ [gsa]) ++ (tracked_frame trk' gsb :: map (tracked_frame trk') post))
        by (rewrite map_app, <- app_assoc; reflexivity).
      rewrite accumulate_app.
      assert (EL : last (map (tracked_frame trk) (pre ++ [gsa])) (tracked_frame trk p0) = tracked_frame trk gsa)
        by (rewrite map_app; cbn [map]; apply last_last).
      rewrite EL.
      destruct (Tail (accumulate m T (tracked_frame trk p0) (map (tracked_frame trk) (pre ++ [gsa])) zero)) as [T1 T2].
      cbv zeta in *. rewrite T1, T2.
      destruct (seg_perfect m T lab trk Hi (pre ++ [gsa]) p0 zero) as (_ & S2 & S3).
      { intros gs [<-|Hg]; [apply Okpre; left; reflexivity|].
        apply in_app_or in Hg. destruct Hg as [Hg|[<-|[]]]; [apply Okpre; right; exact Hg|exact Oka]. }
      cbv zeta in *. rewrite S2, S3. cbn. lia. }
  destruct SF as [S0 F0]. split; [exact S0|split; [exact F0|]].
  destruct (clear_partition m T (change_history trk trk' pre gsa gsb post)) as [P1 _]. cbv zeta in P1.
  rewrite F0, Nat.add_0_r in P1. rewrite P1. apply all_target_count.
  intros r Hr. unfold evaluated in Hr. apply in_concat in Hr. destruct Hr as (f & Hf & Hrf).
  assert (Hf' : In f (change_history trk trk' pre gsa gsb post)).
  { destruct (change_history trk trk' pre gsa gsb post); [destruct Hf|right; exact Hf]. }
  unfold change_history in Hf'. apply in_app_or in Hf'.
  destruct Hf' as [Hf'|[<-|[<-|Hf']]].
  - apply in_map_iff in Hf'. destruct Hf' as (gs & <- & Hgs). apply in_tracked_frame in Hrf. destruct Hrf as (o & Ho & ->).
    apply (tracked_is_target m T trk gs o); [apply (Okpre gs Hgs)|exact Ho].
  - apply in_tracked_frame in Hrf. destruct Hrf as (o & Ho & ->). apply (tracked_is_target m T trk gsa o); [apply Oka|exact Ho].
  - apply in_tracked_frame in Hrf. destruct Hrf as (o & Ho & ->). apply (tracked_is_target m T trk' gsb o); [apply Okb|exact Ho].
  - apply in_map_iff in Hf'. destruct Hf' as (gs & <- & Hgs). apply in_tracked_frame in Hrf. destruct Hrf as (o & Ho & ->).
    apply (tracked_is_target m T trk' gs o); [apply (Okpost gs Hgs)|exact Ho].
Qed.

Lemma upd_injective trk g b : injective trk -> (forall x, trk x <> b) -> injective (upd trk g b).
Proof.
  intros Hi Hb x y. unfold upd. destruct (Nat.eqb x g) eqn:Ex, (Nat.eqb y g) eqn:Ey; intros H.
  - apply Nat.eqb_eq in Ex. apply Nat.eqb_eq in Ey. congruence.
  - exfalso. apply (Hb y). symmetry. exact H.
  - exfalso. apply (Hb x). exact H.
  - apply Hi. exact H.
Qed.

Lemma swap_injective trk g1 g2 : injective trk -> injective (swap_trk trk g1 g2).
Proof.
  intros Hi x y. unfold swap_trk.
  destruct (Nat.eqb x g1) eqn:X1; [apply Nat.eqb_eq in X1|apply Nat.eqb_neq in X1];
  (destruct (Nat.eqb x g2) eqn:X2; [apply Nat.eqb_eq in X2|apply Nat.eqb_neq in X2]);
  (destruct (Nat.eqb y g1) eqn:Y1; [apply Nat.eqb_eq in Y1|apply Nat.eqb_neq in Y1]);
  (destruct (Nat.eqb y g2) eqn:Y2; [apply Nat.eqb_eq in Y2|apply Nat.eqb_neq in Y2]);
  intros H; try apply Hi in H; subst; congruence.
Qed.

Theorem new_id_costs_one m T lab trk g0 b pre gsa gsb post :
  injective trk -> (forall x, trk x <> b) ->
  (forall gs, In gs (pre ++ gsa :: gsb :: post) -> frame_ok m T lab gs) ->
  In g0 (map o_id gsa) -> In g0 (map o_id gsb) ->
  let h := change_history trk (upd trk g0 b) pre gsa gsb post in
  let a := clear_counts m T h in
  c_sw a = 1%nat /\ c_fp a = 0%nat /\ c_tp a = length (evaluated h).
Proof.
  intros Hi Hb Hok Ha Hbb. cbv zeta.
  assert (Okb : frame_ok m T lab gsb) by (apply Hok; apply in_or_app; right; right; left; reflexivity).
  destruct (change_history_counts m T lab trk (upd trk g0 b) (fun x => Nat.eqb x g0) pre gsa gsb post Hi (upd_injective trk g0 b Hi Hb) Hok)
    as (S0 & F0 & TP).
  - intros o Ho E. apply Nat.eqb_eq in E. rewrite E. split; [exact Ha|].
    intros o' _ E'. unfold upd. rewrite Nat.eqb_refl. apply Hb.
  - intros o Ho E o' Ho'. unfold upd. rewrite E. apply eqb_inj. exact Hi.
  - cbv zeta in *. rewrite S0. split; [|split; assumption]. apply count_one; [apply Okb|exact Hbb].
Qed.

Theorem swap_costs_two m T lab trk g1 g2 pre gsa gsb post :
  injective trk -> g1 <> g2 ->
  (forall gs, In gs (pre ++ gsa :: gsb :: post) -> frame_ok m T lab gs) ->
  In g1 (map o_id gsa) -> In g2 (map o_id gsa) -> In g1 (map o_id gsb) -> In g2 (map o_id gsb) ->
  let h := change_history trk (swap_trk trk g1 g2) pre gsa gsb post in
  let a := clear_counts m T h in
  c_sw a = 2%nat /\ c_fp a = 0%nat /\ c_tp a = length (evaluated h).
Proof.
  intros Hi Hne Hok A1 A2 B1 B2. cbv zeta.
  assert (Okb : frame_ok m T lab gsb) by (apply Hok; apply in_or_app; right; right; left; reflexivity).
  destruct (change_history_counts m T lab trk (swap_trk trk g1 g2) (fun x => Nat.eqb x g1 || Nat.eqb x g2) pre gsa gsb post Hi
              (swap_injective trk g1 g2 Hi) Hok) as (S0 & F0 & TP).
  - intros o Ho E. apply orb_true_iff in E. destruct E as [E|E]; apply Nat.eqb_eq in E; rewrite E.
    + split; [exact A1|]. intros o' _ E'. rewrite E'. unfold swap_trk. rewrite Nat.eqb_refl.
      intros X. apply Hi in X. contradiction.
    + split; [exact A2|]. intros o' _ E'. rewrite E'. unfold swap_trk. rewrite Nat.eqb_refl.
      destruct (Nat.eqb g2 g1) eqn:G; [apply Nat.eqb_eq in G; congruence|]. intros X. apply Hi in X. congruence.
  - intros o Ho E o' Ho'. apply orb_false_iff in E. destruct E as [E1 E2]. unfold swap_trk. rewrite E1, E2. apply eqb_inj. exact Hi.
  - cbv zeta in *. rewrite S0. split; [|split; assumption]. apply count_two; auto; apply Okb.
Qed.
(* ---------- previous TP judged by its own label (the reading the code does not implement) ---------- *)
Lemma label_threshold_in T l t : label_threshold T l = Some t -> exists l', In (l', t) T.
Proof.
  induction T as [|[l0 t0] T IH]; cbn [label_threshold]; [discriminate|].
  destruct (Nat.eqb l0 l); intros H.
  - inversion H; subst. exists l0. left. reflexivity.
  - destruct (IH H) as (l' & Hin). exists l'. right. exact Hin.
Qed.

Lemma existsb_ext_in {A} (f g : A -> bool) l : (forall x, In x l -> f x = g x) -> existsb f l = existsb g l.
Proof.
  induction l as [|a l IH]; intros H; [reflexivity|]. cbn [existsb].
  rewrite (H a (or_introl eq_refl)), IH; [reflexivity|]. intros x Hx. apply H. right. exact Hx.
Qed.

Lemma countb_ext_in {A} (f g : A -> bool) l : (forall x, In x l -> f x = g x) -> countb f l = countb g l.
Proof.
  unfold countb. induction l as [|a l IH]; intros H; [reflexivity|]. cbn [filter].
  rewrite (H a (or_introl eq_refl)).
  assert (E : length (filter f l) = length (filter g l)) by (apply IH; intros x Hx; apply H; right; exact Hx).
  destruct (g a); cbn [length]; rewrite E; reflexivity.
Qed.

Theorem prev_tp_own_partial m T t0 prevs curs :
  (forall l t, In (l, t) T -> t = t0) -> (forall p, In p prevs -> is_target T p = true) ->
  (forall t, pairing_consistent m t prevs) ->
  let a := calc_tp_fp m T prevs curs in
  c_tp a = countb (spec_tp_own m T prevs) curs /\ c_sw a = countb (spec_sw_own m T prevs) curs.
Proof.
  intros Hu Ht Hc. cbv zeta. destruct (calc_spec m T prevs curs Hc) as (H1 & _ & H3 & _).
  rewrite H1, H3. cbn [spec_frame c_tp c_sw].
  assert (Eo : forall p, In p prevs -> is_tp_own m T p = is_correct m t0 p).
  { intros p Hp. specialize (Ht p Hp). unfold is_target in Ht. unfold is_tp_own.
    destruct (label_threshold T (thr_label p)) as [t'|] eqn:E; [|discriminate].
    destruct (label_threshold_in _ _ _ E) as (l' & Hin). rewrite (Hu l' t' Hin). reflexivity. }
  split; apply countb_ext_in; intros r _.
  - unfold spec_tp, spec_tp_own. destruct (label_threshold T (thr_label r)) as [t|] eqn:E; [|reflexivity].
    destruct (label_threshold_in _ _ _ E) as (l' & Hin). rewrite (Hu l' t Hin). unfold carriedb.
    f_equal. apply existsb_ext_in. intros p Hp. rewrite (Eo p Hp). reflexivity.
  - unfold spec_sw, spec_sw_own. destruct (label_threshold T (thr_label r)) as [t|] eqn:E; [|reflexivity].
    destruct (label_threshold_in _ _ _ E) as (l' & Hin). rewrite (Hu l' t Hin). unfold carriedb, switchedb.
    f_equal; [f_equal; f_equal|]; apply existsb_ext_in; intros p Hp; rewrite (Eo p Hp); reflexivity.
Qed.
