(* Bridge between the real-number slerp (Model/SlerpR.v, Proofs/SlerpR.v) and the rational shortest-arc specification
   [yaw_interp] of Model/Lookup.v that the correspondence of C17 compares the implementation with: for rotations about
   z, slerp of the two neighbours' orientations at the proportional time IS the rotation [yaw_interp] names.
   Depends on the standard library's real-number axioms (through Reals) and on nothing else. *)
From Coq Require Import QArith Qreals ZArith.
From PE Require Import Base.QUtil Model.Lookup Model.SlerpR Proofs.LookupProofs Proofs.SlerpR.
From Coq Require Import Reals Lra Lia.  (* after the PE imports: they export Lqa, whose [lra] is the one over Q *)
Open Scope R_scope.

(* an angle in pi-units (Q) as a rotation about z *)
Definition yawq_pi (u : Q) : quat := yawq (PI * Q2R u).

Lemma Q2R_inject_Z : forall k : Z, Q2R (inject_Z k) = IZR k.
Proof. intros k. unfold Q2R, inject_Z; simpl. field. Qed.

Theorem yaw_interp_is_slerp : forall (t1 t2 t : Z) (u1 u2 : Q),
  (t1 <= t < t2)%Z ->
  (wrap1 (u2 - u1) < 1)%Q ->                                        (* not the antipodal case, where both arcs are shortest *)
  cos (PI * Q2R (wrap1 (u2 - u1)) / 2) <= slerp_switch ->           (* the sine branch of slerp *)
  same_rotation (slerp (yawq_pi u1) (yawq_pi u2) (Q2R (alpha t1 t2 t))) (yawq_pi (yaw_interp t1 t2 t u1 u2)).
Proof.
  intros t1 t2 t u1 u2 Ht Hw Hsw. unfold yaw_interp.
  destruct (alpha_range t1 t2 t Ht) as [Ha0 Ha1].
  destruct (wrap1_range (u2 - u1)) as [Hlo _].
  destruct (wrap1_congruent (u2 - u1)) as [k Hk].
  set (w := wrap1 (u2 - u1)) in *. set (a := alpha t1 t2 t) in *. clearbody w a.
  assert (Hu2 : Q2R u2 = Q2R u1 + Q2R w + 2 * IZR (k)).
  { apply Qeq_eqR in Hk. rewrite Q2R_minus, Q2R_minus, Q2R_mult, Q2R_inject_Z in Hk.
    change (Q2R 2) with (Q2R (inject_Z 2)) in Hk. rewrite Q2R_inject_Z in Hk.
    revert Hk. generalize (IZR k) (Q2R w) (Q2R u1) (Q2R u2). intros K W U1 U2 Hk. lra. }
  assert (Hwlo : -1 < Q2R w). { apply Qlt_Rlt in Hlo. change (Q2R (-1)) with (Q2R (inject_Z (-1))) in Hlo. rewrite Q2R_inject_Z in Hlo. exact Hlo. }
  assert (Hwhi : Q2R w < 1). { apply Qlt_Rlt in Hw. change (Q2R 1) with (Q2R (inject_Z 1)) in Hw. rewrite Q2R_inject_Z in Hw. exact Hw. }
  assert (Ha : 0 <= Q2R a <= 1).
  { apply Qle_Rle in Ha0. apply Qlt_Rlt in Ha1.
    change (Q2R 0) with (Q2R (inject_Z 0)) in Ha0. change (Q2R 1) with (Q2R (inject_Z 1)) in Ha1.
    rewrite Q2R_inject_Z in Ha0, Ha1. lra. }
  pose proof PI_RGT_0 as Hpi.
  unfold yawq_pi.
  replace (PI * Q2R u2) with (PI * Q2R u1 + PI * Q2R w + 2 * PI * IZR k) by (rewrite Hu2; ring).
  replace (PI * Q2R (u1 + a * w)) with (PI * Q2R u1 + Q2R a * (PI * Q2R w)) by (rewrite Q2R_plus, Q2R_mult; ring).
  apply slerp_yaw_general.
  - split; nra.
  - exact Ha.
  - replace (PI * Q2R w / 2) with (PI * Q2R w / 2) by reflexivity. exact Hsw.
Qed.

(* non-vacuity: a quarter turn taken in the middle *)
Example yaw_interp_is_slerp_example :
  same_rotation (slerp (yawq_pi (1 # 4)) (yawq_pi (7 # 4)) (Q2R (alpha 0 10 5))) (yawq_pi (yaw_interp 0 10 5 (1 # 4) (7 # 4)))
  /\ (yaw_interp 0 10 5 (1 # 4) (7 # 4) == 0)%Q.
Proof.
  split; [|vm_compute; reflexivity].
  apply yaw_interp_is_slerp; [lia|vm_compute; reflexivity|].
  assert (E : (wrap1 ((7 # 4) - (1 # 4)) == - (1 # 2))%Q) by (vm_compute; reflexivity).
  rewrite (Qeq_eqR _ _ E), Q2R_opp.
  replace (Q2R (1 # 2)) with (/ 2) by (unfold Q2R; simpl; field).
  replace (PI * - / 2 / 2) with (- (PI / 4)) by field. rewrite cos_neg, cos_PI4.
  unfold slerp_switch. pose proof sqrt2_neq_0. assert (0 < sqrt 2) by (apply sqrt_lt_R0; lra).
  assert (H2 : sqrt 2 * sqrt 2 = 2) by (apply sqrt_sqrt; lra).
  apply (Rmult_le_reg_r (sqrt 2)); [assumption|]. replace (1 / sqrt 2 * sqrt 2) with 1 by (field; assumption).
  assert (1.1 <= sqrt 2); [|lra]. destruct (Rle_lt_dec 1.1 (sqrt 2)); [assumption|nra].
Qed.
