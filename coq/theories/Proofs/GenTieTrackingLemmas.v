(* Helper lemmas and tactics of Props/GenTieTracking.v (generated loop functions of the tracking metrics = hand models).

   Nothing here mentions a generated definition (Gen/loops_tracking.v is regenerated on every run; this file is not):
     1. the hand model Clear.scan (the inner search loop with its two `break`s) by one more previous result AT THE END:
        this is what a left-to-right loop with a break flag computes  [scan_snoc];
     2. the state of the generated loops as a function of the elements already seen  [inner_state, wcalc];
     3. the weighted per-frame counters (tp_metrics.get_value = w) and their equality with Clear.calc_tp_fp for w = 1;
     4. the proof scripts (each theorem of Props/GenTieTracking.v is compiled on its own, so what they share lives here). *)
From Coq Require Import List Bool ZArith Arith Lia.
From PE Require Import Base.QUtil.
From PE Require Model.Filter Model.Clear Model.Lookup.
From PE Require Import Proofs.GenTieLoopsLemmas.
Import ListNotations.
Import Filter.
Import Clear.
Open Scope Q_scope.

(* ---- 0. Leibniz facts about the rationals the code accumulates ---------------------------------------------------------- *)
Lemma Qnat_S_eq n : Qnat n + 1 = Qnat (S n).
Proof.
  unfold Qnat, inject_Z, Qplus. cbn [Qnum Qden]. f_equal. rewrite Nat2Z.inj_succ. ring.
Qed.

(* ---- 1. Clear.scan with one more previous result at the end ------------------------------------------------------------- *)
(* started with is_id_switched = False, the result of the search tells how it ended:
     (Some p, _)     left by the second break (same match with the previous TP p)
     (None, true)    left by the first break (id switch)
     (None, false)   ran to the end of the list *)
Lemma scan_snoc m t c l p :
  scan m t c (l ++ [p]) false =
    match scan m t c l false with
    | (Some q, s) => (Some q, s)
    | (None, true) => (None, true)
    | (None, false) => scan m t c [p] false
    end.
Proof.
  induction l as [|a l IH]; [reflexivity|].
  cbn [app scan]. destruct (negb (is_correct m t a)); [exact IH|].
  cbv zeta. destruct (is_switched c a); [reflexivity|].
  destruct (is_same c a); [reflexivity|]. exact IH.
Qed.

(* ---- 2. states of the generated loops ----------------------------------------------------------------------------------- *)
(* the inner loop (over the previous frame) after the previous results `seen`:
   (break flag, (tp, tp_matching_score, is_same_match, is_id_switched)), r = scan m t c seen false *)
Definition inner_state (w : result -> Q) (tp sc : Q) (r : option result * bool) : bool * (Q * Q * bool * bool) :=
  match r with
  | (Some p, s) => (true, (tp + w p, sc + score_of p, true, s))
  | (None, s) => (s, (tp, sc, false, s))
  end.

(* ---- 3. weighted per-frame counters --------------------------------------------------------------------------------------- *)
(* what one current result does to (tp, fp, num_id_switch, tp_matching_score) when tp_metrics.get_value is w *)
Definition wstep (w : result -> Q) (m : mode) (T : targets) (prevs : frame) (s : Q * Q * nat * Q) (c : result) : Q * Q * nat * Q :=
  let '(tp, fp, n, sc) := s in
  match label_threshold T (thr_label c) with
  | None => (tp, fp, n, sc)
  | Some t =>
      match scan m t c prevs false with
      | (Some p, _) => (tp + w p, fp, n, sc + score_of p)
      | (None, sw) =>
          if is_correct m t c then (tp + w c, fp, if sw then (n + 1)%nat else n, sc + score_of c)
          else (tp, fp + 1, n, sc)
      end
  end.

Definition wcalc (w : result -> Q) (m : mode) (T : targets) (prevs curs : frame) : Q * Q * nat * Q :=
  fold_left (wstep w m T prevs) curs (0, 0, 0%nat, 0).

Definition counters_tuple (a : counters) : Q * Q * nat * Q := (Qnat (c_tp a), Qnat (c_fp a), c_sw a, c_score a).

Lemma wstep_one m T prevs a c :
  wstep (fun _ => 1) m T prevs (counters_tuple a) c = counters_tuple (apply_dec a (decide m T prevs c)).
Proof.
  unfold wstep, counters_tuple, decide.
  destruct (label_threshold T (thr_label c)) as [t|]; [|reflexivity].
  destruct (scan m t c prevs false) as [[p|] sw].
  - cbn [apply_dec c_tp c_fp c_sw c_score]. rewrite Qnat_S_eq. reflexivity.
  - destruct (is_correct m t c); cbn [apply_dec c_tp c_fp c_sw c_score]; rewrite Qnat_S_eq; [|reflexivity].
    destruct sw; [rewrite Nat.add_1_r|]; reflexivity.
Qed.

(* with the default TPMetricsAp (every TP counts 1.0) the weighted counters are the hand model's *)
Lemma wcalc_one m T prevs curs :
  wcalc (fun _ => 1) m T prevs curs = counters_tuple (calc_tp_fp m T prevs curs).
Proof.
  unfold wcalc, calc_tp_fp. change (0, 0, 0%nat, 0) with (counters_tuple zero).
  generalize zero. induction curs as [|c curs IH]; intros a; [reflexivity|].
  cbn [fold_left]. rewrite wstep_one. apply IH.
Qed.

(* ---- 4. proof scripts --------------------------------------------------------------------------------------------------- *)
(* splits every `if b then .. else ..` whose condition is closed and contains no other `if`: the case analysis is on the ATOMS of
   the condition (under negb / && / ||), so that `if not a`, `if a and b` and swapped branches split the same facts *)
Ltac bool_atom b k :=
  lazymatch b with
  | negb ?c => bool_atom c k
  | andb ?c _ => bool_atom c k
  | orb ?c _ => bool_atom c k
  | Bool.eqb ?c _ => bool_atom c k
  | _ => k b
  end.

(* every integer comparison in terms of <? (so that `a >= b`, `not a < b` and `b <= a` split the same fact) *)
Ltac z_norm := rewrite ?Z.gtb_ltb, ?Z.geb_leb, ?Z.leb_antisym.

Ltac split_ifs :=
  repeat (z_norm; cbn [bind negb andb orb Bool.eqb fst snd inner_state];
          match goal with
          | |- context [if ?b then _ else _] =>
              lazymatch b with context [if _ then _ else _] => fail | _ => idtac end;
              bool_atom b ltac:(fun a => destruct a eqn:?)
          end);
  cbn [bind negb andb orb Bool.eqb fst snd inner_state].

Ltac close_leaf := first [ reflexivity | congruence | solve [ exfalso; congruence ] ].

(* goal:  <body of CLEAR._calculate_tp_fp> w m T curs prevs = Ok (wcalc w m T prevs curs) *)
Ltac clear_tp_fp_script w m T prevs curs :=
  cbv zeta;
  rewrite (loop_list _ (fun seen => wcalc w m T prevs seen) curs);
  [ cbn [bind]; destruct (wcalc w m T prevs curs) as [[[? ?] ?] ?]; reflexivity
  | reflexivity
  | let seen := fresh "seen" in let x := fresh "x" in let rest := fresh "rest" in
    let tp := fresh "tp" in let fp := fresh "fp" in let n := fresh "n" in let sc := fresh "sc" in let t := fresh "t" in
    intros seen x rest _;
    unfold wcalc; rewrite fold_left_app; cbn [fold_left];
    generalize (fold_left (wstep w m T prevs) seen (0, 0, 0%nat, 0)); intros [[[tp fp] n] sc];
    cbn [bind]; unfold wstep;
    destruct (label_threshold T (thr_label x)) as [t|]; [|reflexivity];
    rewrite (loop_list _ (fun seen' => inner_state w tp sc (scan m t x seen' false)) prevs);
    [ cbn [bind]; destruct (scan m t x prevs false) as [[? | ] ?]; split_ifs; close_leaf
    | reflexivity
    | let seen' := fresh "seen" in let p := fresh "p" in let rest' := fresh "rest" in
      intros seen' p rest' _; rewrite scan_snoc;
      destruct (scan m t x seen' false) as [[? | ] [ | ]]; cbn [inner_state bind]; try reflexivity;
      cbn [scan]; cbv zeta; split_ifs; close_leaf ] ].

(* ---- 5. CLEAR._calculate_score ------------------------------------------------------------------------------------------ *)
(* what the code computes from the attributes it reads (tp, fp any rationals; inf = None) *)
Definition score_general (numgt : nat) (tp fp : Q) (sw : nat) (sc : Q) : option Q * option Q :=
  ((if Nat.eqb numgt 0 then None else Some (max0 ((tp - fp - Qnat sw) / Qnat numgt))),
   (if Qeqb tp 0 then None else Some (sc / tp))).

Lemma Qeqb_Qnat_0 n : Qeqb (Qnat n) 0 = match n with O => true | S _ => false end.
Proof.
  destruct n; [reflexivity|]. destruct (Qeqb_spec (Qnat (S n)) 0) as [H|H]; [|reflexivity].
  exfalso. rewrite Qnat_S in H. pose proof (Qnat_nonneg n). lra.
Qed.

(* on the counters of the hand model (tp, fp naturals held as floats) these are Clear.mota_of / Clear.motp_of *)
Lemma score_general_model numgt a :
  score_general numgt (Qnat (c_tp a)) (Qnat (c_fp a)) (c_sw a) (c_score a) = (mota_of numgt a, motp_of a).
Proof.
  unfold score_general, mota_of, motp_of. rewrite Qeqb_Qnat_0.
  destruct numgt, (c_tp a); reflexivity.
Qed.

(* goal:  <body of CLEAR._calculate_score> numgt tp fp sw sc = Ok (score_general numgt tp fp sw sc) *)
Ltac clear_score_script := unfold score_general, max0; split_ifs; close_leaf.

(* ---- 6. CLEAR.__init__: accumulation over the frames ----------------------------------------------------------------------- *)
(* for i, x in enumerate(xs, k) *)
Lemma loop_enum_from {St A} (body : res St -> nat * A -> res St) (G : nat -> St) (xs : list A) k s0 :
  s0 = G 0%nat ->
  (forall i x, nth_error xs i = Some x -> body (Ok (G i)) ((k + i)%nat, x) = Ok (G (S i))) ->
  fold_left body (combine (seq k (length xs)) xs) (Ok s0) = Ok (G (length xs)).
Proof.
  intros -> H. induction xs as [|x xs IH] using rev_ind; [reflexivity|].
  rewrite app_length; cbn [length]; rewrite Nat.add_1_r.
  rewrite combine_seq_snoc_from, fold_left_app. rewrite IH.
  - cbn [fold_left]. apply H. rewrite nth_error_app2 by lia. rewrite Nat.sub_diag. reflexivity.
  - intros i y E. apply H. rewrite nth_error_app1; [exact E|]. apply nth_error_Some. congruence.
Qed.

(* (tp, fp, id_switch, tp_matching_score, objects_results_num) plus the values of one frame *)
Definition wadd (s : Q * Q * nat * Q * nat) (r : Q * Q * nat * Q) (n : nat) : Q * Q * nat * Q * nat :=
  let '(tp, fp, sw, sc, num) := s in let '(a, b, c, d) := r in (tp + a, fp + b, (sw + c)%nat, sc + d, (num + n)%nat).

Fixpoint wacc (w : result -> Q) (m : mode) (T : targets) (prev : frame) (rest : list frame) (s : Q * Q * nat * Q * nat) :=
  match rest with
  | [] => s
  | cur :: rest' => wacc w m T cur rest' (wadd s (wcalc w m T prev cur) (length cur))
  end.

Definition winit : Q * Q * nat * Q * nat := (0, 0, 0%nat, 0, 0%nat).

Definition wcounts (w : result -> Q) (m : mode) (T : targets) (h : list frame) : Q * Q * nat * Q * nat :=
  match h with [] => winit | f0 :: rest => wacc w m T f0 rest winit end.

(* (predict_num, tp, fp, id_switch, tp_matching_score, mota, motp) after the constructor *)
Definition init_result (w : result -> Q) (m : mode) (T : targets) (numgt : nat) (h : list frame) :=
  let '(tp, fp, sw, sc, num) := wcounts w m T h in
  let '(mota, motp) := score_general numgt tp fp sw sc in (num, tp, fp, sw, sc, mota, motp).

Lemma wacc_snoc w m T p l c s :
  wacc w m T p (l ++ [c]) s = wadd (wacc w m T p l s) (wcalc w m T (last l p) c) (length c).
Proof.
  revert p s; induction l as [|a l IH]; intros; [reflexivity|].
  cbn [app wacc]. rewrite IH. rewrite last_cons_default. reflexivity.
Qed.

(* object_results[i - 1] for the i-th element (from 1) of object_results[1:] is the frame before it *)
Lemma nth_prev {A} (f0 : A) rest i cur :
  nth_error rest i = Some cur -> nth_error (f0 :: rest) i = Some (last (firstn i rest) f0).
Proof.
  revert f0 i; induction rest as [|r rest IH]; intros f0 [|i] H; cbn in H; try discriminate; [reflexivity|].
  cbn [nth_error firstn]. rewrite last_cons_default. apply IH. exact H.
Qed.

Lemma Qnat_plus_eq a b : Qnat a + Qnat b = Qnat (a + b).
Proof. unfold Qnat, inject_Z, Qplus. cbn [Qnum Qden]. f_equal. rewrite Nat2Z.inj_add. ring. Qed.

Definition counters_tuple5 (a : counters) : Q * Q * nat * Q * nat := (Qnat (c_tp a), Qnat (c_fp a), c_sw a, c_score a, c_num a).

Lemma wacc_one m T p rest a :
  wacc (fun _ => 1) m T p rest (counters_tuple5 a) = counters_tuple5 (accumulate m T p rest a).
Proof.
  revert p a; induction rest as [|cur rest IH]; intros; [reflexivity|].
  cbn [wacc accumulate]. rewrite <- IH. f_equal.
  rewrite wcalc_one. unfold wadd, counters_tuple5, counters_tuple, add_counters. cbn [c_tp c_fp c_sw c_score c_num].
  rewrite !Qnat_plus_eq. reflexivity.
Qed.

Lemma wcounts_one m T h : wcounts (fun _ => 1) m T h = counters_tuple5 (clear_counts m T h).
Proof. destruct h as [|f0 rest]; [reflexivity|]. apply (wacc_one m T f0 rest zero). Qed.

(* with the default tp_metrics the constructor's attributes are the fields of Clear.make_clear *)
Lemma init_result_one m T numgt h :
  init_result (fun _ => 1) m T numgt h =
    let k := make_clear m T numgt h in
    (c_num (k_cnt k), Qnat (c_tp (k_cnt k)), Qnat (c_fp (k_cnt k)), c_sw (k_cnt k), c_score (k_cnt k), k_mota k, k_motp k).
Proof.
  unfold init_result. rewrite wcounts_one. unfold counters_tuple5. rewrite score_general_model. reflexivity.
Qed.

(* goal:  <body of CLEAR.__init__> w m T numgt h = Ok (init_result w m T numgt h)
   HT : forall w m T curs prevs, <generated _calculate_tp_fp> w m T curs prevs = Ok (wcalc w m T prevs curs)
   HS : forall n tp fp sw sc, <generated _calculate_score> n tp fp sw sc = Ok (score_general n tp fp sw sc) *)
Ltac clear_init_script w m T numgt h HT HS :=
  let f0 := fresh "f0" in let rest := fresh "rest" in
  cbv zeta; destruct h as [|f0 rest];
  [ cbn [tl length seq combine fold_left bind]; rewrite HS; cbn [bind];
    unfold init_result, wcounts, winit; destruct (score_general numgt 0 0 0 0) as [? ?]; reflexivity
  | cbn [tl];
    rewrite (loop_enum_from _ (fun i => wacc w m T f0 (firstn i rest) winit) rest 1);
    [ cbn [bind]; rewrite firstn_all; unfold init_result, wcounts;
      destruct (wacc w m T f0 rest winit) as [[[[? ?] ?] ?] ?]; rewrite HS; cbn [bind];
      match goal with |- context [score_general ?a ?b ?c ?d ?e] => destruct (score_general a b c d e) as [? ?] end; reflexivity
    | reflexivity
    | let i := fresh "i" in let cur := fresh "cur" in let Hc := fresh "Hc" in
      intros i cur Hc;
      change (1 + i)%nat with (S i); cbn [Nat.leb]; replace (S i - 1)%nat with i by lia;
      rewrite (nth_prev f0 rest i cur Hc); rewrite (firstn_nth_snoc _ _ _ Hc), wacc_snoc;
      destruct (wacc w m T f0 (firstn i rest) winit) as [[[[? ?] ?] ?] ?];
      cbn [bind]; rewrite HT; cbn [bind];
      match goal with |- context [wcalc ?a ?b ?c ?d ?e] => destruct (wcalc a b c d e) as [[[? ?] ?] ?] end;
      reflexivity ] ].

(* ---- 7. common/dataset.py get_now_frame: the running minimum by one more frame at the end ---------------------------------- *)
Open Scope Z_scope.

Lemma now_scan_snoc t seen x i b m :
  Lookup.now_scan t (seen ++ [x]) i b m =
    let '(b', m') := Lookup.now_scan t seen i b m in
    if Lookup.dist t x <? m' then ((i + length seen)%nat, Lookup.dist t x) else (b', m').
Proof.
  revert i b m; induction seen as [|a seen IH]; intros.
  - cbn [app Lookup.now_scan length]. rewrite Nat.add_0_r. destruct (Lookup.dist t x <? m); reflexivity.
  - cbn [app Lookup.now_scan length]. cbv zeta. rewrite Nat.add_succ_r.
    destruct (Lookup.dist t a <? m); rewrite IH; reflexivity.
Qed.

Lemma now_scan_bound t l i b m :
  fst (Lookup.now_scan t l i b m) = b \/ (i <= fst (Lookup.now_scan t l i b m) < i + length l)%nat.
Proof.
  revert i b m; induction l as [|a l IH]; intros; [left; reflexivity|].
  cbn [Lookup.now_scan length]. cbv zeta. destruct (Lookup.dist t a <? m).
  - destruct (IH (S i) i (Lookup.dist t a)) as [H|H]; right; lia.
  - destruct (IH (S i) b m) as [H|H]; [left; exact H | right; lia].
Qed.

(* the state of the loop after the frames `seen`: (ground_truth_now_frame, min_time); l is the whole list, f0 its first frame *)
Definition now_state (t : Z) (l : list Lookup.frame) (f0 : Lookup.frame) (seen : list Lookup.frame) : Lookup.frame * Z :=
  let '(b, m) := Lookup.now_scan t seen 0 0 (Lookup.dist t f0) in (nth b l f0, m).

(* the model's answer (frames by index, errors as constructors) in the terms of the code (the frame object, IndexError) *)
Definition now_frame_result (l : list Lookup.frame) (r : Lookup.result) : res (option Lookup.frame) :=
  match r with
  | Lookup.RNone => Ok None
  | Lookup.RFrame i => match nth_error l i with Some f => Ok (Some f) | None => ErrIndex end
  | _ => ErrIndex
  end.

Lemma get_now_frame_index l t tol i : Lookup.get_now_frame l t tol = Lookup.RFrame i -> (i < length l)%nat.
Proof.
  unfold Lookup.get_now_frame. destruct (t >? Lookup.max_unix_time); [discriminate|].
  destruct l as [|f0 l']; [discriminate|].
  pose proof (now_scan_bound t (f0 :: l') 0 0 (Lookup.dist t f0)) as H.
  destruct (Lookup.now_scan t (f0 :: l') 0 0 (Lookup.dist t f0)) as [b m]. cbn [fst] in H.
  destruct (m >? tol); [discriminate|]. intros E; inversion E; subst. cbn [length] in *. lia.
Qed.

(* goal:  <body of get_now_frame after its guard> l t tol = now_frame_result l (Lookup.get_now_frame l t tol);
   Hg : (t >? Lookup.max_unix_time) = false *)
Ltac now_frame_script l t tol Hg :=
  let f0 := fresh "f0" in let l' := fresh "l" in let L := fresh "L" in let EL := fresh "EL" in
  unfold Lookup.get_now_frame; rewrite Hg; cbv zeta;
  destruct l as [|f0 l']; [reflexivity|];
  remember (f0 :: l') as L eqn:EL;
  replace (nth_error L 0) with (Some f0) by (rewrite EL; reflexivity); cbn [bind];
  rewrite (loop_list _ (now_state t L f0) L);
  [ cbn [bind]; unfold now_state;
    let H := fresh "H" in
    pose proof (now_scan_bound t L 0 0 (Lookup.dist t f0)) as H;
    destruct (Lookup.now_scan t L 0 0 (Lookup.dist t f0)) as [? ?]; cbn [fst] in H;
    split_ifs; [reflexivity|]; cbn [now_frame_result];
    rewrite (nth_error_nth' L f0) by (rewrite EL in *; cbn [length] in *; lia); reflexivity
  | unfold now_state; cbn [Lookup.now_scan]; rewrite EL; reflexivity
  | let seen := fresh "seen" in let x := fresh "x" in let rest := fresh "rest" in let E := fresh "E" in
    intros seen x rest E; unfold now_state; rewrite now_scan_snoc;
    destruct (Lookup.now_scan t seen 0 0 (Lookup.dist t f0)) as [? ?]; cbn [bind]; unfold Lookup.dist;
    split_ifs; try reflexivity;
    cbn [Nat.add]; rewrite E, nth_middle; reflexivity ].

(* ---- 8. get_interpolated_now_frame: the neighbour search with its break --------------------------------------------------- *)
Lemma nb_scan_snoc t seen x i b0 :
  Lookup.nb_scan t (seen ++ [x]) i b0 =
    match Lookup.nb_scan t seen i b0 with
    | (b, Some a) => (b, Some a)
    | (b, None) => Lookup.nb_scan t [x] (i + length seen)%nat b
    end.
Proof.
  revert i b0; induction seen as [|a seen IH]; intros.
  - cbn [app Lookup.nb_scan length]. rewrite Nat.add_0_r. reflexivity.
  - cbn [app Lookup.nb_scan length]. cbv zeta. rewrite Nat.add_succ_r.
    destruct (t - Lookup.f_stamp a >=? 0); [apply IH | reflexivity].
Qed.

(* a neighbour (index, frame, dt) in the terms of the code: the frame object and its dt (0 when there is none) *)
Definition nb_frame (n : option Lookup.nb) : option Lookup.frame := match n with Some (_, f, _) => Some f | None => None end.
Definition nb_dt (n : option Lookup.nb) : Z := match n with Some (_, _, d) => d | None => 0 end.

(* the loop state (break flag, (before_frame, after_frame, dt_before, dt_after)) for a result of the model's scan *)
Definition nb_state (r : option Lookup.nb * option Lookup.nb) : bool * (option Lookup.frame * option Lookup.frame * Z * Z) :=
  let '(b, a) := r in
  (match a with Some _ => true | None => false end, (nb_frame b, nb_frame a, nb_dt b, nb_dt a)).

(* what the neighbour search returns: the gated frames and the (ungated) time differences *)
Definition nb_result (t tol : Z) (l : list Lookup.frame) : option Lookup.frame * option Lookup.frame * Z * Z :=
  let '(b, a) := Lookup.nb_scan t l 0 None in
  (nb_frame (Lookup.gate tol b), nb_frame (Lookup.gate tol a), nb_dt b, nb_dt a).

(* the index a neighbour carries is the position of its frame *)
Lemma nb_scan_index t l i (b0 : option Lookup.nb) :
  (forall j f d, b0 = Some (j, f, d) -> (j < i)%nat) ->
  let '(b, a) := Lookup.nb_scan t l i b0 in
  (forall j f d, b = Some (j, f, d) -> b = b0 \/ nth_error l (j - i) = Some f /\ (i <= j)%nat) /\
  (forall j f d, a = Some (j, f, d) -> nth_error l (j - i) = Some f /\ (i <= j)%nat).
Proof.
  revert i b0; induction l as [|x l IH]; intros i b0 Hb.
  - cbn. split; [intros; left; reflexivity | intros; discriminate].
  - cbn [Lookup.nb_scan]. cbv zeta. destruct (t - Lookup.f_stamp x >=? 0).
    + specialize (IH (S i) (Some (i, x, t - Lookup.f_stamp x))).
      destruct (Lookup.nb_scan t l (S i) (Some (i, x, t - Lookup.f_stamp x))) as [b a].
      destruct IH as [H1 H2]; [intros j f d E; inversion E; lia|]. split.
      * intros j f d E. right. destruct (H1 j f d E) as [H|[H Hle]].
        -- rewrite H in E. inversion E; subst. rewrite Nat.sub_diag. split; [reflexivity | lia].
        -- replace (j - i)%nat with (S (j - S i)) by lia. split; [exact H | lia].
      * intros j f d E. destruct (H2 j f d E) as [H Hle].
        replace (j - i)%nat with (S (j - S i)) by lia. split; [exact H | lia].
    + split; [intros; left; reflexivity|]. intros j f d E. inversion E; subst. rewrite Nat.sub_diag. split; [reflexivity | lia].
Qed.

(* goal:  <body of the neighbour search> l t tol = Ok (nb_result t tol l) *)
Ltac neighbour_script l t tol :=
  cbv zeta;
  rewrite (loop_list _ (fun seen => nb_state (Lookup.nb_scan t seen 0 None)) l);
  [ cbn [bind]; unfold nb_result, nb_state;
    destruct (Lookup.nb_scan t l 0 None) as [[[[? ?] ?]|] [[[? ?] ?]|]]; cbn [nb_frame nb_dt Lookup.gate];
    split_ifs; close_leaf
  | reflexivity
  | let seen := fresh "seen" in let x := fresh "x" in let rest := fresh "rest" in
    intros seen x rest _; rewrite nb_scan_snoc;
    destruct (Lookup.nb_scan t seen 0 None) as [[[[? ?] ?]|] [[[? ?] ?]|]]; cbn [nb_state nb_frame nb_dt bind]; try reflexivity;
    cbn [Lookup.nb_scan]; cbv zeta; split_ifs; close_leaf ].
