(* C06 -- symmetry of the exact evaluator: inter_clip e g == inter_clip g e.
     9.  every vertex of clip(e, g) is in the hull of clip(g, e) (completeness of a pass as far as
         half-planes can say it);
     10. cutting a polygon by a line: the shoelace sums of the two sides add up;
     11. a once-traversed polygon inside a triangle has at most the triangle's shoelace sum;
     12. monotonicity: a once-traversed polygon inside a convex polygon that is not a single
         point has at most its shoelace sum (fan of the outer polygon, one cut per fan ray);
     13. a point of the hull of a proper convex polygon is a convex combination of three vertices;
     14. hence a pass cannot collapse a polygon whose hull has a point strictly inside the line,
         clip(e, g) of positive area fits into every intermediate polygon of clip(g, e), and the
         two orders give the same area. *)
From Coq Require Import List ZArith QArith Bool Lia Lqa Psatz.
From PE Require Import Base.QUtil Model.Geom2 Model.Clip Proofs.Geom2Proofs Proofs.ClipProofs Proofs.ClipArea.
Import ListNotations.
Open Scope Q_scope.


(* ======================================================================================== *)
(* 9. towards symmetry: both orders bound the same point set                                 *)
(* ======================================================================================== *)
(* completeness half, as far as half-planes can say it: a point of the subject's hull that is on
   the inner side of the clipping line is in the hull of the clipped polygon *)
Lemma Hull_clip_edge_complete a b P p :
  Conv P -> Hull P p -> 0 <= cross a b p -> Hull (clip_edge a b P) p.
Proof.
  intros C Hp Hab. destruct P as [|f t]; [intros u v []|].
  pose proof (clip_edge_Hull a b (f :: t) C) as HH.
  rewrite clip_edge_cons in *.
  destruct (clip_edge_aux a b (lastp f t) (f :: t)) as [|f' t'] eqn:E; [intros u v []|].
  intros u v Huv. unfold cpairs in Huv. rewrite <- E in Huv.
  pose proof (clip_aux_last a b (f :: t) (lastp f t) (lastp f' t')) as L.
  rewrite E, hd_error_rev_cons in L. specialize (L eq_refl).
  rewrite hd_rev_cons in L. fold (lastp f t) in L. destruct L as [L1 L2].
  apply (clip_chain a b (f :: t) (f :: t) (lastp f t) (lastp f' t')) with (u := u) (v := v).
  - intros u' v' H' q Hq. now apply Hq.
  - apply C, in_lastp.
  - intros x Hx. now apply C.
  - intros Hi. rewrite (L1 Hi). apply pt_eq_refl.
  - intros Ho. split; [now apply L2|apply HH, in_lastp].
  - exact Huv.
  - split; assumption.
Qed.

Lemma Hull_clip_edges_complete first cl p : forall P,
  Conv P -> Hull P p ->
  (forall ab, In ab (edges_from first cl) -> 0 <= cross (fst ab) (snd ab) p) ->
  Hull (clip_edges first cl P) p.
Proof.
  induction cl as [|a t IH]; intros P C Hp H; cbn [clip_edges]; [exact Hp|].
  apply IH.
  - now apply Conv_clip_edge.
  - apply Hull_clip_edge_complete; [exact C|exact Hp|]. apply (H (a, match t with [] => first | b :: _ => b end)).
    cbn [edges_from]. now left.
  - intros ab Hab. apply H. cbn [edges_from]. now right.
Qed.

Lemma Hull_clip_complete subj cl p :
  cl <> [] -> Conv subj -> Hull subj p ->
  (forall ab, In ab (edges cl) -> 0 <= cross (fst ab) (snd ab) p) ->
  Hull (clip subj cl) p.
Proof.
  intros N C Hp H. unfold clip. destruct cl as [|f t]; [congruence|].
  apply Hull_clip_edges_complete; [exact C|exact Hp|].
  intros ab Hab. apply H. rewrite edges_edges_from. exact Hab.
Qed.

(* every vertex of clip(e, g) is in the hull of clip(g, e) *)
Lemma clip_boxes_mutual e g : box_valid e -> box_valid g ->
  forall p, In p (clip (rcorners e) (rcorners g)) -> Hull (clip (rcorners g) (rcorners e)) p.
Proof.
  intros Ve Vg p Hp. destruct (clip_boxes_sound e g Ve Vg p Hp) as [Hg He].
  apply Hull_clip_complete.
  - destruct (rcorners4 e) as (r0 & r1 & r2 & r3 & E). rewrite E. discriminate.
  - apply Conv_rcorners; exact Vg.
  - intros u v Huv. destruct (rcorners4 g) as (r0 & r1 & r2 & r3 & E). rewrite E in *.
    apply cpairs_edges4 in Huv. exact (Hg (u, v) Huv).
  - exact He.
Qed.


(* ======================================================================================== *)
(* 10. cutting a polygon by a line: the two sides add up                                      *)
(* ======================================================================================== *)
Lemma cross_rev a b p : cross b a p == - cross a b p.
Proof. unfold cross. ring. Qed.

Lemma lam_add a b c s e : ~ cross a b c == 0 ->
  (lam a b s e + lam b a s e) * cross a s e == cross a s e.
Proof.
  intros Hc. unfold lam, tpar, inside.
  destruct (Qleb_spec 0 (cross a b e)) as [E1|E1], (Qleb_spec 0 (cross a b s)) as [S1|S1],
           (Qleb_spec 0 (cross b a e)) as [E2|E2], (Qleb_spec 0 (cross b a s)) as [S2|S2];
    rewrite ?(cross_rev a b) in *; try (exfalso; lra).
  - (* both on the line *)
    assert (Z : cross a s e == 0).
    { apply (collinear0 a b c Hc); unfold onl; [unfold cross; ring|lra|lra]. }
    rewrite Z. ring.
  - assert (de0 : cross a b e == 0) by lra. rewrite de0. field. lra.
  - assert (ds0 : cross a b s == 0) by lra. rewrite ds0. field. lra.
  - ring.
  - assert (de0 : cross a b e == 0) by lra. rewrite de0. field. lra.
  - field. lra.
  - assert (ds0 : cross a b s == 0) by lra. rewrite ds0. field. lra.
  - field. lra.
  - ring.
Qed.

Lemma wsum_add a b c o l : ~ cross a b c == 0 -> pt_eq o a -> forall prev,
  wsum a b o prev l + wsum b a o prev l == csum o prev l.
Proof.
  intros Hc Ho. induction l as [|x t IH]; intros prev; cbn [wsum csum]; [ring|].
  rewrite <- IH.
  assert (E : cross o prev x == cross a prev x)
    by (apply cross_pt_eq; [exact Ho|apply pt_eq_refl|apply pt_eq_refl]).
  pose proof (lam_add a b c prev x Hc) as L. rewrite E. lra.
Qed.

Lemma clip_edge_additive a b c P : ~ cross a b c == 0 ->
  shoelace2 (clip_edge a b P) + shoelace2 (clip_edge b a P) == shoelace2 P.
Proof.
  intros Hc. destruct P as [|f t]; [reflexivity|].
  assert (Hc' : ~ cross b a c == 0) by (rewrite (cross_rev a b); lra).
  rewrite (clip_edge_wsum a b c Hc a f t) by (unfold onl, cross; ring).
  rewrite (clip_edge_wsum b a c Hc' a f t) by (unfold onl, cross; ring).
  rewrite (shoelace2_cycsum a (f :: t)). unfold cycsum.
  apply (wsum_add a b c a); [exact Hc|apply pt_eq_refl].
Qed.


(* ======================================================================================== *)
(* 11. a once-traversed polygon inside a triangle                                            *)
(* ======================================================================================== *)
Lemma exs_ext_in sd sd' l : forall prev,
  (forall p, In p (prev :: l) -> sd p = sd' p) -> exs sd prev l = exs sd' prev l.
Proof.
  induction l as [|x t IH]; intros prev H; cbn [exs]; [reflexivity|].
  unfold ex1. rewrite (H prev (or_introl eq_refl)), (H x (or_intror (or_introl eq_refl))), IH; [reflexivity|].
  intros p Hp. apply H. now right.
Qed.

Lemma trapezoid_form (xi eta : pt -> Q) P :
  psum (fun uv => xi (fst uv) * eta (snd uv) - xi (snd uv) * eta (fst uv)) (cpairs P) ==
  psum (fun uv => (xi (fst uv) - xi (snd uv)) * (eta (fst uv) + eta (snd uv))) (cpairs P).
Proof.
  assert (E : psum (fun uv => xi (fst uv) * eta (snd uv) - xi (snd uv) * eta (fst uv)) (cpairs P) ==
              psum (fun uv => (xi (fst uv) - xi (snd uv)) * (eta (fst uv) + eta (snd uv))
                              + - (xi (fst uv) * eta (fst uv) - xi (snd uv) * eta (snd uv))) (cpairs P)).
  { apply psum_ext. intros [u v] _. cbn [fst snd]. ring. }
  rewrite E, psum_plus.
  assert (Z : psum (fun uv => - (xi (fst uv) * eta (fst uv) - xi (snd uv) * eta (snd uv))) (cpairs P) == 0).
  { rewrite <- (psum_tele_cyc (fun p => - (xi p * eta p)) P). apply psum_ext. intros [u v] _. cbn [fst snd]. ring. }
  rewrite Z. ring.
Qed.

Section InTri.
  Variables t0 t1 t2 : pt.
  Hypothesis Apos : 0 < cross t0 t1 t2.

  Definition txi (p : pt) : Q := cross t0 t1 p.
  Definition teta (p : pt) : Q := cross t1 t2 p.
  Definition tzeta (p : pt) : Q := cross t2 t0 p.
  Definition tF (c : Q) : Q := 2 * cross t0 t1 t2 * c - c * c.
  Definition txiF (p : pt) : Q := tF (txi p).

  Lemma tri_sum p : txi p + teta p + tzeta p == cross t0 t1 t2.
  Proof. unfold txi, teta, tzeta, cross. ring. Qed.

  Lemma tF_diff x y : tF y - tF x == (y - x) * (2 * cross t0 t1 t2 - x - y).
  Proof. unfold tF. ring. Qed.

  Lemma tF_mono x y : 0 <= x <= cross t0 t1 t2 -> 0 <= y <= cross t0 t1 t2 -> Qleb (tF x) (tF y) = Qleb x y.
  Proof.
    intros Hx Hy. pose proof (tF_diff x y) as D. set (A := cross t0 t1 t2) in *.
    destruct (Qleb_spec (tF x) (tF y)) as [L|L], (Qleb_spec x y) as [M|M]; try reflexivity; exfalso.
    - assert (0 < (x - y) * (2 * A - x - y)) by (apply Qmult_lt_0_compat; lra). nra.
    - assert (0 <= (y - x) * (2 * A - x - y)) by (apply Qmult_le_0_compat; lra). lra.
  Qed.

  Lemma tri_shoelace_le Q :
    Uni Q -> (forall p, In p Q -> 0 <= txi p /\ 0 <= teta p /\ 0 <= tzeta p) ->
    shoelace2 Q <= cross t0 t1 t2.
  Proof.
    intros U HQ. set (A := cross t0 t1 t2) in *.
    assert (Bx : forall p, In p Q -> 0 <= txi p <= A /\ 0 <= teta p <= A - txi p).
    { intros p Hp. destruct (HQ p Hp) as (H0 & H1 & H2). pose proof (tri_sum p). fold A in H. lra. }
    assert (E : A * shoelace2 Q ==
                psum (fun uv => txi (fst uv) * teta (snd uv) - txi (snd uv) * teta (fst uv)) (cpairs Q)).
    { rewrite (shoelace2_cycsum t1), cycsum_psum, <- psum_scale. apply psum_ext.
      intros [u v] _. cbn [fst snd]. apply (para_det t0 t1 t2). }
    rewrite trapezoid_form in E.
    assert (B : psum (fun uv => (txi (fst uv) - txi (snd uv)) * (teta (fst uv) + teta (snd uv))) (cpairs Q)
                <= psum (desc txiF) (cpairs Q)).
    { apply psum_le. intros [u v] Huv. destruct (cpairs_in Q u v Huv) as [Hu Hv].
      destruct (Bx u Hu) as [[U0 U1] [U2 U3]], (Bx v Hv) as [[V0 V1] [V2 V3]].
      unfold desc, dplus, txiF. cbn [fst snd]. pose proof (tF_diff (txi v) (txi u)) as D. fold A in D.
      set (d := txi u - txi v) in *. set (m := 2 * A - txi v - txi u) in *. set (s := teta u + teta v).
      assert (Hs : 0 <= s <= m) by (unfold s, m; lra).
      destruct (Qltb_spec 0 (tF (txi u) - tF (txi v))) as [P|P].
      - rewrite D. destruct (Qlt_le_dec 0 d) as [Dp|Dn].
        + assert (0 <= d * (m - s)) by (apply Qmult_le_0_compat; lra). lra.
        + exfalso. assert (d * m <= 0) by nra. lra.
      - destruct (Qlt_le_dec 0 d) as [Dp|Dn].
        + assert (M0 : m <= 0) by nra. assert (S0 : s == 0) by lra. rewrite S0. lra.
        + nra. }
    assert (D : psum (desc txiF) (cpairs Q) <= A * A - 0).
    { apply (travel txiF (length (cpairs Q))); [lia|nra| |].
      - intros [u v] Huv _. destruct (cpairs_in Q u v Huv) as [Hu Hv]. cbn [fst snd].
        destruct (Bx u Hu) as [[U0 U1] _], (Bx v Hv) as [[V0 V1] _]. unfold txiF, tF. fold A. split; nra.
      - intros [q w] Hq. cbn [fst]. destruct (cpairs_in Q q w Hq) as [Hq' _].
        destruct Q as [|f t]; [cbn; lia|]. unfold cpairs. rewrite cnt_exs.
        rewrite (exs_ext_in _ (inside q (par_to t0 t1 q))); [apply (U q (par_to t0 t1 q))|].
        intros p Hp. assert (Hp' : In p (f :: t)) by (destruct Hp as [<-|Hp]; [apply in_lastp|exact Hp]).
        rewrite (inside_par t0 t1 q p). unfold txiF. apply tF_mono; [apply (Bx q Hq')|apply (Bx p Hp')]. }
    assert (L : A * shoelace2 Q <= A * A) by lra.
    assert (R : 0 <= A - shoelace2 Q) by (apply (pos_mult_nonneg A); [exact Apos|lra]). lra.
  Qed.
End InTri.

(* the degenerate triangle: everything on a line *)
Lemma tri_shoelace_flat t0 t1 t2 c Q :
  cross t0 t1 t2 == 0 -> ~ cross t2 t0 c == 0 ->
  (forall p, In p Q -> 0 <= cross t0 t1 p /\ 0 <= cross t1 t2 p /\ 0 <= cross t2 t0 p) ->
  shoelace2 Q == 0.
Proof.
  intros Z Hc HQ. apply (collinear_shoelace0 t2 t0 c Q Hc).
  intros p Hp. destruct (HQ p Hp) as (H0 & H1 & H2). pose proof (tri_sum t0 t1 t2 p) as S.
  unfold txi, teta, tzeta in S. lra.
Qed.


(* ======================================================================================== *)
(* 12. monotonicity of the shoelace sum: a once-traversed polygon inside a convex one         *)
(* ======================================================================================== *)
Lemma pt_eq_dec p q : {pt_eq p q} + {~ pt_eq p q}.
Proof.
  destruct (Qeq_dec (fst p) (fst q)) as [E1|N1]; [destruct (Qeq_dec (snd p) (snd q)) as [E2|N2]|].
  - left. now split.
  - right. intros [_ H]. contradiction.
  - right. intros [H _]. contradiction.
Qed.

Lemma nondeg_witness o v : ~ pt_eq v o -> exists c, ~ cross o v c == 0.
Proof.
  intros N. destruct (degenerate_or_witness o v) as [D|W]; [exfalso|exact W].
  apply N. split.
  - pose proof (D (fst o, snd o + 1)) as H. unfold cross in H. cbn [fst snd] in H.
    assert (X : (fst v - fst o) * (snd o + 1 - snd o) - (snd v - snd o) * (fst o - fst o) == fst v - fst o) by ring.
    rewrite X in H. lra.
  - pose proof (D (fst o + 1, snd o)) as H. unfold cross in H. cbn [fst snd] in H.
    assert (X : (fst v - fst o) * (snd o - snd o) - (snd v - snd o) * (fst o + 1 - fst o) == snd o - snd v) by ring.
    rewrite X in H. lra.
Qed.

Lemma cross_oo o u : cross o u o == 0.
Proof. unfold cross. ring. Qed.
Lemma cross_oo' o u : cross o o u == 0.
Proof. unfold cross. ring. Qed.

Section Fan.
  Variable o : pt.
  Variable K : list (pt * pt).       (* the edges of the outer polygon *)

  Lemma fan_step : forall rest u Qc,
    Uni Qc ->
    (forall p, In p Qc -> 0 <= cross o u p) ->
    (forall a b, In (a, b) K -> forall p, In p Qc -> 0 <= cross a b p) ->
    (forall u' v', In (u', v') (pairs u rest) -> In (u', v') K /\ 0 <= cross o u' v') ->
    In (hd u (rev rest), o) K ->
    ~ (pt_eq u o /\ forall x, In x rest -> pt_eq x o) ->
    shoelace2 Qc <= csum o u rest.
  Proof.
    induction rest as [|v rest' IH]; intros u Qc U Hou HK Hp Hclose Hnd.
    - (* only the closing edge u -> o is left: Qc lies on the line o-u *)
      cbn [rev hd] in Hclose. cbn [csum].
      destruct (pt_eq_dec u o) as [E|N]; [exfalso; apply Hnd; split; [exact E|intros x []]|].
      destruct (nondeg_witness o u N) as [c Hc].
      rewrite (collinear_shoelace0 o u c Qc Hc); [lra|].
      intros p Hq. pose proof (Hou p Hq). pose proof (HK u o Hclose p Hq) as H2.
      rewrite (cross_rev o u) in H2. lra.
    - cbn [csum].
      destruct (Hp u v (or_introl eq_refl)) as [Kuv Auv].
      assert (Hp' : forall u' v', In (u', v') (pairs v rest') -> In (u', v') K /\ 0 <= cross o u' v')
        by (intros u' v' H; apply Hp; now right).
      assert (Hclose' : In (hd v (rev rest'), o) K) by (rewrite <- (hd_rev_cons u v rest'); exact Hclose).
      assert (Nn : 0 <= csum o v rest').
      { apply csum_nonneg. intros u' v' H. now apply Hp'. }
      destruct (pt_eq_dec v o) as [Ev|Nv].
      + assert (Z : cross o u v == 0).
        { rewrite (cross_pt_eq o u v o u o (pt_eq_refl o) (pt_eq_refl u) Ev). apply cross_oo. }
        destruct (pt_eq_dec u o) as [Eu|Nu].
        * rewrite Z. assert (shoelace2 Qc <= csum o v rest'); [|lra].
          apply (IH v Qc U); auto.
          -- intros p Hq. rewrite (cross_pt_eq o v p o o p (pt_eq_refl o) Ev (pt_eq_refl p)), cross_oo'. lra.
          -- intros [_ H]. apply Hnd. split; [exact Eu|]. intros x [<-|Hx]; [exact Ev|now apply H].
        * destruct (nondeg_witness o u Nu) as [c Hc].
          rewrite (collinear_shoelace0 o u c Qc Hc); [lra|].
          intros p Hq. pose proof (Hou p Hq). pose proof (HK u v Kuv p Hq) as H2.
          rewrite (cross_pt_eq u v p u o p (pt_eq_refl u) Ev (pt_eq_refl p)), (cross_rev o u) in H2. lra.
      + destruct (nondeg_witness o v Nv) as [c Hc].
        assert (Hc' : ~ cross v o c == 0) by (rewrite (cross_rev o v); lra).
        pose proof (clip_edge_additive o v c Qc Hc) as Add.
        assert (Piece : shoelace2 (clip_edge v o Qc) <= cross o u v).
        { assert (Cs : forall p, In p (clip_edge v o Qc) ->
                     0 <= cross o u p /\ 0 <= cross u v p /\ 0 <= cross v o p).
          { intros p Hq. split; [|split].
            - apply (clip_edge_keeps o u v o Qc); [intros q Hq'; now apply Hou|exact Hq].
            - apply (clip_edge_keeps u v v o Qc); [intros q Hq'; now apply (HK u v Kuv)|exact Hq].
            - now apply (clip_edge_own v o Qc). }
          destruct (Qlt_le_dec 0 (cross o u v)) as [Pos|Npos].
          - apply (tri_shoelace_le o u v Pos); [now apply Uni_clip_edge|exact Cs].
          - assert (Z : cross o u v == 0) by lra.
            rewrite (tri_shoelace_flat o u v c _ Z Hc' Cs). lra. }
        assert (Rest : shoelace2 (clip_edge o v Qc) <= csum o v rest').
        { apply (IH v (clip_edge o v Qc)); auto.
          - now apply Uni_clip_edge.
          - intros p Hq. now apply (clip_edge_own o v Qc).
          - intros a b Hab p Hq. apply (clip_edge_keeps a b o v Qc); [intros q Hq'; now apply (HK a b Hab)|exact Hq].
          - intros [H _]. contradiction. }
        lra.
  Qed.
End Fan.

Lemma all_eq_shoelace0 r0 rs : (forall x, In x rs -> pt_eq x r0) -> shoelace2 (r0 :: rs) == 0.
Proof.
  intros H. rewrite (shoelace2_cycsum r0). unfold cycsum. apply csum_zero.
  intros u v Huv. destruct (cpairs_in (r0 :: rs) u v Huv) as [[<-|Hu] _].
  - apply cross_oo'.
  - rewrite (cross_pt_eq r0 u v r0 r0 v (pt_eq_refl r0) (H u Hu) (pt_eq_refl v)). apply cross_oo'.
Qed.

(* a once-traversed polygon all of whose vertices are in the hull of a convex counter-clockwise
   polygon that is not a single point has at most its shoelace sum *)
Lemma shoelace_mono r0 rs Q :
  Conv (r0 :: rs) -> ~ (forall x, In x rs -> pt_eq x r0) ->
  Uni Q -> (forall p, In p Q -> Hull (r0 :: rs) p) ->
  shoelace2 Q <= shoelace2 (r0 :: rs).
Proof.
  intros C Hnd U HQ. destruct rs as [|r1 rest]; [exfalso; apply Hnd; intros x []|].
  set (R := r0 :: r1 :: rest) in *.
  assert (KE : cpairs R = (hd r1 (rev rest), r0) :: (r0, r1) :: pairs r1 rest).
  { unfold R, cpairs, lastp. rewrite hd_rev_cons. reflexivity. }
  assert (SR : shoelace2 R == csum r0 r1 rest).
  { rewrite (shoelace2_cycsum r0). unfold R, cycsum, lastp. cbn [csum]. rewrite cross_oo, cross_oo'. ring. }
  rewrite SR.
  apply (fan_step r0 (cpairs R) rest r1 Q U).
  - intros p Hp. apply (HQ p Hp). rewrite KE. right; now left.
  - intros a b Hab p Hp. now apply (HQ p Hp).
  - intros u' v' H. assert (In (u', v') (cpairs R)) by (rewrite KE; right; now right).
    split; [assumption|]. rewrite cross_cyc. apply C; [now left|assumption].
  - rewrite KE. now left.
  - intros [E1 E2]. apply Hnd. intros x [<-|Hx]; [exact E1|now apply E2].
Qed.

(* ---------------------------------------------------------------------------------------- *)
(* symmetry of the evaluator wherever the swapped result has positive area                    *)
(* ---------------------------------------------------------------------------------------- *)
Lemma inter_clip_sym_le e g : box_valid e -> box_valid g ->
  0 < inter_clip g e -> inter_clip e g <= inter_clip g e.
Proof.
  intros Ve Vg Pos. unfold inter_clip, clip_area, poly_area in *.
  set (R := clip (rcorners g) (rcorners e)) in *. set (Q := clip (rcorners e) (rcorners g)).
  assert (PR : 0 < shoelace2 R).
  { destruct (Qlt_le_dec 0 (shoelace2 R)) as [H|H]; [exact H|exfalso].
    assert (shoelace2 R / 2 <= 0 / 2) by (apply Qdiv_le_compat_l; lra).
    assert (Z : 0 / 2 == 0) by reflexivity. lra. }
  destruct (clip_pass (rcorners g) (rcorners e) (Conv_rcorners g Vg)) as [CR _]. fold R in CR.
  assert (M : shoelace2 Q <= shoelace2 R).
  { destruct R as [|r0 rs] eqn:ER; [cbn in PR; lra|].
    apply shoelace_mono; [exact CR| |apply Uni_clip, Uni_rcorners, Ve|].
    - intros H. rewrite (all_eq_shoelace0 r0 rs H) in PR. lra.
    - intros p Hp. rewrite <- ER. unfold R. apply clip_boxes_mutual; [exact Ve|exact Vg|exact Hp]. }
  apply Qdiv_le_compat_l; [lra|exact M].
Qed.

Lemma inter_clip_sym_pos e g : box_valid e -> box_valid g ->
  0 < inter_clip e g -> 0 < inter_clip g e -> inter_clip e g == inter_clip g e.
Proof.
  intros Ve Vg P1 P2. pose proof (inter_clip_sym_le e g Ve Vg P2). pose proof (inter_clip_sym_le g e Vg Ve P1). lra.
Qed.


(* ======================================================================================== *)
(* 13. a point of the hull of a proper convex polygon is a convex combination of vertices     *)
(* ======================================================================================== *)
Lemma bary n1 n2 p0 u v a :
  cross p0 u v * cross n1 n2 a ==
  cross u v a * cross n1 n2 p0 + cross v p0 a * cross n1 n2 u + cross p0 u a * cross n1 n2 v.
Proof. unfold cross. ring. Qed.

Lemma tri_weights p0 u v a : cross p0 u a + cross u v a + cross v p0 a == cross p0 u v.
Proof. unfold cross. ring. Qed.

Lemma list_neg_dec (h : pt -> Q) l : (exists x, In x l /\ h x < 0) \/ (forall x, In x l -> 0 <= h x).
Proof.
  induction l as [|y t [(x & Hx & Hn)|IH]].
  - right. intros x [].
  - left. exists x. split; [now right|exact Hn].
  - destruct (Qlt_le_dec (h y) 0) as [N|N].
    + left. exists y. split; [now left|exact N].
    + right. intros x [<-|Hx]; [exact N|now apply IH].
Qed.

Lemma list_pos_dec (h : pt -> Q) l : (exists x, In x l /\ 0 < h x) \/ (forall x, In x l -> h x <= 0).
Proof.
  destruct (list_neg_dec (fun x => - h x) l) as [(x & Hx & Hn)|H].
  - left. exists x. split; [exact Hx|lra].
  - right. intros x Hx. specialize (H x Hx). cbv beta in H. lra.
Qed.

Lemma loc_neg (h : pt -> Q) : forall rest u, 0 <= h u -> (exists x, In x rest /\ h x < 0) ->
  exists u' v', In (u', v') (pairs u rest) /\ 0 <= h u' /\ h v' < 0.
Proof.
  induction rest as [|v rest' IH]; intros u Hu (x & Hx & Hn); [contradiction|].
  destruct (Qlt_le_dec (h v) 0) as [N|N].
  - exists u, v. split; [now left|split; assumption].
  - destruct Hx as [<-|Hx]; [lra|].
    destruct (IH v N (ex_intro _ x (conj Hx Hn))) as (u' & v' & H1 & H2). exists u', v'. split; [now right|exact H2].
Qed.

Lemma loc_pos (h : pt -> Q) : forall rest u, h (hd u (rev rest)) <= 0 -> (exists x, In x (u :: rest) /\ 0 < h x) ->
  exists u' v', In (u', v') (pairs u rest) /\ 0 < h u' /\ h v' <= 0.
Proof.
  induction rest as [|v rest' IH]; intros u Hl (x & Hx & Hp).
  - cbn [rev hd] in Hl. destruct Hx as [<-|[]]. lra.
  - rewrite hd_rev_cons in Hl.
    destruct (Qlt_le_dec 0 (h u)) as [Pu|Nu]; [destruct (Qlt_le_dec 0 (h v)) as [Pv|Nv]|].
    + destruct (IH v Hl) as (u' & v' & H1 & H2); [exists v; split; [now left|exact Pv]|].
      exists u', v'. split; [now right|exact H2].
    + exists u, v. split; [now left|split; assumption].
    + destruct Hx as [<-|Hx]; [lra|].
      destruct (IH v Hl) as (u' & v' & H1 & H2); [exists x; split; assumption|].
      exists u', v'. split; [now right|exact H2].
Qed.

Lemma in_hull_conv n1 n2 p0 ps a :
  Conv (p0 :: ps) -> 0 < shoelace2 (p0 :: ps) -> Hull (p0 :: ps) a ->
  (forall v, In v (p0 :: ps) -> cross n1 n2 v <= 0) -> cross n1 n2 a <= 0.
Proof.
  intros C Pos Ha Hf.
  destruct ps as [|p1 rest]; [exfalso; rewrite (all_eq_shoelace0 p0 []) in Pos; [lra|intros x []]|].
  set (P := p0 :: p1 :: rest) in *.
  assert (KE : cpairs P = (hd p1 (rev rest), p0) :: (p0, p1) :: pairs p1 rest).
  { unfold P, cpairs, lastp. rewrite hd_rev_cons. reflexivity. }
  set (h := fun x => cross p0 x a).
  assert (H1 : 0 <= h p1) by (apply Ha; rewrite KE; right; now left).
  assert (Hz : h (hd p1 (rev rest)) <= 0).
  { unfold h. assert (0 <= cross (hd p1 (rev rest)) p0 a) by (apply Ha; rewrite KE; now left).
    rewrite (cross_rev (hd p1 (rev rest)) p0). lra. }
  assert (Hedge : forall u v, In (u, v) (pairs p1 rest) -> 0 <= cross u v a).
  { intros u v H. apply Ha. rewrite KE. right; now right. }
  assert (Hin : forall u v, In (u, v) (pairs p1 rest) -> In u P /\ In v P).
  { intros u v H. apply cpairs_in. rewrite KE. right; now right. }
  (* a fan triangle with positive total weight decides *)
  assert (Fin : forall u v, In (u, v) (pairs p1 rest) -> 0 <= h u -> h v <= 0 -> (0 < h u \/ h v < 0) ->
                cross n1 n2 a <= 0).
  { intros u v Huv Gu Gv Str. destruct (Hin u v Huv) as [Iu Iv].
    pose proof (Hedge u v Huv) as W0. pose proof (tri_weights p0 u v a) as TW.
    pose proof (bary n1 n2 p0 u v a) as B. unfold h in *.
    assert (Wu : cross v p0 a == - cross p0 v a) by apply cross_rev.
    assert (F0 : cross n1 n2 p0 <= 0) by (apply Hf; now left).
    assert (Fu : cross n1 n2 u <= 0) by now apply Hf. assert (Fv : cross n1 n2 v <= 0) by now apply Hf.
    assert (T : 0 < cross p0 u v) by (destruct Str; lra).
    assert (X0 : cross u v a * cross n1 n2 p0 <= 0) by nra.
    assert (Xu : cross v p0 a * cross n1 n2 u <= 0) by (assert (0 <= cross v p0 a) by lra; nra).
    assert (Xv : cross p0 u a * cross n1 n2 v <= 0) by nra.
    destruct (Qlt_le_dec 0 (cross n1 n2 a)) as [G|G]; [exfalso|exact G].
    assert (0 < cross p0 u v * cross n1 n2 a) by (apply Qmult_lt_0_compat; assumption). lra. }
  destruct (list_neg_dec h rest) as [Neg|NoNeg].
  - destruct (loc_neg h rest p1 H1 Neg) as (u & v & Huv & Gu & Gv).
    apply (Fin u v Huv Gu); [lra|now right].
  - destruct (list_pos_dec h (p1 :: rest)) as [Posx|NoPos].
    + destruct (loc_pos h rest p1 Hz Posx) as (u & v & Huv & Gu & Gv).
      apply (Fin u v Huv); [lra|exact Gv|now left].
    + (* every vertex is on the line p0 - a *)
      assert (Zero : forall x, In x (p1 :: rest) -> h x == 0).
      { intros x Hx. pose proof (NoPos x Hx). destruct Hx as [<-|Hx]; [lra|]. pose proof (NoNeg x Hx). lra. }
      destruct (pt_eq_dec a p0) as [E|N].
      * rewrite (cross_pt_eq n1 n2 a n1 n2 p0 (pt_eq_refl n1) (pt_eq_refl n2) E). apply Hf. now left.
      * exfalso. destruct (nondeg_witness p0 a N) as [c Hc].
        rewrite (collinear_shoelace0 p0 a c P Hc) in Pos; [lra|].
        intros x [<-|Hx]; [apply cross_oo|].
        specialize (Zero x Hx). unfold h in Zero.
        assert (E : cross p0 a x == - cross p0 x a) by (unfold cross; ring). lra.
Qed.


(* ======================================================================================== *)
(* 14. the clipper loses nothing of positive area: symmetry                                  *)
(* ======================================================================================== *)
Lemma In_refine_cur a b l : forall prev x, In x l -> In x (refine_aux a b prev l).
Proof.
  induction l as [|cur t IH]; intros prev x Hx; [contradiction|]. cbn [refine_aux]. apply in_or_app.
  destruct Hx as [<-|Hx]; [left|right; now apply IH].
  destruct (Bool.eqb (inside a b prev) (inside a b cur)); cbn; tauto.
Qed.

Lemma In_refine_cross a b l : forall prev s e,
  In (s, e) (pairs prev l) -> inside a b s <> inside a b e -> In (intersect a b s e) (refine_aux a b prev l).
Proof.
  induction l as [|cur t IH]; intros prev s e H M; [contradiction|]. cbn [pairs] in H. cbn [refine_aux].
  apply in_or_app. destruct H as [H|H].
  - inversion H; subst. left. apply eqb_false_iff in M. rewrite M. now left.
  - right. now apply IH.
Qed.

Lemma In_clip_kept a b P w : In w P -> inside a b w = true -> In w (clip_edge a b P).
Proof.
  intros Hw Hi. destruct P as [|f t]; [contradiction|].
  rewrite clip_edge_cons, clip_is_filter. apply filter_In. split; [now apply In_refine_cur|exact Hi].
Qed.

Lemma In_clip_cross a b P s e :
  In (s, e) (cpairs P) -> inside a b s <> inside a b e -> In (intersect a b s e) (clip_edge a b P).
Proof.
  intros H M. destruct P as [|f t]; [contradiction|].
  rewrite clip_edge_cons, clip_is_filter. apply filter_In.
  split; [now apply In_refine_cross|now apply inside_intersect].
Qed.

(* if the hull of a proper convex polygon has a point strictly inside the clipping line, the
   clipped polygon has two different vertices *)
Lemma clip_edge_nondeg a b f t q :
  Conv (f :: t) -> 0 < shoelace2 (f :: t) -> Hull (f :: t) q -> 0 < cross a b q ->
  exists r0 rs, clip_edge a b (f :: t) = r0 :: rs /\ ~ (forall x, In x rs -> pt_eq x r0).
Proof.
  intros C Pos Hq Gq.
  destruct (list_pos_dec (fun x => cross a b x) (f :: t)) as [(w & Hw & Gw)|NoPos];
    [|exfalso; pose proof (in_hull_conv a b f t q C Pos Hq NoPos); lra].
  assert (Iw : inside a b w = true) by (unfold inside; apply Qleb_true; lra).
  pose proof (In_clip_kept a b (f :: t) w Hw Iw) as Kw.
  destruct (clip_edge a b (f :: t)) as [|r0 rs] eqn:E; [contradiction|].
  exists r0, rs. split; [reflexivity|]. intros H.
  assert (All : forall y, In y (r0 :: rs) -> pt_eq y r0) by (intros y [<-|Hy]; [apply pt_eq_refl|now apply H]).
  assert (G : forall y, In y (r0 :: rs) -> 0 < cross a b y).
  { intros y Hy.
    rewrite (cross_pt_eq a b y a b w (pt_eq_refl a) (pt_eq_refl b)
               (pt_eq_trans _ _ _ (All y Hy) (pt_eq_sym _ _ (All w Kw)))). exact Gw. }
  destruct (sides_trichotomy a b (f :: t) (lastp f t)) as [Hall|[Hout|(s & e & H1 & H2)]].
  - rewrite clip_edge_all_inside in E by (intros p Hp; apply Hall; now right).
    inversion E; subst. rewrite (all_eq_shoelace0 r0 rs H) in Pos. lra.
  - rewrite (Hout w (or_intror Hw)) in Iw. discriminate.
  - pose proof (In_clip_cross a b (f :: t) s e H1 H2) as Hx. rewrite E in Hx.
    specialize (G _ Hx). rewrite (intersect_on_line a b s e H2) in G. lra.
Qed.

Section Swap.
  Variable X : list pt.
  Hypothesis UX : Uni X.
  Hypothesis PX : 0 < shoelace2 X.

  Lemma X_le_clip_edge a b P :
    Conv P -> (forall p, In p X -> Hull P p) -> (forall p, In p X -> 0 <= cross a b p) ->
    shoelace2 X <= shoelace2 P -> shoelace2 X <= shoelace2 (clip_edge a b P).
  Proof.
    intros C HX Hab Le.
    destruct (degenerate_or_witness a b) as [D|[c Hc]].
    - rewrite clip_edge_all_inside; [exact Le|]. intros p _. unfold inside. apply Qleb_true. rewrite D. lra.
    - destruct (list_pos_dec (fun x => cross a b x) X) as [(q & Hq & Gq)|NoPos].
      + destruct P as [|f t]; [cbn in Le; lra|].
        destruct (clip_edge_nondeg a b f t q C) as (r0 & rs & E & Nd); [lra|now apply HX|exact Gq|].
        rewrite E. apply shoelace_mono; [rewrite <- E; now apply Conv_clip_edge|exact Nd|exact UX|].
        intros p Hp. rewrite <- E. apply Hull_clip_edge_complete; [exact C|now apply HX|now apply Hab].
      + exfalso. rewrite (collinear_shoelace0 a b c X Hc) in PX; [lra|].
        intros p Hp. pose proof (Hab p Hp). pose proof (NoPos p Hp). cbv beta in *. lra.
  Qed.

  Lemma X_le_clip_edges first cl : forall P,
    Conv P -> (forall p, In p X -> Hull P p) ->
    (forall ab, In ab (edges_from first cl) -> forall p, In p X -> 0 <= cross (fst ab) (snd ab) p) ->
    shoelace2 X <= shoelace2 P -> shoelace2 X <= shoelace2 (clip_edges first cl P).
  Proof.
    induction cl as [|a t IH]; intros P C HX Hcl Le; cbn [clip_edges]; [exact Le|].
    set (b := match t with [] => first | b :: _ => b end).
    assert (Hab : forall p, In p X -> 0 <= cross a b p).
    { intros p Hp. apply (Hcl (a, b)); [cbn [edges_from]; now left|exact Hp]. }
    apply IH.
    - now apply Conv_clip_edge.
    - intros p Hp. apply Hull_clip_edge_complete; [exact C|now apply HX|now apply Hab].
    - intros ab H. apply Hcl. cbn [edges_from]. now right.
    - now apply X_le_clip_edge.
  Qed.
End Swap.

Lemma inter_clip_le_swap e g : box_valid e -> box_valid g ->
  0 < inter_clip e g -> inter_clip e g <= inter_clip g e.
Proof.
  intros Ve Vg Pos.
  pose proof (inter_clip_le_r e g Ve Vg) as LR. rewrite <- (poly_area_rcorners g (proj2 Vg)) in LR.
  unfold inter_clip, clip_area, poly_area in *.
  set (X := clip (rcorners e) (rcorners g)) in *.
  assert (PX : 0 < shoelace2 X).
  { destruct (Qlt_le_dec 0 (shoelace2 X)) as [H|H]; [exact H|exfalso].
    assert (shoelace2 X / 2 <= 0 / 2) by (apply Qdiv_le_compat_l; lra).
    assert (Z : 0 / 2 == 0) by reflexivity. lra. }
  assert (LX : shoelace2 X <= shoelace2 (rcorners g)).
  { unfold Qdiv in LR. change (/ 2) with (1 # 2) in LR. lra. }
  assert (M : shoelace2 X <= shoelace2 (clip (rcorners g) (rcorners e))).
  { destruct (rcorners4 e) as (f & r1 & r2 & r3 & Ee). unfold clip. rewrite Ee.
    apply (X_le_clip_edges X (Uni_clip _ _ (Uni_rcorners e Ve)) PX).
    - apply Conv_rcorners; exact Vg.
    - intros p Hp u v Huv. destruct (clip_boxes_sound e g Ve Vg p Hp) as [Hg _].
      destruct (rcorners4 g) as (q0 & q1 & q2 & q3 & E). rewrite E in *.
      apply cpairs_edges4 in Huv. exact (Hg (u, v) Huv).
    - intros ab Hab p Hp. destruct (clip_boxes_sound e g Ve Vg p Hp) as [_ He].
      apply He. rewrite Ee, edges_edges_from. exact Hab.
    - exact LX. }
  apply Qdiv_le_compat_l; [lra|exact M].
Qed.

(* the evaluator is symmetric in its two arguments *)
Lemma inter_clip_sym e g : box_valid e -> box_valid g -> inter_clip e g == inter_clip g e.
Proof.
  intros Ve Vg.
  pose proof (inter_clip_nonneg e g Ve). pose proof (inter_clip_nonneg g e Vg).
  destruct (Qlt_le_dec 0 (inter_clip e g)) as [P1|Z1].
  - pose proof (inter_clip_le_swap e g Ve Vg P1).
    assert (P2 : 0 < inter_clip g e) by lra. pose proof (inter_clip_le_swap g e Vg Ve P2). lra.
  - destruct (Qlt_le_dec 0 (inter_clip g e)) as [P2|Z2]; [|lra].
    pose proof (inter_clip_le_swap g e Vg Ve P2). lra.
Qed.

Lemma iou_clip_sym e g : box_valid e -> box_valid g ->
  iou2_clip e g == iou2_clip g e /\ iou3_clip e g == iou3_clip g e.
Proof.
  intros Ve Vg. unfold iou2_clip, iou3_clip. split.
  - apply iou2_sym; [exact inter_clip_sym|assumption..].
  - apply iou3_sym; [exact inter_clip_sym|assumption..].
Qed.
