(* Lemmas about the matcher model (Model/Matching.v): arg-best scan, one matching loop ([stage]),
   and the structural facts behind C01 (one-to-one, complete, in range, FP validation). *)
From Coq Require Import List Bool Arith Lia Permutation Sorted.
From PE Require Import Base.QUtil Model.Matching.
Import ListNotations.
Open Scope Q_scope.

(* ------------------------------------------------------------------------------------------ *)
(* the strict order behind nanargmin / nanargmax                                               *)
(* ------------------------------------------------------------------------------------------ *)
Lemma better_true_iff mx a b : better mx a b = true <-> (if mx then b < a else a < b).
Proof. unfold better. destruct mx; apply Qltb_true. Qed.

Lemma better_false_iff mx a b : better mx a b = false <-> as_good mx b a.
Proof. unfold better, as_good. destruct mx; apply Qltb_false. Qed.

Lemma as_good_refl mx a : as_good mx a a.
Proof. unfold as_good. destruct mx; lra. Qed.

Lemma as_good_trans mx a b c : as_good mx a b -> as_good mx b c -> as_good mx a c.
Proof. unfold as_good. destruct mx; lra. Qed.

Lemma as_good_better_trans mx a b c : better mx a b = true -> as_good mx b c -> as_good mx a c.
Proof. rewrite better_true_iff. unfold as_good. destruct mx; lra. Qed.

Lemma as_good_antisym mx a b : as_good mx a b -> as_good mx b a -> a == b.
Proof. unfold as_good. destruct mx; lra. Qed.

Lemma as_good_total mx a b : as_good mx a b \/ as_good mx b a.
Proof. unfold as_good. destruct mx; destruct (Qlt_le_dec a b); auto; right + left; lra. Qed.

(* ------------------------------------------------------------------------------------------ *)
(* arg-best scan                                                                               *)
(* ------------------------------------------------------------------------------------------ *)
Section Scan.
Variable mx : bool.
Variable key : nat -> nat -> option Q.

(* invariant of the running best w.r.t. the set P of cells seen so far *)
Definition good (es gs : list nat) (P : nat -> nat -> Prop) (b : option cand) : Prop :=
  match b with
  | None => forall e g, P e g -> key e g = None
  | Some (s, e0, g0) =>
      key e0 g0 = Some s /\ In e0 es /\ In g0 gs /\
      forall e g s', P e g -> key e g = Some s' -> as_good mx s s'
  end.

Lemma good_ext es gs (P P' : nat -> nat -> Prop) b :
  (forall e g, P' e g -> P e g) -> good es gs P b -> good es gs P' b.
Proof.
  intros H. destruct b as [[[s e0] g0]|]; cbn.
  - intros (K & I & J & A). repeat split; auto. intros; eapply A; eauto.
  - intros A e g Hp. auto.
Qed.

Lemma upd_good es gs P b e g :
  In e es -> In g gs -> good es gs P b ->
  good es gs (fun e' g' => P e' g' \/ (e' = e /\ g' = g)) (upd mx key b e g).
Proof.
  intros He Hg Hb. unfold upd. destruct (key e g) as [s|] eqn:K.
  - destruct b as [[[sb e0] g0]|]; cbn in *.
    + destruct Hb as (K0 & I0 & J0 & Hall). destruct (better mx s sb) eqn:B; cbn.
      * repeat split; auto. intros e' g' s' [Hp|[-> ->]] K'.
        -- eapply as_good_better_trans; eauto.
        -- rewrite K in K'. inversion K'; subst. apply as_good_refl.
      * repeat split; auto. intros e' g' s' [Hp|[-> ->]] K'.
        -- eauto.
        -- rewrite K in K'. inversion K'; subst. now apply better_false_iff.
    + repeat split; auto. intros e' g' s' [Hp|[-> ->]] K'.
      * rewrite (Hb _ _ Hp) in K'. discriminate.
      * rewrite K in K'. inversion K'; subst. apply as_good_refl.
  - destruct b as [[[sb e0] g0]|]; cbn in *.
    + destruct Hb as (K0 & I0 & J0 & Hall). repeat split; auto.
      intros e' g' s' [Hp|[-> ->]] K'; eauto. rewrite K in K'. discriminate.
    + intros e' g' [Hp|[-> ->]]; auto.
Qed.

Lemma scan_row_good es gs e : In e es -> forall gs' P b,
  incl gs' gs -> good es gs P b ->
  good es gs (fun e' g' => P e' g' \/ (e' = e /\ In g' gs')) (scan_row mx key e gs' b).
Proof.
  intros He. induction gs' as [|g t IH]; intros P b Hi Hb; cbn [scan_row].
  - eapply good_ext; [|exact Hb]. intros e' g' [H|[_ []]]; exact H.
  - eapply good_ext; [|apply IH; [|apply upd_good; [exact He| |exact Hb]]].
    + cbn. intros e' g' [H|[-> [<-|H]]]; auto.
    + intros x Hx. apply Hi. now right.
    + apply Hi. now left.
Qed.

Lemma scan_good es gs : forall es' P b,
  incl es' es -> good es gs P b ->
  good es gs (fun e' g' => P e' g' \/ (In e' es' /\ In g' gs)) (scan mx key es' gs b).
Proof.
  induction es' as [|e t IH]; intros P b Hi Hb; cbn [scan].
  - eapply good_ext; [|exact Hb]. intros e' g' [H|[[] _]]; exact H.
  - eapply good_ext; [|apply IH; [|apply scan_row_good; [| |exact Hb]]].
    + cbn. intros e' g' [H|[[<-|H] H']]; auto.
    + intros x Hx. apply Hi. now right.
    + apply Hi. now left.
    + apply incl_refl.
Qed.

Lemma scan_spec es gs :
  good es gs (fun e g => In e es /\ In g gs) (scan mx key es gs None).
Proof.
  eapply good_ext; [|apply (scan_good es gs es (fun _ _ => False) None (incl_refl _))].
  - intros e g H. now right.
  - cbn. intros e g [].
Qed.

(* np.isnan(table).all()  <->  argbest = None *)
Lemma argbest_none es gs :
  argbest mx key es gs = None -> forall e g, In e es -> In g gs -> key e g = None.
Proof.
  unfold argbest. pose proof (scan_spec es gs) as H.
  destruct (scan mx key es gs None) as [[[s e0] g0]|]; [discriminate|].
  intros _ e g He Hg. apply H. auto.
Qed.

Lemma argbest_some es gs e0 g0 :
  argbest mx key es gs = Some (e0, g0) ->
  In e0 es /\ In g0 gs /\ exists s, key e0 g0 = Some s /\
  forall e g s', In e es -> In g gs -> key e g = Some s' -> as_good mx s s'.
Proof.
  unfold argbest. pose proof (scan_spec es gs) as H.
  destruct (scan mx key es gs None) as [[[s e1] g1]|]; [|discriminate].
  intros E. inversion E; subst. destruct H as (K & I & J & A).
  repeat split; auto. exists s. split; auto. intros; eapply A; eauto.
Qed.

Lemma argbest_none_iff es gs :
  argbest mx key es gs = None <-> (forall e g, In e es -> In g gs -> key e g = None).
Proof.
  split; [apply argbest_none|].
  intros H. destruct (argbest mx key es gs) as [[e0 g0]|] eqn:E; [|reflexivity].
  apply argbest_some in E. destruct E as (I & J & s & K & _). rewrite (H _ _ I J) in K. discriminate.
Qed.

End Scan.

(* ------------------------------------------------------------------------------------------ *)
(* remove_first (= list.pop(position of the index) / np.delete of that row or column)           *)
(* ------------------------------------------------------------------------------------------ *)
Lemma remove_first_in x y l : In x (remove_first y l) -> In x l.
Proof.
  induction l as [|z t IH]; cbn; [tauto|].
  destruct (Nat.eqb y z); cbn; intuition.
Qed.

Lemma remove_first_in_neq x y l : In x l -> x <> y -> In x (remove_first y l).
Proof.
  induction l as [|z t IH]; cbn; [tauto|]. intros [->|H] Hn.
  - destruct (Nat.eqb_spec y x); [congruence|now left].
  - destruct (Nat.eqb y z); [exact H|right; auto].
Qed.

Lemma remove_first_perm y l : In y l -> Permutation l (y :: remove_first y l).
Proof.
  induction l as [|z t IH]; cbn; [tauto|]. intros H.
  destruct (Nat.eqb_spec y z) as [->|Hn]; [reflexivity|].
  destruct H as [->|H]; [congruence|].
  rewrite (IH H) at 1. apply perm_swap.
Qed.

Lemma remove_first_length y l : In y l -> S (length (remove_first y l)) = length l.
Proof.
  intros H. apply remove_first_perm in H. apply Permutation_length in H. cbn in H. lia.
Qed.

Lemma remove_first_notin y l : ~ In y l -> remove_first y l = l.
Proof.
  induction l as [|z t IH]; cbn; [reflexivity|]. intros H.
  destruct (Nat.eqb_spec y z) as [->|Hn]; [tauto|]. f_equal. tauto.
Qed.

(* popping by position = removing by value *)
Lemma remove_at_index_of x l : remove_at (index_of x l) l = remove_first x l.
Proof.
  induction l as [|z t IH]; cbn [index_of remove_first]; [reflexivity|].
  destruct (Nat.eqb x z); cbn [remove_at]; [reflexivity|]. now rewrite IH.
Qed.

Lemma stage_pos_eq fuel mx key : forall es gs, stage_pos fuel mx key es gs = stage fuel mx key es gs.
Proof.
  induction fuel as [|f IH]; intros es gs; cbn [stage stage_pos]; [reflexivity|].
  destruct (argbest mx key es gs) as [[e g]|]; [|reflexivity].
  now rewrite !remove_at_index_of, IH.
Qed.

Lemma remove_first_sorted y l : StronglySorted lt l -> StronglySorted lt (remove_first y l).
Proof.
  induction 1 as [|z t Hs IH Hf]; cbn; [constructor|].
  destruct (Nat.eqb y z); [exact Hs|]. constructor; [exact IH|].
  rewrite Forall_forall in *. intros x Hx. apply Hf. eapply remove_first_in; eauto.
Qed.

(* ------------------------------------------------------------------------------------------ *)
(* one matching loop                                                                           *)
(* ------------------------------------------------------------------------------------------ *)
Section Stage.
Variable mx : bool.
Variable key : nat -> nat -> option Q.

(* every index is either consumed by a pair or still alive: nothing lost, nothing invented *)
Lemma stage_perm fuel : forall es gs ps es' gs',
  stage fuel mx key es gs = (ps, es', gs') ->
  Permutation es (map fst ps ++ es') /\ Permutation gs (map snd ps ++ gs').
Proof.
  induction fuel as [|f IH]; intros es gs ps es' gs'; cbn [stage].
  - intros E. inversion E; subst. cbn. split; reflexivity.
  - destruct (argbest mx key es gs) as [[e g]|] eqn:A.
    + destruct (stage f mx key (remove_first e es) (remove_first g gs)) as [[ps1 es1] gs1] eqn:S.
      intros E. inversion E; subst. apply argbest_some in A. destruct A as (I & J & _).
      apply IH in S. destruct S as [Pe Pg]. cbn. split.
      * rewrite (remove_first_perm e es I) at 1. now constructor.
      * rewrite (remove_first_perm g gs J) at 1. now constructor.
    + intros E. inversion E; subst. cbn. split; reflexivity.
Qed.

(* every pair formed has a non-NaN key, and it was the best of the cells alive at that moment *)
Lemma stage_keys fuel : forall es gs ps es' gs',
  stage fuel mx key es gs = (ps, es', gs') ->
  forall e g, In (e, g) ps -> In e es /\ In g gs /\ exists s, key e g = Some s.
Proof.
  induction fuel as [|f IH]; intros es gs ps es' gs'; cbn [stage].
  - intros E. inversion E; subst. intros e g [].
  - destruct (argbest mx key es gs) as [[e0 g0]|] eqn:A.
    + destruct (stage f mx key (remove_first e0 es) (remove_first g0 gs)) as [[ps1 es1] gs1] eqn:S.
      intros E. inversion E; subst. apply argbest_some in A. destruct A as (I & J & s & K & _).
      intros e g [H|H].
      * inversion H; subst. eauto.
      * destruct (IH _ _ _ _ _ S e g H) as (I' & J' & K').
        repeat split; eauto using remove_first_in.
    + intros E. inversion E; subst. intros e g [].
Qed.

(* the fuel `range(number of rows)` suffices: the loop ends because the table is all-NaN *)
Lemma stage_exhausts fuel : forall es gs ps es' gs',
  (length es <= fuel)%nat ->
  stage fuel mx key es gs = (ps, es', gs') ->
  argbest mx key es' gs' = None.
Proof.
  induction fuel as [|f IH]; intros es gs ps es' gs' L; cbn [stage].
  - intros E. inversion E; subst. destruct es'; [|cbn in L; lia].
    apply argbest_none_iff. intros e g [].
  - destruct (argbest mx key es gs) as [[e0 g0]|] eqn:A.
    + destruct (stage f mx key (remove_first e0 es) (remove_first g0 gs)) as [[ps1 es1] gs1] eqn:S.
      intros E. inversion E; subst. apply argbest_some in A. destruct A as (I & _).
      eapply IH; [|exact S]. pose proof (remove_first_length e0 es I). lia.
    + intros E. inversion E; subst. exact A.
Qed.

Lemma stage_exhausts_cells fuel es gs ps es' gs' :
  (length es <= fuel)%nat ->
  stage fuel mx key es gs = (ps, es', gs') ->
  forall e g, In e es' -> In g gs' -> key e g = None.
Proof. intros L S. eapply argbest_none, stage_exhausts; eauto. Qed.

(* no blocking pair inside one loop *)
Lemma stage_no_blocking fuel : forall es gs ps es' gs',
  (length es <= fuel)%nat ->
  stage fuel mx key es gs = (ps, es', gs') ->
  forall e g s, In e es -> In g gs -> key e g = Some s ->
    In (e, g) ps
    \/ (exists g' s', In (e, g') ps /\ key e g' = Some s' /\ as_good mx s' s)
    \/ (exists e' s', In (e', g) ps /\ key e' g = Some s' /\ as_good mx s' s).
Proof.
  induction fuel as [|f IH]; intros es gs ps es' gs' L; cbn [stage].
  - intros _ e g s He. destruct es; [destruct He|cbn in L; lia].
  - destruct (argbest mx key es gs) as [[e0 g0]|] eqn:A.
    + destruct (stage f mx key (remove_first e0 es) (remove_first g0 gs)) as [[ps1 es1] gs1] eqn:S.
      intros E. inversion E; subst. apply argbest_some in A. destruct A as (I & J & s0 & K0 & Best).
      intros e g s He Hg K.
      destruct (Nat.eq_dec e e0) as [->|Ne].
      * destruct (Nat.eq_dec g g0) as [->|Ng]; [left; now left|].
        right; left. exists g0, s0. repeat split; [now left|exact K0|eapply Best; eauto].
      * destruct (Nat.eq_dec g g0) as [->|Ng].
        -- right; right. exists e0, s0. repeat split; [now left|exact K0|eapply Best; eauto].
        -- assert (L' : (length (remove_first e0 es) <= f)%nat)
             by (pose proof (remove_first_length e0 es I); lia).
           destruct (IH _ _ _ _ _ L' S e g s (remove_first_in_neq _ _ _ He Ne)
                        (remove_first_in_neq _ _ _ Hg Ng) K) as [H|[(g' & s' & H & H1 & H2)|(e' & s' & H & H1 & H2)]].
           ++ left. now right.
           ++ right; left. exists g', s'. repeat split; auto. now right.
           ++ right; right. exists e', s'. repeat split; auto. now right.
    + intros _ e g s He Hg K. rewrite (argbest_none _ _ _ _ A e g He Hg) in K. discriminate.
Qed.

(* the survivors keep their input order *)
Lemma stage_sorted fuel : forall es gs ps es' gs',
  stage fuel mx key es gs = (ps, es', gs') ->
  StronglySorted lt es -> StronglySorted lt es'.
Proof.
  induction fuel as [|f IH]; intros es gs ps es' gs'; cbn [stage].
  - intros E. inversion E; subst. auto.
  - destruct (argbest mx key es gs) as [[e0 g0]|] eqn:A.
    + destruct (stage f mx key (remove_first e0 es) (remove_first g0 gs)) as [[ps1 es1] gs1] eqn:S.
      intros E. inversion E; subst. intros H. eapply IH; [exact S|]. now apply remove_first_sorted.
    + intros E. inversion E; subst. auto.
Qed.

End Stage.

(* ------------------------------------------------------------------------------------------ *)
(* the two stages together                                                                     *)
(* ------------------------------------------------------------------------------------------ *)
Lemma masked_some cell ok e g s : masked cell ok e g = Some s <-> (ok e g = true /\ cell e g = Some s).
Proof. unfold masked. destruct (ok e g); split; intros H; try tauto; try discriminate. now destruct H. Qed.

Record stages_ok (mx : bool) (cell : nat -> nat -> option Q) (ok : nat -> nat -> bool) (n m : nat) (s : Stages) : Prop := {
  so_run1 : stage n mx (masked cell ok) (seq 0 n) (seq 0 m) = (st_pairs1 s, st_mid_est s, st_mid_gt s);
  so_run2 : stage (length (st_mid_est s)) mx cell (st_mid_est s) (st_mid_gt s) = (st_pairs2 s, st_rest_est s, st_rest_gt s)
}.

Lemma match_stages_ok mx cell ok n m : stages_ok mx cell ok n m (match_stages mx cell ok n m).
Proof.
  unfold match_stages.
  destruct (stage n mx (masked cell ok) (seq 0 n) (seq 0 m)) as [[p1 es1] gs1] eqn:S1.
  destruct (stage (length es1) mx cell es1 gs1) as [[p2 es2] gs2] eqn:S2.
  constructor; cbn; assumption.
Qed.

Lemma stages_perm mx cell ok n m s : stages_ok mx cell ok n m s ->
  Permutation (seq 0 n) (map fst (st_pairs1 s ++ st_pairs2 s) ++ st_rest_est s) /\
  Permutation (seq 0 m) (map snd (st_pairs1 s ++ st_pairs2 s) ++ st_rest_gt s).
Proof.
  intros [R1 R2]. apply stage_perm in R1. apply stage_perm in R2.
  destruct R1 as [E1 G1], R2 as [E2 G2]. rewrite !map_app, <- !app_assoc. split.
  - rewrite E1. apply Permutation_app_head. exact E2.
  - rewrite G1. apply Permutation_app_head. exact G2.
Qed.

Lemma stages_pair_cell mx cell ok n m s : stages_ok mx cell ok n m s ->
  forall e g, In (e, g) (st_pairs1 s ++ st_pairs2 s) -> exists sc, cell e g = Some sc.
Proof.
  intros [R1 R2] e g H. apply in_app_or in H. destruct H as [H|H].
  - destruct (stage_keys _ _ _ _ _ _ _ _ R1 e g H) as (_ & _ & sc & K).
    apply masked_some in K. exists sc. tauto.
  - destruct (stage_keys _ _ _ _ _ _ _ _ R2 e g H) as (_ & _ & sc & K). eauto.
Qed.

Lemma stages_pair1_ok mx cell ok n m s : stages_ok mx cell ok n m s ->
  forall e g, In (e, g) (st_pairs1 s) -> ok e g = true /\ exists sc, cell e g = Some sc.
Proof.
  intros [R1 R2] e g H.
  destruct (stage_keys _ _ _ _ _ _ _ _ R1 e g H) as (_ & _ & sc & K).
  apply masked_some in K. split; [tauto|exists sc; tauto].
Qed.

(* ------------------------------------------------------------------------------------------ *)
(* result list of get_object_results                                                           *)
(* ------------------------------------------------------------------------------------------ *)
Lemma map_fst_paired ps : map fst (map paired ps) = map fst ps.
Proof. rewrite map_map. apply map_ext. reflexivity. Qed.
Lemma map_fst_unpaired es : map fst (map unpaired es) = es.
Proof. rewrite map_map. cbn. apply map_id. Qed.
Lemma gts_of_app a b : gts_of (a ++ b) = gts_of a ++ gts_of b.
Proof. unfold gts_of. apply flat_map_app. Qed.
Lemma gts_of_paired ps : gts_of (map paired ps) = map snd ps.
Proof. induction ps as [|[e g] t IH]; cbn; [reflexivity|]. f_equal. exact IH. Qed.
Lemma gts_of_unpaired es : gts_of (map unpaired es) = [].
Proof. induction es as [|e t IH]; cbn; auto. Qed.

Lemma NoDup_app_l {A} (l1 l2 : list A) : NoDup (l1 ++ l2) -> NoDup l1.
Proof.
  induction l1 as [|x t IH]; cbn; intros H; [constructor|].
  inversion H; subst. constructor; [|auto]. intros Hin. apply H2. apply in_or_app. now left.
Qed.

(* shape of the result in the general branch *)
Lemma match_core_general mx fpv cell ok n m :
  n <> O -> m <> O ->
  match_core mx fpv cell ok n m =
    let s := match_stages mx cell ok n m in
    map paired (st_pairs1 s ++ st_pairs2 s) ++ (if fpv then [] else map unpaired (st_rest_est s)).
Proof.
  intros Hn Hm. unfold match_core.
  destruct (Nat.eqb_spec n 0); [contradiction|]. destruct (Nat.eqb_spec m 0); [contradiction|]. reflexivity.
Qed.

Lemma match_core_est_perm mx cell ok n m :
  Permutation (map fst (match_core mx false cell ok n m)) (seq 0 n).
Proof.
  unfold match_core. destruct (Nat.eqb_spec n 0) as [->|Hn]; [reflexivity|].
  destruct (Nat.eqb_spec m 0) as [->|Hm].
  - rewrite map_fst_unpaired. reflexivity.
  - pose proof (stages_perm _ _ _ _ _ _ (match_stages_ok mx cell ok n m)) as [E _].
    rewrite map_app, map_fst_paired, map_fst_unpaired. symmetry. exact E.
Qed.

Lemma match_core_est_sub mx fpv cell ok n m :
  exists rest, Permutation (map fst (match_core mx fpv cell ok n m) ++ rest) (seq 0 n).
Proof.
  destruct fpv; [|exists []; rewrite app_nil_r; apply match_core_est_perm].
  unfold match_core. destruct (Nat.eqb_spec n 0) as [->|Hn]; [exists []; reflexivity|].
  destruct (Nat.eqb_spec m 0) as [->|Hm]; [exists (seq 0 n); reflexivity|].
  pose proof (stages_perm _ _ _ _ _ _ (match_stages_ok mx cell ok n m)) as [E _].
  exists (st_rest_est (match_stages mx cell ok n m)).
  rewrite app_nil_r, map_fst_paired. symmetry. exact E.
Qed.

Lemma match_core_est_nodup mx fpv cell ok n m : NoDup (map fst (match_core mx fpv cell ok n m)).
Proof.
  destruct (match_core_est_sub mx fpv cell ok n m) as [rest P].
  eapply NoDup_app_l. eapply Permutation_NoDup; [symmetry; exact P|apply seq_NoDup].
Qed.

Lemma match_core_gts mx fpv cell ok n m :
  exists rest, Permutation (gts_of (match_core mx fpv cell ok n m) ++ rest) (seq 0 m).
Proof.
  unfold match_core. destruct (Nat.eqb_spec n 0) as [->|Hn]; [exists (seq 0 m); reflexivity|].
  destruct (Nat.eqb_spec m 0) as [->|Hm].
  - exists []. destruct fpv; cbn; [reflexivity|]. rewrite gts_of_unpaired. reflexivity.
  - pose proof (stages_perm _ _ _ _ _ _ (match_stages_ok mx cell ok n m)) as [_ G].
    exists (st_rest_gt (match_stages mx cell ok n m)).
    rewrite gts_of_app, gts_of_paired. symmetry.
    destruct fpv; cbn; [|rewrite gts_of_unpaired]; rewrite app_nil_r; exact G.
Qed.

Lemma match_core_gt_nodup mx fpv cell ok n m : NoDup (gts_of (match_core mx fpv cell ok n m)).
Proof.
  destruct (match_core_gts mx fpv cell ok n m) as [rest P].
  eapply NoDup_app_l. eapply Permutation_NoDup; [symmetry; exact P|apply seq_NoDup].
Qed.

Lemma in_gts_of out g : In g (gts_of out) <-> exists e, In (e, Some g) out.
Proof.
  unfold gts_of. rewrite in_flat_map. split.
  - intros ([e [g'|]] & H & H'); cbn in H'; [|tauto]. destruct H' as [->|[]]. eauto.
  - intros (e & H). exists (e, Some g). cbn. auto.
Qed.

Lemma match_core_in_range mx fpv cell ok n m e og :
  In (e, og) (match_core mx fpv cell ok n m) ->
  (e < n)%nat /\ forall g, og = Some g -> (g < m)%nat.
Proof.
  intros H. split.
  - destruct (match_core_est_sub mx fpv cell ok n m) as [rest P].
    assert (I : In e (seq 0 n)).
    { eapply Permutation_in; [exact P|]. apply in_or_app. left. change e with (fst (e, og)). now apply in_map. }
    apply in_seq in I. lia.
  - intros g ->. destruct (match_core_gts mx fpv cell ok n m) as [rest P].
    assert (I : In g (seq 0 m)).
    { eapply Permutation_in; [exact P|]. apply in_or_app. left. apply in_gts_of. eauto. }
    apply in_seq in I. lia.
Qed.

Lemma in_map_paired e g ps : In (e, Some g) (map paired ps) <-> In (e, g) ps.
Proof.
  rewrite in_map_iff. split.
  - intros ([e' g'] & E & H). unfold paired in E. cbn in E. inversion E; subst. exact H.
  - intros H. exists (e, g). auto.
Qed.

Lemma not_in_map_unpaired e g es : ~ In (e, Some g) (map unpaired es).
Proof. rewrite in_map_iff. intros (x & E & _). discriminate. Qed.

Lemma not_in_map_paired e ps : ~ In (e, None) (map paired ps).
Proof. rewrite in_map_iff. intros (x & E & _). discriminate. Qed.

(* a pair of the result is a pair of stage 1 or stage 2 *)
Lemma match_core_pair_stages mx fpv cell ok n m e g :
  In (e, Some g) (match_core mx fpv cell ok n m) ->
  n <> O /\ m <> O /\
  In (e, g) (st_pairs1 (match_stages mx cell ok n m) ++ st_pairs2 (match_stages mx cell ok n m)).
Proof.
  unfold match_core. destruct (Nat.eqb_spec n 0) as [->|Hn]; [intros []|].
  destruct (Nat.eqb_spec m 0) as [->|Hm].
  - destruct fpv; [intros []|]. intros H. exfalso. eapply not_in_map_unpaired; eauto.
  - intros H. apply in_app_or in H. destruct H as [H|H].
    + apply in_map_paired in H. auto.
    + exfalso. destruct fpv; [destruct H|]. eapply not_in_map_unpaired; eauto.
Qed.

Lemma match_core_pair_cell mx fpv cell ok n m e g :
  In (e, Some g) (match_core mx fpv cell ok n m) -> exists s, cell e g = Some s.
Proof.
  intros H. apply match_core_pair_stages in H. destruct H as (_ & _ & H).
  eapply stages_pair_cell; [apply match_stages_ok|exact H].
Qed.

Lemma match_core_fpv_no_unpaired mx cell ok n m e :
  ~ In (e, None) (match_core mx true cell ok n m).
Proof.
  unfold match_core. destruct (Nat.eqb n 0); [intros []|]. destruct (Nat.eqb m 0); [intros []|].
  rewrite app_nil_r. apply not_in_map_paired.
Qed.

Lemma match_core_fpv_no_gt mx cell ok n : match_core mx true cell ok n 0 = [].
Proof. unfold match_core. destruct (Nat.eqb n 0); reflexivity. Qed.

Lemma match_core_no_est mx fpv cell ok m : match_core mx fpv cell ok 0 m = [].
Proof. reflexivity. Qed.

Lemma match_core_no_gt mx cell ok n : match_core mx false cell ok n 0 = map unpaired (seq 0 n).
Proof. unfold match_core. destruct (Nat.eqb_spec n 0) as [->|]; reflexivity. Qed.

(* pairs first (in pick order), then the leftover estimates in input order *)
Lemma match_core_order mx fpv cell ok n m :
  exists ps rest,
    match_core mx fpv cell ok n m = map paired ps ++ map unpaired rest /\
    StronglySorted lt rest.
Proof.
  unfold match_core. destruct (Nat.eqb_spec n 0) as [->|Hn]; [exists [], []; split; [reflexivity|constructor]|].
  destruct (Nat.eqb_spec m 0) as [->|Hm].
  - destruct fpv; [exists [], []; split; [reflexivity|constructor]|].
    exists [], (seq 0 n). split; [reflexivity|].
    clear. generalize 0%nat. induction n as [|k IH]; intros a; cbn; constructor; [apply IH|].
    apply Forall_forall. intros x Hx. apply in_seq in Hx. lia.
  - set (s := match_stages mx cell ok n m).
    destruct fpv.
    + exists (st_pairs1 s ++ st_pairs2 s), []. split; [reflexivity|constructor].
    + exists (st_pairs1 s ++ st_pairs2 s), (st_rest_est s). split; [reflexivity|].
      destruct (match_stages_ok mx cell ok n m) as [R1 R2]. fold s in R1, R2.
      eapply stage_sorted; [exact R2|]. eapply stage_sorted; [exact R1|].
      clear. generalize 0%nat. induction n as [|k IH]; intros a; cbn; constructor; [apply IH|].
      apply Forall_forall. intros x Hx. apply in_seq in Hx. lia.
Qed.

(* ------------------------------------------------------------------------------------------ *)
(* facts level: a non-NaN cell means same frame and, if configured, strictly inside the radius  *)
(* ------------------------------------------------------------------------------------------ *)
Lemma score_cell_some mx sf thr v s :
  score_cell mx sf thr v = Some s ->
  sf = true /\ v = Some s /\ forall t, thr = Some t -> better mx s t = true.
Proof.
  unfold score_cell. destruct sf; [|discriminate]. destruct v as [s0|]; [|discriminate].
  destruct thr as [t|].
  - destruct (better mx s0 t) eqn:B; [|discriminate]. intros E; inversion E; subst.
    repeat split; auto. intros t' E'; inversion E'; subst; exact B.
  - intros E; inversion E; subst. repeat split; auto. discriminate.
Qed.

Lemma cell_of_some mx F e g s :
  cell_of mx F e g = Some s ->
  exists fe fg thr,
    nth_error (f_est_frame F) e = Some fe /\ nth_error (f_gt_frame F) g = Some fg /\ fe = fg /\
    nth_error (f_gt_thr F) g = Some thr /\ lookup2 (f_value F) e g = Some (Some s) /\
    forall t, thr = Some t -> better mx s t = true.
Proof.
  unfold cell_of.
  destruct (nth_error (f_est_frame F) e) as [fe|]; [|discriminate].
  destruct (nth_error (f_gt_frame F) g) as [fg|]; [|discriminate].
  destruct (nth_error (f_gt_thr F) g) as [thr|]; [|discriminate].
  destruct (lookup2 (f_value F) e g) as [v|]; [|discriminate].
  intros H. apply score_cell_some in H. destruct H as (Hf & -> & Hb).
  apply Nat.eqb_eq in Hf. exists fe, fg, thr. repeat split; auto.
Qed.

Lemma gts_nodup_inj out : NoDup (gts_of out) ->
  forall e1 e2 g, In (e1, Some g) out -> In (e2, Some g) out -> e1 = e2.
Proof.
  induction out as [|[e og] t IH]; intros N e1 e2 g H1 H2; [destruct H1|].
  change (gts_of ((e, og) :: t)) with ((match og with Some g => [g] | None => [] end) ++ gts_of t) in N.
  destruct H1 as [H1|H1], H2 as [H2|H2].
  - congruence.
  - inversion H1; subst. cbn in N. inversion N; subst. exfalso. apply H3. apply in_gts_of. eauto.
  - inversion H2; subst. cbn in N. inversion N; subst. exfalso. apply H3. apply in_gts_of. eauto.
  - apply (IH ltac:(destruct og; [now inversion N|exact N]) e1 e2 g H1 H2).
Qed.

Lemma match_core_gt_inj mx fpv cell ok n m e1 e2 g :
  In (e1, Some g) (match_core mx fpv cell ok n m) -> In (e2, Some g) (match_core mx fpv cell ok n m) -> e1 = e2.
Proof. apply gts_nodup_inj, match_core_gt_nodup. Qed.

Lemma fst_nodup_inj (out : list (nat * option nat)) : NoDup (map fst out) ->
  forall e g1 g2, In (e, g1) out -> In (e, g2) out -> g1 = g2.
Proof.
  induction out as [|[e0 og] t IH]; intros N e g1 g2 H1 H2; [destruct H1|].
  cbn in N. inversion N; subst.
  destruct H1 as [H1|H1], H2 as [H2|H2].
  - congruence.
  - inversion H1; subst. exfalso. apply H3. change e with (fst (e, g2)). now apply in_map.
  - inversion H2; subst. exfalso. apply H3. change e with (fst (e, g1)). now apply in_map.
  - eauto.
Qed.

Lemma match_core_est_inj mx fpv cell ok n m e g1 g2 :
  In (e, g1) (match_core mx fpv cell ok n m) -> In (e, g2) (match_core mx fpv cell ok n m) -> g1 = g2.
Proof. apply fst_nodup_inj, match_core_est_nodup. Qed.

(* the loops of get_object_results end because the (masked) table is all-NaN, not because the
   `range(...)` ran out with candidates left *)
Lemma stages_fuel_suffices mx cell ok n m s : stages_ok mx cell ok n m s ->
  argbest mx (masked cell ok) (st_mid_est s) (st_mid_gt s) = None /\
  argbest mx cell (st_rest_est s) (st_rest_gt s) = None.
Proof.
  intros [R1 R2]. split.
  - eapply stage_exhausts; [|exact R1]. rewrite seq_length. lia.
  - eapply stage_exhausts; [|exact R2]. lia.
Qed.

Lemma facts_pair_sound md p fpv F e g :
  In (e, Some g) (get_object_results md p fpv F) ->
  exists fe fg thr s,
    nth_error (f_est_frame F) e = Some fe /\ nth_error (f_gt_frame F) g = Some fg /\ fe = fg /\
    nth_error (f_gt_thr F) g = Some thr /\ lookup2 (f_value F) e g = Some (Some s) /\
    forall t, thr = Some t -> if maximize_of md then t < s else s < t.
Proof.
  unfold get_object_results. intros H. apply match_core_pair_cell in H. destruct H as [s H].
  apply cell_of_some in H. destruct H as (fe & fg & thr & H1 & H2 & H3 & H4 & H5 & H6).
  exists fe, fg, thr, s. repeat split; auto. intros t Ht. apply better_true_iff. auto.
Qed.
