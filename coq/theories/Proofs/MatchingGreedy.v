(* C02 lemmas: no blocking pair in either stage, stage 1 exhausts the compatible candidates,
   the model is a run of the (non-deterministic) documented two-stage greedy, and that greedy has a
   unique result when candidate scores are pairwise distinct. *)
From Coq Require Import List Bool Arith Lia Permutation.
From PE Require Import Base.QUtil Model.Matching Proofs.MatchingProofs.
Import ListNotations.
Open Scope Q_scope.

(* ------------------------------------------------------------------------------------------ *)
(* membership bookkeeping for the two stages                                                   *)
(* ------------------------------------------------------------------------------------------ *)
Lemma in_map_fst_pair (ps : list (nat * nat)) e : In e (map fst ps) -> exists g, In (e, g) ps.
Proof. rewrite in_map_iff. intros ([e' g] & E & H). cbn in E. subst. eauto. Qed.
Lemma in_map_snd_pair (ps : list (nat * nat)) g : In g (map snd ps) -> exists e, In (e, g) ps.
Proof. rewrite in_map_iff. intros ([e g'] & E & H). cbn in E. subst. eauto. Qed.

Lemma stage1_alive mx cell ok n m s : stages_ok mx cell ok n m s ->
  (forall e, (e < n)%nat -> (exists g, In (e, g) (st_pairs1 s)) \/ In e (st_mid_est s)) /\
  (forall g, (g < m)%nat -> (exists e, In (e, g) (st_pairs1 s)) \/ In g (st_mid_gt s)).
Proof.
  intros [R1 _]. apply stage_perm in R1. destruct R1 as [E G]. split.
  - intros e He. assert (I : In e (seq 0 n)) by (apply in_seq; lia).
    apply (Permutation_in _ E) in I. apply in_app_or in I. destruct I as [I|I]; [left|now right].
    now apply in_map_fst_pair.
  - intros g Hg. assert (I : In g (seq 0 m)) by (apply in_seq; lia).
    apply (Permutation_in _ G) in I. apply in_app_or in I. destruct I as [I|I]; [left|now right].
    now apply in_map_snd_pair.
Qed.

Lemma stage1_mid_unmatched mx cell ok n m s : stages_ok mx cell ok n m s ->
  (forall e, In e (st_mid_est s) <-> ((e < n)%nat /\ ~ In e (map fst (st_pairs1 s)))) /\
  (forall g, In g (st_mid_gt s) <-> ((g < m)%nat /\ ~ In g (map snd (st_pairs1 s)))).
Proof.
  intros [R1 _]. apply stage_perm in R1. destruct R1 as [E G].
  assert (NE : NoDup (map fst (st_pairs1 s) ++ st_mid_est s))
    by (eapply Permutation_NoDup; [exact E|apply seq_NoDup]).
  assert (NG : NoDup (map snd (st_pairs1 s) ++ st_mid_gt s))
    by (eapply Permutation_NoDup; [exact G|apply seq_NoDup]).
  split.
  - intros e. split.
    + intros I. split.
      * assert (I' : In e (seq 0 n)) by (eapply Permutation_in; [symmetry; exact E|apply in_or_app; now right]).
        apply in_seq in I'. lia.
      * intros I'. revert NE I I'. generalize (map fst (st_pairs1 s)). intros l.
        induction l as [|x t IH]; cbn; intros N I I'; [exact I'|]. inversion N; subst.
        destruct I' as [->|I']; [apply H1; apply in_or_app; now right|auto].
    + intros [L NI]. assert (I : In e (seq 0 n)) by (apply in_seq; lia).
      apply (Permutation_in _ E) in I. apply in_app_or in I. tauto.
  - intros g. split.
    + intros I. split.
      * assert (I' : In g (seq 0 m)) by (eapply Permutation_in; [symmetry; exact G|apply in_or_app; now right]).
        apply in_seq in I'. lia.
      * intros I'. revert NG I I'. generalize (map snd (st_pairs1 s)). intros l.
        induction l as [|x t IH]; cbn; intros N I I'; [exact I'|]. inversion N; subst.
        destruct I' as [->|I']; [apply H1; apply in_or_app; now right|auto].
    + intros [L NI]. assert (I : In g (seq 0 m)) by (apply in_seq; lia).
      apply (Permutation_in _ G) in I. apply in_app_or in I. tauto.
Qed.

(* ------------------------------------------------------------------------------------------ *)
(* stage 1                                                                                     *)
(* ------------------------------------------------------------------------------------------ *)
Lemma stages_stage1_no_blocking mx cell ok n m s : stages_ok mx cell ok n m s ->
  forall e g sc, (e < n)%nat -> (g < m)%nat -> cell e g = Some sc -> ok e g = true ->
    In (e, g) (st_pairs1 s)
    \/ (exists g' sc', In (e, g') (st_pairs1 s) /\ ok e g' = true /\ cell e g' = Some sc' /\ as_good mx sc' sc)
    \/ (exists e' sc', In (e', g) (st_pairs1 s) /\ ok e' g = true /\ cell e' g = Some sc' /\ as_good mx sc' sc).
Proof.
  intros [R1 _] e g sc He Hg K O.
  assert (Ie : In e (seq 0 n)) by (apply in_seq; lia).
  assert (Ig : In g (seq 0 m)) by (apply in_seq; lia).
  assert (Km : masked cell ok e g = Some sc) by (apply masked_some; auto).
  assert (L : (length (seq 0 n) <= n)%nat) by (rewrite seq_length; lia).
  destruct (stage_no_blocking _ _ _ _ _ _ _ _ L R1 e g sc Ie Ig Km)
    as [H|[(g' & s' & H & H1 & H2)|(e' & s' & H & H1 & H2)]].
  - now left.
  - right; left. apply masked_some in H1. exists g', s'. tauto.
  - right; right. apply masked_some in H1. exists e', s'. tauto.
Qed.

(* after stage 1 no compatible matchable pair is left among the unmatched objects *)
Lemma stages_stage1_exhausts mx cell ok n m s : stages_ok mx cell ok n m s ->
  forall e g, (e < n)%nat -> (g < m)%nat ->
    ~ In e (map fst (st_pairs1 s)) -> ~ In g (map snd (st_pairs1 s)) ->
    ok e g = true -> cell e g = None.
Proof.
  intros S e g He Hg Ne Ng O.
  destruct (stage1_mid_unmatched _ _ _ _ _ _ S) as [ME MG].
  assert (Ie : In e (st_mid_est s)) by (apply ME; auto).
  assert (Ig : In g (st_mid_gt s)) by (apply MG; auto).
  destruct S as [R1 _].
  assert (L : (length (seq 0 n) <= n)%nat) by (rewrite seq_length; lia).
  pose proof (stage_exhausts_cells _ _ _ _ _ _ _ _ L R1 e g Ie Ig) as K.
  unfold masked in K. now rewrite O in K.
Qed.

(* hence every stage-2 pair is label-incompatible *)
Lemma stages_pair2_incompatible mx cell ok n m s : stages_ok mx cell ok n m s ->
  forall e g, In (e, g) (st_pairs2 s) -> ok e g = false /\ exists sc, cell e g = Some sc.
Proof.
  intros S e g H. pose proof S as [R1 R2].
  destruct (stage_keys _ _ _ _ _ _ _ _ R2 e g H) as (Ie & Ig & sc & K).
  split; [|eauto].
  assert (L : (length (seq 0 n) <= n)%nat) by (rewrite seq_length; lia).
  pose proof (stage_exhausts_cells _ _ _ _ _ _ _ _ L R1 e g Ie Ig) as Km.
  unfold masked in Km. destruct (ok e g); [congruence|reflexivity].
Qed.

(* ------------------------------------------------------------------------------------------ *)
(* stage 2                                                                                     *)
(* ------------------------------------------------------------------------------------------ *)
Lemma stages_stage2_no_blocking mx cell ok n m s : stages_ok mx cell ok n m s ->
  forall e g sc, (e < n)%nat -> (g < m)%nat -> cell e g = Some sc ->
    In (e, g) (st_pairs2 s)
    \/ (exists g', In (e, g') (st_pairs1 s))
    \/ (exists e', In (e', g) (st_pairs1 s))
    \/ (exists g' sc', In (e, g') (st_pairs2 s) /\ cell e g' = Some sc' /\ as_good mx sc' sc)
    \/ (exists e' sc', In (e', g) (st_pairs2 s) /\ cell e' g = Some sc' /\ as_good mx sc' sc).
Proof.
  intros S e g sc He Hg K.
  destruct (stage1_alive _ _ _ _ _ _ S) as [AE AG].
  destruct (AE e He) as [H|Ie]; [right; left; exact H|].
  destruct (AG g Hg) as [H|Ig]; [right; right; left; exact H|].
  destruct S as [_ R2].
  destruct (stage_no_blocking _ _ _ _ _ _ _ _ (le_n _) R2 e g sc Ie Ig K)
    as [H|[(g' & s' & H & H1 & H2)|(e' & s' & H & H1 & H2)]].
  - now left.
  - right; right; right; left. exists g', s'. tauto.
  - right; right; right; right. exists e', s'. tauto.
Qed.

(* ------------------------------------------------------------------------------------------ *)
(* the same, stated on the result list of get_object_results                                   *)
(* ------------------------------------------------------------------------------------------ *)
Lemma match_core_has_pair mx fpv cell ok n m e g :
  n <> 0%nat -> m <> 0%nat ->
  In (e, g) (st_pairs1 (match_stages mx cell ok n m) ++ st_pairs2 (match_stages mx cell ok n m)) ->
  In (e, Some g) (match_core mx fpv cell ok n m).
Proof.
  intros Hn Hm H. rewrite match_core_general by assumption. cbv zeta.
  apply in_or_app. left. now apply in_map_paired.
Qed.

Lemma result_compatible_no_blocking mx fpv cell ok n m e g sc :
  (e < n)%nat -> (g < m)%nat -> cell e g = Some sc -> ok e g = true ->
  let out := match_core mx fpv cell ok n m in
  In (e, Some g) out
  \/ (exists g' sc', In (e, Some g') out /\ ok e g' = true /\ cell e g' = Some sc' /\ as_good mx sc' sc)
  \/ (exists e' sc', In (e', Some g) out /\ ok e' g = true /\ cell e' g = Some sc' /\ as_good mx sc' sc).
Proof.
  intros He Hg K O out.
  assert (Hn : n <> 0%nat) by lia. assert (Hm : m <> 0%nat) by lia.
  pose proof (match_stages_ok mx cell ok n m) as S.
  destruct (stages_stage1_no_blocking _ _ _ _ _ _ S e g sc He Hg K O)
    as [H|[(g' & s' & H & H1 & H2 & H3)|(e' & s' & H & H1 & H2 & H3)]].
  - left. apply match_core_has_pair; auto. apply in_or_app. now left.
  - right; left. exists g', s'. repeat split; auto. apply match_core_has_pair; auto. apply in_or_app. now left.
  - right; right. exists e', s'. repeat split; auto. apply match_core_has_pair; auto. apply in_or_app. now left.
Qed.

Lemma result_any_no_blocking mx fpv cell ok n m e g sc :
  (e < n)%nat -> (g < m)%nat -> cell e g = Some sc ->
  let out := match_core mx fpv cell ok n m in
  In (e, Some g) out
  \/ (exists g' sc', In (e, Some g') out /\ cell e g' = Some sc' /\ (ok e g' = true \/ as_good mx sc' sc))
  \/ (exists e' sc', In (e', Some g) out /\ cell e' g = Some sc' /\ (ok e' g = true \/ as_good mx sc' sc)).
Proof.
  intros He Hg K out.
  assert (Hn : n <> 0%nat) by lia. assert (Hm : m <> 0%nat) by lia.
  pose proof (match_stages_ok mx cell ok n m) as S.
  destruct (stages_stage2_no_blocking _ _ _ _ _ _ S e g sc He Hg K)
    as [H|[(g' & H)|[(e' & H)|[(g' & s' & H & H1 & H2)|(e' & s' & H & H1 & H2)]]]].
  - left. apply match_core_has_pair; auto. apply in_or_app. now right.
  - right; left. destruct (stages_pair1_ok _ _ _ _ _ _ S _ _ H) as (O' & s' & K').
    exists g', s'. repeat split; auto. apply match_core_has_pair; auto. apply in_or_app. now left.
  - right; right. destruct (stages_pair1_ok _ _ _ _ _ _ S _ _ H) as (O' & s' & K').
    exists e', s'. repeat split; auto. apply match_core_has_pair; auto. apply in_or_app. now left.
  - right; left. exists g', s'. repeat split; auto. apply match_core_has_pair; auto. apply in_or_app. now right.
  - right; right. exists e', s'. repeat split; auto. apply match_core_has_pair; auto. apply in_or_app. now right.
Qed.

(* a compatible pair is never left unmatched on both sides while one of its members is matched
   incompatibly: if (e, g) is compatible and matchable and e is matched to an incompatible g',
   then g is matched compatibly to somebody at least as good *)
Lemma result_compatible_first mx fpv cell ok n m e g g' sc :
  (e < n)%nat -> (g < m)%nat -> cell e g = Some sc -> ok e g = true ->
  In (e, Some g') (match_core mx fpv cell ok n m) -> ok e g' = false ->
  exists e' sc', In (e', Some g) (match_core mx fpv cell ok n m) /\ ok e' g = true /\
                 cell e' g = Some sc' /\ as_good mx sc' sc.
Proof.
  intros He Hg K O H O'.
  destruct (result_compatible_no_blocking mx fpv cell ok n m e g sc He Hg K O)
    as [H1|[(g1 & s1 & H1 & H2 & _)|H1]].
  - pose proof (match_core_est_inj _ _ _ _ _ _ _ _ _ H H1) as E. inversion E; subst. congruence.
  - pose proof (match_core_est_inj _ _ _ _ _ _ _ _ _ H H1) as E. inversion E; subst. congruence.
  - exact H1.
Qed.

(* ------------------------------------------------------------------------------------------ *)
(* the documented greedy as a relation: each step takes SOME best candidate among the alive     *)
(* rows x columns (no commitment to a tie-breaking rule); it stops when no candidate is left.   *)
(* ------------------------------------------------------------------------------------------ *)
Inductive greedy_run (mx : bool) (key : nat -> nat -> option Q)
  : list nat -> list nat -> list (nat * nat) -> list nat -> list nat -> Prop :=
| gr_stop es gs :
    (forall e g, In e es -> In g gs -> key e g = None) ->
    greedy_run mx key es gs [] es gs
| gr_step es gs e g s ps es' gs' :
    In e es -> In g gs -> key e g = Some s ->
    (forall e1 g1 s1, In e1 es -> In g1 gs -> key e1 g1 = Some s1 -> as_good mx s s1) ->
    greedy_run mx key (remove_first e es) (remove_first g gs) ps es' gs' ->
    greedy_run mx key es gs ((e, g) :: ps) es' gs'.

Lemma stage_is_greedy_run mx key fuel : forall es gs ps es' gs',
  (length es <= fuel)%nat ->
  stage fuel mx key es gs = (ps, es', gs') ->
  greedy_run mx key es gs ps es' gs'.
Proof.
  induction fuel as [|f IH]; intros es gs ps es' gs' L; cbn [stage].
  - intros E. inversion E; subst. constructor. intros e g He. destruct es'; [destruct He|cbn in L; lia].
  - destruct (argbest mx key es gs) as [[e0 g0]|] eqn:A.
    + destruct (stage f mx key (remove_first e0 es) (remove_first g0 gs)) as [[ps1 es1] gs1] eqn:S.
      intros E. inversion E; subst. apply argbest_some in A. destruct A as (I & J & s0 & K0 & Best).
      econstructor; eauto. apply IH; [|exact S]. pose proof (remove_first_length e0 es I). lia.
    + intros E. inversion E; subst. constructor. exact (argbest_none mx key _ _ A).
Qed.

(* candidate scores pairwise distinct on es x gs *)
Definition distinct_scores (key : nat -> nat -> option Q) (es gs : list nat) : Prop :=
  forall e1 g1 e2 g2 s1 s2,
    In e1 es -> In g1 gs -> In e2 es -> In g2 gs ->
    key e1 g1 = Some s1 -> key e2 g2 = Some s2 -> s1 == s2 -> e1 = e2 /\ g1 = g2.

Lemma distinct_scores_sub key es gs es' gs' :
  incl es' es -> incl gs' gs -> distinct_scores key es gs -> distinct_scores key es' gs'.
Proof. intros Ie Ig D e1 g1 e2 g2 s1 s2 H1 H2 H3 H4. apply D; auto. Qed.

Lemma greedy_run_inv mx key es gs ps2 es2 gs2 :
  greedy_run mx key es gs ps2 es2 gs2 ->
  (ps2 = [] /\ es2 = es /\ gs2 = gs /\ forall e g, In e es -> In g gs -> key e g = None)
  \/ (exists e g s ps,
        ps2 = (e, g) :: ps /\ In e es /\ In g gs /\ key e g = Some s /\
        (forall e1 g1 s1, In e1 es -> In g1 gs -> key e1 g1 = Some s1 -> as_good mx s s1) /\
        greedy_run mx key (remove_first e es) (remove_first g gs) ps es2 gs2).
Proof.
  destruct 1 as [es gs Hn|es gs e g s ps es' gs' He Hg K Best R]; [left; auto|right].
  exists e, g, s, ps. repeat split; auto.
Qed.

Lemma greedy_run_unique mx key es gs ps es' gs' :
  greedy_run mx key es gs ps es' gs' ->
  distinct_scores key es gs ->
  forall ps2 es2 gs2, greedy_run mx key es gs ps2 es2 gs2 -> ps2 = ps /\ es2 = es' /\ gs2 = gs'.
Proof.
  induction 1 as [es gs Hn|es gs e g s ps es' gs' He Hg K Best R IH]; intros D ps2 es2 gs2 R2;
    apply greedy_run_inv in R2;
    destruct R2 as [(-> & -> & -> & Hn2)|(e0 & g0 & s0 & ps0 & -> & He0 & Hg0 & K0 & Best0 & R0)].
  - auto.
  - rewrite (Hn _ _ He0 Hg0) in K0. discriminate.
  - rewrite (Hn2 _ _ He Hg) in K. discriminate.
  - assert (Q1 : as_good mx s s0) by (apply (Best e0 g0 s0 He0 Hg0 K0)).
    assert (Q2 : as_good mx s0 s) by (apply (Best0 e g s He Hg K)).
    pose proof (as_good_antisym _ _ _ Q1 Q2) as Eq.
    destruct (D e g e0 g0 s s0 He Hg He0 Hg0 K K0 Eq) as [<- <-].
    assert (D' : distinct_scores key (remove_first e es) (remove_first g gs)).
    { eapply distinct_scores_sub; [| |exact D]; intros x Hx; eapply remove_first_in; eauto. }
    destruct (IH D' _ _ _ R0) as (-> & -> & ->). auto.
Qed.

Lemma greedy_run_incl mx key es gs ps es' gs' :
  greedy_run mx key es gs ps es' gs' -> incl es' es /\ incl gs' gs.
Proof.
  induction 1 as [es gs Hn|es gs e g s ps es' gs' He Hg K Best R [IHe IHg]].
  - split; apply incl_refl.
  - split; intros x Hx; eapply remove_first_in; eauto.
Qed.

(* the documented two-stage greedy: stage 1 on the label-compatible cells, stage 2 on all cells of
   what is left *)
Definition greedy2 (mx : bool) (cell : nat -> nat -> option Q) (ok : nat -> nat -> bool) (n m : nat)
           (p1 p2 : list (nat * nat)) (rest_e rest_g : list nat) : Prop :=
  exists es1 gs1,
    greedy_run mx (masked cell ok) (seq 0 n) (seq 0 m) p1 es1 gs1 /\
    greedy_run mx cell es1 gs1 p2 rest_e rest_g.

Lemma stages_is_greedy2 mx cell ok n m s : stages_ok mx cell ok n m s ->
  greedy2 mx cell ok n m (st_pairs1 s) (st_pairs2 s) (st_rest_est s) (st_rest_gt s).
Proof.
  intros [R1 R2]. exists (st_mid_est s), (st_mid_gt s). split.
  - eapply stage_is_greedy_run; [|exact R1]. rewrite seq_length. lia.
  - eapply stage_is_greedy_run; [|exact R2]. lia.
Qed.

Lemma distinct_scores_masked cell ok es gs :
  distinct_scores cell es gs -> distinct_scores (masked cell ok) es gs.
Proof.
  intros D e1 g1 e2 g2 s1 s2 H1 H2 H3 H4 K1 K2. apply masked_some in K1. apply masked_some in K2.
  apply D; tauto.
Qed.

Lemma greedy2_unique mx cell ok n m :
  distinct_scores cell (seq 0 n) (seq 0 m) ->
  forall p1 p2 re rg p1' p2' re' rg',
    greedy2 mx cell ok n m p1 p2 re rg -> greedy2 mx cell ok n m p1' p2' re' rg' ->
    p1' = p1 /\ p2' = p2 /\ re' = re /\ rg' = rg.
Proof.
  intros D p1 p2 re rg p1' p2' re' rg' (es1 & gs1 & A1 & A2) (es1' & gs1' & B1 & B2).
  destruct (greedy_run_unique _ _ _ _ _ _ _ A1 (distinct_scores_masked _ _ _ _ D) _ _ _ B1) as (-> & -> & ->).
  destruct (greedy_run_incl _ _ _ _ _ _ _ A1) as [Ie Ig].
  destruct (greedy_run_unique _ _ _ _ _ _ _ A2 (distinct_scores_sub _ _ _ _ _ Ie Ig D) _ _ _ B2) as (-> & -> & ->).
  auto.
Qed.

(* ------------------------------------------------------------------------------------------ *)
(* MatchingLabelPolicy.is_matchable                                                            *)
(* ------------------------------------------------------------------------------------------ *)
Lemma is_matchable_table gt_fp same unk :
  is_matchable P_DEFAULT gt_fp same unk = (gt_fp || same) /\
  is_matchable P_ALLOW_UNKNOWN gt_fp same unk = (gt_fp || (same || unk)) /\
  is_matchable P_ALLOW_ANY gt_fp same unk = true.
Proof. destruct gt_fp, same, unk; repeat split; reflexivity. Qed.

(* ------------------------------------------------------------------------------------------ *)
(* within a stage the pairs come out best first                                                 *)
(* ------------------------------------------------------------------------------------------ *)
Definition picked_before (mx : bool) (key : nat -> nat -> option Q) (p q : nat * nat) : Prop :=
  forall s s', key (fst p) (snd p) = Some s -> key (fst q) (snd q) = Some s' -> as_good mx s s'.

Lemma stage_scores_sorted mx key fuel : forall es gs ps es' gs',
  stage fuel mx key es gs = (ps, es', gs') ->
  Sorted.StronglySorted (picked_before mx key) ps.
Proof.
  induction fuel as [|f IH]; intros es gs ps es' gs'; cbn [stage].
  - intros E. inversion E; subst. constructor.
  - destruct (argbest mx key es gs) as [[e0 g0]|] eqn:A.
    + destruct (stage f mx key (remove_first e0 es) (remove_first g0 gs)) as [[ps1 es1] gs1] eqn:S.
      intros E. inversion E; subst. apply argbest_some in A. destruct A as (I & J & s0 & K0 & Best).
      constructor; [eapply IH; exact S|].
      apply Forall_forall. intros [e g] Hin s s' Ks Ks'. cbn [fst snd] in *.
      rewrite K0 in Ks. inversion Ks; subst.
      destruct (stage_keys _ _ _ _ _ _ _ _ S e g Hin) as (Ie & Ig & _).
      exact (Best e g s' (remove_first_in _ _ _ Ie) (remove_first_in _ _ _ Ig) Ks').
    + intros E. inversion E; subst. constructor.
Qed.

Lemma stages_scores_sorted mx cell ok n m s : stages_ok mx cell ok n m s ->
  Sorted.StronglySorted (picked_before mx (masked cell ok)) (st_pairs1 s) /\
  Sorted.StronglySorted (picked_before mx cell) (st_pairs2 s).
Proof. intros [R1 R2]. split; eapply stage_scores_sorted; eauto. Qed.
