(* Proofs about Model/Transform.v (C18). *)
From Coq Require Import QArith List String Bool Lia.
From PE Require Import Base.QUtil Base.StrUtil Model.EnumParse Gen.Enums Proofs.EnumParseProofs Model.Transform.
Import ListNotations.
Open Scope list_scope.
Open Scope Q_scope.

(* unfold everything down to polynomial (in)equalities over Q; projections only, never Q arithmetic *)
Ltac proj :=
  cbn [qw qx qy qz vx vy vz k1 k2 k3 c0 c1 c2 c3 w0 w1 w2 w3 rq rt rsrc rdst fst snd] in *.
Ltac unf :=
  cbv beta iota zeta delta [veq qeq meq roweq m3eq apply_point_via_matrix apply_pose_via_matrix apply_pose apply_point
    to_matrix inv mat_position mat_rotation mmul rowmul rdot hm meye rot mv3 rotm vdot vadd vneg vzero
    qmul qconj qneg qone qpure qvec
    qw qx qy qz vx vy vz k1 k2 k3 c0 c1 c2 c3 w0 w1 w2 w3 rq rt rsrc rdst fst snd] in *.
Ltac poly := unf; repeat split; ring.

(* ------------------------------------------------------------------------------------------ *)
(* equalities are equivalences                                                                  *)
(* ------------------------------------------------------------------------------------------ *)
Lemma veq_refl a : veq a a.
Proof. unfold veq. repeat split; reflexivity. Qed.
Lemma veq_sym a b : veq a b -> veq b a.
Proof. unfold veq. intros (?&?&?). repeat split; symmetry; assumption. Qed.
Lemma veq_trans a b c : veq a b -> veq b c -> veq a c.
Proof. unfold veq. intros (?&?&?) (?&?&?). repeat split; etransitivity; eassumption. Qed.
Lemma qeq_refl a : qeq a a.
Proof. unfold qeq. repeat split; reflexivity. Qed.
Lemma qeq_trans a b c : qeq a b -> qeq b c -> qeq a c.
Proof. unfold qeq. intros (?&?&?&?) (?&?&?&?). repeat split; etransitivity; eassumption. Qed.

(* rot and apply_point respect veq / qeq *)
Lemma rot_veq q v v' : veq v v' -> veq (rot q v) (rot q v').
Proof. unf. intros (H1&H2&H3). rewrite H1, H2, H3. repeat split; reflexivity. Qed.
Lemma apply_point_veq T p p' : veq p p' -> veq (apply_point T p) (apply_point T p').
Proof. unf. intros (H1&H2&H3). rewrite H1, H2, H3. repeat split; reflexivity. Qed.

(* ------------------------------------------------------------------------------------------ *)
(* quaternion algebra (polynomial identities, no unit hypothesis)                               *)
(* ------------------------------------------------------------------------------------------ *)
Lemma qmul_assoc a b c : qeq (qmul (qmul a b) c) (qmul a (qmul b c)).
Proof. poly. Qed.

Lemma qnorm2_mul a b : qnorm2 (qmul a b) == qnorm2 a * qnorm2 b.
Proof. unfold qnorm2. unf. ring. Qed.

Lemma qnorm2_conj q : qnorm2 (qconj q) == qnorm2 q.
Proof. unfold qnorm2. unf. ring. Qed.

Lemma qnorm2_neg q : qnorm2 (qneg q) == qnorm2 q.
Proof. unfold qnorm2. unf. ring. Qed.

(* [rot q v] is the vector part of q (0,v) q^* (and its scalar part is 0) *)
Lemma rot_is_sandwich q v : qeq (qmul (qmul q (qpure v)) (qconj q)) (qpure (rot q v)).
Proof. poly. Qed.

(* rotations compose like quaternion products *)
Lemma rot_mul a b v : veq (rot (qmul a b) v) (rot a (rot b v)).
Proof. poly. Qed.

(* q and -q are the same rotation *)
Lemma rot_neg q v : veq (rot (qneg q) v) (rot q v).
Proof. poly. Qed.

Lemma rot_add q u v : veq (rot q (vadd u v)) (vadd (rot q u) (rot q v)).
Proof. poly. Qed.

Lemma rot_vneg q v : veq (rot q (vneg v)) (vneg (rot q v)).
Proof. poly. Qed.

(* q^* q = |q|^2: rotating back multiplies by |q|^4, the orientation by |q|^2 *)
Lemma rot_conj_rot q v :
  vx (rot (qconj q) (rot q v)) == qnorm2 q * qnorm2 q * vx v /\
  vy (rot (qconj q) (rot q v)) == qnorm2 q * qnorm2 q * vy v /\
  vz (rot (qconj q) (rot q v)) == qnorm2 q * qnorm2 q * vz v.
Proof. unfold qnorm2. unf. repeat split; ring. Qed.

Lemma rot_rot_conj q v :
  vx (rot q (rot (qconj q) v)) == qnorm2 q * qnorm2 q * vx v /\
  vy (rot q (rot (qconj q) v)) == qnorm2 q * qnorm2 q * vy v /\
  vz (rot q (rot (qconj q) v)) == qnorm2 q * qnorm2 q * vz v.
Proof. unfold qnorm2. unf. repeat split; ring. Qed.

Lemma qconj_mul_cancel q r :
  qw (qmul (qconj q) (qmul q r)) == qnorm2 q * qw r /\ qx (qmul (qconj q) (qmul q r)) == qnorm2 q * qx r /\
  qy (qmul (qconj q) (qmul q r)) == qnorm2 q * qy r /\ qz (qmul (qconj q) (qmul q r)) == qnorm2 q * qz r.
Proof. unfold qnorm2. unf. repeat split; ring. Qed.

Lemma qmul_conj_cancel q r :
  qw (qmul q (qmul (qconj q) r)) == qnorm2 q * qw r /\ qx (qmul q (qmul (qconj q) r)) == qnorm2 q * qx r /\
  qy (qmul q (qmul (qconj q) r)) == qnorm2 q * qy r /\ qz (qmul q (qmul (qconj q) r)) == qnorm2 q * qz r.
Proof. unfold qnorm2. unf. repeat split; ring. Qed.

(* unit quaternions: the rotation cancels *)
Lemma rot_conj_rot_unit q v : qnorm2 q == 1 -> veq (rot (qconj q) (rot q v)) v.
Proof.
  intros H. destruct (rot_conj_rot q v) as (H1&H2&H3). unfold veq.
  rewrite H1, H2, H3, H. repeat split; ring.
Qed.
Lemma rot_rot_conj_unit q v : qnorm2 q == 1 -> veq (rot q (rot (qconj q) v)) v.
Proof.
  intros H. destruct (rot_rot_conj q v) as (H1&H2&H3). unfold veq.
  rewrite H1, H2, H3, H. repeat split; ring.
Qed.

(* the rotation matrix of a unit quaternion is orthogonal with rows of unit length: lengths are kept *)
Lemma rot_preserves_norm q v : vdot (rot q v) (rot q v) == qnorm2 q * qnorm2 q * vdot v v.
Proof. unfold qnorm2. unf. ring. Qed.

(* ------------------------------------------------------------------------------------------ *)
(* inverse                                                                                      *)
(* ------------------------------------------------------------------------------------------ *)
Lemma inv_apply_cancel_point T p : qnorm2 (rq T) == 1 -> veq (apply_point (inv T) (apply_point T p)) p.
Proof.
  intros H. unfold apply_point, inv. proj.
  (* R^*(R p + t) - R^* t = R^* R p *)
  eapply veq_trans; [|apply (rot_conj_rot_unit (rq T) p H)].
  generalize (rot (rq T) p). intros u. poly.
Qed.

Lemma apply_inv_cancel_point T p : qnorm2 (rq T) == 1 -> veq (apply_point T (apply_point (inv T) p)) p.
Proof.
  intros H. unfold apply_point, inv. proj.
  assert (E : veq (vadd (rot (rq T) (vadd (rot (qconj (rq T)) p) (vneg (rot (qconj (rq T)) (rt T))))) (rt T))
                  (vadd (vadd (rot (rq T) (rot (qconj (rq T)) p)) (vneg (rot (rq T) (rot (qconj (rq T)) (rt T))))) (rt T))).
  { generalize (rot (qconj (rq T)) p) (rot (qconj (rq T)) (rt T)). intros u v. poly. }
  eapply veq_trans; [exact E|].
  destruct (rot_rot_conj_unit (rq T) p H) as (A1&A2&A3).
  destruct (rot_rot_conj_unit (rq T) (rt T) H) as (B1&B2&B3).
  unfold veq, vadd, vneg. proj. rewrite A1, A2, A3, B1, B2, B3. repeat split; ring.
Qed.

Lemma inv_apply_cancel_orientation T r : qnorm2 (rq T) == 1 -> qeq (qmul (rq (inv T)) (qmul (rq T) r)) r.
Proof.
  intros H. unfold inv. proj. destruct (qconj_mul_cancel (rq T) r) as (H1&H2&H3&H4).
  unfold qeq. rewrite H1, H2, H3, H4, H. repeat split; ring.
Qed.

Lemma apply_inv_cancel_orientation T r : qnorm2 (rq T) == 1 -> qeq (qmul (rq T) (qmul (rq (inv T)) r)) r.
Proof.
  intros H. unfold inv. proj. destruct (qmul_conj_cancel (rq T) r) as (H1&H2&H3&H4).
  unfold qeq. rewrite H1, H2, H3, H4, H. repeat split; ring.
Qed.

Theorem inv_apply_cancel T p r : qnorm2 (rq T) == 1 ->
  veq (fst (apply_pose (inv T) (apply_pose T (p, r)))) p /\
  qeq (snd (apply_pose (inv T) (apply_pose T (p, r)))) r.
Proof.
  intros H. unfold apply_pose. cbn [fst snd]. split.
  - apply inv_apply_cancel_point, H.
  - apply inv_apply_cancel_orientation, H.
Qed.

Theorem apply_inv_cancel T p r : qnorm2 (rq T) == 1 ->
  veq (fst (apply_pose T (apply_pose (inv T) (p, r)))) p /\
  qeq (snd (apply_pose T (apply_pose (inv T) (p, r)))) r.
Proof.
  intros H. unfold apply_pose. cbn [fst snd]. split.
  - apply apply_inv_cancel_point, H.
  - apply apply_inv_cancel_orientation, H.
Qed.

Lemma inv_frames T : rsrc (inv T) = rdst T /\ rdst (inv T) = rsrc T.
Proof. split; reflexivity. Qed.

Lemma inv_unit T : qnorm2 (rq T) == 1 -> qnorm2 (rq (inv T)) == 1.
Proof. intros H. unfold inv. proj. rewrite qnorm2_conj. exact H. Qed.

Lemma rq_inv T : rq (inv T) = qconj (rq T).
Proof. reflexivity. Qed.
Lemma rt_inv T : rt (inv T) = vneg (rot (qconj (rq T)) (rt T)).
Proof. reflexivity. Qed.
Lemma qconj_involutive q : qeq (qconj (qconj q)) q.
Proof. poly. Qed.

(* inv(inv T) = T (exactly on the rotation, on the translation for unit q) *)
Lemma inv_involutive T : qnorm2 (rq T) == 1 ->
  qeq (rq (inv (inv T))) (rq T) /\ veq (rt (inv (inv T))) (rt T) /\
  rsrc (inv (inv T)) = rsrc T /\ rdst (inv (inv T)) = rdst T.
Proof.
  intros H. split; [rewrite !rq_inv; apply qconj_involutive|]. split; [|split; reflexivity].
  rewrite rt_inv, !rq_inv, rt_inv.
  assert (E : veq (vneg (rot (qconj (qconj (rq T))) (vneg (rot (qconj (rq T)) (rt T)))))
                  (rot (rq T) (rot (qconj (rq T)) (rt T)))).
  { generalize (rot (qconj (rq T)) (rt T)) (rq T). intros u q. poly. }
  eapply veq_trans; [exact E|]. apply rot_rot_conj_unit, H.
Qed.

(* the closed form is the matrix inverse: M(inv T) M(T) = I = M(T) M(inv T) *)
Lemma inv_mul_left_poly T :
  meq (mmul (to_matrix (inv T)) (to_matrix T))
      (mkMat (mkRow (qnorm2 (rq T) * qnorm2 (rq T)) 0 0 0) (mkRow 0 (qnorm2 (rq T) * qnorm2 (rq T)) 0 0)
             (mkRow 0 0 (qnorm2 (rq T) * qnorm2 (rq T)) 0) (mkRow 0 0 0 1)).
Proof. unfold qnorm2. unf. repeat split; ring. Qed.

Lemma inv_mul_right_poly T :
  meq (mmul (to_matrix T) (to_matrix (inv T)))
      (mkMat (mkRow (qnorm2 (rq T) * qnorm2 (rq T)) 0 0 ((1 - qnorm2 (rq T) * qnorm2 (rq T)) * vx (rt T)))
             (mkRow 0 (qnorm2 (rq T) * qnorm2 (rq T)) 0 ((1 - qnorm2 (rq T) * qnorm2 (rq T)) * vy (rt T)))
             (mkRow 0 0 (qnorm2 (rq T) * qnorm2 (rq T)) ((1 - qnorm2 (rq T) * qnorm2 (rq T)) * vz (rt T)))
             (mkRow 0 0 0 1)).
Proof. unfold qnorm2. unf. repeat split; ring. Qed.

Lemma meq_trans A B C : meq A B -> meq B C -> meq A C.
Proof.
  unfold meq, roweq.
  intros ((?&?&?&?)&(?&?&?&?)&(?&?&?&?)&(?&?&?&?)) ((?&?&?&?)&(?&?&?&?)&(?&?&?&?)&(?&?&?&?)).
  repeat split; etransitivity; eassumption.
Qed.

Theorem inv_is_matrix_inverse T : qnorm2 (rq T) == 1 ->
  meq (mmul (to_matrix (inv T)) (to_matrix T)) meye /\ meq (mmul (to_matrix T) (to_matrix (inv T))) meye.
Proof.
  intros H. split.
  - eapply meq_trans; [apply inv_mul_left_poly|].
    unfold meq, roweq, meye. proj. rewrite H. repeat split; ring.
  - eapply meq_trans; [apply inv_mul_right_poly|].
    unfold meq, roweq, meye. proj. rewrite H. repeat split; ring.
Qed.

(* ------------------------------------------------------------------------------------------ *)
(* composition                                                                                  *)
(* ------------------------------------------------------------------------------------------ *)
Lemma dot_ok_iff self other :
  (exists C, dot self other = DotOk C) <-> rsrc self = rdst other.
Proof.
  unfold dot. destruct (String.eqb_spec (rsrc self) (rdst other)); cbn [negb]; split; intros H; auto.
  - eexists. reflexivity.
  - destruct H as [C HC]. discriminate.
  - contradiction.
Qed.

Theorem compose_frames self other C :
  dot self other = DotOk C -> rsrc C = rsrc other /\ rdst C = rdst self.
Proof.
  unfold dot. destruct (String.eqb (rsrc self) (rdst other)); cbn [negb]; [|discriminate].
  intros H. injection H as <-. split; reflexivity.
Qed.

Theorem compose_mismatch_rejected self other :
  rsrc self <> rdst other -> dot self other = DotValueError.
Proof.
  intros H. unfold dot. destruct (String.eqb_spec (rsrc self) (rdst other)); [contradiction|reflexivity].
Qed.

Lemma dot_ok_parts self other C :
  dot self other = DotOk C ->
  rq C = qmul (rq self) (rq other) /\ rt C = vadd (rot (rq self) (rt other)) (rt self).
Proof.
  unfold dot. destruct (String.eqb (rsrc self) (rdst other)); cbn [negb]; [|discriminate].
  intros H. injection H as <-. split; reflexivity.
Qed.

Lemma compose_point_poly a b ta tb p :
  veq (vadd (rot (qmul a b) p) (vadd (rot a tb) ta)) (vadd (rot a (vadd (rot b p) tb)) ta).
Proof. poly. Qed.

Theorem compose_is_two_steps self other C p r :
  dot self other = DotOk C ->
  veq (fst (apply_pose C (p, r))) (fst (apply_pose self (apply_pose other (p, r)))) /\
  qeq (snd (apply_pose C (p, r))) (snd (apply_pose self (apply_pose other (p, r)))).
Proof.
  intros H. destruct (dot_ok_parts _ _ _ H) as (Hq&Ht).
  unfold apply_pose, apply_point. cbn [fst snd]. rewrite Hq, Ht. split.
  - apply compose_point_poly.
  - apply qmul_assoc.
Qed.

Lemma compose_unit self other C :
  dot self other = DotOk C -> qnorm2 (rq self) == 1 -> qnorm2 (rq other) == 1 -> qnorm2 (rq C) == 1.
Proof.
  intros H H1 H2. destruct (dot_ok_parts _ _ _ H) as (Hq&_). rewrite Hq, qnorm2_mul, H1, H2. ring.
Qed.

(* ------------------------------------------------------------------------------------------ *)
(* agreement with 4x4 matrices                                                                  *)
(* ------------------------------------------------------------------------------------------ *)
(* R(a) R(b) = R(ab), R(a) t' + t  -- the whole 4x4 product at once *)
Lemma hm_mul a ta b tb : meq (mmul (hm a ta) (hm b tb)) (hm (qmul a b) (vadd (rot a tb) ta)).
Proof. poly. Qed.

Theorem apply_agrees_with_matrix T p r :
  (* position only: the code multiplies by the matrix of (p, identity rotation) and reads column 3 *)
  veq (apply_point_via_matrix T p) (apply_point T p) /\
  (* position and rotation: the product matrix is the matrix of the transformed pose *)
  meq (apply_pose_via_matrix T (p, r)) (hm (snd (apply_pose T (p, r))) (fst (apply_pose T (p, r)))).
Proof.
  split.
  - poly.
  - unfold apply_pose_via_matrix, apply_pose, apply_point, to_matrix. cbn [fst snd]. apply hm_mul.
Qed.

(* the 4x4 matrix applied to the homogeneous coordinates (p, 1) *)
Lemma matrix_times_point T p :
  rdot (w0 (to_matrix T)) (vx p) (vy p) (vz p) 1 == vx (apply_point T p) /\
  rdot (w1 (to_matrix T)) (vx p) (vy p) (vz p) 1 == vy (apply_point T p) /\
  rdot (w2 (to_matrix T)) (vx p) (vy p) (vz p) 1 == vz (apply_point T p) /\
  rdot (w3 (to_matrix T)) (vx p) (vy p) (vz p) 1 == 1.
Proof. poly. Qed.

Theorem compose_agrees_with_mmul self other C :
  dot self other = DotOk C -> meq (to_matrix C) (mmul (to_matrix self) (to_matrix other)).
Proof.
  intros H. destruct (dot_ok_parts _ _ _ H) as (Hq&Ht). unfold to_matrix. rewrite Hq, Ht.
  generalize (hm_mul (rq self) (rt self) (rq other) (rt other)).
  generalize (mmul (hm (rq self) (rt self)) (hm (rq other) (rt other)))
             (hm (qmul (rq self) (rq other)) (vadd (rot (rq self) (rt other)) (rt self))).
  intros A B. unfold meq, roweq.
  intros ((?&?&?&?)&(?&?&?&?)&(?&?&?&?)&(?&?&?&?)). repeat split; symmetry; assumption.
Qed.

(* a chain of transforms folded with transform(matrix) acts like the steps one after the other *)
Lemma transform_matrix_two_steps acc T acc' p r :
  transform_matrix acc T = DotOk acc' ->
  veq (fst (apply_pose acc' (p, r))) (fst (apply_pose T (apply_pose acc (p, r)))) /\
  qeq (snd (apply_pose acc' (p, r))) (snd (apply_pose T (apply_pose acc (p, r)))).
Proof. unfold transform_matrix. apply compose_is_two_steps. Qed.

Lemma apply_pose_eq T p p' r r' : veq p p' -> qeq r r' ->
  veq (fst (apply_pose T (p, r))) (fst (apply_pose T (p', r'))) /\
  qeq (snd (apply_pose T (p, r))) (snd (apply_pose T (p', r'))).
Proof.
  intros (H1&H2&H3) (G1&G2&G3&G4). unf. rewrite H1, H2, H3, G1, G2, G3, G4. repeat split; reflexivity.
Qed.

Lemma apply_chain_pose_eq l : forall p p' r r', veq p p' -> qeq r r' ->
  veq (fst (apply_chain_pose l (p, r))) (fst (apply_chain_pose l (p', r'))) /\
  qeq (snd (apply_chain_pose l (p, r))) (snd (apply_chain_pose l (p', r'))).
Proof.
  induction l as [|T t IH]; intros p p' r r' Hp Hr; cbn [apply_chain_pose].
  - cbn [fst snd]. split; assumption.
  - destruct (apply_pose_eq T p p' r r' Hp Hr) as (A&B).
    destruct (apply_pose T (p, r)) as [p1 r1], (apply_pose T (p', r')) as [p2 r2]. cbn [fst snd] in A, B.
    apply IH; assumption.
Qed.

Lemma last_cons_default {A} (x : A) xs d1 d2 : last (x :: xs) d1 = last (x :: xs) d2.
Proof. revert x. induction xs as [|y ys IH]; intros x; [reflexivity|]. cbn [last] in *. apply IH. Qed.

Theorem chain_is_stepwise l : forall acc C p r,
  chain_from acc l = DotOk C ->
  veq (fst (apply_pose C (p, r))) (fst (apply_chain_pose l (apply_pose acc (p, r)))) /\
  qeq (snd (apply_pose C (p, r))) (snd (apply_chain_pose l (apply_pose acc (p, r)))) /\
  rsrc C = rsrc acc /\ rdst C = last (map rdst l) (rdst acc).
Proof.
  induction l as [|T t IH]; intros acc C p r H; cbn [chain_from] in H.
  - injection H as <-. cbn [apply_chain_pose map last]. repeat split; try apply veq_refl; try apply qeq_refl.
  - destruct (transform_matrix acc T) as [acc'|] eqn:E; [|discriminate].
    destruct (IH acc' C p r H) as (A&B&S&D).
    destruct (transform_matrix_two_steps acc T acc' p r E) as (A'&B').
    destruct (compose_frames _ _ _ E) as (S'&D').
    cbn [apply_chain_pose].
    destruct (apply_pose acc' (p, r)) as [p1 r1] eqn:E1.
    destruct (apply_pose T (apply_pose acc (p, r))) as [p2 r2] eqn:E2. cbn [fst snd] in A', B'.
    destruct (apply_chain_pose_eq t p1 p2 r1 r2 A' B') as (X&Y).
    split; [eapply veq_trans; eassumption|]. split; [eapply qeq_trans; eassumption|].
    split; [congruence|].
    rewrite D, D'. cbn [map]. destruct (map rdst t) as [|x xs]; [reflexivity|].
    change (last (rdst T :: x :: xs) (rdst acc)) with (last (x :: xs) (rdst acc)).
    apply last_cons_default.
Qed.

(* ------------------------------------------------------------------------------------------ *)
(* registry                                                                                     *)
(* ------------------------------------------------------------------------------------------ *)
Lemma labelled_true s d m : labelled s d m = true <-> rsrc m = s /\ rdst m = d.
Proof. unfold labelled. rewrite andb_true_iff, !String.eqb_eq. tauto. Qed.

Lemma reg_get_some reg s d m : reg_get reg s d = Some m -> In m reg /\ rsrc m = s /\ rdst m = d.
Proof.
  induction reg as [|x t IH]; cbn [reg_get]; [discriminate|].
  destruct (reg_get t s d) as [r|].
  - intros H. injection H as ->. destruct (IH eq_refl) as (?&?&?). repeat split; auto. right. assumption.
  - destruct (labelled s d x) eqn:L; [|discriminate]. intros H. injection H as ->.
    apply labelled_true in L. destruct L. repeat split; auto. left. reflexivity.
Qed.

Lemma reg_get_none reg s d : reg_get reg s d = None <-> (forall m, In m reg -> ~ (rsrc m = s /\ rdst m = d)).
Proof.
  induction reg as [|x t IH]; cbn [reg_get].
  - split; [intros _ m []|reflexivity].
  - destruct (reg_get t s d) as [r|] eqn:E.
    + split; [discriminate|]. intros H. exfalso. destruct (reg_get_some _ _ _ _ E) as (I&L).
      apply (H r); [right; assumption|assumption].
    + destruct (labelled s d x) eqn:L.
      * split; [discriminate|]. intros H. exfalso. apply (H x); [left; reflexivity|]. apply labelled_true, L.
      * split; [|reflexivity]. intros _ m [<-|I].
        -- intros C. apply labelled_true in C. congruence.
        -- apply IH; [reflexivity|assumption].
Qed.

(* the registered matrix for (s, d) is the LAST one with those labels (dict insertion overwrites) *)
Lemma reg_get_last l1 m l2 s d :
  rsrc m = s -> rdst m = d -> (forall m', In m' l2 -> ~ (rsrc m' = s /\ rdst m' = d)) ->
  reg_get (l1 ++ m :: l2) s d = Some m.
Proof.
  intros Hs Hd Hl. induction l1 as [|x t IH]; cbn [app reg_get].
  - apply reg_get_none in Hl. rewrite Hl.
    assert (L : labelled s d m = true) by (apply labelled_true; auto). rewrite L. reflexivity.
  - rewrite IH. reflexivity.
Qed.

Definition registered_last (reg : registry) (s d : string) (m : rigid) : Prop :=
  exists l1 l2, reg = l1 ++ m :: l2 /\ rsrc m = s /\ rdst m = d /\
                (forall m', In m' l2 -> ~ (rsrc m' = s /\ rdst m' = d)).
Definition not_registered (reg : registry) (s d : string) : Prop :=
  forall m, In m reg -> ~ (rsrc m = s /\ rdst m = d).

Lemma reg_get_registered_last reg s d m : registered_last reg s d m -> reg_get reg s d = Some m.
Proof. intros (l1&l2&->&Hs&Hd&Hl). apply reg_get_last; assumption. Qed.

Lemma reg_lookup_members reg a b s d :
  canon a = Member s -> canon b = Member d -> s <> d -> reg_lookup reg a b = reg_lookup_canon reg s d.
Proof.
  intros Ha Hb Hn. unfold reg_lookup. rewrite Ha, Hb.
  destruct (String.eqb_spec s d); [contradiction|reflexivity].
Qed.

Theorem registry_direct reg a b s d m :
  canon a = Member s -> canon b = Member d -> s <> d ->
  registered_last reg s d m -> reg_lookup reg a b = LUse m.
Proof.
  intros Ha Hb Hn Hm. rewrite (reg_lookup_members reg a b s d Ha Hb Hn). unfold reg_lookup_canon.
  rewrite (reg_get_registered_last _ _ _ _ Hm). reflexivity.
Qed.

Theorem registry_inverse_fallback reg a b s d m :
  canon a = Member s -> canon b = Member d -> s <> d ->
  not_registered reg s d -> registered_last reg d s m -> reg_lookup reg a b = LUse (inv m).
Proof.
  intros Ha Hb Hn Hno Hm. rewrite (reg_lookup_members reg a b s d Ha Hb Hn). unfold reg_lookup_canon.
  apply reg_get_none in Hno. rewrite Hno. rewrite (reg_get_registered_last _ _ _ _ Hm). reflexivity.
Qed.

Theorem registry_identity reg a b k :
  canon a = Member k -> canon b = Member k -> reg_lookup reg a b = LIdentity.
Proof.
  intros Ha Hb. unfold reg_lookup. rewrite Ha, Hb, String.eqb_refl. reflexivity.
Qed.

Theorem registry_missing_raises reg a b s d :
  canon a = Member s -> canon b = Member d -> s <> d ->
  not_registered reg s d -> not_registered reg d s -> reg_lookup reg a b = LKeyError.
Proof.
  intros Ha Hb Hn H1 H2. rewrite (reg_lookup_members reg a b s d Ha Hb Hn). unfold reg_lookup_canon.
  apply reg_get_none in H1. apply reg_get_none in H2. rewrite H1, H2. reflexivity.
Qed.

Theorem registry_unknown_name_rejected reg a b :
  (canon a = Raises \/ canon b = Raises) -> reg_lookup reg a b = LValueError.
Proof.
  unfold reg_lookup. intros [H|H]; rewrite H; [reflexivity|]. destruct (canon a); reflexivity.
Qed.

(* the answer depends on the members the key elements denote, not on how they are spelt *)
Theorem registry_spelling_independent reg a a' b b' :
  canon a = canon a' -> canon b = canon b' -> reg_lookup reg a b = reg_lookup reg a' b'.
Proof. intros Ha Hb. unfold reg_lookup. rewrite Ha, Hb. reflexivity. Qed.

(* every documented spelling of a member (its value in any letter case, or the member itself)
   canonicalises to that member: C20's theorem about FrameID.from_value, re-established here on
   the regenerated tables *)
Lemma frame_id_parser_faithful : faithful FrameID_enum FrameID_from_value AnyCase MissRaise.
Proof. apply faithful_check_sound. vm_compute. reflexivity. Qed.

Lemma transform_key_str_branch : TransformKey_init_str_branch = true.
Proof. reflexivity. Qed.

Theorem canon_spellings k v s :
  In (k, v) (members FrameID_enum) -> lower v = lower s ->
  canon (inl s) = Member k /\ canon (inr k) = Member k /\ canon_hm (inl s) = Member k /\ canon_hm (inr k) = Member k.
Proof.
  intros Hin Hs. destruct frame_id_parser_faithful as (F&_).
  assert (R : run_parser FrameID_enum FrameID_from_value s = Member k) by (apply (F k v s Hin); exact Hs).
  unfold canon, canon_hm, enum_or_str. rewrite transform_key_str_branch. repeat split; assumption.
Qed.

Lemma canon_non_member s :
  (forall k v, In (k, v) (members FrameID_enum) -> lower v <> lower s) -> canon (inl s) = Raises.
Proof.
  intros H. destruct frame_id_parser_faithful as (_&F).
  unfold canon, enum_or_str. rewrite transform_key_str_branch. rewrite F; [reflexivity|exact H].
Qed.

(* results of TransformDict.transform *)
Lemma reg_transform_point_use reg a b m p :
  reg_lookup reg a b = LUse m -> reg_transform_point reg a b p = TOk (apply_point m p).
Proof. unfold reg_transform_point. intros ->. reflexivity. Qed.
Lemma reg_transform_pose_use reg a b m pr :
  reg_lookup reg a b = LUse m -> reg_transform_pose reg a b pr = TOk (apply_pose m pr).
Proof. unfold reg_transform_pose. intros ->. reflexivity. Qed.
Lemma reg_transform_identity reg a b p pr M :
  reg_lookup reg a b = LIdentity ->
  reg_transform_point reg a b p = TOk p /\ reg_transform_pose reg a b pr = TOk pr /\ reg_transform_matrix reg a b M = TOk M.
Proof. unfold reg_transform_point, reg_transform_pose, reg_transform_matrix. intros ->. repeat split. Qed.
Lemma reg_transform_key_error reg a b p pr M :
  reg_lookup reg a b = LKeyError ->
  reg_transform_point reg a b p = TKeyError /\ reg_transform_pose reg a b pr = TKeyError /\ reg_transform_matrix reg a b M = TKeyError.
Proof. unfold reg_transform_point, reg_transform_pose, reg_transform_matrix. intros ->. repeat split. Qed.

(* ------------------------------------------------------------------------------------------ *)
(* the normalising folds used by the correspondence compute the same values                     *)
(* ------------------------------------------------------------------------------------------ *)
Definition rigid_equiv (A B : rigid) : Prop :=
  qeq (rq A) (rq B) /\ veq (rt A) (rt B) /\ rsrc A = rsrc B /\ rdst A = rdst B.
Definition dot_result_equiv (a b : dot_result) : Prop :=
  match a, b with
  | DotOk A, DotOk B => rigid_equiv A B
  | DotValueError, DotValueError => True
  | _, _ => False
  end.

Lemma vred_veq v : veq (vred v) v.
Proof. unfold veq, vred. cbn [vx vy vz]. repeat split; apply Qred_correct. Qed.
Lemma qred_qeq q : qeq (qred q) q.
Proof. unfold qeq, qred. cbn [qw qx qy qz]. repeat split; apply Qred_correct. Qed.
Lemma rigid_red_equiv T : rigid_equiv (rigid_red T) T.
Proof. unfold rigid_equiv, rigid_red. cbn [rq rt rsrc rdst]. repeat split; try apply Qred_correct. Qed.

Lemma rigid_equiv_refl A : rigid_equiv A A.
Proof. unfold rigid_equiv. repeat split; reflexivity. Qed.
Lemma rigid_equiv_trans A B C : rigid_equiv A B -> rigid_equiv B C -> rigid_equiv A C.
Proof.
  intros (a&b&c&d) (a'&b'&c'&d'). split; [eapply qeq_trans; eassumption|]. split; [eapply veq_trans; eassumption|].
  split; congruence.
Qed.

Lemma dot_equiv A A' B B' : rigid_equiv A A' -> rigid_equiv B B' -> dot_result_equiv (dot A B) (dot A' B').
Proof.
  intros ((a1&a2&a3&a4)&(b1&b2&b3)&Hs&Hd) ((c1&c2&c3&c4)&(d1&d2&d3)&Hs'&Hd').
  unfold dot. rewrite Hs, Hd'. destruct (negb (String.eqb (rsrc A') (rdst B'))); [exact I|].
  unfold dot_result_equiv, rigid_equiv. cbn [rq rt rsrc rdst]. split; [|split; [|split; assumption]].
  - unf. rewrite a1, a2, a3, a4, c1, c2, c3, c4. repeat split; reflexivity.
  - unf. rewrite a1, a2, a3, a4, b1, b2, b3, d1, d2, d3. repeat split; reflexivity.
Qed.

Lemma chain_from_equiv l : forall acc acc', rigid_equiv acc acc' ->
  dot_result_equiv (chain_from_n acc l) (chain_from acc' l).
Proof.
  induction l as [|T t IH]; intros acc acc' H; cbn [chain_from_n chain_from].
  - exact H.
  - unfold transform_matrix.
    assert (E := dot_equiv T T acc acc' (rigid_equiv_refl T) H).
    destruct (dot T acc) as [x|], (dot T acc') as [y|]; cbn [dot_result_equiv] in E; try contradiction; [|exact I].
    apply IH. eapply rigid_equiv_trans; [apply rigid_red_equiv|exact E].
Qed.

Theorem chain_from_n_correct acc l : dot_result_equiv (chain_from_n acc l) (chain_from acc l).
Proof. apply chain_from_equiv, rigid_equiv_refl. Qed.

Lemma apply_chain_pose_n_equiv l : forall p p' r r', veq p p' -> qeq r r' ->
  veq (fst (apply_chain_pose_n l (p, r))) (fst (apply_chain_pose l (p', r'))) /\
  qeq (snd (apply_chain_pose_n l (p, r))) (snd (apply_chain_pose l (p', r'))).
Proof.
  induction l as [|T t IH]; intros p p' r r' Hp Hr; cbn [apply_chain_pose_n apply_chain_pose].
  - cbn [fst snd]. split; assumption.
  - destruct (apply_pose_eq T p p' r r' Hp Hr) as (A&B).
    destruct (apply_pose T (p, r)) as [p1 r1], (apply_pose T (p', r')) as [p2 r2]. cbn [fst snd] in A, B.
    unfold pose_red. cbn [fst snd]. apply IH.
    + eapply veq_trans; [apply vred_veq|exact A].
    + eapply qeq_trans; [apply qred_qeq|exact B].
Qed.

Theorem apply_chain_pose_n_correct l p r :
  veq (fst (apply_chain_pose_n l (p, r))) (fst (apply_chain_pose l (p, r))) /\
  qeq (snd (apply_chain_pose_n l (p, r))) (snd (apply_chain_pose l (p, r))).
Proof. apply apply_chain_pose_n_equiv; [apply veq_refl|apply qeq_refl]. Qed.

(* ------------------------------------------------------------------------------------------ *)
(* further facts                                                                                *)
(* ------------------------------------------------------------------------------------------ *)
Definition transpose3 (M : mat3) : mat3 :=
  mkMat3 (mkVec (vx (k1 M)) (vx (k2 M)) (vx (k3 M)))
         (mkVec (vy (k1 M)) (vy (k2 M)) (vy (k3 M)))
         (mkVec (vz (k1 M)) (vz (k2 M)) (vz (k3 M))).

(* the rotation block of inv() is the transpose of the rotation block *)
Lemma rotm_conj_transpose q : m3eq (rotm (qconj q)) (transpose3 (rotm q)).
Proof. unfold transpose3. poly. Qed.

(* R R^T = |q|^4 I: the rows of the rotation block of a unit quaternion are orthonormal *)
Lemma rotm_orthogonal q :
  vdot (k1 (rotm q)) (k1 (rotm q)) == qnorm2 q * qnorm2 q /\ vdot (k2 (rotm q)) (k2 (rotm q)) == qnorm2 q * qnorm2 q /\
  vdot (k3 (rotm q)) (k3 (rotm q)) == qnorm2 q * qnorm2 q /\
  vdot (k1 (rotm q)) (k2 (rotm q)) == 0 /\ vdot (k1 (rotm q)) (k3 (rotm q)) == 0 /\ vdot (k2 (rotm q)) (k3 (rotm q)) == 0.
Proof. unfold qnorm2. unf. repeat split; ring. Qed.

(* TransformDict.transform(key, matrix): the registered transform followed by the argument *)
Lemma reg_transform_matrix_use reg a b m M :
  reg_lookup reg a b = LUse m -> rsrc M = rdst m ->
  exists C, reg_transform_matrix reg a b M = TOk C /\ dot M m = DotOk C /\ rsrc C = rsrc m /\ rdst C = rdst M.
Proof.
  intros L H. unfold reg_transform_matrix, transform_matrix. rewrite L.
  destruct (proj2 (dot_ok_iff M m) H) as [C HC]. rewrite HC. exists C.
  destruct (compose_frames _ _ _ HC). repeat split; assumption.
Qed.
