(* Proofs about the model of common/threshold.py (C15, part 1).
   Main results: [flat_accepts_iff] / [nested_accepts_iff] characterise exactly which specifications
   set_thresholds accepts and what it returns; shape, idempotence, broadcasting and the rejection
   lemmas are consequences. *)
From Coq Require Import String List Bool Arith Lia.
From PE Require Import Base.QUtil Model.PyVal Model.Threshold.
Import ListNotations.
Open Scope nat_scope.

(* ---------- small facts *)
Lemma list_mul_single {A} (x : A) n : list_mul [x] n = repeat x n.
Proof. unfold list_mul. induction n; simpl; [reflexivity|now rewrite IHn]. Qed.

Lemma list_mul_one {A} (l : list A) : list_mul l 1 = l.
Proof. unfold list_mul. simpl. now rewrite app_nil_r. Qed.

Lemma any_not_real_false l : any_not_real l = false <-> all_real l = true.
Proof.
  unfold any_not_real, all_real. induction l as [|x t IH]; simpl; [tauto|].
  rewrite orb_false_iff, andb_true_iff, IH, negb_false_iff. tauto.
Qed.

Lemma all_real_repeat x n : is_real x = true -> all_real (repeat x n) = true.
Proof. intros H. unfold all_real. induction n; simpl; [reflexivity|now rewrite H]. Qed.

Lemma all_real_app a b : all_real (a ++ b) = all_real a && all_real b.
Proof. unfold all_real. apply forallb_app. Qed.

Lemma all_real_In l : all_real l = true <-> (forall x, In x l -> is_real x = true).
Proof. unfold all_real. apply forallb_forall. Qed.

Lemma length_zero_nil {A} (l : list A) : Nat.eqb (length l) 0 = true <-> l = [].
Proof. rewrite Nat.eqb_eq. destruct l; simpl; split; intros; try reflexivity; discriminate. Qed.

Lemma length_one {A} (l : list A) : length l = 1 -> exists x, l = [x].
Proof. destruct l as [|x [|y t]]; simpl; intros H; try discriminate. now exists x. Qed.

Lemma as_rows_map rows : as_rows (map List rows) = Some rows.
Proof. induction rows as [|r t IH]; simpl; [reflexivity|now rewrite IH]. Qed.

Lemma as_rows_some l rows : as_rows l = Some rows -> l = map List rows.
Proof.
  revert rows. induction l as [|x t IH]; simpl; intros rows H.
  - injection H as <-. reflexivity.
  - destruct x; try discriminate. destruct (as_rows t) as [rs|]; [|discriminate].
    injection H as <-. simpl. now rewrite (IH rs eq_refl).
Qed.

Lemma is_real_not_list x : is_real x = true -> is_list x = false.
Proof. destruct x; simpl; congruence. Qed.

Lemma bcast_row_spec r n :
  bcast_row r n = match r with [x] => repeat x n | _ => r end.
Proof.
  unfold bcast_row. destruct r as [|x [|y t]]; simpl; try reflexivity. apply list_mul_single.
Qed.

Lemma existsb_false_forall {A} (f : A -> bool) l :
  existsb f l = false <-> (forall x, In x l -> f x = false).
Proof.
  induction l as [|a t IH]; simpl; [split; [intros _ x []|reflexivity]|].
  rewrite orb_false_iff, IH. split.
  - intros [Ha Ht] x [<-|Hx]; auto.
  - intros H; split; [apply H; auto|intros x Hx; apply H; auto].
Qed.

(* ---------- the two checkers accept exactly the normal forms, unchanged *)
Lemma check_thresholds_ok v n w :
  check_thresholds v n = Ok w <->
  w = v /\ exists l, py_items v = Some l /\ all_real l = true /\ length l = n.
Proof.
  unfold check_thresholds. destruct (py_items v) as [l|].
  - destruct (any_not_real l) eqn:E.
    + split; [discriminate|]. intros [_ [l' [H [Hr _]]]]. injection H as <-.
      apply any_not_real_false in Hr. congruence.
    + apply any_not_real_false in E. destruct (Nat.eqb_spec (length l) n) as [Hn|Hn]; simpl.
      * split; [intros H; injection H as <-; split; [reflexivity|now exists l]|intros [-> _]; reflexivity].
      * split; [discriminate|]. intros [_ [l' [H [_ Hl]]]]. injection H as <-. contradiction.
  - split; [discriminate|]. intros [_ [l [H _]]]. discriminate.
Qed.


Definition row_ok (n : nat) (r : list pyval) : Prop := length r = n /\ 1 <= n /\ all_real r = true.

Lemma any_not_real_concat_false rows :
  any_not_real (concat rows) = false <-> (forall r, In r rows -> all_real r = true).
Proof.
  rewrite any_not_real_false. induction rows as [|r t IH]; simpl.
  - split; [intros _ r []|reflexivity].
  - rewrite all_real_app, andb_true_iff, IH. split.
    + intros [Hr Ht] r' [<-|Hin]; auto.
    + intros H; split; [apply H; auto|intros r' Hr'; apply H; auto].
Qed.

Lemma map_List_inj a b : map List a = map List b -> a = b.
Proof.
  revert b. induction a as [|r t IH]; destruct b; simpl; intros H; try discriminate; auto.
  injection H as -> H. f_equal. auto.
Qed.

Lemma check_nested_thresholds_ok v n w :
  check_nested_thresholds v n = Ok w <->
  w = v /\ exists rows, py_items v = Some (map List rows) /\ (forall r, In r rows -> row_ok n r).
Proof.
  unfold check_nested_thresholds. destruct (py_items v) as [l|].
  2:{ split; [discriminate|]. intros [_ [rows [H _]]]. discriminate. }
  destruct (as_rows l) as [rows|] eqn:Er.
  2:{ split; [discriminate|]. intros [_ [rows [H _]]]. injection H as ->.
      rewrite as_rows_map in Er. discriminate. }
  apply as_rows_some in Er. subst l.
  destruct (existsb _ rows) eqn:E1.
  { split; [discriminate|]. intros [_ [rows' [H Hr]]]. injection H as H. apply map_List_inj in H. subst rows'.
    apply existsb_exists in E1. destruct E1 as [r [Hin Hb]]. destruct (Hr r Hin) as [Hl [Hn _]].
    rewrite Hl, Nat.eqb_refl in Hb. simpl in Hb. destruct n; [lia|]. simpl in Hb. discriminate. }
  destruct (any_not_real (concat rows)) eqn:E2.
  { split; [discriminate|]. intros [_ [rows' [H Hr]]]. injection H as H. apply map_List_inj in H. subst rows'.
    assert (any_not_real (concat rows) = false) by (apply any_not_real_concat_false; intros r Hin; apply Hr; auto).
    congruence. }
  rewrite existsb_false_forall in E1. rewrite any_not_real_concat_false in E2.
  split.
  - intros H. injection H as <-. split; [reflexivity|]. exists rows. split; [reflexivity|].
    intros r Hin. specialize (E1 r Hin). specialize (E2 r Hin). apply orb_false_iff in E1. destruct E1 as [Ha Hb].
    apply negb_false_iff in Hb. apply Nat.eqb_eq in Hb. apply Nat.eqb_neq in Ha. unfold row_ok. repeat split; auto. lia.
  - intros [-> _]. reflexivity.
Qed.

(* ---------- broadcasting *)
Definition mkseq (tup : bool) (l : list pyval) : pyval := if tup then Tuple l else List l.
(* singletons are repeated n times, every other list is left as it is *)
Definition bcast (r : list pyval) (n : nat) : list pyval :=
  match r with [x] => repeat x n | _ => r end.

Lemma bcast_row_bcast r n : bcast_row r n = bcast r n.
Proof. apply bcast_row_spec. Qed.

Lemma py_items_mkseq tup l : py_items (mkseq tup l) = Some l.
Proof. destruct tup; reflexivity. Qed.

Lemma bcast_length r n : length r = 1 \/ length r = n -> length (bcast r n) = n.
Proof.
  intros [H|H].
  - apply length_one in H. destruct H as [x ->]. simpl. apply repeat_length.
  - destruct r as [|x [|y t]]; simpl in *; auto. subst n. reflexivity.
Qed.

Lemma bcast_all_real r n : all_real r = true -> all_real (bcast r n) = true.
Proof.
  destruct r as [|x [|y t]]; simpl; auto. intros H. apply all_real_repeat.
  apply andb_true_iff in H. tauto.
Qed.

Lemma bcast_all_real_inv r n : 1 <= n -> all_real (bcast r n) = true -> all_real r = true.
Proof.
  destruct r as [|x [|y t]]; simpl; auto. intros Hn H. destruct n; [lia|]. simpl in H.
  apply andb_true_iff in H. destruct H as [H _]. now rewrite H.
Qed.

Lemma bcast_idem r n : length r = n -> bcast r n = r.
Proof. destruct r as [|x [|y t]]; simpl; auto. intros <-. reflexivity. Qed.

(* ---------- flat *)
Lemma flat_seq_ok mk l n o :
  flat_seq mk l n = Ok o <->
  l <> [] /\ all_real l = true /\ (length l = 1 \/ length l = n) /\ o = mk (bcast l n).
Proof.
  unfold flat_seq. destruct (Nat.eqb (length l) 0) eqn:E0.
  { apply length_zero_nil in E0. split; [discriminate|]. intros [H _]. contradiction. }
  assert (Hne : l <> []) by (intros ->; simpl in E0; discriminate).
  destruct (any_not_real l) eqn:E1.
  { split; [discriminate|]. intros [_ [H _]]. apply any_not_real_false in H. congruence. }
  apply any_not_real_false in E1.
  destruct (Nat.eqb_spec (length l) 1) as [H1|H1]; simpl.
  { rewrite bcast_row_bcast. split.
    - intros H. injection H as <-. auto.
    - intros [_ [_ [_ ->]]]. reflexivity. }
  destruct (Nat.eqb_spec n (length l)) as [Hn|Hn]; simpl.
  { rewrite bcast_row_bcast. split.
    - intros H. injection H as <-. auto.
    - intros [_ [_ [_ ->]]]. reflexivity. }
  split; [discriminate|]. intros [_ [_ [[H|H] _]]]; congruence.
Qed.

Definition wellformed_flat (v : pyval) (n : nat) (w : pyval) : Prop :=
  (is_real v = true /\ w = List (repeat v n)) \/
  (exists tup l, v = mkseq tup l /\ l <> [] /\ all_real l = true /\
                 (length l = 1 \/ length l = n) /\ w = mkseq tup (bcast l n)).

Lemma flat_seq_set tup l n w :
  bind (flat_seq (mkseq tup) l n) (fun o => check_thresholds o n) = Ok w <->
  l <> [] /\ all_real l = true /\ (length l = 1 \/ length l = n) /\ w = mkseq tup (bcast l n).
Proof.
  destruct (flat_seq (mkseq tup) l n) as [o|e] eqn:E; simpl.
  - apply flat_seq_ok in E. destruct E as [Hne [Hr [Hl ->]]].
    rewrite check_thresholds_ok, py_items_mkseq. split.
    + intros [-> _]. auto.
    + intros [_ [_ [_ ->]]]. split; [reflexivity|]. exists (bcast l n).
      split; [reflexivity|]. split; [now apply bcast_all_real|now apply bcast_length].
  - split; [discriminate|]. intros [Hne [Hr [Hl ->]]].
    assert (flat_seq (mkseq tup) l n = Ok (mkseq tup (bcast l n))) by (apply flat_seq_ok; auto).
    congruence.
Qed.

Theorem flat_accepts_iff v n w :
  set_thresholds v n false = Ok w <-> wellformed_flat v n w.
Proof.
  unfold set_thresholds, wellformed_flat. destruct v as [q|b|s| |l|l].
  - simpl. rewrite check_thresholds_ok. simpl. split.
    + intros [-> _]. left. auto.
    + intros [[_ ->]|[tup [l [H _]]]]; [|destruct tup; discriminate].
      split; [reflexivity|]. exists (repeat (Num q) n). split; [reflexivity|].
      split; [now apply all_real_repeat|apply repeat_length].
  - simpl. rewrite check_thresholds_ok. simpl. split.
    + intros [-> _]. left. auto.
    + intros [[_ ->]|[tup [l [H _]]]]; [|destruct tup; discriminate].
      split; [reflexivity|]. exists (repeat (Bool b) n). split; [reflexivity|].
      split; [now apply all_real_repeat|apply repeat_length].
  - simpl. destruct (Nat.eqb (String.length s) 0); simpl; (split; [discriminate|]);
      (intros [[H _]|[tup [l [H _]]]]; [discriminate|destruct tup; discriminate]).
  - simpl. split; [discriminate|]. intros [[H _]|[tup [l [H _]]]]; [discriminate|destruct tup; discriminate].
  - change (get_thresholds (List l) n) with (flat_seq (mkseq false) l n). rewrite flat_seq_set. split.
    + intros H. right. exists false, l. tauto.
    + intros [[H _]|[tup [l' [H H']]]]; [discriminate|]. destruct tup; [discriminate|]. injection H as <-. exact H'.
  - change (get_thresholds (Tuple l) n) with (flat_seq (mkseq true) l n). rewrite flat_seq_set. split.
    + intros H. right. exists true, l. tauto.
    + intros [[H _]|[tup [l' [H H']]]]; [discriminate|]. destruct tup; [|discriminate]. injection H as <-. exact H'.
Qed.

(* ---------- nested *)
Definition wellformed_nested (v : pyval) (n : nat) (w : pyval) : Prop :=
  1 <= n /\
  ((is_real v = true /\ w = List [List (repeat v n)]) \/
   (exists tup l, v = mkseq tup l /\ l <> [] /\ all_real l = true /\ length l <> n /\
                  w = List (map (fun t => List (repeat t n)) l)) \/
   (exists l, v = List l /\ all_real l = true /\ length l = n /\ w = List [List l]) \/
   (exists tup rows, v = mkseq tup (map List rows) /\ rows <> [] /\
                     (forall r, In r rows -> all_real r = true /\ (length r = 1 \/ length r = n)) /\
                     w = List (map (fun r => List (bcast r n)) rows))).

Lemma all_real_head h t : all_real (h :: t) = true -> is_real h = true.
Proof. simpl. intros H. apply andb_true_iff in H. tauto. Qed.

Lemma nested_seq_ok v l n o :
  nested_seq v l n = Ok o <->
  l <> [] /\
  ((all_real l = true /\
    o = List (if negb (Nat.eqb (length l) n) then map (fun t => List (repeat t n)) l else [v])) \/
   (exists rows, l = map List rows /\ (forall r, In r rows -> length r = n \/ length r = 1) /\
                 o = List (map (fun r => List (bcast r n)) rows))).
Proof.
  unfold nested_seq. destruct l as [|h t].
  { split; [discriminate|]. intros [H _]. contradiction. }
  destruct (is_real h) eqn:Eh.
  - destruct (any_not_real (h :: t)) eqn:E1.
    + split; [discriminate|]. intros [_ [[H _]|[rows [H _]]]].
      * apply any_not_real_false in H. congruence.
      * destruct rows; [discriminate|]. simpl in H. injection H as -> _. discriminate.
    + apply any_not_real_false in E1. split.
      * intros H. injection H as <-. split; [discriminate|]. left. auto.
      * intros [_ [[_ ->]|[rows [H _]]]]; [reflexivity|].
        destruct rows; [discriminate|]. simpl in H. injection H as -> _. discriminate.
  - destruct (as_rows (h :: t)) as [rows|] eqn:Er.
    + apply as_rows_some in Er.
      destruct (existsb _ rows) eqn:E2.
      * split; [discriminate|]. intros [_ [[H _]|[rows' [H [Hl _]]]]].
        { apply all_real_head in H. congruence. }
        rewrite Er in H. apply map_List_inj in H. subst rows'.
        apply existsb_exists in E2. destruct E2 as [r [Hin Hb]]. apply andb_true_iff in Hb.
        destruct Hb as [Ha Hb]. apply negb_true_iff, Nat.eqb_neq in Ha. apply negb_true_iff, Nat.eqb_neq in Hb.
        destruct (Hl r Hin); contradiction.
      * rewrite existsb_false_forall in E2. split.
        { intros H. injection H as <-. split; [discriminate|]. right. exists rows. split; [exact Er|]. split.
          - intros r Hin. specialize (E2 r Hin). apply andb_false_iff in E2.
            destruct E2 as [E2|E2]; apply negb_false_iff, Nat.eqb_eq in E2; auto.
          - f_equal. apply map_ext. intros r. now rewrite bcast_row_bcast. }
        { intros [_ [[H _]|[rows' [H [_ ->]]]]].
          - apply all_real_head in H. congruence.
          - rewrite Er in H. apply map_List_inj in H. subst rows'. f_equal. f_equal.
            apply map_ext. intros r. now rewrite bcast_row_bcast. }
    + split; [discriminate|]. intros [_ [[H _]|[rows' [H _]]]].
      * apply all_real_head in H. congruence.
      * rewrite H, as_rows_map in Er. discriminate.
Qed.

Lemma map_eq_nil_iff {A B} (f : A -> B) l : map f l = [] <-> l = [].
Proof. destruct l; simpl; split; intros; try reflexivity; discriminate. Qed.

Lemma nested_seq_set tup l n w :
  bind (nested_seq (mkseq tup l) l n) (fun o => check_nested_thresholds o n) = Ok w <->
  1 <= n /\ l <> [] /\
  ((all_real l = true /\ length l <> n /\ w = List (map (fun t => List (repeat t n)) l)) \/
   (all_real l = true /\ length l = n /\ tup = false /\ w = List [List l]) \/
   (exists rows, l = map List rows /\
                 (forall r, In r rows -> all_real r = true /\ (length r = 1 \/ length r = n)) /\
                 w = List (map (fun r => List (bcast r n)) rows))).
Proof.
  destruct (nested_seq (mkseq tup l) l n) as [o|e] eqn:E; simpl.
  - apply nested_seq_ok in E. destruct E as [Hne [[Hr ->]|[rows [-> [Hl ->]]]]].
    + (* a list of values *)
      destruct (Nat.eqb_spec (length l) n) as [Hn|Hn]; simpl.
      * (* the list is one row *)
        rewrite check_nested_thresholds_ok. simpl. split.
        { intros [-> [rows [H Hok]]]. injection H as H. destruct rows as [|r [|r' rs]]; try discriminate.
          simpl in H. injection H as H. destruct tup; [discriminate|]. simpl in H. injection H as <-.
          destruct (Hok l (or_introl eq_refl)) as [_ [H1 _]]. split; [exact H1|]. split; [exact Hne|].
          right; left. auto. }
        { intros [H1 [_ [[_ [Hc _]]|[[_ [_ [-> ->]]]|[rows [Hm [Hrr _]]]]]]]; [contradiction| |].
          - split; [reflexivity|]. exists [l]. split; [reflexivity|]. intros r [<-|[]]. unfold row_ok. auto.
          - exfalso. subst l. destruct rows as [|r rs]; [contradiction|]. simpl in Hr. discriminate. }
      * (* one row per value *)
        rewrite check_nested_thresholds_ok. simpl. split.
        { intros [-> [rows [H Hok]]]. injection H as H.
          assert (Hn1 : 1 <= n).
          { destruct l as [|x t]; [contradiction|]. destruct rows as [|r rs]; [discriminate|].
            destruct (Hok r (or_introl eq_refl)) as [_ [H1 _]]. exact H1. }
          split; [exact Hn1|]. split; [exact Hne|]. left. auto. }
        { intros [H1 [_ [[_ [_ ->]]|[[_ [Hc _]]|[rows [Hm [Hrr _]]]]]]]; [| contradiction |].
          - split; [reflexivity|]. exists (map (fun t => repeat t n) l). split; [now rewrite map_map|].
            intros r Hin. apply in_map_iff in Hin. destruct Hin as [t [<- Hin]]. unfold row_ok.
            split; [apply repeat_length|]. split; [exact H1|]. apply all_real_repeat.
            apply (proj1 (all_real_In l) Hr t Hin).
          - exfalso. subst l. destruct rows as [|r rs]; [contradiction|]. simpl in Hr. discriminate. }
    + (* a list of rows *)
      rewrite check_nested_thresholds_ok. simpl.
      assert (Hrows : rows <> []) by (intros ->; contradiction).
      split.
      { intros [-> [rows' [H Hok]]]. injection H as H. rewrite <- (map_map (fun r => bcast r n) List) in H.
        apply map_List_inj in H. subst rows'.
        assert (Hn1 : 1 <= n).
        { destruct rows as [|r rs]; [contradiction|].
          destruct (Hok (bcast r n) (or_introl eq_refl)) as [_ [H1 _]]. exact H1. }
        split; [exact Hn1|]. split; [exact Hne|]. right; right. exists rows. split; [reflexivity|]. split; [|reflexivity].
        intros r Hin. split.
        - apply (bcast_all_real_inv r n Hn1). apply (Hok (bcast r n)). apply (in_map (fun r0 => bcast r0 n)). exact Hin.
        - destruct (Hl r Hin); auto. }
      { intros [H1 [_ [[Hc _]|[[Hc _]|[rows' [Hm [Hrr ->]]]]]]].
        - exfalso. destruct rows as [|r rs]; [contradiction|]. simpl in Hc. discriminate.
        - exfalso. destruct rows as [|r rs]; [contradiction|]. simpl in Hc. discriminate.
        - apply map_List_inj in Hm. subst rows'. split; [reflexivity|]. exists (map (fun r => bcast r n) rows).
          split; [now rewrite map_map|]. intros r Hin. apply in_map_iff in Hin. destruct Hin as [r0 [<- Hin]].
          destruct (Hrr r0 Hin) as [Ha Hb]. unfold row_ok. split; [now apply bcast_length|]. split; [exact H1|].
          now apply bcast_all_real. }
  - split; [discriminate|]. intros [H1 [Hne Hcases]].
    assert (exists o, nested_seq (mkseq tup l) l n = Ok o) as [o Ho]; [|congruence].
    destruct Hcases as [[Hr [Hn ->]]|[[Hr [Hn [-> ->]]]|[rows [-> [Hrr ->]]]]].
    + eexists. apply nested_seq_ok. split; [exact Hne|]. left. split; [exact Hr|reflexivity].
    + eexists. apply nested_seq_ok. split; [exact Hne|]. left. split; [exact Hr|reflexivity].
    + eexists. apply nested_seq_ok. split; [exact Hne|]. right. exists rows. split; [reflexivity|].
      split; [|reflexivity]. intros r Hin. destruct (Hrr r Hin) as [_ [H|H]]; auto.
Qed.

Theorem nested_accepts_iff v n w :
  set_thresholds v n true = Ok w <-> wellformed_nested v n w.
Proof.
  unfold set_thresholds, wellformed_nested. destruct v as [q|b|s| |l|l].
  - simpl. rewrite check_nested_thresholds_ok. simpl. split.
    + intros [-> [rows [H Hok]]]. injection H as H. destruct rows as [|r [|r' rs]]; try discriminate.
      destruct (Hok r (or_introl eq_refl)) as [_ [H1 _]]. split; [exact H1|]. left. auto.
    + intros [H1 [[_ ->]|[[tup [l [H _]]]|[[l [H _]]|[tup [rows [H _]]]]]]]; try discriminate; try (destruct tup; discriminate).
      split; [reflexivity|]. exists [repeat (Num q) n]. split; [reflexivity|]. intros r [<-|[]].
      unfold row_ok. split; [apply repeat_length|]. split; [exact H1|]. now apply all_real_repeat.
  - simpl. rewrite check_nested_thresholds_ok. simpl. split.
    + intros [-> [rows [H Hok]]]. injection H as H. destruct rows as [|r [|r' rs]]; try discriminate.
      destruct (Hok r (or_introl eq_refl)) as [_ [H1 _]]. split; [exact H1|]. left. auto.
    + intros [H1 [[_ ->]|[[tup [l [H _]]]|[[l [H _]]|[tup [rows [H _]]]]]]]; try discriminate; try (destruct tup; discriminate).
      split; [reflexivity|]. exists [repeat (Bool b) n]. split; [reflexivity|]. intros r [<-|[]].
      unfold row_ok. split; [apply repeat_length|]. split; [exact H1|]. now apply all_real_repeat.
  - simpl. destruct (Nat.eqb (String.length s) 0); simpl; (split; [discriminate|]);
      (intros [_ [[H _]|[[tup [l [H _]]]|[[l [H _]]|[tup [rows [H _]]]]]]]; try discriminate; destruct tup; discriminate).
  - simpl. split; [discriminate|].
    intros [_ [[H _]|[[tup [l [H _]]]|[[l [H _]]|[tup [rows [H _]]]]]]]; try discriminate; destruct tup; discriminate.
  - change (get_nested_thresholds (List l) n) with (nested_seq (mkseq false l) l n). rewrite nested_seq_set. split.
    + intros [H1 [Hne [[Hr [Hn ->]]|[[Hr [Hn [_ ->]]]|[rows [-> [Hrr ->]]]]]]]; (split; [exact H1|]).
      * right; left. exists false, l. auto.
      * right; right; left. exists l. auto.
      * right; right; right. exists false, rows. split; [reflexivity|]. split; [|auto]. intros ->. contradiction.
    + intros [H1 [[H _]|[[tup [l' [H [Hne [Hr [Hn ->]]]]]]|[[l' [H [Hr [Hn ->]]]]|[tup [rows [H [Hne [Hrr ->]]]]]]]]]; [discriminate| | |].
      * destruct tup; [discriminate|]. injection H as <-. split; [exact H1|]. split; [exact Hne|]. left. auto.
      * injection H as <-. split; [exact H1|]. split; [|right; left; auto]. intros ->. simpl in Hn. lia.
      * destruct tup; [discriminate|]. injection H as ->. split; [exact H1|].
        split; [intros Hc; apply map_eq_nil_iff in Hc; contradiction|]. right; right. exists rows. auto.
  - change (get_nested_thresholds (Tuple l) n) with (nested_seq (mkseq true l) l n). rewrite nested_seq_set. split.
    + intros [H1 [Hne [[Hr [Hn ->]]|[[Hr [Hn [Hc _]]]|[rows [-> [Hrr ->]]]]]]]; try discriminate; (split; [exact H1|]).
      * right; left. exists true, l. auto.
      * right; right; right. exists true, rows. split; [reflexivity|]. split; [|auto]. intros ->. contradiction.
    + intros [H1 [[H _]|[[tup [l' [H [Hne [Hr [Hn ->]]]]]]|[[l' [H _]]|[tup [rows [H [Hne [Hrr ->]]]]]]]]]; try discriminate.
      * destruct tup; [|discriminate]. injection H as <-. split; [exact H1|]. split; [exact Hne|]. left. auto.
      * destruct tup; [|discriminate]. injection H as ->. split; [exact H1|].
        split; [intros Hc; apply map_eq_nil_iff in Hc; contradiction|]. right; right. exists rows. auto.
Qed.

(* ---------- consequences *)
Definition normal_flat (n : nat) (w : pyval) : Prop :=
  exists tup l, w = mkseq tup l /\ length l = n /\ all_real l = true.

Definition normal_nested (n : nat) (w : pyval) : Prop :=
  exists rows, w = List (map List rows) /\ rows <> [] /\
               (forall r, In r rows -> length r = n /\ all_real r = true).

Theorem set_thresholds_shape_flat v n w :
  set_thresholds v n false = Ok w -> normal_flat n w.
Proof.
  intros H. apply flat_accepts_iff in H. destruct H as [[Hr ->]|[tup [l [-> [Hne [Hr [Hl ->]]]]]]].
  - exists false, (repeat v n). split; [reflexivity|]. split; [apply repeat_length|now apply all_real_repeat].
  - exists tup, (bcast l n). split; [reflexivity|]. split; [now apply bcast_length|now apply bcast_all_real].
Qed.

(* a tuple comes out only if a tuple went in *)
Theorem set_thresholds_flat_list v n w :
  set_thresholds v n false = Ok w -> (forall l, v <> Tuple l) -> exists l, w = List l.
Proof.
  intros H Hv. apply flat_accepts_iff in H. destruct H as [[Hr ->]|[tup [l [-> [Hne [Hr [Hl ->]]]]]]].
  - eexists; reflexivity.
  - destruct tup; [exfalso; apply (Hv l); reflexivity|]. eexists; reflexivity.
Qed.

Theorem set_thresholds_shape_nested v n w :
  set_thresholds v n true = Ok w -> 1 <= n /\ normal_nested n w.
Proof.
  intros H. apply nested_accepts_iff in H. destruct H as [H1 H]. split; [exact H1|].
  destruct H as [[Hr ->]|[[tup [l [-> [Hne [Hr [Hl ->]]]]]]|[[l [-> [Hr [Hl ->]]]]|[tup [rows [-> [Hne [Hrr ->]]]]]]]].
  - exists [repeat v n]. split; [reflexivity|]. split; [discriminate|]. intros r [<-|[]].
    split; [apply repeat_length|now apply all_real_repeat].
  - exists (map (fun t => repeat t n) l). split; [now rewrite map_map|]. split.
    + intros Hc. apply map_eq_nil_iff in Hc. contradiction.
    + intros r Hin. apply in_map_iff in Hin. destruct Hin as [t [<- Hin]].
      split; [apply repeat_length|]. apply all_real_repeat. apply (proj1 (all_real_In l) Hr t Hin).
  - exists [l]. split; [reflexivity|]. split; [discriminate|]. intros r [<-|[]]. auto.
  - exists (map (fun r => bcast r n) rows). split; [now rewrite map_map|]. split.
    + intros Hc. apply map_eq_nil_iff in Hc. contradiction.
    + intros r Hin. apply in_map_iff in Hin. destruct Hin as [r0 [<- Hin]]. destruct (Hrr r0 Hin) as [Ha Hb].
      split; [now apply bcast_length|now apply bcast_all_real].
Qed.

(* normal forms are fixed points (n >= 1) *)
Theorem normal_flat_fixed n w : 1 <= n -> normal_flat n w -> set_thresholds w n false = Ok w.
Proof.
  intros H1 [tup [l [-> [Hl Hr]]]]. apply flat_accepts_iff. right. exists tup, l.
  split; [reflexivity|]. split; [intros ->; simpl in Hl; lia|]. split; [exact Hr|]. split; [auto|].
  now rewrite bcast_idem.
Qed.

Theorem normal_nested_fixed n w : 1 <= n -> normal_nested n w -> set_thresholds w n true = Ok w.
Proof.
  intros H1 [rows [-> [Hne Hrr]]]. apply nested_accepts_iff. split; [exact H1|]. right; right; right.
  exists false, rows. split; [reflexivity|]. split; [exact Hne|]. split.
  - intros r Hin. destruct (Hrr r Hin). auto.
  - f_equal. apply map_ext_in. intros r Hin. destruct (Hrr r Hin) as [Hl _]. now rewrite bcast_idem.
Qed.

Theorem set_thresholds_idempotent v n nest w :
  1 <= n -> set_thresholds v n nest = Ok w -> set_thresholds w n nest = Ok w.
Proof.
  intros H1 H. destruct nest.
  - apply normal_nested_fixed; [exact H1|]. apply (set_thresholds_shape_nested v n w H).
  - apply normal_flat_fixed; [exact H1|]. apply (set_thresholds_shape_flat v n w H).
Qed.

(* with zero target labels (never produced by a configuration: set_target_lists maps an empty
   selection to all labels) nothing nested is accepted, and the flat normal form [] is itself rejected *)
Theorem zero_labels_nested v w : set_thresholds v 0 true <> Ok w.
Proof. intros H. apply set_thresholds_shape_nested in H. destruct H as [H _]. lia. Qed.

Theorem zero_labels_flat_not_idempotent :
  set_thresholds (Num 1) 0 false = Ok (List []) /\ set_thresholds (List []) 0 false = Err ThresholdError.
Proof. split; reflexivity. Qed.

Theorem broadcast_scalar_singleton x n :
  is_real x = true ->
  set_thresholds x n false = Ok (List (repeat x n)) /\
  set_thresholds (List [x]) n false = Ok (List (repeat x n)) /\
  (1 <= n ->
   set_thresholds x n true = Ok (List [List (repeat x n)]) /\
   set_thresholds (List [x]) n true = Ok (List [List (repeat x n)]) /\
   set_thresholds (List [List [x]]) n true = Ok (List [List (repeat x n)])).
Proof.
  intros Hx. split; [|split].
  - apply flat_accepts_iff. left. auto.
  - apply flat_accepts_iff. right. exists false, [x]. simpl. rewrite Hx. repeat split; auto. discriminate.
  - intros H1. split; [|split].
    + apply nested_accepts_iff. split; [exact H1|]. left. auto.
    + apply nested_accepts_iff. split; [exact H1|]. destruct (Nat.eq_dec n 1) as [->|Hn].
      * right; right; left. exists [x]. simpl. rewrite Hx. auto.
      * right; left. exists false, [x]. simpl. rewrite Hx. repeat split; auto. discriminate.
    + apply nested_accepts_iff. split; [exact H1|]. right; right; right. exists false, [[x]].
      split; [reflexivity|]. split; [discriminate|]. split; [|reflexivity].
      intros r [<-|[]]. simpl. rewrite Hx. auto.
Qed.

(* a flat list of k values (k <> n) given where a nested one is expected: one constant row per value *)
Theorem broadcast_value_list l n :
  l <> [] -> all_real l = true -> length l <> n -> 1 <= n ->
  set_thresholds (List l) n true = Ok (List (map (fun t => List (repeat t n)) l)).
Proof.
  intros Hne Hr Hl H1. apply nested_accepts_iff. split; [exact H1|]. right; left. exists false, l. auto.
Qed.

(* ---------- rejection: an error, never a padded / truncated / partially numeric result *)
Definition rejected (r : res pyval) : Prop := exists e, r = Err e.

Lemma not_ok_rejected (r : res pyval) : (forall w, r <> Ok w) -> rejected r.
Proof. destruct r as [w|e]; intros H; [exfalso; apply (H w); reflexivity|now exists e]. Qed.

Lemma mkseq_inj tup tup' l l' : mkseq tup l = mkseq tup' l' -> l = l'.
Proof. destruct tup, tup'; simpl; intros H; try discriminate; now injection H. Qed.

Theorem flat_rejects_wrong_length tup l n :
  length l <> 1 -> length l <> n -> rejected (set_thresholds (mkseq tup l) n false).
Proof.
  intros H1 Hn. apply not_ok_rejected. intros w H. apply flat_accepts_iff in H.
  destruct H as [[Hr _]|[tup' [l' [Hv [_ [_ [[Hl|Hl] _]]]]]]].
  - destruct tup; discriminate.
  - apply mkseq_inj in Hv. subst l'. contradiction.
  - apply mkseq_inj in Hv. subst l'. contradiction.
Qed.

Theorem flat_rejects_non_numeric tup l n :
  all_real l = false -> rejected (set_thresholds (mkseq tup l) n false).
Proof.
  intros Hf. apply not_ok_rejected. intros w H. apply flat_accepts_iff in H.
  destruct H as [[Hr _]|[tup' [l' [Hv [_ [Hr _]]]]]].
  - destruct tup; discriminate.
  - apply mkseq_inj in Hv. subst l'. congruence.
Qed.

Theorem flat_rejects_empty_str_none n s :
  rejected (set_thresholds (List []) n false) /\ rejected (set_thresholds (Tuple []) n false) /\
  rejected (set_thresholds (Str s) n false) /\ rejected (set_thresholds NoneV n false).
Proof.
  repeat split; try (eexists; reflexivity).
  unfold set_thresholds. simpl. destruct (Nat.eqb (String.length s) 0); eexists; reflexivity.
Qed.

(* nested: a row that is neither a singleton nor of length n, or that holds a non-number, or an
   entry that is not a list among lists (or a list among numbers) *)
Theorem nested_rejects_bad_row tup rows r n :
  In r rows -> (length r <> 1 /\ length r <> n) \/ all_real r = false ->
  rejected (set_thresholds (mkseq tup (map List rows)) n true).
Proof.
  intros Hin Hbad. apply not_ok_rejected. intros w H. apply nested_accepts_iff in H. destruct H as [H1 H].
  assert (Hhd : forall l, map List rows = l -> all_real l = true -> False).
  { intros l <- Hr. destruct rows as [|r0 rs]; [destruct Hin|]. simpl in Hr. discriminate. }
  destruct H as [[Hr _]|[[tup' [l [Hv [_ [Hr _]]]]]|[[l [Hv [Hr _]]]|[tup' [rows' [Hv [_ [Hrr _]]]]]]]].
  - destruct tup; discriminate.
  - apply mkseq_inj in Hv. apply (Hhd l Hv Hr).
  - change (List l) with (mkseq false l) in Hv. apply mkseq_inj in Hv. apply (Hhd l Hv Hr).
  - apply mkseq_inj in Hv. apply map_List_inj in Hv. subst rows'. destruct (Hrr r Hin) as [Ha Hb].
    destruct Hbad as [[Hb1 Hbn]|Hf]; [destruct Hb; contradiction|congruence].
Qed.

Theorem nested_rejects_mixed tup l n :
  (exists x, In x l /\ is_real x = false) -> (exists y, In y l /\ is_list y = false) ->
  rejected (set_thresholds (mkseq tup l) n true).
Proof.
  intros [x [Hx Hxr]] [y [Hy Hyl]]. apply not_ok_rejected. intros w H. apply nested_accepts_iff in H.
  destruct H as [H1 H].
  destruct H as [[Hr _]|[[tup' [l' [Hv [_ [Hr _]]]]]|[[l' [Hv [Hr _]]]|[tup' [rows' [Hv _]]]]]].
  - destruct tup; discriminate.
  - apply mkseq_inj in Hv. subst l'. rewrite (proj1 (all_real_In l) Hr x Hx) in Hxr. discriminate.
  - change (List l') with (mkseq false l') in Hv. apply mkseq_inj in Hv. subst l'.
    rewrite (proj1 (all_real_In l) Hr x Hx) in Hxr. discriminate.
  - apply mkseq_inj in Hv. subst l. apply in_map_iff in Hy. destruct Hy as [r [<- _]]. discriminate.
Qed.

Theorem nested_rejects_empty_str_none n s :
  rejected (set_thresholds (List []) n true) /\ rejected (set_thresholds (Tuple []) n true) /\
  rejected (set_thresholds (Str s) n true) /\ rejected (set_thresholds NoneV n true).
Proof.
  repeat split; try (eexists; reflexivity).
  unfold set_thresholds. simpl. destruct (Nat.eqb (String.length s) 0); eexists; reflexivity.
Qed.

(* ---------- get_label_threshold on a normalised list never fails *)
Lemma index_of_lt x l i : index_of x l = Some i -> i < length l.
Proof.
  revert i. induction l as [|y t IH]; simpl; intros i H; [discriminate|].
  destruct (String.eqb y x); [injection H as <-; lia|].
  destruct (index_of x t) as [j|]; [|discriminate]. injection H as <-. specialize (IH j eq_refl). lia.
Qed.

Lemma index_of_In x l : In x l -> exists i, index_of x l = Some i.
Proof.
  induction l as [|y t IH]; simpl; intros H; [destruct H|].
  destruct (String.eqb_spec y x) as [E|E]; [now exists 0|].
  destruct H as [H|H]; [contradiction|]. destruct (IH H) as [i ->]. now exists (S i).
Qed.

Theorem label_threshold_total {A} label ts (th : list A) :
  length th = length ts ->
  get_label_threshold label (Some ts) (Some th) <> IndexErr /\
  (In label ts -> exists a, get_label_threshold label (Some ts) (Some th) = Found a /\ In a th).
Proof.
  intros Hl. unfold get_label_threshold. split.
  - destruct (index_of label ts) as [i|] eqn:E; [|discriminate].
    apply index_of_lt in E. rewrite <- Hl in E. apply nth_error_Some in E.
    destruct (nth_error th i); [discriminate|contradiction].
  - intros Hin. destruct (index_of_In label ts Hin) as [i E]. rewrite E.
    apply index_of_lt in E. rewrite <- Hl in E. apply nth_error_Some in E.
    destruct (nth_error th i) as [a|] eqn:En; [|contradiction]. exists a. split; [reflexivity|].
    eapply nth_error_In; eauto.
Qed.
