(* Proofs about Model/Analyzer.v (C19), second part: get_area_idx on the generated areas (I), get_object_status (J),
   complements to the summaries and rates (K).  First part: Proofs/AnalyzerProofs.v. *)
From Coq Require Import List Bool ZArith Arith Lia Permutation.
From PE Require Import Base.QUtil Model.Analyzer Proofs.AnalyzerProofs.
Import ListNotations.
Open Scope Q_scope.

(* ========================================================================================== *)
(* I. get_area_idx on the areas of generate_area_points                                        *)
(* ========================================================================================== *)
(* the thirds of (-M, M), numbered from the top: band 0 = (M/3, M), band 1 = (-M/3, M/3), band 2 = (-M, -M/3) *)
Definition in_band (M : Q) (k : nat) (v : Q) : Prop :=
  match k with
  | 0%nat => M / 3 < v /\ v < M
  | 1%nat => - (M / 3) < v /\ v < M / 3
  | 2%nat => - M < v /\ v < - (M / 3)
  | _ => False
  end.

Definition whole (M v : Q) : bool := Qltb (- M) v && Qltb v M.

Definition band (M v : Q) : option nat :=
  if Qltb (M / 3) v && Qltb v M then Some 0%nat
  else if Qltb (- (M / 3)) v && Qltb v (M / 3) then Some 1%nat
  else if Qltb (- M) v && Qltb v (- (M / 3)) then Some 2%nat
  else None.

(* the documented result: 3 * (y band) + (x band) for 9 areas, the x band for 3, 0 for 1 *)
Definition area_spec (n : nat) (mx my x y : Q) : area_res :=
  match n with
  | 1%nat => if whole mx x && whole my y then AOne 0 else ANone
  | 3%nat => match band mx x with Some i => if whole my y then AOne i else ANone | None => ANone end
  | 9%nat => match band mx x, band my y with Some i, Some j => AOne (3 * j + i) | _, _ => ANone end
  | _ => ANone
  end.

Lemma band_cases : forall M v, band M v = Some 0%nat \/ band M v = Some 1%nat \/ band M v = Some 2%nat \/ band M v = None.
Proof.
  intros. unfold band.
  destruct (Qltb (M / 3) v && Qltb v M); [now left|].
  destruct (Qltb (- (M / 3)) v && Qltb v (M / 3)); [now right; left|].
  destruct (Qltb (- M) v && Qltb v (- (M / 3))); [now right; right; left|now right; right; right].
Qed.

Lemma third : forall a, 3 * (a / 3) == a.
Proof. intros. field. Qed.

Lemma band_spec : forall M v k, band M v = Some k <-> in_band M k v.
Proof.
  intros M v k. unfold band. pose proof (third M) as T3.
  destruct (Qltb_spec (M / 3) v), (Qltb_spec v M), (Qltb_spec (- (M / 3)) v), (Qltb_spec v (M / 3)),
    (Qltb_spec (- M) v), (Qltb_spec v (- (M / 3))); cbn [andb];
    destruct k as [|[|[|k]]]; unfold in_band;
    (split; [intros H; try discriminate H; try (exfalso; lra); try (split; lra)
            |intros H; try contradiction; try destruct H as [H1 H2]; try reflexivity; exfalso; lra]).
Qed.

Lemma in_band_unique : forall M v i j, in_band M i v -> in_band M j v -> i = j.
Proof. intros M v i j Hi Hj. apply band_spec in Hi, Hj. congruence. Qed.

Lemma in_band_lt3 : forall M v k, in_band M k v -> (k < 3)%nat.
Proof. intros M v [|[|[|k]]] H; try lia. contradiction. Qed.

(* with 0 < M: in no band = outside (-M, M) or on one of the two inner grid lines *)
Lemma no_band_iff : forall M v, 0 < M ->
  ((forall k, ~ in_band M k v) <-> (~ (- M < v /\ v < M) \/ v == M / 3 \/ v == - (M / 3))).
Proof.
  intros M v HM. pose proof (third M) as T3. split.
  - intros H. destruct (Qlt_le_dec (- M) v) as [A|A]; [|left; intros [B C]; lra].
    destruct (Qlt_le_dec v M) as [B|B]; [|left; intros [C D]; lra].
    destruct (Q_dec v (M / 3)) as [[C|C]|C]; [| |now right; left].
    + destruct (Q_dec v (- (M / 3))) as [[D|D]|D]; [| |now right; right].
      * exfalso. apply (H 2%nat). split; lra.
      * exfalso. apply (H 1%nat). split; lra.
    + exfalso. apply (H 0%nat). split; lra.
  - intros H [|[|[|k]]] Hb; unfold in_band in Hb; [| | |exact Hb]; destruct Hb as [B1 B2];
      (destruct H as [H|[H|H]]; [apply H; split; lra|lra|lra]).
Qed.

(* ---- where_inside as the indices of the true entries of a boolean list *)
Fixpoint idxs (k : nat) (bs : list bool) : list nat :=
  match bs with
  | [] => []
  | b :: t => if b then k :: idxs (S k) t else idxs (S k) t
  end.

Lemma where_inside_idxs : forall areas k x y, where_inside k areas x y = idxs k (map (inside x y) areas).
Proof. induction areas as [|a t IH]; intros; simpl; [reflexivity|]. now rewrite IH. Qed.

Lemma idxs_app : forall a b k, idxs k (a ++ b) = idxs k a ++ idxs (k + List.length a) b.
Proof.
  induction a as [|x a IH]; intros b k; simpl; [now rewrite Nat.add_0_r|].
  rewrite IH. replace (S k + List.length a)%nat with (k + S (List.length a))%nat by lia. now destruct x.
Qed.

Lemma idxs_and : forall (b : bool) l k, idxs k (map (fun a => a && b) l) = if b then idxs k l else [].
Proof.
  intros b l. induction l as [|a l IH]; intros k; simpl; [now destruct b|].
  rewrite IH. destruct b; [now rewrite andb_true_r|now rewrite andb_false_r].
Qed.

(* the three x intervals / y intervals of the model's generate_area_points *)
Definition hi3 (M : Q) : list Q := arange3 M (- (2 * M / 3)).
Definition lo3 (M : Q) : list Q := rev (arange3 (- M) (2 * M / 3)).

Definition bis (M v : Q) (k : nat) : bool := match band M v with Some i => Nat.eqb i k | None => false end.

Lemma band_bools_x : forall M v,
  map (fun hl : Q * Q => Qltb v (fst hl) && Qltb (snd hl) v) (combine (hi3 M) (lo3 M)) = [bis M v 0; bis M v 1; bis M v 2].
Proof.
  intros M v. unfold hi3, lo3, arange3. cbn [rev app combine map fst snd].
  pose proof (third M) as T3. pose proof (third (2 * M)) as T6.
  assert (E1 : Qltb (- M + 2 * (2 * M / 3)) v = Qltb (M / 3) v) by (apply Qltb_proper; [lra|reflexivity]).
  assert (E2 : Qltb v (M + 1 * - (2 * M / 3)) = Qltb v (M / 3)) by (apply Qltb_proper; [reflexivity|lra]).
  assert (E3 : Qltb (- M + 1 * (2 * M / 3)) v = Qltb (- (M / 3)) v) by (apply Qltb_proper; [lra|reflexivity]).
  assert (E4 : Qltb v (M + 2 * - (2 * M / 3)) = Qltb v (- (M / 3))) by (apply Qltb_proper; [reflexivity|lra]).
  rewrite E1, E2, E3, E4. unfold bis, band.
  destruct (Qltb_spec (M / 3) v), (Qltb_spec v M), (Qltb_spec (- (M / 3)) v), (Qltb_spec v (M / 3)),
    (Qltb_spec (- M) v), (Qltb_spec v (- (M / 3))); cbn [andb Nat.eqb]; first [reflexivity|exfalso; lra].
Qed.

Lemma band_bools_y : forall M v,
  map (fun lh : Q * Q => Qltb (fst lh) v && Qltb v (snd lh)) (combine (lo3 M) (hi3 M)) = [bis M v 0; bis M v 1; bis M v 2].
Proof.
  intros M v. rewrite <- band_bools_x. unfold hi3, lo3, arange3. cbn [rev app combine map fst snd].
  repeat (f_equal; try apply andb_comm).
Qed.

Lemma inside_eq : forall x y rx ry lx ly,
  inside x y ((rx, ry), (lx, ly)) = (Qltb x rx && Qltb lx x) && (Qltb ry y && Qltb y ly).
Proof. reflexivity. Qed.

Lemma map_flat_map : forall A B C (f : B -> C) (g : A -> list B) l, map f (flat_map g l) = flat_map (fun a => map f (g a)) l.
Proof. induction l as [|a l IH]; simpl; [reflexivity|]. now rewrite map_app, IH. Qed.

Lemma Some_inj : forall A (a b : A), Some a = Some b -> a = b.
Proof. intros A a b H. now injection H. Qed.

Definition areas1 (mx my : Q) : list Area := [((mx, - my), (- mx, my))].
Definition areas3 (mx my : Q) : list Area :=
  map (fun rl : Q * Q => ((fst rl, - my), (snd rl, my))) (combine (hi3 mx) (lo3 mx)).
Definition areas9 (mx my : Q) : list Area :=
  flat_map (fun yy : Q * Q => map (fun xx : Q * Q => ((fst xx, fst yy), (snd xx, snd yy))) (combine (hi3 mx) (lo3 mx)))
           (combine (lo3 my) (hi3 my)).

Lemma generate_area_points_eq : forall n mx my,
  generate_area_points n mx my =
    if Nat.eqb n 1 then Some (areas1 mx my) else if Nat.eqb n 3 then Some (areas3 mx my)
    else if Nat.eqb n 9 then Some (areas9 mx my) else None.
Proof. intros n mx my. destruct n as [|[|[|[|[|[|[|[|[|[|n]]]]]]]]]]; reflexivity. Qed.

Lemma area_idx_1 : forall mx my x y, get_area_idx (areas1 mx my) x y = area_spec 1 mx my x y.
Proof.
  intros. unfold get_area_idx, areas1. rewrite where_inside_idxs.
  cbn [map idxs area_spec]. rewrite inside_eq. unfold whole.
  destruct (Qltb x mx), (Qltb (- mx) x), (Qltb (- my) y), (Qltb y my); reflexivity.
Qed.

Lemma area_idx_3 : forall mx my x y, get_area_idx (areas3 mx my) x y = area_spec 3 mx my x y.
Proof.
  intros. unfold get_area_idx, areas3. rewrite where_inside_idxs.
  rewrite map_map.
  rewrite (map_ext _ (fun rl : Q * Q => (Qltb x (fst rl) && Qltb (snd rl) x) && whole my y)) by (intros [r l]; reflexivity).
  rewrite <- (map_map (fun rl : Q * Q => Qltb x (fst rl) && Qltb (snd rl) x) (fun a => a && whole my y)).
  rewrite idxs_and, band_bools_x. unfold area_spec, bis.
  destruct (whole my y); destruct (band_cases mx x) as [E|[E|[E|E]]]; rewrite E; reflexivity.
Qed.

Lemma area_idx_9 : forall mx my x y, get_area_idx (areas9 mx my) x y = area_spec 9 mx my x y.
Proof.
  intros. unfold get_area_idx, areas9. rewrite where_inside_idxs.
  rewrite map_flat_map.
  rewrite (flat_map_ext' _ _ _ (fun yy : Q * Q => map (fun a => a && (Qltb (fst yy) y && Qltb y (snd yy)))
                                  (map (fun hl : Q * Q => Qltb x (fst hl) && Qltb (snd hl) x) (combine (hi3 mx) (lo3 mx)))))
    by (intros [r l]; rewrite !map_map; apply map_ext; intros [a b]; reflexivity).
  rewrite band_bools_x.
  rewrite <- (flat_map_map _ _ _ (fun lh : Q * Q => Qltb (fst lh) y && Qltb y (snd lh))
                (fun b => map (fun a => a && b) [bis mx x 0; bis mx x 1; bis mx x 2])).
  rewrite band_bools_y. unfold area_spec, bis.
  destruct (band_cases mx x) as [E|[E|[E|E]]]; rewrite E; destruct (band_cases my y) as [F|[F|[F|F]]]; rewrite F; reflexivity.
Qed.

Theorem get_area_idx_is_band_function : forall n mx my x y areas,
  generate_area_points n mx my = Some areas -> get_area_idx areas x y = area_spec n mx my x y.
Proof.
  intros n mx my x y areas H. rewrite generate_area_points_eq in H.
  destruct (Nat.eqb_spec n 1) as [->|N1]; [apply Some_inj in H; subst areas; apply area_idx_1|].
  destruct (Nat.eqb_spec n 3) as [->|N3]; [apply Some_inj in H; subst areas; apply area_idx_3|].
  destruct (Nat.eqb_spec n 9) as [->|N9]; [apply Some_inj in H; subst areas; apply area_idx_9|].
  discriminate H.
Qed.

(* ---- the same, as statements about inequalities *)
Lemma whole_spec : forall M v, whole M v = true <-> (- M < v /\ v < M).
Proof.
  intros. unfold whole. rewrite andb_true_iff, !Qltb_true. tauto.
Qed.

Lemma band_none : forall M v, band M v = None <-> forall k, ~ in_band M k v.
Proof.
  intros M v. split.
  - intros H k Hb. apply band_spec in Hb. congruence.
  - intros H. destruct (band_cases M v) as [E|[E|[E|E]]]; [| | |exact E]; apply band_spec in E; exfalso; eapply H; exact E.
Qed.

(* the vocabulary, spelled out *)
Lemma band_vocabulary : forall M v,
  (in_band M 0 v <-> M / 3 < v /\ v < M) /\
  (in_band M 1 v <-> - (M / 3) < v /\ v < M / 3) /\
  (in_band M 2 v <-> - M < v /\ v < - (M / 3)) /\
  (forall k, in_band M (S (S (S k))) v <-> False) /\
  (forall k, band M v = Some k <-> in_band M k v) /\
  (band M v = None <-> forall k, ~ in_band M k v) /\
  (whole M v = true <-> - M < v /\ v < M) /\
  (forall i j, in_band M i v -> in_band M j v -> i = j).
Proof.
  intros M v.
  split; [reflexivity|]. split; [reflexivity|]. split; [reflexivity|]. split; [intros k; reflexivity|].
  split; [intros k; apply band_spec|]. split; [apply band_none|]. split; [apply whole_spec|]. apply in_band_unique.
Qed.

Theorem generate_area_points_defined : forall n mx my,
  (generate_area_points n mx my = None <-> (n <> 1 /\ n <> 3 /\ n <> 9)%nat) /\
  (forall areas, generate_area_points n mx my = Some areas -> List.length areas = n).
Proof.
  intros n mx my. rewrite generate_area_points_eq.
  destruct (Nat.eqb_spec n 1) as [->|N1]; [split; [split; [discriminate|lia]|intros a H; apply Some_inj in H; now subst a]|].
  destruct (Nat.eqb_spec n 3) as [->|N3]; [split; [split; [discriminate|lia]|intros a H; apply Some_inj in H; now subst a]|].
  destruct (Nat.eqb_spec n 9) as [->|N9]; [split; [split; [discriminate|lia]|intros a H; apply Some_inj in H; now subst a]|].
  split; [tauto|discriminate].
Qed.

(* never two areas at once: np.where(..)[0].item() never raises on generated areas *)
Theorem area_idx_never_many : forall n mx my x y areas,
  generate_area_points n mx my = Some areas -> get_area_idx areas x y <> AMany.
Proof.
  intros n mx my x y areas H. rewrite (get_area_idx_is_band_function _ _ _ _ _ _ H).
  unfold area_spec. destruct n as [|[|[|[|[|[|[|[|[|[|n]]]]]]]]]]; try discriminate;
    repeat match goal with |- context [match ?b with _ => _ end] => destruct b end; discriminate.
Qed.

Lemma whole_reflect : forall M v, reflect (- M < v /\ v < M) (whole M v).
Proof. intros. apply iff_reflect. symmetry. apply whole_spec. Qed.

Theorem area_idx_div1 : forall mx my x y areas, generate_area_points 1 mx my = Some areas ->
  (forall k, get_area_idx areas x y = AOne k <-> k = 0%nat /\ (- mx < x /\ x < mx) /\ (- my < y /\ y < my)) /\
  (get_area_idx areas x y = ANone <-> ~ (- mx < x /\ x < mx) \/ ~ (- my < y /\ y < my)).
Proof.
  intros mx my x y areas H. rewrite (get_area_idx_is_band_function _ _ _ _ _ _ H). cbn [area_spec].
  destruct (whole_reflect mx x) as [Wx|Wx], (whole_reflect my y) as [Wy|Wy]; cbn [andb].
  - split; [intros k; split; [intros A; injection A as <-; tauto|intros [-> _]; reflexivity]|split; [discriminate|tauto]].
  - split; [intros k; split; [discriminate|tauto]|split; [tauto|reflexivity]].
  - split; [intros k; split; [discriminate|tauto]|split; [tauto|reflexivity]].
  - split; [intros k; split; [discriminate|tauto]|split; [tauto|reflexivity]].
Qed.

Theorem area_idx_div3 : forall mx my x y areas, generate_area_points 3 mx my = Some areas ->
  (forall k, get_area_idx areas x y = AOne k <-> in_band mx k x /\ (- my < y /\ y < my)) /\
  (get_area_idx areas x y = ANone <-> (forall i, ~ in_band mx i x) \/ ~ (- my < y /\ y < my)).
Proof.
  intros mx my x y areas H. rewrite (get_area_idx_is_band_function _ _ _ _ _ _ H). cbn [area_spec].
  pose proof (band_spec mx x) as Bx. pose proof (band_none mx x) as Nx.
  destruct (band mx x) as [i|].
  - assert (Hi : in_band mx i x) by (now apply Bx).
    destruct (whole_reflect my y) as [Wy|Wy].
    + split; [intros k; split; [intros A; injection A as <-; tauto|intros [A _]; f_equal; eapply in_band_unique; eassumption]|].
      split; [discriminate|]. intros [A|A]; [exfalso; eapply A; exact Hi|tauto].
    + split; [intros k; split; [discriminate|tauto]|split; [tauto|reflexivity]].
  - assert (Hn : forall k, ~ in_band mx k x) by (now apply Nx).
    split; [intros k; split; [discriminate|intros [A _]; exfalso; eapply Hn; exact A]|split; [tauto|reflexivity]].
Qed.

Theorem area_idx_div9 : forall mx my x y areas, generate_area_points 9 mx my = Some areas ->
  (forall k, get_area_idx areas x y = AOne k <-> exists i j, k = (3 * j + i)%nat /\ in_band mx i x /\ in_band my j y) /\
  (get_area_idx areas x y = ANone <-> (forall i, ~ in_band mx i x) \/ (forall j, ~ in_band my j y)).
Proof.
  intros mx my x y areas H. rewrite (get_area_idx_is_band_function _ _ _ _ _ _ H). cbn [area_spec].
  pose proof (band_spec mx x) as Bx. pose proof (band_none mx x) as Nx.
  pose proof (band_spec my y) as By. pose proof (band_none my y) as Ny.
  destruct (band mx x) as [i|].
  - assert (Hi : in_band mx i x) by (now apply Bx).
    destruct (band my y) as [j|].
    + assert (Hj : in_band my j y) by (now apply By).
      split.
      * intros k; split.
        -- intros A. injection A as <-. exists i, j. tauto.
        -- intros (i' & j' & -> & A & B). f_equal.
           rewrite (in_band_unique _ _ _ _ Hi A), (in_band_unique _ _ _ _ Hj B). reflexivity.
      * split; [discriminate|]. intros [A|A]; exfalso; [eapply A; exact Hi|eapply A; exact Hj].
    + assert (Hn : forall k, ~ in_band my k y) by (now apply Ny).
      split; [intros k; split; [discriminate|intros (i' & j' & _ & _ & A); exfalso; eapply Hn; exact A]|split; [tauto|reflexivity]].
  - assert (Hn : forall k, ~ in_band mx k x) by (now apply Nx).
    split; [intros k; split; [discriminate|intros (i' & j' & _ & A & _); exfalso; eapply Hn; exact A]|split; [tauto|reflexivity]].
Qed.

(* None exactly outside (-max, max) or on a grid line, for max_x, max_y > 0 *)
Definition off_grid (M v : Q) : Prop := ~ (- M < v /\ v < M) \/ v == M / 3 \/ v == - (M / 3).

Theorem area_none_iff_off_grid : forall mx my x y, 0 < mx -> 0 < my ->
  (forall areas, generate_area_points 3 mx my = Some areas ->
     (get_area_idx areas x y = ANone <-> off_grid mx x \/ ~ (- my < y /\ y < my))) /\
  (forall areas, generate_area_points 9 mx my = Some areas ->
     (get_area_idx areas x y = ANone <-> off_grid mx x \/ off_grid my y)).
Proof.
  intros mx my x y Hx Hy. split; intros areas H.
  - rewrite (proj2 (area_idx_div3 _ _ x y _ H)). unfold off_grid. rewrite (no_band_iff mx x Hx). tauto.
  - rewrite (proj2 (area_idx_div9 _ _ x y _ H)). unfold off_grid. rewrite (no_band_iff mx x Hx), (no_band_iff my y Hy). tauto.
Qed.

(* ========================================================================================== *)
(* J. get_object_status                                                                        *)
(* ========================================================================================== *)
(* the distinct elements of a list, in order of first appearance *)
Fixpoint firsts (l : list nat) : list nat :=
  match l with
  | [] => []
  | u :: t => u :: filter (fun v => negb (Nat.eqb v u)) (firsts t)
  end.

Lemma firsts_in : forall l u, In u (firsts l) <-> In u l.
Proof.
  induction l as [|a l IH]; intros u; simpl; [tauto|].
  rewrite filter_In, IH. destruct (Nat.eqb_spec u a) as [->|N]; simpl; split; intros H; try tauto.
Qed.

Lemma NoDup_filter : forall A (p : A -> bool) l, NoDup l -> NoDup (filter p l).
Proof.
  induction l as [|a l IH]; intros H; simpl; [constructor|]. inversion H; subst.
  destruct (p a); [constructor; [rewrite filter_In; tauto|auto]|auto].
Qed.

Lemma firsts_nodup : forall l, NoDup (firsts l).
Proof.
  induction l as [|a l IH]; simpl; constructor.
  - rewrite filter_In. intros [_ H]. now rewrite Nat.eqb_refl in H.
  - now apply NoDup_filter.
Qed.

Lemma nmem_in : forall u l, nmem u l = true <-> In u l.
Proof.
  intros u l. unfold nmem. rewrite existsb_exists. split.
  - intros (x & Hx & E). apply Nat.eqb_eq in E. now subst.
  - intros H. exists u. split; [assumption|apply Nat.eqb_refl].
Qed.

Lemma firsts_snoc : forall l u, firsts (l ++ [u]) = if nmem u l then firsts l else firsts l ++ [u].
Proof.
  induction l as [|a l IH]; intros u; [reflexivity|]. cbn [app firsts]. rewrite IH.
  unfold nmem. cbn [existsb]. fold (nmem u l).
  destruct (Nat.eqb_spec u a) as [->|N]; cbn [orb].
  - destruct (nmem a l); [reflexivity|]. rewrite filter_app. cbn [filter]. rewrite Nat.eqb_refl. cbn [negb]. now rewrite app_nil_r.
  - destruct (nmem u l); [reflexivity|]. rewrite filter_app. cbn [filter].
    destruct (Nat.eqb_spec u a); [contradiction|]. reflexivity.
Qed.

(* ---- tallies *)
Lemma tally_uuid : forall u evs, g_uuid (tally u evs) = u.
Proof. reflexivity. Qed.

Lemma tally_snoc_same : forall u s f evs, tally u (evs ++ [(u, s, f)]) = add_status (tally u evs) s f.
Proof.
  intros. unfold tally, add_status. cbv zeta. cbn [g_uuid g_total g_tp g_fp g_tn g_fn].
  assert (E : filter (fun ev : Event => Nat.eqb (ev_uuid ev) u) (evs ++ [(u, s, f)])
              = filter (fun ev : Event => Nat.eqb (ev_uuid ev) u) evs ++ [(u, s, f)]).
  { rewrite filter_app. cbn [filter ev_uuid fst snd]. now rewrite Nat.eqb_refl. }
  rewrite E, !filter_app, !map_app. cbn [filter ev_status ev_frame fst snd map].
  destruct s; cbn [status_eqb map]; rewrite ?app_nil_r; reflexivity.
Qed.

Lemma tally_snoc_other : forall u v s f evs, v <> u -> tally v (evs ++ [(u, s, f)]) = tally v evs.
Proof.
  intros u v s f evs N. unfold tally. cbv zeta. rewrite !filter_app. cbn [filter ev_uuid fst snd].
  destruct (Nat.eqb_spec u v); [congruence|]. now rewrite !app_nil_r.
Qed.

Lemma tally_absent : forall u evs, ~ In u (map ev_uuid evs) -> tally u evs = mkGtStatus u [] [] [] [] [].
Proof.
  intros u evs H. unfold tally. cbv zeta.
  assert (E : filter (fun ev => Nat.eqb (ev_uuid ev) u) evs = []).
  { induction evs as [|e evs IH]; [reflexivity|]. cbn [filter]. cbn [map] in H.
    destruct (Nat.eqb_spec (ev_uuid e) u) as [E|E]; [exfalso; apply H; now left|]. apply IH. intros A. apply H. now right. }
  rewrite E. reflexivity.
Qed.

Lemma update_first_present : forall L u s f evs, NoDup L -> In u L ->
  update_first u s f (map (fun v => tally v evs) L) = Some (map (fun v => tally v (evs ++ [(u, s, f)])) L).
Proof.
  induction L as [|a L IH]; intros u s f evs ND Hin; [contradiction|]. inversion ND as [|? ? Hna ND']; subst.
  cbn [map update_first]. rewrite tally_uuid. destruct (Nat.eqb_spec a u) as [->|N].
  - rewrite tally_snoc_same. f_equal. f_equal. apply map_ext_in. intros v Hv.
    rewrite tally_snoc_other; [reflexivity|]. intros ->. contradiction.
  - destruct Hin as [->|Hin]; [congruence|]. rewrite (IH u s f evs ND' Hin). rewrite tally_snoc_other by assumption. reflexivity.
Qed.

Lemma update_first_absent : forall L u s f evs, ~ In u L -> update_first u s f (map (fun v => tally v evs) L) = None.
Proof.
  induction L as [|a L IH]; intros u s f evs H; [reflexivity|]. cbn [map update_first]. rewrite tally_uuid.
  destruct (Nat.eqb_spec a u) as [->|N]; [exfalso; apply H; now left|]. rewrite IH; [reflexivity|]. intros A. apply H. now right.
Qed.

(* the state after any sequence of add_status calls: one record per distinct uuid, in first-appearance order, holding
   the uuid's events *)
Definition status_of (evs : list Event) : list GtStatus := map (fun u => tally u evs) (firsts (map ev_uuid evs)).

Lemma add_event_status_of : forall evs ev, add_event (status_of evs) ev = status_of (evs ++ [ev]).
Proof.
  intros evs [[u s] f]. unfold add_event, status_of. rewrite map_app. cbn [map ev_uuid fst]. rewrite firsts_snoc.
  destruct (nmem u (map ev_uuid evs)) eqn:E.
  - apply nmem_in in E. rewrite update_first_present; [reflexivity|apply firsts_nodup|now apply firsts_in].
  - assert (Hn : ~ In u (map ev_uuid evs)) by (intros A; apply nmem_in in A; congruence).
    rewrite update_first_absent by (now rewrite firsts_in). rewrite map_app. cbn [map]. f_equal.
    + apply map_ext_in. intros v Hv. rewrite tally_snoc_other; [reflexivity|]. intros E2. apply Hn. rewrite <- E2. now apply firsts_in.
    + rewrite tally_snoc_same, tally_absent by assumption. reflexivity.
Qed.

Lemma fold_add_event : forall evs2 evs1, fold_left add_event evs2 (status_of evs1) = status_of (evs1 ++ evs2).
Proof.
  induction evs2 as [|ev evs2 IH]; intros evs1; cbn [fold_left]; [now rewrite app_nil_r|].
  rewrite add_event_status_of, IH, <- app_assoc. reflexivity.
Qed.

Definition events (frames : list Frame) : list Event := flat_map frame_events frames.

Theorem object_status_is_tally : forall frames, get_object_status frames = status_of (events frames).
Proof. intros. unfold get_object_status. change (@nil GtStatus) with (status_of []). now rewrite fold_add_event. Qed.

(* ---- the same, read off the frames' pass/fail lists *)
(* ground truths of the TP pairs / of the FP pairs that have one *)
Definition tp_gts (f : Frame) : list Obj := map snd (f_tp f).
Definition fp_gts (f : Frame) : list Obj := map snd (fp_with_gt f).
(* the ground truths the frame reports a status for, in TP, FP, TN, FN order (= its ground-truth rows in the table) *)
Definition frame_gts (f : Frame) : list Obj := tp_gts f ++ fp_gts f ++ f_tn f ++ f_fn f.
(* the frame number of f, once per ground truth of [gts] whose uuid is u *)
Definition occ (u : nat) (f : Frame) (gts : list Obj) : list nat :=
  map (fun _ => f_num f) (filter (fun g => Nat.eqb (o_uuid g) u) gts).

Definition block (s : status) (n : nat) (gts : list Obj) : list Event := map (fun g => (o_uuid g, s, n)) gts.

Lemma frame_events_blocks : forall f,
  frame_events f = block TP (f_num f) (tp_gts f) ++ block FP (f_num f) (fp_gts f) ++ block TN (f_num f) (f_tn f) ++ block FN (f_num f) (f_fn f).
Proof.
  intros f. unfold frame_events, block, tp_gts, fp_gts. rewrite !map_map. f_equal. f_equal.
  unfold fp_with_gt. induction (f_fp f) as [|[e [g|]] l IH]; cbn [flat_map map snd fst app]; [reflexivity| |]; now rewrite IH.
Qed.

Lemma block_uuid : forall u s n gts,
  filter (fun ev : Event => Nat.eqb (ev_uuid ev) u) (block s n gts) = block s n (filter (fun g => Nat.eqb (o_uuid g) u) gts).
Proof.
  intros. unfold block. induction gts as [|g l IH]; [reflexivity|]. cbn [map filter ev_uuid fst].
  destruct (Nat.eqb (o_uuid g) u); cbn [map]; now rewrite IH.
Qed.

Lemma block_status : forall s s' n gts,
  filter (fun ev : Event => status_eqb (ev_status ev) s) (block s' n gts) = if status_eqb s' s then block s' n gts else [].
Proof.
  intros. unfold block. induction gts as [|g l IH]; [now destruct (status_eqb s' s)|]. cbn [map filter ev_status fst snd].
  rewrite IH. now destruct (status_eqb s' s).
Qed.

Lemma block_frames : forall s n gts, map ev_frame (block s n gts) = map (fun _ => n) gts.
Proof. intros. unfold block. rewrite map_map. reflexivity. Qed.

Lemma frame_uuids_eq : forall f, frame_gt_uuids f = map o_uuid (frame_gts f).
Proof.
  intros f. unfold frame_gt_uuids, frame_gts. rewrite frame_events_blocks. unfold block. rewrite !map_app, !map_map. reflexivity.
Qed.

Lemma filter_flat_map : forall A B (p : B -> bool) (g : A -> list B) l, filter p (flat_map g l) = flat_map (fun a => filter p (g a)) l.
Proof. induction l as [|a l IH]; simpl; [reflexivity|]. now rewrite filter_app, IH. Qed.

Definition sel_gts (s : status) (f : Frame) : list Obj :=
  match s with TP => tp_gts f | FP => fp_gts f | TN => f_tn f | FN => f_fn f end.

Lemma frame_status_frames : forall u s f,
  map ev_frame (filter (fun ev : Event => status_eqb (ev_status ev) s) (filter (fun ev : Event => Nat.eqb (ev_uuid ev) u) (frame_events f)))
  = occ u f (sel_gts s f).
Proof.
  intros u s f. rewrite frame_events_blocks, !filter_app, !block_uuid, !block_status, !map_app.
  destruct s; cbn [status_eqb sel_gts map app]; rewrite ?app_nil_r, block_frames; reflexivity.
Qed.

Lemma frame_total_frames : forall u f,
  map ev_frame (filter (fun ev : Event => Nat.eqb (ev_uuid ev) u) (frame_events f))
  = occ u f (tp_gts f) ++ occ u f (fp_gts f) ++ occ u f (f_tn f) ++ occ u f (f_fn f).
Proof.
  intros u f. rewrite frame_events_blocks, !filter_app, !block_uuid, !map_app, !block_frames. reflexivity.
Qed.

Lemma occ_app : forall u f a b, occ u f (a ++ b) = occ u f a ++ occ u f b.
Proof. intros. unfold occ. now rewrite filter_app, map_app. Qed.

(* the record of uuid u, read off the frames *)
Definition status_record (frames : list Frame) (u : nat) : GtStatus :=
  mkGtStatus u
    (flat_map (fun f => occ u f (tp_gts f) ++ occ u f (fp_gts f) ++ occ u f (f_tn f) ++ occ u f (f_fn f)) frames)
    (flat_map (fun f => occ u f (tp_gts f)) frames)
    (flat_map (fun f => occ u f (fp_gts f)) frames)
    (flat_map (fun f => occ u f (f_tn f)) frames)
    (flat_map (fun f => occ u f (f_fn f)) frames).

Lemma tally_events : forall frames u, tally u (events frames) = status_record frames u.
Proof.
  intros frames u. unfold tally, status_record, events. cbv zeta.
  rewrite !filter_flat_map, !map_flat_map.
  f_equal; apply flat_map_ext'; intros f;
    [apply frame_total_frames|apply (frame_status_frames u TP)|apply (frame_status_frames u FP)
    |apply (frame_status_frames u TN)|apply (frame_status_frames u FN)].
Qed.

Lemma events_uuids : forall frames, map ev_uuid (events frames) = flat_map frame_gt_uuids frames.
Proof. intros. unfold events. rewrite map_flat_map. reflexivity. Qed.

Theorem object_status_explicit : forall frames,
  get_object_status frames = map (status_record frames) (firsts (flat_map frame_gt_uuids frames)).
Proof.
  intros. rewrite object_status_is_tally. unfold status_of. rewrite events_uuids. apply map_ext. apply tally_events.
Qed.

Lemma status_vocabulary : forall f,
  frame_gt_uuids f = map o_uuid (map snd (f_tp f) ++ map snd (fp_with_gt f) ++ f_tn f ++ f_fn f) /\
  (forall u gts, occ u f gts = map (fun _ => f_num f) (filter (fun g => Nat.eqb (o_uuid g) u) gts)) /\
  (forall u l, firsts (u :: l) = u :: filter (fun v => negb (Nat.eqb v u)) (firsts l)) /\ firsts [] = [].
Proof.
  intros f. split; [apply frame_uuids_eq|]. split; [intros; reflexivity|]. split; [intros; reflexivity|reflexivity].
Qed.

Theorem object_status_records : forall frames,
  map g_uuid (get_object_status frames) = firsts (flat_map frame_gt_uuids frames) /\
  NoDup (map g_uuid (get_object_status frames)) /\
  (forall u, In u (map g_uuid (get_object_status frames)) <-> exists f, In f frames /\ In u (frame_gt_uuids f)).
Proof.
  intros frames.
  assert (E : map g_uuid (get_object_status frames) = firsts (flat_map frame_gt_uuids frames)).
  { rewrite object_status_explicit, map_map. cbn [status_record g_uuid]. apply map_id. }
  rewrite E. split; [reflexivity|]. split; [apply firsts_nodup|]. intros u. rewrite firsts_in, in_flat_map. reflexivity.
Qed.

(* ---- each ground truth once per frame *)
Lemma count_nat_in : forall u l, (0 < count_nat u l)%nat <-> In u l.
Proof.
  intros u l. unfold count_nat. induction l as [|a l IH]; simpl; [split; [lia|tauto]|].
  destruct (Nat.eqb_spec u a) as [->|N]; simpl; [split; [now left|lia]|]. rewrite IH. split; [now right|intros [A|A]; [congruence|assumption]].
Qed.

Lemma NoDup_count_nat : forall l, NoDup l <-> forall u, (count_nat u l <= 1)%nat.
Proof.
  induction l as [|a l IH]; split.
  - intros _ u. unfold count_nat. simpl. lia.
  - constructor.
  - intros H u. inversion H as [|? ? Hn Hd]; subst. rewrite count_nat_cons.
    pose proof (proj1 IH Hd u). destruct (Nat.eqb_spec u a) as [->|N]; [|lia].
    assert (~ (0 < count_nat a l)%nat) by (now rewrite count_nat_in). lia.
  - intros H. constructor.
    + intros A. apply count_nat_in in A. specialize (H a). rewrite count_nat_cons, Nat.eqb_refl in H. lia.
    + apply IH. intros u. specialize (H u). rewrite count_nat_cons in H. lia.
Qed.

Lemma occ_length : forall u f gts, List.length (occ u f gts) = count_nat u (map o_uuid gts).
Proof.
  intros. unfold occ, count_nat. rewrite map_length. induction gts as [|g l IH]; [reflexivity|]. cbn [map filter].
  rewrite (Nat.eqb_sym u (o_uuid g)). destruct (Nat.eqb (o_uuid g) u); cbn [List.length]; now rewrite IH.
Qed.

Lemma occ_const : forall u f gts x, In x (occ u f gts) -> x = f_num f.
Proof. intros u f gts x H. unfold occ in H. apply in_map_iff in H as (g & <- & _). reflexivity. Qed.

(* the frames of uuid u within frame f *)
Definition frame_total (u : nat) (f : Frame) : list nat :=
  occ u f (tp_gts f) ++ occ u f (fp_gts f) ++ occ u f (f_tn f) ++ occ u f (f_fn f).

Lemma frame_total_eq : forall u f, frame_total u f = occ u f (frame_gts f).
Proof. intros. unfold frame_total, frame_gts. now rewrite !occ_app. Qed.

Lemma frame_total_length : forall u f, List.length (frame_total u f) = count_nat u (frame_gt_uuids f).
Proof. intros. now rewrite frame_total_eq, occ_length, frame_uuids_eq. Qed.

Lemma const_nodup_short : forall (n : nat) l, (forall x, In x l -> x = n) -> NoDup l -> (List.length l <= 1)%nat.
Proof.
  intros n [|a [|b l]] H ND; simpl; try lia. exfalso.
  inversion ND as [|? ? Hn _]; subst. apply Hn. left.
  rewrite (H a) by (now left). rewrite (H b) by (right; now left). reflexivity.
Qed.

Lemma nodup_totals : forall u frames, NoDup (map f_num frames) ->
  (forall f, In f frames -> (count_nat u (frame_gt_uuids f) <= 1)%nat) ->
  NoDup (flat_map (frame_total u) frames).
Proof.
  intros u. induction frames as [|f frames IH]; intros ND H; cbn [flat_map]; [constructor|].
  cbn [map] in ND. inversion ND as [|? ? Hn ND']; subst.
  assert (IH' : NoDup (flat_map (frame_total u) frames)) by (apply IH; [assumption|intros g Hg; apply H; now right]).
  assert (L : (List.length (frame_total u f) <= 1)%nat) by (rewrite frame_total_length; apply H; now left).
  destruct (frame_total u f) as [|a [|b l]] eqn:E; cbn [List.length] in L; [exact IH'| |lia].
  cbn [app]. constructor; [|exact IH'].
  assert (Ea : a = f_num f). { rewrite frame_total_eq in E. apply (occ_const u f (frame_gts f)). rewrite E. now left. }
  subst a. intros A. apply in_flat_map in A as (g & Hg & A). rewrite frame_total_eq in A. apply occ_const in A.
  apply Hn. rewrite A. now apply in_map.
Qed.

Lemma NoDup_app_r' : forall A (a b : list A), NoDup (a ++ b) -> NoDup b.
Proof. induction a as [|x a IH]; intros b H; [exact H|]. inversion H; subst. now apply IH. Qed.
Lemma NoDup_app_l' : forall A (a b : list A), NoDup (a ++ b) -> NoDup a.
Proof.
  induction a as [|x a IH]; intros b H; [constructor|]. inversion H as [|? ? Hn Hd]; subst.
  constructor; [intros A0; apply Hn; apply in_or_app; now left|now apply IH with b].
Qed.

Definition once_per_frame (l : list GtStatus) : Prop := forall g, In g l -> NoDup (g_total g).

Theorem status_once_per_frame_iff : forall frames, NoDup (map f_num frames) ->
  (once_per_frame (get_object_status frames) <-> forall f, In f frames -> NoDup (frame_gt_uuids f)).
Proof.
  intros frames ND. unfold once_per_frame. rewrite object_status_explicit. split.
  - intros H f Hf. apply NoDup_count_nat. intros u.
    destruct (count_nat u (frame_gt_uuids f)) as [|n] eqn:E; [lia|].
    assert (Hu : In u (frame_gt_uuids f)) by (apply count_nat_in; lia).
    assert (Hg : In (status_record frames u) (map (status_record frames) (firsts (flat_map frame_gt_uuids frames)))).
    { apply in_map. apply firsts_in. apply in_flat_map. now exists f. }
    specialize (H _ Hg). cbn [status_record g_total] in H. fold (frame_total u) in H.
    apply in_split in Hf as (l1 & l2 & ->). rewrite flat_map_app in H. cbn [flat_map] in H.
    apply NoDup_app_r' in H. apply NoDup_app_l' in H.
    apply (const_nodup_short (f_num f)) in H; [now rewrite frame_total_length, E in H|].
    intros x Hx. rewrite frame_total_eq in Hx. now apply occ_const in Hx.
  - intros H g Hg. apply in_map_iff in Hg as (u & <- & _). cbn [status_record g_total]. fold (frame_total u).
    apply nodup_totals; [assumption|]. intros f Hf. now apply NoDup_count_nat, H.
Qed.

(* F11 on the status tallies: g1 (uuid 1) is the ground truth of the failing pair (t1, g1) and is in fn_objects *)
Definition status_once_per_frame_statement : Prop :=
  forall frames, (forall f, In f frames -> accounted f) -> NoDup (map f_num frames) -> once_per_frame (get_object_status frames).

Theorem status_once_per_frame_refuted :
  exists frames, (forall f, In f frames -> accounted f) /\ NoDup (map f_num frames) /\
    exists g, In g (get_object_status frames) /\ g_uuid g = 1%nat /\ g_total g = [0; 0]%nat /\ g_fp g = [0%nat] /\ g_fn g = [0%nat].
Proof.
  exists [w_frame]. split; [intros f [<-|[]]; vm_compute; reflexivity|]. split; [repeat constructor; intros []|].
  exists (mkGtStatus 1 [0; 0]%nat [] [0%nat] [] [0%nat]). split; [vm_compute; right; left; reflexivity|repeat split].
Qed.

Theorem status_once_per_frame_statement_false : ~ status_once_per_frame_statement.
Proof.
  intros H. destruct status_once_per_frame_refuted as (frames & Hacc & ND & g & Hg & _ & Ht & _).
  specialize (H frames Hacc ND g Hg). rewrite Ht in H. inversion H as [|? ? Hn _]; subst. apply Hn. now left.
Qed.

(* ========================================================================================== *)
(* K. complements to sections F and G                                                          *)
(* ========================================================================================== *)
(* the "ALL" summary of a column of the built table is the summary of the paired items' differences *)
Theorem summarize_error_all_build : forall P c areas scenes,
  summarize_error P None c (build areas scenes) = summarize (map (item_error P c) (paired_items scenes)).
Proof.
  intros. rewrite <- (proj1 (errors_are_paired_differences P c areas scenes)).
  unfold summarize_error. destruct (build areas scenes) as [|e t]; reflexivity.
Qed.

(* per label: the same on the row pairs whose ground-truth row has that label (and a TP/FP/TN status) *)
Theorem summarize_error_label_def : forall P l c t,
  summarize_error P (Some l) c t =
    match label_entries l t with [] => None | t' => summarize (calculate_error P c t') end.
Proof. intros. unfold summarize_error. destruct (label_entries l t); reflexivity. Qed.

Definition label_rates_unit_interval_statement : Prop :=
  forall areas scenes l,
    (forall f, In f (all_frames scenes) -> accounted f) ->
    ratios_in01 (ratio_row (Some l) (build areas scenes)).

Theorem label_rates_statement_false : ~ label_rates_unit_interval_statement.
Proof.
  intros H. destruct label_rate_unit_interval_refuted as (a & s & l & Hacc & Hlt).
  destruct (H a s l Hacc) as [[_ Hle] _]. lra.
Qed.

(* the whole table is a selection of itself: the theorems about [filter q (build ..)] apply to [build ..] *)
Lemma filter_all : forall areas scenes, filter (fun _ => true) (build areas scenes) = build areas scenes.
Proof. intros. apply filter_true. Qed.
