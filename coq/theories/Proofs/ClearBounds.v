(* C05 -- range of the CLEAR scores (Model/Clear.v): MOTA lies in [0, 1] whenever the TP count does not exceed the
   number of ground truths, for one label and for the ground-truth-weighted total of _sum_clear.
   Statements are collected in Props/C05.v. *)
From Coq Require Import List Bool Arith ZArith QArith Lia Lqa.
From PE Require Import Base.QUtil Model.Clear Proofs.ClearProofs.
Import ListNotations.
Open Scope Q_scope.

Lemma max0_le_of_le x b : 0 <= b -> x <= b -> max0 x <= b.
Proof. intros Hb Hx. destruct (max0_cases x) as [[_ ->]|[_ ->]]; assumption. Qed.

Lemma div_le_one a b : 0 < b -> a <= b -> a / b <= 1.
Proof.
  intros Hb Hab. apply Qle_shift_div_r; [exact Hb|]. lra.
Qed.

Lemma mota_of_unit numgt a x :
  (c_tp a <= numgt)%nat -> mota_of numgt a = Some x -> 0 <= x <= 1.
Proof.
  unfold mota_of. destruct numgt as [|n]; [discriminate|]. intros Hle H. inversion H; subst; clear H.
  split; [apply max0_nonneg|].
  assert (Hd : 0 < Qnat (S n)) by (apply Qnat_pos; lia).
  apply max0_le_of_le; [lra|]. apply div_le_one; [exact Hd|].
  pose proof (Qnat_le _ _ Hle). pose proof (Qnat_nonneg (c_fp a)). pose proof (Qnat_nonneg (c_sw a)). lra.
Qed.

(* MOTA = 1 forces no FP and no switch and every ground truth tracked *)
Lemma mota_of_one_iff numgt a :
  (c_tp a <= numgt)%nat -> (0 < numgt)%nat ->
  (oq_eq (mota_of numgt a) (Some 1) <-> (c_tp a = numgt /\ c_fp a = 0 /\ c_sw a = 0)%nat).
Proof.
  intros Hle Hpos. unfold mota_of. destruct numgt as [|n]; [lia|]. cbn [oq_eq].
  assert (Hd : 0 < Qnat (S n)) by (apply Qnat_pos; lia).
  pose proof (Qnat_le _ _ Hle) as Htp. pose proof (Qnat_nonneg (c_fp a)) as Hfp. pose proof (Qnat_nonneg (c_sw a)) as Hsw.
  set (num := Qnat (c_tp a) - Qnat (c_fp a) - Qnat (c_sw a)) in *.
  split.
  - intros H. destruct (max0_cases (num / Qnat (S n))) as [[_ E]|[_ E]]; rewrite E in H; [|lra].
    assert (Hn : num == Qnat (S n)).
    { assert (num == (num / Qnat (S n)) * Qnat (S n)) as -> by (field; lra). rewrite H. ring. }
    unfold num in Hn.
    assert (Qnat (c_tp a) == Qnat (S n) /\ Qnat (c_fp a) == 0 /\ Qnat (c_sw a) == 0) as (E1 & E2 & E3) by (repeat split; lra).
    unfold Qnat in E1, E2, E3. change 0 with (inject_Z 0) in E2, E3.
    rewrite inject_Z_injective in E1, E2, E3. lia.
  - intros (E1 & E2 & E3). unfold num. rewrite E1, E2, E3.
    assert (Hq : (Qnat (S n) - Qnat 0 - Qnat 0) / Qnat (S n) == 1) by (unfold Qnat at 2 3; cbn [Z.of_nat inject_Z]; field; lra).
    destruct (max0_cases ((Qnat (S n) - Qnat 0 - Qnat 0) / Qnat (S n))) as [[_ ->]|[Hneg _]]; [exact Hq|lra].
Qed.

(* the clamped numerator of one label is at most its ground-truth count *)
Lemma clamp_num_le k : (k_tp k <= k_numgt k)%nat -> 0 <= clamp_num k <= Qnat (k_numgt k).
Proof.
  unfold clamp_num, k_tp. intros Hle. destruct (k_numgt k) as [|n] eqn:E.
  - split; [lra|apply Qnat_nonneg].
  - split; [apply max0_nonneg|]. apply max0_le_of_le; [apply Qnat_nonneg|].
    pose proof (Qnat_le _ _ Hle). pose proof (Qnat_nonneg (c_fp (k_cnt k))). pose proof (Qnat_nonneg (c_sw (k_cnt k))). lra.
Qed.

Lemma sumQ_clamp_le ks :
  Forall (fun k => (k_tp k <= k_numgt k)%nat) ks -> 0 <= sumQ clamp_num ks <= Qnat (sumN k_numgt ks).
Proof.
  induction 1 as [|k ks Hk _ IH]; unfold sumQ, sumN in *; cbn [map qsum fold_right].
  - split; [lra|apply Qnat_nonneg].
  - rewrite Qnat_plus. pose proof (clamp_num_le k Hk). lra.
Qed.

(* total MOTA of TrackingMetricsScore._sum_clear lies in [0, 1] *)
Lemma sum_clear_mota_unit ks x :
  Forall wf_clear ks -> Forall (fun k => (k_tp k <= k_numgt k)%nat) ks ->
  fst (fst (sum_clear ks)) = Some x -> 0 <= x <= 1.
Proof.
  intros Hwf Hle Hx. destruct (sum_clear_weighted ks Hwf) as (Hm & _ & _ & Hc & _).
  rewrite Hx in Hm. destruct (sumN k_numgt ks) as [|n] eqn:EG; cbn [oq_eq] in Hm; [contradiction|].
  assert (Hd : 0 < Qnat (S n)) by (apply Qnat_pos; lia).
  pose proof (sumQ_clamp_le ks Hle) as Hb. rewrite EG in Hb. rewrite Hm, Hc.
  split; [apply Qdiv_nonneg; lra|apply div_le_one; lra].
Qed.
