(* C06 -- proofs about the exact rational geometry of Model/Geom2.v *)
From Coq Require Import List ZArith QArith Bool Lia Lqa Psatz.
From PE Require Import Base.QUtil Model.Geom2.
Import ListNotations.
Open Scope Q_scope.

(* ======================================================================================== *)
(* 1. centre distance (squared)                                                              *)
(* ======================================================================================== *)
(* lra does not read [x / 2]; it reads [x * (1 # 2)] *)
Ltac halves := unfold Qdiv; change (/ 2) with (1 # 2).
Ltac halves_in H := unfold Qdiv in H; change (/ 2) with (1 # 2) in H.

Lemma sq_nonneg x : 0 <= sq x.
Proof. unfold sq. nra. Qed.

Lemma sq_zero x : sq x == 0 -> x == 0.
Proof. unfold sq. intros H. nra. Qed.

Lemma sqdist3_sym p q : sqdist3 p q == sqdist3 q p.
Proof. unfold sqdist3, sq. ring. Qed.

Lemma sqdist3_nonneg p q : 0 <= sqdist3 p q.
Proof.
  unfold sqdist3.
  pose proof (sq_nonneg (fst (fst p) - fst (fst q))).
  pose proof (sq_nonneg (snd (fst p) - snd (fst q))).
  pose proof (sq_nonneg (snd p - snd q)). lra.
Qed.

Lemma sqdist3_zero_iff p q :
  sqdist3 p q == 0 <->
  (fst (fst p) == fst (fst q) /\ snd (fst p) == snd (fst q) /\ snd p == snd q).
Proof.
  unfold sqdist3. split.
  - intros H.
    pose proof (sq_nonneg (fst (fst p) - fst (fst q))) as H1.
    pose proof (sq_nonneg (snd (fst p) - snd (fst q))) as H2.
    pose proof (sq_nonneg (snd p - snd q)) as H3.
    assert (E1 : sq (fst (fst p) - fst (fst q)) == 0) by lra.
    assert (E2 : sq (snd (fst p) - snd (fst q)) == 0) by lra.
    assert (E3 : sq (snd p - snd q) == 0) by lra.
    apply sq_zero in E1, E2, E3. repeat split; lra.
  - intros (E1 & E2 & E3). unfold sq. rewrite E1, E2, E3. ring.
Qed.

Lemma sqdist_bev_sym p q : sqdist_bev p q == sqdist_bev q p.
Proof. unfold sqdist_bev, sq. ring. Qed.

Lemma sqdist_bev_nonneg p q : 0 <= sqdist_bev p q.
Proof.
  unfold sqdist_bev.
  pose proof (sq_nonneg (fst p - fst q)). pose proof (sq_nonneg (snd p - snd q)). lra.
Qed.

Lemma sqdist_bev_zero_iff p q : sqdist_bev p q == 0 <-> pt_eq p q.
Proof.
  unfold sqdist_bev, pt_eq. split.
  - intros H.
    pose proof (sq_nonneg (fst p - fst q)) as H1. pose proof (sq_nonneg (snd p - snd q)) as H2.
    assert (E1 : sq (fst p - fst q) == 0) by lra. assert (E2 : sq (snd p - snd q) == 0) by lra.
    apply sq_zero in E1, E2. split; lra.
  - intros (E1 & E2). unfold sq. rewrite E1, E2. ring.
Qed.

Lemma sqdist_bev_self p : sqdist_bev p p == 0.
Proof. unfold sqdist_bev, sq. ring. Qed.

(* a rotation + translation of the plane preserves squared distances *)
Lemma sqdist_bev_move m p q : motion_unit m -> sqdist_bev (move_pt m p) (move_pt m q) == sqdist_bev p q.
Proof.
  unfold motion_unit. intros U. unfold sqdist_bev, move_pt, add_pt, rot, sq. cbn [fst snd].
  transitivity ((mc m * mc m + ms m * ms m) *
                ((fst p - fst q) * (fst p - fst q) + (snd p - snd q) * (snd p - snd q))); [ring|].
  rewrite U. ring.
Qed.

Lemma sqnorm_rot c s p : c * c + s * s == 1 -> sqnorm (rot c s p) == sqnorm p.
Proof.
  intros U. unfold sqnorm, rot, sq. cbn [fst snd].
  transitivity ((c * c + s * s) * (fst p * fst p + snd p * snd p)); [ring|]. rewrite U. ring.
Qed.

Lemma sqdist3_move m p q : motion_unit m -> sqdist3 (move_pt3 m p) (move_pt3 m q) == sqdist3 p q.
Proof.
  unfold motion_unit. intros U. unfold sqdist3, move_pt3, move_pt, add_pt, rot, sq. cbn [fst snd].
  transitivity ((mc m * mc m + ms m * ms m) *
                ((fst (fst p) - fst (fst q)) * (fst (fst p) - fst (fst q)) +
                 (snd (fst p) - snd (fst q)) * (snd (fst p) - snd (fst q))) +
                (snd p - snd q) * (snd p - snd q)); [ring|].
  rewrite U. ring.
Qed.

Lemma centre3_move m b : centre3 (move_box m b) = move_pt3 m (centre3 b).
Proof. reflexivity. Qed.

Lemma center_sq_sym e g : center_sq e g == center_sq g e.
Proof. apply sqdist3_sym. Qed.
Lemma center_sq_nonneg e g : 0 <= center_sq e g.
Proof. apply sqdist3_nonneg. Qed.
Lemma center_sq_zero_iff e g :
  center_sq e g == 0 <-> (bx e == bx g /\ by_ e == by_ g /\ bz e == bz g).
Proof. unfold center_sq. rewrite sqdist3_zero_iff. reflexivity. Qed.
Lemma center_sq_rigid m e g :
  motion_unit m -> center_sq (move_box m e) (move_box m g) == center_sq e g.
Proof. intros U. unfold center_sq. rewrite !centre3_move. now apply sqdist3_move. Qed.

(* ROI centres: integers *)
Lemma roi_center_sq_sym a b : roi_center_sq a b = roi_center_sq b a.
Proof. unfold roi_center_sq. cbv zeta. ring. Qed.
Lemma roi_center_sq_nonneg a b : (0 <= roi_center_sq a b)%Z.
Proof.
  unfold roi_center_sq. cbv zeta.
  pose proof (Z.square_nonneg (fst (roi_center a) - fst (roi_center b))).
  pose proof (Z.square_nonneg (snd (roi_center a) - snd (roi_center b))). lia.
Qed.
Lemma roi_center_sq_zero_iff a b : roi_center_sq a b = 0%Z <-> roi_center a = roi_center b.
Proof.
  unfold roi_center_sq. cbv zeta. destruct (roi_center a) as [xa ya], (roi_center b) as [xb yb].
  cbn [fst snd]. split.
  - intros H.
    pose proof (Z.square_nonneg (xa - xb)) as H1. pose proof (Z.square_nonneg (ya - yb)) as H2.
    assert (E1 : ((xa - xb) * (xa - xb) = 0)%Z) by lia.
    assert (E2 : ((ya - yb) * (ya - yb) = 0)%Z) by lia.
    apply Z.mul_eq_0 in E1, E2.
    assert (xa = xb) by lia. assert (ya = yb) by lia. congruence.
  - intros H. inversion H. subst. ring.
Qed.
(* the ROI centre is the pixel floor(offset + size/2): within the ROI, at most half a pixel
   below the geometric centre *)
Lemma roi_center_floor r :
  let c := roi_center r in
  (2 * fst c <= 2 * rx r + rw r < 2 * fst c + 2)%Z /\ (2 * snd c <= 2 * ry r + rh r < 2 * snd c + 2)%Z.
Proof.
  unfold roi_center. cbn [fst snd].
  pose proof (Z.div_mod (rw r) 2 ltac:(lia)). pose proof (Z.mod_pos_bound (rw r) 2 ltac:(lia)).
  pose proof (Z.div_mod (rh r) 2 ltac:(lia)). pose proof (Z.mod_pos_bound (rh r) 2 ltac:(lia)).
  lia.
Qed.
(* translating both ROIs by the same integer vector does not change the distance *)
Lemma roi_center_sq_shift tx ty a b :
  roi_center_sq (shift_roi tx ty a) (shift_roi tx ty b) = roi_center_sq a b.
Proof. unfold roi_center_sq, roi_center, shift_roi. cbn [rx ry rw rh fst snd]. ring. Qed.

(* ======================================================================================== *)
(* 2. IoU algebra on numbers                                                                 *)
(* ======================================================================================== *)
Lemma iou_bounds i ae ag :
  0 <= i -> i <= ae -> i <= ag -> 0 < ae -> 0 < ag -> 0 <= iou i ae ag <= 1.
Proof.
  intros Hi Hae Hag Pe Pg. unfold iou. split.
  - apply Qdiv_nonneg; lra.
  - apply Qdiv_le_1; lra.
Qed.

Lemma iou_zero i ae ag : i == 0 -> iou i ae ag == 0.
Proof. intros H. unfold iou, Qdiv. rewrite H. ring. Qed.

Lemma iou_one i ae ag : 0 < ae -> i == ae -> ae == ag -> iou i ae ag == 1.
Proof.
  intros P Hi Hag. unfold iou. rewrite Hi, <- Hag.
  assert (E : ae + ae - ae == ae) by ring. rewrite E. field. lra.
Qed.

Lemma iou_pos i ae ag : 0 < i -> i <= ae -> i <= ag -> 0 < iou i ae ag.
Proof.
  intros Hi Hae Hag. unfold iou. apply Qlt_shift_div_l; lra.
Qed.

Lemma iou_swap i i' ae ag : i == i' -> iou i ae ag == iou i' ag ae.
Proof.
  intros H. unfold iou. rewrite H.
  assert (E : ae + ag - i' == ag + ae - i') by ring. rewrite E. reflexivity.
Qed.

Lemma iou_congr i i' ae ae' ag ag' : i == i' -> ae == ae' -> ag == ag' -> iou i ae ag == iou i' ae' ag'.
Proof. intros H1 H2 H3. unfold iou. rewrite H1, H2, H3. reflexivity. Qed.

(* iou = 1 only when the intersection is everything *)
Lemma iou_one_inv i ae ag :
  0 <= i -> i <= ae -> i <= ag -> 0 < ae -> 0 < ag -> iou i ae ag == 1 -> i == ae /\ i == ag.
Proof.
  intros Hi Hae Hag Pe Pg H. unfold iou in H.
  assert (D : 0 < ae + ag - i) by lra.
  assert (E : i == 1 * (ae + ag - i)).
  { rewrite <- H. field. lra. }
  split; lra.
Qed.

Lemma iou3_bounds i h ae ag he hg :
  0 <= i -> i <= ae -> i <= ag -> 0 < ae -> 0 < ag ->
  0 <= h -> h <= he -> h <= hg -> 0 < he -> 0 < hg ->
  0 <= iou3 i h (ae * he) (ag * hg) <= 1.
Proof.
  intros Hi Hae Hag Pe Pg Hh Hhe Hhg Phe Phg. unfold iou3.
  assert (0 <= i * h) by (apply Qmult_le_0_compat; lra).
  assert (i * h <= ae * he) by nra.
  assert (i * h <= ag * hg) by nra.
  assert (0 < ae * he) by nra. assert (0 < ag * hg) by nra.
  split; [apply Qdiv_nonneg; lra|apply Qdiv_le_1; lra].
Qed.

(* 3D IoU never exceeds BEV IoU *)
Lemma iou3_le_iou2_num i h ae ag he hg :
  0 <= i -> i <= ae -> i <= ag -> 0 < ae -> 0 < ag ->
  0 <= h -> h <= he -> h <= hg -> 0 < he -> 0 < hg ->
  iou3 i h (ae * he) (ag * hg) <= iou i ae ag.
Proof.
  intros Hi Hae Hag Pe Pg Hh Hhe Hhg Phe Phg. unfold iou3, iou.
  assert (0 <= i * h) by (apply Qmult_le_0_compat; lra).
  assert (i * h <= ae * he) by nra.
  assert (0 < ag * hg) by nra.
  set (D3 := ae * he + ag * hg - i * h). set (D2 := ae + ag - i).
  assert (P3 : 0 < D3) by (unfold D3; lra). assert (P2 : 0 < D2) by (unfold D2; lra).
  apply Qle_shift_div_r; [exact P3|].
  assert (E : i / D2 * D3 == (i * D3) / D2) by (field; lra). rewrite E.
  apply Qle_shift_div_l; [exact P2|].
  set (K := ae * (he - h) + ag * (hg - h)).
  assert (K1 : 0 <= ae * (he - h)) by (apply Qmult_le_0_compat; lra).
  assert (K2 : 0 <= ag * (hg - h)) by (apply Qmult_le_0_compat; lra).
  assert (HK : 0 <= i * K) by (apply Qmult_le_0_compat; unfold K; lra).
  assert (EK : i * D3 - i * h * D2 == i * K) by (unfold D3, D2, K; ring).
  lra.
Qed.

Lemma iou3_zero i h ve vg : i * h == 0 -> iou3 i h ve vg == 0.
Proof. intros H. unfold iou3, Qdiv. rewrite H. ring. Qed.

Lemma iou3_one i h a hh : 0 < a * hh -> i == a -> h == hh -> iou3 i h (a * hh) (a * hh) == 1.
Proof.
  intros P Hi Hh. unfold iou3. rewrite Hi, Hh. set (v := a * hh) in *.
  assert (E : v + v - v == v) by ring. rewrite E. field. lra.
Qed.

Lemma iou3_swap i i' h h' ve vg : i == i' -> h == h' -> iou3 i h ve vg == iou3 i' h' vg ve.
Proof.
  intros H1 H2. unfold iou3. rewrite H1, H2.
  assert (E : ve + vg - i' * h' == vg + ve - i' * h') by ring. rewrite E. reflexivity.
Qed.

Lemma iou3_congr i i' h h' ve ve' vg vg' :
  i == i' -> h == h' -> ve == ve' -> vg == vg' -> iou3 i h ve vg == iou3 i' h' ve' vg'.
Proof. intros H1 H2 H3 H4. unfold iou3. rewrite H1, H2, H3, H4. reflexivity. Qed.

(* ======================================================================================== *)
(* 3. height intersection                                                                    *)
(* ======================================================================================== *)
Lemma height_intersection_nonneg e g : 0 <= height_intersection e g.
Proof. unfold height_intersection, qmax, qmin. halves. q_cases; lra. Qed.

Lemma height_intersection_le_l e g : 0 <= bh e -> height_intersection e g <= bh e.
Proof. intros H. unfold height_intersection, qmax, qmin. halves. q_cases; lra. Qed.

Lemma height_intersection_le_r e g : 0 <= bh g -> height_intersection e g <= bh g.
Proof. intros H. unfold height_intersection, qmax, qmin. halves. q_cases; lra. Qed.

Lemma height_intersection_sym e g : height_intersection e g == height_intersection g e.
Proof. unfold height_intersection, qmax, qmin. halves. q_cases; lra. Qed.

Lemma height_intersection_self b : 0 <= bh b -> height_intersection b b == bh b.
Proof. intros H. unfold height_intersection, qmax, qmin. halves. q_cases; lra. Qed.

(* it is the length of the common z-interval: z is in both boxes iff it is in the interval
   [max of the bottoms, min of the tops], whose length (if not empty) is the result *)
Lemma height_intersection_spec e g :
  let lo := qmax (bz e - bh e / 2) (bz g - bh g / 2) in
  let hi := qmin (bz e + bh e / 2) (bz g + bh g / 2) in
  (forall z, (bz e - bh e / 2 <= z <= bz e + bh e / 2 /\ bz g - bh g / 2 <= z <= bz g + bh g / 2)
             <-> lo <= z <= hi) /\
  (lo <= hi -> height_intersection e g == hi - lo) /\
  (hi < lo -> height_intersection e g == 0).
Proof.
  cbv zeta. split; [|split].
  - intros z. unfold qmax, qmin. halves. q_cases; lra.
  - unfold height_intersection, qmax, qmin. halves. q_cases; lra.
  - unfold height_intersection, qmax, qmin. halves. q_cases; lra.
Qed.

Lemma height_intersection_move m e g :
  height_intersection (move_box m e) (move_box m g) == height_intersection e g.
Proof. unfold height_intersection, move_box, qmax, qmin. cbn [bz bh]. halves. q_cases; lra. Qed.

(* ======================================================================================== *)
(* 4. axis-aligned rectangles                                                                *)
(* ======================================================================================== *)
Definition ovl (a0 a1 b0 b1 : Q) : Q := qmax 0 (qmin a1 b1 - qmax a0 b0).

Lemma inter_aa_ovl a b :
  inter_aa a b = ovl (x0 a) (x1 a) (x0 b) (x1 b) * ovl (y0 a) (y1 a) (y0 b) (y1 b).
Proof. reflexivity. Qed.

Lemma ovl_nonneg a0 a1 b0 b1 : 0 <= ovl a0 a1 b0 b1.
Proof. unfold ovl, qmax, qmin. q_cases; lra. Qed.
Lemma ovl_le_l a0 a1 b0 b1 : a0 <= a1 -> ovl a0 a1 b0 b1 <= a1 - a0.
Proof. intros H. unfold ovl, qmax, qmin. q_cases; lra. Qed.
Lemma ovl_le_r a0 a1 b0 b1 : b0 <= b1 -> ovl a0 a1 b0 b1 <= b1 - b0.
Proof. intros H. unfold ovl, qmax, qmin. q_cases; lra. Qed.
Lemma ovl_sym a0 a1 b0 b1 : ovl a0 a1 b0 b1 == ovl b0 b1 a0 a1.
Proof. unfold ovl, qmax, qmin. q_cases; lra. Qed.
Lemma ovl_self a0 a1 : a0 <= a1 -> ovl a0 a1 a0 a1 == a1 - a0.
Proof. intros H. unfold ovl, qmax, qmin. q_cases; lra. Qed.
Lemma ovl_disjoint a0 a1 b0 b1 : a1 <= b0 \/ b1 <= a0 -> ovl a0 a1 b0 b1 == 0.
Proof. intros H. unfold ovl, qmax, qmin. q_cases; lra. Qed.
Lemma ovl_shift t a0 a1 b0 b1 : ovl (a0 + t) (a1 + t) (b0 + t) (b1 + t) == ovl a0 a1 b0 b1.
Proof. unfold ovl, qmax, qmin. q_cases; lra. Qed.
Lemma ovl_congr a0 a1 b0 b1 a0' a1' b0' b1' :
  a0 == a0' -> a1 == a1' -> b0 == b0' -> b1 == b1' -> ovl a0 a1 b0 b1 == ovl a0' a1' b0' b1'.
Proof. intros. unfold ovl, qmax, qmin. q_cases; lra. Qed.
Lemma ovl_pos a0 a1 b0 b1 : a0 < b1 -> b0 < a1 -> a0 < a1 -> b0 < b1 -> 0 < ovl a0 a1 b0 b1.
Proof. intros. unfold ovl, qmax, qmin. q_cases; lra. Qed.
Lemma ovl_closed a0 a1 b0 b1 :
  (qmax a0 b0 <= qmin a1 b1 -> ovl a0 a1 b0 b1 == qmin a1 b1 - qmax a0 b0) /\
  (qmin a1 b1 < qmax a0 b0 -> ovl a0 a1 b0 b1 == 0).
Proof. unfold ovl, qmax, qmin. split; q_cases; lra. Qed.
Lemma ovl_common a0 a1 b0 b1 x :
  (a0 <= x /\ x <= a1) /\ (b0 <= x /\ x <= b1) <-> qmax a0 b0 <= x /\ x <= qmin a1 b1.
Proof. unfold qmax, qmin. q_cases; lra. Qed.

Lemma inter_aa_nonneg a b : 0 <= inter_aa a b.
Proof. rewrite inter_aa_ovl. apply Qmult_le_0_compat; apply ovl_nonneg. Qed.

Lemma mult_le_mult u v a b : 0 <= u -> u <= a -> 0 <= v -> v <= b -> u * v <= a * b.
Proof. intros. nra. Qed.

Lemma inter_aa_le_l a b : x0 a <= x1 a -> y0 a <= y1 a -> inter_aa a b <= rect_area a.
Proof.
  intros Hx Hy. rewrite inter_aa_ovl. unfold rect_area.
  apply mult_le_mult; auto using ovl_nonneg, ovl_le_l.
Qed.
Lemma inter_aa_le_r a b : x0 b <= x1 b -> y0 b <= y1 b -> inter_aa a b <= rect_area b.
Proof.
  intros Hx Hy. rewrite inter_aa_ovl. unfold rect_area.
  apply mult_le_mult; auto using ovl_nonneg, ovl_le_r.
Qed.
Lemma inter_aa_sym a b : inter_aa a b == inter_aa b a.
Proof. rewrite !inter_aa_ovl. rewrite (ovl_sym (x0 a)), (ovl_sym (y0 a)). reflexivity. Qed.
Lemma inter_aa_self a : x0 a <= x1 a -> y0 a <= y1 a -> inter_aa a a == rect_area a.
Proof. intros Hx Hy. rewrite inter_aa_ovl, !ovl_self by assumption. reflexivity. Qed.
Lemma inter_aa_disjoint a b : rects_disjoint a b -> inter_aa a b == 0.
Proof.
  intros H. rewrite inter_aa_ovl. unfold rects_disjoint in H.
  destruct H as [H|[H|[H|H]]].
  - rewrite (ovl_disjoint (x0 a)) by auto. ring.
  - rewrite (ovl_disjoint (x0 a)) by auto. ring.
  - rewrite (ovl_disjoint (y0 a)) by auto. ring.
  - rewrite (ovl_disjoint (y0 a)) by auto. ring.
Qed.
Lemma inter_aa_shift tx ty a b : inter_aa (shift_rect tx ty a) (shift_rect tx ty b) == inter_aa a b.
Proof. rewrite !inter_aa_ovl. unfold shift_rect. cbn [x0 x1 y0 y1]. rewrite !ovl_shift. reflexivity. Qed.
Lemma inter_aa_pos a b :
  rect_pos a -> rect_pos b -> x0 a < x1 b -> x0 b < x1 a -> y0 a < y1 b -> y0 b < y1 a -> 0 < inter_aa a b.
Proof.
  intros [] [] ? ? ? ?. rewrite inter_aa_ovl.
  assert (0 < ovl (x0 a) (x1 a) (x0 b) (x1 b)) by (apply ovl_pos; assumption).
  assert (0 < ovl (y0 a) (y1 a) (y0 b) (y1 b)) by (apply ovl_pos; assumption).
  nra.
Qed.

(* the closed form IS the area of the set of common points: the common points form the
   rectangle [meet a b]; the result is its area when it is not empty and 0 otherwise *)
Lemma meet_spec a b p : in_rect a p /\ in_rect b p <-> in_rect (meet a b) p.
Proof.
  unfold in_rect, meet. cbn [x0 x1 y0 y1].
  pose proof (ovl_common (x0 a) (x1 a) (x0 b) (x1 b) (fst p)).
  pose proof (ovl_common (y0 a) (y1 a) (y0 b) (y1 b) (snd p)). tauto.
Qed.
Lemma inter_aa_closed_form a b :
  let m := meet a b in
  (x0 m <= x1 m -> y0 m <= y1 m -> inter_aa a b == rect_area m) /\
  (x1 m < x0 m \/ y1 m < y0 m -> inter_aa a b == 0 /\ forall p, ~ (in_rect a p /\ in_rect b p)).
Proof.
  cbv zeta. rewrite inter_aa_ovl. unfold rect_area, meet. cbn [x0 x1 y0 y1].
  destruct (ovl_closed (x0 a) (x1 a) (x0 b) (x1 b)) as [X1 X2].
  destruct (ovl_closed (y0 a) (y1 a) (y0 b) (y1 b)) as [Y1 Y2].
  split.
  - intros Hx Hy. rewrite X1, Y1 by assumption. reflexivity.
  - intros H. split.
    + destruct H as [H|H]; [rewrite X2 by assumption|rewrite Y2 by assumption]; ring.
    + intros p Hp. apply meet_spec in Hp. unfold in_rect, meet in Hp. cbn [x0 x1 y0 y1] in Hp. lra.
Qed.

Lemma rect_area_pos a : rect_pos a -> 0 < rect_area a.
Proof. intros [Hx Hy]. unfold rect_area. nra. Qed.
Lemma rect_area_shift tx ty a : rect_area (shift_rect tx ty a) == rect_area a.
Proof. unfold rect_area, shift_rect. cbn [x0 x1 y0 y1]. ring. Qed.

Lemma iou_aa_bounds a b : rect_pos a -> rect_pos b -> 0 <= iou_aa a b <= 1.
Proof.
  intros Pa Pb. unfold iou_aa. destruct Pa as [Ax Ay], Pb as [Bx By].
  apply iou_bounds.
  - apply inter_aa_nonneg.
  - apply inter_aa_le_l; lra.
  - apply inter_aa_le_r; lra.
  - apply rect_area_pos; split; assumption.
  - apply rect_area_pos; split; assumption.
Qed.
Lemma iou_aa_sym a b : iou_aa a b == iou_aa b a.
Proof. unfold iou_aa. apply iou_swap, inter_aa_sym. Qed.
Lemma iou_aa_identical a : rect_pos a -> iou_aa a a == 1.
Proof.
  intros Pa. unfold iou_aa. apply iou_one.
  - now apply rect_area_pos.
  - destruct Pa. apply inter_aa_self; lra.
  - reflexivity.
Qed.
Lemma iou_aa_disjoint a b : rects_disjoint a b -> iou_aa a b == 0.
Proof. intros H. unfold iou_aa. apply iou_zero, inter_aa_disjoint, H. Qed.
Lemma iou_aa_shift tx ty a b : iou_aa (shift_rect tx ty a) (shift_rect tx ty b) == iou_aa a b.
Proof. unfold iou_aa. apply iou_congr; [apply inter_aa_shift|apply rect_area_shift|apply rect_area_shift]. Qed.
(* conversely a positive IoU needs interiors that really overlap *)
Lemma iou_aa_overlap_pos a b :
  rect_pos a -> rect_pos b -> x0 a < x1 b -> x0 b < x1 a -> y0 a < y1 b -> y0 b < y1 a -> 0 < iou_aa a b.
Proof.
  intros Pa Pb ? ? ? ?. unfold iou_aa. apply iou_pos.
  - now apply inter_aa_pos.
  - destruct Pa. apply inter_aa_le_l; lra.
  - destruct Pb. apply inter_aa_le_r; lra.
Qed.

(* IoU = 0 exactly for disjoint-or-touching rectangles, IoU = 1 exactly for identical ones *)
Lemma iou_aa_zero_iff a b : rect_pos a -> rect_pos b -> (iou_aa a b == 0 <-> rects_disjoint a b).
Proof.
  intros Pa Pb. split; [|apply iou_aa_disjoint].
  intros H. unfold rects_disjoint.
  destruct (Qlt_le_dec (x0 b) (x1 a)) as [H1|H1]; [|auto].
  destruct (Qlt_le_dec (x0 a) (x1 b)) as [H2|H2]; [|auto].
  destruct (Qlt_le_dec (y0 b) (y1 a)) as [H3|H3]; [|auto].
  destruct (Qlt_le_dec (y0 a) (y1 b)) as [H4|H4]; [|auto].
  pose proof (iou_aa_overlap_pos a b Pa Pb H2 H1 H4 H3). lra.
Qed.

Lemma ovl_full_l a0 a1 b0 b1 : a0 < a1 -> ovl a0 a1 b0 b1 == a1 - a0 -> b0 <= a0 /\ a1 <= b1.
Proof. intros P. unfold ovl, qmax, qmin. q_cases; lra. Qed.
Lemma ovl_full_r a0 a1 b0 b1 : b0 < b1 -> ovl a0 a1 b0 b1 == b1 - b0 -> a0 <= b0 /\ b1 <= a1.
Proof. intros P. unfold ovl, qmax, qmin. q_cases; lra. Qed.

Lemma prod_full u v w h : 0 <= u -> u <= w -> 0 <= v -> v <= h -> 0 < w -> 0 < h -> u * v == w * h -> u == w /\ v == h.
Proof.
  intros Hu Huw Hv Hvh Pw Ph E.
  assert (A : 0 <= u * (h - v)) by (apply Qmult_le_0_compat; lra).
  assert (B : 0 <= (w - u) * h) by (apply Qmult_le_0_compat; lra).
  assert (D : (w - u) * h == 0) by lra.
  assert (U : u == w).
  { apply Qmult_integral in D. destruct D; lra. }
  split; [exact U|].
  assert (F : w * (h - v) == 0) by (rewrite <- U; lra).
  apply Qmult_integral in F. destruct F; lra.
Qed.

Definition rect_eq (a b : rect) : Prop := x0 a == x0 b /\ y0 a == y0 b /\ x1 a == x1 b /\ y1 a == y1 b.

Lemma iou_aa_one_iff a b : rect_pos a -> rect_pos b -> (iou_aa a b == 1 <-> rect_eq a b).
Proof.
  intros Pa Pb. pose proof Pa as [Ax Ay]. pose proof Pb as [Bx By]. split.
  - intros H. unfold iou_aa in H.
    apply iou_one_inv in H; try (now apply rect_area_pos); try apply inter_aa_nonneg;
      try (apply inter_aa_le_l; lra); try (apply inter_aa_le_r; lra).
    destruct H as [Ha Hb]. rewrite inter_aa_ovl in Ha, Hb. unfold rect_area in Ha, Hb.
    apply prod_full in Ha; try apply ovl_nonneg; try (apply ovl_le_l; lra); try lra.
    apply prod_full in Hb; try apply ovl_nonneg; try (apply ovl_le_r; lra); try lra.
    destruct Ha as [Hax Hay], Hb as [Hbx Hby].
    apply ovl_full_l in Hax, Hay; try assumption. apply ovl_full_r in Hbx, Hby; try assumption.
    unfold rect_eq. repeat split; lra.
  - intros (E0 & E1 & E2 & E3). unfold iou_aa. apply iou_one.
    + now apply rect_area_pos.
    + rewrite inter_aa_ovl. unfold rect_area.
      rewrite (ovl_congr (x0 a) (x1 a) (x0 b) (x1 b) (x0 a) (x1 a) (x0 a) (x1 a)); try reflexivity; try (symmetry; assumption).
      rewrite (ovl_congr (y0 a) (y1 a) (y0 b) (y1 b) (y0 a) (y1 a) (y0 a) (y1 a)); try reflexivity; try (symmetry; assumption).
      rewrite !ovl_self by lra. reflexivity.
    + unfold rect_area. rewrite E0, E1, E2, E3. reflexivity.
Qed.

(* yaw = 0 boxes *)
Lemma rect_of_box_pos b : box_pos b -> rect_pos (rect_of_box b).
Proof. intros (Hw & Hl & _). unfold rect_pos, rect_of_box. cbn [x0 x1 y0 y1]. halves. split; lra. Qed.
Lemma rect_of_box_area b : rect_area (rect_of_box b) == area_rect b.
Proof. unfold rect_area, rect_of_box, area_rect. cbn [x0 x1 y0 y1]. field. Qed.
Lemma corners_aa b :
  bc b == 1 -> bs b == 0 ->
  let r := rect_of_box b in
  Forall2 pt_eq (corners b) [(x1 r, y1 r); (x0 r, y1 r); (x0 r, y0 r); (x1 r, y0 r)].
Proof.
  intros Hc Hs. cbv zeta. unfold corners, local_corners, place, add_pt, rot, centre2, rect_of_box.
  cbn [map fst snd x0 x1 y0 y1].
  repeat constructor; cbn [fst snd]; rewrite Hc, Hs; field.
Qed.

(* ROIs *)
Lemma rect_of_roi_pos r : roi_pos r -> rect_pos (rect_of_roi r).
Proof.
  intros [Hw Hh]. unfold rect_pos, rect_of_roi. cbn [x0 x1 y0 y1]. rewrite <- !Zlt_Qlt. lia.
Qed.
Lemma rect_of_roi_area r : rect_area (rect_of_roi r) == inject_Z (roi_area r).
Proof.
  unfold rect_area, rect_of_roi, roi_area. cbn [x0 x1 y0 y1].
  rewrite !inject_Z_plus, inject_Z_mult. ring.
Qed.
Lemma iou_roi_aa a b : iou_roi a b == iou_aa (rect_of_roi a) (rect_of_roi b).
Proof.
  unfold iou_roi, iou_aa. apply iou_congr; [reflexivity| |]; symmetry; apply rect_of_roi_area.
Qed.
Lemma iou_roi_bounds a b : roi_pos a -> roi_pos b -> 0 <= iou_roi a b <= 1.
Proof. intros Pa Pb. rewrite iou_roi_aa. apply iou_aa_bounds; now apply rect_of_roi_pos. Qed.
Lemma iou_roi_sym a b : iou_roi a b == iou_roi b a.
Proof. rewrite !iou_roi_aa. apply iou_aa_sym. Qed.
Lemma iou_roi_identical a : roi_pos a -> iou_roi a a == 1.
Proof. intros Pa. rewrite iou_roi_aa. now apply iou_aa_identical, rect_of_roi_pos. Qed.
Definition rois_disjoint (a b : roi) : Prop :=
  (rx a + rw a <= rx b \/ rx b + rw b <= rx a \/ ry a + rh a <= ry b \/ ry b + rh b <= ry a)%Z.
Lemma iou_roi_disjoint a b : rois_disjoint a b -> iou_roi a b == 0.
Proof.
  intros H. rewrite iou_roi_aa. apply iou_aa_disjoint.
  unfold rects_disjoint, rect_of_roi. cbn [x0 x1 y0 y1]. rewrite <- !Zle_Qle. exact H.
Qed.
Lemma iou_roi_shift tx ty a b : iou_roi (shift_roi tx ty a) (shift_roi tx ty b) == iou_roi a b.
Proof.
  rewrite !iou_roi_aa.
  rewrite <- (iou_aa_shift (inject_Z tx) (inject_Z ty) (rect_of_roi a) (rect_of_roi b)).
  unfold iou_aa. apply iou_congr.
  - rewrite !inter_aa_ovl. unfold shift_rect, rect_of_roi, shift_roi. cbn [x0 x1 y0 y1 rx ry rw rh].
    apply Qmult_comp; apply ovl_congr; rewrite ?inject_Z_plus; ring.
  - unfold rect_area, shift_rect, rect_of_roi, shift_roi. cbn [x0 x1 y0 y1 rx ry rw rh].
    rewrite !inject_Z_plus. ring.
  - unfold rect_area, shift_rect, rect_of_roi, shift_roi. cbn [x0 x1 y0 y1 rx ry rw rh].
    rewrite !inject_Z_plus. ring.
Qed.

(* ======================================================================================== *)
(* 5. boxes under rigid motions                                                              *)
(* ======================================================================================== *)
Lemma area_rect_move m b : area_rect (move_box m b) = area_rect b.
Proof. reflexivity. Qed.
Lemma volume_move m b : volume (move_box m b) = volume b.
Proof. reflexivity. Qed.
Lemma box_pos_move m b : box_pos (move_box m b) <-> box_pos b.
Proof. reflexivity. Qed.
Lemma box_unit_move m b : motion_unit m -> box_unit b -> box_unit (move_box m b).
Proof.
  unfold motion_unit, box_unit, move_box. cbn [bc bs]. intros Um Ub.
  transitivity ((mc m * mc m + ms m * ms m) * (bc b * bc b + bs b * bs b)); [ring|].
  rewrite Um, Ub. ring.
Qed.
Lemma box_valid_move m b : motion_unit m -> box_valid b -> box_valid (move_box m b).
Proof. intros Um [P U]. split; [exact P|now apply box_unit_move]. Qed.

Lemma area_rect_pos b : box_pos b -> 0 < area_rect b.
Proof. intros (Hw & Hl & _). unfold area_rect. nra. Qed.
Lemma volume_pos b : box_pos b -> 0 < volume b.
Proof. intros (Hw & Hl & Hh). unfold volume, area_rect. assert (0 < bl b * bw b) by nra. nra. Qed.

(* the footprint moves with the box: corner k of the moved box = moved corner k *)
Lemma place_move m b p : pt_eq (place (move_box m b) p) (move_pt m (place b p)).
Proof.
  unfold pt_eq, place, move_box, move_pt, add_pt, rot, centre2. cbn [fst snd bx by_ bc bs]. split; ring.
Qed.
Lemma corners_move m b : Forall2 pt_eq (corners (move_box m b)) (map (move_pt m) (corners b)).
Proof.
  unfold corners. change (local_corners (move_box m b)) with (local_corners b).
  induction (local_corners b) as [|p t IH]; cbn [map]; constructor; [apply place_move|exact IH].
Qed.

(* British-flag identity: for the four corners of a rectangle and ANY point P (here the ego),
   |P c0|^2 + |P c2|^2 = |P c1|^2 + |P c3|^2 *)
Lemma corners_flag b :
  match corners b with
  | [c0; c1; c2; c3] => sqnorm c0 + sqnorm c2 == sqnorm c1 + sqnorm c3
  | _ => False
  end.
Proof.
  unfold corners, local_corners, place, add_pt, rot, centre2, sqnorm, sq. cbn [map fst snd].
  halves. ring.
Qed.

(* ======================================================================================== *)
(* 6. IoU of arbitrary (rotated) boxes, relative to the intersection-area oracle             *)
(*    [inter] stands for shapely's  footprint.intersection(footprint).area ; what is assumed  *)
(*    about it is listed as hypotheses and recorded in the evidence as trusted base.          *)
(* ======================================================================================== *)
Section IoUAlgebra.
  Variable inter : box -> box -> Q.

  Hypothesis inter_nonneg : forall e g, box_valid e -> box_valid g -> 0 <= inter e g.
  Hypothesis inter_le_l : forall e g, box_valid e -> box_valid g -> inter e g <= area_rect e.
  Hypothesis inter_le_r : forall e g, box_valid e -> box_valid g -> inter e g <= area_rect g.
  Hypothesis inter_sym : forall e g, box_valid e -> box_valid g -> inter e g == inter g e.
  Hypothesis inter_same : forall e g, box_valid e -> box_valid g -> same_bev e g -> inter e g == area_rect e.
  Hypothesis inter_disjoint : forall e g, box_valid e -> box_valid g -> boxes_disjoint e g -> inter e g == 0.
  Hypothesis inter_rigid : forall m e g, motion_unit m -> box_valid e -> box_valid g ->
      inter (move_box m e) (move_box m g) == inter e g.

  Lemma iou2_unit_interval e g : box_valid e -> box_valid g -> 0 <= iou2_box inter e g <= 1.
  Proof.
    intros Ve Vg. unfold iou2_box. apply iou_bounds; auto.
    - apply area_rect_pos, Ve.
    - apply area_rect_pos, Vg.
  Qed.

  Lemma iou3_unit_interval e g : box_valid e -> box_valid g -> 0 <= iou3_box inter e g <= 1.
  Proof.
    intros Ve Vg. unfold iou3_box, volume.
    destruct Ve as [Pe Ue], Vg as [Pg Ug].
    apply iou3_bounds; try (now auto using area_rect_pos); try (now (split; auto)).
    - apply inter_nonneg; split; auto.
    - apply inter_le_l; split; auto.
    - apply inter_le_r; split; auto.
    - apply height_intersection_nonneg.
    - apply height_intersection_le_l. destruct Pe as (_ & _ & H). lra.
    - apply height_intersection_le_r. destruct Pg as (_ & _ & H). lra.
    - apply Pe.
    - apply Pg.
  Qed.

  Lemma iou2_sym e g : box_valid e -> box_valid g -> iou2_box inter e g == iou2_box inter g e.
  Proof. intros Ve Vg. unfold iou2_box. apply iou_swap. now apply inter_sym. Qed.

  Lemma iou3_sym e g : box_valid e -> box_valid g -> iou3_box inter e g == iou3_box inter g e.
  Proof.
    intros Ve Vg. unfold iou3_box. apply iou3_swap; [now apply inter_sym|apply height_intersection_sym].
  Qed.

  Lemma iou2_identical_one e g : box_valid e -> box_valid g -> same_bev e g -> iou2_box inter e g == 1.
  Proof.
    intros Ve Vg S. unfold iou2_box. apply iou_one.
    - apply area_rect_pos, Ve.
    - now apply inter_same.
    - destruct S as (_ & _ & _ & _ & Hw & Hl). unfold area_rect. rewrite Hw, Hl. reflexivity.
  Qed.

  Lemma same_bev_refl b : same_bev b b.
  Proof. unfold same_bev. repeat split; reflexivity. Qed.

  Lemma iou3_identical_one b : box_valid b -> iou3_box inter b b == 1.
  Proof.
    intros V. unfold iou3_box, volume. apply iou3_one.
    - fold (volume b). apply volume_pos, V.
    - apply inter_same; auto using same_bev_refl.
    - apply height_intersection_self. destruct V as [(_ & _ & H) _]. lra.
  Qed.

  Lemma iou2_disjoint_zero e g : box_valid e -> box_valid g -> boxes_disjoint e g -> iou2_box inter e g == 0.
  Proof. intros Ve Vg D. unfold iou2_box. apply iou_zero. now apply inter_disjoint. Qed.

  Lemma iou3_disjoint_zero e g : box_valid e -> box_valid g -> boxes_disjoint e g -> iou3_box inter e g == 0.
  Proof.
    intros Ve Vg D. unfold iou3_box. apply iou3_zero. rewrite inter_disjoint by assumption. ring.
  Qed.

  (* boxes that do not share a z-interval of positive length have 3D IoU 0 whatever the footprints *)
  Lemma iou3_height_disjoint_zero e g :
    bz e + bh e / 2 <= bz g - bh g / 2 \/ bz g + bh g / 2 <= bz e - bh e / 2 -> iou3_box inter e g == 0.
  Proof.
    intros H. unfold iou3_box. apply iou3_zero.
    assert (E : height_intersection e g == 0).
    { revert H. unfold height_intersection, qmax, qmin. halves. q_cases; lra. }
    rewrite E. ring.
  Qed.

  Lemma iou2_rigid_invariant m e g :
    motion_unit m -> box_valid e -> box_valid g ->
    iou2_box inter (move_box m e) (move_box m g) == iou2_box inter e g.
  Proof.
    intros Um Ve Vg. unfold iou2_box. rewrite !area_rect_move.
    apply iou_congr; [now apply inter_rigid|reflexivity|reflexivity].
  Qed.

  Lemma iou3_rigid_invariant m e g :
    motion_unit m -> box_valid e -> box_valid g ->
    iou3_box inter (move_box m e) (move_box m g) == iou3_box inter e g.
  Proof.
    intros Um Ve Vg. unfold iou3_box. rewrite !volume_move.
    apply iou3_congr; [now apply inter_rigid|apply height_intersection_move|reflexivity|reflexivity].
  Qed.

  Lemma iou3_le_iou2 e g : box_valid e -> box_valid g -> iou3_box inter e g <= iou2_box inter e g.
  Proof.
    intros Ve Vg. unfold iou3_box, iou2_box, volume.
    destruct Ve as [Pe Ue], Vg as [Pg Ug].
    apply iou3_le_iou2_num; try (now auto using area_rect_pos).
    - apply inter_nonneg; split; auto.
    - apply inter_le_l; split; auto.
    - apply inter_le_r; split; auto.
    - apply height_intersection_nonneg.
    - apply height_intersection_le_l. destruct Pe as (_ & _ & H). lra.
    - apply height_intersection_le_r. destruct Pg as (_ & _ & H). lra.
    - apply Pe.
    - apply Pg.
  Qed.
End IoUAlgebra.

(* ======================================================================================== *)
(* 7. plane distance                                                                         *)
(* ======================================================================================== *)
(* 7.1 the two selected indices of FOUR keys: exhaustive analysis of the insertion sort *)
Definition key4 (d0 d1 d2 d3 : Q) (k : nat) : Q :=
  match k with 0%nat => d0 | 1%nat => d1 | 2%nat => d2 | _ => d3 end.

Definition sel2 (keys : list Q) : option (nat * nat) :=
  match argsort keys with i :: j :: _ => Some (i, j) | _ => None end.

Lemma plane_sel_sel2 g : plane_sel g = sel2 (map sqnorm g).
Proof. reflexivity. Qed.

Lemma sel2_spec4 d0 d1 d2 d3 :
  exists i j, sel2 [d0; d1; d2; d3] = Some (i, j) /\
    (i < 4)%nat /\ (j < 4)%nat /\ i <> j /\
    key4 d0 d1 d2 d3 i <= key4 d0 d1 d2 d3 j /\
    (forall k, (k < 4)%nat -> k <> i -> k <> j -> key4 d0 d1 d2 d3 j <= key4 d0 d1 d2 d3 k) /\
    (d0 + d2 == d1 + d3 -> adjacent4 i j).
Proof.
  unfold sel2, argsort.
  cbn [length seq combine isort_keys insert_key map fst snd].
  repeat match goal with
  | |- context [Qleb ?x ?y] => destruct (Qleb_spec x y); cbn [insert_key map fst snd]
  end;
  (eexists; eexists; split; [reflexivity|]);
  (split; [lia|]); (split; [lia|]); (split; [lia|]);
  (split; [cbn [key4]; lra|]);
  (split; [intros k Hk Hi Hj; destruct k as [|[|[|[|k]]]]; try lia; cbn [key4]; lra|]);
  intros F; unfold adjacent4;
  first [left; reflexivity | right; reflexivity | exfalso; lra].
Qed.

(* 7.2 the sort, hence the selection, depends on the keys only up to == *)
Definition kv_eq (a b : nat * Q) : Prop := fst a = fst b /\ snd a == snd b.

Lemma insert_key_congr x x' l l' :
  kv_eq x x' -> Forall2 kv_eq l l' -> Forall2 kv_eq (insert_key x l) (insert_key x' l').
Proof.
  intros Hx H. induction H as [|y y' t t' Hy Ht IH]; cbn [insert_key].
  - repeat constructor; apply Hx.
  - rewrite (Qleb_proper _ _ (proj2 Hx) _ _ (proj2 Hy)).
    destruct (Qleb (snd x') (snd y')); repeat constructor; auto; try apply Hx; apply Hy.
Qed.

Lemma isort_keys_congr l l' : Forall2 kv_eq l l' -> Forall2 kv_eq (isort_keys l) (isort_keys l').
Proof.
  intros H. induction H as [|x x' t t' Hx Ht IH]; cbn [isort_keys]; [constructor|].
  now apply insert_key_congr.
Qed.

Lemma combine_congr idx k k' : Forall2 Qeq k k' -> Forall2 kv_eq (combine idx k) (combine idx k').
Proof.
  intros H. revert idx. induction H as [|x x' t t' Hx Ht IH]; intros [|i idx]; cbn [combine]; constructor.
  - split; [reflexivity|exact Hx].
  - apply IH.
Qed.

Lemma Forall2_length_eq {A B} (R : A -> B -> Prop) l l' : Forall2 R l l' -> length l = length l'.
Proof. induction 1; cbn; congruence. Qed.

Lemma map_fst_kv_eq l l' : Forall2 kv_eq l l' -> map fst l = map fst l'.
Proof. induction 1 as [|x x' t t' Hx Ht IH]; cbn [map]; [reflexivity|]. destruct Hx as [-> _]. now rewrite IH. Qed.

Lemma argsort_congr k k' : Forall2 Qeq k k' -> argsort k = argsort k'.
Proof.
  intros H. unfold argsort. rewrite (Forall2_length_eq _ _ _ H).
  apply map_fst_kv_eq, isort_keys_congr, combine_congr, H.
Qed.

Lemma Forall2_nth_error {A B} (R : A -> B -> Prop) l l' :
  Forall2 R l l' -> forall i,
  match nth_error l i, nth_error l' i with
  | Some a, Some b => R a b | None, None => True | _, _ => False end.
Proof.
  induction 1 as [|x x' t t' Hx Ht IH]; intros [|i]; cbn [nth_error]; auto. apply IH.
Qed.

Lemma sqnorm_pt_eq p q : pt_eq p q -> sqnorm p == sqnorm q.
Proof. intros [H1 H2]. unfold sqnorm, sq. rewrite H1, H2. reflexivity. Qed.
Lemma cross0_pt_eq p q p' q' : pt_eq p p' -> pt_eq q q' -> cross0 p q == cross0 p' q'.
Proof. intros [H1 H2] [H3 H4]. unfold cross0. rewrite H1, H2, H3, H4. reflexivity. Qed.
Lemma sqdist_bev_pt_eq p q p' q' : pt_eq p p' -> pt_eq q q' -> sqdist_bev p q == sqdist_bev p' q'.
Proof. intros [H1 H2] [H3 H4]. unfold sqdist_bev, sq. rewrite H1, H2, H3, H4. reflexivity. Qed.

Definition oQeq (a b : option Q) : Prop :=
  match a, b with Some x, Some y => x == y | None, None => True | _, _ => False end.

(* 7.3 any map of the plane that preserves the distance to the ego, the orientation test and
   mutual distances (e.g. a rotation about the ego) leaves the plane distance unchanged --
   ties included, because equal rationals stay equal *)
Section PlaneIso.
  Variable f : pt -> pt.
  Hypothesis f_norm : forall p, sqnorm (f p) == sqnorm p.
  Hypothesis f_cross : forall p q, cross0 (f p) (f q) == cross0 p q.
  Hypothesis f_dist : forall p q, sqdist_bev (f p) (f q) == sqdist_bev p q.

  Definition img (p p' : pt) : Prop := pt_eq p' (f p).

  Lemma keys_img g g' : Forall2 img g g' -> Forall2 Qeq (map sqnorm g') (map sqnorm g).
  Proof.
    induction 1 as [|p p' t t' Hp Ht IH]; cbn [map]; constructor; [|exact IH].
    rewrite (sqnorm_pt_eq _ _ Hp). apply f_norm.
  Qed.

  Lemma plane_sel_img g g' : Forall2 img g g' -> plane_sel g' = plane_sel g.
  Proof. intros H. unfold plane_sel. now rewrite (argsort_congr _ _ (keys_img _ _ H)). Qed.

  Lemma left_right_img i j gi gj gi' gj' :
    img gi gi' -> img gj gj' -> left_right i j gi' gj' = left_right i j gi gj.
  Proof.
    intros Hi Hj. unfold left_right.
    assert (E : cross0 gi' gj' == cross0 gi gj).
    { rewrite (cross0_pt_eq _ _ _ _ Hi Hj). apply f_cross. }
    now rewrite (Qltb_proper _ _ E 0 0 (Qeq_refl 0)).
  Qed.

  Lemma sqdist_img p q p' q' : img p p' -> img q q' -> sqdist_bev p' q' == sqdist_bev p q.
  Proof. intros Hp Hq. rewrite (sqdist_bev_pt_eq _ _ _ _ Hp Hq). apply f_dist. Qed.

  Lemma plane_sq_at_img ij e g e' g' :
    Forall2 img e e' -> Forall2 img g g' -> oQeq (plane_sq_at ij e' g') (plane_sq_at ij e g).
  Proof.
    intros He Hg. destruct ij as [i j]. unfold plane_sq_at.
    pose proof (Forall2_nth_error _ _ _ Hg i) as Gi. pose proof (Forall2_nth_error _ _ _ Hg j) as Gj.
    destruct (nth_error g i) as [gi|], (nth_error g' i) as [gi'|]; try contradiction; [|exact I].
    destruct (nth_error g j) as [gj|], (nth_error g' j) as [gj'|]; try contradiction; [|exact I].
    rewrite (left_right_img i j gi gj gi' gj' Gi Gj).
    destruct (left_right i j gi gj) as [l r].
    pose proof (Forall2_nth_error _ _ _ He l) as El. pose proof (Forall2_nth_error _ _ _ Hg l) as Gl.
    pose proof (Forall2_nth_error _ _ _ He r) as Er. pose proof (Forall2_nth_error _ _ _ Hg r) as Gr.
    destruct (nth_error e l) as [el|], (nth_error e' l) as [el'|]; try contradiction; [|exact I].
    destruct (nth_error g l) as [gl|], (nth_error g' l) as [gl'|]; try contradiction; [|exact I].
    destruct (nth_error e r) as [er|], (nth_error e' r) as [er'|]; try contradiction; [|exact I].
    destruct (nth_error g r) as [gr|], (nth_error g' r) as [gr'|]; try contradiction; [|exact I].
    cbn [oQeq]. rewrite (sqdist_img _ _ _ _ El Gl), (sqdist_img _ _ _ _ Er Gr). reflexivity.
  Qed.

  Lemma plane_sq_img e g e' g' :
    Forall2 img e e' -> Forall2 img g g' -> oQeq (plane_sq e' g') (plane_sq e g).
  Proof.
    intros He Hg. unfold plane_sq. rewrite (plane_sel_img _ _ Hg).
    destruct (plane_sel g) as [ij|]; [now apply plane_sq_at_img|exact I].
  Qed.
End PlaneIso.

(* a rotation about the ego is such a map *)
Lemma cross0_rot c s p q : c * c + s * s == 1 -> cross0 (rot c s p) (rot c s q) == cross0 p q.
Proof.
  intros U. unfold cross0, rot. cbn [fst snd].
  transitivity ((c * c + s * s) * (fst p * snd q - snd p * fst q)); [ring|]. rewrite U. ring.
Qed.
Lemma sqdist_bev_rot c s p q : c * c + s * s == 1 -> sqdist_bev (rot c s p) (rot c s q) == sqdist_bev p q.
Proof.
  intros U. unfold sqdist_bev, rot, sq. cbn [fst snd].
  transitivity ((c * c + s * s) * ((fst p - fst q) * (fst p - fst q) + (snd p - snd q) * (snd p - snd q))); [ring|].
  rewrite U. ring.
Qed.

Lemma corners_rotation c s b :
  Forall2 (img (rot c s)) (corners b) (corners (move_box (rotation c s) b)).
Proof.
  pose proof (corners_move (rotation c s) b) as H.
  remember (corners (move_box (rotation c s) b)) as l' eqn:E. clear E.
  revert l' H. induction (corners b) as [|p t IH]; intros l' H; inversion H; subst; constructor.
  - unfold img. match goal with H : pt_eq _ (move_pt _ _) |- _ => destruct H as [H1 H2] end.
    unfold move_pt, rotation, add_pt in H1, H2. cbn [mc ms mtx mty fst snd] in H1, H2.
    split; [rewrite H1|rewrite H2]; ring.
  - apply IH. assumption.
Qed.

Lemma plane_sq_rotation_invariant c s e g :
  c * c + s * s == 1 ->
  oQeq (plane_sq_box (move_box (rotation c s) e) (move_box (rotation c s) g)) (plane_sq_box e g).
Proof.
  intros U. unfold plane_sq_box.
  apply (plane_sq_img (rot c s)).
  - intros p. now apply sqnorm_rot.
  - intros p q. now apply cross0_rot.
  - intros p q. now apply sqdist_bev_rot.
  - apply corners_rotation.
  - apply corners_rotation.
Qed.

(* 7.4 the value for two boxes: the mean of the squared distances between corresponding
   corners at the two ends of the ground truth's side that is nearest to the ego *)
Lemma nth4_key (g0 g1 g2 g3 : pt) k gk :
  nth_error [g0; g1; g2; g3] k = Some gk ->
  (k < 4)%nat /\ sqnorm gk = key4 (sqnorm g0) (sqnorm g1) (sqnorm g2) (sqnorm g3) k.
Proof.
  destruct k as [|[|[|[|k]]]]; cbn [nth_error key4]; intros H; try (inversion H; subst; split; [lia|reflexivity]).
  destruct k; discriminate.
Qed.
Lemma nth4_some {A} (g0 g1 g2 g3 : A) k : (k < 4)%nat -> exists gk, nth_error [g0; g1; g2; g3] k = Some gk.
Proof. destruct k as [|[|[|[|k]]]]; cbn [nth_error]; intros H; try lia; eexists; reflexivity. Qed.

Lemma corners4 b :
  corners b = [place b (bl b / 2, bw b / 2); place b (- bl b / 2, bw b / 2);
               place b (- bl b / 2, - bw b / 2); place b (bl b / 2, - bw b / 2)].
Proof. reflexivity. Qed.

Lemma plane_sq_box_spec e g :
  exists i j gi gj ei ej,
    plane_sel (corners g) = Some (i, j) /\
    nth_error (corners g) i = Some gi /\ nth_error (corners g) j = Some gj /\
    nth_error (corners e) i = Some ei /\ nth_error (corners e) j = Some ej /\
    i <> j /\ adjacent4 i j /\
    sqnorm gi <= sqnorm gj /\
    (forall k gk, k <> i -> k <> j -> nth_error (corners g) k = Some gk -> sqnorm gj <= sqnorm gk) /\
    oQeq (plane_sq_box e g) (Some ((1 # 2) * (sqdist_bev ei gi + sqdist_bev ej gj))).
Proof.
  pose proof (corners_flag g) as F. unfold plane_sq_box, plane_sq.
  rewrite (corners4 g) in *. rewrite (corners4 e).
  set (g0 := place g (bl g / 2, bw g / 2)) in *. set (g1 := place g (- bl g / 2, bw g / 2)) in *.
  set (g2 := place g (- bl g / 2, - bw g / 2)) in *. set (g3 := place g (bl g / 2, - bw g / 2)) in *.
  set (e0 := place e (bl e / 2, bw e / 2)). set (e1 := place e (- bl e / 2, bw e / 2)).
  set (e2 := place e (- bl e / 2, - bw e / 2)). set (e3 := place e (bl e / 2, - bw e / 2)).
  cbn [map].
  destruct (sel2_spec4 (sqnorm g0) (sqnorm g1) (sqnorm g2) (sqnorm g3))
    as (i & j & Hsel & Hi & Hj & Hne & Hle & Hoth & Hadj).
  destruct (nth4_some g0 g1 g2 g3 i Hi) as [gi Hgi]. destruct (nth4_some g0 g1 g2 g3 j Hj) as [gj Hgj].
  destruct (nth4_some e0 e1 e2 e3 i Hi) as [ei Hei]. destruct (nth4_some e0 e1 e2 e3 j Hj) as [ej Hej].
  exists i, j, gi, gj, ei, ej. rewrite !plane_sel_sel2. cbn [map]. rewrite Hsel.
  destruct (nth4_key _ _ _ _ _ _ Hgi) as [_ Ki]. destruct (nth4_key _ _ _ _ _ _ Hgj) as [_ Kj].
  repeat (split; [first [reflexivity|assumption]|]).
  split; [apply Hadj, F|].
  split; [rewrite Ki, Kj; exact Hle|].
  split.
  - intros k gk Hki Hkj Hk. destruct (nth4_key _ _ _ _ _ _ Hk) as [Hk4 Kk]. rewrite Kj, Kk. now apply Hoth.
  - unfold plane_sq_at. rewrite Hgi, Hgj. unfold left_right.
    destruct (Qltb (cross0 gi gj) 0); rewrite ?Hei, ?Hej, ?Hgi, ?Hgj; cbn [oQeq]; ring.
Qed.

Lemma plane_sq_box_some e g : exists v, plane_sq_box e g = Some v.
Proof.
  destruct (plane_sq_box_spec e g) as (i & j & gi & gj & ei & ej & _ & _ & _ & _ & _ & _ & _ & _ & _ & H).
  destruct (plane_sq_box e g) as [v|]; [now exists v|contradiction].
Qed.

Lemma plane_sq_box_nonneg e g v : plane_sq_box e g = Some v -> 0 <= v.
Proof.
  intros Hv.
  destruct (plane_sq_box_spec e g) as (i & j & gi & gj & ei & ej & _ & _ & _ & _ & _ & _ & _ & _ & _ & H).
  rewrite Hv in H. cbn [oQeq] in H. rewrite H.
  pose proof (sqdist_bev_nonneg ei gi). pose proof (sqdist_bev_nonneg ej gj). lra.
Qed.

Lemma corners_same_bev e g : same_bev e g -> Forall2 pt_eq (corners e) (corners g).
Proof.
  intros (Hx & Hy & Hc & Hs & Hw & Hl). rewrite !corners4.
  unfold place, add_pt, rot, centre2, pt_eq. cbn [fst snd].
  repeat (apply Forall2_cons;
          [split; cbn [fst snd]; rewrite ?Hx, ?Hy, ?Hc, ?Hs, ?Hw, ?Hl; reflexivity|]).
  apply Forall2_nil.
Qed.

Lemma plane_sq_box_identical_zero e g v : same_bev e g -> plane_sq_box e g = Some v -> v == 0.
Proof.
  intros S Hv.
  destruct (plane_sq_box_spec e g) as (i & j & gi & gj & ei & ej & _ & Hgi & Hgj & Hei & Hej & _ & _ & _ & _ & H).
  rewrite Hv in H. cbn [oQeq] in H. rewrite H.
  pose proof (Forall2_nth_error _ _ _ (corners_same_bev _ _ S) i) as Pi. rewrite Hei, Hgi in Pi.
  pose proof (Forall2_nth_error _ _ _ (corners_same_bev _ _ S) j) as Pj. rewrite Hej, Hgj in Pj.
  apply sqdist_bev_zero_iff in Pi, Pj. rewrite Pi, Pj. ring.
Qed.

(* and conversely the plane distance is 0 only if the two selected corner pairs coincide *)
Lemma plane_sq_box_zero_inv e g :
  plane_sq_box e g = Some 0 \/ (exists v, plane_sq_box e g = Some v /\ v == 0) ->
  exists i j gi gj ei ej, plane_sel (corners g) = Some (i, j) /\
    nth_error (corners g) i = Some gi /\ nth_error (corners g) j = Some gj /\
    nth_error (corners e) i = Some ei /\ nth_error (corners e) j = Some ej /\
    pt_eq ei gi /\ pt_eq ej gj.
Proof.
  intros H0.
  assert (Hv : exists v, plane_sq_box e g = Some v /\ v == 0).
  { destruct H0 as [H0|H0]; [exists 0; split; [assumption|reflexivity]|assumption]. }
  destruct Hv as (v & Hv & Hz).
  destruct (plane_sq_box_spec e g) as (i & j & gi & gj & ei & ej & Hs & Hgi & Hgj & Hei & Hej & _ & _ & _ & _ & H).
  exists i, j, gi, gj, ei, ej. repeat (split; [assumption|]).
  rewrite Hv in H. cbn [oQeq] in H.
  pose proof (sqdist_bev_nonneg ei gi). pose proof (sqdist_bev_nonneg ej gj).
  split; apply sqdist_bev_zero_iff; lra.
Qed.

