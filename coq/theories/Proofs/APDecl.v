(* The all-point-interpolation specification written in RANK order with explicit suffix maxima
   equals the reversed-orientation recursion spec_go:  sum_i (r_i - r_{i-1}) * max_{j>=i} p_j. *)
From Coq Require Import List Bool ZArith Lia Psatz.
From PE Require Import Base.QUtil Model.AP Proofs.APEnvelope.
Import ListNotations.
Open Scope Q_scope.

Lemma bmax_comm a b : bmax a b == bmax b a.
Proof. unfold bmax. q_cases; lra. Qed.
Lemma bmax_assoc a b c : bmax (bmax a b) c == bmax a (bmax b c).
Proof. unfold bmax. q_cases; lra. Qed.
Lemma bmax_ext a a' b b' : a == a' -> b == b' -> bmax a b == bmax a' b'.
Proof. intros Ha Hb. unfold bmax. destruct (Qltb_spec a b), (Qltb_spec a' b'); lra. Qed.

Global Instance bmax_proper : Proper (Qeq ==> Qeq ==> Qeq) bmax.
Proof. intros a a' Ha b b' Hb. now apply bmax_ext. Qed.

Lemma maxl_ext : forall l x y, x == y -> maxl x l == maxl y l.
Proof.
  induction l as [|p t IH]; intros x y H; cbn [maxl]; [assumption|].
  apply IH. apply bmax_ext; [assumption|reflexivity].
Qed.

Lemma maxl_bmax : forall l x p, bmax (maxl x l) p == maxl (bmax x p) l.
Proof.
  induction l as [|q t IH]; intros x p; cbn [maxl]; [reflexivity|].
  rewrite IH. apply maxl_ext.
  rewrite bmax_assoc, (bmax_comm q p), <- bmax_assoc. reflexivity.
Qed.

Lemma maxl_snoc : forall l x p, maxl x (l ++ [p]) = bmax (maxl x l) p.
Proof. induction l as [|q t IH]; intros x p; cbn [app maxl]; [reflexivity|apply IH]. Qed.

(* forward sum in which every suffix maximum also includes m (the maximum over what follows the list) *)
Fixpoint fwd (m prev : Q) (l : list pt) : Q :=
  match l with
  | [] => 0
  | (p, r) :: t => (r - prev) * maxl (bmax m p) (map fst t) + fwd m r t
  end.

Fixpoint lastr (prev : Q) (l : list pt) : Q :=
  match l with [] => prev | (_, r) :: t => lastr r t end.

Lemma fwd_ext : forall l m m' prev, m == m' -> fwd m prev l == fwd m' prev l.
Proof.
  induction l as [|[p r] t IH]; intros m m' prev H; cbn [fwd]; [reflexivity|].
  rewrite (IH m m' r H). rewrite (maxl_ext (map fst t) (bmax m p) (bmax m' p)); [reflexivity|].
  apply bmax_ext; [assumption|reflexivity].
Qed.

Lemma fwd_snoc : forall l m prev p r,
  fwd m prev (l ++ [(p, r)]) == fwd (bmax m p) prev l + (r - lastr prev l) * bmax m p.
Proof.
  induction l as [|[p0 r0] t IH]; intros m prev p r; cbn [app fwd lastr map maxl].
  - ring.
  - rewrite (IH m r0 p r). rewrite map_app. cbn [map fst]. rewrite maxl_snoc, maxl_bmax.
    rewrite (maxl_ext (map fst t) (bmax (bmax m p0) p) (bmax (bmax m p) p0)).
    + ring.
    + rewrite bmax_assoc, (bmax_comm p0 p), <- bmax_assoc. reflexivity.
Qed.

Lemma nextr_rev : forall l, nextr (rev l) = lastr 0 l.
Proof.
  assert (G : forall l prev, lastr prev l = match rev l with [] => prev | (_, r) :: _ => r end).
  { induction l as [|[p r] t IH]; intros prev; cbn [lastr rev]; [reflexivity|].
    rewrite IH. destruct (rev t) as [|[p' r'] t']; reflexivity. }
  intros l. rewrite G. unfold nextr. reflexivity.
Qed.

Theorem spec_go_rev_fwd : forall l m, spec_go m (rev l) == fwd m 0 l.
Proof.
  induction l as [|[p r] l IH] using rev_ind; intros m; [reflexivity|].
  rewrite rev_app_distr. cbn [rev app spec_go].
  rewrite (IH (bmax m p)), fwd_snoc, nextr_rev. ring.
Qed.

(* with non-negative precisions the extra 0 in the maxima is invisible: the explicit formula *)
Lemma maxl_ge : forall l x, x <= maxl x l.
Proof.
  induction l as [|q t IH]; intros x; cbn [maxl]; [lra|].
  pose proof (IH (bmax x q)). pose proof (bmax_ge_l x q). lra.
Qed.

Lemma fwd0_decl : forall l prev, (forall p r, In (p, r) l -> 0 <= p) -> fwd 0 prev l == ap_decl prev l.
Proof.
  induction l as [|[p r] t IH]; intros prev H; cbn [fwd ap_decl]; [reflexivity|].
  rewrite IH by (intros p' r' Hin; apply (H p' r'); now right).
  assert (Hp : 0 <= p) by (apply (H p r); now left).
  rewrite (maxl_ext (map fst t) (bmax 0 p) p); [reflexivity|].
  unfold bmax. destruct (Qltb_spec 0 p); lra.
Qed.

Theorem ap_spec_rev_decl : forall l, (forall p r, In (p, r) l -> 0 <= p) -> ap_spec (rev l) == ap_decl 0 l.
Proof.
  intros l H. rewrite ap_spec_start0.
  - rewrite spec_go_rev_fwd. now apply fwd0_decl.
  - intros p r Hin. apply (H p r). now apply in_rev.
Qed.
