(* Helper lemmas of Props/GenTieClassif.v (generated classification layer = hand model Model/Classif.v, for lists of any length).

   Of Gen/loops_classif.v only PART 1 is used here (the fixed text: exceptions, the error monad, Python floats with inf / nan, values
   that are a result or a list of results); no generated function is mentioned (they are regenerated on every run; this file is not).

   LOOP RULES for the shapes translator/loops_classif.py emits (a `for x in xs` is  fold_left body xs (Ok <state>)  in the error
   monad): each rule says that when ONE iteration of the generated body is the model's step (the only obligation left to the caller,
   closed by the case-splitting tactic [ctie]), the whole loop started from ANY state computes the model's recursive function -- the
   induction over the length of the list is done once, here; the order of the elements and the propagation of the first exception
   are part of the statement. *)
From Coq Require Import List Bool ZArith Arith QArith Lia.
From PE Require Import Base.QUtil.
From PE Require Model.Classif.
From PE Require Gen.loops_classif.
Import Gen.loops_classif.
Import ListNotations.
Open Scope list_scope.

(* ---- the monad ------------------------------------------------------------------------------------------------------------------- *)
Lemma bind_assoc {A B C} (m : res A) (f : A -> res B) (g : B -> res C) : bind (bind m f) g = bind m (fun x => bind (f x) g).
Proof. destruct m; reflexivity. Qed.
Lemma bind_ret {A} (m : res A) : bind m (fun x => Ok x) = m.
Proof. destruct m; reflexivity. Qed.
Lemma bind_ret_pair {A B} (m : res (A * B)) : bind m (fun '(a, b) => Ok (a, b)) = m.
Proof. destruct m as [[a b]|]; reflexivity. Qed.
Lemma bind_ret_triple {A B C} (m : res (A * B * C)) : bind m (fun '(a, b, c) => Ok (a, b, c)) = m.
Proof. destruct m as [[[a b] c]|]; reflexivity. Qed.
Lemma bind_ext {A B} (m m' : res A) (f f' : A -> res B) : m = m' -> (forall a, f a = f' a) -> bind m f = bind m' f'.
Proof. intros -> H. destruct m'; simpl; auto. Qed.

(* once the state is an exception every later iteration keeps it *)
Lemma fold_err {St A} (body : res St -> A -> res St) xs e :
  (forall x, body (Err e) x = Err e) -> fold_left body xs (Err e) = Err e.
Proof. intros H. induction xs; simpl; [reflexivity|]. rewrite H. exact IHxs. Qed.

(* ---- numbers ------------------------------------------------------------------------------------------------------------------------ *)
Lemma Qeqb_inject_Z d : Qeqb (inject_Z d) 0 = Z.eqb d 0.
Proof.
  destruct (Qeqb_spec (inject_Z d) 0) as [H|H]; destruct (Z.eqb_spec d 0) as [H'|H']; try reflexivity.
  - exfalso. apply H'. unfold Qeq in H. simpl in H. lia.
  - exfalso. apply H. subst d. reflexivity.
Qed.
Lemma Zeqb_of_nat_0 n : Z.eqb (Z.of_nat n) 0 = Nat.eqb n 0.
Proof. destruct n; reflexivity. Qed.

(* ---- the one proof tactic: normalise the monad and the float operations, split the scrutinee that blocks reduction ---------------- *)
Ltac csplit :=
  match goal with
  | |- context [match ?s with _ => _ end] =>
      lazymatch s with
      | context [match _ with _ => _ end] => fail
      | _ => destruct s eqn:?
      end
  end.
(* a comparison of two closed rationals (the sign of a literal factor of an infinity) is computed *)
Ltac cclosed :=
  match goal with
  | |- context [Qltb ?a ?b] =>
      let v := eval vm_compute in (Qltb a b) in
      lazymatch v with
      | true => change (Qltb a b) with true
      | false => change (Qltb a b) with false
      end
  end.
Ltac cnorm :=
  repeat (progress (cbn [bind of_res of_score fl_eqb fadd fsub fneg fmul fdiv opt_nat_eqb dyn_is_list dyn_result dyn_list andb orb negb
                         length Nat.ltb Nat.leb];
                    try unfold inf_times, andb, orb, negb; repeat cclosed));
  (* integer tests in one normal form: on Z, sums of non-negative ints distributed *)
  rewrite ?Qeqb_inject_Z, <- ?Zeqb_of_nat_0, ?Nat2Z.inj_add.
Ltac ctie := intros; repeat (cnorm; first [reflexivity | congruence | csplit]); cnorm; try reflexivity; try congruence.

(* ---- calculate_tp_fp: the counting loop ---------------------------------------------------------------------------------------------- *)
Definition count_step (tp fp : nat) (r : Classif.result) : nat * nat :=
  if Classif.is_label_correct r then ((tp + 1)%nat, fp) else (tp, (fp + 1)%nat).

Lemma loop_tp_fp (body : res (nat * nat) -> dyn -> res (nat * nat)) :
  (forall tp fp r, body (Ok (tp, fp)) (inl r) = Ok (count_step tp fp r)) ->
  forall rs tp fp, fold_left body (map inl rs) (Ok (tp, fp)) = Ok (Classif.tp_fp rs tp fp).
Proof.
  intros H. induction rs as [|r rs IH]; intros tp fp; simpl; [reflexivity|].
  rewrite H. unfold count_step. destruct (Classif.is_label_correct r); rewrite IH, Nat.add_1_r; reflexivity.
Qed.

(* an element that is a list (a nested list handed where results are expected): AttributeError, whatever precedes it *)
Lemma loop_tp_fp_outside (body : res (nat * nat) -> dyn -> res (nat * nat)) :
  (forall tp fp r, body (Ok (tp, fp)) (inl r) = Ok (count_step tp fp r)) ->
  (forall tp fp l, body (Ok (tp, fp)) (inr l) = Err AttributeError) ->
  (forall x, body (Err AttributeError) x = Err AttributeError) ->
  forall xs l, In (inr l) xs -> forall tp fp, fold_left body xs (Ok (tp, fp)) = Err AttributeError.
Proof.
  intros H HL HE. induction xs as [|x xs IH]; intros l Hin tp fp; simpl in *; [contradiction|].
  destruct x as [r|l'].
  - rewrite H. destruct (count_step tp fp r) as [a b]. destruct Hin as [Hx|Hin]; [discriminate|]. apply (IH l Hin).
  - rewrite HL. apply fold_err, HE.
Qed.

(* ---- ClassificationAccuracy.__init__: flattening of a nested list --------------------------------------------------------------------- *)
Lemma loop_flatten (body : res (list dyn) -> dyn -> res (list dyn)) :
  (forall acc l, body (Ok acc) (inr l) = Ok (acc ++ map inl l)) ->
  forall ls acc, fold_left body (map inr ls) (Ok acc) = Ok (acc ++ map inl (concat ls)).
Proof.
  intros H. induction ls as [|l ls IH]; intros acc; simpl.
  - rewrite app_nil_r. reflexivity.
  - rewrite H, IH, map_app, app_assoc. reflexivity.
Qed.

(* a result among the lists: TypeError of `list += <result>` *)
Lemma loop_flatten_outside (body : res (list dyn) -> dyn -> res (list dyn)) :
  (forall acc l, body (Ok acc) (inr l) = Ok (acc ++ map inl l)) ->
  (forall acc r, body (Ok acc) (inl r) = Err TypeError) ->
  (forall x, body (Err TypeError) x = Err TypeError) ->
  forall xs r, In (inl r) xs -> forall acc, fold_left body xs (Ok acc) = Err TypeError.
Proof.
  intros H HR HE. induction xs as [|x xs IH]; intros r Hin acc; simpl in *; [contradiction|].
  destruct x as [r'|l].
  - rewrite HR. apply fold_err, HE.
  - rewrite H. destruct Hin as [Hx|Hin]; [discriminate|]. apply (IH r Hin).
Qed.

(* what the constructor's first test sees of a flat list: it is empty, or its first element is a result *)
Lemma head_flat (X : list dyn) (rs : list Classif.result) :
  X = map inl rs ->
  Nat.eqb (length X) 0 = true \/ exists r, nth_error X 0 = Some (inl r) /\ Nat.eqb (length X) 0 = false.
Proof. intros ->. destruct rs as [|r rs]; [left; reflexivity|right; exists r; split; reflexivity]. Qed.

(* the attributes of a ClassificationAccuracy, floats as [fl] *)
Definition acc_tuple (a : Classif.accuracy) : nat * nat * nat * nat * fl * fl * fl * fl :=
  (Classif.a_num_res a, Classif.a_num_gt a, Classif.a_tp a, Classif.a_fp a,
   of_score (Classif.a_accuracy a), of_score (Classif.a_precision a), of_score (Classif.a_recall a), of_score (Classif.a_f1 a)).
Definition score4 (s : Classif.score * Classif.score * Classif.score * Classif.score) : fl * fl * fl * fl :=
  let '(a, p, r, f) := s in (of_score a, of_score p, of_score r, of_score f).

(* for the closed examples: results compared after reducing the fractions (the generated arithmetic does not reduce them) *)
Definition fred (a : fl) : fl := match a with F q => F (Qred q) | x => x end.
Definition rmap {A B} (f : A -> B) (r : res A) : res B := match r with Ok a => Ok (f a) | Err e => Err e end.
Definition fred2 (x : fl * fl) := let '(a, b) := x in (fred a, fred b).
Definition fred4 (x : fl * fl * fl * fl) := let '(a, b, c, d) := x in (fred a, fred b, fred c, fred d).
Definition fred8 (x : nat * nat * nat * nat * fl * fl * fl * fl) :=
  let '(n, g, t, f, a, b, c, d) := x in (n, g, t, f, fred a, fred b, fred c, fred d).

(* ---- _summarize: four running sums ------------------------------------------------------------------------------------------------------ *)
Lemma loop_sums {A} (f1 f2 f3 f4 : A -> nat) (sum : (A -> nat) -> list A -> nat)
      (body : res (nat * nat * nat * nat) -> A -> res (nat * nat * nat * nat)) :
  (forall f, sum f [] = 0%nat) -> (forall f x t, sum f (x :: t) = (f x + sum f t)%nat) ->
  (forall a b c d x, body (Ok (a, b, c, d)) x = Ok ((a + f1 x)%nat, (b + f2 x)%nat, (c + f3 x)%nat, (d + f4 x)%nat)) ->
  forall xs a b c d,
    fold_left body xs (Ok (a, b, c, d)) = Ok ((a + sum f1 xs)%nat, (b + sum f2 xs)%nat, (c + sum f3 xs)%nat, (d + sum f4 xs)%nat).
Proof.
  intros S0 S1 H. induction xs as [|x xs IH]; intros a b c d; simpl.
  - rewrite !S0, !Nat.add_0_r. reflexivity.
  - rewrite H, IH, !S1, !Nat.add_assoc. reflexivity.
Qed.

(* ---- _get_fp_object_results --------------------------------------------------------------------------------------------------------------- *)
Lemma loop_fp (body : res (list Classif.result) -> Classif.iobj -> res (list Classif.result)) :
  (forall acc e, body (Ok acc) e = Ok (acc ++ [(e, None)])) ->
  forall es acc, fold_left body es (Ok acc) = Ok (acc ++ Classif.fp_results es).
Proof.
  intros H. induction es as [|e es IH]; intros acc; simpl.
  - rewrite app_nil_r. reflexivity.
  - rewrite H, IH, <- app_assoc. reflexivity.
Qed.

(* ---- the matching loops: for est in es: for gt in gs: <raise | pair and remove | nothing> ------------------------------------------------
   state = (object_results, estimated_objects_, ground_truth_objects_): the lists removed from are NOT the lists iterated *)
Definition St := (list Classif.result * list Classif.iobj * list Classif.iobj)%type.

Definition inner_step (guard : bool) (cnd : Classif.obj -> Classif.obj -> bool) (e g : Classif.iobj) (s : St) : res St :=
  let '(R, E, G) := s in
  if Classif.uuid_is_none e || Classif.uuid_is_none g then Err RuntimeError
  else if cnd (snd e) (snd g) && (if guard then Classif.mem_id (fst e) E && Classif.mem_id (fst g) G else true) then
    match Classif.remove_id (fst e) E with
    | None => Err ValueError
    | Some E' => match Classif.remove_id (fst g) G with
                 | None => Err ValueError
                 | Some G' => Ok (R ++ [(e, Some g)], E', G')
                 end
    end
  else Ok (R, E, G).

Lemma loop_inner guard cnd e (body : res St -> Classif.iobj -> res St) :
  (forall s g, body (Ok s) g = inner_step guard cnd e g s) ->
  (forall x g, body (Err x) g = Err x) ->
  forall gs R E G, fold_left body gs (Ok (R, E, G)) = of_res (Classif.inner guard cnd e gs R E G).
Proof.
  intros H HE. induction gs as [|g gs IH]; intros R E G; simpl; [reflexivity|].
  rewrite H. unfold inner_step.
  destruct (Classif.uuid_is_none e || Classif.uuid_is_none g); [apply fold_err; intro; apply HE|].
  destruct (cnd (snd e) (snd g) && (if guard then Classif.mem_id (fst e) E && Classif.mem_id (fst g) G else true)); [|apply IH].
  destruct (Classif.remove_id (fst e) E) as [E'|]; [|apply fold_err; intro; apply HE].
  destruct (Classif.remove_id (fst g) G) as [G'|]; [|apply fold_err; intro; apply HE].
  apply IH.
Qed.

Lemma loop_outer guard cnd gs (body : res St -> Classif.iobj -> res St) :
  (forall R E G e, body (Ok (R, E, G)) e = of_res (Classif.inner guard cnd e gs R E G)) ->
  (forall x e, body (Err x) e = Err x) ->
  forall es R E G, fold_left body es (Ok (R, E, G)) = of_res (Classif.outer guard cnd es gs R E G).
Proof.
  intros H HE. induction es as [|e es IH]; intros R E G; simpl; [reflexivity|].
  rewrite H. destruct (Classif.inner guard cnd e gs R E G) as [[[R' E'] G']|[]]; simpl.
  - apply IH.
  - apply fold_err; intro; apply HE.
  - apply fold_err; intro; apply HE.
Qed.

(* the continuation after a matching loop sees the model's result, or the same exception *)
Lemma bind_of_res {A B} (r : Classif.res A) (k : A -> res B) (k' : A -> Classif.res B) :
  (forall a, k a = of_res (k' a)) ->
  bind (of_res r) k = of_res (match r with Classif.Ok a => k' a | Classif.Error x => Classif.Error x end).
Proof. intros H. destruct r as [a|[]]; simpl; auto. Qed.
