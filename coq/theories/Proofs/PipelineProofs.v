(* Proofs about the composed one-frame pipeline (Model/Pipeline.v). *)
From Coq Require Import List Bool ZArith String Arith Permutation Lia.
From PE Require Import Base.QUtil Model.Matching Model.Filter Model.PassFail Model.Pipeline.
Import ListNotations.
