(* Proofs about the composed one-frame pipeline (Model/Pipeline.v):
     1. the Res list built from the matcher model's output satisfies PassFail.wf_frame
        (C01's theorems discharge C03's hypothesis);
     2. hence every C03 clause holds for frame_pipeline with hypotheses on the INPUTS only;
     3. the ranking Ap(L) sees has no more TPs than there are critical ground truths labelled L,
        hence AP / APH / mAP / mAPH of the frame lie in [0,1] with no counting hypothesis;
     4. loosening the pass/fail thresholds never loses a TP and never adds an FN (C08 with C03's bookkeeping). *)
From Coq Require Import List Bool ZArith String Arith Permutation Lia.
From PE Require Import Base.QUtil Model.Matching Model.Filter Model.PassFail Model.Pipeline.
From PE Require Import Proofs.MatchingProofs Proofs.FilterProofs Proofs.PassFailProofs.
From PE Require Model.AP Proofs.APRanking Proofs.APKinds Proofs.APModel.
Import ListNotations.
Open Scope Q_scope.

(* ------------------------------------------------------------------------------------------------ *)
(* identities are indices                                                                            *)
(* ------------------------------------------------------------------------------------------------ *)
Lemma nat_list_eqb_eq a : forall b, nat_list_eqb a b = true <-> a = b.
Proof.
  induction a as [|x s IH]; intros [|y t]; cbn [nat_list_eqb]; try (split; [discriminate|discriminate]); [tauto|].
  rewrite andb_true_iff, Nat.eqb_eq, IH. split; [intros [-> ->]; reflexivity|intros [= -> ->]; auto].
Qed.

Lemma ids_ok_eq l : ids_ok l = true -> map o_id l = seq 0 (List.length l).
Proof. unfold ids_ok, ids. apply nat_list_eqb_eq. Qed.

Lemma ids_ok_nth l i o : ids_ok l = true -> nth_error l i = Some o -> o_id o = i.
Proof.
  intros H Hn. apply ids_ok_eq in H.
  pose proof (map_nth_error o_id i l Hn) as M. rewrite H in M.
  assert (Hi : (i < List.length (seq 0 (List.length l)))%nat) by (apply nth_error_Some; congruence).
  rewrite seq_length in Hi.
  pose proof (nth_error_nth _ _ O M) as N. rewrite seq_nth in N by assumption. simpl in N. congruence.
Qed.

Lemma ids_ok_nodup l : ids_ok l = true -> NoDup (map o_id l).
Proof. intros H. rewrite (ids_ok_eq _ H). apply seq_NoDup. Qed.

Lemma nodup_nat_NoDup l : nodup_nat l = true -> NoDup l.
Proof.
  induction l as [|x t IH]; cbn [nodup_nat]; [constructor|].
  rewrite andb_true_iff, negb_true_iff. intros [Hm Ht]. constructor; [|auto].
  intros Hin. apply mem_nat_In in Hin. congruence.
Qed.

Lemma keys_distinct_NoDup gts : keys_distinct gts = true -> NoDup (map o_key gts).
Proof. apply nodup_nat_NoDup. Qed.

(* ------------------------------------------------------------------------------------------------ *)
(* 1. build_results on in-range pairs                                                                *)
(* ------------------------------------------------------------------------------------------------ *)
Lemma gt_ids_res_pair rs : gt_ids rs = Matching.gts_of (map res_pair rs).
Proof.
  unfold gt_ids, PassFail.gts_of, Matching.gts_of.
  induction rs as [|r t IH]; [reflexivity|].
  cbn [flat_map map]. rewrite map_app, IH. f_equal.
  unfold gt_of, res_pair. cbn [snd]. destruct (r_gt r); reflexivity.
Qed.

Lemma est_ids_res_pair rs : map est_id rs = map fst (map res_pair rs).
Proof. rewrite map_map. reflexivity. Qed.

Lemma build_results_spec p F T ests gts : forall out,
  ids_ok ests = true -> ids_ok gts = true ->
  (forall e og, In (e, og) out -> (e < List.length ests)%nat /\ forall g, og = Some g -> (g < List.length gts)%nat) ->
  exists rs, build_results p F T ests gts out = Ok rs /\ map res_pair rs = out /\
             (forall r, In r rs -> In (r_est r) ests /\ forall g, r_gt r = Some g -> In g gts).
Proof.
  intros out He Hg. induction out as [|[e og] t IH]; intros Hr.
  - exists []. split; [reflexivity|]. split; [reflexivity|]. intros r [].
  - destruct IH as (rs & Hb & Hm & Hin). { intros e' og' H. apply Hr. now right. }
    destruct (Hr e og (or_introl eq_refl)) as [Le Lg].
    destruct (nth_error_lt_Some ests e Le) as [eo Heo].
    pose proof (ids_ok_nth _ _ _ He Heo) as Ide.
    cbn [build_results]. unfold pair_res at 1. cbn [fst snd]. rewrite Heo.
    destruct og as [g|].
    + destruct (nth_error_lt_Some gts g (Lg g eq_refl)) as [go Hgo].
      pose proof (ids_ok_nth _ _ _ Hg Hgo) as Idg.
      rewrite Hgo. cbn [bind]. rewrite Hb. cbn [bind]. eexists. split; [reflexivity|]. split.
      * cbn [map]. rewrite Hm. f_equal. unfold res_pair, est_id. cbn [r_est r_gt]. rewrite Ide, Idg. reflexivity.
      * intros r [<-|Hin']; [|auto]. cbn [r_est r_gt]. split; [eapply nth_error_In; eauto|].
        intros g' [= <-]. eapply nth_error_In; eauto.
    + cbn [bind]. rewrite Hb. cbn [bind]. eexists. split; [reflexivity|]. split.
      * cbn [map]. rewrite Hm. f_equal. unfold res_pair, est_id. cbn [r_est r_gt]. rewrite Ide. reflexivity.
      * intros r [<-|Hin']; [|auto]. cbn [r_est r_gt]. split; [eapply nth_error_In; eauto|]. discriminate.
Qed.

(* what is asked of the object lists: identities are indices, as many objects as the facts describe *)
Record scene_hyps (F : Facts) (ests gts : list Obj) : Prop := {
  sh_est_ids : ids_ok ests = true;
  sh_gt_ids : ids_ok gts = true;
  sh_est_len : List.length ests = List.length (f_est_frame F);
  sh_gt_len : List.length gts = List.length (f_gt_frame F);
  sh_keys : NoDup (map o_key gts)
}.

Lemma scene_ok_hyps F T ests gts :
  scene_ok F T ests gts = true -> keys_distinct gts = true -> scene_hyps F ests gts.
Proof.
  unfold scene_ok. rewrite !andb_true_iff. intros [[[[[[_ H1] H2] H3] H4] _] _] Hk.
  constructor; auto using keys_distinct_NoDup; now apply Nat.eqb_eq.
Qed.

Theorem matched_results_wf md p fpv F T ests gts :
  scene_hyps F ests gts ->
  exists rs, matched_results md p fpv F T ests gts = Ok rs /\
             map res_pair rs = get_object_results md p fpv F /\
             wf_frame rs gts.
Proof.
  intros [He Hg Le Lg Hk]. unfold matched_results, get_object_results.
  set (mx := maximize_of md). set (cell := cell_of mx F). set (ok := ok_of p F).
  set (n := List.length (f_est_frame F)). set (m := List.length (f_gt_frame F)).
  destruct (build_results_spec p F T ests gts (match_core mx fpv cell ok n m) He Hg) as (rs & Hb & Hm & Hin).
  { intros e og H. rewrite Le, Lg. exact (match_core_in_range mx fpv cell ok n m e og H). }
  exists rs. split; [exact Hb|]. split; [exact Hm|].
  constructor.
  - rewrite est_ids_res_pair, Hm. apply match_core_est_nodup.
  - rewrite gt_ids_res_pair, Hm. apply match_core_gt_nodup.
  - intros r g Hr Hgr. exact (proj2 (Hin r Hr) g Hgr).
  - apply ids_ok_nodup; assumption.
  - exact Hk.
Qed.

Theorem matched_results_wf_explicit md p fpv F T ests gts :
  ids_ok ests = true -> ids_ok gts = true ->
  List.length ests = List.length (f_est_frame F) -> List.length gts = List.length (f_gt_frame F) ->
  NoDup (map o_key gts) ->
  exists rs, matched_results md p fpv F T ests gts = Ok rs /\
             map res_pair rs = get_object_results md p fpv F /\
             wf_frame rs gts.
Proof. intros H1 H2 H3 H4 H5. apply matched_results_wf. constructor; assumption. Qed.

(* the Res list of the matcher's output, for every configuration: C03's hypothesis holds *)
Corollary pipeline_wf_frame md p fpv F T ests gts rs :
  scene_hyps F ests gts -> matched_results md p fpv F T ests gts = Ok rs -> wf_frame rs gts.
Proof.
  intros H E. destruct (matched_results_wf md p fpv F T ests gts H) as (rs' & E' & _ & W). congruence.
Qed.

(* the matching step never raises *)
Corollary matched_results_ok md p fpv F T ests gts :
  scene_hyps F ests gts -> exists rs, matched_results md p fpv F T ests gts = Ok rs.
Proof. intros H. destruct (matched_results_wf md p fpv F T ests gts H) as (rs & E & _). eauto. Qed.

(* outside FP validation every estimate handed to the matcher is the estimate of exactly one result *)
Corollary matched_results_complete md p F T ests gts rs :
  scene_hyps F ests gts -> matched_results md p false F T ests gts = Ok rs ->
  Permutation (map est_id rs) (map o_id ests).
Proof.
  intros H E. destruct (matched_results_wf md p false F T ests gts H) as (rs' & E' & Hm & _).
  assert (rs' = rs) by congruence. subst rs'.
  rewrite est_ids_res_pair, Hm. unfold get_object_results.
  rewrite (ids_ok_eq _ (sh_est_ids _ _ _ H)), (sh_est_len _ _ _ H). apply match_core_est_perm.
Qed.

(* ------------------------------------------------------------------------------------------------ *)
(* 2. every C03 clause for the pipeline                                                              *)
(* ------------------------------------------------------------------------------------------------ *)
Definition frame_clauses (pf : PF) (crit : Cfg) (gts : list Obj) (Fr : Frame) : Prop :=
  Permutation (map est_id (f_tp Fr) ++ map est_id (f_fp Fr)) (map est_id (f_results Fr)) /\
  (forall g, In g (f_gts Fr) ->
     (lbl_is_fp (o_label g) = false ->
        (cnt (o_id g) (gt_ids (f_tp Fr)) + cnt (o_id g) (ids (f_fn Fr)) = 1)%nat) /\
     (lbl_is_fp (o_label g) = true ->
        (cnt (o_id g) (ids (f_tn Fr)) + cnt (o_id g) (gt_ids (f_fp Fr)) = 1)%nat)) /\
  List.length (filter ordinary (f_gts Fr)) = (List.length (f_tp Fr) + List.length (f_fn Fr))%nat /\
  (forall r, In r (f_tp Fr) ->
     exists g, r_gt r = Some g /\ lbl_is_fp (o_label g) = false /\ r_label_ok r = true /\
               forall t, thr_of pf (o_label g) = Some t -> exists v, r_score r = Some v /\ v < t) /\
  (forall r, In r (f_tp Fr ++ f_fp Fr) -> kept (est_side crit) true false (r_est r) = true) /\
  (forall g, In g (f_tn Fr ++ f_fn Fr) \/ (exists r, In r (f_tp Fr ++ f_fp Fr) /\ r_gt r = Some g) ->
     In g gts /\ kept crit true true g = true).

Lemma frame_all_clauses crit pf rs gts Fr :
  frame_hyps crit pf rs gts -> evaluate_frame crit pf rs gts = Ok Fr -> frame_clauses pf crit gts Fr.
Proof.
  intros Hh H. pose proof (h_pf _ _ _ _ Hh) as Hpf.
  destruct (counted_inside _ _ _ _ _ Hh H) as (I1 & I2 & I3).
  split; [exact (proj1 (results_partition _ _ _ _ _ Hpf H))|].
  split.
  { intros g Hg. destruct (gt_accounted_once _ _ _ _ _ Hh H g Hg) as [A B]. split; intros E; [apply A|apply B]; exact E. }
  split; [exact (ordinary_gt_count _ _ _ _ _ Hh H)|].
  split.
  { intros r Hr. destruct (tp_sound _ _ _ _ _ Hpf H r Hr) as [_ X]. exact X. }
  split.
  { intros r Hr. apply I1; assumption. }
  intros g [Hg|[r [Hr Eg]]]; apply I3; [apply I2; assumption|]. apply (proj2 (I1 r Hr)). assumption.
Qed.

(* hypotheses on the inputs of the pipeline only *)
Record pipeline_hyps (F : Facts) (ests gts : list Obj) (crit : Cfg) (pf : PF) : Prop := {
  ph_scene : scene_hyps F ests gts;
  ph_crit : wf_cfg crit;
  ph_pf : pf_ok pf;
  ph_points : forall g, In g gts -> obj_ok crit true g
}.

Lemma frame_pipeline_inv md p fpv F T ests gts crit pf Fr :
  scene_hyps F ests gts -> frame_pipeline md p fpv F T ests gts crit pf = Ok Fr ->
  exists rs, matched_results md p fpv F T ests gts = Ok rs /\ wf_frame rs gts /\ evaluate_frame crit pf rs gts = Ok Fr.
Proof.
  intros Hs H. unfold frame_pipeline in H.
  destruct (matched_results_wf md p fpv F T ests gts Hs) as (rs & E & _ & W).
  rewrite E in H. cbn [bind] in H. eauto.
Qed.

Lemma pipeline_frame_hyps md p fpv F T ests gts crit pf rs :
  pipeline_hyps F ests gts crit pf -> matched_results md p fpv F T ests gts = Ok rs -> frame_hyps crit pf rs gts.
Proof.
  intros [Hs Hc Hp Ho] E. constructor; auto. eapply pipeline_wf_frame; eauto.
Qed.

Theorem pipeline_all_clauses md p fpv F T ests gts crit pf Fr :
  pipeline_hyps F ests gts crit pf -> frame_pipeline md p fpv F T ests gts crit pf = Ok Fr ->
  frame_clauses pf crit gts Fr.
Proof.
  intros Hh H. destruct (frame_pipeline_inv _ _ _ _ _ _ _ _ _ _ (ph_scene _ _ _ _ _ Hh) H) as (rs & E & _ & Ev).
  eapply frame_all_clauses; [|exact Ev]. eapply pipeline_frame_hyps; eauto.
Qed.

(* with well-formed configurations the pipeline does not raise (no TypeError / IndexError branch is taken) *)
Theorem pipeline_total md p fpv F T ests gts crit pf :
  pipeline_hyps F ests gts crit pf -> exists Fr, frame_pipeline md p fpv F T ests gts crit pf = Ok Fr.
Proof.
  intros Hh. destruct (matched_results_ok md p fpv F T ests gts (ph_scene _ _ _ _ _ Hh)) as (rs & E).
  pose proof (pipeline_frame_hyps _ _ _ _ _ _ _ _ _ _ Hh E) as Fh.
  unfold frame_pipeline. rewrite E. cbn [bind]. unfold evaluate_frame.
  assert (Hres_ok : forall r, In r rs -> res_ok crit r).
  { intros r Hr g Hg. apply (ph_points _ _ _ _ _ Hh). eapply (wf_gt_in _ _ (h_frame _ _ _ _ Fh)); eauto. }
  rewrite filter_object_results_spec by (auto; exact (ph_crit _ _ _ _ _ Hh)). cbn [bind].
  rewrite filter_objects_spec by (auto; try exact (ph_crit _ _ _ _ _ Hh); exact (ph_points _ _ _ _ _ Hh)). cbn [bind].
  rewrite get_positive_spec by exact (ph_pf _ _ _ _ _ Hh). cbn [bind].
  rewrite get_negative_spec by exact (ph_pf _ _ _ _ _ Hh). cbn [bind]. eauto.
Qed.

(* ------------------------------------------------------------------------------------------------ *)
(* 3. #TP seen by Ap(L) <= #critical ground truths labelled L                                        *)
(* ------------------------------------------------------------------------------------------------ *)
Import APKinds.

Definition gt_is (L : nat) (r : Res) : bool :=
  match r_gt r with Some g => Nat.eqb (o_label g) L | None => false end.

(* a result Ap(L, t) counts as TP has a ground truth labelled L *)
Lemma tp_has_label v w L t r :
  is_tp (AP.classify AP.Minimize (AP.with_thr (AP.thr_for L t (lres_of v w r)) (AP.l_res (lres_of v w r)))) = true ->
  gt_is L r = true.
Proof.
  unfold gt_is, lres_of, ap_res, AP.thr_for, AP.classify, AP.with_thr, AP.is_result_correct.
  destruct (r_gt r) as [g|]; cbn.
  - destruct (Nat.eqb (o_label g) L); [reflexivity|discriminate].
  - destruct (Nat.eqb (o_label (r_est r)) L); discriminate.
Qed.

Lemma count_tp_cons k ks : count_tp (k :: ks) = ((if is_tp k then 1 else 0) + count_tp ks)%nat.
Proof. unfold count_tp. cbn [filter]. destruct (is_tp k); reflexivity. Qed.

Lemma count_tp_label_results v w cts L t rs :
  (count_tp (map (AP.classify AP.Minimize) (AP.label_results cts L t (map (lres_of v w) rs)))
   <= List.length (filter (gt_is L) rs))%nat.
Proof.
  unfold AP.label_results. induction rs as [|r tl IH]; [cbn; lia|].
  cbn [map filter].
  destruct (AP.in_bucket cts L (lres_of v w r)).
  - cbn [map]. rewrite count_tp_cons.
    destruct (is_tp _) eqn:E.
    + rewrite (tp_has_label v w L t r E). cbn [List.length]. lia.
    + destruct (gt_is L r); cbn [List.length]; lia.
  - destruct (gt_is L r); cbn [List.length]; lia.
Qed.

Lemma filter_length_perm {A} (p : A -> bool) l l' :
  Permutation l l' -> List.length (filter p l) = List.length (filter p l').
Proof.
  induction 1; cbn [filter]; auto.
  - destruct (p x); cbn [List.length]; congruence.
  - destruct (p x), (p y); reflexivity.
  - congruence.
Qed.

Lemma count_tp_ranking m xs : count_tp (APModel.ranking m xs) = count_tp (map (AP.classify m) xs).
Proof.
  unfold count_tp, APModel.ranking. apply filter_length_perm, Permutation_map, APRanking.sort_desc_perm.
Qed.

Lemma filter_gt_is_len L rs :
  List.length (filter (gt_is L) rs) = List.length (filter (fun g => Nat.eqb (o_label g) L) (PassFail.gts_of rs)).
Proof.
  unfold PassFail.gts_of. induction rs as [|r t IH]; [reflexivity|].
  cbn [filter flat_map]. unfold gt_is at 1, gt_of at 1. destruct (r_gt r) as [g|]; cbn [app]; [|exact IH].
  cbn [filter]. destruct (Nat.eqb (o_label g) L); cbn [List.length]; congruence.
Qed.

Lemma count_label_filter L gts :
  AP.count_label L (map o_label gts) = List.length (filter (fun g => Nat.eqb (o_label g) L) gts).
Proof.
  unfold AP.count_label. induction gts as [|g t IH]; [reflexivity|].
  cbn [map filter]. rewrite (Nat.eqb_sym L (o_label g)). destruct (Nat.eqb (o_label g) L); cbn [List.length]; congruence.
Qed.

Lemma filter_incl_length {A} (p : A -> bool) l l' :
  NoDup l -> incl l l' -> (List.length (filter p l) <= List.length (filter p l'))%nat.
Proof.
  intros Hn Hi. apply NoDup_incl_length.
  - apply NoDup_filter. exact Hn.
  - intros x Hx. apply filter_In in Hx. apply filter_In. destruct Hx. split; auto.
Qed.

Theorem frame_tp_le_gt crit pf rs gts Fr v w cts L t :
  frame_hyps crit pf rs gts -> evaluate_frame crit pf rs gts = Ok Fr ->
  (count_tp (label_ranking v w cts L t (f_results Fr)) <= num_gt_label L (f_gts Fr))%nat.
Proof.
  intros Hh H. pose proof (h_pf _ _ _ _ Hh) as Hpf.
  destruct (evaluate_frame_inv _ _ _ _ _ Hpf H) as (rs' & gts' & Hrs & Hgts & ->). cbn [f_gts f_results].
  destruct (survivors _ _ _ _ _ _ Hh Hrs Hgts) as (_ & _ & Nd & _ & _ & Hinc & _ & _).
  unfold label_ranking, num_gt_label.
  change (map (AP.classify AP.Minimize) (AP.sort_desc AP.conf ?x)) with (APModel.ranking AP.Minimize x).
  rewrite count_tp_ranking, count_label_filter.
  eapply Nat.le_trans; [apply count_tp_label_results|].
  rewrite filter_gt_is_len. apply filter_incl_length; [|exact Hinc].
  unfold gt_ids in Nd. eapply NoDup_map_NoDup; exact Nd.
Qed.

Theorem pipeline_tp_le_gt md p fpv F T ests gts crit pf Fr v w cts L t :
  pipeline_hyps F ests gts crit pf -> frame_pipeline md p fpv F T ests gts crit pf = Ok Fr ->
  (count_tp (label_ranking v w cts L t (f_results Fr)) <= num_gt_label L (f_gts Fr))%nat.
Proof.
  intros Hh H. destruct (frame_pipeline_inv _ _ _ _ _ _ _ _ _ _ (ph_scene _ _ _ _ _ Hh) H) as (rs & E & _ & Ev).
  eapply frame_tp_le_gt; [|exact Ev]. eapply pipeline_frame_hyps; eauto.
Qed.

(* ---- AP / APH of one label ---- *)
Lemma label_results_weights v w cts L t rs :
  (forall e g, 0 <= w e g <= 1) ->
  APModel.res_weights_ok (AP.label_results cts L t (map (lres_of v w) rs)).
Proof.
  intros Hw x Hx. unfold AP.label_results in Hx. apply in_map_iff in Hx. destruct Hx as [y [<- Hy]].
  apply filter_In in Hy. destruct Hy as [Hy _]. apply in_map_iff in Hy. destruct Hy as [r [<- _]].
  unfold AP.with_thr, lres_of, ap_res. cbn [AP.l_res].
  destruct (r_gt r) as [g|]; cbn [AP.weight AP.rid AP.conf AP.has_gt AP.gt_fp AP.lab_ok AP.matching]; [apply Hw|lra].
Qed.

Lemma heading_w_unit T : weights_in_unit T -> forall e g, 0 <= heading_w T e g <= 1.
Proof.
  intros H e g. unfold heading_w, lookup2. destruct (nth_error (t_heading T) e) as [row|] eqn:Er; [|lra].
  destruct (nth_error row g) as [x|] eqn:Ex; [|lra]. eapply H; eapply nth_error_In; eauto.
Qed.

Lemma weights_in_unitb_ok T : weights_in_unitb T = true -> weights_in_unit T.
Proof.
  unfold weights_in_unitb, weights_in_unit. rewrite forallb_forall. intros H row x Hr Hx.
  specialize (H row Hr). rewrite forallb_forall in H. specialize (H x Hx).
  apply andb_true_iff in H. destruct H as [A B]. apply Qleb_true in A. apply Qleb_true in B. split; assumption.
Qed.

Lemma unit_w_unit : forall e g, 0 <= unit_w e g <= 1.
Proof. intros. unfold unit_w. lra. Qed.

(* one Ap of a Map of the frame: defined iff its bucket is not empty, and then in [0,1] *)
Theorem one_ap_in_unit crit pf rs gts Fr v w cts Lt a :
  frame_hyps crit pf rs gts -> evaluate_frame crit pf rs gts = Ok Fr -> (forall e g, 0 <= w e g <= 1) ->
  AP.ap (one_ap cts (map o_label (f_gts Fr)) (map (lres_of v w) (f_results Fr)) Lt) = Some a ->
  0 <= a <= 1.
Proof.
  intros Hh H Hw. unfold one_ap, ap_inputs.
  set (xs := AP.label_results cts (fst Lt) (snd Lt) (map (lres_of v w) (f_results Fr))).
  destruct xs as [|x0 xt] eqn:Ex; [discriminate|].
  assert (Hne : xs <> []) by (rewrite Ex; discriminate). rewrite <- Ex.
  rewrite (APModel.ap_model_nonempty AP.Minimize _ xs Hne). cbn [AP.ap]. intros [= <-].
  apply ap_in_unit_interval.
  - apply APModel.ranking_weights_ok. unfold xs. apply label_results_weights. exact Hw.
  - exact (frame_tp_le_gt crit pf rs gts Fr v w cts (fst Lt) (snd Lt) Hh H).
Qed.

Theorem pipeline_one_ap_in_unit md p fpv F T ests gts crit pf Fr v w cts L t a :
  pipeline_hyps F ests gts crit pf -> frame_pipeline md p fpv F T ests gts crit pf = Ok Fr ->
  (forall e g, 0 <= w e g <= 1) ->
  AP.ap (one_ap cts (map o_label (f_gts Fr)) (map (lres_of v w) (f_results Fr)) (L, t)) = Some a ->
  0 <= a <= 1.
Proof.
  intros Hh H Hw Ha. destruct (frame_pipeline_inv _ _ _ _ _ _ _ _ _ _ (ph_scene _ _ _ _ _ Hh) H) as (rs & E & _ & Ev).
  exact (one_ap_in_unit crit pf rs gts Fr v w cts (L, t) a (pipeline_frame_hyps _ _ _ _ _ _ _ _ _ _ Hh E) Ev Hw Ha).
Qed.

(* the AP of label L in a Map of the frame IS the C04 quantity ap_of_kinds on the ranking of theorem 3,
   with num_ground_truth = the number of critical ground truths labelled L *)
Lemma one_ap_value cts gts' v w rs' L t :
  AP.ap (one_ap cts (map o_label gts') (map (lres_of v w) rs') (L, t)) =
  match AP.label_results cts L t (map (lres_of v w) rs') with
  | [] => None
  | _ => Some (AP.ap_of_kinds (num_gt_label L gts') (label_ranking v w cts L t rs'))
  end.
Proof.
  unfold one_ap, ap_inputs, label_ranking, num_gt_label. cbn [fst snd].
  destruct (AP.label_results cts L t (map (lres_of v w) rs')); reflexivity.
Qed.

(* a whole Map: every AP, every APH, mAP and mAPH *)
Theorem map_out_in_unit crit pf rs gts Fr v T cts dts thrs :
  frame_hyps crit pf rs gts -> evaluate_frame crit pf rs gts = Ok Fr -> weights_in_unit T ->
  let M := map_out v T cts dts thrs (f_results Fr) (f_gts Fr) in
  (forall r a, In r (mo_aps M ++ mo_aphs M) -> AP.ap r = Some a -> 0 <= a <= 1) /\
  (forall x, mo_map M = Some x -> 0 <= x <= 1) /\ (forall x, mo_maph M = Some x -> 0 <= x <= 1).
Proof.
  intros Hh H Hw. cbv zeta. unfold map_out. cbn [mo_aps mo_aphs mo_map mo_maph].
  assert (A1 : forall r a, In r (map (one_ap cts (map o_label (f_gts Fr)) (map (lres_of v unit_w) (f_results Fr))) (combine dts thrs)) ->
               AP.ap r = Some a -> 0 <= a <= 1).
  { intros r a Hr Ha. apply in_map_iff in Hr. destruct Hr as [Lt [<- _]].
    exact (one_ap_in_unit crit pf rs gts Fr v unit_w cts Lt a Hh H unit_w_unit Ha). }
  assert (A2 : forall r a, In r (map (one_ap cts (map o_label (f_gts Fr)) (map (lres_of v (heading_w T)) (f_results Fr))) (combine dts thrs)) ->
               AP.ap r = Some a -> 0 <= a <= 1).
  { intros r a Hr Ha. apply in_map_iff in Hr. destruct Hr as [Lt [<- _]].
    exact (one_ap_in_unit crit pf rs gts Fr v (heading_w T) cts Lt a Hh H (heading_w_unit T Hw) Ha). }
  split; [|split].
  - intros r a Hr. apply in_app_or in Hr. destruct Hr; eauto.
  - intros x Hx. eapply mean_defined_bounds; [|exact Hx].
    intros y Hy. apply in_map_iff in Hy. destruct Hy as [r [Hr Hin]]. eapply A1; eauto.
  - intros x Hx. eapply mean_defined_bounds; [|exact Hx].
    intros y Hy. apply in_map_iff in Hy. destruct Hy as [r [Hr Hin]]. eapply A2; eauto.
Qed.

(* add_frame_result = Done ...: what produced it *)
Lemma add_frame_result_inv md p fpv F T ests gts crit pf det Fr cm pm :
  add_frame_result md p fpv F T ests gts crit pf det = Done Fr cm pm ->
  frame_pipeline md p fpv F T ests gts crit pf = Ok Fr /\
  exists cts, c_targets crit = Some cts /\
    (cm, pm) = (if fpv then ([], []) else frame_maps F T cts det (f_results Fr) (f_gts Fr)).
Proof.
  unfold add_frame_result, frame_pipeline.
  destruct (matched_results md p fpv F T ests gts) as [rs| |]; cbn [bind of_err]; try discriminate.
  destruct (filter_object_results crit true rs) as [rs'| |]; cbn [of_err]; try discriminate.
  destruct (filter_objects crit true true gts) as [gts'| |]; cbn [of_err]; try discriminate.
  destruct (c_targets crit) as [cts|]; [|discriminate].
  destruct (negb fpv && negb (keys_ok cts det)); [discriminate|].
  destruct (evaluate_frame crit pf rs gts) as [fr| |]; cbn [of_err]; try discriminate.
  destruct (if fpv then _ else _) as [cm' pm'] eqn:E. intros [= -> -> ->].
  split; [reflexivity|]. exists cts. split; [reflexivity|]. rewrite E. reflexivity.
Qed.

Theorem pipeline_scores_in_unit md p fpv F T ests gts crit pf det Fr cm pm :
  pipeline_hyps F ests gts crit pf -> weights_in_unit T ->
  add_frame_result md p fpv F T ests gts crit pf det = Done Fr cm pm ->
  forall M, In M (cm ++ pm) ->
    (forall r a, In r (mo_aps M ++ mo_aphs M) -> AP.ap r = Some a -> 0 <= a <= 1) /\
    (forall x, mo_map M = Some x -> 0 <= x <= 1) /\ (forall x, mo_maph M = Some x -> 0 <= x <= 1).
Proof.
  intros Hh Hw H M HM. destruct (add_frame_result_inv _ _ _ _ _ _ _ _ _ _ _ _ _ H) as (Hp & cts & _ & Em).
  destruct (frame_pipeline_inv _ _ _ _ _ _ _ _ _ _ (ph_scene _ _ _ _ _ Hh) Hp) as (rs & E & _ & Ev).
  pose proof (pipeline_frame_hyps _ _ _ _ _ _ _ _ _ _ Hh E) as Fh.
  destruct fpv.
  - injection Em as -> ->. destruct HM.
  - unfold frame_maps in Em. injection Em as -> ->.
    apply in_app_or in HM. destruct HM as [HM|HM]; apply in_map_iff in HM; destruct HM as [thrs [<- _]];
      exact (map_out_in_unit crit pf rs gts Fr _ T cts (d_targets det) thrs Fh Ev Hw).
Qed.

(* the counting fact at the level of the Maps: for every label of every Map, the ranking of that Ap has at
   most as many TPs as the Ap's num_ground_truth *)
Theorem map_out_tp_le_gt crit pf rs gts Fr v T cts dts thrs L t :
  frame_hyps crit pf rs gts -> evaluate_frame crit pf rs gts = Ok Fr -> In (L, t) (combine dts thrs) ->
  (count_tp (label_ranking v unit_w cts L t (f_results Fr)) <= num_gt_label L (f_gts Fr))%nat /\
  (count_tp (label_ranking v (heading_w T) cts L t (f_results Fr)) <= num_gt_label L (f_gts Fr))%nat /\
  In (num_gt_label L (f_gts Fr)) (mo_nums (map_out v T cts dts thrs (f_results Fr) (f_gts Fr))).
Proof.
  intros Hh H Hin. split; [eapply frame_tp_le_gt; eauto|]. split; [eapply frame_tp_le_gt; eauto|].
  unfold map_out. cbn [mo_nums]. apply in_map_iff. exists (L, t). split; [reflexivity|exact Hin].
Qed.

(* ------------------------------------------------------------------------------------------------ *)
(* 4. loosening the pass/fail thresholds (C08 with C03's bookkeeping)                                *)
(* ------------------------------------------------------------------------------------------------ *)
Lemma Forall2_nth_error_None {A B} (R : A -> B -> Prop) l l' i :
  Forall2 R l l' -> nth_error l i = None -> nth_error l' i = None.
Proof.
  intros H. revert i. induction H; intros [|i]; cbn; auto; discriminate.
Qed.

Lemma thr_of_looser pf pf' lbl :
  pf_looser pf pf' ->
  match thr_of pf lbl, thr_of pf' lbl with
  | Some t, Some t' => t <= t'
  | None, None => True
  | _, _ => False
  end.
Proof.
  intros [Ht Hl]. unfold thr_of. rewrite Ht.
  destruct (pf_targets pf) as [ts|]; [|exact I].
  destruct (pf_thresholds pf) as [l|], (pf_thresholds pf') as [l'|]; try contradiction; [|exact I].
  destruct (Filter.index_of lbl ts) as [i|]; [|exact I].
  destruct (nth_error l i) as [t|] eqn:E.
  - destruct (Forall2_nth_error _ _ _ _ _ Hl E) as [t' [E' Le]]. rewrite E'. exact Le.
  - rewrite (Forall2_nth_error_None _ _ _ _ Hl E). exact I.
Qed.

Lemma is_ktp_looser pf pf' r : pf_looser pf pf' -> is_ktp pf r = true -> is_ktp pf' r = true.
Proof.
  intros Hl. unfold is_ktp, kind_of. destruct (r_gt r) as [g|] eqn:Eg; [|discriminate].
  pose proof (thr_of_looser pf pf' (o_label g) Hl) as Ht.
  destruct (lbl_is_fp (o_label g)) eqn:Efp.
  - destruct (PassFail.is_result_correct (thr_of pf (o_label g)) r); discriminate.
  - unfold PassFail.is_result_correct. rewrite Eg, Efp.
    destruct (thr_of pf (o_label g)) as [t|], (thr_of pf' (o_label g)) as [t'|]; try contradiction.
    + unfold is_better_than. destruct (r_score r) as [s|]; cbn [andb].
      * destruct (Qltb_spec s t); cbn [andb]; [|discriminate].
        destruct (Qltb_spec s t'); [destruct (r_label_ok r); auto|exfalso; lra].
      * discriminate.
    + destruct (r_label_ok r); auto.
Qed.

Lemma filter_length_le {A} (p q : A -> bool) l :
  (forall x, In x l -> p x = true -> q x = true) -> (List.length (filter p l) <= List.length (filter q l))%nat.
Proof.
  induction l as [|x t IH]; intros H; [cbn; lia|].
  cbn [filter]. assert (IH' := IH (fun y Hy => H y (or_intror Hy))).
  destruct (p x) eqn:Ep.
  - rewrite (H x (or_introl eq_refl) Ep). cbn [List.length]. lia.
  - destruct (q x); cbn [List.length]; lia.
Qed.

Theorem frame_fn_antitone crit pf pf' rs gts Fr Fr' :
  frame_hyps crit pf rs gts -> pf_ok pf' -> pf_looser pf pf' ->
  evaluate_frame crit pf rs gts = Ok Fr -> evaluate_frame crit pf' rs gts = Ok Fr' ->
  f_results Fr' = f_results Fr /\ f_gts Fr' = f_gts Fr /\
  (forall r, In r (f_tp Fr) -> In r (f_tp Fr')) /\
  (List.length (f_tp Fr) <= List.length (f_tp Fr'))%nat /\
  (List.length (f_fn Fr') <= List.length (f_fn Fr))%nat.
Proof.
  intros Hh Hpf' Hl H H'.
  assert (Hh' : frame_hyps crit pf' rs gts) by (destruct Hh; constructor; auto).
  pose proof (ordinary_gt_count _ _ _ _ _ Hh H) as C.
  pose proof (ordinary_gt_count _ _ _ _ _ Hh' H') as C'.
  destruct (evaluate_frame_inv _ _ _ _ _ (h_pf _ _ _ _ Hh) H) as (rs1 & gts1 & Hrs & Hgts & ->).
  destruct (evaluate_frame_inv _ _ _ _ _ Hpf' H') as (rs2 & gts2 & Hrs2 & Hgts2 & ->).
  assert (rs2 = rs1) by congruence. assert (gts2 = gts1) by congruence. subst rs2 gts2.
  cbn [f_results f_gts f_tp f_fn] in *.
  assert (Hin : forall r, In r (tp_l pf rs1) -> In r (tp_l pf' rs1)).
  { unfold tp_l. intros r Hr. apply filter_In in Hr. apply filter_In. destruct Hr. split; [assumption|].
    eapply is_ktp_looser; eauto. }
  assert (Hlen : (List.length (tp_l pf rs1) <= List.length (tp_l pf' rs1))%nat).
  { unfold tp_l. apply filter_length_le. intros x _. apply is_ktp_looser; assumption. }
  repeat split; auto. lia.
Qed.

Theorem pipeline_fn_antitone md p fpv F T ests gts crit pf pf' Fr :
  pipeline_hyps F ests gts crit pf -> pf_ok pf' -> pf_looser pf pf' ->
  frame_pipeline md p fpv F T ests gts crit pf = Ok Fr ->
  exists Fr', frame_pipeline md p fpv F T ests gts crit pf' = Ok Fr' /\
    f_results Fr' = f_results Fr /\ f_gts Fr' = f_gts Fr /\
    (forall r, In r (f_tp Fr) -> In r (f_tp Fr')) /\
    (List.length (f_tp Fr) <= List.length (f_tp Fr'))%nat /\
    (List.length (f_fn Fr') <= List.length (f_fn Fr))%nat.
Proof.
  intros Hh Hpf' Hl H.
  assert (Hh' : pipeline_hyps F ests gts crit pf') by (destruct Hh; constructor; auto).
  destruct (pipeline_total md p fpv F T ests gts crit pf' Hh') as [Fr' H'].
  exists Fr'. split; [exact H'|].
  destruct (frame_pipeline_inv _ _ _ _ _ _ _ _ _ _ (ph_scene _ _ _ _ _ Hh) H) as (rs & E & _ & Ev).
  destruct (frame_pipeline_inv _ _ _ _ _ _ _ _ _ _ (ph_scene _ _ _ _ _ Hh) H') as (rs2 & E2 & _ & Ev').
  assert (rs2 = rs) by congruence. subst rs2.
  exact (frame_fn_antitone crit pf pf' rs gts Fr Fr' (pipeline_frame_hyps _ _ _ _ _ _ _ _ _ _ Hh E) Hpf' Hl Ev Ev').
Qed.
