From Coq Require Import String List Bool.
From PE Require Import Base.StrUtil Gen.LabelTables Model.Label.
Import ListNotations.
Open Scope string_scope.

Lemma lookup_case_insensitive : forall fm tbl s t,
  lower s = lower t -> lookup true fm tbl s = lookup true fm tbl t.
Proof. intros fm tbl s t H. unfold lookup. now rewrite H. Qed.

Lemma lookup_first_last : forall lo tbl s,
  names_unique tbl = true -> lookup lo false tbl s = lookup lo true tbl s.
Proof.
  intros lo tbl s H. unfold lookup. apply nodup_str_NoDup in H.
  rewrite find_last_first_nodup by assumption. now destruct (find_first _ tbl).
Qed.

Lemma find_first_in_nodup : forall (tbl : table) l n,
  NoDup (map snd tbl) -> In (l, n) tbl -> find_first n tbl = Some l.
Proof.
  induction tbl as [|[l0 n0] t IH]; simpl; intros l n Hnd Hin; [tauto|].
  inversion Hnd as [|x xs Hnotin Hnd' Heq]; subst.
  destruct Hin as [[= -> ->]|Hin].
  - now rewrite String.eqb_refl.
  - destruct (String.eqb_spec n n0) as [->|Hne]; [|now apply IH].
    exfalso. apply Hnotin. change n0 with (snd (l, n0)). now apply in_map.
Qed.

Lemma lookup_registered : forall fm tbl l n,
  names_unique tbl = true -> names_lower tbl = true -> In (l, n) tbl ->
  lookup true fm tbl n = l.
Proof.
  intros fm tbl l n Hu Hl Hin.
  destruct fm; [|rewrite lookup_first_last by assumption]; unfold lookup;
    (unfold names_lower in Hl; rewrite forallb_forall in Hl; specialize (Hl _ Hin); simpl in Hl;
     apply String.eqb_eq in Hl; rewrite Hl;
     rewrite (find_first_in_nodup tbl l n); [reflexivity|now apply nodup_str_NoDup|assumption]).
Qed.

Lemma lookup_unregistered : forall (lo fm : bool) (tbl : table) s,
  ~ In (if lo then lower s else s) (map snd tbl) -> lookup lo fm tbl s = "UNKNOWN".
Proof.
  intros lo fm tbl s H. unfold lookup.
  destruct fm.
  - apply find_first_none in H. now rewrite H.
  - now rewrite find_last_acc_notin.
Qed.

Lemma lookup_member : forall lo fm ms tbl s,
  labels_are_members ms tbl = true -> In (lookup lo fm tbl s) (map fst ms).
Proof.
  intros lo fm ms tbl s H. unfold labels_are_members in H. apply andb_true_iff in H as [H Hu].
  rewrite forallb_forall in H. apply mem_str_In in Hu.
  assert (Hf : forall k a, find_first k tbl = Some a -> In a (map fst ms)).
  { intros k a Hk. apply find_first_some_in in Hk. apply mem_str_In. apply (H _ Hk). }
  assert (Hl : forall k (t : table) acc a, (forall p, In p t -> In p tbl) ->
             (forall b, acc = Some b -> In b (map fst ms)) ->
             find_last k t acc = Some a -> In a (map fst ms)).
  { intros k t. induction t as [|[l n] t IH]; simpl; intros acc a Hsub Hacc Hk; [now apply Hacc|].
    eapply IH; [ | |exact Hk].
    - intros p Hp. apply Hsub. now right.
    - intros b. destruct (String.eqb k n); [|apply Hacc].
      intros Hb. injection Hb as <-. apply mem_str_In. apply (H (l, n)). apply Hsub. now left. }
  unfold lookup. destruct fm.
  - destruct (find_first _ tbl) eqn:E; [eapply Hf; eauto|assumption].
  - destruct (find_last _ tbl None) eqn:E; [|assumption].
    eapply (Hl _ tbl None); [intros p Hp; exact Hp|intros b Hb; discriminate Hb|exact E].
Qed.

(* merging: the merged table is the unmerged one with merge_map applied to the labels *)
Lemma find_first_map : forall (f : string -> string) k (tbl : table),
  find_first k (map (fun p => (f (fst p), snd p)) tbl) = option_map f (find_first k tbl).
Proof.
  induction tbl as [|[l n] t IH]; simpl; [reflexivity|]. destruct (String.eqb k n); [reflexivity|assumption].
Qed.

Lemma find_last_map : forall (f : string -> string) k (tbl : table) acc,
  find_last k (map (fun p => (f (fst p), snd p)) tbl) (option_map f acc) = option_map f (find_last k tbl acc).
Proof.
  induction tbl as [|[l n] t IH]; simpl; intros acc; [reflexivity|].
  destruct (String.eqb k n); [apply (IH (Some l))|apply IH].
Qed.

Lemma lookup_merge : forall lo fm (tbl : table) s,
  lookup lo fm (map (fun p => (merge_map (fst p), snd p)) tbl) s = merge_map (lookup lo fm tbl s).
Proof.
  intros lo fm tbl s. unfold lookup. destruct fm.
  - rewrite find_first_map. now destruct (find_first _ tbl).
  - change (@None string) with (option_map merge_map None) at 1.
    rewrite find_last_map. now destruct (find_last _ tbl None).
Qed.

Lemma canonical_fixed_sound : forall ms tbl,
  canonical_fixed ms tbl = true ->
  forall l, (l = "UNKNOWN" \/ In l (map fst tbl)) ->
  exists v, value_of ms l = Some v /\ convert_label tbl v = l.
Proof.
  intros ms tbl H l Hl. unfold canonical_fixed in H. rewrite forallb_forall in H.
  specialize (H l). simpl in H. assert (Hin : "UNKNOWN" = l \/ In l (map fst tbl)) by (destruct Hl; auto).
  specialize (H Hin). destruct (value_of ms l) as [v|]; [|discriminate].
  exists v. split; [reflexivity|now apply String.eqb_eq].
Qed.

(* ---- the per-table statement of C14 and its boolean certificate *)
Definition label_table_ok (ms : list (string * string)) (tbl : table) : Prop :=
  (* total: the result is always a member of the label enum *)
  (forall s, In (convert_label tbl s) (map fst ms)) /\
  (* letter case is ignored *)
  (forall s t, lower s = lower t -> convert_label tbl s = convert_label tbl t) /\
  (* every registered name, in every case variant, maps to its documented label *)
  (forall l n s, In (l, n) tbl -> lower s = lower n -> convert_label tbl s = l) /\
  (* every label the table can produce is the image of its own canonical name (enum value) *)
  (forall l, l = "UNKNOWN" \/ In l (map fst tbl) ->
     exists v, value_of ms l = Some v /\ convert_label tbl v = l) /\
  (* unregistered names map to unknown *)
  (forall s, ~ In (lower s) (map snd tbl) -> convert_label tbl s = "UNKNOWN") /\
  (* target-label lists (convert_name) are resolved with the same mapping as object labels *)
  (forall s, convert_name tbl s = convert_label tbl s).

Definition label_table_check (ms : list (string * string)) (tbl : table) : bool :=
  convert_label_lower && convert_name_lower
  && names_lower tbl && names_unique tbl && labels_are_members ms tbl && canonical_fixed ms tbl.

Theorem label_table_check_sound : forall ms tbl,
  label_table_check ms tbl = true -> label_table_ok ms tbl.
Proof.
  intros ms tbl H. unfold label_table_check in H.
  repeat (apply andb_true_iff in H; destruct H as [H ?]).
  rename H into Hll, H0 into Hcan, H1 into Hmem, H2 into Huniq, H3 into Hlow, H4 into Hnl.
  unfold label_table_ok, convert_label, convert_name. rewrite Hll, Hnl.
  assert (Hfl : forall s, lookup true convert_name_first_match tbl s
                        = lookup true convert_label_first_match tbl s).
  { intros s. destruct convert_name_first_match, convert_label_first_match; try reflexivity;
      [symmetry|]; now apply lookup_first_last. }
  repeat split.
  - intros s. now apply lookup_member.
  - intros s t Hst. now apply lookup_case_insensitive.
  - intros l n s Hin Hs. rewrite (lookup_case_insensitive _ _ s n Hs). now apply lookup_registered.
  - intros l Hl. destruct (canonical_fixed_sound ms tbl Hcan l Hl) as [v [Hv Hc]].
    exists v. split; [assumption|]. unfold convert_label in Hc. now rewrite Hll in Hc.
  - intros s Hs. now apply lookup_unregistered.
  - exact Hfl.
Qed.

Theorem merge_consistent_from_tables : forall merged unmerged,
  merged = map (fun p => (merge_map (fst p), snd p)) unmerged ->
  forall s, convert_label merged s = merge_map (convert_label unmerged s).
Proof. intros merged unmerged -> s. unfold convert_label. apply lookup_merge. Qed.
