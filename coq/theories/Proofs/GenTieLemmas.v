(* Helper lemmas and the ONE proof tactic of Props/GenTie.v (generated definitions = hand models).

   [tie] proves an equation between two decision functions built from
     if / match on bool, option, list, pair, enum;  &&, ||, negb;  Qltb/Qleb/Qeqb, Z.leb/Z.ltb/Z.eqb, Nat.eqb;
     the error monad Filter.res (bind / Ok / ErrType / ErrIndex)
   over the same atomic facts.  It never looks at the shape of a particular function:
     1. after the caller has unfolded both sides (cbv beta iota zeta delta [...]), it repeatedly reduces, normalises the
        monad (left unit, associativity), and
     2. when both sides are `bind X K` / `bind X' K'`: proves X = X' (recursively) and continues under an ARBITRARY result of
        X (this keeps the accumulator chains of _is_target_object linear instead of exponential);
     3. otherwise case-splits on the scrutinee that blocks reduction (head position first, then any match-free scrutinee);
        numeric comparisons are split through their spec lemmas so that the branches carry (in)equalities over Q / Z / nat;
     4. closes leaves by reflexivity, or by contradiction with lra / lia / congruence.
   What it absorbs without any change: reordered conjuncts / disjuncts, `a > b` written as `b < a`, `not a < b` written as
   `a >= b`, `if c: return True else: return False` folded into `return c`, De Morgan, nested ifs instead of `and`, early
   returns instead of an accumulator, extra / renamed locals (they are inlined by zeta), a test repeated or hoisted.
   What it cannot absorb: anything that needs a fact about a recursive helper (e.g. mem_nat vs index_of), a different ORDER of
   two steps that can both raise (that is a different function: another exception wins), arithmetic beyond linear. *)
From Coq Require Import List Bool ZArith String Arith Lia.
From PE Require Import Base.QUtil.
From PE Require Model.Filter.
Import ListNotations.

Lemma bind_Ok {A B} (a : A) (f : A -> Filter.res B) : Filter.bind (Filter.Ok a) f = f a.
Proof. reflexivity. Qed.
Lemma bind_ErrType {A B} (f : A -> Filter.res B) : Filter.bind Filter.ErrType f = Filter.ErrType.
Proof. reflexivity. Qed.
Lemma bind_ErrIndex {A B} (f : A -> Filter.res B) : Filter.bind Filter.ErrIndex f = Filter.ErrIndex.
Proof. reflexivity. Qed.
Lemma bind_assoc {A B C} (m : Filter.res A) (f : A -> Filter.res B) (g : B -> Filter.res C) :
  Filter.bind (Filter.bind m f) g = Filter.bind m (fun x => Filter.bind (f x) g).
Proof. destruct m; reflexivity. Qed.
Lemma bind_ret {A} (m : Filter.res A) : Filter.bind m (fun x => Filter.Ok x) = m.
Proof. destruct m; reflexivity. Qed.
Lemma bind_ext {A B} (m m' : Filter.res A) (f f' : A -> Filter.res B) :
  m = m' -> (forall a, f a = f' a) -> Filter.bind m f = Filter.bind m' f'.
Proof. intros -> H. destruct m'; simpl; auto. Qed.

(* ---- case split on one atom --------------------------------------------------------------------------------------- *)
Ltac tie_destruct s :=
  lazymatch s with
  | Qltb ?a ?b => destruct (Qltb_spec a b)
  | Qleb ?a ?b => destruct (Qleb_spec a b)
  | Qeqb ?a ?b => destruct (Qeqb_spec a b)
  | Z.leb ?a ?b => destruct (Z.leb_spec a b)
  | Z.ltb ?a ?b => destruct (Z.ltb_spec a b)
  | Z.eqb ?a ?b => destruct (Z.eqb_spec a b)
  | Nat.eqb ?a ?b => destruct (Nat.eqb_spec a b)
  | _ => destruct s eqn:?
  end.

(* the scrutinee that blocks the reduction of a term, looking through bind and nested matches *)
Ltac tie_head T :=
  lazymatch T with
  | Filter.bind ?X _ => tie_head X
  | match ?s with _ => _ end =>
      lazymatch s with
      | context [match _ with _ => _ end] => tie_head s
      | context [Filter.bind _ _] => tie_head s
      | _ => s
      end
  end.

Ltac tie_split_head :=
  match goal with
  | |- ?L = _ => let s := tie_head L in tie_destruct s
  | |- _ = ?R => let s := tie_head R in tie_destruct s
  end.

(* any scrutinee that contains no further match (bound variables are skipped by `context`) *)
Ltac tie_split_any :=
  match goal with
  | |- context [match ?s with _ => _ end] =>
      lazymatch s with
      | context [match _ with _ => _ end] => fail
      | _ => tie_destruct s
      end
  end.

(* a comparison that is not under a match (e.g. `Ok (Qltb a b) = Ok (Qleb a b)`) *)
Ltac tie_split_cmp :=
  match goal with
  | |- context [Qltb ?a ?b] => destruct (Qltb_spec a b)
  | |- context [Qleb ?a ?b] => destruct (Qleb_spec a b)
  | |- context [Qeqb ?a ?b] => destruct (Qeqb_spec a b)
  | |- context [Z.leb ?a ?b] => destruct (Z.leb_spec a b)
  | |- context [Z.ltb ?a ?b] => destruct (Z.ltb_spec a b)
  | |- context [Z.eqb ?a ?b] => destruct (Z.eqb_spec a b)
  | |- context [Nat.eqb ?a ?b] => destruct (Nat.eqb_spec a b)
  end.

Ltac tie_close :=
  first [ reflexivity
        | exfalso; lra
        | exfalso; lia
        | congruence
        | exfalso; congruence ].

(* beta / iota / `bind (Ok a) f` ~> `f a` / `bind Err f` ~> Err (bind stays folded when its first argument is stuck), then
   re-association when the head is `bind (bind _ _) _` *)
Ltac tie_norm :=
  cbn beta iota delta [Filter.bind];
  repeat (lazymatch goal with
          | |- Filter.bind (Filter.bind ?m ?f) ?g = _ => rewrite (bind_assoc m f g)
          | |- _ = Filter.bind (Filter.bind ?m ?f) ?g => rewrite (bind_assoc m f g)
          end; cbn beta iota delta [Filter.bind]).

(* brute force: no congruence under bind *)
Ltac tie_brute :=
  tie_norm;
  first [ reflexivity
        | tie_split_head; tie_brute
        | tie_split_any; tie_brute
        | tie_split_cmp; tie_brute
        | tie_close ].

(* with congruence under bind (committed once the first components agree) *)
Ltac tie_fast :=
  tie_norm;
  first
    [ reflexivity
    | lazymatch goal with
      | |- Filter.bind ?X _ = Filter.bind ?X' _ =>
          tryif (apply bind_ext; [ solve [ tie_fast ] | ])
          then (intro; tie_fast)
          else (tie_split_head; tie_fast)
      end
    | tie_split_head; tie_fast
    | tie_split_any; tie_fast
    | tie_split_cmp; tie_fast
    | tie_close ].

(* Both strategies run under a time budget: on the unchanged sources [tie_fast] needs about 4 s for the largest function
   (_is_target_object) and well under a second for the others, but on a FALSE equation of that size the search would go on
   for many minutes before it reaches the failing leaf.  The brute-force fallback only matters when the two sides bind in
   different places. *)
Ltac tie := intros; first [ timeout 60 (solve [ tie_fast ]) | timeout 20 (solve [ tie_brute ]) ].
