(* Proofs about Model/PassFail.v (property C03). *)
From Coq Require Import List Bool ZArith String Arith Lia Permutation.
From PE Require Import Base.QUtil Model.Filter Model.PassFail Proofs.FilterProofs.
Import ListNotations.
Open Scope Q_scope.

(* ---------------- counting ---------------- *)
Lemma cnt_nil x : cnt x [] = O.
Proof. reflexivity. Qed.

Lemma cnt_cons x y l : cnt x (y :: l) = ((if Nat.eqb x y then 1 else 0) + cnt x l)%nat.
Proof. unfold cnt. simpl. destruct (Nat.eqb x y); reflexivity. Qed.

Lemma cnt_app x l1 l2 : cnt x (l1 ++ l2) = (cnt x l1 + cnt x l2)%nat.
Proof. unfold cnt. rewrite filter_app, app_length. reflexivity. Qed.

Lemma cnt_zero x l : ~ In x l -> cnt x l = O.
Proof.
  induction l as [|y t IH]; intros H; [reflexivity|]. rewrite cnt_cons.
  destruct (Nat.eqb x y) eqn:E.
  - apply Nat.eqb_eq in E. subst. exfalso. apply H. left; reflexivity.
  - rewrite IH; [reflexivity|]. intro Hin. apply H. right; assumption.
Qed.

Lemma cnt_pos x l : In x l -> (1 <= cnt x l)%nat.
Proof.
  induction l as [|y t IH]; intros H; [destruct H|]. rewrite cnt_cons. destruct H as [->|H].
  - rewrite Nat.eqb_refl. lia.
  - specialize (IH H). lia.
Qed.

Lemma cnt_NoDup x l : NoDup l -> In x l -> cnt x l = 1%nat.
Proof.
  induction 1 as [|y t Hy Hn IH]; intros H; [destruct H|]. rewrite cnt_cons. destruct H as [->|H].
  - rewrite Nat.eqb_refl, cnt_zero by assumption. reflexivity.
  - destruct (Nat.eqb x y) eqn:E; [apply Nat.eqb_eq in E; subst; contradiction|]. rewrite IH by assumption. reflexivity.
Qed.

Lemma NoDup_map_eq {A B} (f : A -> B) l a b : NoDup (map f l) -> In a l -> In b l -> f a = f b -> a = b.
Proof.
  induction l as [|c t IH]; simpl; intros Hn Ha Hb E; [destruct Ha|].
  inversion Hn as [|? ? Hc Hn']; subst.
  destruct Ha as [->|Ha], Hb as [->|Hb]; auto.
  - exfalso. apply Hc. rewrite E. apply in_map; assumption.
  - exfalso. apply Hc. rewrite <- E. apply in_map; assumption.
Qed.

Lemma NoDup_map_NoDup {A B} (f : A -> B) l : NoDup (map f l) -> NoDup l.
Proof.
  induction l as [|a t IH]; simpl; intros H; [constructor|]. inversion H; subst.
  constructor; auto. intro Hin. apply H2. apply in_map; assumption.
Qed.

(* in a list with distinct ids, the occurrences of g's id in a filtered sub-list *)
Lemma cnt_filter_unique (p : Obj -> bool) l g :
  NoDup (map o_id l) -> In g l -> cnt (o_id g) (ids (filter p l)) = if p g then 1%nat else O.
Proof.
  intros Hn Hin.
  assert (Hsub : Sublist (ids (filter p l)) (map o_id l)) by (apply Sublist_map, Sublist_filter).
  destruct (p g) eqn:Ep.
  - apply cnt_NoDup; [eapply Sublist_NoDup; eauto|]. unfold ids. apply in_map. apply filter_In; auto.
  - apply cnt_zero. unfold ids. rewrite in_map_iff. intros [h [Hid Hh]]. apply filter_In in Hh. destruct Hh as [Hh Hp].
    assert (h = g) by (eapply NoDup_map_eq; eauto). subst. congruence.
Qed.

(* ---------------- pure reading of the two classification loops ---------------- *)
Lemma glt_ok pf lbl : pf_ok pf -> get_label_threshold (pf_targets pf) lbl (pf_thresholds pf) = Ok (thr_of pf lbl).
Proof.
  intros H. unfold get_label_threshold, thr_of.
  destruct (pf_targets pf) as [ts|] eqn:Et; [|reflexivity].
  destruct (pf_thresholds pf) as [l|] eqn:El; [|reflexivity].
  destruct (index_of lbl ts) as [i|] eqn:Ei; [|reflexivity].
  pose proof (index_of_lt _ _ _ Ei) as Hlt. rewrite <- (H ts l Et El) in Hlt.
  destruct (nth_error_lt_Some l i Hlt) as [v Hv]. rewrite Hv. reflexivity.
Qed.

Inductive kind := KNoGt | KTp | KFn | KTn | KFpFp.

Definition kind_of (pf : PF) (r : Res) : kind :=
  match r_gt r with
  | None => KNoGt
  | Some g =>
      if is_result_correct (thr_of pf (o_label g)) r
      then (if lbl_is_fp (o_label g) then KTn else KTp)
      else (if lbl_is_fp (o_label g) then KFpFp else KFn)
  end.

Definition is_ktp pf r : bool := match kind_of pf r with KTp => true | _ => false end.
Definition fp_of pf r : list Res := match kind_of pf r with KTp => [] | KTn => [reemit r] | _ => [r] end.
Definition tn_of pf r : list Obj := match kind_of pf r with KTn => gt_of r | _ => [] end.
Definition fn_of pf r : list Obj := match kind_of pf r with KFn => gt_of r | _ => [] end.
Definition fpfp_of pf r : list Obj := match kind_of pf r with KFpFp => gt_of r | _ => [] end.

Definition tp_l pf rs := filter (is_ktp pf) rs.
Definition fp_l pf rs := flat_map (fp_of pf) rs.
Definition tn1_l pf rs := flat_map (tn_of pf) rs.
Definition fn1_l pf rs := flat_map (fn_of pf) rs.
Definition fpfp_l pf rs := flat_map (fpfp_of pf) rs.

Lemma get_positive_spec pf rs : pf_ok pf -> get_positive pf rs = Ok (tp_l pf rs, fp_l pf rs).
Proof.
  intros Hpf. induction rs as [|r t IH]; [reflexivity|].
  cbn [get_positive]. rewrite IH. unfold classify_positive, tp_l, fp_l, is_ktp, fp_of, kind_of, get_status.
  cbn [filter flat_map].
  destruct (r_gt r) as [g|] eqn:Eg; [|reflexivity].
  rewrite glt_ok by assumption. cbn [bind].
  destruct (is_result_correct (thr_of pf (o_label g)) r); destruct (lbl_is_fp (o_label g)); reflexivity.
Qed.

Lemma negative_results_spec pf rs :
  pf_ok pf -> negative_results pf rs = Ok (tn1_l pf rs, fn1_l pf rs, gts_of rs).
Proof.
  intros Hpf. induction rs as [|r t IH]; [reflexivity|].
  cbn [negative_results]. rewrite IH. unfold negative_status, tn1_l, fn1_l, gts_of, tn_of, fn_of, kind_of, gt_of, get_status.
  cbn [flat_map]. rewrite glt_ok by assumption. cbn [bind].
  destruct (r_gt r) as [g|] eqn:Eg; [|reflexivity].
  destruct (is_result_correct (thr_of pf (o_label g)) r); destruct (lbl_is_fp (o_label g)); reflexivity.
Qed.

Definition rest_tn nc gts := filter (fun g => negb (key_mem g nc) && lbl_is_fp (o_label g)) gts.
Definition rest_fn nc gts := filter (fun g => negb (key_mem g nc) && negb (lbl_is_fp (o_label g))) gts.

Lemma negative_rest_spec nc gts : negative_rest nc gts = (rest_tn nc gts, rest_fn nc gts).
Proof.
  induction gts as [|g t IH]; [reflexivity|]. cbn [negative_rest]. rewrite IH. unfold rest_tn, rest_fn. cbn [filter].
  destruct (key_mem g nc); simpl; [reflexivity|]. destruct (lbl_is_fp (o_label g)); reflexivity.
Qed.

Lemma get_negative_spec pf gts rs :
  pf_ok pf ->
  get_negative pf gts rs = Ok (tn1_l pf rs ++ rest_tn (gts_of rs) gts, fn1_l pf rs ++ rest_fn (gts_of rs) gts).
Proof.
  intros Hpf. unfold get_negative. rewrite negative_results_spec by assumption. cbn [bind].
  rewrite negative_rest_spec. reflexivity.
Qed.

(* evaluate_frame, unfolded once and for all *)
Lemma evaluate_frame_inv crit pf rs gts F :
  pf_ok pf -> evaluate_frame crit pf rs gts = Ok F ->
  exists rs' gts',
    filter_object_results crit true rs = Ok rs' /\ filter_objects crit true true gts = Ok gts' /\
    F = mkFrame rs' gts' (tp_l pf rs') (fp_l pf rs')
          (tn1_l pf rs' ++ rest_tn (gts_of rs') gts') (fn1_l pf rs' ++ rest_fn (gts_of rs') gts').
Proof.
  intros Hpf. unfold evaluate_frame.
  destruct (filter_object_results crit true rs) as [rs'| |]; cbn [bind]; try discriminate.
  destruct (filter_objects crit true true gts) as [gts'| |]; cbn [bind]; try discriminate.
  rewrite get_positive_spec by assumption. cbn [bind].
  rewrite get_negative_spec by assumption. cbn [bind].
  intros H. inversion H. exists rs', gts'. auto.
Qed.

(* ---------------- 1. results = TP + FP ---------------- *)
Lemma est_id_reemit r : est_id (reemit r) = est_id r.
Proof. reflexivity. Qed.

Lemma partition_perm pf rs :
  Permutation (map est_id (tp_l pf rs) ++ map est_id (fp_l pf rs)) (map est_id rs).
Proof.
  induction rs as [|r t IH]; [constructor|].
  unfold tp_l, fp_l, is_ktp, fp_of in *. cbn [filter flat_map map].
  destruct (kind_of pf r); cbn [map app]; rewrite ?map_app; cbn [map app];
    try (apply Permutation_sym, Permutation_cons_app, Permutation_sym; exact IH).
  constructor. exact IH.
Qed.

Theorem results_partition crit pf rs gts F :
  pf_ok pf -> evaluate_frame crit pf rs gts = Ok F ->
  Permutation (map est_id (f_tp F) ++ map est_id (f_fp F)) (map est_id (f_results F)) /\
  List.length (f_results F) = (List.length (f_tp F) + List.length (f_fp F))%nat.
Proof.
  intros Hpf H. destruct (evaluate_frame_inv _ _ _ _ _ Hpf H) as (rs' & gts' & _ & _ & ->). cbn [f_gts f_tp f_fp f_tn f_fn f_results].
  pose proof (partition_perm pf rs') as P. split; [exact P|].
  apply Permutation_length in P. rewrite app_length, !map_length in P. lia.
Qed.

(* ---------------- 2. every critical ground truth is accounted for exactly once ---------------- *)
Lemma gts_of_app a b : gts_of (a ++ b) = gts_of a ++ gts_of b.
Proof. unfold gts_of. apply flat_map_app. Qed.

Lemma gt_of_kind pf r :
  match kind_of pf r with
  | KNoGt => gt_of r = []
  | KTp | KFn => exists g, gt_of r = [g] /\ lbl_is_fp (o_label g) = false
  | KTn | KFpFp => exists g, gt_of r = [g] /\ lbl_is_fp (o_label g) = true
  end.
Proof.
  unfold kind_of, gt_of. destruct (r_gt r) as [g|]; [|reflexivity].
  destruct (is_result_correct (thr_of pf (o_label g)) r); destruct (lbl_is_fp (o_label g)) eqn:E; eauto.
Qed.

(* the ground truths of the results split four ways; the FP list carries those of kinds FN and FP/FP *)
Lemma gt_ids_app a b : gt_ids (a ++ b) = gt_ids a ++ gt_ids b.
Proof. unfold gt_ids. rewrite gts_of_app, map_app. reflexivity. Qed.

Lemma head_counts pf r x :
  (cnt x (gt_ids (if is_ktp pf r then [r] else [])) + cnt x (ids (fn_of pf r)) + cnt x (ids (tn_of pf r))
     + cnt x (ids (fpfp_of pf r)))%nat = cnt x (ids (gt_of r)) /\
  cnt x (gt_ids (fp_of pf r)) = (cnt x (ids (fn_of pf r)) + cnt x (ids (fpfp_of pf r)))%nat.
Proof.
  unfold is_ktp, fn_of, tn_of, fpfp_of, fp_of, kind_of, gt_ids, gts_of, gt_of, ids.
  destruct (r_gt r) as [g|] eqn:Eg.
  - destruct (is_result_correct (thr_of pf (o_label g)) r); destruct (lbl_is_fp (o_label g));
      cbn [flat_map gt_of reemit r_gt app map]; rewrite ?Eg; cbn [flat_map app map]; rewrite ?cnt_nil; split; lia.
  - cbn [flat_map app map]. unfold gt_of. rewrite Eg. cbn [flat_map app map]. rewrite ?cnt_nil. split; lia.
Qed.

Lemma count_split pf rs x :
  (cnt x (gt_ids (tp_l pf rs)) + cnt x (ids (fn1_l pf rs)) + cnt x (ids (tn1_l pf rs)) + cnt x (ids (fpfp_l pf rs)))%nat
    = cnt x (gt_ids rs) /\
  cnt x (gt_ids (fp_l pf rs)) = (cnt x (ids (fn1_l pf rs)) + cnt x (ids (fpfp_l pf rs)))%nat.
Proof.
  induction rs as [|r t [IH1 IH2]]; [split; reflexivity|].
  destruct (head_counts pf r x) as [H1 H2].
  assert (Etp : tp_l pf (r :: t) = (if is_ktp pf r then [r] else []) ++ tp_l pf t)
    by (unfold tp_l; cbn [filter]; destruct (is_ktp pf r); reflexivity).
  assert (Efp : fp_l pf (r :: t) = fp_of pf r ++ fp_l pf t) by reflexivity.
  assert (Efn : fn1_l pf (r :: t) = fn_of pf r ++ fn1_l pf t) by reflexivity.
  assert (Etn : tn1_l pf (r :: t) = tn_of pf r ++ tn1_l pf t) by reflexivity.
  assert (Eff : fpfp_l pf (r :: t) = fpfp_of pf r ++ fpfp_l pf t) by reflexivity.
  assert (Egt : gt_ids (r :: t) = ids (gt_of r) ++ gt_ids t) by (unfold gt_ids, gts_of, ids; cbn [flat_map]; apply map_app).
  rewrite Etp, Efp, Efn, Etn, Eff, Egt. rewrite !gt_ids_app. unfold ids in *. rewrite !map_app, !cnt_app. split; lia.
Qed.

Lemma in_flat_gt pf (f : PF -> Res -> list Obj) rs h :
  (forall r, incl (f pf r) (gt_of r)) -> In h (flat_map (f pf) rs) -> In h (gts_of rs).
Proof.
  intros Hf Hin. apply in_flat_map in Hin. destruct Hin as [r [Hr Hh]].
  unfold gts_of. apply in_flat_map. exists r. split; [assumption|]. apply (Hf r); assumption.
Qed.

Lemma tn_of_incl pf r : incl (tn_of pf r) (gt_of r).
Proof. unfold tn_of. destruct (kind_of pf r); auto using incl_refl, incl_nil_l. Qed.
Lemma fn_of_incl pf r : incl (fn_of pf r) (gt_of r).
Proof. unfold fn_of. destruct (kind_of pf r); auto using incl_refl, incl_nil_l. Qed.
Lemma fpfp_of_incl pf r : incl (fpfp_of pf r) (gt_of r).
Proof. unfold fpfp_of. destruct (kind_of pf r); auto using incl_refl, incl_nil_l. Qed.

Lemma tn_of_fp pf r h : In h (tn_of pf r) -> lbl_is_fp (o_label h) = true.
Proof.
  unfold tn_of. pose proof (gt_of_kind pf r) as K. destruct (kind_of pf r); try (intros []).
  destruct K as [g [K E]]. rewrite K. intros [<-|[]]. exact E.
Qed.
Lemma fpfp_of_fp pf r h : In h (fpfp_of pf r) -> lbl_is_fp (o_label h) = true.
Proof.
  unfold fpfp_of. pose proof (gt_of_kind pf r) as K. destruct (kind_of pf r); try (intros []).
  destruct K as [g [K E]]. rewrite K. intros [<-|[]]. exact E.
Qed.
Lemma fn_of_ord pf r h : In h (fn_of pf r) -> lbl_is_fp (o_label h) = false.
Proof.
  unfold fn_of. pose proof (gt_of_kind pf r) as K. destruct (kind_of pf r); try (intros []).
  destruct K as [g [K E]]. rewrite K. intros [<-|[]]. exact E.
Qed.
Lemma tp_gt_ord pf rs h : In h (gts_of (tp_l pf rs)) -> lbl_is_fp (o_label h) = false.
Proof.
  unfold gts_of, tp_l. intros H. apply in_flat_map in H. destruct H as [r [Hr Hh]].
  apply filter_In in Hr. destruct Hr as [_ Hk]. unfold is_ktp in Hk.
  pose proof (gt_of_kind pf r) as K. destruct (kind_of pf r); try discriminate.
  destruct K as [g [K E]]. rewrite K in Hh. destruct Hh as [<-|[]]. exact E.
Qed.
Lemma tp_gt_incl pf rs h : In h (gts_of (tp_l pf rs)) -> In h (gts_of rs).
Proof.
  unfold gts_of, tp_l. intros H. apply in_flat_map in H. destruct H as [r [Hr Hh]].
  apply filter_In in Hr. apply in_flat_map. exists r. tauto.
Qed.

(* no object of list l has the id of g, when l's members live in gts and differ from g in a flag *)
Lemma cnt_other_kind (l gts : list Obj) g b :
  NoDup (map o_id gts) -> In g gts -> incl l gts ->
  lbl_is_fp (o_label g) = b -> (forall h, In h l -> lbl_is_fp (o_label h) = negb b) ->
  cnt (o_id g) (ids l) = O.
Proof.
  intros Hn Hg Hl Hb Hk. apply cnt_zero. unfold ids. rewrite in_map_iff. intros [h [Hid Hh]].
  assert (h = g) by (eapply NoDup_map_eq; eauto). subst h. rewrite (Hk g Hh) in Hb. destruct b; discriminate.
Qed.

Lemma key_mem_In nc gts g :
  NoDup (map o_key gts) -> incl nc gts -> In g gts -> (key_mem g nc = true <-> In g nc).
Proof.
  intros Hn Hnc Hg. unfold key_mem. rewrite existsb_exists. split.
  - intros [h [Hh E]]. apply Nat.eqb_eq in E.
    assert (g = h) by (eapply NoDup_map_eq; eauto). subst; assumption.
  - intros H. exists g. split; [assumption|apply Nat.eqb_refl].
Qed.

(* hypotheses on the frame handed to evaluate_frame *)
Record frame_hyps (crit : Cfg) (pf : PF) (rs : list Res) (gts : list Obj) : Prop := {
  h_crit : wf_cfg crit;
  h_pf : pf_ok pf;
  h_frame : wf_frame rs gts;
  h_points : forall g, In g gts -> obj_ok crit true g
}.

(* what survives the two critical filters *)
Lemma survivors crit pf rs gts rs' gts' :
  frame_hyps crit pf rs gts ->
  filter_object_results crit true rs = Ok rs' -> filter_objects crit true true gts = Ok gts' ->
  Sublist rs' rs /\ Sublist gts' gts /\
  NoDup (gt_ids rs') /\ NoDup (map o_id gts') /\ NoDup (map o_key gts') /\
  incl (gts_of rs') gts' /\
  (forall g, In g gts' -> In g gts /\ kept crit true true g = true) /\
  (forall r, In r rs' -> In r rs /\ kept (est_side crit) true false (r_est r) = true).
Proof.
  intros [Hc Hpf Hf Hpts] Hrs Hgts.
  pose proof (filter_results_sublist _ _ _ _ Hrs) as S1.
  pose proof (filter_sublist _ _ _ _ _ Hgts) as S2.
  assert (Hres_ok : forall r, In r rs -> res_ok crit r).
  { intros r Hr g Hg. apply Hpts. eapply (wf_gt_in _ _ Hf); eauto. }
  rewrite filter_object_results_spec in Hrs by assumption. inversion Hrs as [Hrs']. clear Hrs.
  rewrite filter_objects_spec in Hgts by assumption. inversion Hgts as [Hgts']. clear Hgts.
  assert (Sg : Sublist (gts_of rs') (gts_of rs)).
  { clear -S1. induction S1; [constructor| |].
    - unfold gts_of in *. cbn [flat_map]. destruct (gt_of a) as [|g [|? ?]] eqn:E.
      + exact IHS1.
      + cbn [app]. apply SL_skip. exact IHS1.
      + unfold gt_of in E. destruct (r_gt a); discriminate.
    - unfold gts_of in *. cbn [flat_map]. destruct (gt_of a) as [|g [|? ?]] eqn:E.
      + exact IHS1.
      + cbn [app]. apply SL_keep. exact IHS1.
      + unfold gt_of in E. destruct (r_gt a); discriminate. }
  subst rs' gts'.
  split; [assumption|]. split; [assumption|].
  split. { eapply Sublist_NoDup; [apply Sublist_map; exact Sg|]. exact (wf_gt_1to1 _ _ Hf). }
  split. { eapply Sublist_NoDup; [apply Sublist_map; exact S2|]. exact (wf_ids _ _ Hf). }
  split. { eapply Sublist_NoDup; [apply Sublist_map; exact S2|]. exact (wf_keys _ _ Hf). }
  split.
  { intros g Hg. unfold gts_of in Hg. apply in_flat_map in Hg. destruct Hg as [r [Hr Hgr]].
    apply filter_In in Hr. destruct Hr as [Hr Hk].
    unfold gt_of in Hgr. destruct (r_gt r) as [g'|] eqn:Eg; [|destruct Hgr]. destruct Hgr as [<-|[]].
    apply filter_In. assert (Hin : In g' gts) by (eapply (wf_gt_in _ _ Hf); eauto). split; [assumption|].
    unfold result_kept in Hk. rewrite Eg in Hk. apply andb_true_iff in Hk. destruct Hk as [_ Hk].
    rewrite <- (kept_gt_side crit true g'). exact Hk. }
  split.
  { intros g Hg. apply filter_In in Hg. exact Hg. }
  { intros r Hr. apply filter_In in Hr. destruct Hr as [Hr Hk]. split; [assumption|].
    unfold result_kept in Hk. apply andb_true_iff in Hk. tauto. }
Qed.

Theorem gt_accounted_once crit pf rs gts F :
  frame_hyps crit pf rs gts -> evaluate_frame crit pf rs gts = Ok F ->
  forall g, In g (f_gts F) ->
    (lbl_is_fp (o_label g) = false ->
       (cnt (o_id g) (gt_ids (f_tp F)) + cnt (o_id g) (ids (f_fn F)) = 1)%nat /\ cnt (o_id g) (ids (f_tn F)) = O) /\
    (lbl_is_fp (o_label g) = true ->
       (cnt (o_id g) (ids (f_tn F)) + cnt (o_id g) (gt_ids (f_fp F)) = 1)%nat /\
       cnt (o_id g) (ids (f_fn F)) = O /\ cnt (o_id g) (gt_ids (f_tp F)) = O).
Proof.
  intros Hh H g Hg. pose proof (h_pf _ _ _ _ Hh) as Hpf.
  destruct (evaluate_frame_inv _ _ _ _ _ Hpf H) as (rs' & gts' & Hrs & Hgts & ->). cbn [f_gts f_tp f_fp f_tn f_fn f_results] in *.
  destruct (survivors _ _ _ _ _ _ Hh Hrs Hgts) as (_ & _ & Nd & Ni & Nk & Hinc & _ & _).
  set (x := o_id g). set (nc := gts_of rs').
  destruct (count_split pf rs' x) as [C1 C2].
  pose proof (key_mem_In nc gts' g Nk Hinc Hg) as KM.
  unfold ids in *. rewrite !map_app, !cnt_app.
  assert (Rtn : cnt x (map o_id (rest_tn nc gts')) = if negb (key_mem g nc) && lbl_is_fp (o_label g) then 1%nat else O)
    by (apply (cnt_filter_unique (fun h => negb (key_mem h nc) && lbl_is_fp (o_label h)) gts' g Ni Hg)).
  assert (Rfn : cnt x (map o_id (rest_fn nc gts')) = if negb (key_mem g nc) && negb (lbl_is_fp (o_label g)) then 1%nat else O)
    by (apply (cnt_filter_unique (fun h => negb (key_mem h nc) && negb (lbl_is_fp (o_label h))) gts' g Ni Hg)).
  assert (Hnc : cnt x (gt_ids rs') = if key_mem g nc then 1%nat else O).
  { destruct (key_mem g nc) eqn:E.
    - apply cnt_NoDup; [assumption|]. unfold gt_ids. apply in_map. apply KM. reflexivity.
    - apply cnt_zero. unfold gt_ids. rewrite in_map_iff. intros [h [Hid Hh']].
      assert (h = g) by (apply (NoDup_map_eq o_id gts' h g Ni (Hinc h Hh') Hg Hid)). subst h.
      apply KM in Hh'. congruence. }
  assert (Itn : incl (tn1_l pf rs') gts') by (intros h Hh'; apply Hinc; eapply in_flat_gt; eauto using tn_of_incl).
  assert (Ifn : incl (fn1_l pf rs') gts') by (intros h Hh'; apply Hinc; eapply in_flat_gt; eauto using fn_of_incl).
  assert (Iff : incl (fpfp_l pf rs') gts') by (intros h Hh'; apply Hinc; eapply in_flat_gt; eauto using fpfp_of_incl).
  assert (Itp : incl (gts_of (tp_l pf rs')) gts') by (intros h Hh'; apply Hinc; eapply tp_gt_incl; eauto).
  split; intros Hfp; rewrite Hfp in *.
  - assert (Z1 : cnt x (map o_id (tn1_l pf rs')) = O).
    { apply (cnt_other_kind _ gts' g false); auto. intros h Hh'. unfold tn1_l in Hh'. apply in_flat_map in Hh'.
      destruct Hh' as [r [_ Hr]]. eapply tn_of_fp; eauto. }
    assert (Z2 : cnt x (map o_id (fpfp_l pf rs')) = O).
    { apply (cnt_other_kind _ gts' g false); auto. intros h Hh'. unfold fpfp_l in Hh'. apply in_flat_map in Hh'.
      destruct Hh' as [r [_ Hr]]. eapply fpfp_of_fp; eauto. }
    rewrite andb_false_r in Rtn. rewrite andb_true_r in Rfn.
    destruct (key_mem g nc); simpl in Rfn; lia.
  - assert (Z1 : cnt x (map o_id (fn1_l pf rs')) = O).
    { apply (cnt_other_kind _ gts' g true); auto. intros h Hh'. unfold fn1_l in Hh'. apply in_flat_map in Hh'.
      destruct Hh' as [r [_ Hr]]. eapply fn_of_ord; eauto. }
    assert (Z2 : cnt x (gt_ids (tp_l pf rs')) = O).
    { apply (cnt_other_kind _ gts' g true); auto. intros h Hh'. eapply tp_gt_ord; eauto. }
    rewrite andb_true_r in Rtn. rewrite andb_false_r in Rfn.
    destruct (key_mem g nc); simpl in Rtn; lia.
Qed.

(* ---------------- 3. |ordinary critical GT| = |TP| + |FN| ---------------- *)
Definition ordinary (g : Obj) : bool := negb (lbl_is_fp (o_label g)).

Lemma head_ordinary_len pf r :
  List.length (filter ordinary (gt_of r)) = ((if is_ktp pf r then 1 else 0) + List.length (fn_of pf r))%nat.
Proof.
  unfold is_ktp, fn_of, kind_of, gt_of, ordinary.
  destruct (r_gt r) as [g|] eqn:Eg; [|reflexivity].
  destruct (is_result_correct (thr_of pf (o_label g)) r); destruct (lbl_is_fp (o_label g)) eqn:Ef;
    cbn [filter]; rewrite ?Eg, ?Ef; reflexivity.
Qed.

Lemma ordinary_gts_len pf rs :
  List.length (filter ordinary (gts_of rs)) = (List.length (tp_l pf rs) + List.length (fn1_l pf rs))%nat.
Proof.
  induction rs as [|r t IH]; [reflexivity|].
  assert (Egt : gts_of (r :: t) = gt_of r ++ gts_of t) by reflexivity.
  assert (Efn : fn1_l pf (r :: t) = fn_of pf r ++ fn1_l pf t) by reflexivity.
  assert (Etp : List.length (tp_l pf (r :: t)) = ((if is_ktp pf r then 1 else 0) + List.length (tp_l pf t))%nat)
    by (unfold tp_l; cbn [filter]; destruct (is_ktp pf r); reflexivity).
  rewrite Egt, Efn, Etp, filter_app, !app_length, (head_ordinary_len pf r), IH. lia.
Qed.

Lemma filter_split_length {A} (p : A -> bool) l :
  List.length l = (List.length (filter p l) + List.length (filter (fun a => negb (p a)) l))%nat.
Proof. induction l as [|a t IH]; [reflexivity|]. simpl. destruct (p a); simpl; lia. Qed.

Theorem ordinary_gt_count crit pf rs gts F :
  frame_hyps crit pf rs gts -> evaluate_frame crit pf rs gts = Ok F ->
  List.length (filter ordinary (f_gts F)) = (List.length (f_tp F) + List.length (f_fn F))%nat.
Proof.
  intros Hh H. pose proof (h_pf _ _ _ _ Hh) as Hpf.
  destruct (evaluate_frame_inv _ _ _ _ _ Hpf H) as (rs' & gts' & Hrs & Hgts & ->). cbn [f_gts f_tp f_fp f_tn f_fn f_results].
  destruct (survivors _ _ _ _ _ _ Hh Hrs Hgts) as (_ & _ & Nd & Ni & Nk & Hinc & _ & _).
  set (nc := gts_of rs').
  (* ordinary critical GTs = those met by a result + the rest *)
  rewrite (filter_split_length (fun g => key_mem g nc) (filter ordinary gts')).
  rewrite app_length.
  assert (E2 : filter (fun a => negb (key_mem a nc)) (filter ordinary gts') = rest_fn nc gts').
  { unfold rest_fn. clear. induction gts' as [|g t IH]; [reflexivity|]. cbn [filter]. unfold ordinary at 1.
    destruct (lbl_is_fp (o_label g)); cbn [negb filter]; rewrite ?andb_false_r, ?andb_true_r; rewrite IH; reflexivity. }
  rewrite E2.
  assert (E1 : List.length (filter (fun g => key_mem g nc) (filter ordinary gts')) = List.length (filter ordinary nc)).
  { apply Permutation_length. apply NoDup_Permutation.
    - apply NoDup_filter, NoDup_filter. eapply NoDup_map_NoDup; eauto.
    - apply NoDup_filter. eapply NoDup_map_NoDup. exact Nd.
    - intros g. rewrite !filter_In. split.
      + intros [[Hg Ho] Hk]. split; [|assumption]. apply (key_mem_In nc gts' g Nk Hinc Hg). assumption.
      + intros [Hg Ho]. split; [split; [apply Hinc; assumption|assumption]|].
        apply (key_mem_In nc gts' g Nk Hinc (Hinc g Hg)). assumption. }
  rewrite E1. unfold nc. rewrite (ordinary_gts_len pf rs'). lia.
Qed.

(* ---------------- 4. TP soundness ---------------- *)
Theorem tp_sound crit pf rs gts F :
  pf_ok pf -> evaluate_frame crit pf rs gts = Ok F ->
  forall r, In r (f_tp F) ->
    In r (f_results F) /\
    exists g, r_gt r = Some g /\ lbl_is_fp (o_label g) = false /\ r_label_ok r = true /\
              forall t, thr_of pf (o_label g) = Some t -> exists v, r_score r = Some v /\ v < t.
Proof.
  intros Hpf H r Hr. destruct (evaluate_frame_inv _ _ _ _ _ Hpf H) as (rs' & gts' & _ & _ & ->). cbn [f_gts f_tp f_fp f_tn f_fn f_results] in *.
  unfold tp_l in Hr. apply filter_In in Hr. destruct Hr as [Hin Hk]. split; [assumption|].
  unfold is_ktp, kind_of in Hk. destruct (r_gt r) as [g|] eqn:Eg; [|discriminate]. exists g.
  destruct (is_result_correct (thr_of pf (o_label g)) r) eqn:Ec; destruct (lbl_is_fp (o_label g)) eqn:Ef; try discriminate.
  split; [reflexivity|]. split; [reflexivity|].
  unfold is_result_correct in Ec. rewrite Eg, Ef in Ec.
  destruct (thr_of pf (o_label g)) as [t|].
  - apply andb_true_iff in Ec. destruct Ec as [Em El]. split; [assumption|]. intros t' Ht. inversion Ht; subst.
    unfold is_better_than in Em. destruct (r_score r) as [v|]; [|discriminate]. exists v. split; [reflexivity|].
    apply Qltb_true; assumption.
  - split; [assumption|]. intros t Ht. discriminate.
Qed.

(* ---------------- 5. nothing outside the critical region is counted ---------------- *)
Lemma fp_l_origin pf rs r : In r (fp_l pf rs) -> exists r0, In r0 rs /\ r_est r = r_est r0 /\ (r_gt r = r_gt r0 \/ r_gt r = None).
Proof.
  unfold fp_l. intros H. apply in_flat_map in H. destruct H as [r0 [H0 Hr]]. exists r0. split; [assumption|].
  unfold fp_of in Hr. destruct (kind_of pf r0); try destruct Hr as [<-|[]]; try destruct Hr; auto.
Qed.

Theorem counted_inside crit pf rs gts F :
  frame_hyps crit pf rs gts -> evaluate_frame crit pf rs gts = Ok F ->
  (forall r, In r (f_tp F ++ f_fp F) ->
     kept (est_side crit) true false (r_est r) = true /\
     forall g, r_gt r = Some g -> In g (f_gts F)) /\
  (forall g, In g (f_tn F ++ f_fn F) -> In g (f_gts F)) /\
  (forall g, In g (f_gts F) -> In g gts /\ kept crit true true g = true).
Proof.
  intros Hh H. pose proof (h_pf _ _ _ _ Hh) as Hpf.
  destruct (evaluate_frame_inv _ _ _ _ _ Hpf H) as (rs' & gts' & Hrs & Hgts & ->). cbn [f_gts f_tp f_fp f_tn f_fn f_results].
  destruct (survivors _ _ _ _ _ _ Hh Hrs Hgts) as (_ & _ & Nd & Ni & Nk & Hinc & Hg' & Hr').
  split; [|split].
  - intros r Hr. apply in_app_or in Hr. destruct Hr as [Hr|Hr].
    + unfold tp_l in Hr. apply filter_In in Hr. destruct Hr as [Hr _]. split; [apply Hr'; assumption|].
      intros g Eg. apply Hinc. unfold gts_of. apply in_flat_map. exists r. split; [assumption|]. unfold gt_of. rewrite Eg. left; reflexivity.
    + destruct (fp_l_origin _ _ _ Hr) as [r0 [H0 [Ee Eg]]]. rewrite Ee. split; [apply Hr'; assumption|].
      intros g Hgr. destruct Eg as [Eg|Eg]; [|congruence]. apply Hinc. unfold gts_of. apply in_flat_map. exists r0.
      split; [assumption|]. unfold gt_of. rewrite <- Eg, Hgr. left; reflexivity.
  - intros g Hg. apply in_app_or in Hg. destruct Hg as [Hg|Hg]; apply in_app_or in Hg; destruct Hg as [Hg|Hg].
    + apply Hinc. eapply in_flat_gt; eauto using tn_of_incl.
    + unfold rest_tn in Hg. apply filter_In in Hg. tauto.
    + apply Hinc. eapply in_flat_gt; eauto using fn_of_incl.
    + unfold rest_fn in Hg. apply filter_In in Hg. tauto.
  - exact Hg'.
Qed.

(* ---------------- 6. success / fail ---------------- *)
Theorem num_success_fail crit pf rs gts F :
  pf_ok pf -> evaluate_frame crit pf rs gts = Ok F ->
  num_success F = (List.length (f_tp F) + List.length (f_tn F))%nat /\
  num_fail F = (List.length (f_fp F) + List.length (f_fn F))%nat /\
  (num_success F + num_fail F = List.length (f_results F) + List.length (f_tn F) + List.length (f_fn F))%nat.
Proof.
  intros Hpf H. destruct (results_partition _ _ _ _ _ Hpf H) as [_ L]. unfold num_success, num_fail. lia.
Qed.
