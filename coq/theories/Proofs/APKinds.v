(* From rankings (lists of TP/FP/IGN kinds) to points, and the theorems about ap_of_kinds. *)
From Coq Require Import List Bool ZArith Lia Psatz Permutation.
From PE Require Import Base.QUtil Model.AP Proofs.APEnvelope.
Import ListNotations.
Open Scope Q_scope.

(* points of a ranking given in REVERSED order (head = last rank): the cumulative TP weight at a
   rank is the sum of the weights at this and all earlier ranks *)
Fixpoint rpoints (num_gt : nat) (rks : list kind) : list pt :=
  match rks with
  | [] => []
  | k :: t =>
      let tp := qsum (map tpval (k :: t)) in
      (tp / Qnat (S (length t)), match num_gt with O => 0 | _ => tp / Qnat num_gt end) :: rpoints num_gt t
  end.

Lemma cumsum_app : forall a b acc,
  cumsum acc (a ++ b) = cumsum acc a ++ cumsum (fold_left Qplus a acc) b.
Proof. induction a as [|x a IH]; intros b acc; simpl; [reflexivity|]. now rewrite IH. Qed.

Lemma cumsum_length : forall l acc, length (cumsum acc l) = length l.
Proof. induction l as [|x l IH]; intros acc; simpl; [reflexivity|]. now rewrite IH. Qed.

Lemma points_app : forall a b i n,
  points i n (a ++ b) = points i n a ++ points (i + length a) n b.
Proof.
  induction a as [|x a IH]; intros b i n; simpl; [now rewrite Nat.add_0_r|].
  rewrite IH. now rewrite Nat.add_succ_r.
Qed.

Lemma fold_left_qsum : forall a acc, fold_left Qplus a acc == acc + qsum a.
Proof. induction a as [|x a IH]; intros acc; simpl; [ring|]. rewrite IH. ring. Qed.

Lemma qsum_rev : forall l, qsum (rev l) == qsum l.
Proof. induction l as [|x l IH]; simpl; [reflexivity|]. rewrite qsum_app, IH. simpl. ring. Qed.

Lemma pts_eq_refl : forall l, pts_eq l l.
Proof. induction l as [|[p r] l IH]; constructor; try reflexivity; assumption. Qed.

Lemma Qnat_0 : Qnat 0 == 0.
Proof. reflexivity. Qed.

Lemma Qnat_S_neq0 n : ~ Qnat (S n) == 0.
Proof. pose proof (Qnat_pos (S n) ltac:(lia)). lra. Qed.

Theorem points_rpoints : forall num_gt ks,
  pts_eq (rev (points 0 num_gt (cumsum 0 (map tpval ks)))) (rpoints num_gt (rev ks)).
Proof.
  intros num_gt ks. induction ks as [|k ks IH] using rev_ind; [constructor|].
  rewrite map_app, cumsum_app, points_app, rev_app_distr. cbn [map cumsum points rev app].
  rewrite rev_app_distr. cbn [rev app rpoints].
  rewrite cumsum_length, map_length, rev_length, Nat.add_0_l.
  assert (E : fold_left Qplus (map tpval ks) 0 + tpval k == qsum (map tpval (k :: rev ks))).
  { rewrite fold_left_qsum. cbn [map qsum]. rewrite map_rev, qsum_rev. ring. }
  constructor; [now rewrite E| |exact IH].
  destruct num_gt; [reflexivity|now rewrite E].
Qed.

Corollary ap_of_kinds_spec : forall num_gt ks,
  ap_of_kinds num_gt ks == ap_spec (rpoints num_gt (rev ks)).
Proof.
  intros. unfold ap_of_kinds. rewrite ap_code_eq_spec. apply ap_spec_pts_eq. apply points_rpoints.
Qed.

(* ---- weights in [0,1] ------------------------------------------------------------------------------ *)
Definition weights_ok (ks : list kind) : Prop := forall k, In k ks -> 0 <= tpval k <= 1.

Lemma weights_ok_tl k t : weights_ok (k :: t) -> weights_ok t.
Proof. intros H x Hx. apply H. now right. Qed.

Lemma weights_ok_rev ks : weights_ok ks -> weights_ok (rev ks).
Proof. intros H k Hk. apply H. now apply in_rev. Qed.

Lemma tp_sum_bounds : forall l, weights_ok l -> 0 <= qsum (map tpval l) <= Qnat (length l).
Proof.
  induction l as [|k t IH]; intros H; cbn [map qsum length].
  - rewrite Qnat_0. lra.
  - specialize (IH (weights_ok_tl _ _ H)). pose proof (H k (or_introl eq_refl)).
    rewrite Qnat_S. lra.
Qed.

Lemma rpoints_prec : forall n l, weights_ok l -> prec_in_unit (rpoints n l).
Proof.
  induction l as [|k t IH]; intros H p r Hin; [destruct Hin|].
  cbn [rpoints] in Hin. destruct Hin as [Hin|Hin]; [|apply (IH (weights_ok_tl _ _ H) p r Hin)].
  injection Hin as <- _.
  pose proof (tp_sum_bounds (k :: t) H) as B. cbn [length map qsum] in B.
  pose proof (Qnat_pos (S (length t)) ltac:(lia)) as P.
  split; [apply Qdiv_nonneg; lra|apply Qdiv_le_1; lra].
Qed.

Lemma rpoints_nextr : forall n l,
  nextr (rpoints n l) == match n with O => 0 | _ => qsum (map tpval l) / Qnat n end.
Proof.
  intros n [|k t]; cbn [rpoints nextr]; [|destruct n; reflexivity].
  destruct n; [reflexivity|]. cbn [map qsum]. unfold Qdiv. ring.
Qed.

Lemma rpoints_rec_ok : forall n l, weights_ok l -> rec_ok (rpoints n l) /\ rec_nonneg (rpoints n l).
Proof.
  induction l as [|k t IH]; intros H; cbn [rpoints rec_ok rec_nonneg]; [tauto|].
  destruct (IH (weights_ok_tl _ _ H)) as [IH1 IH2].
  pose proof (tp_sum_bounds t (weights_ok_tl _ _ H)) as Bt.
  pose proof (H k (or_introl eq_refl)) as Bk.
  rewrite rpoints_nextr. destruct n as [|n]; [repeat split; auto; lra|].
  pose proof (Qnat_pos (S n) ltac:(lia)) as P.
  repeat split; auto.
  - cbn [map qsum]. apply Qdiv_le_compat_l; lra.
  - cbn [map qsum]. apply Qdiv_nonneg; lra.
Qed.

Lemma rpoints_prec_nonneg : forall n l, weights_ok l -> forall p r, In (p, r) (rpoints n l) -> 0 <= p.
Proof. intros n l H p r Hin. apply (rpoints_prec n l H p r Hin). Qed.

Lemma ap_of_kinds_spec0 : forall n ks, weights_ok ks ->
  ap_of_kinds n ks == spec_go 0 (rpoints n (rev ks)).
Proof.
  intros n ks H. rewrite ap_of_kinds_spec. apply ap_spec_start0.
  apply rpoints_prec_nonneg. now apply weights_ok_rev.
Qed.

(* number of results counted as TP *)
Definition is_tp (k : kind) : bool := match k with TPw _ => true | _ => false end.
Definition count_tp (ks : list kind) : nat := length (filter is_tp ks).

Lemma tp_weight_le_count : forall ks, weights_ok ks -> qsum (map tpval ks) <= Qnat (count_tp ks).
Proof.
  unfold count_tp. induction ks as [|k t IH]; intros H; cbn [map qsum filter]; [cbn [length]; rewrite Qnat_0; lra|].
  specialize (IH (weights_ok_tl _ _ H)). pose proof (H k (or_introl eq_refl)) as Bk.
  destruct k as [w| |]; cbn [is_tp tpval length] in *; try lra.
  rewrite Qnat_S. lra.
Qed.

Theorem ap_in_unit_interval : forall n ks,
  weights_ok ks -> (count_tp ks <= n)%nat -> 0 <= ap_of_kinds n ks <= 1.
Proof.
  intros n ks H Hc. rewrite (ap_of_kinds_spec0 n ks H).
  pose proof (weights_ok_rev _ H) as Hr.
  destruct (rpoints_rec_ok n (rev ks) Hr) as [R1 R2].
  pose proof (spec_go_bounds (rpoints n (rev ks)) 0 ltac:(lra) (rpoints_prec n _ Hr) R1 R2) as B.
  assert (N : nextr (rpoints n (rev ks)) <= 1).
  { rewrite rpoints_nextr. destruct n as [|n]; [lra|].
    rewrite map_rev, qsum_rev.
    pose proof (tp_weight_le_count ks H). pose proof (Qnat_le _ _ Hc).
    pose proof (Qnat_pos (S n) ltac:(lia)). apply Qdiv_le_1; lra. }
  lra.
Qed.

(* ---- monotonicity in the TP weights -------------------------------------------------------------------- *)
Definition kinds_le (ks ks' : list kind) : Prop := Forall2 (fun k k' => tpval k <= tpval k') ks ks'.

Lemma Forall2_rev : forall A B (R : A -> B -> Prop) l l', Forall2 R l l' -> Forall2 R (rev l) (rev l').
Proof.
  induction 1 as [|x y l l' Hxy H IH]; simpl; [constructor|].
  apply Forall2_app; [assumption|]. constructor; [assumption|constructor].
Qed.

Lemma Forall2_len : forall A B (R : A -> B -> Prop) l l', Forall2 R l l' -> length l = length l'.
Proof. induction 1; simpl; congruence. Qed.

Lemma kinds_le_sum : forall l l', kinds_le l l' -> qsum (map tpval l) <= qsum (map tpval l').
Proof. induction 1 as [|k k' l l' Hk H IH]; cbn [map qsum]; lra. Qed.

Fixpoint mix (l l2 : list pt) : list pt :=
  match l, l2 with
  | (p, _) :: t, (_, r2) :: t2 => (p, r2) :: mix t t2
  | _, _ => []
  end.

Lemma mix_nextr : forall l l', length l = length l' -> nextr (mix l l') == nextr l'.
Proof.
  intros [|[p r] t] [|[p' r'] t'] H; simpl in *; try discriminate; reflexivity.
Qed.

Lemma rpoints_length n l : length (rpoints n l) = length l.
Proof. induction l as [|k t IH]; simpl; [reflexivity|]. now rewrite IH. Qed.

Lemma rpoints_mono : forall n l l', kinds_le l l' -> weights_ok l -> weights_ok l' ->
  le_r (rpoints n l) (mix (rpoints n l) (rpoints n l')) /\
  le_p (mix (rpoints n l) (rpoints n l')) (rpoints n l') /\
  rec_ok (mix (rpoints n l) (rpoints n l')).
Proof.
  induction 1 as [|k k' t t' Hk H IH]; intros W W'; cbn [rpoints mix]; [repeat split; constructor|].
  destruct (IH (weights_ok_tl _ _ W) (weights_ok_tl _ _ W')) as [I1 [I2 I3]].
  pose proof (kinds_le_sum _ _ H) as Hsum.
  pose proof (Forall2_len _ _ _ _ _ H) as L.
  pose proof (Qnat_pos (S (length t)) ltac:(lia)) as P.
  assert (Htp : qsum (map tpval (k :: t)) <= qsum (map tpval (k' :: t'))) by (cbn [map qsum]; lra).
  split; [|split].
  - constructor; [|exact I1]. destruct n as [|n]; [lra|].
    apply Qdiv_le_compat_l; [apply Qnat_pos; lia|exact Htp].
  - rewrite <- L. constructor; [|exact I2]. apply Qdiv_le_compat_l; assumption.
  - cbn [rec_ok]. split; [|exact I3].
    rewrite mix_nextr by (rewrite !rpoints_length; exact L).
    destruct (rpoints_rec_ok n (k' :: t') W') as [R _]. cbn [rpoints rec_ok] in R. tauto.
Qed.

Theorem ap_monotone : forall n ks ks',
  kinds_le ks ks' -> weights_ok ks -> weights_ok ks' -> ap_of_kinds n ks <= ap_of_kinds n ks'.
Proof.
  intros n ks ks' H W W'.
  rewrite (ap_of_kinds_spec0 n ks W), (ap_of_kinds_spec0 n ks' W').
  destruct (rpoints_mono n (rev ks) (rev ks') (Forall2_rev _ _ _ _ _ H)
              (weights_ok_rev _ W) (weights_ok_rev _ W')) as [A [B C]].
  exact (spec_monotone _ _ _ A B C).
Qed.

(* APH <= AP: the same ranking with every TP weight replaced by 1 *)
Definition unit_weight (k : kind) : kind := match k with TPw _ => TPw 1 | k => k end.

Lemma unit_weight_le : forall ks, weights_ok ks -> kinds_le ks (map unit_weight ks).
Proof.
  induction ks as [|k t IH]; intros H; [constructor|]. constructor; [|apply IH, (weights_ok_tl _ _ H)].
  pose proof (H k (or_introl eq_refl)). destruct k; simpl in *; lra.
Qed.

Lemma unit_weight_ok : forall ks, weights_ok (map unit_weight ks).
Proof.
  intros ks k Hk. apply in_map_iff in Hk as [k0 [<- _]]. destruct k0; simpl; lra.
Qed.

Theorem aph_le_ap : forall n ks, weights_ok ks ->
  ap_of_kinds n ks <= ap_of_kinds n (map unit_weight ks).
Proof.
  intros n ks H. apply ap_monotone; [now apply unit_weight_le|assumption|apply unit_weight_ok].
Qed.

(* ---- AP = 1 for a perfect ranking, 0 without a TP -------------------------------------------------------- *)
Lemma qsum_repeat_tp1 : forall j, qsum (map tpval (repeat (TPw 1) j)) == Qnat j.
Proof. induction j as [|j IH]; cbn [repeat map qsum tpval]; [reflexivity|]. rewrite IH, Qnat_S. ring. Qed.

Lemma rpoints_perfect_tp : forall n j, perfect_ok (rpoints n (repeat (TPw 1) j)).
Proof.
  induction j as [|j IH]; cbn [repeat rpoints perfect_ok]; [exact I|]. split; [|exact IH].
  right. change (TPw 1 :: repeat (TPw 1) j) with (repeat (TPw 1) (S j)).
  rewrite qsum_repeat_tp1, repeat_length. field. apply Qnat_S_neq0.
Qed.

Lemma rpoints_perfect : forall n rest l, (forall k, In k rest -> tpval k == 0) -> perfect_ok (rpoints n l) ->
  perfect_ok (rpoints n (rest ++ l)).
Proof.
  induction rest as [|k t IH]; intros l H0 Hl; [exact Hl|].
  cbn [app rpoints perfect_ok]. split; [|apply IH; [intros x Hx; apply H0; now right|exact Hl]].
  left. rewrite rpoints_nextr. destruct n as [|n]; [reflexivity|].
  cbn [map qsum]. rewrite (H0 k (or_introl eq_refl)). unfold Qdiv. ring.
Qed.

Theorem ap_one_when_perfect : forall n rest,
  (0 < n)%nat -> (forall k, In k rest -> tpval k == 0) ->
  ap_of_kinds n (repeat (TPw 1) n ++ rest) == 1.
Proof.
  intros n rest Hn H0.
  assert (W : weights_ok (repeat (TPw 1) n ++ rest)).
  { intros k Hk. apply in_app_or in Hk as [Hk|Hk].
    - apply repeat_spec in Hk. subst. simpl. lra.
    - rewrite (H0 k Hk). lra. }
  rewrite (ap_of_kinds_spec0 _ _ W).
  rewrite rev_app_distr.
  assert (Er : rev (repeat (TPw 1) n) = repeat (TPw 1) n).
  { clear. induction n as [|n IH]; [reflexivity|]. simpl. rewrite IH. clear IH.
    induction n as [|n IH]; [reflexivity|]. simpl. now rewrite IH. }
  rewrite Er.
  assert (H0' : forall k, In k (rev rest) -> tpval k == 0) by (intros k Hk; apply H0; now apply in_rev).
  rewrite spec_go_perfect.
  - rewrite rpoints_nextr. destruct n as [|n]; [lia|].
    rewrite map_app, qsum_app, qsum_repeat_tp1.
    assert (Z : qsum (map tpval (rev rest)) == 0).
    { clear -H0'. induction (rev rest) as [|k t IH]; cbn [map qsum]; [reflexivity|].
      rewrite (H0' k (or_introl eq_refl)), IH; [ring|]. intros x Hx. apply H0'. now right. }
    rewrite Z. field. apply Qnat_S_neq0.
  - lra.
  - intros p r Hin.
    assert (W' : weights_ok (rev rest ++ repeat (TPw 1) n)).
    { intros k Hk. apply W. apply in_app_or in Hk as [Hk|Hk]; apply in_or_app; [right; now apply in_rev|now left]. }
    apply (rpoints_prec n _ W' p r Hin).
  - apply rpoints_perfect; [exact H0'|apply rpoints_perfect_tp].
Qed.

Theorem ap_zero_without_tp : forall n ks, (forall k, In k ks -> tpval k == 0) -> ap_of_kinds n ks == 0.
Proof.
  intros n ks H0.
  assert (W : weights_ok ks) by (intros k Hk; rewrite (H0 k Hk); lra).
  rewrite (ap_of_kinds_spec0 _ _ W). apply spec_go_zero.
  assert (H0' : forall k, In k (rev ks) -> tpval k == 0) by (intros k Hk; apply H0; now apply in_rev).
  clear -H0'. induction (rev ks) as [|k t IH]; intros p r Hin; [destruct Hin|].
  cbn [rpoints] in Hin. destruct Hin as [Hin|Hin].
  - injection Hin as <- _.
    assert (Z : qsum (map tpval (k :: t)) == 0).
    { clear -H0'. induction (k :: t) as [|a l IH]; cbn [map qsum]; [reflexivity|].
      rewrite (H0' a (or_introl eq_refl)), IH; [ring|]. intros x Hx. apply H0'. now right. }
    rewrite Z. unfold Qdiv. ring.
  - apply (IH (fun x Hx => H0' x (or_intror Hx)) p r Hin).
Qed.

(* ---- mean over defined APs -------------------------------------------------------------------------------- *)
Lemma qsum_bounds : forall l a b, (forall x, In x l -> a <= x <= b) ->
  a * Qnat (length l) <= qsum l <= b * Qnat (length l).
Proof.
  induction l as [|x t IH]; intros a b H; cbn [qsum length].
  - rewrite Qnat_0; lra.
  - rewrite Qnat_S. pose proof (H x (or_introl eq_refl)).
    specialize (IH a b (fun y Hy => H y (or_intror Hy))). lra.
Qed.

Lemma somes_in : forall l x, In x (somes l) <-> In (Some x) l.
Proof.
  induction l as [|[y|] t IH]; intros x; simpl; [tauto| |].
  - rewrite IH. split; intros [H|H]; auto; [left; congruence|injection H as ->; now left].
  - rewrite IH. split; [auto|intros [H|H]; [discriminate|assumption]].
Qed.

Theorem mean_defined_bounds : forall l a b m,
  (forall x, In (Some x) l -> a <= x <= b) -> mean_defined l = Some m -> a <= m <= b.
Proof.
  intros l a b m H. unfold mean_defined. destruct (somes l) as [|v0 vs] eqn:E; [discriminate|].
  intros [= <-].
  assert (Hb : forall x, In x (v0 :: vs) -> a <= x <= b) by (intros x Hx; apply H, somes_in; now rewrite E).
  pose proof (qsum_bounds (v0 :: vs) a b Hb) as B.
  pose proof (Qnat_pos (length (v0 :: vs)) ltac:(simpl; lia)) as P.
  cbn [length qsum] in *.
  split; [apply Qle_shift_div_l|apply Qle_shift_div_r]; lra.
Qed.

Theorem mean_defined_none : forall l, mean_defined l = None <-> (forall x, ~ In (Some x) l).
Proof.
  intros l. unfold mean_defined. destruct (somes l) as [|v0 vs] eqn:E.
  - split; [|reflexivity]. intros _ x Hx. apply somes_in in Hx. now rewrite E in Hx.
  - split; [discriminate|]. intros H. exfalso. apply (H v0), somes_in. rewrite E. now left.
Qed.
