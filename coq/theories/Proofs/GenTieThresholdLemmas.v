(* Lemmas and the proof tactics of Props/GenTieThreshold.v (generated definitions of Gen/decisions_threshold.v = hand models of
   Model/Threshold.v).

   The generated definitions are straight-line programs in the error monad [xres] over the Python operations of the
   generated file's prelude (py_len, py_iter, py_getitem, py_mul, mmap, mflat_map, mfold, ...).  Every proof is
     1. case analysis on the KIND of the dynamically typed argument (Num / Bool / Str / NoneV / List / Tuple) -- this is where
        `isinstance`, `len`, iteration and `*` get their meaning;
     2. [xnorm]: computation + the monad laws + FUSION of the list traversals (any([..for..]) = existsb, a loop of appends = a
        map, a traversal of `map List rows` = a traversal of rows), so that a comprehension, a generator, an explicit loop
        and a helper function all reach the same normal form;
     3. [xsplit]: case analysis on the remaining tests (both sides perform the same tests, in the same order), arithmetic
        side conditions by lia;
     4. [xleaf]: the two results are equal, pointwise on the rows where they are maps. *)
From Coq Require Import String Ascii List Bool Arith ZArith Lia Morphisms Setoid.
From PE Require Import Base.QUtil Model.PyVal Model.Threshold Proofs.ThresholdProofs.
From PE Require Import Gen.decisions_threshold.
Import ListNotations.
Open Scope nat_scope.
Open Scope list_scope.

(* ---- the monad ------------------------------------------------------------------------------------------------------ *)
Lemma xbind_assoc {A B C} (m : xres A) (f : A -> xres B) (g : B -> xres C) :
  xbind (xbind m f) g = xbind m (fun x => xbind (f x) g).
Proof. destruct m; reflexivity. Qed.
Lemma xbind_ret {A} (m : xres A) : xbind m (fun x => XOk x) = m.
Proof. destruct m; reflexivity. Qed.
Lemma xbind_ext {A B} (m m' : xres A) (f f' : A -> xres B) :
  m = m' -> (forall a, f a = f' a) -> xbind m f = xbind m' f'.
Proof. intros -> H. destruct m'; simpl; auto. Qed.
Lemma xbind_if {A B} (c : bool) (a b : xres A) (f : A -> xres B) :
  xbind (if c then a else b) f = if c then xbind a f else xbind b f.
Proof. destruct c; reflexivity. Qed.
Lemma if_XOk {A} (c : bool) (a b : A) : (if c then XOk a else XOk b) = XOk (if c then a else b).
Proof. destruct c; reflexivity. Qed.
Lemma of_res_bind {A B} (m : res A) (f : A -> res B) :
  of_res (bind m f) = xbind (of_res m) (fun a => of_res (f a)).
Proof. destruct m; reflexivity. Qed.
Lemma of_res_if {A} (c : bool) (a b : res A) : of_res (if c then a else b) = if c then of_res a else of_res b.
Proof. destruct c; reflexivity. Qed.

(* ---- extensionality of the traversals (used to rewrite under their binders and to compare two maps pointwise) --------- *)
Lemma mmap_ext {A B} (f g : A -> xres B) l : (forall x, In x l -> f x = g x) -> mmap f l = mmap g l.
Proof. induction l; simpl; intros H; [reflexivity|]. rewrite (H a), IHl; auto. Qed.
Lemma mflat_map_ext {A B} (f g : A -> xres (list B)) l : (forall x, In x l -> f x = g x) -> mflat_map f l = mflat_map g l.
Proof. induction l; simpl; intros H; [reflexivity|]. rewrite (H a), IHl; auto. Qed.
Lemma mfold_ext {S A} (f g : S -> A -> xres S) l s : (forall s x, In x l -> f s x = g s x) -> mfold f l s = mfold g l s.
Proof.
  revert s. induction l; simpl; intros s H; [reflexivity|]. rewrite (H s a) by auto.
  apply xbind_ext; auto.
Qed.
Lemma mexistsb_ext {A} (f g : A -> xres bool) l : (forall x, In x l -> f x = g x) -> mexistsb f l = mexistsb g l.
Proof. induction l; simpl; intros H; [reflexivity|]. rewrite (H a), IHl; auto. Qed.
Lemma mforallb_ext {A} (f g : A -> xres bool) l : (forall x, In x l -> f x = g x) -> mforallb f l = mforallb g l.
Proof. induction l; simpl; intros H; [reflexivity|]. rewrite (H a), IHl; auto. Qed.
Lemma existsb_ext {A} (f g : A -> bool) l : (forall x, In x l -> f x = g x) -> existsb f l = existsb g l.
Proof. induction l; simpl; intros H; [reflexivity|]. rewrite (H a), IHl; auto. Qed.
Lemma map_ext_In' {A B} (f g : A -> B) l : (forall x, In x l -> f x = g x) -> map f l = map g l.
Proof. apply map_ext_in. Qed.
Lemma flat_map_ext_In {A B} (f g : A -> list B) l : (forall x, In x l -> f x = g x) -> flat_map f l = flat_map g l.
Proof. induction l; simpl; intros H; [reflexivity|]. rewrite (H a), IHl; auto. Qed.

(* ---- fusion: a traversal whose element cannot raise is the pure traversal --------------------------------------------- *)
Lemma mmap_pure {A B} (g : A -> B) l : mmap (fun x => XOk (g x)) l = XOk (map g l).
Proof. induction l; simpl; [reflexivity|]. rewrite IHl. reflexivity. Qed.
Lemma mflat_map_pure {A B} (g : A -> list B) l : mflat_map (fun x => XOk (g x)) l = XOk (flat_map g l).
Proof. induction l; simpl; [reflexivity|]. rewrite IHl. reflexivity. Qed.
Lemma mfold_pure {S A} (g : S -> A -> S) l s : mfold (fun s x => XOk (g s x)) l s = XOk (fold_left g l s).
Proof. revert s. induction l; simpl; intros; [reflexivity|]. apply IHl. Qed.
Lemma mexistsb_pure {A} (g : A -> bool) l : mexistsb (fun x => XOk (g x)) l = XOk (existsb g l).
Proof. induction l; simpl; [reflexivity|]. destruct (g a); simpl; auto. Qed.
Lemma mforallb_pure {A} (g : A -> bool) l : mforallb (fun x => XOk (g x)) l = XOk (forallb g l).
Proof. induction l; simpl; [reflexivity|]. destruct (g a); simpl; auto. Qed.
(* a loop that only appends is a flat_map *)
Lemma fold_left_appends {A B} (g : list B -> A -> list B) l s :
  (forall acc x, g acc x = acc ++ g [] x) -> fold_left g l s = s ++ flat_map (g []) l.
Proof.
  intros H. revert s. induction l; simpl; intros s; [now rewrite app_nil_r|].
  rewrite IHl, (H s a), app_assoc. reflexivity.
Qed.

(* a loop that only checks (`for t in xs: if c(t): raise E`) is an `any` *)
Lemma mfold_check {A} (c : A -> bool) (e : exn) l :
  mfold (fun (_ : unit) x => if c x then XErr e else XOk tt) l tt = if existsb c l then XErr e else XOk tt.
Proof. induction l; simpl; [reflexivity|]. destruct (c a); simpl; auto. Qed.
Lemma mfold_check_neg {A} (c : A -> bool) (e : exn) l :
  mfold (fun (_ : unit) x => if c x then XOk tt else XErr e) l tt = if existsb (fun x => negb (c x)) l then XErr e else XOk tt.
Proof. induction l; simpl; [reflexivity|]. destruct (c a); simpl; auto. Qed.
Lemma xbind_check {B} (c : bool) (e : exn) (k : unit -> xres B) :
  xbind (if c then XErr e else XOk tt) k = if c then XErr e else k tt.
Proof. destruct c; reflexivity. Qed.
Lemma list_mul_1 {A} (l : list A) : list_mul l 1 = l.
Proof. apply list_mul_one. Qed.

(* one spelling of a negated test (De Morgan under the binders of any / all) *)
Lemma negb_if (a b c : bool) : negb (if a then b else c) = if a then negb b else negb c.
Proof. destruct a; reflexivity. Qed.
Lemma if_negb {A} (a : bool) (x y : A) : (if negb a then x else y) = if a then y else x.
Proof. destruct a; reflexivity. Qed.
Lemma map_flat_map {A B C} (f : B -> C) (g : A -> list B) l : map f (flat_map g l) = flat_map (fun x => map f (g x)) l.
Proof. induction l; simpl; [reflexivity|]. rewrite map_app, IHl. reflexivity. Qed.

(* ---- fusion: traversals of a map ------------------------------------------------------------------------------------- *)
Lemma mmap_map {A B C} (f : B -> xres C) (g : A -> B) l : mmap f (map g l) = mmap (fun x => f (g x)) l.
Proof. induction l; simpl; [reflexivity|]. rewrite IHl. reflexivity. Qed.
Lemma mflat_map_map {A B C} (f : B -> xres (list C)) (g : A -> B) l : mflat_map f (map g l) = mflat_map (fun x => f (g x)) l.
Proof. induction l; simpl; [reflexivity|]. rewrite IHl. reflexivity. Qed.
Lemma mfold_map {S A B} (f : S -> B -> xres S) (g : A -> B) l s : mfold f (map g l) s = mfold (fun s x => f s (g x)) l s.
Proof. revert s. induction l; simpl; intros; [reflexivity|]. apply xbind_ext; auto. Qed.
Lemma mexistsb_map {A B} (f : B -> xres bool) (g : A -> B) l : mexistsb f (map g l) = mexistsb (fun x => f (g x)) l.
Proof. induction l; simpl; [reflexivity|]. rewrite IHl. reflexivity. Qed.
Lemma mforallb_map {A B} (f : B -> xres bool) (g : A -> B) l : mforallb f (map g l) = mforallb (fun x => f (g x)) l.
Proof. induction l; simpl; [reflexivity|]. rewrite IHl. reflexivity. Qed.
Lemma existsb_map' {A B} (f : B -> bool) (g : A -> B) l : existsb f (map g l) = existsb (fun x => f (g x)) l.
Proof. induction l; simpl; [reflexivity|]. rewrite IHl. reflexivity. Qed.
Lemma forallb_map' {A B} (f : B -> bool) (g : A -> B) l : forallb f (map g l) = forallb (fun x => f (g x)) l.
Proof. induction l; simpl; [reflexivity|]. rewrite IHl. reflexivity. Qed.
Lemma flat_map_map' {A B C} (f : B -> list C) (g : A -> B) l : flat_map f (map g l) = flat_map (fun x => f (g x)) l.
Proof. induction l; simpl; [reflexivity|]. rewrite IHl. reflexivity. Qed.
Lemma existsb_flat_map {A B} (f : B -> bool) (g : A -> list B) l : existsb f (flat_map g l) = existsb (fun x => existsb f (g x)) l.
Proof. induction l; simpl; [reflexivity|]. rewrite existsb_app, IHl. reflexivity. Qed.
Lemma existsb_filter {A} (f c : A -> bool) l : existsb f (filter c l) = existsb (fun x => c x && f x) l.
Proof. induction l; simpl; [reflexivity|]. destruct (c a); simpl; rewrite IHl; reflexivity. Qed.
Lemma existsb_concat {A} (f : A -> bool) ls : existsb f (concat ls) = existsb (existsb f) ls.
Proof. induction ls; simpl; [reflexivity|]. rewrite existsb_app, IHls. reflexivity. Qed.
Lemma map_flat_map_singleton {A B} (g : A -> B) l : map g l = flat_map (fun x => [g x]) l.
Proof. induction l; simpl; [reflexivity|]. rewrite IHl. reflexivity. Qed.
Lemma flat_map_flat_map {A B C} (f : B -> list C) (g : A -> list B) l :
  flat_map f (flat_map g l) = flat_map (fun x => flat_map f (g x)) l.
Proof. induction l; simpl; [reflexivity|]. rewrite flat_map_app, IHl. reflexivity. Qed.
Lemma filter_flat_map {A} (c : A -> bool) l : filter c l = flat_map (fun x => if c x then [x] else []) l.
Proof. induction l; simpl; [reflexivity|]. destruct (c a); simpl; rewrite IHl; reflexivity. Qed.
Lemma concat_flat_map {A} (ls : list (list A)) : concat ls = flat_map (fun x => x) ls.
Proof. induction ls; simpl; [reflexivity|]. rewrite IHls. reflexivity. Qed.

(* all(..) in terms of any(..): one normal form for both *)
Lemma forallb_existsb {A} (f : A -> bool) l : forallb f l = negb (existsb (fun x => negb (f x)) l).
Proof. induction l; simpl; [reflexivity|]. rewrite IHl. destruct (f a); reflexivity. Qed.
Lemma existsb_const_false {A} (l : list A) : existsb (fun _ => false) l = false.
Proof. induction l; simpl; auto. Qed.
Lemma existsb_id_if {A} (c : A -> bool) (l : list A) : existsb (fun x => if c x then true else false) l = existsb c l.
Proof. apply existsb_ext. intros x _. destruct (c x); reflexivity. Qed.

(* ---- the values ------------------------------------------------------------------------------------------------------ *)
Lemma str_chars_length s : length (str_chars s) = String.length s.
Proof. induction s; simpl; auto. Qed.
(* what `isinstance(t, list)` for every item gives: the rows of Model/PyVal.as_rows *)
Lemma as_rows_none l : as_rows l = None -> existsb (fun t => negb (is_list t)) l = true.
Proof.
  induction l as [|x l IH]; simpl; [discriminate|].
  destruct x; simpl; auto. destruct (as_rows l); [discriminate|]. auto.
Qed.
Lemma any_not_real_unfold l : any_not_real l = existsb (fun t => negb (is_real t)) l.
Proof. reflexivity. Qed.
Lemma existsb_map_List (f : pyval -> bool) rows : existsb f (map List rows) = existsb (fun r => f (List r)) rows.
Proof. apply existsb_map'. Qed.

(* ---- rewriting under the binders of the traversals and of xbind ------------------------------------------------------- *)
Global Instance map_pw {A B} : Proper (pointwise_relation A eq ==> eq ==> eq) (@map A B).
Proof. intros f g H l l' <-. apply map_ext. exact H. Qed.
Global Instance flat_map_pw {A B} : Proper (pointwise_relation A eq ==> eq ==> eq) (@flat_map A B).
Proof. intros f g H l l' <-. apply flat_map_ext. exact H. Qed.
Global Instance existsb_pw {A} : Proper (pointwise_relation A eq ==> eq ==> eq) (@existsb A).
Proof. intros f g H l l' <-. apply existsb_ext. intros; apply H. Qed.
Global Instance forallb_pw {A} : Proper (pointwise_relation A eq ==> eq ==> eq) (@forallb A).
Proof. intros f g H l l' <-. rewrite !forallb_existsb. f_equal. apply existsb_ext. intros; f_equal; apply H. Qed.
Global Instance filter_pw {A} : Proper (pointwise_relation A eq ==> eq ==> eq) (@filter A).
Proof. intros f g H l l' <-. apply filter_ext. exact H. Qed.
Global Instance mmap_pw {A B} : Proper (pointwise_relation A eq ==> eq ==> eq) (@mmap A B).
Proof. intros f g H l l' <-. apply mmap_ext. intros; apply H. Qed.
Global Instance mflat_map_pw {A B} : Proper (pointwise_relation A eq ==> eq ==> eq) (@mflat_map A B).
Proof. intros f g H l l' <-. apply mflat_map_ext. intros; apply H. Qed.
Global Instance mexistsb_pw {A} : Proper (pointwise_relation A eq ==> eq ==> eq) (@mexistsb A).
Proof. intros f g H l l' <-. apply mexistsb_ext. intros; apply H. Qed.
Global Instance mforallb_pw {A} : Proper (pointwise_relation A eq ==> eq ==> eq) (@mforallb A).
Proof. intros f g H l l' <-. apply mforallb_ext. intros; apply H. Qed.
Global Instance mfold_pw {S A} : Proper (pointwise_relation S (pointwise_relation A eq) ==> eq ==> eq ==> eq) (@mfold S A).
Proof. intros f g H l l' <- s s' <-. apply mfold_ext. intros; apply H. Qed.
Global Instance fold_left_pw {S A} : Proper (pointwise_relation S (pointwise_relation A eq) ==> eq ==> eq ==> eq) (@fold_left S A).
Proof. intros f g H l l' <- s s' <-. revert s. induction l; simpl; intros; [reflexivity|]. rewrite H. apply IHl. Qed.
Global Instance xbind_pw {A B} : Proper (eq ==> pointwise_relation A eq ==> eq) (@xbind A B).
Proof. intros m m' <- f g H. apply xbind_ext; auto. Qed.

(* ---- the tactics ------------------------------------------------------------------------------------------------------ *)
(* computation: the Python operations on a value whose KIND is known, the list functions on a list whose head is known *)
Ltac xcbn :=
  cbn beta iota zeta delta
      [xbind of_res bind py_iter py_len py_getitem py_items py_mul py_is_tuple py_is_bool py_truthy is_real is_list is_none is_str
       str_chars as_rows negb andb orb nth_error map flat_map existsb forallb filter app length concat
       mmap mflat_map mfold mexistsb mforallb fold_left fst snd];
  (* one spelling of the connectives: `a && b` = `if a then b else false` (so that a test is split as the same ATOM on both sides) *)
  cbv beta iota delta [andb orb].

(* side condition of [fold_left_appends]: every path of the loop body appends to the accumulator *)
Ltac xappends :=
  intros; cbv beta;
  repeat match goal with |- context [if ?c then _ else _] => destruct c end;
  rewrite ?app_nil_l; reflexivity.

Ltac xrew :=
  first
    [ setoid_rewrite xbind_assoc
    | setoid_rewrite xbind_ret
    | setoid_rewrite if_XOk
    | setoid_rewrite of_res_bind
    | setoid_rewrite of_res_if
    | setoid_rewrite existsb_map'
    | setoid_rewrite forallb_existsb
    | setoid_rewrite map_map
    | setoid_rewrite flat_map_map'
    | setoid_rewrite mmap_map
    | setoid_rewrite mflat_map_map
    | setoid_rewrite mfold_map
    | setoid_rewrite mexistsb_map
    | setoid_rewrite mforallb_map
    | setoid_rewrite mmap_pure
    | setoid_rewrite mflat_map_pure
    | setoid_rewrite mfold_pure
    | setoid_rewrite mfold_check
    | setoid_rewrite mfold_check_neg
    | setoid_rewrite xbind_check
    | setoid_rewrite list_mul_1
    | setoid_rewrite mexistsb_pure
    | setoid_rewrite mforallb_pure
    | setoid_rewrite negb_involutive
    | setoid_rewrite negb_if
    | setoid_rewrite if_negb
    | setoid_rewrite map_flat_map
    | setoid_rewrite existsb_const_false
    | setoid_rewrite existsb_concat
    | setoid_rewrite existsb_flat_map
    | setoid_rewrite existsb_filter
    | setoid_rewrite list_mul_single
    | setoid_rewrite str_chars_length
    | setoid_rewrite as_rows_map
    | rewrite fold_left_appends by xappends ].

Ltac xnorm := unfold any_not_real, bcast_row; repeat (xcbn; try xrew); xcbn.

Ltac xdestruct s :=
  lazymatch s with
  | negb ?a => xdestruct a
  | Nat.eqb ?a ?b => destruct (Nat.eqb_spec a b)
  | Nat.ltb ?a ?b => destruct (Nat.ltb_spec a b)
  | Nat.leb ?a ?b => destruct (Nat.leb_spec a b)
  | as_rows ?l =>
      let H := fresh "Hrows" in
      destruct (as_rows l) eqn:H; [ apply as_rows_some in H; subst l | apply as_rows_none in H; rewrite ?H ]
  | _ => destruct s eqn:?
  end.

(* the ATOMIC test that blocks the computation of a term *)
Ltac xatom T :=
  lazymatch T with
  | xbind ?X _ => xatom X
  | bind ?X _ => xatom X
  | of_res ?X => xatom X
  | negb ?X => xatom X
  | match ?s with _ => _ end => xatom s
  | _ => T
  end.
Ltac xhead T :=
  lazymatch T with
  | xbind ?X _ => xatom X
  | bind ?X _ => xatom X
  | of_res ?X => xatom X
  | match ?s with _ => _ end => xatom s
  end.

Ltac xsplit_head :=
  match goal with
  | |- ?L = _ => let s := xhead L in xdestruct s
  | |- _ = ?R => let s := xhead R in xdestruct s
  end.

(* any test of the goal (e.g. inside the returned value) *)
Ltac xsplit_any :=
  match goal with
  | |- context [match ?s with _ => _ end] => let a := xatom s in xdestruct a
  end.

(* `isinstance(t, list)` for every item: the model's [as_rows]; afterwards the list IS `map List rows` *)
Ltac xsplit_rows :=
  match goal with
  | |- context [as_rows ?l] => is_var l; xdestruct (as_rows l)
  end.

(* a variable that is analysed directly (`match l with [] => .. | h :: _ => ..`, a value whose kind decides) *)
Ltac xsplit_var :=
  match goal with
  | |- context [match ?x with _ => _ end] => is_var x; lazymatch type of x with nat => fail | _ => destruct x end
  end.

Ltac xclose :=
  first [ reflexivity
        | congruence
        | exfalso; simpl in *; lia
        | exfalso; congruence ].

(* the results are equal: same constructors, maps compared pointwise (every map / filter / concat spelled as a flat_map) *)
Ltac xpoint := repeat (xnorm; first [ reflexivity | xsplit_head | xsplit_any ]); xclose.
Ltac xcong :=
  lazymatch goal with
  | |- XOk _ = XOk _ => apply f_equal
  | |- List _ = List _ => apply f_equal
  | |- Tuple _ = Tuple _ => apply f_equal
  | |- Some _ = Some _ => apply f_equal
  | |- _ :: _ = _ :: _ => apply f_equal2
  | |- (_ ++ _)%list = (_ ++ _)%list => apply f_equal2
  | |- flat_map _ ?l = flat_map _ ?l => apply flat_map_ext_In; intros ? ?; xpoint
  | |- existsb _ ?l = existsb _ ?l => apply existsb_ext; intros ? ?; xpoint
  end.
Ltac xleaf_go := first [ reflexivity | xcong; xleaf_go ].
Ltac xleaf :=
  first [ xclose
        | rewrite ?map_flat_map_singleton, ?filter_flat_map, ?concat_flat_map, ?flat_map_flat_map; xleaf_go ].

(* the split is COMMITTED (no backtracking into another choice of test when a leaf fails: a false equation fails fast) *)
Ltac xsplit := first [ xsplit_var | xsplit_rows | xsplit_head | xsplit_any ].
Ltac xauto :=
  xnorm;
  first [ xclose | tryif once xsplit then xauto else xleaf ].

Ltac xtie := timeout 120 (solve [ xauto ]).

(* case analysis on the kind of the dynamically typed argument (a str: empty or not), then [xtie] *)
Ltac xkinds v := destruct v as [?|?|[|? ?]| |?|?]; xtie.
