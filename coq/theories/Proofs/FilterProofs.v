(* Proofs about Model/Filter.v (property C10; reused by C03). *)
From Coq Require Import List Bool ZArith String Arith Lia.
From PE Require Import Base.QUtil Model.Filter.
Import ListNotations.
Open Scope Q_scope.

(* ---------------- list helpers ---------------- *)
Lemma mem_nat_In x l : mem_nat x l = true <-> In x l.
Proof.
  induction l as [|y t IH]; simpl; [split; [discriminate|tauto]|].
  rewrite orb_true_iff, IH, Nat.eqb_eq. split; intros [H|H]; auto.
Qed.

Lemma mem_nat_index x l : mem_nat x l = true -> exists i, index_of x l = Some i /\ (i < List.length l)%nat.
Proof.
  induction l as [|y t IH]; simpl; [discriminate|].
  destruct (Nat.eqb x y); simpl.
  - intros _. exists O. split; [reflexivity|lia].
  - intros H. destruct (IH H) as [i [Hi Hl]]. rewrite Hi. exists (S i). split; [reflexivity|lia].
Qed.

Lemma index_of_lt x l i : index_of x l = Some i -> (i < List.length l)%nat.
Proof.
  revert i. induction l as [|y t IH]; simpl; intros i; [discriminate|].
  destruct (Nat.eqb x y).
  - intros H; inversion H; lia.
  - destruct (index_of x t); [|discriminate]. intros H; inversion H. specialize (IH n eq_refl). lia.
Qed.

Lemma mem_str_In x l : mem_str x l = true <-> In x l.
Proof.
  induction l as [|y t IH]; simpl; [split; [discriminate|tauto]|].
  rewrite orb_true_iff, IH, String.eqb_eq. split; intros [H|H]; auto.
Qed.

Lemma nth_error_lt_Some {A} (l : list A) i : (i < List.length l)%nat -> exists v, nth_error l i = Some v.
Proof.
  intros H. destruct (nth_error l i) eqn:E; [eauto|]. apply nth_error_None in E. lia.
Qed.

Lemma Forall2_nth_error {A} (R : A -> A -> Prop) l l' i v :
  Forall2 R l l' -> nth_error l i = Some v -> exists v', nth_error l' i = Some v' /\ R v v'.
Proof.
  intros H. revert i. induction H as [|a b s t Hab _ IH]; intros i Hi.
  - destruct i; discriminate.
  - destruct i; simpl in *.
    + inversion Hi; subst. eauto.
    + apply IH; assumption.
Qed.

Lemma Forall2_length_eq {A} (R : A -> A -> Prop) l l' : Forall2 R l l' -> List.length l = List.length l'.
Proof. induction 1; simpl; congruence. Qed.

(* ---------------- Sublist ---------------- *)
Lemma Sublist_refl {A} (l : list A) : Sublist l l.
Proof. induction l; constructor; assumption. Qed.

Lemma Sublist_In {A} (l1 l2 : list A) : Sublist l1 l2 -> forall a, In a l1 -> In a l2.
Proof. induction 1; simpl; intros x Hx; auto. destruct Hx; auto. Qed.

Lemma Sublist_length {A} (l1 l2 : list A) : Sublist l1 l2 -> (List.length l1 <= List.length l2)%nat.
Proof. induction 1; simpl; lia. Qed.

Lemma Sublist_filter {A} (p : A -> bool) l : Sublist (filter p l) l.
Proof. induction l as [|a t IH]; simpl; [constructor|]. destruct (p a); constructor; assumption. Qed.

Lemma Sublist_filter_mono {A} (p q : A -> bool) l :
  (forall a, In a l -> p a = true -> q a = true) -> Sublist (filter p l) (filter q l).
Proof.
  induction l as [|a t IH]; simpl; intros H; [constructor|].
  assert (IHt : Sublist (filter p t) (filter q t)) by (apply IH; intros; apply H; auto).
  destruct (p a) eqn:Ep.
  - rewrite (H a (or_introl eq_refl) Ep). constructor; assumption.
  - destruct (q a); [constructor|]; assumption.
Qed.

Lemma Sublist_map {A B} (f : A -> B) l1 l2 : Sublist l1 l2 -> Sublist (map f l1) (map f l2).
Proof. induction 1; simpl; constructor; assumption. Qed.

Lemma Sublist_NoDup {A} (l1 l2 : list A) : Sublist l1 l2 -> NoDup l2 -> NoDup l1.
Proof.
  induction 1; intros Hn; [constructor| |].
  - inversion Hn; auto.
  - inversion Hn; subst. constructor; auto. intro Hin. apply H2. eapply Sublist_In; eauto.
Qed.

(* ---------------- the generic filtering loop ---------------- *)
Lemma filter_res_spec {A} (p : A -> res bool) (q : A -> bool) l :
  (forall a, In a l -> p a = Ok (q a)) -> filter_res p l = Ok (filter q l).
Proof.
  induction l as [|a t IH]; simpl; intros H; [reflexivity|].
  rewrite (H a (or_introl eq_refl)). simpl. rewrite IH by (intros; apply H; auto). simpl.
  destruct (q a); reflexivity.
Qed.

Lemma filter_res_inv {A} (p : A -> res bool) a t l' :
  filter_res p (a :: t) = Ok l' ->
  exists b t', p a = Ok b /\ filter_res p t = Ok t' /\ l' = (if b then a :: t' else t').
Proof.
  simpl. destruct (p a) as [b| |]; simpl; try discriminate.
  destruct (filter_res p t) as [t'| |]; simpl; try discriminate.
  intros H; inversion H. eauto.
Qed.

Lemma filter_res_sublist {A} (p : A -> res bool) l l' : filter_res p l = Ok l' -> Sublist l' l.
Proof.
  revert l'. induction l as [|a t IH]; intros l' H.
  - simpl in H. inversion H. constructor.
  - apply filter_res_inv in H. destruct H as [b [t' [_ [Ht ->]]]].
    destruct b; constructor; apply IH; assumption.
Qed.

Lemma filter_res_In {A} (p : A -> res bool) l l' :
  filter_res p l = Ok l' -> forall a, In a l' <-> In a l /\ p a = Ok true.
Proof.
  revert l'. induction l as [|a t IH]; intros l' H x.
  - simpl in H. inversion H. simpl. tauto.
  - apply filter_res_inv in H. destruct H as [b [t' [Hp [Ht ->]]]].
    specialize (IH _ Ht x). destruct b; simpl; rewrite ?IH.
    + split.
      * intros [->|[H1 H2]]; auto.
      * intros [[->|H1] H2]; auto.
    + split.
      * intros [H1 H2]; auto.
      * intros [[->|H1] H2]; auto. rewrite Hp in H2. discriminate.
Qed.

Lemma filter_res_all_ok {A} (p : A -> res bool) l l' :
  filter_res p l = Ok l' -> forall a, In a l -> exists b, p a = Ok b.
Proof.
  revert l'. induction l as [|a t IH]; intros l' H x Hx; [destruct Hx|].
  apply filter_res_inv in H. destruct H as [b [t' [Hp [Ht _]]]].
  destruct Hx as [->|Hx]; eauto.
Qed.

Lemma filter_res_idem {A} (p : A -> res bool) l l' : filter_res p l = Ok l' -> filter_res p l' = Ok l'.
Proof.
  revert l'. induction l as [|a t IH]; intros l' H.
  - simpl in H. inversion H. reflexivity.
  - apply filter_res_inv in H. destruct H as [b [t' [Hp [Ht ->]]]].
    destruct b; [|apply IH; assumption].
    simpl. rewrite Hp. simpl. rewrite (IH _ Ht). reflexivity.
Qed.

Lemma filter_res_is_filter {A} (p : A -> res bool) l l' :
  filter_res p l = Ok l' ->
  exists q : A -> bool, (forall a, In a l -> p a = Ok (q a)) /\ l' = filter q l.
Proof.
  intros H.
  exists (fun a => match p a with Ok b => b | _ => false end). split.
  - intros a Ha. destruct (filter_res_all_ok _ _ _ H a Ha) as [b Hb]. rewrite Hb. reflexivity.
  - assert (E : filter_res p l = Ok (filter (fun a => match p a with Ok b => b | _ => false end) l)).
    { apply filter_res_spec. intros a Ha. destruct (filter_res_all_ok _ _ _ H a Ha) as [b Hb]. rewrite Hb. reflexivity. }
    rewrite H in E. inversion E. reflexivity.
Qed.

(* ---------------- threshold lookup ---------------- *)
Lemma targeted_nonempty c o ts :
  c_targets c = Some ts -> ts <> [] -> targeted c o = mem_nat (o_label o) ts.
Proof. unfold targeted. intros -> H. destruct ts; [congruence|reflexivity]. Qed.

Lemma label_thr_bound {A} c o (lst : option (list A)) l :
  len_ok c lst -> lst = Some l -> targeted c o = true ->
  exists v, label_thr c o l = Ok v /\ bound_for c o l = Some v.
Proof.
  intros Hlen Hl Ht. destruct (Hlen l Hl) as [ts [Hts [Hne Hlen']]].
  rewrite (targeted_nonempty c o ts Hts Hne) in Ht.
  destruct (mem_nat_index _ _ Ht) as [i [Hi Hlt]].
  unfold label_thr, bound_for. rewrite Hts, Hi.
  destruct (nth_error_lt_Some l i) as [v Hv]; [lia|]. rewrite Hv. eauto.
Qed.

Lemma step_eq {A} t (lst : option (list A)) thr test (sel : list A -> option A) :
  (forall l, lst = Some l -> thr l = Ok (sel l)) ->
  step t lst thr test = Ok (t && when lst (fun l => holds (sel l) test)).
Proof.
  intros H. destruct t; simpl; [|reflexivity].
  destruct lst as [l|]; simpl; [|reflexivity].
  rewrite (H l eq_refl). destruct (sel l); reflexivity.
Qed.

Lemma step_false {A} (lst : option (list A)) thr test : step false lst thr test = Ok false.
Proof. reflexivity. Qed.

Lemma uuid_step_eq c is_gt o t : uuid_step c is_gt o t = t && uuid_ok c is_gt o.
Proof.
  unfold uuid_step, uuid_ok, when, holds. destruct t; simpl; [|reflexivity].
  destruct (c_uuids c); [|now rewrite orb_true_r]. destruct is_gt; reflexivity.
Qed.

Lemma lookup_sel {A} c o (lst : option (list A)) :
  len_ok c lst -> targeted c o = true ->
  forall l, lst = Some l -> bind (label_thr c o l) (fun v => Ok (Some v)) = Ok (bound_for c o l).
Proof.
  intros Hlen Ht l Hl. destruct (label_thr_bound c o lst l Hlen Hl Ht) as [v [H1 H2]].
  rewrite H1, H2. reflexivity.
Qed.

Lemma points_step_eq c is_gt o t :
  len_ok c (c_min_pts c) -> targeted c o = true -> obj_ok c is_gt o ->
  points_step false c is_gt o t = Ok (t && points_ok c is_gt o).
Proof.
  intros Hlen Ht Hobj. unfold points_step, points_ok, when. destruct t; simpl; [|reflexivity].
  destruct (c_min_pts c) as [l|] eqn:El; [|now rewrite orb_true_r].
  destruct is_gt; simpl; [|reflexivity].
  destruct (label_thr_bound c o _ l Hlen eq_refl Ht) as [v [H1 H2]]. rewrite H1, H2. simpl.
  destruct (o_points o) eqn:Ep; [reflexivity|]. exfalso. apply Hobj; auto. congruence.
Qed.

Lemma uut_not_gt c is_gt o : use_unknown_threshold c is_gt o = true -> is_gt = false.
Proof.
  unfold use_unknown_threshold. rewrite !andb_true_iff, negb_true_iff. tauto.
Qed.

Lemma len_ok_conf_list c g : len_ok c (c_conf c) -> len_ok c (conf_list c g).
Proof. unfold conf_list. destruct g; [intros _ l H; discriminate|auto]. Qed.

Lemma wider_conf_list {R : Q -> Q -> Prop} c c' g :
  wider_list R (c_conf c) (c_conf c') -> wider_list R (conf_list c g) (conf_list c' g).
Proof. unfold conf_list. destruct g; [intros _; exact I|auto]. Qed.

(* ---------------- the sequential predicate is the declarative conjunction ---------------- *)
Theorem is_target_spec c tf is_gt o :
  wf_cfg c -> obj_ok c is_gt o -> is_target c tf is_gt o = Ok (kept c tf is_gt o).
Proof.
  intros (Hx & Hy & HD & Hd & Hp & Hc0) Hobj.
  pose proof (len_ok_conf_list c is_gt Hc0) as Hc.
  unfold is_target, kept.
  destruct (lbl_is_fp (o_label o)); [reflexivity|]. rewrite orb_false_l.
  destruct (use_unknown_threshold c is_gt o) eqn:Euut.
  - (* unknown estimate judged against the mean bounds *)
    pose proof (uut_not_gt _ _ _ Euut) as ->.
    replace (match c_targets c with Some (_ :: _) => true | _ => true end) with true
      by (destruct (c_targets c) as [[|]|]; reflexivity).
    replace (match c_ignore c with Some _ => true | None => true end) with true
      by (destruct (c_ignore c); reflexivity).
    rewrite (step_eq true (conf_list c false) _ _ (fun _ => Some 0)) by reflexivity. simpl bind.
    destruct (position_of tf o) as [[[x y] d]|]; simpl when.
    + unfold in_range.
      rewrite (step_eq _ (c_max_x c) _ _ qmean) by reflexivity. simpl bind.
      rewrite (step_eq _ (c_max_y c) _ _ qmean) by reflexivity. simpl bind.
      rewrite (step_eq _ (c_max_dist c) _ _ qmean) by reflexivity. simpl bind.
      rewrite (step_eq _ (c_min_dist c) _ _ qmean) by reflexivity. simpl bind.
      unfold points_step, uuid_step.
      match goal with |- context [if ?b then match c_min_pts c with _ => _ end else _] =>
        replace (if b then match c_min_pts c with Some _ => Ok true | None => Ok true end else Ok false) with (@Ok bool b)
          by (destruct b; destruct (c_min_pts c); reflexivity) end.
      simpl bind.
      match goal with |- Ok (if ?b then _ else false) = _ =>
        replace (if b then match c_uuids c with Some _ => true | None => true end else false) with b
          by (destruct b; destruct (c_uuids c); reflexivity) end.
      simpl holds. rewrite ?andb_true_l, <- ?andb_assoc. reflexivity.
    + unfold uuid_step.
      match goal with |- Ok (if ?b then _ else false) = _ =>
        replace (if b then match c_uuids c with Some _ => true | None => true end else false) with b
          by (destruct b; destruct (c_uuids c); reflexivity) end.
      simpl holds. rewrite ?andb_true_l, ?andb_true_r. reflexivity.
  - (* per-label thresholds *)
    change (match c_targets c with Some (t0 :: ts) => mem_nat (o_label o) (t0 :: ts) | _ => true end) with (targeted c o).
    assert (Et2 : match c_ignore c with Some ks => targeted c o && negb (contains_any o ks) | None => targeted c o end
                  = targeted c o && negb (ignored c o)).
    { unfold ignored. destruct (c_ignore c); [reflexivity|now rewrite andb_true_r]. }
    rewrite Et2.
    destruct (targeted c o) eqn:Et.
    + rewrite (step_eq _ (conf_list c is_gt) _ _ (bound_for c o)) by (apply lookup_sel; assumption). simpl bind.
      destruct (position_of tf o) as [[[x y] d]|]; simpl when.
      * unfold in_range, num_thr.
        rewrite (step_eq _ (c_max_x c) _ _ (bound_for c o)) by (apply lookup_sel; assumption). simpl bind.
        rewrite (step_eq _ (c_max_y c) _ _ (bound_for c o)) by (apply lookup_sel; assumption). simpl bind.
        rewrite (step_eq _ (c_max_dist c) _ _ (bound_for c o)) by (apply lookup_sel; assumption). simpl bind.
        rewrite (step_eq _ (c_min_dist c) _ _ (bound_for c o)) by (apply lookup_sel; assumption). simpl bind.
        rewrite points_step_eq by assumption. simpl bind.
        rewrite uuid_step_eq. rewrite ?andb_true_l, <- ?andb_assoc. reflexivity.
      * rewrite uuid_step_eq. rewrite ?andb_true_l, ?andb_true_r. reflexivity.
    + simpl andb. rewrite step_false. simpl bind.
      destruct (position_of tf o) as [[[x y] d]|]; reflexivity.
Qed.

Theorem filter_objects_spec c tf is_gt l :
  wf_cfg c -> (forall o, In o l -> obj_ok c is_gt o) ->
  filter_objects c tf is_gt l = Ok (filter (kept c tf is_gt) l).
Proof.
  intros Hwf Hobj. apply filter_res_spec. intros o Ho. apply is_target_spec; auto.
Qed.

(* ---------------- well-formedness of the two sides of filter_object_results ---------------- *)
Lemma len_ok_None {A} c : @len_ok A c None.
Proof. intros l H. discriminate. Qed.

Lemma wf_est_side c : wf_cfg c -> wf_cfg (est_side c).
Proof.
  intros (Hx & Hy & HD & Hd & Hp & Hc). unfold wf_cfg, est_side, len_ok in *; simpl.
  repeat split; auto; intros l H; discriminate.
Qed.

Lemma wf_gt_side c : wf_cfg c -> wf_cfg (gt_side c).
Proof.
  intros (Hx & Hy & HD & Hd & Hp & Hc). unfold wf_cfg, gt_side, len_ok in *; simpl.
  repeat split; auto; intros l H; discriminate.
Qed.

Lemma obj_ok_est_side c o : obj_ok (est_side c) false o.
Proof. intros H. discriminate. Qed.

Definition res_ok (c : Cfg) (r : Res) : Prop :=
  forall g, r_gt r = Some g -> obj_ok c true g.

Theorem result_target_spec c tf r :
  wf_cfg c -> res_ok c r -> result_target c tf r = Ok (result_kept c tf r).
Proof.
  intros Hwf Hr. unfold result_target, result_kept.
  rewrite (is_target_spec (est_side c)) by (auto using wf_est_side, obj_ok_est_side). simpl bind.
  destruct (r_gt r) as [g|] eqn:Eg; [|reflexivity].
  destruct (kept (est_side c) tf false (r_est r)); [|reflexivity].
  rewrite (is_target_spec (gt_side c)); [reflexivity|apply wf_gt_side; assumption|].
  intros H1 H2. apply (Hr g Eg H1). exact H2.
Qed.

Theorem filter_object_results_spec c tf rs :
  wf_cfg c -> (forall r, In r rs -> res_ok c r) ->
  filter_object_results c tf rs = Ok (filter (result_kept c tf) rs).
Proof.
  intros Hwf Hr. apply filter_res_spec. intros r Hin. apply result_target_spec; auto.
Qed.

(* ---------------- C10 clauses ---------------- *)
Theorem filter_sublist c tf is_gt l l' :
  filter_objects c tf is_gt l = Ok l' -> Sublist l' l.
Proof. apply filter_res_sublist. Qed.

Theorem filter_results_sublist c tf rs rs' :
  filter_object_results c tf rs = Ok rs' -> Sublist rs' rs.
Proof. apply filter_res_sublist. Qed.

Theorem filter_idempotent c tf is_gt l l' :
  filter_objects c tf is_gt l = Ok l' -> filter_objects c tf is_gt l' = Ok l'.
Proof. apply filter_res_idem. Qed.

Theorem filter_results_idempotent c tf rs rs' :
  filter_object_results c tf rs = Ok rs' -> filter_object_results c tf rs' = Ok rs'.
Proof. apply filter_res_idem. Qed.

Theorem filter_exact c tf is_gt l l' :
  filter_objects c tf is_gt l = Ok l' ->
  forall o, In o l' <-> In o l /\ is_target c tf is_gt o = Ok true.
Proof. apply filter_res_In. Qed.

Lemma result_target_true c tf r :
  result_target c tf r = Ok true <->
  is_target (est_side c) tf false (r_est r) = Ok true /\
  match r_gt r with
  | Some g => is_target (gt_side c) tf true g = Ok true
  | None => uuids_nonempty c = false
  end.
Proof.
  unfold result_target.
  destruct (is_target (est_side c) tf false (r_est r)) as [e| |]; simpl;
    try (split; [discriminate|intros [H _]; discriminate]).
  destruct e.
  - destruct (r_gt r) as [g|].
    + tauto.
    + simpl. destruct (uuids_nonempty c); simpl; split; try tauto; try discriminate.
      intros [_ H]; discriminate.
  - split; [|intros [H _]; discriminate].
    destruct (r_gt r); simpl; discriminate.
Qed.

Theorem filter_results_both_sides c tf rs rs' :
  filter_object_results c tf rs = Ok rs' ->
  forall r, In r rs' <->
    In r rs /\
    is_target (est_side c) tf false (r_est r) = Ok true /\
    match r_gt r with
    | Some g => is_target (gt_side c) tf true g = Ok true
    | None => uuids_nonempty c = false
    end.
Proof.
  intros H r. rewrite (filter_res_In _ _ _ H r), result_target_true. tauto.
Qed.

Theorem fp_label_always_kept c tf is_gt o :
  lbl_is_fp (o_label o) = true -> is_target c tf is_gt o = Ok true.
Proof. intros H. unfold is_target. rewrite H. reflexivity. Qed.

Theorem fp_label_survives c tf is_gt l l' o :
  filter_objects c tf is_gt l = Ok l' -> In o l -> lbl_is_fp (o_label o) = true -> In o l'.
Proof.
  intros H Hin Hfp. apply (filter_res_In _ _ _ H o). split; [assumption|].
  apply fp_label_always_kept; assumption.
Qed.

Theorem no_position_skips_bounds c tf is_gt o :
  position_of tf o = None -> is_target c tf is_gt o = is_target (without_bounds c) tf is_gt o.
Proof.
  intros H. unfold is_target. rewrite H. reflexivity.
Qed.

(* the confidence list never decides on a ground truth (documented: "only used when is_gt=False") *)
Definition without_conf (c : Cfg) : Cfg :=
  mkCfg (c_targets c) (c_ignore c) (c_max_x c) (c_max_y c) (c_max_dist c) (c_min_dist c) (c_min_pts c) None (c_uuids c).

Theorem confidence_estimates_only c tf o :
  is_target c tf true o = is_target (without_conf c) tf true o /\
  kept c tf true o = kept (without_conf c) tf true o.
Proof. split; reflexivity. Qed.

Lemma kept_gt_side c tf g : kept (gt_side c) tf true g = kept c tf true g.
Proof. reflexivity. Qed.

(* ---------------- monotonicity in the bounds ---------------- *)
Lemma qsum_Forall2_le l l' : Forall2 Qle l l' -> qsum l <= qsum l'.
Proof. induction 1; simpl; lra. Qed.

Lemma qmean_mono l l' m : Forall2 Qle l l' -> qmean l = Some m -> exists m', qmean l' = Some m' /\ m <= m'.
Proof.
  intros H Hm. pose proof (Forall2_length_eq _ _ _ H) as Hlen. pose proof (qsum_Forall2_le _ _ H) as Hs.
  destruct l as [|a s]; [discriminate|]. destruct l' as [|b t]; [discriminate|].
  unfold qmean in *. inversion Hm; subst. eexists; split; [reflexivity|].
  rewrite <- Hlen. apply Qdiv_le_compat_l; [|assumption]. apply Qnat_pos. simpl; lia.
Qed.

Lemma qmean_anti l l' m : Forall2 (fun a b => b <= a) l l' -> qmean l = Some m -> exists m', qmean l' = Some m' /\ m' <= m.
Proof.
  intros H Hm.
  assert (H' : Forall2 Qle l' l).
  { clear Hm. induction H; constructor; assumption. }
  pose proof (Forall2_length_eq _ _ _ H') as Hlen. pose proof (qsum_Forall2_le _ _ H') as Hs.
  destruct l as [|a s]; [discriminate|]. destruct l' as [|b t]; [discriminate|].
  unfold qmean in *. inversion Hm; subst. eexists; split; [reflexivity|].
  rewrite Hlen. apply Qdiv_le_compat_l; [|assumption]. apply Qnat_pos. simpl; lia.
Qed.

Lemma bound_for_rel {A} (R : A -> A -> Prop) c c' o l l' v :
  c_targets c' = c_targets c -> Forall2 R l l' -> bound_for c o l = Some v ->
  exists v', bound_for c' o l' = Some v' /\ R v v'.
Proof.
  unfold bound_for. intros -> HF. destruct (c_targets c) as [ts|]; [|discriminate].
  destruct (index_of (o_label o) ts) as [i|]; [|discriminate].
  apply Forall2_nth_error; assumption.
Qed.

(* one criterion: if it held against the old list it holds against the wider one *)
Lemma when_holds_mono {A} (R : A -> A -> Prop) (a b : option (list A)) (sel sel' : list A -> option A) (test : A -> bool) :
  wider_list R a b ->
  (forall l l' v, Forall2 R l l' -> sel l = Some v -> exists v', sel' l' = Some v' /\ R v v') ->
  (forall v v', R v v' -> test v = true -> test v' = true) ->
  when a (fun l => holds (sel l) test) = true -> when b (fun l => holds (sel' l) test) = true.
Proof.
  intros Hw Hsel Htest. destruct b as [l'|]; [|reflexivity].
  destruct a as [l|]; [|destruct Hw]. simpl in *.
  destruct (sel l) as [v|] eqn:Ev; [|discriminate]. simpl.
  destruct (Hsel l l' v Hw Ev) as [v' [Ev' Hr]]. rewrite Ev'. simpl. eauto.
Qed.

Lemma in_range_mono c c' (sel sel' : list Q -> option Q) p :
  wider c c' ->
  (forall l l' v, Forall2 Qle l l' -> sel l = Some v -> exists v', sel' l' = Some v' /\ v <= v') ->
  (forall l l' v, Forall2 (fun a b => b <= a) l l' -> sel l = Some v -> exists v', sel' l' = Some v' /\ v' <= v) ->
  in_range c sel p = true -> in_range c' sel' p = true.
Proof.
  intros (_ & _ & _ & Wx & Wy & WD & Wd & _ & _) Hup Hdn. destruct p as [[x y] d]. unfold in_range.
  rewrite !andb_true_iff. intros [[[H1 H2] H3] H4]. repeat split.
  - eapply (when_holds_mono Qle); eauto. intros v v' Hv. rewrite !Qltb_true. lra.
  - eapply (when_holds_mono Qle); eauto. intros v v' Hv. rewrite !Qltb_true. lra.
  - eapply (when_holds_mono Qle); eauto. intros v v' Hv. rewrite !Qltb_true. lra.
  - eapply (when_holds_mono (fun a b => b <= a)); eauto. intros v v' Hv. rewrite !Qltb_true. lra.
Qed.

Theorem kept_wider c c' tf is_gt o :
  wider c c' -> kept c tf is_gt o = true -> kept c' tf is_gt o = true.
Proof.
  intros W. pose proof W as (Wt & Wi & Wu & Wx & Wy & WD & Wd & Wp & Wc).
  unfold kept. destruct (lbl_is_fp (o_label o)); [reflexivity|]. rewrite !orb_false_l.
  assert (Eu : use_unknown_threshold c' is_gt o = use_unknown_threshold c is_gt o)
    by (unfold use_unknown_threshold, is_contained_unknown; rewrite Wt; reflexivity).
  rewrite Eu. destruct (use_unknown_threshold c is_gt o).
  - rewrite !andb_true_iff. intros [H1 H2]. split.
    + pose proof (@wider_conf_list _ c c' is_gt Wc) as Wc'.
      destruct (conf_list c' is_gt) as [l'|]; [|reflexivity]. destruct (conf_list c is_gt) as [l|]; [|destruct Wc']. exact H1.
    + destruct (position_of tf o) as [p|]; [|reflexivity]. simpl in *.
      eapply in_range_mono; eauto.
      * intros; eapply qmean_mono; eauto.
      * intros; eapply qmean_anti; eauto.
  - rewrite !andb_true_iff. intros [[[[H1 H2] H3] H4] H5].
    assert (Et : targeted c' o = targeted c o) by (unfold targeted; rewrite Wt; reflexivity).
    assert (Ei : ignored c' o = ignored c o) by (unfold ignored; rewrite Wi; reflexivity).
    rewrite Et, Ei. repeat split; auto.
    + eapply (when_holds_mono (fun a b => b <= a)); [apply wider_conf_list; exact Wc| | |exact H3].
      * intros; eapply (bound_for_rel (fun a b => b <= a)); eauto.
      * intros v v' Hv. rewrite !Qltb_true. lra.
    + destruct (position_of tf o) as [p|]; [|reflexivity]. simpl in *.
      rewrite andb_true_iff in *. destruct H4 as [H4 H6]. split.
      * eapply in_range_mono; eauto; intros.
        -- eapply (bound_for_rel Qle); eauto.
        -- eapply (bound_for_rel (fun a b => b <= a)); eauto.
      * unfold points_ok in *. destruct is_gt; [|reflexivity]. simpl in *.
        eapply (when_holds_mono (fun a b => (b <= a)%Z)); eauto.
        -- intros; eapply (bound_for_rel (fun a b => (b <= a)%Z)); eauto.
        -- intros v v' Hv. unfold holds. destruct (o_points o); [|discriminate].
           rewrite !Z.leb_le. lia.
    + unfold uuid_ok in *. rewrite Wu. assumption.
Qed.

Theorem filter_monotone_in_bounds c c' tf is_gt l l1 l2 :
  wf_cfg c -> wf_cfg c' -> wider c c' ->
  (forall o, In o l -> obj_ok c is_gt o) ->
  filter_objects c tf is_gt l = Ok l1 -> filter_objects c' tf is_gt l = Ok l2 -> Sublist l1 l2.
Proof.
  intros Hwf Hwf' W Hobj H1 H2.
  rewrite filter_objects_spec in H1 by assumption.
  rewrite filter_objects_spec in H2.
  - inversion H1; inversion H2; subst. apply Sublist_filter_mono. intros o _. apply kept_wider; assumption.
  - assumption.
  - intros o Ho Hg Hp. destruct W as (_ & _ & _ & _ & _ & _ & _ & Wp & _).
    apply (Hobj o Ho Hg). destruct (c_min_pts c); [discriminate|].
    destruct (c_min_pts c'); [destruct Wp|congruence].
Qed.

(* ---------------- Prop-level reading of the keep predicate ---------------- *)
(* "the value configured for o's label in list l exists and satisfies P" *)
Definition bound_sat {A} (c : Cfg) (o : Obj) (lst : option (list A)) (P : A -> Prop) : Prop :=
  forall l, lst = Some l -> exists b, bound_for c o l = Some b /\ P b.
Definition mean_sat (lst : option (list Q)) (P : Q -> Prop) : Prop :=
  forall l, lst = Some l -> exists b, qmean l = Some b /\ P b.

Definition Kept (c : Cfg) (tf is_gt : bool) (o : Obj) : Prop :=
  lbl_is_fp (o_label o) = true \/
  (use_unknown_threshold c is_gt o = true /\
   (c_conf c <> None -> 0 < o_conf o) /\
   (forall x y d, position_of tf o = Some (x, y, d) ->
      mean_sat (c_max_x c) (fun b => qabs x < b) /\ mean_sat (c_max_y c) (fun b => qabs y < b) /\
      mean_sat (c_max_dist c) (fun b => d < b) /\ mean_sat (c_min_dist c) (fun b => b < d))) \/
  (use_unknown_threshold c is_gt o = false /\
   targeted c o = true /\ ignored c o = false /\
   (is_gt = false -> bound_sat c o (c_conf c) (fun thr => thr < o_conf o)) /\
   (forall x y d, position_of tf o = Some (x, y, d) ->
      bound_sat c o (c_max_x c) (fun b => qabs x < b) /\ bound_sat c o (c_max_y c) (fun b => qabs y < b) /\
      bound_sat c o (c_max_dist c) (fun b => d < b) /\ bound_sat c o (c_min_dist c) (fun b => b < d) /\
      (is_gt = true -> bound_sat c o (c_min_pts c) (fun n => exists p, o_points o = Some p /\ (n <= p)%Z))) /\
   (is_gt = true -> forall us, c_uuids c = Some us -> exists u, o_uuid o = Some u /\ In u us)).

Lemma when_holds_iff {A} (lst : option (list A)) (sel : list A -> option A) (test : A -> bool) (P : A -> Prop) :
  (forall b, test b = true <-> P b) ->
  (when lst (fun l => holds (sel l) test) = true <-> forall l, lst = Some l -> exists b, sel l = Some b /\ P b).
Proof.
  intros HP. destruct lst as [l|]; simpl.
  - split.
    + intros H l' Hl'. inversion Hl'; subst. destruct (sel l') as [b|]; [|discriminate]. exists b. split; auto. apply HP; assumption.
    + intros H. destruct (H l eq_refl) as [b [Hb HPb]]. rewrite Hb. simpl. apply HP; assumption.
  - split; [intros _ l H; discriminate|reflexivity].
Qed.

Lemma in_range_iff c sel x y d :
  in_range c sel (x, y, d) = true <->
  (forall l, c_max_x c = Some l -> exists b, sel l = Some b /\ qabs x < b) /\
  (forall l, c_max_y c = Some l -> exists b, sel l = Some b /\ qabs y < b) /\
  (forall l, c_max_dist c = Some l -> exists b, sel l = Some b /\ d < b) /\
  (forall l, c_min_dist c = Some l -> exists b, sel l = Some b /\ b < d).
Proof.
  unfold in_range. rewrite !andb_true_iff.
  rewrite (when_holds_iff (c_max_x c) sel _ (fun b => qabs x < b)) by (intros; apply Qltb_true).
  rewrite (when_holds_iff (c_max_y c) sel _ (fun b => qabs y < b)) by (intros; apply Qltb_true).
  rewrite (when_holds_iff (c_max_dist c) sel _ (fun b => d < b)) by (intros; apply Qltb_true).
  rewrite (when_holds_iff (c_min_dist c) sel _ (fun b => b < d)) by (intros; apply Qltb_true).
  tauto.
Qed.

Lemma pts_test_iff o n :
  holds (o_points o) (fun p => Z.leb n p) = true <-> exists p, o_points o = Some p /\ (n <= p)%Z.
Proof.
  unfold holds. destruct (o_points o) as [p|].
  - rewrite Z.leb_le. split; [eauto|]. intros [p' [E Hle]]. inversion E; subst; assumption.
  - split; [discriminate|]. intros [p' [E _]]. discriminate.
Qed.

Theorem kept_iff_Kept c tf is_gt o : kept c tf is_gt o = true <-> Kept c tf is_gt o.
Proof.
  unfold kept, Kept. destruct (lbl_is_fp (o_label o)); [simpl; tauto|]. rewrite orb_false_l.
  destruct (use_unknown_threshold c is_gt o) eqn:Euut.
  - pose proof (uut_not_gt _ _ _ Euut) as Eg. subst is_gt. change (conf_list c false) with (c_conf c).
    rewrite andb_true_iff. split.
    + intros [H1 H2]. right; left. split; [reflexivity|]. split.
      * destruct (c_conf c); [|congruence]. intros _. simpl in H1. apply Qltb_true; assumption.
      * intros x y d Hp. rewrite Hp in H2. simpl in H2. apply in_range_iff in H2. exact H2.
    + intros [H|[(_ & H1 & H2)|(H & _)]]; try discriminate. split.
      * destruct (c_conf c); [|reflexivity]. simpl. apply Qltb_true. apply H1. discriminate.
      * destruct (position_of tf o) as [[[x y] d]|]; [|reflexivity]. simpl. apply in_range_iff.
        apply (H2 x y d eq_refl).
  - rewrite !andb_true_iff, negb_true_iff.
    rewrite (when_holds_iff (conf_list c is_gt) (bound_for c o) _ (fun thr => thr < o_conf o)) by (intros; apply Qltb_true).
    split.
    + intros [[[[H1 H2] H3] H4] H5]. right; right.
      split; [reflexivity|]. split; [exact H1|]. split; [exact H2|]. split; [intros Eg; subst is_gt; exact H3|]. split.
      * intros x y d Hp. rewrite Hp in H4. simpl in H4. rewrite andb_true_iff in H4. destruct H4 as [H4 H6].
        apply in_range_iff in H4. destruct H4 as (A1 & A2 & A3 & A4).
        split; [exact A1|]. split; [exact A2|]. split; [exact A3|]. split; [exact A4|].
        intros ->. unfold points_ok in H6. simpl in H6.
        exact (proj1 (when_holds_iff (c_min_pts c) (bound_for c o) _ _ (pts_test_iff o)) H6).
      * intros ->. unfold uuid_ok in H5. simpl in H5. intros us Hus. rewrite Hus in H5. simpl in H5.
        destruct (o_uuid o) as [u|]; [|discriminate]. exists u. split; [reflexivity|]. apply mem_str_In; assumption.
    + intros [H|[(H & _)|(_ & H1 & H2 & H3 & H4 & H5)]]; try discriminate.
      split; [split; [split; [split|]|]|]; auto.
      * unfold conf_list. destruct is_gt; [intros l E; discriminate|apply H3; reflexivity].
      * destruct (position_of tf o) as [[[x y] d]|]; [|reflexivity]. simpl.
        destruct (H4 x y d eq_refl) as (A1 & A2 & A3 & A4 & A5). rewrite andb_true_iff. split.
        -- apply in_range_iff. auto.
        -- unfold points_ok. destruct is_gt; [|reflexivity]. simpl.
           apply (proj2 (when_holds_iff (c_min_pts c) (bound_for c o) _ _ (pts_test_iff o))). apply A5; reflexivity.
      * unfold uuid_ok. destruct is_gt; [|reflexivity]. simpl. destruct (c_uuids c) as [us|]; [|reflexivity]. simpl.
        destruct (H5 eq_refl us eq_refl) as [u [Eu Hin]]. rewrite Eu. simpl. apply mem_str_In; assumption.
Qed.

(* ---------------- the error branches (malformed parameters) ---------------- *)
(* a bound list without a target list: comparing with the missing threshold raises TypeError *)
Theorem missing_targets_raise c tf is_gt o l x y d :
  c_targets c = None -> c_ignore c = None -> c_conf c = None -> c_max_x c = Some l ->
  lbl_is_fp (o_label o) = false -> use_unknown_threshold c is_gt o = false ->
  position_of tf o = Some (x, y, d) ->
  is_target c tf is_gt o = ErrType.
Proof.
  intros Ht Hi Hc Hx Hfp Hu Hp. unfold is_target, conf_list. rewrite Hfp, Hu, Ht, Hi, Hc, Hp, Hx.
  replace (if is_gt then None else None) with (@None (list Q)) by (destruct is_gt; reflexivity). simpl.
  unfold label_thr. rewrite Ht. reflexivity.
Qed.

(* a list shorter than the target list: IndexError for the labels beyond its end *)
Theorem short_list_raises c tf is_gt o ts l i x y d :
  c_targets c = Some ts -> ts <> [] -> index_of (o_label o) ts = Some i -> (List.length l <= i)%nat ->
  c_ignore c = None -> c_conf c = None -> c_max_x c = Some l ->
  lbl_is_fp (o_label o) = false -> use_unknown_threshold c is_gt o = false ->
  position_of tf o = Some (x, y, d) ->
  is_target c tf is_gt o = ErrIndex.
Proof.
  intros Ht Hne Hi Hlen Hig Hc Hx Hfp Hu Hp. unfold is_target, conf_list. rewrite Hfp, Hu, Ht, Hig, Hc, Hp, Hx.
  replace (if is_gt then None else None) with (@None (list Q)) by (destruct is_gt; reflexivity).
  assert (Hm : mem_nat (o_label o) ts = true).
  { clear -Hi. revert i Hi. induction ts as [|y0 t IH]; simpl; intros i Hi; [discriminate|].
    destruct (Nat.eqb (o_label o) y0); [reflexivity|]. simpl.
    destruct (index_of (o_label o) t); [eauto|discriminate]. }
  destruct ts as [|t0 ts']; [congruence|]. rewrite Hm. cbn [bind step].
  unfold num_thr, label_thr. rewrite Ht, Hi.
  assert (nth_error l i = None) as -> by (apply nth_error_None; assumption). reflexivity.
Qed.
