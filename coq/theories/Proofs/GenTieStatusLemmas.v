(* Helper definitions and lemmas of Props/GenTieStatus.v (generated common/status.py layer = hand model Model/Analyzer.v, or a closed form).

   Of Gen/loops_status.v only PART 1 is used here (the fixed text: exceptions, the error monad, `sval`, `fdiv_nat`, the StatusRate
   tuple); no generated function is mentioned (they are regenerated on every run; this file is not).

   CLOSED FORMS.  Model/Analyzer.v has `add_status` and the record `GtStatus`, but no definition for StatusRate.rate,
   GroundTruthStatus.get_status_rates and get_scene_rates: the equations of these three are stated against the explicit terms below
   (float("inf") is None, a finite rate is an exact rational). *)
From Coq Require Import List Bool ZArith Arith QArith Lia.
From PE Require Import Base.QUtil.
From PE Require Model.Analyzer.
From PE Require Gen.loops_status.
Import Gen.loops_status.
Import ListNotations.
Open Scope list_scope.

(* StatusRate.rate: len(status frames) / len(total frames); inf when EITHER length is 0 (so 0 / n is inf, not 0.0) *)
Definition rate_of (s t : list nat) : option Q :=
  if (Nat.eqb (length s) 0 || Nat.eqb (length t) 0)%bool then None else Some (Qnat (length s) / Qnat (length t))%Q.

(* get_status_rates: the four StatusRate objects, (TP, FP, TN, FN) order, each over the SAME total list *)
Definition status_rates_of (g : Analyzer.GtStatus) : status_rate * status_rate * status_rate * status_rate :=
  ((SKnown Analyzer.TP, Analyzer.g_tp g, Analyzer.g_total g), (SKnown Analyzer.FP, Analyzer.g_fp g, Analyzer.g_total g),
   (SKnown Analyzer.TN, Analyzer.g_tn g, Analyzer.g_total g), (SKnown Analyzer.FN, Analyzer.g_fn g, Analyzer.g_total g)).

(* get_scene_rates: sums of the list lengths over all records; four inf when the total is 0, else the four quotients (0 / n is 0.0) *)
Definition frames_of (proj : Analyzer.GtStatus -> list nat) (l : list Analyzer.GtStatus) : nat :=
  list_sum (map (fun g => length (proj g)) l).
Definition scene_rates (l : list Analyzer.GtStatus) : option Q * option Q * option Q * option Q :=
  let tot := frames_of Analyzer.g_total l in
  if Nat.eqb tot 0 then (None, None, None, None)
  else (Some (Qnat (frames_of Analyzer.g_tp l) / Qnat tot)%Q, Some (Qnat (frames_of Analyzer.g_fp l) / Qnat tot)%Q,
        Some (Qnat (frames_of Analyzer.g_tn l) / Qnat tot)%Q, Some (Qnat (frames_of Analyzer.g_fn l) / Qnat tot)%Q).

(* ---- the loop rule: a `for` whose body adds one projection to each of five counters is the five sums, from ANY start ------------ *)
Lemma loop_sum5 (A : Type) (step : nat * nat * nat * nat * nat -> A -> nat * nat * nat * nat * nat) (p1 p2 p3 p4 p5 : A -> nat) :
  (forall a b c d e g, step (a, b, c, d, e) g = (a + p1 g, b + p2 g, c + p3 g, d + p4 g, e + p5 g)%nat) ->
  forall l a b c d e,
    fold_left step l (a, b, c, d, e)
    = (a + list_sum (map p1 l), b + list_sum (map p2 l), c + list_sum (map p3 l), d + list_sum (map p4 l), e + list_sum (map p5 l))%nat.
Proof.
  intros H l. induction l as [|x l IH]; intros a b c d e; simpl.
  - rewrite !Nat.add_0_r. reflexivity.
  - rewrite H, IH, !Nat.add_assoc. reflexivity.
Qed.

(* one division whose guard has been decided *)
Lemma fdiv_nat_nz a b : Nat.eqb b 0 = false -> fdiv_nat a b = Ok (Some (Qnat a / Qnat b)%Q).
Proof. intros H. unfold fdiv_nat. rewrite H. reflexivity. Qed.

(* ---- tool/utils.py get_area_idx: the numpy bool-array vocabulary against the model's list of areas -------------------------------- *)
(* the model's three results as a Python result: None, the index, or the ValueError of `.item()` on more than one element *)
Definition of_area_res (r : Analyzer.area_res) : res (option nat) :=
  match r with Analyzer.ANone => Ok None | Analyzer.AOne k => Ok (Some k) | Analyzer.AMany => Err ValueError end.

Lemma bzip_map {A} (op : bool -> bool -> bool) (f g : A -> bool) (l : list A) :
  bzip op (map f l) (map g l) = Ok (map (fun a => op (f a) (g a)) l).
Proof.
  unfold bzip. rewrite !map_length, Nat.eqb_refl. f_equal.
  induction l as [|a l IH]; simpl; [reflexivity|]. rewrite IH. reflexivity.
Qed.
Lemma bmul_map {A} (f g : A -> bool) (l : list A) : bmul (map f l) (map g l) = Ok (map (fun a => f a && g a) l).
Proof. apply bzip_map. Qed.
Lemma badd_map {A} (f g : A -> bool) (l : list A) : badd (map f l) (map g l) = Ok (map (fun a => f a || g a) l).
Proof. apply bzip_map. Qed.

Lemma bzip_mismatch op (a b : list bool) :
  length a <> length b -> length a <> 1%nat -> length b <> 1%nat -> bzip op a b = Err ValueError.
Proof.
  intros H Ha Hb. unfold bzip. destruct (Nat.eqb_spec (length a) (length b)) as [E|_]; [contradiction|].
  destruct a as [|u [|u' a]]; destruct b as [|v [|v' b]]; simpl in *; try reflexivity; contradiction.
Qed.

Lemma where_true_inside x y (areas : list Analyzer.Area) : forall k,
  where_true k (map (Analyzer.inside x y) areas) = Analyzer.where_inside k areas x y.
Proof. induction areas as [|a t IH]; intros k; simpl; [reflexivity|]. rewrite IH. reflexivity. Qed.

Lemma any_where (v : list bool) : forall k,
  existsb (fun b => b) v = match where_true k v with [] => false | _ => true end.
Proof. induction v as [|b t IH]; intros k; simpl; [reflexivity|]. destruct b; simpl; [reflexivity|apply IH]. Qed.
