(* The arg-best scan of Model/Matching.v is exactly "first occurrence of the best non-NaN value in
   row-major order over the remaining rows x columns" -- what np.nanargmin / np.nanargmax followed by
   np.unravel_index compute on the (already reduced) table. *)
From Coq Require Import List Bool Arith Lia.
From PE Require Import Base.QUtil Model.Matching Proofs.MatchingProofs.
Import ListNotations.
Open Scope Q_scope.

(* the flattened table: cells in row-major order *)
Definition cells (es gs : list nat) : list (nat * nat) :=
  flat_map (fun e => map (fun g => (e, g)) gs) es.

Lemma in_cells es gs e g : In (e, g) (cells es gs) <-> In e es /\ In g gs.
Proof.
  unfold cells. rewrite in_flat_map. split.
  - intros (x & Hx & H). apply in_map_iff in H. destruct H as (y & E & Hy). inversion E; subst. auto.
  - intros [He Hg]. exists e. split; [exact He|]. apply in_map_iff. eauto.
Qed.

Lemma better_trans mx a b c : better mx a b = true -> better mx b c = true -> better mx a c = true.
Proof. rewrite !better_true_iff. destruct mx; lra. Qed.

Lemma better_as_good_trans mx a b c : better mx a b = true -> as_good mx b c -> better mx a c = true.
Proof. rewrite !better_true_iff. unfold as_good. destruct mx; lra. Qed.

Section First.
Variable mx : bool.
Variable key : nat -> nat -> option Q.

Definition step (b : option cand) (c : nat * nat) : option cand := upd mx key b (fst c) (snd c).

Lemma scan_row_fold e gs : forall b,
  scan_row mx key e gs b = fold_left step (map (fun g => (e, g)) gs) b.
Proof. induction gs as [|g t IH]; intros b; cbn [scan_row map fold_left]; [reflexivity|]. apply IH. Qed.

Lemma scan_fold es gs : forall b, scan mx key es gs b = fold_left step (cells es gs) b.
Proof.
  induction es as [|e t IH]; intros b; cbn [scan cells flat_map fold_left]; [reflexivity|].
  rewrite fold_left_app, <- scan_row_fold. apply IH.
Qed.

(* result r of folding the cells l into the running best b *)
Definition first_best (l : list (nat * nat)) (b r : option cand) : Prop :=
  match r with
  | None => b = None /\ forall e g, In (e, g) l -> key e g = None
  | Some (s, e0, g0) =>
      (b = r /\ forall e g s', In (e, g) l -> key e g = Some s' -> as_good mx s s')
      \/ (exists l1 l2,
            l = l1 ++ (e0, g0) :: l2 /\ key e0 g0 = Some s /\
            (forall e g s', In (e, g) l1 -> key e g = Some s' -> better mx s s' = true) /\
            (forall sb eb gb, b = Some (sb, eb, gb) -> better mx s sb = true) /\
            (forall e g s', In (e, g) l2 -> key e g = Some s' -> as_good mx s s'))
  end.

Lemma upd_none b e g : upd mx key b e g = None -> b = None /\ key e g = None.
Proof.
  unfold upd. destruct (key e g) as [s|]; [|auto].
  destruct b as [[[sb eb] gb]|]; [|discriminate]. destruct (better mx s sb); discriminate.
Qed.

Lemma fold_first_best : forall l b, first_best l b (fold_left step l b).
Proof.
  induction l as [|[e g] t IH]; intros b; cbn [fold_left].
  - destruct b as [[[s e0] g0]|]; unfold first_best.
    + left. split; [reflexivity|]. intros e g s' [].
    + split; [reflexivity|]. intros e g [].
  - specialize (IH (step b (e, g))).
    change (step b (e, g)) with (upd mx key b e g) in *.
    remember (fold_left step t (upd mx key b e g)) as r eqn:Er. clear Er.
    destruct r as [[[s e0] g0]|]; unfold first_best in IH |- *.
    + destruct IH as [[Eb Ht]|(l1 & l2 & El & K0 & S1 & Sb & S2)].
      * (* the best after this cell is still the best at the end *)
        unfold upd in Eb. destruct (key e g) as [sk|] eqn:K.
        -- destruct b as [[[sb eb] gb]|].
           ++ destruct (better mx sk sb) eqn:B.
              ** inversion Eb; subst. right. exists [], t.
                 refine (conj eq_refl (conj K (conj _ (conj _ Ht)))).
                 --- intros e' g' s' [].
                 --- intros sb' eb' gb' E'. inversion E'; subst. exact B.
              ** inversion Eb; subst. left. split; [reflexivity|].
                 intros e' g' s' [H|H] K'; [|eauto]. inversion H; subst. rewrite K in K'. inversion K'; subst.
                 now apply better_false_iff.
           ++ inversion Eb; subst. right. exists [], t.
              refine (conj eq_refl (conj K (conj _ (conj _ Ht)))).
              ** intros e' g' s' [].
              ** intros sb' eb' gb' E'. discriminate.
        -- left. split; [exact Eb|]. intros e' g' s' [H|H] K'; [|eauto].
           inversion H; subst. rewrite K in K'. discriminate.
      * (* the final best is adopted later, inside t *)
        right. exists ((e, g) :: l1), l2.
        assert (El' : (e, g) :: t = ((e, g) :: l1) ++ (e0, g0) :: l2) by (cbn; now rewrite El).
        unfold upd in Sb. destruct (key e g) as [sk|] eqn:K.
        -- destruct b as [[[sb eb] gb]|].
           ++ destruct (better mx sk sb) eqn:B.
              ** pose proof (Sb _ _ _ eq_refl) as Bk.
                 refine (conj El' (conj K0 (conj _ (conj _ S2)))).
                 --- intros e' g' s' [H|H] K'; [|eauto]. inversion H; subst. rewrite K in K'. inversion K'; subst. exact Bk.
                 --- intros sb' eb' gb' E'. inversion E'; subst. eapply better_trans; eauto.
              ** pose proof (Sb _ _ _ eq_refl) as Bb. apply better_false_iff in B.
                 refine (conj El' (conj K0 (conj _ (conj _ S2)))).
                 --- intros e' g' s' [H|H] K'; [|eauto]. inversion H; subst. rewrite K in K'. inversion K'; subst.
                     eapply better_as_good_trans; eauto.
                 --- intros sb' eb' gb' E'. inversion E'; subst. exact Bb.
           ++ pose proof (Sb _ _ _ eq_refl) as Bk.
              refine (conj El' (conj K0 (conj _ (conj _ S2)))).
              ** intros e' g' s' [H|H] K'; [|eauto]. inversion H; subst. rewrite K in K'. inversion K'; subst. exact Bk.
              ** intros sb' eb' gb' E'. discriminate.
        -- refine (conj El' (conj K0 (conj _ (conj Sb S2)))).
           intros e' g' s' [H|H] K'; [|eauto]. inversion H; subst. rewrite K in K'. discriminate.
    + destruct IH as [Eb Ht]. apply upd_none in Eb. destruct Eb as [-> K]. split; [reflexivity|].
      intros e' g' [H|H]; [inversion H; subst; exact K|auto].
Qed.

(* np.nanargmin / np.nanargmax: first occurrence of the best non-NaN value of the flattened table *)
Lemma argbest_first_best es gs e0 g0 :
  argbest mx key es gs = Some (e0, g0) ->
  exists l1 l2 s,
    cells es gs = l1 ++ (e0, g0) :: l2 /\ key e0 g0 = Some s /\
    (forall e g s', In (e, g) l1 -> key e g = Some s' -> better mx s s' = true) /\
    (forall e g s', In (e, g) l2 -> key e g = Some s' -> as_good mx s s').
Proof.
  unfold argbest. rewrite scan_fold. pose proof (fold_first_best (cells es gs) None) as H.
  destruct (fold_left step (cells es gs) None) as [[[s e1] g1]|]; [|discriminate].
  intros E. inversion E; subst. cbn in H.
  destruct H as [[Eb _]|(l1 & l2 & El & K0 & S1 & _ & S2)]; [discriminate|].
  exists l1, l2, s. auto.
Qed.

End First.
