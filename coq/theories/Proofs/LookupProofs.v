(* Proofs about Model/Lookup.v (C17): nearest-frame lookup within tolerance, neighbour search of the
   interpolated lookup, tolerance gating, linear interpolation, uuid pairing. *)
From Coq Require Import List Bool ZArith QArith Qround String Lia Lqa Sorted.
From PE Require Import Base.QUtil Model.Lookup.
Import ListNotations.
Open Scope Z_scope.

Lemma Zgtb_ge a b : (a >? b) = false <-> a <= b.
Proof. rewrite Z.gtb_ltb, Z.ltb_ge. reflexivity. Qed.

(* ---------------------------------------------------------------- get_now_frame *)
Definition first_nearest (l : list frame) (t : Z) (i : nat) (f : frame) : Prop :=
  nth_error l i = Some f /\
  (forall j g, nth_error l j = Some g -> dist t f <= dist t g) /\
  (forall j g, (j < i)%nat -> nth_error l j = Some g -> dist t f < dist t g).

Lemma now_scan_spec : forall t r i best m b' m',
  now_scan t r i best m = (b', m') ->
  (b' = best /\ m' = m /\ forall k g, nth_error r k = Some g -> m <= dist t g)
  \/ (exists k g, b' = (i + k)%nat /\ nth_error r k = Some g /\ m' = dist t g /\ m' < m /\
        (forall k' g', nth_error r k' = Some g' -> m' <= dist t g') /\
        (forall k' g', (k' < k)%nat -> nth_error r k' = Some g' -> m' < dist t g')).
Proof.
  intros t r. induction r as [|f r IH]; intros i best m b' m' H; cbn [now_scan] in H.
  - inversion H; subst. left. split; [reflexivity|]. split; [reflexivity|]. intros k g Hk. destruct k; discriminate.
  - cbv zeta in H. destruct (dist t f <? m) eqn:E.
    + apply Z.ltb_lt in E. apply IH in H. destruct H as [(Hb & Hm & Hall) | (k & g & Hb & Hk & Hm & Hlt & Hall & Hfirst)].
      * right. exists 0%nat, f. subst.
        split; [lia|]. split; [reflexivity|]. split; [reflexivity|]. split; [exact E|]. split.
        -- intros k' g' Hk'. destruct k'; cbn in Hk'; [inversion Hk'; subst; lia|eauto].
        -- intros k' g' Hlt'. lia.
      * right. exists (S k), g. subst b'.
        split; [lia|]. split; [exact Hk|]. split; [exact Hm|]. split; [lia|]. split.
        -- intros k' g' Hk'. destruct k'; cbn in Hk'; [inversion Hk'; subst; lia|eauto].
        -- intros k' g' Hlt' Hk'. destruct k'; cbn in Hk'; [inversion Hk'; subst; lia|]. apply (Hfirst k'); auto; lia.
    + apply Z.ltb_ge in E. apply IH in H. destruct H as [(Hb & Hm & Hall) | (k & g & Hb & Hk & Hm & Hlt & Hall & Hfirst)].
      * left. split; [exact Hb|]. split; [exact Hm|]. intros k g Hk. destruct k; cbn in Hk; [inversion Hk; subst; lia|eauto].
      * right. exists (S k), g. subst b'.
        split; [lia|]. split; [exact Hk|]. split; [exact Hm|]. split; [lia|]. split.
        -- intros k' g' Hk'. destruct k'; cbn in Hk'; [inversion Hk'; subst; lia|eauto].
        -- intros k' g' Hlt' Hk'. destruct k'; cbn in Hk'; [inversion Hk'; subst; lia|]. apply (Hfirst k'); auto; lia.
Qed.

Lemma first_nearest_unique l t i f i' f' :
  first_nearest l t i f -> first_nearest l t i' f' -> i = i' /\ f = f'.
Proof.
  intros (H1 & H2 & H3) (H1' & H2' & H3').
  assert (i = i').
  { destruct (Nat.lt_trichotomy i i') as [L|[L|L]]; auto.
    - specialize (H3' _ _ L H1). specialize (H2 _ _ H1'). lia.
    - specialize (H3 _ _ L H1'). specialize (H2' _ _ H1). lia. }
  subst. split; auto. congruence.
Qed.

Lemma now_frame_nearest : forall l t tol, t <= max_unix_time -> l <> [] ->
  exists i f, first_nearest l t i f /\
    get_now_frame l t tol = if dist t f <=? tol then RFrame i else RNone.
Proof.
  intros l t tol Ht Hl. unfold get_now_frame.
  destruct (t >? max_unix_time) eqn:E; [apply Z.gtb_lt in E; lia|].
  destruct l as [|f0 r]; [congruence|].
  destruct (now_scan t (f0 :: r) 0 0 (dist t f0)) as [b m] eqn:S.
  apply now_scan_spec in S.
  destruct S as [(Hb & Hm & Hall) | (k & g & Hb & Hk & Hm & Hlt & Hall & Hfirst)].
  - exists 0%nat, f0. subst. split.
    + split; [reflexivity|]. split; [exact Hall|]. intros j g Hj; lia.
    + destruct (dist t f0 >? tol) eqn:G, (dist t f0 <=? tol) eqn:G'; auto;
        [apply Z.gtb_lt in G; apply Z.leb_le in G'; lia | apply Zgtb_ge in G; apply Z.leb_gt in G'; lia].
  - exists k, g. subst. split.
    + split; [exact Hk|]. split; [exact Hall|exact Hfirst].
    + cbn [Nat.add]. destruct (dist t g >? tol) eqn:G, (dist t g <=? tol) eqn:G'; auto;
        [apply Z.gtb_lt in G; apply Z.leb_le in G'; lia | apply Zgtb_ge in G; apply Z.leb_gt in G'; lia].
Qed.


Lemma now_frame_nanosecond l t tol : t > max_unix_time -> get_now_frame l t tol = RError ErrNanosecond.
Proof. intros H. unfold get_now_frame. destruct (t >? max_unix_time) eqn:E; auto. apply Zgtb_ge in E. lia. Qed.

Lemma now_frame_empty t tol : t <= max_unix_time -> get_now_frame [] t tol = RError ErrEmpty.
Proof. intros H. unfold get_now_frame. destruct (t >? max_unix_time) eqn:E; auto. apply Z.gtb_lt in E. lia. Qed.

(* ---------------------------------------------------------------- get_interpolated_now_frame: neighbours *)
Definition ascending (l : list frame) : Prop := StronglySorted (fun a b => f_stamp a <= f_stamp b) l.
Definition strictly_increasing (l : list frame) : Prop := StronglySorted (fun a b => f_stamp a < f_stamp b) l.

Lemma strictly_increasing_ascending l : strictly_increasing l -> ascending l.
Proof.
  induction 1; constructor; auto.
  eapply Forall_impl; [|eassumption]. cbv beta. intros; lia.
Qed.

Definition is_before (l : list frame) (t : Z) (i : nat) (f : frame) : Prop :=
  nth_error l i = Some f /\ f_stamp f <= t /\
  forall j g, nth_error l j = Some g -> f_stamp g <= t -> (j <= i)%nat.
Definition is_after (l : list frame) (t : Z) (j : nat) (f : frame) : Prop :=
  nth_error l j = Some f /\ t < f_stamp f /\
  forall k g, nth_error l k = Some g -> t < f_stamp g -> (j <= k)%nat.
Definition before_spec (l : list frame) (t : Z) (o : option (nat * frame)) : Prop :=
  match o with
  | Some (i, f) => is_before l t i f
  | None => forall j g, nth_error l j = Some g -> t < f_stamp g
  end.
Definition after_spec (l : list frame) (t : Z) (o : option (nat * frame)) : Prop :=
  match o with
  | Some (j, f) => is_after l t j f
  | None => forall j g, nth_error l j = Some g -> f_stamp g <= t
  end.

Lemma before_spec_unique l t o o' : before_spec l t o -> before_spec l t o' -> o = o'.
Proof.
  destruct o as [[i f]|], o' as [[i' f']|]; cbn; auto.
  - intros (H1 & H2 & H3) (H1' & H2' & H3').
    assert (i = i') by (specialize (H3 _ _ H1' H2'); specialize (H3' _ _ H1 H2); lia).
    subst. congruence.
  - intros (H1 & H2 & _) H. specialize (H _ _ H1). lia.
  - intros H (H1 & H2 & _). specialize (H _ _ H1). lia.
Qed.

Lemma after_spec_unique l t o o' : after_spec l t o -> after_spec l t o' -> o = o'.
Proof.
  destruct o as [[i f]|], o' as [[i' f']|]; cbn; auto.
  - intros (H1 & H2 & H3) (H1' & H2' & H3').
    assert (i = i') by (specialize (H3 _ _ H1' H2'); specialize (H3' _ _ H1 H2); lia).
    subst. congruence.
  - intros (H1 & H2 & _) H. specialize (H _ _ H1). lia.
  - intros H (H1 & H2 & _). specialize (H _ _ H1). lia.
Qed.

Lemma Zgeb_lt a b : (a >=? b) = false <-> a < b.
Proof. rewrite Z.geb_leb, Z.leb_gt. reflexivity. Qed.

Lemma nb_scan_sorted t : forall r i b b' a', ascending r -> nb_scan t r i b = (b', a') ->
  ((b' = b /\ forall k g, nth_error r k = Some g -> t < f_stamp g)
   \/ exists k f, b' = Some ((i + k)%nat, f, t - f_stamp f) /\ nth_error r k = Some f /\ f_stamp f <= t /\
        forall k' g, nth_error r k' = Some g -> f_stamp g <= t -> (k' <= k)%nat)
  /\ match a' with
     | Some (j, f, d) => exists k, j = (i + k)%nat /\ nth_error r k = Some f /\ t < f_stamp f /\ d = f_stamp f - t /\
                           forall k' g, nth_error r k' = Some g -> t < f_stamp g -> (k <= k')%nat
     | None => forall k g, nth_error r k = Some g -> f_stamp g <= t
     end.
Proof.
  induction r as [|f r IH]; intros i b b' a' Hs H; cbn [nb_scan] in H.
  - inversion H; subst. split.
    + left. split; auto. intros k g Hk. destruct k; discriminate.
    + intros k g Hk. destruct k; discriminate.
  - cbv zeta in H. inversion Hs as [|? ? Hs' Hall]; subst.
    destruct (t - f_stamp f >=? 0) eqn:E.
    + apply Z.geb_le in E. apply IH in H; auto. destruct H as [Hb Ha]. split.
      * right. destruct Hb as [(Hb & Hlater) | (k & f' & Hb & Hk & Hle & Hlast)].
        -- exists 0%nat, f. subst b'. split; [rewrite Nat.add_0_r; reflexivity|]. split; [reflexivity|]. split; [lia|].
           intros k' g Hk' Hg. destruct k'; [lia|]. cbn in Hk'. specialize (Hlater _ _ Hk'). lia.
        -- exists (S k), f'. subst b'. split; [replace (i + S k)%nat with (S i + k)%nat by lia; reflexivity|]. split; [exact Hk|]. split; [exact Hle|].
           intros k' g Hk' Hg. destruct k'; [lia|]. cbn in Hk'. specialize (Hlast _ _ Hk' Hg). lia.
      * destruct a' as [[[j fa] d]|].
        -- destruct Ha as (k & Hj & Hk & Hlt & Hd & Hfirst). exists (S k).
           split; [lia|]. split; [exact Hk|]. split; [exact Hlt|]. split; [exact Hd|].
           intros k' g Hk' Hg. destruct k'; cbn in Hk'; [inversion Hk'; subst; lia|].
           specialize (Hfirst _ _ Hk' Hg). lia.
        -- intros k g Hk. destruct k; cbn in Hk; [inversion Hk; subst; lia|eauto].
    + apply Zgeb_lt in E. inversion H; subst. split.
      * left. split; auto. intros k g Hk. destruct k; cbn in Hk; [inversion Hk; subst; lia|].
        apply nth_error_In in Hk. rewrite Forall_forall in Hall. specialize (Hall _ Hk). cbv beta in Hall. lia.
      * exists 0%nat. split; [lia|]. split; [reflexivity|]. split; [lia|]. split; [lia|]. intros; lia.
Qed.

(* the part that holds for ANY list: the after frame is the first later frame *)
Lemma nb_scan_after_any t : forall r i b b' a', nb_scan t r i b = (b', a') ->
  match a' with
  | Some (j, f, d) => exists k, j = (i + k)%nat /\ nth_error r k = Some f /\ t < f_stamp f /\ d = f_stamp f - t /\
                        forall k' g, nth_error r k' = Some g -> t < f_stamp g -> (k <= k')%nat
  | None => forall k g, nth_error r k = Some g -> f_stamp g <= t
  end.
Proof.
  induction r as [|f r IH]; intros i b b' a' H; cbn [nb_scan] in H.
  - inversion H; subst. intros k g Hk. destruct k; discriminate.
  - cbv zeta in H. destruct (t - f_stamp f >=? 0) eqn:E.
    + apply Z.geb_le in E. apply IH in H. destruct a' as [[[j fa] d]|].
      * destruct H as (k & Hj & Hk & Hlt & Hd & Hfirst). exists (S k).
        split; [lia|]. split; [exact Hk|]. split; [exact Hlt|]. split; [exact Hd|].
        intros k' g Hk' Hg. destruct k'; cbn in Hk'; [inversion Hk'; subst; lia|].
        specialize (Hfirst _ _ Hk' Hg). lia.
      * intros k g Hk. destruct k; cbn in Hk; [inversion Hk; subst; lia|eauto].
    + apply Zgeb_lt in E. inversion H; subst.
      exists 0%nat. split; [lia|]. split; [reflexivity|]. split; [lia|]. split; [lia|]. intros; lia.
Qed.

Definition strip (n : option nb) : option (nat * frame) :=
  match n with Some (i, f, _) => Some (i, f) | None => None end.

Lemma neighbours_spec : forall l t b a, ascending l -> nb_scan t l 0 None = (b, a) ->
  before_spec l t (strip b) /\ after_spec l t (strip a) /\
  (forall i f d, b = Some (i, f, d) -> d = t - f_stamp f) /\
  (forall j f d, a = Some (j, f, d) -> d = f_stamp f - t).
Proof.
  intros l t b a Hs H. apply nb_scan_sorted in H; auto. destruct H as [Hb Ha].
  split; [|split; [|split]].
  - destruct Hb as [(Hb & Hlater) | (k & f & Hb & Hk & Hle & Hlast)]; subst b; cbn; auto.
    repeat split; auto.
  - destruct a as [[[j f] d]|]; cbn; auto.
    destruct Ha as (k & Hj & Hk & Hlt & Hd & Hfirst). cbn in Hj. subst j. repeat split; auto.
  - intros i f d Hbe. destruct Hb as [(Hb & _) | (k & f' & Hb & _)]; rewrite Hb in Hbe;
      [discriminate | inversion Hbe; subst; reflexivity].
  - intros j f d Hae. subst a. destruct Ha as (k & Hj & Hk & Hlt & Hd & Hfirst). auto.
Qed.

(* a neighbour is usable when its time difference does not exceed the tolerance *)
Definition within (tol t : Z) (o : option (nat * frame)) : option (nat * frame) :=
  match o with
  | Some (i, f) => if dist t f <=? tol then Some (i, f) else None
  | None => None
  end.

Definition four_way_spec (b a : option (nat * frame)) (t : Z) : result :=
  match b, a with
  | Some (i, fb), Some (j, fa) => interpolate_frames i j fb fa t
  | Some (i, _), None => RFrame i
  | None, Some (j, _) => RFrame j
  | None, None => RNone
  end.


Lemma gate_within tol t n :
  (forall i f d, n = Some (i, f, d) -> d = dist t f) ->
  strip (gate tol n) = within tol t (strip n).
Proof.
  destruct n as [[[i f] d]|]; cbn; auto. intros H. specialize (H _ _ _ eq_refl). subst d.
  destruct (dist t f >? tol) eqn:G, (dist t f <=? tol) eqn:G'; cbn; auto.
  - apply Z.gtb_lt in G. apply Z.leb_le in G'. lia.
  - apply Zgtb_ge in G. apply Z.leb_gt in G'. lia.
Qed.

Lemma four_way_strip b a t : four_way b a t = four_way_spec (strip b) (strip a) t.
Proof. destruct b as [[[i f] d]|], a as [[[j g] e]|]; reflexivity. Qed.

Lemma interp_gating : forall l t tol ob oa, ascending l ->
  before_spec l t ob -> after_spec l t oa ->
  get_interpolated_now_frame l t tol = four_way_spec (within tol t ob) (within tol t oa) t.
Proof.
  intros l t tol ob oa Hs Hob Hoa. unfold get_interpolated_now_frame.
  destruct (nb_scan t l 0 None) as [b a] eqn:S.
  destruct (neighbours_spec _ _ _ _ Hs S) as (Hb & Ha & Hdb & Hda).
  rewrite four_way_strip.
  rewrite (gate_within tol t b), (gate_within tol t a).
  - rewrite (before_spec_unique _ _ _ _ Hob Hb), (after_spec_unique _ _ _ _ Hoa Ha). reflexivity.
  - intros j f d E. rewrite (Hda _ _ _ E). subst a. cbn in Ha. destruct Ha as (_ & Hlt & _). unfold dist. lia.
  - intros i f d E. rewrite (Hdb _ _ _ E). subst b. cbn in Hb. destruct Hb as (_ & Hle & _). unfold dist. lia.
Qed.

Lemma neighbours_exist l t : ascending l -> exists ob oa, before_spec l t ob /\ after_spec l t oa.
Proof.
  intros Hs. destruct (nb_scan t l 0 None) as [b a] eqn:S.
  destruct (neighbours_spec _ _ _ _ Hs S) as (Hb & Ha & _). eauto.
Qed.

(* ---------------------------------------------------------------- arithmetic of the interpolation *)
Definition vec_eq (a b : vec3) : Prop := (vx a == vx b /\ vy a == vy b /\ vz a == vz b)%Q.
(* the point (1-a) p + a q of the segment [p, q] *)
Definition vcomb (a : Q) (p q : vec3) : vec3 :=
  mkVec ((1 - a) * vx p + a * vx q)%Q ((1 - a) * vy p + a * vy q)%Q ((1 - a) * vz p + a * vz q)%Q.

Lemma inject_pos z : 0 < z -> (0 < inject_Z z)%Q.
Proof. intros H. change 0%Q with (inject_Z 0). rewrite <- Zlt_Qlt. exact H. Qed.

Lemma alpha_range t1 t2 t : t1 <= t < t2 -> (0 <= alpha t1 t2 t /\ alpha t1 t2 t < 1)%Q.
Proof.
  intros [H1 H2]. unfold alpha.
  assert (Hd : (0 < inject_Z (t2 - t1))%Q) by (apply inject_pos; lia).
  assert (Hn : (0 <= inject_Z (t - t1))%Q) by (change 0%Q with (inject_Z 0); rewrite <- Zle_Qle; lia).
  assert (Hlt : (inject_Z (t - t1) < inject_Z (t2 - t1))%Q) by (rewrite <- Zlt_Qlt; lia).
  split.
  - apply Qle_shift_div_l; [exact Hd|]. lra.
  - apply Qlt_shift_div_r; [exact Hd|]. lra.
Qed.

Lemma alpha_zero t1 t2 : (alpha t1 t2 t1 == 0)%Q.
Proof. unfold alpha. rewrite Z.sub_diag. unfold Qdiv. change (inject_Z 0) with 0%Q. ring. Qed.

Lemma lerp_convex t1 t2 t a b : t1 < t2 ->
  (lerp t1 t2 t a b == (1 - alpha t1 t2 t) * a + alpha t1 t2 t * b)%Q.
Proof.
  intros H. unfold lerp, alpha.
  assert (Hd : (0 < inject_Z (t2 - t1))%Q) by (apply inject_pos; lia).
  field. lra.
Qed.

Lemma lerp_start t1 t2 a b : (lerp t1 t2 t1 a b == a)%Q.
Proof. unfold lerp. rewrite Z.sub_diag. unfold Qdiv. change (inject_Z 0) with 0%Q. ring. Qed.

Lemma vlerp_convex t1 t2 t p q : t1 < t2 -> vec_eq (vlerp t1 t2 t p q) (vcomb (alpha t1 t2 t) p q).
Proof. intros H. unfold vec_eq, vlerp, vcomb; cbn [vx vy vz]. repeat split; apply lerp_convex; exact H. Qed.

Lemma vlerp_start t1 t2 p q : vec_eq (vlerp t1 t2 t1 p q) p.
Proof. unfold vec_eq, vlerp; cbn [vx vy vz]. repeat split; apply lerp_start. Qed.

(* every point of the form (1-a) p + a q with 0 <= a <= 1 lies in the bounding box of p and q, and
   [p - x] is a times [p - q]: it is ON the segment *)
Lemma comb_between a p q : (0 <= a <= 1)%Q -> (p <= q)%Q -> (p <= (1 - a) * p + a * q <= q)%Q.
Proof. intros [H0 H1] Hpq. split; nra. Qed.

(* the shortest-arc representative *)
Lemma wrap1_range x : (-1 < wrap1 x /\ wrap1 x <= 1)%Q.
Proof.
  unfold wrap1. set (y := ((x - 1) / 2)%Q).
  pose proof (Qle_ceiling y) as H1. pose proof (Qceiling_lt y) as H2.
  unfold Z.sub in H2. rewrite inject_Z_plus in H2.
  assert (Hm : (inject_Z (- (1)) == -1)%Q) by reflexivity.
  set (m1 := inject_Z (- (1))) in *. clearbody m1.
  assert (Hy : (2 * y == x - 1)%Q) by (unfold y; field).
  set (c := inject_Z (Qceiling y)) in *. clearbody c. clearbody y. split; lra.
Qed.

Lemma wrap1_congruent x : exists k : Z, (wrap1 x == x - 2 * inject_Z k)%Q.
Proof. unfold wrap1. eexists. reflexivity. Qed.

Lemma yaw_interp_start t1 t2 u1 u2 : (yaw_interp t1 t2 t1 u1 u2 == u1)%Q.
Proof. unfold yaw_interp. rewrite alpha_zero. ring. Qed.

(* ---------------------------------------------------------------- object lists *)
Definition ids (l : list obj) : list string := map o_id l.

Lemma mem_id_In x l : mem_id x l = true <-> In x l.
Proof.
  induction l as [|y r IH]; cbn; [split; [discriminate|tauto]|].
  destruct (String.eqb x y) eqn:E.
  - apply String.eqb_eq in E. subst. tauto.
  - apply String.eqb_neq in E. rewrite IH. split; [tauto|]. intros [H|H]; [congruence|exact H].
Qed.

Lemma mem_id_false x l : mem_id x l = false <-> ~ In x l.
Proof. rewrite <- mem_id_In. destruct (mem_id x l); split; congruence. Qed.

Lemma mem_id_app x a b : mem_id x (a ++ b) = mem_id x a || mem_id x b.
Proof. induction a as [|y r IH]; cbn; auto. destruct (String.eqb x y); auto. Qed.

Lemma find_id_some id l o : find_id id l = Some o -> In o l /\ o_id o = id.
Proof.
  induction l as [|x r IH]; cbn; [discriminate|].
  destruct (String.eqb id (o_id x)) eqn:E.
  - intros H; inversion H; subst. apply String.eqb_eq in E. auto.
  - intros H. destruct (IH H). auto.
Qed.

Lemma find_id_none id l : find_id id l = None <-> ~ In id (ids l).
Proof.
  induction l as [|x r IH]; cbn; [tauto|].
  destruct (String.eqb id (o_id x)) eqn:E.
  - apply String.eqb_eq in E. split; [discriminate|]. intros H; exfalso; apply H; auto.
  - apply String.eqb_neq in E. rewrite IH. split; [intros H [G|G]; [congruence|tauto]|tauto].
Qed.

(* find_id returns the FIRST object with that uuid *)
Lemma find_id_first id l o : find_id id l = Some o ->
  exists k, nth_error l k = Some o /\ o_id o = id /\ forall k' o', (k' < k)%nat -> nth_error l k' = Some o' -> o_id o' <> id.
Proof.
  induction l as [|x r IH]; cbn; [discriminate|].
  destruct (String.eqb id (o_id x)) eqn:E.
  - intros H; inversion H; subst. apply String.eqb_eq in E. exists 0%nat. repeat split; auto. intros; lia.
  - intros H. destruct (IH H) as (k & Hk & Hid & Hf). exists (S k). repeat split; auto.
    intros k' o' Hlt Hk'. destruct k'; cbn in Hk'.
    + inversion Hk'; subst. apply String.eqb_neq in E. congruence.
    + apply (Hf k'); auto. lia.
Qed.

Definition paired (t1 t2 t : Z) (l2 : list obj) (o1 : obj) : obj :=
  match find_id (o_id o1) l2 with
  | Some o2 => interp_obj t1 t2 t o1 o2
  | None => o1
  end.

Lemma pass1_map t1 t2 t l1 l2 : pass1 t1 t2 t l1 l2 = map (paired t1 t2 t l2) l1.
Proof. induction l1 as [|o r IH]; cbn; [reflexivity|]. rewrite IH. reflexivity. Qed.

Lemma paired_id t1 t2 t l2 o : o_id (paired t1 t2 t l2 o) = o_id o.
Proof. unfold paired. destruct (find_id (o_id o) l2); reflexivity. Qed.

Lemma pass1_ids t1 t2 t l1 l2 : ids (pass1 t1 t2 t l1 l2) = ids l1.
Proof. rewrite pass1_map. unfold ids. rewrite map_map. apply map_ext. intros; apply paired_id. Qed.

Lemma pass1_nth t1 t2 t l1 l2 k o1 : nth_error l1 k = Some o1 ->
  nth_error (interpolate_object_list t1 t2 t l1 l2) k = Some (paired t1 t2 t l2 o1).
Proof.
  intros H. unfold interpolate_object_list. rewrite pass1_map.
  rewrite nth_error_app1; [|rewrite map_length; apply nth_error_Some; congruence].
  apply map_nth_error. exact H.
Qed.

Lemma pass2_filter : forall l2 seen extra, NoDup (ids l2) ->
  (forall x, In x extra -> ~ In x (ids l2)) ->
  pass2 l2 (seen ++ extra) = filter (fun o => negb (mem_id (o_id o) seen)) l2.
Proof.
  induction l2 as [|o r IH]; intros seen extra Hnd Hex; cbn [pass2 filter]; [reflexivity|].
  cbn in Hnd. inversion Hnd as [|? ? Hnotin Hnd']; subst.
  rewrite mem_id_app.
  assert (Hx : mem_id (o_id o) extra = false).
  { apply mem_id_false. intros Hin. apply (Hex _ Hin). cbn. auto. }
  rewrite Hx, orb_false_r.
  destruct (mem_id (o_id o) seen) eqn:E; cbn [negb].
  - apply IH; auto. intros x Hin Hin'. apply (Hex _ Hin). cbn. auto.
  - f_equal. rewrite <- app_assoc. apply IH; auto.
    intros x Hin Hin'. apply in_app_or in Hin. destruct Hin as [Hin|[Hin|[]]].
    + apply (Hex _ Hin). cbn. auto.
    + subst x. exact (Hnotin Hin').
Qed.

Lemma pass2_unique_ids l2 seen : NoDup (ids l2) ->
  pass2 l2 seen = filter (fun o => negb (mem_id (o_id o) seen)) l2.
Proof.
  intros H. rewrite <- (app_nil_r seen) at 1. apply pass2_filter; [exact H | intros x []].
Qed.

Lemma map_filter_ids p l : ids (filter (fun o => p (o_id o)) l) = filter p (ids l).
Proof.
  unfold ids. induction l as [|o r IH]; cbn [filter map]; [reflexivity|].
  destruct (p (o_id o)); cbn [filter map]; rewrite IH; reflexivity.
Qed.

(* output order of the uuids: those of the before list, then the new ones of the after list *)
Lemma ids_union_order t1 t2 t l1 l2 : NoDup (ids l2) ->
  ids (interpolate_object_list t1 t2 t l1 l2)
  = ids l1 ++ filter (fun x => negb (mem_id x (ids l1))) (ids l2).
Proof.
  intros H. unfold interpolate_object_list, ids at 1. rewrite map_app. fold (ids (pass1 t1 t2 t l1 l2)).
  rewrite pass1_ids. f_equal. fold (ids (pass2 l2 (map o_id l1))).
  rewrite pass2_unique_ids by exact H.
  apply (map_filter_ids (fun x => negb (mem_id x (ids l1)))).
Qed.

(* for ANY two lists the output uuids are the union *)
Lemma pass2_ids_any : forall l2 seen x,
  (In x (ids (pass2 l2 seen)) \/ In x seen) <-> (In x (ids l2) \/ In x seen).
Proof.
  induction l2 as [|o r IH]; intros seen x; cbn [pass2 ids map]; [tauto|].
  destruct (mem_id (o_id o) seen) eqn:E.
  - apply mem_id_In in E. fold (ids r). rewrite (IH seen x). cbn [In]. split; [intros [H|H]; auto|].
    intros [[H|H]|H]; auto. subst. auto.
  - cbn [map In]. fold (ids (pass2 r (seen ++ [o_id o]))). fold (ids r).
    specialize (IH (seen ++ [o_id o]) x). rewrite in_app_iff in IH. cbn [In] in IH.
    set (A := In x (ids (pass2 r (seen ++ [o_id o])))) in *. set (B := In x (ids r)) in *.
    set (C := In x seen) in *. set (D := o_id o = x) in *. clearbody A B C D. clear E.
    destruct IH as [I1 I2]. split.
    + intros [[H|H]|H]; auto. destruct I1 as [G|[G|[G|[]]]]; auto.
    + intros [[H|H]|H]; auto. destruct I2 as [G|[G|[G|[]]]]; auto.
Qed.

Lemma ids_union_any t1 t2 t l1 l2 x :
  In x (ids (interpolate_object_list t1 t2 t l1 l2)) <-> In x (ids l1) \/ In x (ids l2).
Proof.
  unfold interpolate_object_list, ids at 1. rewrite map_app, in_app_iff.
  fold (ids (pass1 t1 t2 t l1 l2)). rewrite pass1_ids. fold (ids (pass2 l2 (map o_id l1))).
  pose proof (pass2_ids_any l2 (ids l1) x) as H. unfold ids in *. tauto.
Qed.

(* objects seen only in the after frame are appended unchanged *)
Lemma singleton_after_kept t1 t2 t l1 l2 o2 : NoDup (ids l2) ->
  In o2 l2 -> ~ In (o_id o2) (ids l1) -> In o2 (interpolate_object_list t1 t2 t l1 l2).
Proof.
  intros Hnd Hin Hnot. unfold interpolate_object_list. apply in_or_app. right.
  fold (ids l1). rewrite pass2_unique_ids by exact Hnd. apply filter_In. split; auto.
  apply negb_true_iff, mem_id_false. exact Hnot.
Qed.

(* objects seen only in the before frame stay where they are, unchanged *)
Lemma singleton_before_kept t1 t2 t l1 l2 k o1 :
  nth_error l1 k = Some o1 -> ~ In (o_id o1) (ids l2) ->
  nth_error (interpolate_object_list t1 t2 t l1 l2) k = Some o1.
Proof.
  intros Hk Hnot. rewrite (pass1_nth _ _ _ _ _ _ _ Hk). unfold paired.
  apply find_id_none in Hnot. rewrite Hnot. reflexivity.
Qed.

(* ---------------------------------------------------------------- conversion to the map frame *)
Lemma to_global_id e o g : to_global e o = Some g -> o_id g = o_id o /\ o_tag g = o_tag o /\ o_time g = o_time o /\ o_vel g = o_vel o /\ o_frame g = FMap.
Proof. unfold to_global. destruct (o_frame o) eqn:E; intros H; inversion H; subst; cbn; auto. Qed.

Lemma globals_nth e : forall l gl, globals e l = Some gl ->
  List.length gl = List.length l /\
  forall k o, nth_error l k = Some o -> exists g, to_global e o = Some g /\ nth_error gl k = Some g.
Proof.
  induction l as [|o r IH]; intros gl H; cbn [globals] in H.
  - inversion H; subst. split; auto. intros k o Hk. destruct k; discriminate.
  - destruct (to_global e o) as [g|] eqn:G; [|discriminate].
    destruct (globals e r) as [gr|] eqn:R; [|discriminate]. inversion H; subst.
    destruct (IH _ eq_refl) as [Hl Hn]. split; [cbn; lia|].
    intros k o' Hk. destruct k; cbn in Hk |- *.
    + inversion Hk; subst. eauto.
    + apply Hn; auto.
Qed.

Lemma globals_ids e : forall l gl, globals e l = Some gl -> ids gl = ids l.
Proof.
  induction l as [|o r IH]; intros gl H; cbn [globals] in H.
  - inversion H; reflexivity.
  - destruct (to_global e o) as [g|] eqn:G; [|discriminate].
    destruct (globals e r) as [gr|] eqn:R; [|discriminate]. inversion H; subst.
    unfold ids in *. cbn [map]. rewrite (IH _ eq_refl). f_equal. apply to_global_id in G. destruct G as [G _]. exact G.
Qed.

Lemma globals_find e id : forall l gl, globals e l = Some gl ->
  find_id id gl = match find_id id l with Some o => to_global e o | None => None end.
Proof.
  induction l as [|o r IH]; intros gl H; cbn [globals] in H.
  - inversion H; reflexivity.
  - destruct (to_global e o) as [g|] eqn:G; [|discriminate].
    destruct (globals e r) as [gr|] eqn:R; [|discriminate]. inversion H; subst.
    cbn [find_id]. assert (o_id g = o_id o) by (apply to_global_id in G; tauto). rewrite H0.
    destruct (String.eqb id (o_id o)); auto.
Qed.

Lemma globals_defined e l : (forall o, In o l -> o_frame o <> FOther) -> exists gl, globals e l = Some gl.
Proof.
  induction l as [|o r IH]; intros H; cbn [globals]; [eauto|].
  assert (Ho : o_frame o <> FOther) by (apply H; cbn; auto).
  destruct (IH (fun o' Hin => H o' (or_intror Hin))) as [gr Hr]. rewrite Hr.
  unfold to_global. destruct (o_frame o); try congruence; eauto.
Qed.

Lemma globals_error e l o : In o l -> o_frame o = FOther -> globals e l = None.
Proof.
  induction l as [|x r IH]; intros Hin Hf; [destruct Hin|]. cbn [globals].
  destruct Hin as [->|Hin].
  - unfold to_global. rewrite Hf. reflexivity.
  - rewrite (IH Hin Hf). destruct (to_global e x); reflexivity.
Qed.

(* ---------------------------------------------------------------- interpolate_ground_truth_frames *)
Definition well_formed (f : frame) : Prop :=
  f_ego f <> None /\ forall o, In o (f_objs f) -> o_frame o <> FOther.

Lemma interp_frames_inv i j fb fa t i' j' f : interpolate_frames i j fb fa t = RInterp i' j' f ->
  i' = i /\ j' = j /\ if_stamp f = t /\
  exists eb ea l1 l2, f_ego fb = Some eb /\ f_ego fa = Some ea /\
    globals eb (f_objs fb) = Some l1 /\ globals ea (f_objs fa) = Some l2 /\
    if_objs f = interpolate_object_list (f_stamp fb) (f_stamp fa) t l1 l2 /\
    if_ego f = interp_ego (f_stamp fb) (f_stamp fa) t eb ea.
Proof.
  unfold interpolate_frames. destruct (f_ego fb) as [eb|] eqn:Eb; [|destruct (f_ego fa); discriminate].
  destruct (f_ego fa) as [ea|] eqn:Ea; [|discriminate].
  destruct (globals eb (f_objs fb)) as [l1|] eqn:G1; [|discriminate].
  destruct (globals ea (f_objs fa)) as [l2|] eqn:G2; [|discriminate].
  intros H. inversion H; subst. cbn [if_stamp if_objs if_ego].
  split; [reflexivity|]. split; [reflexivity|]. split; [reflexivity|].
  exists eb, ea, l1, l2. repeat split; auto.
Qed.

Lemma interp_frames_defined i j fb fa t : well_formed fb -> well_formed fa ->
  exists f, interpolate_frames i j fb fa t = RInterp i j f.
Proof.
  intros [Heb Hob] [Hea Hoa]. unfold interpolate_frames.
  destruct (f_ego fb) as [eb|]; [|congruence]. destruct (f_ego fa) as [ea|]; [|congruence].
  destruct (globals_defined eb _ Hob) as [l1 H1]. destruct (globals_defined ea _ Hoa) as [l2 H2].
  rewrite H1, H2. eauto.
Qed.

Lemma interp_frames_no_transform i j fb fa t : f_ego fb = None \/ f_ego fa = None ->
  interpolate_frames i j fb fa t = RError ErrNoTransform.
Proof.
  unfold interpolate_frames. intros [H|H]; rewrite H; [reflexivity|]. destruct (f_ego fb); reflexivity.
Qed.

Lemma interp_frames_bad_frame_id i j fb fa t o : f_ego fb <> None -> f_ego fa <> None ->
  In o (f_objs fb) \/ In o (f_objs fa) -> o_frame o = FOther ->
  interpolate_frames i j fb fa t = RError ErrFrameId.
Proof.
  unfold interpolate_frames. intros Hb Ha Hin Hf.
  destruct (f_ego fb) as [eb|]; [|congruence]. destruct (f_ego fa) as [ea|]; [|congruence].
  destruct Hin as [Hin|Hin].
  - rewrite (globals_error eb _ _ Hin Hf). reflexivity.
  - rewrite (globals_error ea _ _ Hin Hf). destruct (globals eb (f_objs fb)); reflexivity.
Qed.

(* an object present in both neighbours: on the segment between its two map-frame positions, at the
   proportional time; velocity likewise; yaw on the shortest arc (spec); everything else copied from
   the before object; stamped with the query time *)
Lemma interp_on_segment : forall i j fb fa t f eb ea k o1 o2 g1 g2,
  f_stamp fb <= t < f_stamp fa ->
  interpolate_frames i j fb fa t = RInterp i j f ->
  f_ego fb = Some eb -> f_ego fa = Some ea ->
  nth_error (f_objs fb) k = Some o1 ->
  find_id (o_id o1) (f_objs fa) = Some o2 ->
  to_global eb o1 = Some g1 -> to_global ea o2 = Some g2 ->
  let a := alpha (f_stamp fb) (f_stamp fa) t in
  (0 <= a /\ a < 1)%Q /\
  exists o, nth_error (if_objs f) k = Some o /\
    o_id o = o_id o1 /\ o_tag o = o_tag o1 /\ o_time o = t /\ o_frame o = FMap /\
    vec_eq (o_pos o) (vcomb a (o_pos g1) (o_pos g2)) /\
    vec_eq (o_vel o) (vcomb a (o_vel o1) (o_vel o2)) /\
    (o_yaw o == o_yaw g1 + a * wrap1 (o_yaw g2 - o_yaw g1))%Q.
Proof.
  intros i j fb fa t f eb ea k o1 o2 g1 g2 Ht H Heb Hea Hk Hfind Hg1 Hg2 a.
  split; [apply alpha_range; exact Ht|].
  apply interp_frames_inv in H. destruct H as (_ & _ & _ & eb' & ea' & l1 & l2 & Heb' & Hea' & Hl1 & Hl2 & Hobjs & _).
  rewrite Heb in Heb'. inversion Heb'; subst eb'. rewrite Hea in Hea'. inversion Hea'; subst ea'.
  destruct (globals_nth _ _ _ Hl1) as [_ Hn1]. destruct (Hn1 _ _ Hk) as (g1' & Hg1' & Hk1).
  rewrite Hg1 in Hg1'. inversion Hg1'; subst g1'.
  destruct (to_global_id _ _ _ Hg1) as (Hid1 & Htag1 & Htime1 & Hvel1 & Hfr1).
  destruct (to_global_id _ _ _ Hg2) as (Hid2 & Htag2 & Htime2 & Hvel2 & Hfr2).
  assert (Hf2 : find_id (o_id g1) l2 = Some g2).
  { rewrite (globals_find ea _ _ _ Hl2), Hid1, Hfind. exact Hg2. }
  exists (interp_obj (f_stamp fb) (f_stamp fa) t g1 g2). split.
  - rewrite Hobjs, (pass1_nth _ _ _ _ _ _ _ Hk1). unfold paired. rewrite Hf2. reflexivity.
  - cbn [interp_obj o_id o_tag o_time o_frame o_pos o_vel o_yaw].
    assert (Hlt : f_stamp fb < f_stamp fa) by lia.
    split; [exact Hid1|]. split; [exact Htag1|]. split; [reflexivity|]. split; [exact Hfr1|].
    split; [apply vlerp_convex; exact Hlt|]. split; [|reflexivity].
    rewrite <- Hvel1, <- Hvel2. apply vlerp_convex; exact Hlt.
Qed.

(* at the before frame's own time stamp every one of its objects is reproduced (exact rational
   equality of map-frame position, velocity and yaw), in place *)
Lemma interp_reproduces_neighbour : forall i j fb fa f eb k o1 g1,
  interpolate_frames i j fb fa (f_stamp fb) = RInterp i j f ->
  f_ego fb = Some eb ->
  nth_error (f_objs fb) k = Some o1 -> to_global eb o1 = Some g1 ->
  exists o, nth_error (if_objs f) k = Some o /\
    o_id o = o_id o1 /\ o_tag o = o_tag o1 /\ o_frame o = FMap /\
    vec_eq (o_pos o) (o_pos g1) /\ vec_eq (o_vel o) (o_vel o1) /\ (o_yaw o == o_yaw g1)%Q /\
    vec_eq (eo_t (if_ego f)) (e_t eb) /\ (eo_yaw (if_ego f) == e_yaw eb)%Q.
Proof.
  intros i j fb fa f eb k o1 g1 H Heb Hk Hg1.
  apply interp_frames_inv in H. destruct H as (_ & _ & _ & eb' & ea & l1 & l2 & Heb' & Hea & Hl1 & Hl2 & Hobjs & Hego).
  rewrite Heb in Heb'. inversion Heb'; subst eb'.
  destruct (globals_nth _ _ _ Hl1) as [_ Hn1]. destruct (Hn1 _ _ Hk) as (g1' & Hg1' & Hk1).
  rewrite Hg1 in Hg1'. inversion Hg1'; subst g1'.
  destruct (to_global_id _ _ _ Hg1) as (Hid1 & Htag1 & Htime1 & Hvel1 & Hfr1).
  exists (paired (f_stamp fb) (f_stamp fa) (f_stamp fb) l2 g1). split.
  - rewrite Hobjs. apply pass1_nth. exact Hk1.
  - rewrite Hego. cbn [interp_ego eo_t eo_yaw]. unfold paired. destruct (find_id (o_id g1) l2) as [g2|].
    + cbn [interp_obj o_id o_tag o_time o_frame o_pos o_vel o_yaw].
      split; [exact Hid1|]. split; [exact Htag1|]. split; [exact Hfr1|].
      split; [apply vlerp_start|]. split; [rewrite <- Hvel1; apply vlerp_start|].
      split; [apply yaw_interp_start|]. split; [apply vlerp_start|apply yaw_interp_start].
    + split; [exact Hid1|]. split; [exact Htag1|]. split; [exact Hfr1|].
      split; [repeat split; reflexivity|]. split; [rewrite Hvel1; repeat split; reflexivity|].
      split; [reflexivity|]. split; [apply vlerp_start|apply yaw_interp_start].
Qed.

(* uuids of the interpolated frame: those of the before frame in order, then the new ones of the
   after frame in order (uuids unique inside the after frame) *)
Lemma frame_ids_union_order : forall i j fb fa t f,
  interpolate_frames i j fb fa t = RInterp i j f -> NoDup (ids (f_objs fa)) ->
  ids (if_objs f) = ids (f_objs fb) ++ filter (fun x => negb (mem_id x (ids (f_objs fb)))) (ids (f_objs fa)).
Proof.
  intros i j fb fa t f H Hnd. apply interp_frames_inv in H.
  destruct H as (_ & _ & _ & eb & ea & l1 & l2 & _ & _ & Hl1 & Hl2 & Hobjs & _).
  rewrite Hobjs, ids_union_order; rewrite (globals_ids _ _ _ Hl2); [|exact Hnd].
  rewrite (globals_ids _ _ _ Hl1). reflexivity.
Qed.

Lemma frame_ids_union_any : forall i j fb fa t f x,
  interpolate_frames i j fb fa t = RInterp i j f ->
  (In x (ids (if_objs f)) <-> In x (ids (f_objs fb)) \/ In x (ids (f_objs fa))).
Proof.
  intros i j fb fa t f x H. apply interp_frames_inv in H.
  destruct H as (_ & _ & _ & eb & ea & l1 & l2 & _ & _ & Hl1 & Hl2 & Hobjs & _).
  rewrite Hobjs, ids_union_any, (globals_ids _ _ _ Hl1), (globals_ids _ _ _ Hl2). reflexivity.
Qed.

(* objects present in only one neighbour are kept (as converted to the map frame, otherwise unchanged) *)
Lemma frame_singletons_kept : forall i j fb fa t f eb ea,
  interpolate_frames i j fb fa t = RInterp i j f ->
  f_ego fb = Some eb -> f_ego fa = Some ea ->
  (forall k o1 g1, nth_error (f_objs fb) k = Some o1 -> ~ In (o_id o1) (ids (f_objs fa)) ->
     to_global eb o1 = Some g1 -> nth_error (if_objs f) k = Some g1) /\
  (NoDup (ids (f_objs fa)) ->
   forall o2 g2, In o2 (f_objs fa) -> ~ In (o_id o2) (ids (f_objs fb)) ->
     to_global ea o2 = Some g2 -> In g2 (if_objs f)).
Proof.
  intros i j fb fa t f eb ea H Heb Hea. apply interp_frames_inv in H.
  destruct H as (_ & _ & _ & eb' & ea' & l1 & l2 & Heb' & Hea' & Hl1 & Hl2 & Hobjs & _).
  rewrite Heb in Heb'. inversion Heb'; subst eb'. rewrite Hea in Hea'. inversion Hea'; subst ea'.
  destruct (globals_nth _ _ _ Hl1) as [_ Hn1]. destruct (globals_nth _ _ _ Hl2) as [_ Hn2].
  split.
  - intros k o1 g1 Hk Hnot Hg1. destruct (Hn1 _ _ Hk) as (g1' & Hg1' & Hk1).
    rewrite Hg1 in Hg1'. inversion Hg1'; subst g1'.
    rewrite Hobjs. apply singleton_before_kept; auto.
    rewrite (globals_ids _ _ _ Hl2). destruct (to_global_id _ _ _ Hg1) as (Hid & _). rewrite Hid. exact Hnot.
  - intros Hnd o2 g2 Hin Hnot Hg2. apply In_nth_error in Hin. destruct Hin as [k Hk].
    destruct (Hn2 _ _ Hk) as (g2' & Hg2' & Hk2). rewrite Hg2 in Hg2'. inversion Hg2'; subst g2'.
    rewrite Hobjs. apply singleton_after_kept.
    + rewrite (globals_ids _ _ _ Hl2). exact Hnd.
    + eapply nth_error_In; eassumption.
    + rewrite (globals_ids _ _ _ Hl1). destruct (to_global_id _ _ _ Hg2) as (Hid & _). rewrite Hid. exact Hnot.
Qed.

(* ---------------------------------------------------------------- the pieces put together *)
Lemma interp_lookup_both_usable : forall l t tol i fb j fa,
  ascending l -> is_before l t i fb -> is_after l t j fa ->
  dist t fb <= tol -> dist t fa <= tol -> well_formed fb -> well_formed fa ->
  exists f, get_interpolated_now_frame l t tol = RInterp i j f /\ if_stamp f = t /\
            f_stamp fb <= t < f_stamp fa.
Proof.
  intros l t tol i fb j fa Hs Hb Ha Hdb Hda Hwb Hwa.
  rewrite (interp_gating l t tol (Some (i, fb)) (Some (j, fa)) Hs Hb Ha).
  cbn [within]. apply Z.leb_le in Hdb, Hda. rewrite Hdb, Hda. cbn [four_way_spec].
  destruct (interp_frames_defined i j fb fa t Hwb Hwa) as [f Hf]. exists f.
  split; [exact Hf|]. destruct (interp_frames_inv _ _ _ _ _ _ _ _ Hf) as (_ & _ & Hst & _).
  split; [exact Hst|]. destruct Hb as (_ & Hle & _). destruct Ha as (_ & Hlt & _). lia.
Qed.
