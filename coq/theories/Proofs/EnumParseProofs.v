(* Lemmas about the parser interpreter (C20, C18 key canonicalisation). *)
From Coq Require Import String List Bool.
From PE Require Import Base.StrUtil Model.EnumParse.
Import ListNotations.
Open Scope string_scope.

(* documented acceptance: exact value, or any letter case of the value *)
Inductive doc_case := Exact | AnyCase.
Definition norm (c : doc_case) (s : string) : string :=
  match c with Exact => s | AnyCase => lower s end.
Definition doc_match (c : doc_case) (v s : string) : Prop := norm c v = norm c s.

Lemma lower_eq_upper_eq : forall s t, lower s = lower t <-> upper s = upper t.
Proof.
  intros s t; split; intro H.
  - rewrite <- (upper_lower s), <- (upper_lower t). now rewrite H.
  - rewrite <- (lower_upper s), <- (lower_upper t). now rewrite H.
Qed.

(* The (pre, cmp) shapes that implement a documented acceptance rule. *)
Definition shape_ok (E : enum) (P : parser) (c : doc_case) : bool :=
  match c, p_pre P, p_cmp P with
  | Exact, PreNone, CmpValue => true
  | AnyCase, PreLower, CmpValueLower => true
  | AnyCase, PreLower, CmpValue => forallb (fun kv => String.eqb (lower (snd kv)) (snd kv)) (members E)
  | AnyCase, PreUpper, CmpValue => forallb (fun kv => String.eqb (upper (snd kv)) (snd kv)) (members E)
  | AnyCase, PreUpper, CmpKey => forallb (fun kv => String.eqb (upper (snd kv)) (fst kv)) (members E)
  | _, _, _ => false
  end.

Definition faithful_check (E : enum) (P : parser) (c : doc_case) (m : miss) : bool :=
  shape_ok E P c
  && match p_ret P with RetMember => true | RetKey => false end
  && nodup_str (map (fun kv => norm c (snd kv)) (members E))
  && match p_miss P, m with
     | MissRaise, MissRaise => true
     | MissAlias, MissAlias => true
     | _, _ => false
     end.

Lemma cmp_match_norm : forall E P c k v s,
  shape_ok E P c = true -> In (k, v) (members E) ->
  (cmp_match (p_cmp P) (k, v) (apply_pre (p_pre P) s) = true <-> doc_match c v s).
Proof.
  intros E P c k v s Hs Hin. unfold shape_ok in Hs. unfold cmp_match, cmp_key, doc_match, norm.
  destruct c, (p_pre P), (p_cmp P); try discriminate; simpl apply_pre; simpl fst; simpl snd;
    rewrite ?String.eqb_eq; try tauto;
    try (rewrite forallb_forall in Hs; specialize (Hs _ Hin); simpl in Hs; apply String.eqb_eq in Hs).
  - (* PreLower, CmpValue, values lower-case *) rewrite <- Hs at 1. tauto.
  - (* PreUpper, CmpValue, values upper-case *) rewrite <- Hs at 1. symmetry. apply lower_eq_upper_eq.
  - (* PreUpper, CmpKey, key = upper value *) rewrite <- Hs. symmetry. apply lower_eq_upper_eq.
Qed.

Lemma scan_some : forall c ms name k,
  scan c ms name = Some k -> exists v, In (k, v) ms /\ cmp_match c (k, v) name = true.
Proof.
  induction ms as [|[k0 v0] t IH]; simpl; intros name k H; [discriminate|].
  destruct (cmp_match c (k0, v0) name) eqn:E.
  - injection H as <-. exists v0. auto.
  - destruct (IH _ _ H) as [v [Hin Hm]]. exists v. auto.
Qed.

Lemma scan_none : forall c ms name,
  scan c ms name = None <-> (forall kv, In kv ms -> cmp_match c kv name = false).
Proof.
  induction ms as [|kv t IH]; simpl; intros name; [split; [intros _ ? []|reflexivity]|].
  destruct (cmp_match c kv name) eqn:E.
  - split; [discriminate|]. intros H. specialize (H kv (or_introl eq_refl)). congruence.
  - rewrite IH. split; intros H.
    + intros kv' [<-|Hin]; auto.
    + intros kv' Hin; auto.
Qed.

Lemma NoDup_map_inj : forall A B (f : A -> B) l a b,
  NoDup (map f l) -> In a l -> In b l -> f a = f b -> a = b.
Proof.
  induction l as [|x t IH]; simpl; intros a b Hnd Ha Hb Hf; [tauto|].
  inversion Hnd as [|y ys Hnotin Hnd' Heq]; subst.
  destruct Ha as [<-|Ha], Hb as [<-|Hb]; auto.
  - exfalso. apply Hnotin. rewrite Hf. now apply in_map.
  - exfalso. apply Hnotin. rewrite <- Hf. now apply in_map.
Qed.

Lemma scan_hit : forall c ms name k v,
  (forall kv kv', In kv ms -> In kv' ms ->
     cmp_match c kv name = true -> cmp_match c kv' name = true -> kv = kv') ->
  In (k, v) ms -> cmp_match c (k, v) name = true -> scan c ms name = Some k.
Proof.
  induction ms as [|kv0 t IH]; simpl; intros name k v Huniq Hin Hm; [tauto|].
  destruct (cmp_match c kv0 name) eqn:E.
  - assert (kv0 = (k, v)) as -> by (apply Huniq; auto). reflexivity.
  - destruct Hin as [->|Hin]; [congruence|].
    apply IH with v; [intros; apply Huniq; auto|assumption|assumption].
Qed.

(* What "faithful" means (this is the C20 statement for one parser):
   every documented spelling of a member's value gives that member;
   everything else gives the documented miss behaviour. *)
Definition faithful (E : enum) (P : parser) (c : doc_case) (m : miss) : Prop :=
  (forall k v s, In (k, v) (members E) -> doc_match c v s -> run_parser E P s = Member k) /\
  (forall s, (forall k v, In (k, v) (members E) -> ~ doc_match c v s) ->
             run_parser E P s = on_miss E m (apply_pre (p_pre P) s)).

Theorem faithful_check_sound : forall E P c m,
  faithful_check E P c m = true -> faithful E P c m.
Proof.
  intros E P c m H. unfold faithful_check in H.
  repeat (apply andb_true_iff in H; destruct H as [H ?]).
  rename H into Hshape, H0 into Hmiss, H1 into Hnd, H2 into Hret.
  apply nodup_str_NoDup in Hnd.
  destruct (p_ret P) eqn:Eret; [|discriminate].
  split.
  - intros k v s Hin Hdm. unfold run_parser.
    rewrite (scan_hit (p_cmp P) (members E) _ k v); [now rewrite Eret| |assumption|].
    + intros [k1 v1] [k2 v2] H1 H2 M1 M2.
      apply (cmp_match_norm E P c) in M1; [|assumption|assumption].
      apply (cmp_match_norm E P c) in M2; [|assumption|assumption].
      apply (NoDup_map_inj _ _ (fun kv => norm c (snd kv)) (members E)); auto.
      simpl. unfold doc_match in *. congruence.
    + apply (cmp_match_norm E P c); assumption.
  - intros s Hnone. unfold run_parser.
    assert (Hs : scan (p_cmp P) (members E) (apply_pre (p_pre P) s) = None).
    { apply scan_none. intros [k v] Hin.
      destruct (cmp_match (p_cmp P) (k, v) (apply_pre (p_pre P) s)) eqn:E0; [|reflexivity].
      exfalso. apply (Hnone k v Hin). apply (cmp_match_norm E P c k v s); assumption. }
    rewrite Hs. destruct (p_miss P), m; try discriminate; reflexivity.
Qed.

(* corollary: each member's own value round-trips *)
Corollary faithful_roundtrip : forall E P c m,
  faithful E P c m -> forall k v, In (k, v) (members E) -> run_parser E P v = Member k.
Proof. intros E P c m [H _] k v Hin. apply H with v; [assumption|reflexivity]. Qed.

(* enum-or-string arguments behave identically for both spellings *)
Corollary enum_or_str_equiv : forall E P c m k v s,
  faithful E P c m -> In (k, v) (members E) -> doc_match c v s ->
  enum_or_str E P true (inl s) = enum_or_str E P true (inr k).
Proof. intros E P c m k v s [H _] Hin Hd. simpl. now apply H with v. Qed.

(* the alias miss: listed aliases give their member, everything else the default *)
Lemma alias_lookup_in : forall al name k,
  alias_lookup al name = Some k -> In (name, k) al.
Proof.
  induction al as [|[a k0] t IH]; simpl; intros name k H; [discriminate|].
  destruct (String.eqb_spec name a) as [->|Hne]; [injection H as <-; now left|right; auto].
Qed.
