(* Proofs about Model/Winding.v (crop_pointcloud, box corners): edge test = cross-product sign,
   uint8 counter = sum of edge contributions mod 256, inside/outside partition, and the yaw-only
   rectangle: winding-number selection = slab inequalities in the box frame (all rotations). *)
From Coq Require Import List Bool ZArith Arith Lia Permutation.
From PE Require Import Base.QUtil Model.Winding.
Import ListNotations.
Open Scope Q_scope.

(* ------------------------------------------------------------------------------------------ *)
(* 1. the division-based validity test is the sign of a cross product                          *)
(* ------------------------------------------------------------------------------------------ *)
Lemma valid_up ax ay bx by_ x y : ay < by_ ->
  (x < ax + (y - ay) / (by_ - ay) * (bx - ax)) <-> 0 < cross ax ay bx by_ x y.
Proof.
  intros H. unfold cross.
  assert (E : (y - ay) / (by_ - ay) * (bx - ax) * (by_ - ay) == (y - ay) * (bx - ax)) by (field; lra).
  split; intro K.
  - assert (x * (by_ - ay) < (ax + (y - ay) / (by_ - ay) * (bx - ax)) * (by_ - ay))
      by (apply Qmult_lt_compat_r; lra).
    nra.
  - apply Qmult_lt_r with (z := by_ - ay); [lra|]. nra.
Qed.

Lemma valid_down ax ay bx by_ x y : by_ < ay ->
  (x < ax + (y - ay) / (by_ - ay) * (bx - ax)) <-> cross ax ay bx by_ x y < 0.
Proof.
  intros H. unfold cross.
  assert (E : (y - ay) / (by_ - ay) * (bx - ax) * (ay - by_) == - ((y - ay) * (bx - ax))) by (field; lra).
  split; intro K.
  - assert (x * (ay - by_) < (ax + (y - ay) / (by_ - ay) * (bx - ax)) * (ay - by_))
      by (apply Qmult_lt_compat_r; lra).
    nra.
  - apply Qmult_lt_r with (z := ay - by_); [lra|]. nra.
Qed.

Definition pcross (a b : vertex) (p : point) : Q := cross (vx a) (vy a) (vx b) (vy b) (px p) (py p).

Lemma edge_vt_div a b c p : vy c == vy b -> ~ vy a == vy b ->
  edge_vt a b c p = (py p - vy a) / (vy b - vy a).
Proof.
  intros Hc Hab. unfold edge_vt. destruct (Qeqb_spec (vy c) (vy a)) as [E|E]; [|reflexivity].
  exfalso. apply Hab. lra.
Qed.

Theorem edge_valid_iff_cross a b c p : vy c == vy b ->
  (vy a < vy b -> (edge_valid a b c p = true <-> 0 < pcross a b p)) /\
  (vy b < vy a -> (edge_valid a b c p = true <-> pcross a b p < 0)).
Proof.
  intros Hc. unfold edge_valid, pcross. split; intros H.
  - rewrite edge_vt_div by (auto; lra). rewrite Qltb_true. apply valid_up; exact H.
  - rewrite edge_vt_div by (auto; lra). rewrite Qltb_true. apply valid_down; exact H.
Qed.

(* ------------------------------------------------------------------------------------------ *)
(* 2. the uint8 counter is the sum of the edge contributions modulo 256                        *)
(* ------------------------------------------------------------------------------------------ *)
Definition edge_contrib (p : point) (e : edge3) : Z :=
  let '(a, b, c) := e in
  ((if edge_inc a b p && edge_valid a b c p then 1 else 0) -
   (if edge_dec a b p && edge_valid a b c p then 1 else 0))%Z.

Fixpoint contrib_sum (p : point) (es : list edge3) : Z :=
  match es with [] => 0%Z | e :: t => (edge_contrib p e + contrib_sum p t)%Z end.

Lemma inc_dec_excl a b p : edge_inc a b p && edge_dec a b p = false.
Proof.
  unfold edge_inc, edge_dec.
  destruct (Qleb_spec (vy a) (py p)), (Qltb_spec (py p) (vy b)), (Qltb_spec (py p) (vy a)), (Qleb_spec (vy b) (py p));
    cbn; try reflexivity; exfalso; lra.
Qed.

Lemma u8_idem z : u8 (u8 z) = u8 z.
Proof. unfold u8. apply Z.mod_mod. lia. Qed.

Lemma u8_add_l x y : u8 (u8 x + y) = u8 (x + y).
Proof. unfold u8. apply Zplus_mod_idemp_l. Qed.

Lemma edge_step_contrib p cnt e : u8 cnt = cnt -> edge_step p cnt e = u8 (cnt + edge_contrib p e).
Proof.
  intros Hc. destruct e as [[a b] c]. unfold edge_step, edge_contrib.
  pose proof (inc_dec_excl a b p) as X.
  destruct (edge_inc a b p), (edge_dec a b p), (edge_valid a b c p); cbn in *; try discriminate;
    rewrite ?Z.add_0_r; auto.
Qed.

Lemma fold_edge_step p es : forall cnt, u8 cnt = cnt ->
  fold_left (edge_step p) es cnt = u8 (cnt + contrib_sum p es).
Proof.
  induction es as [|e t IH]; intros cnt Hc; cbn [fold_left contrib_sum].
  - rewrite Z.add_0_r. auto.
  - rewrite IH by (rewrite edge_step_contrib by exact Hc; apply u8_idem).
    rewrite edge_step_contrib by exact Hc. rewrite u8_add_l. f_equal. lia.
Qed.

Lemma wn_edges_sum es p : wn_edges es p = u8 (contrib_sum p es).
Proof. unfold wn_edges. rewrite fold_edge_step by reflexivity. reflexivity. Qed.

Lemma wn_range area p : (0 <= wn area p < 256)%Z.
Proof. unfold wn. rewrite wn_edges_sum. unfold u8. apply Z.mod_pos_bound. lia. Qed.

(* ------------------------------------------------------------------------------------------ *)
(* 3. inside / outside partition (any polygon, any number of columns)                          *)
(* ------------------------------------------------------------------------------------------ *)
Lemma xy_sel_compl c : xy_sel true c = negb (xy_sel false c).
Proof. unfold xy_sel. destruct (Z.ltb_spec 0 c), (Z.leb_spec c 0); try reflexivity; lia. Qed.

Theorem selected_partition area p : selected area true p = negb (selected area false p).
Proof.
  unfold selected. destruct area as [|v0 vs]; [apply xy_sel_compl|].
  cbv zeta. rewrite xy_sel_compl.
  destruct (prest p) as [|z r]; [reflexivity|].
  destruct (xy_sel false (wn_edges (edges (v0 :: vs)) p)); cbn [negb andb orb]; [reflexivity|].
  destruct (Qleb_spec (zmin_of v0 vs) z), (Qleb_spec z (zmax_of v0 vs)),
           (Qltb_spec z (zmin_of v0 vs)), (Qltb_spec (zmax_of v0 vs) z); cbn; try reflexivity; exfalso; lra.
Qed.

Lemma filter_compl_perm {A} (f g : A -> bool) (l : list A) :
  (forall x, f x = negb (g x)) -> Permutation l (filter f l ++ filter g l).
Proof.
  intros H. induction l as [|x t IH]; cbn [filter app]; [constructor|].
  rewrite (H x). destruct (g x); cbn [negb].
  - apply Permutation_cons_app. exact IH.
  - cbn [app]. constructor. exact IH.
Qed.

Lemma filter_compl_length {A} (f g : A -> bool) (l : list A) :
  (forall x, f x = negb (g x)) -> (length (filter f l) + length (filter g l) = length l)%nat.
Proof.
  intros H. rewrite <- app_length. symmetry. apply Permutation_length. apply filter_compl_perm. exact H.
Qed.

Lemma idx_filter_from_In {A} (f : A -> bool) l : forall i j,
  In j (idx_filter_from f i l) <->
  (i <= j)%nat /\ exists x, nth_error l (j - i) = Some x /\ f x = true.
Proof.
  induction l as [|x t IH]; intros i j; cbn [idx_filter_from].
  - split; [intros []|]. intros [_ [x [H _]]]. destruct (j - i)%nat; discriminate.
  - assert (T : In j (idx_filter_from f (S i) t) <->
                (S i <= j)%nat /\ exists y, nth_error (x :: t) (j - i) = Some y /\ f y = true).
    { rewrite IH. split; intros [Hle [y [Hn Hf]]]; split; auto; exists y; split; auto.
      - replace (j - i)%nat with (S (j - S i)) by lia. exact Hn.
      - replace (j - i)%nat with (S (j - S i)) in Hn by lia. exact Hn. }
    destruct (f x) eqn:Fx.
    + cbn [In]. rewrite T. split.
      * intros [E|[Hle H]]; [subst j; split; [lia|]; exists x; rewrite Nat.sub_diag; auto|split; [lia|exact H]].
      * intros [Hle [y [Hn Hf]]]. destruct (Nat.eq_dec i j) as [E|E]; [left; exact E|right; split; [lia|]; exists y; auto].
    + rewrite T. split.
      * intros [Hle H]; split; [lia|exact H].
      * intros [Hle [y [Hn Hf]]]. destruct (Nat.eq_dec i j) as [E|E].
        -- subst j. rewrite Nat.sub_diag in Hn. cbn in Hn. injection Hn as <-. congruence.
        -- split; [lia|]. exists y; auto.
Qed.

Lemma idx_filter_In {A} (f : A -> bool) l j :
  In j (idx_filter f l) <-> exists x, nth_error l j = Some x /\ f x = true.
Proof.
  unfold idx_filter. rewrite idx_filter_from_In. rewrite Nat.sub_0_r. split; [intros [_ H]; exact H|intros H; split; [lia|exact H]].
Qed.

Lemma idx_filter_from_rows {A} (f : A -> bool) l : forall i pre, length pre = i ->
  map (nth_error (pre ++ l)) (idx_filter_from f i l) = map Some (filter f l).
Proof.
  induction l as [|x t IH]; intros i pre Hp; cbn [idx_filter_from filter map]; [reflexivity|].
  assert (E : pre ++ x :: t = (pre ++ [x]) ++ t) by (rewrite <- app_assoc; reflexivity).
  destruct (f x); cbn [map].
  - f_equal.
    + rewrite nth_error_app2 by lia. rewrite Hp, Nat.sub_diag. reflexivity.
    + rewrite E. apply IH. rewrite app_length. cbn. lia.
  - rewrite E. apply IH. rewrite app_length. cbn. lia.
Qed.

(* the index list names exactly the rows that are returned, in the same order *)
Lemma idx_filter_rows {A} (f : A -> bool) l :
  map (nth_error l) (idx_filter f l) = map Some (filter f l).
Proof. apply (idx_filter_from_rows f l 0%nat []). reflexivity. Qed.

Lemma idx_filter_length {A} (f : A -> bool) l : length (idx_filter f l) = length (filter f l).
Proof.
  rewrite <- (map_length (nth_error l)), idx_filter_rows, map_length. reflexivity.
Qed.

Theorem crop_partition (area : list vertex) (cloud : list point) :
  Permutation cloud (filter (selected area true) cloud ++ filter (selected area false) cloud) /\
  (length (crop_idx area true cloud) + length (crop_idx area false cloud) = length cloud)%nat /\
  (forall i, (i < length cloud)%nat ->
     (In i (crop_idx area true cloud) /\ ~ In i (crop_idx area false cloud)) \/
     (~ In i (crop_idx area true cloud) /\ In i (crop_idx area false cloud))).
Proof.
  split; [apply filter_compl_perm; apply selected_partition|].
  split; [unfold crop_idx; rewrite !idx_filter_length; apply filter_compl_length; apply selected_partition|].
  intros i Hi. unfold crop_idx. rewrite !idx_filter_In.
  destruct (nth_error cloud i) as [p|] eqn:E; [|apply nth_error_None in E; lia].
  pose proof (selected_partition area p) as P.
  destruct (selected area false p) eqn:F; cbn in P.
  - right. split; [intros [x [Hx Hs]]; congruence|exists p; auto].
  - left. split; [exists p; auto|intros [x [Hx Hs]]; congruence].
Qed.

(* the RuntimeError cases do not depend on [inside] *)
Theorem crop_pointcloud_partition ncols cloud area ins :
  crop_pointcloud ncols cloud area true = Some ins ->
  exists outs, crop_pointcloud ncols cloud area false = Some outs /\ Permutation cloud (ins ++ outs).
Proof.
  unfold crop_pointcloud. destruct (ncols <? 2)%nat; [discriminate|].
  destruct (negb (area_ok area)); [discriminate|]. intros H. injection H as <-.
  eexists; split; [reflexivity|]. apply filter_compl_perm. apply selected_partition.
Qed.

(* ------------------------------------------------------------------------------------------ *)
(* 4. one edge: horizontal / upward / downward                                                 *)
(* ------------------------------------------------------------------------------------------ *)
Lemma contrib_horiz a b c p : vy a == vy b -> edge_contrib p (a, b, c) = 0%Z.
Proof.
  intros H. unfold edge_contrib, edge_inc, edge_dec.
  destruct (Qleb_spec (vy a) (py p)), (Qltb_spec (py p) (vy b)), (Qltb_spec (py p) (vy a)), (Qleb_spec (vy b) (py p));
    cbn; try reflexivity; exfalso; lra.
Qed.

Lemma contrib_up a b c p : vy c == vy b -> vy a < vy b ->
  edge_contrib p (a, b, c) =
  (if Qleb (vy a) (py p) && Qltb (py p) (vy b) && Qltb 0 (pcross a b p) then 1 else 0)%Z.
Proof.
  intros Hc H. unfold edge_contrib, edge_inc, edge_dec.
  destruct (edge_valid_iff_cross a b c p Hc) as [V _]. specialize (V H).
  destruct (Qltb_spec 0 (pcross a b p)) as [K|K].
  - apply V in K. rewrite K.
    destruct (Qleb_spec (vy a) (py p)), (Qltb_spec (py p) (vy b)), (Qltb_spec (py p) (vy a)), (Qleb_spec (vy b) (py p));
      cbn; try reflexivity; exfalso; lra.
  - destruct (edge_valid a b c p); [exfalso; apply K, V; reflexivity|].
    rewrite !andb_false_r. reflexivity.
Qed.

Lemma contrib_down a b c p : vy c == vy b -> vy b < vy a ->
  edge_contrib p (a, b, c) =
  (if Qltb (py p) (vy a) && Qleb (vy b) (py p) && Qltb (pcross a b p) 0 then -1 else 0)%Z.
Proof.
  intros Hc H. unfold edge_contrib, edge_inc, edge_dec.
  destruct (edge_valid_iff_cross a b c p Hc) as [_ V]. specialize (V H).
  destruct (Qltb_spec (pcross a b p) 0) as [K|K].
  - apply V in K. rewrite K.
    destruct (Qleb_spec (vy a) (py p)), (Qltb_spec (py p) (vy b)), (Qltb_spec (py p) (vy a)), (Qleb_spec (vy b) (py p));
      cbn; try reflexivity; exfalso; lra.
  - destruct (edge_valid a b c p); [exfalso; apply K, V; reflexivity|].
    rewrite !andb_false_r. reflexivity.
Qed.

(* ------------------------------------------------------------------------------------------ *)
(* 5. the rotated rectangle                                                                    *)
(* ------------------------------------------------------------------------------------------ *)
(* V0..V3: the ring (+a,+b) (-a,+b) (-a,-b) (+a,-b) of a rectangle with centre (cx,cy), direction
   (c,s) (any non-zero vector) and half extents a, b; Wi: the raw "next row" read by the
   horizontal-edge test (same y as Vi); p: the point with local coordinates (u, v). *)
Definition rect_frame (V0 V1 V2 V3 W0 W1 W2 W3 : vertex) (p : point) (cx cy c s a b u v : Q) : Prop :=
  (vx V0 == cx + c * a - s * b /\ vy V0 == cy + s * a + c * b) /\
  (vx V1 == cx - c * a - s * b /\ vy V1 == cy - s * a + c * b) /\
  (vx V2 == cx - c * a + s * b /\ vy V2 == cy - s * a - c * b) /\
  (vx V3 == cx + c * a + s * b /\ vy V3 == cy + s * a - c * b) /\
  (vy W0 == vy V0 /\ vy W1 == vy V1 /\ vy W2 == vy V2 /\ vy W3 == vy V3) /\
  (px p == cx + c * u - s * v /\ py p == cy + s * u + c * v).

Definition contrib4 (V0 V1 V2 V3 W0 W1 W2 W3 : vertex) (p : point) : Z :=
  (edge_contrib p (V0, V1, W1) + edge_contrib p (V1, V2, W2) +
   edge_contrib p (V2, V3, W3) + edge_contrib p (V3, V0, W0))%Z.

Definition rect_concl (V0 V1 V2 V3 W0 W1 W2 W3 : vertex) (p : point) (a b u v : Q) : Prop :=
  (- a < u /\ u < a /\ - b < v /\ v < b -> contrib4 V0 V1 V2 V3 W0 W1 W2 W3 p = 1%Z) /\
  (a < u \/ u < - a \/ b < v \/ v < - b -> contrib4 V0 V1 V2 V3 W0 W1 W2 W3 p = 0%Z).

Lemma Qltb_ext a b c d : (a < b <-> c < d) -> Qltb a b = Qltb c d.
Proof. intros H. destruct (Qltb_spec a b), (Qltb_spec c d); auto; exfalso; tauto. Qed.

Lemma sign_neg k x : 0 < k -> (k * x < 0 <-> x < 0).
Proof. intros; split; intro; nra. Qed.
Lemma sign_pos k x : 0 < k -> (0 < k * x <-> 0 < x).
Proof. intros; split; intro; nra. Qed.
Lemma mul_lt_iff k x y : 0 < k -> (k * x < k * y <-> x < y).
Proof. intros; split; intro; nra. Qed.

Ltac split_all :=
  repeat (match goal with
          | |- context [Qltb ?x ?y] => destruct (Qltb_spec x y)
          | |- context [Qleb ?x ?y] => destruct (Qleb_spec x y)
          end; cbn [andb]; try (exfalso; lra)).

Section Rect.
  Variables (V0 V1 V2 V3 W0 W1 W2 W3 : vertex) (p : point) (cx cy c s a b u v : Q).
  Hypothesis F : rect_frame V0 V1 V2 V3 W0 W1 W2 W3 p cx cy c s a b u v.
  Hypothesis Ha : 0 < a.
  Hypothesis Hb : 0 < b.

  Let N := c * c + s * s.

  Lemma cross0 : pcross V0 V1 p == (2 * N * a) * (b - v).
  Proof.
    destruct F as ((X0 & Y0) & (X1 & Y1) & _ & _ & _ & (PX & PY)).
    unfold pcross, cross, N. rewrite X0, Y0, X1, Y1, PX, PY. ring.
  Qed.
  Lemma cross1 : pcross V1 V2 p == (2 * N * b) * (u + a).
  Proof.
    destruct F as (_ & (X1 & Y1) & (X2 & Y2) & _ & _ & (PX & PY)).
    unfold pcross, cross, N. rewrite X1, Y1, X2, Y2, PX, PY. ring.
  Qed.
  Lemma cross2 : pcross V2 V3 p == (2 * N * a) * (v + b).
  Proof.
    destruct F as (_ & _ & (X2 & Y2) & (X3 & Y3) & _ & (PX & PY)).
    unfold pcross, cross, N. rewrite X2, Y2, X3, Y3, PX, PY. ring.
  Qed.
  Lemma cross3 : pcross V3 V0 p == (2 * N * b) * (a - u).
  Proof.
    destruct F as ((X0 & Y0) & _ & _ & (X3 & Y3) & _ & (PX & PY)).
    unfold pcross, cross, N. rewrite X0, Y0, X3, Y3, PX, PY. ring.
  Qed.

  (* general position: c > 0, s > 0 *)
  Lemma rect_base_q1 : 0 < c -> 0 < s -> rect_concl V0 V1 V2 V3 W0 W1 W2 W3 p a b u v.
  Proof.
    intros Hc Hs.
    assert (HN : 0 < N) by (unfold N; nra).
    assert (Ka : 0 < 2 * N * a) by nra. assert (Kb : 0 < 2 * N * b) by nra.
    assert (Psa : 0 < s * a) by nra. assert (Pcb : 0 < c * b) by nra.
    assert (C0 : pcross V0 V1 p < 0 <-> c * b < c * v).
    { rewrite cross0, (sign_neg _ _ Ka), (mul_lt_iff c b v Hc). split; intro; lra. }
    assert (C1 : pcross V1 V2 p < 0 <-> s * u < - (s * a)).
    { rewrite cross1, (sign_neg _ _ Kb). assert (E : - (s * a) == s * (- a)) by ring. rewrite E, (mul_lt_iff s u (- a) Hs).
      split; intro; lra. }
    assert (C2 : 0 < pcross V2 V3 p <-> - (c * b) < c * v).
    { rewrite cross2, (sign_pos _ _ Ka). assert (E : - (c * b) == c * (- b)) by ring. rewrite E, (mul_lt_iff c (- b) v Hc).
      split; intro; lra. }
    assert (C3 : 0 < pcross V3 V0 p <-> s * u < s * a).
    { rewrite cross3, (sign_pos _ _ Kb), (mul_lt_iff s u a Hs). split; intro; lra. }
    destruct F as ((X0 & Y0) & (X1 & Y1) & (X2 & Y2) & (X3 & Y3) & (Z0 & Z1 & Z2 & Z3) & (PX & PY)).
    unfold rect_concl, contrib4.
    rewrite (contrib_down V0 V1 W1 p Z1) by lra.
    rewrite (contrib_down V1 V2 W2 p Z2) by lra.
    rewrite (contrib_up V2 V3 W3 p Z3) by lra.
    rewrite (contrib_up V3 V0 W0 p Z0) by lra.
    rewrite (Qltb_ext _ _ _ _ C0), (Qltb_ext _ _ _ _ C1), (Qltb_ext _ _ _ _ C2), (Qltb_ext _ _ _ _ C3).
    split.
    - intros (U1 & U2 & V1' & V2').
      assert (s * (- a) < s * u) by (apply mul_lt_iff; assumption).
      assert (s * u < s * a) by (apply mul_lt_iff; assumption).
      assert (c * (- b) < c * v) by (apply mul_lt_iff; assumption).
      assert (c * v < c * b) by (apply mul_lt_iff; assumption).
      assert (s * (- a) == - (s * a)) by ring. assert (c * (- b) == - (c * b)) by ring.
      split_all; reflexivity.
    - intros [U|[U|[U|U]]].
      + assert (s * a < s * u) by (apply mul_lt_iff; assumption). split_all; reflexivity.
      + assert (s * u < s * (- a)) by (apply mul_lt_iff; assumption). assert (s * (- a) == - (s * a)) by ring.
        split_all; reflexivity.
      + assert (c * b < c * v) by (apply mul_lt_iff; assumption). split_all; reflexivity.
      + assert (c * v < c * (- b)) by (apply mul_lt_iff; assumption). assert (c * (- b) == - (c * b)) by ring.
        split_all; reflexivity.
  Qed.

  (* axis-aligned: c > 0, s = 0 (edges 0 and 2 are horizontal) *)
  Lemma rect_base_axis : 0 < c -> s == 0 -> rect_concl V0 V1 V2 V3 W0 W1 W2 W3 p a b u v.
  Proof.
    intros Hc Hs.
    assert (HN : 0 < N) by (unfold N; nra).
    assert (Kb : 0 < 2 * N * b) by nra.
    assert (Pcb : 0 < c * b) by nra. assert (Pca : 0 < c * a) by nra.
    assert (Sa : s * a == 0) by (rewrite Hs; ring). assert (Sb : s * b == 0) by (rewrite Hs; ring).
    assert (Su : s * u == 0) by (rewrite Hs; ring). assert (Sv : s * v == 0) by (rewrite Hs; ring).
    assert (C1 : pcross V1 V2 p < 0 <-> c * u < - (c * a)).
    { rewrite cross1, (sign_neg _ _ Kb). assert (E : - (c * a) == c * (- a)) by ring. rewrite E, (mul_lt_iff c u (- a) Hc).
      split; intro; lra. }
    assert (C3 : 0 < pcross V3 V0 p <-> c * u < c * a).
    { rewrite cross3, (sign_pos _ _ Kb), (mul_lt_iff c u a Hc). split; intro; lra. }
    destruct F as ((X0 & Y0) & (X1 & Y1) & (X2 & Y2) & (X3 & Y3) & (Z0 & Z1 & Z2 & Z3) & (PX & PY)).
    unfold rect_concl, contrib4.
    rewrite (contrib_horiz V0 V1 W1 p) by lra.
    rewrite (contrib_down V1 V2 W2 p Z2) by lra.
    rewrite (contrib_horiz V2 V3 W3 p) by lra.
    rewrite (contrib_up V3 V0 W0 p Z0) by lra.
    rewrite (Qltb_ext _ _ _ _ C1), (Qltb_ext _ _ _ _ C3).
    split.
    - intros (U1 & U2 & V1' & V2').
      assert (c * (- a) < c * u) by (apply mul_lt_iff; assumption).
      assert (c * u < c * a) by (apply mul_lt_iff; assumption).
      assert (c * (- b) < c * v) by (apply mul_lt_iff; assumption).
      assert (c * v < c * b) by (apply mul_lt_iff; assumption).
      assert (c * (- a) == - (c * a)) by ring. assert (c * (- b) == - (c * b)) by ring.
      split_all; reflexivity.
    - intros [U|[U|[U|U]]].
      + assert (c * a < c * u) by (apply mul_lt_iff; assumption). split_all; reflexivity.
      + assert (c * u < c * (- a)) by (apply mul_lt_iff; assumption). assert (c * (- a) == - (c * a)) by ring.
        split_all; reflexivity.
      + assert (c * b < c * v) by (apply mul_lt_iff; assumption). split_all; reflexivity.
      + assert (c * v < c * (- b)) by (apply mul_lt_iff; assumption). assert (c * (- b) == - (c * b)) by ring.
        split_all; reflexivity.
  Qed.

  Lemma rect_base : 0 < c -> 0 <= s -> rect_concl V0 V1 V2 V3 W0 W1 W2 W3 p a b u v.
  Proof.
    intros Hc Hs. destruct (Qlt_le_dec 0 s) as [K|K]; [apply rect_base_q1; assumption|].
    apply rect_base_axis; [assumption|lra].
  Qed.
End Rect.

(* a quarter turn of the parametrisation is a cyclic shift of the ring *)
Lemma rect_frame_rot V0 V1 V2 V3 W0 W1 W2 W3 p cx cy c s a b u v :
  rect_frame V0 V1 V2 V3 W0 W1 W2 W3 p cx cy c s a b u v ->
  rect_frame V1 V2 V3 V0 W1 W2 W3 W0 p cx cy (- s) c b a v (- u).
Proof.
  intros ((X0 & Y0) & (X1 & Y1) & (X2 & Y2) & (X3 & Y3) & (Z0 & Z1 & Z2 & Z3) & (PX & PY)).
  unfold rect_frame. repeat split; try assumption; lra.
Qed.

Lemma rect_concl_rot V0 V1 V2 V3 W0 W1 W2 W3 p a b u v :
  rect_concl V1 V2 V3 V0 W1 W2 W3 W0 p b a v (- u) ->
  rect_concl V0 V1 V2 V3 W0 W1 W2 W3 p a b u v.
Proof.
  unfold rect_concl, contrib4. intros [I O]. split.
  - intros (U1 & U2 & V1' & V2'). rewrite <- I by (repeat split; lra). lia.
  - intros H. rewrite <- O by (destruct H as [H|[H|[H|H]]]; lra). lia.
Qed.

(* all rotations *)
Theorem rect_contrib V0 V1 V2 V3 W0 W1 W2 W3 p cx cy c s a b u v :
  rect_frame V0 V1 V2 V3 W0 W1 W2 W3 p cx cy c s a b u v ->
  0 < a -> 0 < b -> ~ (c == 0 /\ s == 0) ->
  rect_concl V0 V1 V2 V3 W0 W1 W2 W3 p a b u v.
Proof.
  intros F Ha Hb Hcs.
  destruct (Qlt_le_dec 0 c) as [C|C]; destruct (Qlt_le_dec 0 s) as [S|S].
  - (* c > 0, s > 0 *) eapply rect_base; eauto; lra.
  - (* c > 0, s <= 0 *)
    destruct (Qlt_le_dec s 0) as [S'|S']; [|eapply rect_base; eauto; lra].
    apply rect_concl_rot. eapply rect_base; [apply rect_frame_rot; exact F| | | |]; lra.
  - (* c <= 0, s > 0: three quarter turns *)
    apply rect_concl_rot, rect_concl_rot, rect_concl_rot.
    eapply rect_base; [apply rect_frame_rot, rect_frame_rot, rect_frame_rot; exact F| | | |]; lra.
  - (* c <= 0, s <= 0 *)
    destruct (Qlt_le_dec c 0) as [C'|C'].
    + apply rect_concl_rot, rect_concl_rot.
      eapply rect_base; [apply rect_frame_rot, rect_frame_rot; exact F| | | |]; lra.
    + destruct (Qlt_le_dec s 0) as [S'|S']; [|exfalso; apply Hcs; split; lra].
      apply rect_concl_rot. eapply rect_base; [apply rect_frame_rot; exact F| | | |]; lra.
Qed.

(* ------------------------------------------------------------------------------------------ *)
(* 6. from the ring to [selected] on the 8 box corners                                         *)
(* ------------------------------------------------------------------------------------------ *)
Lemma edges_8 (v0 v1 v2 v3 v4 v5 v6 v7 : vertex) :
  edges [v0; v1; v2; v3; v4; v5; v6; v7] = [(v0, v1, v1); (v1, v2, v2); (v2, v3, v3); (v3, v0, v4)].
Proof. reflexivity. Qed.

Lemma wn_ring4 V0 V1 V2 V3 L0 L1 L2 L3 p :
  wn_edges (edges [V0; V1; V2; V3; L0; L1; L2; L3]) p = u8 (contrib4 V0 V1 V2 V3 L0 V1 V2 V3 p).
Proof.
  rewrite edges_8, wn_edges_sum. unfold contrib4. cbn [contrib_sum]. f_equal. lia.
Qed.

Lemma zrange8 V0 V1 V2 V3 L0 L1 L2 L3 zt zb :
  vz V0 == zt -> vz V1 == zt -> vz V2 == zt -> vz V3 == zt ->
  vz L0 == zb -> vz L1 == zb -> vz L2 == zb -> vz L3 == zb -> zb <= zt ->
  zmin_of V0 [V1; V2; V3; L0; L1; L2; L3] == zb /\ zmax_of V0 [V1; V2; V3; L0; L1; L2; L3] == zt.
Proof.
  intros. unfold zmin_of, zmax_of. cbn [fold_left]. split; q_cases; lra.
Qed.

Lemma qabs_lt x A : qabs x < A <-> - A < x /\ x < A.
Proof. unfold qabs. destruct (Qltb_spec x 0); split; intros; try split; lra. Qed.
Lemma qabs_gt x A : 0 <= A -> (A < qabs x <-> A < x \/ x < - A).
Proof. unfold qabs. intros HA. destruct (Qltb_spec x 0); split; intros; try lra. Qed.

Definition z_in (z h : Q) (rest : list Q) : Prop :=
  match rest with [] => True | pz :: _ => z - h / 2 <= pz /\ pz <= z + h / 2 end.
Definition z_out (z h : Q) (rest : list Q) : Prop :=
  match rest with [] => False | pz :: _ => pz < z - h / 2 \/ z + h / 2 < pz end.

Theorem rect_inside_iff_slabs (x y z w l h c s k u v : Q) (p : point) :
  0 < w -> 0 < l -> 0 <= h -> 0 < k -> ~ (c == 0 /\ s == 0) ->
  px p == c * u - s * v + x -> py p == s * u + c * v + y ->
  let b := yaw_box x y z w l h c s in
  (qabs u < k * (l / 2) /\ qabs v < k * (w / 2) /\ z_in z h (prest p) -> box_selected b k true p = true) /\
  (k * (l / 2) < qabs u \/ k * (w / 2) < qabs v \/ z_out z h (prest p) -> box_selected b k true p = false).
Proof.
  intros Hw Hl Hh Hk Hcs PX PY b.
  unfold box_selected, b, box_corners, yaw_box, footprint_local.
  cbn [map app to_world fst snd b_x b_y b_z b_w b_l b_h b_r00 b_r01 b_r10 b_r11].
  match goal with |- context [selected [?v0; ?v1; ?v2; ?v3; ?v4; ?v5; ?v6; ?v7] true p] =>
    set (V0 := v0); set (V1 := v1); set (V2 := v2); set (V3 := v3);
    set (L0 := v4); set (L1 := v5); set (L2 := v6); set (L3 := v7) end.
  set (a := l / 2 * k). set (bb := w / 2 * k).
  assert (Ha : 0 < a) by (unfold a; apply Qmult_lt_0_compat; [apply Qlt_shift_div_l; lra|assumption]).
  assert (Hb : 0 < bb) by (unfold bb; apply Qmult_lt_0_compat; [apply Qlt_shift_div_l; lra|assumption]).
  assert (Hh2 : 0 <= h / 2) by (apply Qle_shift_div_l; lra).
  assert (F : rect_frame V0 V1 V2 V3 L0 V1 V2 V3 p x y c s a bb u v).
  { unfold rect_frame, V0, V1, V2, V3, L0, vred, vx, vy, a, bb. cbn [fst snd].
    rewrite !Qred_correct. repeat split; try reflexivity; try assumption; try (field; lra); try lra. }
  pose proof (rect_contrib _ _ _ _ _ _ _ _ _ _ _ _ _ _ _ _ _ F Ha Hb Hcs) as [In Out].
  destruct (zrange8 V0 V1 V2 V3 L0 L1 L2 L3 (z + h / 2) (z - h / 2)) as [Zmin Zmax];
    try (unfold V0, V1, V2, V3, L0, L1, L2, L3, vred, vz; cbn [fst snd]; rewrite Qred_correct; reflexivity); [lra|].
  assert (EA : k * (l / 2) == a) by (unfold a; ring). assert (EB : k * (w / 2) == bb) by (unfold bb; ring).
  unfold selected. cbv beta iota zeta. rewrite wn_ring4. fold V0 V1 V2 V3 L0 L1 L2 L3.
  assert (D : forall A, 0 <= A -> (A < qabs u <-> A < u \/ u < - A)) by (intros; apply qabs_gt; assumption).
  assert (D' : forall A, 0 <= A -> (A < qabs v <-> A < v \/ v < - A)) by (intros; apply qabs_gt; assumption).
  rewrite EA, EB. rewrite !qabs_lt. rewrite (D a), (D' bb) by lra.
  destruct (prest p) as [|pz r]; cbn [z_in z_out].
  - split.
    + intros (U & V & _). rewrite In by tauto. reflexivity.
    + intros [U|[V|[]]]; rewrite Out by tauto; reflexivity.
  - rewrite Zmin, Zmax. split.
    + intros (U & V & Z). rewrite In by tauto. cbn [xy_sel u8 andb].
      destruct (Qleb_spec (z - h / 2) pz), (Qleb_spec pz (z + h / 2)); cbn; try reflexivity; exfalso; lra.
    + intros [U|[V|Z]]; [rewrite Out by tauto; reflexivity|rewrite Out by tauto; reflexivity|].
      destruct (Qleb_spec (z - h / 2) pz), (Qleb_spec pz (z + h / 2)); cbn; rewrite ?andb_false_r; try reflexivity; exfalso; lra.
Qed.

(* the outside selection of a box is the complement *)
Corollary rect_outside_iff_slabs (x y z w l h c s k u v : Q) (p : point) :
  0 < w -> 0 < l -> 0 <= h -> 0 < k -> ~ (c == 0 /\ s == 0) ->
  px p == c * u - s * v + x -> py p == s * u + c * v + y ->
  let b := yaw_box x y z w l h c s in
  (qabs u < k * (l / 2) /\ qabs v < k * (w / 2) /\ z_in z h (prest p) -> box_selected b k false p = false) /\
  (k * (l / 2) < qabs u \/ k * (w / 2) < qabs v \/ z_out z h (prest p) -> box_selected b k false p = true).
Proof.
  intros Hw Hl Hh Hk Hcs PX PY b.
  destruct (rect_inside_iff_slabs x y z w l h c s k u v p Hw Hl Hh Hk Hcs PX PY) as [I O].
  fold b in I, O. unfold box_selected in *. rewrite selected_partition in I, O.
  split; intros H; [specialize (I H)|specialize (O H)]; destruct (selected _ false p); auto; discriminate.
Qed.

(* coordinates of an arbitrary point in the box frame *)
Definition local_u (x y c s : Q) (p : point) : Q := (c * (px p - x) + s * (py p - y)) / (c * c + s * s).
Definition local_v (x y c s : Q) (p : point) : Q := (- s * (px p - x) + c * (py p - y)) / (c * c + s * s).

Lemma norm_pos c s : ~ (c == 0 /\ s == 0) -> 0 < c * c + s * s.
Proof.
  intros H. destruct (Qlt_le_dec 0 (c * c + s * s)); [assumption|].
  exfalso. apply H. split; nra.
Qed.

Lemma local_uv_correct x y c s p : ~ (c == 0 /\ s == 0) ->
  px p == c * local_u x y c s p - s * local_v x y c s p + x /\
  py p == s * local_u x y c s p + c * local_v x y c s p + y.
Proof.
  intros H. pose proof (norm_pos c s H). unfold local_u, local_v. split; field; lra.
Qed.

(* the same statement for every row of a cloud, in world coordinates *)
Corollary rect_inside_iff_slabs_world (x y z w l h c s k : Q) (p : point) :
  0 < w -> 0 < l -> 0 <= h -> 0 < k -> ~ (c == 0 /\ s == 0) ->
  let b := yaw_box x y z w l h c s in
  let u := local_u x y c s p in
  let v := local_v x y c s p in
  (qabs u < k * (l / 2) /\ qabs v < k * (w / 2) /\ z_in z h (prest p) -> box_selected b k true p = true) /\
  (k * (l / 2) < qabs u \/ k * (w / 2) < qabs v \/ z_out z h (prest p) -> box_selected b k true p = false).
Proof.
  intros Hw Hl Hh Hk Hcs. destruct (local_uv_correct x y c s p Hcs) as [PX PY].
  exact (rect_inside_iff_slabs x y z w l h c s k _ _ p Hw Hl Hh Hk Hcs PX PY).
Qed.

(* ------------------------------------------------------------------------------------------ *)
(* 7. enlarging the scale never removes an inside point                                        *)
(* ------------------------------------------------------------------------------------------ *)
Lemma vred_eq v v' : vx v == vx v' -> vy v == vy v' -> vz v == vz v' -> vred v = vred v'.
Proof.
  intros A B C. unfold vred. rewrite (Qred_complete _ _ A), (Qred_complete _ _ B), (Qred_complete _ _ C). reflexivity.
Qed.

Lemma box_corners_scale_eq b k k' : k == k' -> box_corners b k = box_corners b k'.
Proof.
  intros H. unfold box_corners, footprint_local. cbn [map app].
  repeat (apply f_equal2; [apply vred_eq; unfold to_world, vx, vy, vz; cbn [fst snd]; rewrite ?H; reflexivity|]).
  reflexivity.
Qed.

Lemma qabs_le_not_gt x A : ~ A < qabs x -> qabs x <= A.
Proof. intros H. destruct (Qlt_le_dec A (qabs x)); [contradiction|assumption]. Qed.

Theorem scale_monotone (x y z w l h c s k k' : Q) (p : point) :
  0 < w -> 0 < l -> 0 <= h -> 0 < k -> k <= k' -> ~ (c == 0 /\ s == 0) ->
  let b := yaw_box x y z w l h c s in
  box_selected b k true p = true -> box_selected b k' true p = true.
Proof.
  intros Hw Hl Hh Hk Hkk Hcs b Sel.
  destruct (Qlt_le_dec k k') as [Lt|Ge].
  - destruct (rect_inside_iff_slabs_world x y z w l h c s k p Hw Hl Hh Hk Hcs) as [_ O].
    destruct (rect_inside_iff_slabs_world x y z w l h c s k' p Hw Hl Hh) as [Ins _]; [lra|exact Hcs|].
    cbv zeta in O, Ins. fold b in O, Ins. apply Ins.
    assert (L2 : 0 < l / 2) by (apply Qlt_shift_div_l; lra).
    assert (W2 : 0 < w / 2) by (apply Qlt_shift_div_l; lra).
    assert (NU : ~ k * (l / 2) < qabs (local_u x y c s p)) by (intros U; rewrite O in Sel by tauto; discriminate).
    assert (NV : ~ k * (w / 2) < qabs (local_v x y c s p)) by (intros U; rewrite O in Sel by tauto; discriminate).
    assert (NZ : ~ z_out z h (prest p)) by (intros U; rewrite O in Sel by tauto; discriminate).
    apply qabs_le_not_gt in NU. apply qabs_le_not_gt in NV.
    split; [apply Qle_lt_trans with (k * (l / 2)); [assumption|apply Qmult_lt_compat_r; assumption]|].
    split; [apply Qle_lt_trans with (k * (w / 2)); [assumption|apply Qmult_lt_compat_r; assumption]|].
    unfold z_in, z_out in *. destruct (prest p) as [|pz r]; [exact I|].
    split; [destruct (Qlt_le_dec pz (z - h / 2)); [exfalso; tauto|assumption]
           |destruct (Qlt_le_dec (z + h / 2) pz); [exfalso; tauto|assumption]].
  - assert (E : k == k') by lra. unfold box_selected in *. rewrite <- (box_corners_scale_eq b k k' E). exact Sel.
Qed.

Lemma filter_incl_impl {A} (f g : A -> bool) l : (forall x, f x = true -> g x = true) -> incl (filter f l) (filter g l).
Proof. intros H x Hx. apply filter_In in Hx. apply filter_In. split; [tauto|apply H; tauto]. Qed.

Lemma filter_length_le {A} (f g : A -> bool) l :
  (forall x, f x = true -> g x = true) -> (length (filter f l) <= length (filter g l))%nat.
Proof.
  intros H. induction l as [|x t IH]; cbn [filter]; [lia|].
  destruct (f x) eqn:Fx; [rewrite (H x Fx); cbn; lia|destruct (g x); cbn; lia].
Qed.

(* ... hence: more rows, a larger count, and detection is kept *)
Theorem scale_monotone_cloud (x y z w l h c s k k' : Q) (cloud : list point) :
  0 < w -> 0 < l -> 0 <= h -> 0 < k -> k <= k' -> ~ (c == 0 /\ s == 0) ->
  let b := yaw_box x y z w l h c s in
  (forall i, In i (box_crop_idx b k true cloud) -> In i (box_crop_idx b k' true cloud)) /\
  incl (box_crop b k true cloud) (box_crop b k' true cloud) /\
  (inside_num b k cloud <= inside_num b k' cloud)%nat.
Proof.
  intros Hw Hl Hh Hk Hkk Hcs b.
  assert (M : forall p, box_selected b k true p = true -> box_selected b k' true p = true)
    by (intros p; apply scale_monotone; assumption).
  split; [|split].
  - intros i. unfold box_crop_idx. rewrite !idx_filter_In. intros [q [Hq Hs]]. exists q. split; [exact Hq|apply M; exact Hs].
  - apply filter_incl_impl, M.
  - apply filter_length_le, M.
Qed.

(* ------------------------------------------------------------------------------------------ *)
(* 8. exactness for a whole cloud                                                              *)
(* ------------------------------------------------------------------------------------------ *)
Record yaw_params := mkYaw { yx : Q; yy : Q; yz : Q; yw : Q; yl : Q; yh : Q; yc : Q; ys : Q }.

Definition box_of (q : yaw_params) : box := yaw_box (yx q) (yy q) (yz q) (yw q) (yl q) (yh q) (yc q) (ys q).

Definition yaw_ok (q : yaw_params) : Prop :=
  0 < yw q /\ 0 < yl q /\ 0 <= yh q /\ ~ (yc q == 0 /\ ys q == 0).

(* strictly inside the footprint scaled by k (height not scaled, z range closed) / strictly outside *)
Definition slab_in (q : yaw_params) (k : Q) (p : point) : Prop :=
  qabs (local_u (yx q) (yy q) (yc q) (ys q) p) < k * (yl q / 2) /\
  qabs (local_v (yx q) (yy q) (yc q) (ys q) p) < k * (yw q / 2) /\
  z_in (yz q) (yh q) (prest p).
Definition slab_out (q : yaw_params) (k : Q) (p : point) : Prop :=
  k * (yl q / 2) < qabs (local_u (yx q) (yy q) (yc q) (ys q) p) \/
  k * (yw q / 2) < qabs (local_v (yx q) (yy q) (yc q) (ys q) p) \/
  z_out (yz q) (yh q) (prest p).

Lemma slab_in_out_excl q k p : slab_in q k p -> slab_out q k p -> False.
Proof.
  unfold slab_in, slab_out, z_in, z_out. intros (U & V & Z) [U'|[V'|Z']]; try lra.
  destruct (prest p); [exact Z'|lra].
Qed.

Theorem box_selected_slabs q k p : yaw_ok q -> 0 < k ->
  (slab_in q k p -> box_selected (box_of q) k true p = true) /\
  (slab_out q k p -> box_selected (box_of q) k true p = false).
Proof.
  intros (Hw & Hl & Hh & Hcs) Hk.
  exact (rect_inside_iff_slabs_world (yx q) (yy q) (yz q) (yw q) (yl q) (yh q) (yc q) (ys q) k p Hw Hl Hh Hk Hcs).
Qed.

(* for a cloud without points on the box boundary, the inside rows are exactly the rows that are
   geometrically inside, and the count is their number *)
Theorem box_crop_exact q k cloud : yaw_ok q -> 0 < k ->
  (forall p, In p cloud -> slab_in q k p \/ slab_out q k p) ->
  (forall p, In p (box_crop (box_of q) k true cloud) <-> In p cloud /\ slab_in q k p) /\
  (forall p, In p (box_crop (box_of q) k false cloud) <-> In p cloud /\ slab_out q k p).
Proof.
  intros Hq Hk Hb. split; intros p; unfold box_crop; rewrite filter_In;
    (split; [intros [Hp Hs]|intros [Hp Hs]]; split; try assumption);
    destruct (box_selected_slabs q k p Hq Hk) as [I O].
  - destruct (Hb p Hp) as [H|H]; [assumption|]. rewrite (O H) in Hs. discriminate.
  - apply I. exact Hs.
  - destruct (Hb p Hp) as [H|H]; [|assumption]. unfold box_selected in *. rewrite selected_partition in I.
    rewrite Hs in I. specialize (I H). discriminate.
  - unfold box_selected in *. rewrite selected_partition in O. specialize (O Hs).
    destruct (selected _ false p); [reflexivity|discriminate].
Qed.
