(* Proofs about Model/Winding.v (crop_pointcloud, box corners): edge test = cross-product sign,
   uint8 counter = sum of edge contributions mod 256, inside/outside partition, and the yaw-only
   rectangle: winding-number selection = slab inequalities in the box frame (all rotations). *)
From Coq Require Import List Bool ZArith Arith Lia Permutation Psatz.
From PE Require Import Base.QUtil Model.Winding.
Import ListNotations.
Open Scope Q_scope.

(* ------------------------------------------------------------------------------------------ *)
(* 1. the division-based validity test is the sign of a cross product                          *)
(* ------------------------------------------------------------------------------------------ *)
Lemma valid_up ax ay bx by_ x y : ay < by_ ->
  (x < ax + (y - ay) / (by_ - ay) * (bx - ax)) <-> 0 < cross ax ay bx by_ x y.
Proof.
  intros H. unfold cross.
  assert (E : (y - ay) / (by_ - ay) * (bx - ax) * (by_ - ay) == (y - ay) * (bx - ax)) by (field; lra).
  split; intro K.
  - assert (x * (by_ - ay) < (ax + (y - ay) / (by_ - ay) * (bx - ax)) * (by_ - ay))
      by (apply Qmult_lt_compat_r; lra).
    nra.
  - apply Qmult_lt_r with (z := by_ - ay); [lra|]. nra.
Qed.

Lemma valid_down ax ay bx by_ x y : by_ < ay ->
  (x < ax + (y - ay) / (by_ - ay) * (bx - ax)) <-> cross ax ay bx by_ x y < 0.
Proof.
  intros H. unfold cross.
  assert (E : (y - ay) / (by_ - ay) * (bx - ax) * (ay - by_) == - ((y - ay) * (bx - ax))) by (field; lra).
  split; intro K.
  - assert (x * (ay - by_) < (ax + (y - ay) / (by_ - ay) * (bx - ax)) * (ay - by_))
      by (apply Qmult_lt_compat_r; lra).
    nra.
  - apply Qmult_lt_r with (z := ay - by_); [lra|]. nra.
Qed.

Definition pcross (a b : vertex) (p : point) : Q := cross (vx a) (vy a) (vx b) (vy b) (px p) (py p).

Lemma edge_vt_div a b c p : vy c == vy b -> ~ vy a == vy b ->
  edge_vt a b c p = (py p - vy a) / (vy b - vy a).
Proof.
  intros Hc Hab. unfold edge_vt. destruct (Qeqb_spec (vy c) (vy a)) as [E|E]; [|reflexivity].
  exfalso. apply Hab. lra.
Qed.

Theorem edge_valid_iff_cross a b c p : vy c == vy b ->
  (vy a < vy b -> (edge_valid a b c p = true <-> 0 < pcross a b p)) /\
  (vy b < vy a -> (edge_valid a b c p = true <-> pcross a b p < 0)).
Proof.
  intros Hc. unfold edge_valid, pcross. split; intros H.
  - rewrite edge_vt_div by (auto; lra). rewrite Qltb_true. apply valid_up; exact H.
  - rewrite edge_vt_div by (auto; lra). rewrite Qltb_true. apply valid_down; exact H.
Qed.

(* ------------------------------------------------------------------------------------------ *)
(* 2. the uint8 counter is the sum of the edge contributions modulo 256                        *)
(* ------------------------------------------------------------------------------------------ *)
Definition edge_contrib (p : point) (e : edge3) : Z :=
  let '(a, b, c) := e in
  ((if edge_inc a b p && edge_valid a b c p then 1 else 0) -
   (if edge_dec a b p && edge_valid a b c p then 1 else 0))%Z.

Fixpoint contrib_sum (p : point) (es : list edge3) : Z :=
  match es with [] => 0%Z | e :: t => (edge_contrib p e + contrib_sum p t)%Z end.

Lemma inc_dec_excl a b p : edge_inc a b p && edge_dec a b p = false.
Proof.
  unfold edge_inc, edge_dec.
  destruct (Qleb_spec (vy a) (py p)), (Qltb_spec (py p) (vy b)), (Qltb_spec (py p) (vy a)), (Qleb_spec (vy b) (py p));
    cbn; try reflexivity; exfalso; lra.
Qed.

Lemma u8_idem z : u8 (u8 z) = u8 z.
Proof. unfold u8. apply Z.mod_mod. lia. Qed.

Lemma u8_add_l x y : u8 (u8 x + y) = u8 (x + y).
Proof. unfold u8. apply Zplus_mod_idemp_l. Qed.

Lemma edge_step_contrib p cnt e : u8 cnt = cnt -> edge_step p cnt e = u8 (cnt + edge_contrib p e).
Proof.
  intros Hc. destruct e as [[a b] c]. unfold edge_step, edge_contrib.
  pose proof (inc_dec_excl a b p) as X.
  destruct (edge_inc a b p), (edge_dec a b p), (edge_valid a b c p); cbn in *; try discriminate;
    rewrite ?Z.add_0_r; auto.
Qed.

Lemma fold_edge_step p es : forall cnt, u8 cnt = cnt ->
  fold_left (edge_step p) es cnt = u8 (cnt + contrib_sum p es).
Proof.
  induction es as [|e t IH]; intros cnt Hc; cbn [fold_left contrib_sum].
  - rewrite Z.add_0_r. auto.
  - rewrite IH by (rewrite edge_step_contrib by exact Hc; apply u8_idem).
    rewrite edge_step_contrib by exact Hc. rewrite u8_add_l. f_equal. lia.
Qed.

Lemma wn_edges_sum es p : wn_edges es p = u8 (contrib_sum p es).
Proof. unfold wn_edges. rewrite fold_edge_step by reflexivity. reflexivity. Qed.

Lemma wn_range area p : (0 <= wn area p < 256)%Z.
Proof. unfold wn. rewrite wn_edges_sum. unfold u8. apply Z.mod_pos_bound. lia. Qed.

(* ------------------------------------------------------------------------------------------ *)
(* 3. inside / outside partition (any polygon, any number of columns)                          *)
(* ------------------------------------------------------------------------------------------ *)
Lemma xy_sel_compl c : xy_sel true c = negb (xy_sel false c).
Proof. unfold xy_sel. destruct (Z.ltb_spec 0 c), (Z.leb_spec c 0); try reflexivity; lia. Qed.

Theorem selected_partition area p : selected area true p = negb (selected area false p).
Proof.
  unfold selected. destruct area as [|v0 vs]; [apply xy_sel_compl|].
  cbv zeta. rewrite xy_sel_compl.
  destruct (prest p) as [|z r]; [reflexivity|].
  destruct (xy_sel false (wn_edges (edges (v0 :: vs)) p)); cbn [negb andb orb]; [reflexivity|].
  destruct (Qleb_spec (zmin_of v0 vs) z), (Qleb_spec z (zmax_of v0 vs)),
           (Qltb_spec z (zmin_of v0 vs)), (Qltb_spec (zmax_of v0 vs) z); cbn; try reflexivity; exfalso; lra.
Qed.

Lemma filter_compl_perm {A} (f g : A -> bool) (l : list A) :
  (forall x, f x = negb (g x)) -> Permutation l (filter f l ++ filter g l).
Proof.
  intros H. induction l as [|x t IH]; cbn [filter app]; [constructor|].
  rewrite (H x). destruct (g x); cbn [negb].
  - apply Permutation_cons_app. exact IH.
  - cbn [app]. constructor. exact IH.
Qed.

Lemma filter_compl_length {A} (f g : A -> bool) (l : list A) :
  (forall x, f x = negb (g x)) -> (length (filter f l) + length (filter g l) = length l)%nat.
Proof.
  intros H. rewrite <- app_length. symmetry. apply Permutation_length. apply filter_compl_perm. exact H.
Qed.

Lemma idx_filter_from_In {A} (f : A -> bool) l : forall i j,
  In j (idx_filter_from f i l) <->
  (i <= j)%nat /\ exists x, nth_error l (j - i) = Some x /\ f x = true.
Proof.
  induction l as [|x t IH]; intros i j; cbn [idx_filter_from].
  - split; [intros []|]. intros [_ [x [H _]]]. destruct (j - i)%nat; discriminate.
  - assert (T : In j (idx_filter_from f (S i) t) <->
                (S i <= j)%nat /\ exists y, nth_error (x :: t) (j - i) = Some y /\ f y = true).
    { rewrite IH. split; intros [Hle [y [Hn Hf]]]; split; auto; exists y; split; auto.
      - replace (j - i)%nat with (S (j - S i)) by lia. exact Hn.
      - replace (j - i)%nat with (S (j - S i)) in Hn by lia. exact Hn. }
    destruct (f x) eqn:Fx.
    + cbn [In]. rewrite T. split.
      * intros [E|[Hle H]]; [subst j; split; [lia|]; exists x; rewrite Nat.sub_diag; auto|split; [lia|exact H]].
      * intros [Hle [y [Hn Hf]]]. destruct (Nat.eq_dec i j) as [E|E]; [left; exact E|right; split; [lia|]; exists y; auto].
    + rewrite T. split.
      * intros [Hle H]; split; [lia|exact H].
      * intros [Hle [y [Hn Hf]]]. destruct (Nat.eq_dec i j) as [E|E].
        -- subst j. rewrite Nat.sub_diag in Hn. cbn in Hn. injection Hn as <-. congruence.
        -- split; [lia|]. exists y; auto.
Qed.

Lemma idx_filter_In {A} (f : A -> bool) l j :
  In j (idx_filter f l) <-> exists x, nth_error l j = Some x /\ f x = true.
Proof.
  unfold idx_filter. rewrite idx_filter_from_In. rewrite Nat.sub_0_r. split; [intros [_ H]; exact H|intros H; split; [lia|exact H]].
Qed.

Lemma idx_filter_from_rows {A} (f : A -> bool) l : forall i pre, length pre = i ->
  map (nth_error (pre ++ l)) (idx_filter_from f i l) = map Some (filter f l).
Proof.
  induction l as [|x t IH]; intros i pre Hp; cbn [idx_filter_from filter map]; [reflexivity|].
  assert (E : pre ++ x :: t = (pre ++ [x]) ++ t) by (rewrite <- app_assoc; reflexivity).
  destruct (f x); cbn [map].
  - f_equal.
    + rewrite nth_error_app2 by lia. rewrite Hp, Nat.sub_diag. reflexivity.
    + rewrite E. apply IH. rewrite app_length. cbn. lia.
  - rewrite E. apply IH. rewrite app_length. cbn. lia.
Qed.

(* the index list names exactly the rows that are returned, in the same order *)
Lemma idx_filter_rows {A} (f : A -> bool) l :
  map (nth_error l) (idx_filter f l) = map Some (filter f l).
Proof. apply (idx_filter_from_rows f l 0%nat []). reflexivity. Qed.

Lemma idx_filter_length {A} (f : A -> bool) l : length (idx_filter f l) = length (filter f l).
Proof.
  rewrite <- (map_length (nth_error l)), idx_filter_rows, map_length. reflexivity.
Qed.

Theorem crop_partition (area : list vertex) (cloud : list point) :
  Permutation cloud (filter (selected area true) cloud ++ filter (selected area false) cloud) /\
  (length (crop_idx area true cloud) + length (crop_idx area false cloud) = length cloud)%nat /\
  (forall i, (i < length cloud)%nat ->
     (In i (crop_idx area true cloud) /\ ~ In i (crop_idx area false cloud)) \/
     (~ In i (crop_idx area true cloud) /\ In i (crop_idx area false cloud))).
Proof.
  split; [apply filter_compl_perm; apply selected_partition|].
  split; [unfold crop_idx; rewrite !idx_filter_length; apply filter_compl_length; apply selected_partition|].
  intros i Hi. unfold crop_idx. rewrite !idx_filter_In.
  destruct (nth_error cloud i) as [p|] eqn:E; [|apply nth_error_None in E; lia].
  pose proof (selected_partition area p) as P.
  destruct (selected area false p) eqn:F; cbn in P.
  - right. split; [intros [x [Hx Hs]]; congruence|exists p; auto].
  - left. split; [exists p; auto|intros [x [Hx Hs]]; congruence].
Qed.

(* the RuntimeError cases do not depend on [inside] *)
Theorem crop_pointcloud_partition ncols cloud area ins :
  crop_pointcloud ncols cloud area true = Some ins ->
  exists outs, crop_pointcloud ncols cloud area false = Some outs /\ Permutation cloud (ins ++ outs).
Proof.
  unfold crop_pointcloud. destruct (ncols <? 2)%nat; [discriminate|].
  destruct (negb (area_ok area)); [discriminate|]. intros H. injection H as <-.
  eexists; split; [reflexivity|]. apply filter_compl_perm. apply selected_partition.
Qed.
