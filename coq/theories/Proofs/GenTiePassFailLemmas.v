(* Helper lemmas of Props/GenTiePassFail.v (generated frame-bookkeeping loops = hand models, for lists of any length).

   Nothing here mentions a generated definition (Gen/loops_passfail.v is regenerated on every run; this file is not).
   LOOP RULES for the shapes translator/loops_passfail.py emits: a `for x in xs` whose body appends to lists created before the loop
   is  fold_left body xs (Ok <lists>)  in the error monad.  The hand models are RIGHT folds that cons (Filter.filter_res,
   PassFail.get_positive, negative_results, negative_rest); each rule says: when one iteration of the generated body is
   "classify x with the model's per-element function, then append accordingly" (the only obligation left to the caller, closed
   by the generic case-splitting tactic [tie] of Proofs/GenTieLemmas.v), the whole loop started from ANY lists computes those lists
   followed by the model's result -- the induction over the length of the list is done once, here, and the order of the elements
   and the propagation of the first exception are part of the statement. *)
From Coq Require Import List Bool ZArith Arith Lia.
From PE Require Import Base.QUtil Proofs.GenTieLemmas.
From PE Require Model.Filter Model.PassFail.
Import ListNotations.
Import Filter.
Import PassFail.

(* once the state is an error every later iteration keeps it *)
Lemma fold_err_type {St A} (body : res St -> A -> res St) xs :
  (forall x, body ErrType x = ErrType) -> fold_left body xs ErrType = ErrType.
Proof. intros H. induction xs; simpl; [reflexivity|]. rewrite H. exact IHxs. Qed.

Lemma fold_err_index {St A} (body : res St -> A -> res St) xs :
  (forall x, body ErrIndex x = ErrIndex) -> fold_left body xs ErrIndex = ErrIndex.
Proof. intros H. induction xs; simpl; [reflexivity|]. rewrite H. exact IHxs. Qed.

(* ---- the filter loop:  for x in xs: if p(x): kept.append(x)  ---------------------------------------------------------------- *)
Lemma loop_filter_from {A} (p : A -> res bool) (body : res (list A) -> A -> res (list A)) :
  (forall acc x, body (Ok acc) x = bind (p x) (fun b => Ok (if b then acc ++ [x] else acc))) ->
  (forall x, body ErrType x = ErrType) -> (forall x, body ErrIndex x = ErrIndex) ->
  forall xs acc, fold_left body xs (Ok acc) = bind (filter_res p xs) (fun l => Ok (acc ++ l)).
Proof.
  intros H HT HI. induction xs as [|x xs IH]; intros acc; simpl.
  - rewrite app_nil_r. reflexivity.
  - rewrite H. destruct (p x) as [b| |]; simpl.
    + rewrite IH. destruct (filter_res p xs); simpl; try reflexivity.
      destruct b; simpl; [rewrite <- app_assoc|]; reflexivity.
    + apply fold_err_type, HT.
    + apply fold_err_index, HI.
Qed.

Lemma loop_filter {A} (p : A -> res bool) (body : res (list A) -> A -> res (list A)) xs :
  (forall acc x, body (Ok acc) x = bind (p x) (fun b => Ok (if b then acc ++ [x] else acc))) ->
  (forall x, body ErrType x = ErrType) -> (forall x, body ErrIndex x = ErrIndex) ->
  fold_left body xs (Ok []) = filter_res p xs.
Proof.
  intros H HT HI. rewrite (loop_filter_from p body H HT HI). destruct (filter_res p xs); reflexivity.
Qed.

(* ---- get_positive_objects: the TP / FP lists ----------------------------------------------------------------------------------- *)
Definition positive_step (tp fp : list Res) (k : pos_class) : list Res * list Res :=
  match k with PTp y => (tp ++ [y], fp) | PFp y => (tp, fp ++ [y]) | PNone => (tp, fp) end.

Lemma loop_positive_from (pf : PF) (body : res (list Res * list Res) -> Res -> res (list Res * list Res)) :
  (forall tp fp x, body (Ok (tp, fp)) x = bind (classify_positive pf x) (fun k => Ok (positive_step tp fp k))) ->
  (forall x, body ErrType x = ErrType) -> (forall x, body ErrIndex x = ErrIndex) ->
  forall xs tp fp, fold_left body xs (Ok (tp, fp)) = bind (get_positive pf xs) (fun '(a, b) => Ok (tp ++ a, fp ++ b)).
Proof.
  intros H HT HI. induction xs as [|x xs IH]; intros tp fp; simpl.
  - rewrite !app_nil_r. reflexivity.
  - rewrite H. destruct (classify_positive pf x) as [k| |]; simpl.
    + destruct k; simpl; rewrite IH; destruct (get_positive pf xs) as [[a b]| |]; simpl; try reflexivity;
        rewrite <- ?app_assoc; reflexivity.
    + apply fold_err_type, HT.
    + apply fold_err_index, HI.
Qed.

Lemma loop_positive (pf : PF) (body : res (list Res * list Res) -> Res -> res (list Res * list Res)) xs :
  (forall tp fp x, body (Ok (tp, fp)) x = bind (classify_positive pf x) (fun k => Ok (positive_step tp fp k))) ->
  (forall x, body ErrType x = ErrType) -> (forall x, body ErrIndex x = ErrIndex) ->
  fold_left body xs (Ok ([], [])) = get_positive pf xs.
Proof.
  intros H HT HI. rewrite (loop_positive_from pf body H HT HI). destruct (get_positive pf xs) as [[a b]| |]; reflexivity.
Qed.

(* ---- get_negative_objects ---------------------------------------------------------------------------------------------------------
   The code appends `object_result.ground_truth_object` -- an Optional -- to its lists: the generated lists are lists of options and
   the equations say that every element is `Some` of the model's element. *)
Definition OL := list (option Obj).

Definition negative_step (tn fn nc : OL) (k : option (status * Obj)) : OL * OL * OL :=
  match k with
  | Some (TN, g) => (tn ++ [Some g], fn, nc ++ [Some g])
  | Some (FN, g) => (tn, fn ++ [Some g], nc ++ [Some g])
  | Some (_, g) => (tn, fn, nc ++ [Some g])
  | None => (tn, fn, nc)
  end.

Lemma loop_negative_from (pf : PF) (body : res (OL * OL * OL) -> Res -> res (OL * OL * OL)) :
  (forall tn fn nc x, body (Ok (tn, fn, nc)) x = bind (negative_status pf x) (fun k => Ok (negative_step tn fn nc k))) ->
  (forall x, body ErrType x = ErrType) -> (forall x, body ErrIndex x = ErrIndex) ->
  forall xs tn fn nc,
    fold_left body xs (Ok (tn, fn, nc)) =
      bind (negative_results pf xs) (fun '(a, b, c) => Ok (tn ++ map Some a, fn ++ map Some b, nc ++ map Some c)).
Proof.
  intros H HT HI. induction xs as [|x xs IH]; intros tn fn nc; simpl.
  - rewrite !app_nil_r. reflexivity.
  - rewrite H. destruct (negative_status pf x) as [k| |]; simpl.
    + destruct k as [[[] g]|]; simpl; rewrite IH; destruct (negative_results pf xs) as [[[a b] c]| |]; simpl; try reflexivity;
        rewrite <- ?app_assoc; reflexivity.
    + apply fold_err_type, HT.
    + apply fold_err_index, HI.
Qed.

(* `g in non_candidates` on a list of options all of which are Some *)
Lemma existsb_map_some (f : Obj -> bool) (l : list Obj) :
  existsb (fun h_ => match h_ with Some h => f h | None => false end) (map Some l) = existsb f l.
Proof. induction l; simpl; [reflexivity|]. rewrite IHl. reflexivity. Qed.

Definition rest_step (nc : list Obj) (tn fn : OL) (g : Obj) : OL * OL :=
  if key_mem g nc then (tn, fn) else if lbl_is_fp (o_label g) then (tn ++ [Some g], fn) else (tn, fn ++ [Some g]).

Lemma loop_negative_rest_from (nc : list Obj) (body : res (OL * OL) -> Obj -> res (OL * OL)) :
  (forall tn fn g, body (Ok (tn, fn)) g = Ok (rest_step nc tn fn g)) ->
  forall gts tn fn,
    fold_left body gts (Ok (tn, fn)) =
      Ok (tn ++ map Some (fst (negative_rest nc gts)), fn ++ map Some (snd (negative_rest nc gts))).
Proof.
  intros H. induction gts as [|g gts IH]; intros tn fn; simpl.
  - rewrite !app_nil_r. reflexivity.
  - rewrite H. unfold rest_step. destruct (negative_rest nc gts) as [a b] eqn:E. simpl in IH.
    destruct (key_mem g nc); [apply IH|].
    destruct (lbl_is_fp (o_label g)); rewrite IH; simpl; rewrite <- ?app_assoc; reflexivity.
Qed.

(* the two loops together = PassFail.get_negative with every element wrapped in Some *)
Lemma negative_compose (pf : PF) (gts : list Obj) (rs : list Res) (second : OL * OL * OL -> res (OL * OL)) :
  (forall a b c, second (map Some a, map Some b, map Some c) =
                 Ok (map Some a ++ map Some (fst (negative_rest c gts)), map Some b ++ map Some (snd (negative_rest c gts)))) ->
  bind (bind (negative_results pf rs) (fun '(a, b, c) => Ok ([] ++ map Some a, [] ++ map Some b, [] ++ map Some c))) second =
    bind (get_negative pf gts rs) (fun '(tn, fn) => Ok (map Some tn, map Some fn)).
Proof.
  intros H. unfold get_negative. destruct (negative_results pf rs) as [[[a b] c]| |]; simpl; try reflexivity.
  rewrite H. destruct (negative_rest c gts) as [t2 f2]. simpl. rewrite !map_app. reflexivity.
Qed.

(* `return a, b` after a loop whose state is the pair (a, b) *)
Lemma bind_ret_pair {A B} (m : res (A * B)) : bind m (fun '(a, b) => Ok (a, b)) = m.
Proof. destruct m as [[a b]| |]; reflexivity. Qed.
