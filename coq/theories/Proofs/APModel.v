(* Theorems about ap_model (the whole Ap computation) and threshold monotonicity (C04, C08). *)
From Coq Require Import List Bool ZArith Lia Psatz Permutation.
From PE Require Import Base.QUtil Model.AP Proofs.APEnvelope Proofs.APRanking Proofs.APKinds.
Import ListNotations.
Open Scope Q_scope.

Definition ranking (m : mode) (rs : list res) : list kind := map (classify m) (sort_desc conf rs).

Lemma ap_model_nonempty : forall m n rs, rs <> [] ->
  ap_model m n rs = mkAp (cumsum 0 (map tpval (ranking m rs))) (cumsum 0 (map fpval (ranking m rs)))
                         (Some (ap_of_kinds n (ranking m rs))).
Proof. intros m n [|r rs] H; [congruence|reflexivity]. Qed.

Definition res_weights_ok (rs : list res) : Prop := forall r, In r rs -> 0 <= weight r <= 1.

Lemma ranking_weights_ok : forall m rs, res_weights_ok rs -> weights_ok (ranking m rs).
Proof.
  intros m rs H k Hk. unfold ranking in Hk. apply in_map_iff in Hk as [r [<- Hr]].
  apply (Permutation_in _ (sort_desc_perm conf rs)) in Hr. specialize (H r Hr).
  unfold classify. destruct (thr r); [|simpl; lra]. destruct (is_result_correct _ _ _); simpl; lra.
Qed.

(* ---- APH vs AP: same results, TP weight 1 instead of the heading agreement ---------------------------- *)
Definition with_unit_weight (r : res) : res :=
  mkRes (rid r) (conf r) (has_gt r) (gt_fp r) (lab_ok r) (thr r) (matching r) 1.

Lemma classify_unit_weight : forall m r, classify m (with_unit_weight r) = unit_weight (classify m r).
Proof.
  intros m r. unfold classify, is_result_correct. simpl.
  destruct (thr r); [|reflexivity].
  destruct (negb (has_gt r)); [reflexivity|]. destruct (matching r).
  - destruct (gt_fp r); [destruct (negb _)|destruct (_ && _)]; reflexivity.
  - destruct (lab_ok r); reflexivity.
Qed.

Lemma ranking_unit_weight : forall m rs,
  ranking m (map with_unit_weight rs) = map unit_weight (ranking m rs).
Proof.
  intros m rs. unfold ranking.
  rewrite (sort_desc_map _ _ conf conf with_unit_weight) by reflexivity.
  rewrite !map_map. apply map_ext. apply classify_unit_weight.
Qed.

Theorem aph_le_ap_model : forall m n rs, res_weights_ok rs ->
  ap_of_kinds n (ranking m rs) <= ap_of_kinds n (ranking m (map with_unit_weight rs)).
Proof.
  intros m n rs H. rewrite ranking_unit_weight. apply aph_le_ap. now apply ranking_weights_ok.
Qed.

(* ---- loosening the threshold ------------------------------------------------------------------------------ *)
(* t' is at least as loose as t *)
Definition looser (m : mode) (t t' : Q) : Prop :=
  match m with Minimize => t <= t' | Maximize => t' <= t end.

Theorem better_than_monotone : forall m v t t',
  looser m t t' -> better_than m v t = true -> better_than m v t' = true.
Proof.
  intros m [x|] t t' L; [|discriminate]. destruct m; simpl in *; rewrite !Qltb_true; lra.
Qed.

Theorem better_than_none : forall m t, better_than m None t = false.
Proof. reflexivity. Qed.

(* a result with ordinary (not false-positive-labelled) ground truth that is correct at t stays
   correct at every looser t' *)
Theorem result_correct_monotone : forall m r t t',
  gt_fp r = false -> looser m t t' ->
  is_result_correct m (Some t) r = true -> is_result_correct m (Some t') r = true.
Proof.
  intros m r t t' Hfp L. unfold is_result_correct. rewrite Hfp.
  destruct (negb (has_gt r)); [discriminate|]. destruct (matching r) as [v|]; [|tauto].
  rewrite !andb_true_iff. intros [H1 H2]. split; [|assumption]. now apply (better_than_monotone m v t t').
Qed.

(* why false-positive-labelled ground truth is excluded: there, correctness is antitone *)
Example fp_label_counterexample :
  let r := mkRes 0 1 true true true (Some 1) (Some (Some (3 # 2))) 1 in
  is_result_correct Minimize (Some 1) r = true /\ is_result_correct Minimize (Some 2) r = false.
Proof. split; reflexivity. Qed.

(* replace each result's threshold *)
Definition set_thr (f : res -> option Q) (r : res) : res :=
  mkRes (rid r) (conf r) (has_gt r) (gt_fp r) (lab_ok r) (f r) (matching r) (weight r).

(* thresholds of the same labels are defined; each defined one gets looser *)
Definition thr_looser (m : mode) (a b : option Q) : Prop :=
  match a, b with
  | None, None => True
  | Some t, Some t' => looser m t t'
  | _, _ => False
  end.

Lemma classify_loosen : forall m f r,
  (has_gt r = true -> gt_fp r = false) -> 0 <= weight r -> thr_looser m (thr r) (f r) ->
  tpval (classify m r) <= tpval (classify m (set_thr f r)).
Proof.
  intros m f r Hfp Hw L. unfold classify. cbn [thr set_thr]. unfold thr_looser in L.
  destruct (thr r) as [t|], (f r) as [t'|]; try tauto; [|simpl; lra].
  destruct (is_result_correct m (Some t) r) eqn:E.
  - assert (G : has_gt r = true).
    { unfold is_result_correct in E. destruct (has_gt r); [reflexivity|discriminate]. }
    assert (E' : is_result_correct m (Some t') (set_thr f r) = true).
    { apply (result_correct_monotone m r t t' (Hfp G) L) in E.
      unfold is_result_correct in *. simpl. exact E. }
    rewrite E'. simpl. lra.
  - destruct (is_result_correct m (Some t') (set_thr f r)); simpl; lra.
Qed.

Lemma ranking_set_thr : forall m f rs,
  ranking m (map (set_thr f) rs) = map (fun r => classify m (set_thr f r)) (sort_desc conf rs).
Proof.
  intros m f rs. unfold ranking.
  rewrite (sort_desc_map _ _ conf conf (set_thr f)) by reflexivity. now rewrite map_map.
Qed.

Definition loosening_ok (m : mode) (f : res -> option Q) (rs : list res) : Prop :=
  forall r, In r rs ->
    (has_gt r = true -> gt_fp r = false) /\ 0 <= weight r <= 1 /\ thr_looser m (thr r) (f r).

Lemma ranking_loosen : forall m f rs, loosening_ok m f rs ->
  kinds_le (ranking m rs) (ranking m (map (set_thr f) rs)).
Proof.
  intros m f rs H. rewrite ranking_set_thr. unfold ranking, kinds_le.
  assert (Hs : forall r, In r (sort_desc conf rs) -> In r rs)
    by (intros r Hr; apply (Permutation_in _ (sort_desc_perm conf rs)); exact Hr).
  induction (sort_desc conf rs) as [|r t IH]; [constructor|].
  cbn [map]. constructor.
  - destruct (H r (Hs r (or_introl eq_refl))) as [A [B C]]. apply classify_loosen; [assumption|lra|assumption].
  - apply IH. intros x Hx. apply Hs. now right.
Qed.

Lemma set_thr_weights_ok : forall f rs, res_weights_ok rs -> res_weights_ok (map (set_thr f) rs).
Proof. intros f rs H r Hr. apply in_map_iff in Hr as [r0 [<- Hr0]]. simpl. now apply H. Qed.

(* AP and APH (any TP weights in [0,1]) never decrease when thresholds are loosened *)
Theorem ap_threshold_monotone : forall m n f rs, loosening_ok m f rs ->
  ap_of_kinds n (ranking m rs) <= ap_of_kinds n (ranking m (map (set_thr f) rs)).
Proof.
  intros m n f rs H.
  assert (W : res_weights_ok rs) by (intros r Hr; apply (H r Hr)).
  apply ap_monotone; [now apply ranking_loosen|now apply ranking_weights_ok|].
  apply ranking_weights_ok. now apply set_thr_weights_ok.
Qed.

(* the number of TPs never decreases *)
Lemma is_tp_loosen : forall m f r,
  (has_gt r = true -> gt_fp r = false) -> thr_looser m (thr r) (f r) ->
  is_tp (classify m r) = true -> is_tp (classify m (set_thr f r)) = true.
Proof.
  intros m f r Hfp L. unfold classify. cbn [thr set_thr]. unfold thr_looser in L.
  destruct (thr r) as [t|], (f r) as [t'|]; try tauto; try discriminate.
  destruct (is_result_correct m (Some t) r) eqn:E; [|discriminate]. intros _.
  assert (G : has_gt r = true).
  { unfold is_result_correct in E. destruct (has_gt r); [reflexivity|discriminate]. }
  apply (result_correct_monotone m r t t' (Hfp G) L) in E.
  assert (E' : is_result_correct m (Some t') (set_thr f r) = true) by (unfold is_result_correct in *; simpl; exact E).
  now rewrite E'.
Qed.

Theorem tp_count_monotone : forall m f rs, loosening_ok m f rs ->
  (count_tp (map (classify m) rs) <= count_tp (map (fun r => classify m (set_thr f r)) rs))%nat.
Proof.
  intros m f rs H. unfold count_tp. induction rs as [|r t IH]; [simpl; lia|].
  assert (IH' : (length (filter is_tp (map (classify m) t)) <=
                 length (filter is_tp (map (fun r => classify m (set_thr f r)) t)))%nat)
    by (apply IH; intros x Hx; apply H; now right).
  destruct (H r (or_introl eq_refl)) as [A [_ C]].
  cbn [map filter]. destruct (is_tp (classify m r)) eqn:E.
  - rewrite (is_tp_loosen m f r A C E). simpl. lia.
  - destruct (is_tp (classify m (set_thr f r))); simpl; lia.
Qed.

(* the set of TPs only grows: every result that is a TP stays one *)
Theorem tp_set_monotone : forall m f rs r, loosening_ok m f rs -> In r rs ->
  is_tp (classify m r) = true -> is_tp (classify m (set_thr f r)) = true.
Proof. intros m f rs r H Hr. destruct (H r Hr) as [A [_ C]]. now apply is_tp_loosen. Qed.

(* which labels have a defined AP does not depend on the thresholds: the mean is over the same labels *)
Lemma mean_defined_monotone : forall l l',
  Forall2 (fun a b => match a, b with
                      | None, None => True
                      | Some x, Some y => x <= y
                      | _, _ => False end) l l' ->
  match mean_defined l, mean_defined l' with
  | None, None => True
  | Some x, Some y => x <= y
  | _, _ => False
  end.
Proof.
  intros l l' H.
  assert (S2 : Forall2 Qle (somes l) (somes l')).
  { induction H as [|a b t t' Hab H IH]; [constructor|].
    destruct a, b; simpl; try tauto. now constructor. }
  unfold mean_defined.
  destruct S2 as [|x y vs vs' Hxy S2]; [exact I|].
  assert (L : length vs = length vs') by (eapply Forall2_len; eauto).
  assert (Q : qsum vs <= qsum vs') by (clear -S2; induction S2; simpl; lra).
  cbn [length qsum]. rewrite <- L.
  apply Qdiv_le_compat_l; [apply Qnat_pos; lia|lra].
Qed.

(* ---- pass/fail status of a matched result (get_positive_objects / get_negative_objects) -------------------- *)
Lemma result_correct_monotone_opt : forall m r a b,
  gt_fp r = false -> thr_looser m a b ->
  is_result_correct m a r = true -> is_result_correct m b r = true.
Proof.
  intros m r [t|] [t'|] Hfp L; simpl in L; try tauto.
  now apply result_correct_monotone.
Qed.

Theorem positive_tp_monotone : forall m f r,
  thr_looser m (thr r) (f r) -> positive_tp m r = true -> positive_tp m (set_thr f r) = true.
Proof.
  intros m f r L. unfold positive_tp. cbn [has_gt gt_fp thr set_thr].
  rewrite !andb_true_iff, !negb_true_iff. intros [[G F] C]. repeat split; try assumption.
  apply (result_correct_monotone_opt m r (thr r) (f r) F L) in C.
  unfold is_result_correct in *. simpl. exact C.
Qed.

Theorem matched_fn_antitone : forall m f r,
  thr_looser m (thr r) (f r) -> matched_fn m (set_thr f r) = true -> matched_fn m r = true.
Proof.
  intros m f r L. unfold matched_fn. cbn [has_gt gt_fp thr set_thr].
  rewrite !andb_true_iff, !negb_true_iff. intros [[G F] C]. repeat split; try assumption.
  destruct (is_result_correct m (thr r) r) eqn:E; [|reflexivity].
  apply (result_correct_monotone_opt m r (thr r) (f r) F L) in E.
  unfold is_result_correct in *. simpl in C. congruence.
Qed.

(* every matched ordinary ground truth is exactly one of TP / FN, at any threshold *)
Theorem positive_or_fn : forall m r, has_gt r = true -> gt_fp r = false ->
  xorb (positive_tp m r) (matched_fn m r) = true.
Proof.
  intros m r G F. unfold positive_tp, matched_fn. rewrite G, F. simpl.
  destruct (is_result_correct m (thr r) r); reflexivity.
Qed.
