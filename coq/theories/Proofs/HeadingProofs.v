(* Proofs about Model/Heading.v (C09).  Everything is piecewise linear over Q: split the boolean
   comparisons innermost-first ([q_cases]) and finish with [lra]. *)
From Coq Require Import QArith List Bool Setoid Morphisms.
From PE Require Import Base.QUtil Model.Heading.
Import ListNotations.
Open Scope Q_scope.

(* ---- the functions respect == --------------------------------------------------------------- *)
Global Instance qabs_proper : Proper (Qeq ==> Qeq) qabs.
Proof. intros a b H. unfold qabs. q_cases; lra. Qed.
Global Instance wrap_yaw_proper : Proper (Qeq ==> Qeq) wrap_yaw.
Proof. intros a b H. unfold wrap_yaw. q_cases; lra. Qed.
Global Instance heading_fold_proper : Proper (Qeq ==> Qeq) heading_fold.
Proof. intros a b H. unfold heading_fold. q_cases; lra. Qed.
Global Instance clip_proper : Proper (Qeq ==> Qeq) clip.
Proof. intros a b H. unfold clip. q_cases; lra. Qed.
Global Instance yaw_dist_proper : Proper (Qeq ==> Qeq ==> Qeq) yaw_dist.
Proof. intros a b H c d G. unfold yaw_dist, qabs. q_cases; lra. Qed.
Global Instance aph_weight_h_proper : Proper (Qeq ==> Qeq ==> Qeq) aph_weight_h.
Proof. intros a b H c d G. unfold aph_weight_h, qabs. q_cases; lra. Qed.

(* ---- the specification ---------------------------------------------------------------------- *)
Lemma yaw_dist_range q1 q2 : valid_yaw q1 -> valid_yaw q2 -> 0 <= yaw_dist q1 q2 <= 1.
Proof. unfold valid_yaw, yaw_dist, qabs. intros [? ?] [? ?]. q_cases; lra. Qed.

Lemma yaw_dist_sym q1 q2 : yaw_dist q1 q2 == yaw_dist q2 q1.
Proof. unfold yaw_dist, qabs. q_cases; lra. Qed.

Lemma yaw_dist_is_min q1 q2 : valid_yaw q1 -> valid_yaw q2 ->
  (yaw_dist q1 q2 == qabs (q1 - q2) \/ yaw_dist q1 q2 == 2 - qabs (q1 - q2)) /\
  yaw_dist q1 q2 <= qabs (q1 - q2) /\ yaw_dist q1 q2 <= 2 - qabs (q1 - q2).
Proof.
  unfold valid_yaw, yaw_dist, qabs. intros [? ?] [? ?]. q_cases; (split; [first [left; lra|right; lra]|lra]).
Qed.

Lemma wrap_yaw_valid x : -2 < x -> x <= 2 -> valid_yaw (wrap_yaw x).
Proof. unfold valid_yaw, wrap_yaw. intros. q_cases; lra. Qed.

Lemma wrap_yaw_id q : valid_yaw q -> wrap_yaw (q + 0) == q.
Proof. unfold valid_yaw, wrap_yaw. intros [? ?]. q_cases; lra. Qed.

(* rotating there and back is the identity on yaws *)
Lemma wrap_yaw_back q e : valid_yaw q -> valid_yaw e -> wrap_yaw (wrap_yaw (q + e) + - e) == q.
Proof. unfold valid_yaw, wrap_yaw. intros [? ?] [? ?]. q_cases; lra. Qed.

(* a common rotation (with wrap-around) does not change the minimal yaw difference *)
Lemma yaw_dist_rot q1 q2 e : valid_yaw q1 -> valid_yaw q2 -> valid_yaw e ->
  yaw_dist (wrap_yaw (q1 + e)) (wrap_yaw (q2 + e)) == yaw_dist q1 q2.
Proof. unfold valid_yaw, yaw_dist, wrap_yaw, qabs. intros [? ?] [? ?] [? ?]. q_cases; lra. Qed.

(* ---- APH weight ----------------------------------------------------------------------------- *)
Lemma weight_fold_spec q1 q2 : valid_yaw q1 -> valid_yaw q2 ->
  aph_weight_h (heading_fold q1) (heading_fold q2) == 1 - yaw_dist q1 q2.
Proof.
  unfold valid_yaw, aph_weight_h, heading_fold, yaw_dist, qabs. intros [? ?] [? ?]. q_cases; lra.
Qed.

Lemma aph_weight_ego_spec o1 o2 : valid_yaw (yaw_of o1) -> valid_yaw (yaw_of o2) ->
  aph_weight_ego o1 o2 == 1 - yaw_dist (yaw_of o1) (yaw_of o2).
Proof. intros. unfold aph_weight_ego, heading_bev_ego. apply weight_fold_spec; assumption. Qed.

Lemma aph_weight_map_spec o1 o2 : valid_yaw (yaw_of o1) -> valid_yaw (yaw_of o2) ->
  aph_weight_map o1 o2 == 1 - yaw_dist (yaw_of o1) (yaw_of o2).
Proof.
  intros H1 H2. unfold aph_weight_map, heading_bev_via.
  rewrite (wrap_yaw_id _ H1), (wrap_yaw_id _ H2). apply weight_fold_spec; assumption.
Qed.

Theorem aph_weight_spec mf o1 o2 : valid_yaw (yaw_of o1) -> valid_yaw (yaw_of o2) ->
  aph_weight mf o1 o2 == 1 - yaw_dist (yaw_of o1) (yaw_of o2).
Proof. destruct mf; [apply aph_weight_map_spec|apply aph_weight_ego_spec]. Qed.

Theorem aph_weight_range mf o1 o2 : valid_yaw (yaw_of o1) -> valid_yaw (yaw_of o2) ->
  0 <= aph_weight mf o1 o2 <= 1.
Proof.
  intros H1 H2. rewrite (aph_weight_spec mf o1 o2 H1 H2).
  destruct (yaw_dist_range _ _ H1 H2). split; lra.
Qed.

Theorem aph_weight_sym mf o1 o2 : valid_yaw (yaw_of o1) -> valid_yaw (yaw_of o2) ->
  aph_weight mf o1 o2 == aph_weight mf o2 o1.
Proof.
  intros H1 H2. rewrite (aph_weight_spec mf o1 o2 H1 H2), (aph_weight_spec mf o2 o1 H2 H1), yaw_dist_sym. reflexivity.
Qed.

Theorem aph_weight_equal_one mf o1 o2 : valid_yaw (yaw_of o1) -> valid_yaw (yaw_of o2) ->
  yaw_of o1 == yaw_of o2 -> aph_weight mf o1 o2 == 1.
Proof.
  intros H1 H2 E. rewrite (aph_weight_spec mf o1 o2 H1 H2), E.
  unfold yaw_dist, qabs. q_cases; lra.
Qed.

(* opposite headings: the yaws differ by exactly half a turn *)
Theorem aph_weight_opposite_zero mf o1 o2 : valid_yaw (yaw_of o1) -> valid_yaw (yaw_of o2) ->
  (yaw_of o1 - yaw_of o2 == 1 \/ yaw_of o2 - yaw_of o1 == 1) -> aph_weight mf o1 o2 == 0.
Proof.
  intros H1 H2 E. rewrite (aph_weight_spec mf o1 o2 H1 H2).
  unfold yaw_dist, qabs. destruct E; q_cases; lra.
Qed.

(* the weight is 1 only for equal and 0 only for opposite headings *)
Theorem aph_weight_endpoints_only mf o1 o2 : valid_yaw (yaw_of o1) -> valid_yaw (yaw_of o2) ->
  (aph_weight mf o1 o2 == 1 -> yaw_of o1 == yaw_of o2) /\
  (aph_weight mf o1 o2 == 0 -> yaw_of o1 - yaw_of o2 == 1 \/ yaw_of o2 - yaw_of o1 == 1).
Proof.
  intros H1 H2. rewrite (aph_weight_spec mf o1 o2 H1 H2).
  unfold valid_yaw in *. destruct H1, H2. unfold yaw_dist, qabs.
  split; q_cases; intros; first [lra | left; lra | right; lra].
Qed.

Theorem aph_weight_sign_independent mf q1 q2 s1 s2 s1' s2' :
  aph_weight mf (q1, s1) (q2, s2) = aph_weight mf (q1, s1') (q2, s2').
Proof.
  unfold aph_weight, aph_weight_map, aph_weight_ego, heading_bev_via, heading_bev_ego, yaw_of. cbn [fst].
  reflexivity.
Qed.

Lemma in_map_valid e o : valid_yaw (yaw_of o) -> valid_yaw e -> valid_yaw (yaw_of (in_map e o)).
Proof.
  unfold in_map, yaw_of. cbn [fst]. intros [? ?] [? ?]. apply wrap_yaw_valid; lra.
Qed.

(* the pair expressed in the map frame (both rotated by the ego yaw) gets the weight of the pair
   expressed in the ego frame *)
Theorem aph_weight_frame_independent e o1 o2 :
  valid_yaw (yaw_of o1) -> valid_yaw (yaw_of o2) -> valid_yaw e ->
  aph_weight true (in_map e o1) (in_map e o2) == aph_weight false o1 o2.
Proof.
  intros H1 H2 He.
  rewrite (aph_weight_spec true _ _ (in_map_valid e o1 H1 He) (in_map_valid e o2 H2 He)).
  rewrite (aph_weight_spec false o1 o2 H1 H2).
  unfold in_map, yaw_of. cbn [fst]. rewrite (yaw_dist_rot _ _ e H1 H2 He). reflexivity.
Qed.

(* get_heading_bev of a map-frame object through the real map->base_link transform (yaw -e) is the
   heading of the same object expressed in the ego frame *)
Theorem heading_bev_frame_independent e o : valid_yaw (yaw_of o) -> valid_yaw e ->
  heading_bev_via (- e) (in_map e o) == heading_bev_ego o.
Proof.
  intros H He. unfold heading_bev_via, heading_bev_ego, in_map, yaw_of. cbn [fst].
  rewrite (wrap_yaw_back _ _ H He). reflexivity.
Qed.

Lemma heading_fold_range q : valid_yaw q -> -1 <= heading_fold q <= 1.
Proof. unfold valid_yaw, heading_fold. intros [? ?]. q_cases; lra. Qed.

(* ---- yaw error ------------------------------------------------------------------------------ *)
Theorem yaw_error_range o1 o2 : valid_yaw (yaw_of o1) -> valid_yaw (yaw_of o2) ->
  -1 <= yaw_error o1 o2 <= 1.
Proof. unfold valid_yaw, yaw_error, clip. intros [? ?] [? ?]. q_cases; lra. Qed.

Theorem yaw_error_magnitude o1 o2 : valid_yaw (yaw_of o1) -> valid_yaw (yaw_of o2) ->
  qabs (yaw_error o1 o2) == yaw_dist (yaw_of o1) (yaw_of o2).
Proof. unfold valid_yaw, yaw_error, clip, yaw_dist, qabs. intros [? ?] [? ?]. q_cases; lra. Qed.

(* the error is the rotation that takes the estimate's yaw to the ground truth's (on the circle) *)
Theorem yaw_error_direction o1 o2 : valid_yaw (yaw_of o1) -> valid_yaw (yaw_of o2) ->
  yaw_of o1 + yaw_error o1 o2 == yaw_of o2 \/ yaw_of o1 + yaw_error o1 o2 == yaw_of o2 + 2 \/
  yaw_of o1 + yaw_error o1 o2 == yaw_of o2 - 2.
Proof.
  unfold valid_yaw, yaw_error, clip. intros [? ?] [? ?].
  q_cases; first [left; lra | right; left; lra | right; right; lra].
Qed.

Theorem yaw_error_antisym o1 o2 : valid_yaw (yaw_of o1) -> valid_yaw (yaw_of o2) ->
  qabs (yaw_error o1 o2) == qabs (yaw_error o2 o1).
Proof.
  intros H1 H2. rewrite (yaw_error_magnitude o1 o2 H1 H2), (yaw_error_magnitude o2 o1 H2 H1). apply yaw_dist_sym.
Qed.

(* ---- Ap.tp_list with TPMetricsAph ----------------------------------------------------------- *)
Lemma cumsum_from_eq l l' : Forall2 Qeq l l' -> forall a a', a == a' ->
  Forall2 Qeq (cumsum_from a l) (cumsum_from a' l').
Proof.
  induction 1 as [|x y s t Hxy Hst IH]; intros a a' Ha; cbn [cumsum_from]; constructor.
  - rewrite Ha, Hxy. reflexivity.
  - apply IH. rewrite Ha, Hxy. reflexivity.
Qed.

Theorem aph_tp_list_spec mf pairs :
  Forall (fun p => valid_yaw (yaw_of (fst p)) /\ valid_yaw (yaw_of (snd p))) pairs ->
  Forall2 Qeq (aph_tp_list mf pairs)
              (cumsum_from 0 (map (fun p => 1 - yaw_dist (yaw_of (fst p)) (yaw_of (snd p))) pairs)).
Proof.
  intros H. unfold aph_tp_list. apply cumsum_from_eq; [|reflexivity].
  induction H as [|p t [H1 H2] Ht IH]; cbn [map]; constructor; [|exact IH].
  apply aph_weight_spec; assumption.
Qed.
