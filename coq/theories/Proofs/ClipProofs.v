(* C06 -- facts about the exact clipper of Model/Clip.v itself (it is an evaluator, not a
   specification: these lemmas show it is right where that can be said without measure
   theory). *)
From Coq Require Import List ZArith QArith Bool Lia Lqa Psatz.
From PE Require Import Base.QUtil Model.Geom2 Model.Clip Proofs.Geom2Proofs.
Import ListNotations.
Open Scope Q_scope.

(* a pass that cuts nothing returns the polygon unchanged *)
Lemma clip_edge_aux_all_inside a b prev l :
  inside a b prev = true -> (forall p, In p l -> inside a b p = true) -> clip_edge_aux a b prev l = l.
Proof.
  revert prev. induction l as [|cur t IH]; intros prev Hp Hl; cbn [clip_edge_aux]; [reflexivity|].
  rewrite (Hl cur (or_introl eq_refl)), Hp. cbn [app]. f_equal.
  apply IH; [apply Hl; now left|intros p Hin; apply Hl; now right].
Qed.

Lemma clip_edge_all_inside a b poly :
  (forall p, In p poly -> inside a b p = true) -> clip_edge a b poly = poly.
Proof.
  intros H. unfold clip_edge. destruct (rev poly) as [|lastp r] eqn:E.
  - destruct poly as [|x t]; [reflexivity|].
    apply (f_equal (@length pt)) in E. rewrite rev_length in E. discriminate.
  - apply clip_edge_aux_all_inside; [|exact H].
    apply H. apply in_rev. rewrite E. now left.
Qed.

(* the shoelace area of a box footprint is length * width *)
Lemma poly_area_corners b : box_unit b -> poly_area (corners b) == area_rect b.
Proof.
  unfold box_unit. intros U. rewrite corners4.
  unfold poly_area, shoelace2, shoelace_aux, cross0, place, add_pt, rot, centre2, area_rect. cbn [fst snd].
  transitivity ((bc b * bc b + bs b * bs b) * (bl b * bw b)); [halves; ring|].
  rewrite U. ring.
Qed.

(* every corner of a box is on the inner side of (or on) each of its edges: convex, CCW *)
Ltac cross_corner b :=
  unfold inside; apply Qleb_true;
  unfold cross, place, add_pt, rot, centre2; cbn [fst snd];
  match goal with
  | |- 0 <= ?x =>
      first [ assert (E : x == 0) by (halves; ring); rewrite E; lra
            | assert (E : x == (bc b * bc b + bs b * bs b) * (bl b * bw b)) by (halves; ring);
              rewrite E ]
  end.

Lemma corners_convex_ccw b :
  box_valid b ->
  forall ab, In ab (edges (corners b)) -> forall p, In p (corners b) -> inside (fst ab) (snd ab) p = true.
Proof.
  intros [(Hw & Hl & _) U] ab Hab p Hp. unfold box_unit in U.
  assert (P : 0 <= (bc b * bc b + bs b * bs b) * (bl b * bw b)) by (rewrite U; nra).
  rewrite corners4 in Hab, Hp. unfold edges in Hab. cbn [combine app] in Hab.
  destruct Hab as [<-|[<-|[<-|[<-|[]]]]]; destruct Hp as [<-|[<-|[<-|[<-|[]]]]]; cbn [fst snd];
    cross_corner b; exact P.
Qed.

(* the same for the reduced corners used by the evaluator ( Qred q == q ) *)
Lemma pt_red_eq p : pt_eq (pt_red p) p.
Proof. unfold pt_eq, pt_red. cbn [fst snd]. split; apply Qred_correct. Qed.

Lemma cross_pt_eq a b p a' b' p' : pt_eq a a' -> pt_eq b b' -> pt_eq p p' -> cross a b p == cross a' b' p'.
Proof. intros [A1 A2] [B1 B2] [P1 P2]. unfold cross. rewrite A1, A2, B1, B2, P1, P2. reflexivity. Qed.

Lemma rcorners_convex_ccw b :
  box_valid b ->
  forall ab, In ab (edges (rcorners b)) -> forall p, In p (rcorners b) -> inside (fst ab) (snd ab) p = true.
Proof.
  intros V ab Hab p Hp. pose proof (corners_convex_ccw b V) as H.
  unfold rcorners in *. rewrite corners4 in *. unfold edges in *. cbn [map combine app] in *.
  unfold inside in *. apply Qleb_true.
  destruct Hab as [<-|[<-|[<-|[<-|[]]]]]; destruct Hp as [<-|[<-|[<-|[<-|[]]]]]; cbn [fst snd];
    rewrite (cross_pt_eq _ _ _ _ _ _ (pt_red_eq _) (pt_red_eq _) (pt_red_eq _));
    apply Qleb_true; apply (H (_, _)); cbn; tauto.
Qed.

Lemma poly_area_rcorners b : box_unit b -> poly_area (rcorners b) == area_rect b.
Proof.
  intros U. rewrite <- (poly_area_corners b U). unfold rcorners. rewrite corners4.
  unfold poly_area, shoelace2, shoelace_aux, cross0, pt_red. cbn [map fst snd].
  rewrite !Qred_correct. reflexivity.
Qed.

(* clipping a box footprint by itself gives the footprint back, hence its area:
   the evaluator reports IoU = 1 for identical boxes *)
Lemma clip_self b : box_valid b -> clip (rcorners b) (rcorners b) = rcorners b.
Proof.
  intros V. pose proof (rcorners_convex_ccw b V) as H.
  unfold clip. unfold rcorners in *. rewrite (corners4 b) in *. unfold edges in H. cbn [map combine app] in H.
  cbn [map clip_edges].
  do 4 (match goal with
        | |- context [clip_edge ?a ?c [?p0; ?p1; ?p2; ?p3]] =>
            rewrite (clip_edge_all_inside a c [p0; p1; p2; p3])
              by (intros p Hp; apply (H (a, c)); [cbn; tauto|exact Hp])
        end).
  reflexivity.
Qed.

Lemma inter_clip_self b : box_valid b -> inter_clip b b == area_rect b.
Proof.
  intros V. unfold inter_clip, clip_area. rewrite (clip_self b V). apply poly_area_rcorners, V.
Qed.

Lemma iou2_clip_self b : box_valid b -> iou2_clip b b == 1.
Proof.
  intros V. unfold iou2_clip, iou2_box. apply iou_one.
  - apply area_rect_pos, V.
  - now apply inter_clip_self.
  - reflexivity.
Qed.

Lemma iou3_clip_self b : box_valid b -> iou3_clip b b == 1.
Proof.
  intros V. unfold iou3_clip, iou3_box, volume. apply iou3_one.
  - fold (volume b). apply volume_pos, V.
  - now apply inter_clip_self.
  - apply height_intersection_self. destruct V as [(_ & _ & H) _]. lra.
Qed.

(* the evaluator's plane distance (reduced corners) is the model's *)
Lemma rcorners_img b : Forall2 (img (fun p => p)) (corners b) (rcorners b).
Proof.
  unfold rcorners. induction (corners b) as [|p t IH]; cbn [map]; constructor; [|exact IH].
  unfold img. apply pt_red_eq.
Qed.

Lemma plane_sq_fast_correct e g : oQeq (plane_sq_fast e g) (plane_sq_box e g).
Proof.
  unfold plane_sq_fast, plane_sq_box.
  apply (plane_sq_img (fun p => p)); try (intros; reflexivity); apply rcorners_img.
Qed.

Lemma plane_lr_fast_correct g : plane_lr (rcorners g) = plane_lr (corners g).
Proof.
  pose proof (rcorners_img g) as Hg. unfold plane_lr.
  rewrite (plane_sel_img (fun p => p) (fun p => Qeq_refl _) _ _ Hg).
  destruct (plane_sel (corners g)) as [[i j]|]; [|reflexivity].
  pose proof (Forall2_nth_error _ _ _ Hg i) as Gi. pose proof (Forall2_nth_error _ _ _ Hg j) as Gj.
  destruct (nth_error (corners g) i) as [gi|], (nth_error (rcorners g) i) as [gi'|]; try contradiction; [|reflexivity].
  destruct (nth_error (corners g) j) as [gj|], (nth_error (rcorners g) j) as [gj'|]; try contradiction; [|reflexivity].
  f_equal. apply (left_right_img (fun p => p)); try assumption. intros; reflexivity.
Qed.
