(* C06 -- facts about the exact clipper of Model/Clip.v itself (it is an evaluator, not a
   specification: these lemmas show it is right where that can be said without measure
   theory). *)
From Coq Require Import List ZArith QArith Bool Lia Lqa Psatz.
From PE Require Import Base.QUtil Model.Geom2 Model.Clip Proofs.Geom2Proofs.
Import ListNotations.
Open Scope Q_scope.

(* a pass that cuts nothing returns the polygon unchanged *)
Lemma clip_edge_aux_all_inside a b prev l :
  inside a b prev = true -> (forall p, In p l -> inside a b p = true) -> clip_edge_aux a b prev l = l.
Proof.
  revert prev. induction l as [|cur t IH]; intros prev Hp Hl; cbn [clip_edge_aux]; [reflexivity|].
  rewrite (Hl cur (or_introl eq_refl)), Hp. cbn [app]. f_equal.
  apply IH; [apply Hl; now left|intros p Hin; apply Hl; now right].
Qed.

Lemma clip_edge_all_inside a b poly :
  (forall p, In p poly -> inside a b p = true) -> clip_edge a b poly = poly.
Proof.
  intros H. unfold clip_edge. destruct (rev poly) as [|lastp r] eqn:E.
  - destruct poly as [|x t]; [reflexivity|].
    apply (f_equal (@length pt)) in E. rewrite rev_length in E. discriminate.
  - apply clip_edge_aux_all_inside; [|exact H].
    apply H. apply in_rev. rewrite E. now left.
Qed.

(* the shoelace area of a box footprint is length * width *)
Lemma poly_area_corners b : box_unit b -> poly_area (corners b) == area_rect b.
Proof.
  unfold box_unit. intros U. rewrite corners4.
  unfold poly_area, shoelace2, shoelace_aux, cross0, place, add_pt, rot, centre2, area_rect. cbn [fst snd].
  transitivity ((bc b * bc b + bs b * bs b) * (bl b * bw b)); [halves; ring|].
  rewrite U. ring.
Qed.

(* every corner of a box is on the inner side of (or on) each of its edges: convex, CCW *)
Ltac cross_corner b :=
  unfold inside; apply Qleb_true;
  unfold cross, place, add_pt, rot, centre2; cbn [fst snd];
  match goal with
  | |- 0 <= ?x =>
      first [ assert (E : x == 0) by (halves; ring); rewrite E; lra
            | assert (E : x == (bc b * bc b + bs b * bs b) * (bl b * bw b)) by (halves; ring);
              rewrite E ]
  end.

Lemma corners_convex_ccw b :
  box_valid b ->
  forall ab, In ab (edges (corners b)) -> forall p, In p (corners b) -> inside (fst ab) (snd ab) p = true.
Proof.
  intros [(Hw & Hl & _) U] ab Hab p Hp. unfold box_unit in U.
  assert (P : 0 <= (bc b * bc b + bs b * bs b) * (bl b * bw b)) by (rewrite U; nra).
  rewrite corners4 in Hab, Hp. unfold edges in Hab. cbn [combine app] in Hab.
  destruct Hab as [<-|[<-|[<-|[<-|[]]]]]; destruct Hp as [<-|[<-|[<-|[<-|[]]]]]; cbn [fst snd];
    cross_corner b; exact P.
Qed.

(* the same for the reduced corners used by the evaluator ( Qred q == q ) *)
Lemma pt_red_eq p : pt_eq (pt_red p) p.
Proof. unfold pt_eq, pt_red. cbn [fst snd]. split; apply Qred_correct. Qed.

Lemma cross_pt_eq a b p a' b' p' : pt_eq a a' -> pt_eq b b' -> pt_eq p p' -> cross a b p == cross a' b' p'.
Proof. intros [A1 A2] [B1 B2] [P1 P2]. unfold cross. rewrite A1, A2, B1, B2, P1, P2. reflexivity. Qed.

Lemma box_red_valid b : box_valid b -> box_valid (box_red b).
Proof.
  unfold box_valid, box_pos, box_unit, box_red. cbn [bw bl bh bc bs]. rewrite !Qred_correct. tauto.
Qed.
Lemma box_red_area b : area_rect (box_red b) == area_rect b.
Proof. unfold area_rect, box_red. cbn [bw bl]. rewrite !Qred_correct. reflexivity. Qed.
Lemma box_red_volume b : volume (box_red b) == volume b.
Proof. unfold volume, area_rect, box_red. cbn [bw bl bh]. rewrite !Qred_correct. reflexivity. Qed.
Lemma box_red_height e g : height_intersection (box_red e) (box_red g) == height_intersection e g.
Proof.
  unfold height_intersection, box_red, qmax, qmin. cbn [bz bh]. halves.
  pose proof (Qred_correct (bz e)). pose proof (Qred_correct (bz g)).
  pose proof (Qred_correct (bh e)). pose proof (Qred_correct (bh g)).
  q_cases; lra.
Qed.

Lemma rcorners_convex_ccw b :
  box_valid b ->
  forall ab, In ab (edges (rcorners b)) -> forall p, In p (rcorners b) -> inside (fst ab) (snd ab) p = true.
Proof.
  intros V ab Hab p Hp. pose proof (corners_convex_ccw (box_red b) (box_red_valid b V)) as H.
  unfold rcorners in *. rewrite corners4 in *. unfold edges in *. cbn [map combine app] in *.
  unfold inside in *. apply Qleb_true.
  destruct Hab as [<-|[<-|[<-|[<-|[]]]]]; destruct Hp as [<-|[<-|[<-|[<-|[]]]]]; cbn [fst snd];
    rewrite (cross_pt_eq _ _ _ _ _ _ (pt_red_eq _) (pt_red_eq _) (pt_red_eq _));
    apply Qleb_true; apply (H (_, _)); cbn; tauto.
Qed.

Lemma poly_area_rcorners b : box_unit b -> poly_area (rcorners b) == area_rect b.
Proof.
  intros U. rewrite <- box_red_area.
  assert (U' : box_unit (box_red b)).
  { unfold box_unit, box_red in *. cbn [bc bs]. rewrite !Qred_correct. exact U. }
  rewrite <- (poly_area_corners (box_red b) U'). unfold rcorners. rewrite corners4.
  unfold poly_area, shoelace2, shoelace_aux, cross0, pt_red. cbn [map fst snd].
  rewrite !Qred_correct. reflexivity.
Qed.

(* clipping a box footprint by itself gives the footprint back, hence its area:
   the evaluator reports IoU = 1 for identical boxes *)
Lemma clip_self b : box_valid b -> clip (rcorners b) (rcorners b) = rcorners b.
Proof.
  intros V. pose proof (rcorners_convex_ccw b V) as H.
  unfold clip. unfold rcorners in *. rewrite (corners4 (box_red b)) in *. unfold edges in H. cbn [map combine app] in H.
  cbn [map clip_edges].
  do 4 (match goal with
        | |- context [clip_edge ?a ?c [?p0; ?p1; ?p2; ?p3]] =>
            rewrite (clip_edge_all_inside a c [p0; p1; p2; p3])
              by (intros p Hp; apply (H (a, c)); [cbn; tauto|exact Hp])
        end).
  reflexivity.
Qed.

Lemma inter_clip_self b : box_valid b -> inter_clip b b == area_rect b.
Proof.
  intros V. unfold inter_clip, clip_area. rewrite (clip_self b V). apply poly_area_rcorners, V.
Qed.

Lemma iou2_clip_self b : box_valid b -> iou2_clip b b == 1.
Proof.
  intros V. unfold iou2_clip, iou2_box. apply iou_one.
  - apply area_rect_pos, V.
  - now apply inter_clip_self.
  - reflexivity.
Qed.

Lemma iou3_clip_self b : box_valid b -> iou3_clip b b == 1.
Proof.
  intros V. unfold iou3_clip, iou3_box, volume. apply iou3_one.
  - fold (volume b). apply volume_pos, V.
  - now apply inter_clip_self.
  - apply height_intersection_self. destruct V as [(_ & _ & H) _]. lra.
Qed.

(* the evaluator's plane distance (reduced corners) is the model's *)
Lemma rcorners_img b : Forall2 (img (fun p => p)) (corners b) (rcorners b).
Proof.
  unfold rcorners. rewrite !corners4. cbn [map].
  unfold img, pt_eq, pt_red, place, add_pt, rot, centre2, box_red. cbn [fst snd bx by_ bc bs bw bl].
  repeat (apply Forall2_cons; [cbn [fst snd]; split; rewrite !Qred_correct; reflexivity|]).
  apply Forall2_nil.
Qed.

Lemma plane_sq_fast_correct e g : oQeq (plane_sq_fast e g) (plane_sq_box e g).
Proof.
  unfold plane_sq_fast, plane_sq_box.
  apply (plane_sq_img (fun p => p)); try (intros; reflexivity); apply rcorners_img.
Qed.

Lemma plane_lr_fast_correct g : plane_lr (rcorners g) = plane_lr (corners g).
Proof.
  pose proof (rcorners_img g) as Hg. unfold plane_lr.
  rewrite (plane_sel_img (fun p => p) (fun p => Qeq_refl _) _ _ Hg).
  destruct (plane_sel (corners g)) as [[i j]|]; [|reflexivity].
  pose proof (Forall2_nth_error _ _ _ Hg i) as Gi. pose proof (Forall2_nth_error _ _ _ Hg j) as Gj.
  destruct (nth_error (corners g) i) as [gi|], (nth_error (rcorners g) i) as [gi'|]; try contradiction; [|reflexivity].
  destruct (nth_error (corners g) j) as [gj|], (nth_error (rcorners g) j) as [gj'|]; try contradiction; [|reflexivity].
  f_equal. apply (left_right_img (fun p => p)); try assumption. intros; reflexivity.
Qed.

(* ======================================================================================== *)
(* the hypotheses about [inter] used in Proofs/Geom2Proofs.v section 6 are satisfiable:      *)
(* a (coarse) intersection-area function that fulfils all seven of them                      *)
(* ======================================================================================== *)
Definition same_bev_b (e g : box) : bool :=
  Qeqb (bx e) (bx g) && Qeqb (by_ e) (by_ g) && Qeqb (bc e) (bc g) && Qeqb (bs e) (bs g) &&
  Qeqb (bw e) (bw g) && Qeqb (bl e) (bl g).
Definition inter_toy (e g : box) : Q := if same_bev_b e g then area_rect e else 0.

Lemma Qeqb_true a b : Qeqb a b = true <-> a == b.
Proof. destruct (Qeqb_spec a b); split; intros; auto; try discriminate; contradiction. Qed.

Lemma same_bev_b_spec e g : same_bev_b e g = true <-> same_bev e g.
Proof. unfold same_bev_b, same_bev. rewrite !andb_true_iff, !Qeqb_true. tauto. Qed.

Lemma same_bev_sym e g : same_bev e g -> same_bev g e.
Proof. unfold same_bev. intros (H1 & H2 & H3 & H4 & H5 & H6). repeat split; symmetry; assumption. Qed.

Lemma same_bev_area e g : same_bev e g -> area_rect e == area_rect g.
Proof. intros (_ & _ & _ & _ & Hw & Hl). unfold area_rect. rewrite Hw, Hl. reflexivity. Qed.

Lemma bool_eq_iff (a b : bool) : (a = true <-> b = true) -> a = b.
Proof.
  destruct a, b; intros [H1 H2]; try reflexivity.
  - symmetry. apply H1. reflexivity.
  - apply H2. reflexivity.
Qed.

(* the corner two steps ahead of an edge is strictly inside it *)
Lemma cross_opposite b :
  box_unit b ->
  match corners b with
  | [c0; c1; c2; c3] =>
      cross c0 c1 c2 == bl b * bw b /\ cross c1 c2 c3 == bl b * bw b /\
      cross c2 c3 c0 == bl b * bw b /\ cross c3 c0 c1 == bl b * bw b
  | _ => False
  end.
Proof.
  unfold box_unit. intros U. rewrite corners4.
  unfold cross, place, add_pt, rot, centre2. cbn [fst snd].
  repeat split; (transitivity ((bc b * bc b + bs b * bs b) * (bl b * bw b)); [halves; ring|rewrite U; ring]).
Qed.

Lemma same_bev_not_separated e g :
  box_valid e -> same_bev e g -> ~ separated_by_edge (corners e) (corners g).
Proof.
  intros [(Hw & Hl & _) U] S (ab & Hab & Hsep).
  pose proof (cross_opposite e U) as X. pose proof (corners_same_bev e g S) as C.
  assert (P : 0 < bl e * bw e) by nra.
  rewrite (corners4 e) in *. rewrite (corners4 g) in *. unfold edges in Hab. cbn [combine app] in Hab.
  destruct X as (X0 & X1 & X2 & X3).
  inversion C as [|? ? ? ? C0 C']; subst. inversion C' as [|? ? ? ? C1 C'']; subst.
  inversion C'' as [|? ? ? ? C2 C''']; subst. inversion C''' as [|? ? ? ? C3 _]; subst.
  assert (R : forall p, pt_eq p p) by (intros; split; reflexivity).
  destruct Hab as [<-|[<-|[<-|[<-|[]]]]]; cbn [fst snd] in Hsep.
  - specialize (Hsep _ (or_intror (or_intror (or_introl eq_refl)))).
    rewrite <- (cross_pt_eq _ _ _ _ _ _ (R _) (R _) C2), X0 in Hsep. lra.
  - specialize (Hsep _ (or_intror (or_intror (or_intror (or_introl eq_refl))))).
    rewrite <- (cross_pt_eq _ _ _ _ _ _ (R _) (R _) C3), X1 in Hsep. lra.
  - specialize (Hsep _ (or_introl eq_refl)).
    rewrite <- (cross_pt_eq _ _ _ _ _ _ (R _) (R _) C0), X2 in Hsep. lra.
  - specialize (Hsep _ (or_intror (or_introl eq_refl))).
    rewrite <- (cross_pt_eq _ _ _ _ _ _ (R _) (R _) C1), X3 in Hsep. lra.
Qed.

Lemma rot_inj c s px py qx qy :
  c * c + s * s == 1 ->
  c * px - s * py == c * qx - s * qy -> s * px + c * py == s * qx + c * qy -> px == qx /\ py == qy.
Proof.
  intros U E1 E2.
  assert (D1 : c * (px - qx) - s * (py - qy) == 0) by lra.
  assert (D2 : s * (px - qx) + c * (py - qy) == 0) by lra.
  assert (X : (c * c + s * s) * (px - qx) == c * (c * (px - qx) - s * (py - qy)) + s * (s * (px - qx) + c * (py - qy))) by ring.
  assert (Y : (c * c + s * s) * (py - qy) == c * (s * (px - qx) + c * (py - qy)) - s * (c * (px - qx) - s * (py - qy))) by ring.
  rewrite D1, D2, U in X, Y. split; lra.
Qed.

Lemma same_bev_move m e g : motion_unit m -> (same_bev (move_box m e) (move_box m g) <-> same_bev e g).
Proof.
  unfold motion_unit, same_bev, move_box, move_pt, add_pt, rot, centre2. cbn [bx by_ bc bs bw bl fst snd mtx mty].
  intros U. split.
  - intros (H1 & H2 & H3 & H4 & H5 & H6).
    destruct (rot_inj (mc m) (ms m) (bx e) (by_ e) (bx g) (by_ g) U) as [A1 A2]; [lra|lra|].
    destruct (rot_inj (mc m) (ms m) (bc e) (bs e) (bc g) (bs g) U H3 H4) as [A3 A4].
    repeat split; assumption.
  - intros (H1 & H2 & H3 & H4 & H5 & H6). rewrite H1, H2, H3, H4. repeat split; try reflexivity; assumption.
Qed.

Lemma inter_toy_ok :
  (forall e g, box_valid e -> box_valid g -> 0 <= inter_toy e g) /\
  (forall e g, box_valid e -> box_valid g -> inter_toy e g <= area_rect e) /\
  (forall e g, box_valid e -> box_valid g -> inter_toy e g <= area_rect g) /\
  (forall e g, box_valid e -> box_valid g -> inter_toy e g == inter_toy g e) /\
  (forall e g, box_valid e -> box_valid g -> same_bev e g -> inter_toy e g == area_rect e) /\
  (forall e g, box_valid e -> box_valid g -> boxes_disjoint e g -> inter_toy e g == 0) /\
  (forall m e g, motion_unit m -> box_valid e -> box_valid g ->
     inter_toy (move_box m e) (move_box m g) == inter_toy e g).
Proof.
  unfold inter_toy. repeat split.
  - intros e g Ve Vg. pose proof (area_rect_pos e (proj1 Ve)). destruct (same_bev_b e g); lra.
  - intros e g Ve Vg. pose proof (area_rect_pos e (proj1 Ve)). destruct (same_bev_b e g); lra.
  - intros e g Ve Vg. pose proof (area_rect_pos g (proj1 Vg)).
    destruct (same_bev_b e g) eqn:E; [|lra]. apply same_bev_b_spec, same_bev_area in E. lra.
  - intros e g Ve Vg.
    assert (E : same_bev_b g e = same_bev_b e g).
    { apply bool_eq_iff. rewrite !same_bev_b_spec. split; apply same_bev_sym. }
    rewrite E. destruct (same_bev_b e g) eqn:E'; [|reflexivity].
    apply same_bev_b_spec, same_bev_area in E'. exact E'.
  - intros e g Ve Vg S. apply same_bev_b_spec in S. rewrite S. reflexivity.
  - intros e g Ve Vg D. destruct (same_bev_b e g) eqn:E; [|reflexivity]. exfalso.
    apply same_bev_b_spec in E. destruct D as [D|D].
    + exact (same_bev_not_separated e g Ve E D).
    + exact (same_bev_not_separated g e Vg (same_bev_sym _ _ E) D).
  - intros m e g Um Ve Vg.
    assert (E : same_bev_b (move_box m e) (move_box m g) = same_bev_b e g).
    { apply bool_eq_iff. rewrite !same_bev_b_spec. now apply same_bev_move. }
    rewrite E. rewrite area_rect_move. reflexivity.
Qed.

(* ======================================================================================== *)
(* soundness half of the clipper: the clipped polygon lies in BOTH polygons                  *)
(* ======================================================================================== *)
(* all vertices of [poly] are on the inner side of (or on) the directed line a -> b *)
Definition within (a b : pt) (poly : list pt) : Prop := forall p, In p poly -> 0 <= cross a b p.

Definition lerp (s e : pt) (t : Q) : pt := (fst s + t * (fst e - fst s), snd s + t * (snd e - snd s)).

Lemma cross_lerp a b s e t : cross a b (lerp s e t) == (1 - t) * cross a b s + t * cross a b e.
Proof. unfold cross, lerp. cbn [fst snd]. ring. Qed.

Lemma intersect_lerp a b s e :
  pt_eq (intersect a b s e) (lerp s e (cross a b s / (cross a b s - cross a b e))).
Proof. unfold intersect, lerp, pt_eq. cbv zeta. cbn [fst snd]. split; apply Qred_correct. Qed.

Lemma pt_eq_refl p : pt_eq p p.
Proof. split; reflexivity. Qed.

(* the crossing parameter is in [0,1] when the end points are on different sides *)
Lemma cross_param_range ds de :
  (0 <= ds /\ de < 0) \/ (ds < 0 /\ 0 <= de) -> 0 <= ds / (ds - de) <= 1.
Proof.
  intros [[H1 H2]|[H1 H2]].
  - split; [apply Qdiv_nonneg; lra|apply Qdiv_le_1; lra].
  - assert (E : ds / (ds - de) == (- ds) / (de - ds)) by (field; lra). rewrite E.
    split; [apply Qdiv_nonneg; lra|apply Qdiv_le_1; lra].
Qed.

Lemma mixed_sides a b s e :
  inside a b s <> inside a b e ->
  (0 <= cross a b s /\ cross a b e < 0) \/ (cross a b s < 0 /\ 0 <= cross a b e).
Proof.
  unfold inside. intros H.
  destruct (Qleb_spec 0 (cross a b s)), (Qleb_spec 0 (cross a b e)); try congruence; [left|right]; split; lra.
Qed.

(* a crossing point satisfies every linear inequality both end points satisfy ... *)
Lemma intersect_keeps a' b' a b s e :
  inside a b s <> inside a b e -> 0 <= cross a' b' s -> 0 <= cross a' b' e ->
  0 <= cross a' b' (intersect a b s e).
Proof.
  intros M Hs He. apply mixed_sides in M. apply cross_param_range in M.
  rewrite (cross_pt_eq _ _ _ _ _ _ (pt_eq_refl a') (pt_eq_refl b') (intersect_lerp a b s e)), cross_lerp.
  set (t := cross a b s / (cross a b s - cross a b e)) in *.
  assert (0 <= (1 - t) * cross a' b' s) by (apply Qmult_le_0_compat; lra).
  assert (0 <= t * cross a' b' e) by (apply Qmult_le_0_compat; lra).
  lra.
Qed.

(* ... and lies on the clipping line *)
Lemma intersect_on_line a b s e :
  inside a b s <> inside a b e -> cross a b (intersect a b s e) == 0.
Proof.
  intros M. apply mixed_sides in M.
  rewrite (cross_pt_eq _ _ _ _ _ _ (pt_eq_refl a) (pt_eq_refl b) (intersect_lerp a b s e)), cross_lerp.
  field. lra.
Qed.

Lemma clip_edge_aux_keeps a' b' a b prev l :
  0 <= cross a' b' prev -> within a' b' l -> within a' b' (clip_edge_aux a b prev l).
Proof.
  revert prev. induction l as [|cur t IH]; intros prev Hp Hl p Hin; cbn [clip_edge_aux] in Hin; [contradiction|].
  assert (Hc : 0 <= cross a' b' cur) by (apply Hl; now left).
  assert (Ht : within a' b' t) by (intros q Hq; apply Hl; now right).
  apply in_app_or in Hin. destruct Hin as [Hin|Hin]; [|exact (IH cur Hc Ht p Hin)].
  destruct (inside a b cur) eqn:Ec, (inside a b prev) eqn:Ep; cbn [In] in Hin.
  - destruct Hin as [<-|[]]. exact Hc.
  - destruct Hin as [<-|[<-|[]]]; [|exact Hc]. apply intersect_keeps; try assumption. congruence.
  - destruct Hin as [<-|[]]. apply intersect_keeps; try assumption. congruence.
  - contradiction.
Qed.

Lemma clip_edge_aux_own a b prev l : within a b (clip_edge_aux a b prev l).
Proof.
  revert prev. induction l as [|cur t IH]; intros prev p Hin; cbn [clip_edge_aux] in Hin; [contradiction|].
  apply in_app_or in Hin. destruct Hin as [Hin|Hin]; [|exact (IH cur p Hin)].
  destruct (inside a b cur) eqn:Ec, (inside a b prev) eqn:Ep; cbn [In] in Hin.
  - destruct Hin as [<-|[]]. now apply Qleb_true.
  - destruct Hin as [<-|[<-|[]]]; [|now apply Qleb_true]. rewrite intersect_on_line; [lra|congruence].
  - destruct Hin as [<-|[]]. rewrite intersect_on_line; [lra|congruence].
  - contradiction.
Qed.

Lemma clip_edge_keeps a' b' a b poly : within a' b' poly -> within a' b' (clip_edge a b poly).
Proof.
  intros H. unfold clip_edge. destruct (rev poly) as [|lastp r] eqn:E; [intros p []|].
  apply clip_edge_aux_keeps; [|exact H]. apply H. apply in_rev. rewrite E. now left.
Qed.

Lemma clip_edge_own a b poly : within a b (clip_edge a b poly).
Proof.
  unfold clip_edge. destruct (rev poly) as [|lastp r]; [intros p []|]. apply clip_edge_aux_own.
Qed.

(* the edges used by clip_edges *)
Fixpoint edges_from (first : pt) (cl : list pt) : list (pt * pt) :=
  match cl with
  | [] => []
  | a :: t => (a, match t with [] => first | b :: _ => b end) :: edges_from first t
  end.

Lemma edges_from_spec first cl : edges_from first cl = combine cl (tl cl ++ [first]).
Proof.
  induction cl as [|a t IH]; [reflexivity|]. cbn [edges_from tl].
  destruct t as [|b t']; [reflexivity|]. cbn [app combine]. f_equal. rewrite IH. reflexivity.
Qed.

Lemma edges_edges_from cl : edges cl = match cl with [] => [] | f :: _ => edges_from f cl end.
Proof. destruct cl as [|f t]; [reflexivity|]. rewrite edges_from_spec. reflexivity. Qed.

Lemma clip_edges_keeps a' b' first cl poly : within a' b' poly -> within a' b' (clip_edges first cl poly).
Proof.
  revert poly. induction cl as [|a t IH]; intros poly H; cbn [clip_edges]; [exact H|].
  apply IH. now apply clip_edge_keeps.
Qed.

Lemma clip_edges_own first cl poly :
  forall ab, In ab (edges_from first cl) -> within (fst ab) (snd ab) (clip_edges first cl poly).
Proof.
  revert poly. induction cl as [|a t IH]; intros poly ab Hab; cbn [edges_from] in Hab; [contradiction|].
  cbn [clip_edges]. destruct Hab as [<-|Hab].
  - cbn [fst snd]. apply clip_edges_keeps. apply clip_edge_own.
  - now apply IH.
Qed.

(* every vertex of the result is inside every edge of the clip polygon ... *)
Lemma clip_within_clip subj cl :
  forall ab, In ab (edges cl) -> within (fst ab) (snd ab) (clip subj cl).
Proof.
  intros ab Hab. rewrite edges_edges_from in Hab. unfold clip. destruct cl as [|f t]; [contradiction|].
  now apply clip_edges_own.
Qed.

(* ... and satisfies every linear inequality that all vertices of the subject satisfy
   (it lies in the subject's convex hull) *)
Lemma clip_within_subject subj cl a' b' : within a' b' subj -> within a' b' (clip subj cl).
Proof.
  intros H. unfold clip. destruct cl as [|f t]; [intros p []|]. now apply clip_edges_keeps.
Qed.

(* for two boxes: the polygon whose area the evaluator reports lies in both footprints *)
Lemma clip_boxes_sound e g :
  box_valid e -> box_valid g ->
  forall p, In p (clip (rcorners e) (rcorners g)) ->
  (forall ab, In ab (edges (rcorners g)) -> 0 <= cross (fst ab) (snd ab) p) /\
  (forall ab, In ab (edges (rcorners e)) -> 0 <= cross (fst ab) (snd ab) p).
Proof.
  intros Ve Vg p Hp. split; intros ab Hab.
  - exact (clip_within_clip _ _ ab Hab p Hp).
  - apply (clip_within_subject (rcorners e) (rcorners g)); [|exact Hp].
    intros q Hq. apply Qleb_true. exact (rcorners_convex_ccw e Ve ab Hab q Hq).
Qed.
