(* sort_desc (Python's stable list.sort(key, reverse=True)) : permutation, sorted, stable. *)
From Coq Require Import List Bool ZArith Lia Permutation.
From PE Require Import Base.QUtil Model.AP.
Import ListNotations.
Open Scope Q_scope.

Section Sort.
Context {A : Type} (key : A -> Q).

Lemma insert_desc_perm : forall x l, Permutation (insert_desc key x l) (x :: l).
Proof.
  induction l as [|y t IH]; simpl; [reflexivity|].
  destruct (Qltb (key y) (key x)); [reflexivity|].
  rewrite IH. apply perm_swap.
Qed.

Lemma fold_insert_perm : forall l acc,
  Permutation (fold_left (fun acc x => insert_desc key x acc) l acc) (l ++ acc).
Proof.
  induction l as [|x t IH]; intros acc; simpl; [reflexivity|].
  rewrite IH, insert_desc_perm. symmetry. apply Permutation_middle.
Qed.

Theorem sort_desc_perm : forall l, Permutation (sort_desc key l) l.
Proof. intros l. unfold sort_desc. rewrite fold_insert_perm. now rewrite app_nil_r. Qed.

Fixpoint sorted_desc (l : list A) : Prop :=
  match l with
  | [] => True
  | x :: t => (forall y, In y t -> key y <= key x) /\ sorted_desc t
  end.

Lemma insert_desc_in : forall x l z, In z (insert_desc key x l) -> z = x \/ In z l.
Proof.
  intros x l z H. apply (Permutation_in _ (insert_desc_perm x l)) in H. destruct H; auto.
Qed.

Lemma insert_desc_sorted : forall x l, sorted_desc l -> sorted_desc (insert_desc key x l).
Proof.
  induction l as [|y t IH]; simpl; intros Hs; [split; [intros ? []|exact I]|].
  destruct Hs as [Hy Hs].
  destruct (Qltb_spec (key y) (key x)) as [Hlt|Hge].
  - simpl. split; [|split; assumption].
    intros z [<-|Hz]; [lra|]. specialize (Hy z Hz). lra.
  - simpl. split; [|now apply IH].
    intros z Hz. apply insert_desc_in in Hz as [->|Hz]; [lra|now apply Hy].
Qed.

Lemma fold_insert_sorted : forall l acc,
  sorted_desc acc -> sorted_desc (fold_left (fun acc x => insert_desc key x acc) l acc).
Proof.
  induction l as [|x t IH]; intros acc Hs; simpl; [assumption|]. apply IH. now apply insert_desc_sorted.
Qed.

Theorem sort_desc_sorted : forall l, sorted_desc (sort_desc key l).
Proof. intros l. apply fold_insert_sorted. exact I. Qed.

(* stability: the elements with any given key keep their relative order *)
Definition with_key (c : Q) (l : list A) : list A := filter (fun r => Qeqb (key r) c) l.

Lemma with_key_none : forall c l, (forall y, In y l -> key y < c) -> with_key c l = [].
Proof.
  induction l as [|y t IH]; intros H; simpl; [reflexivity|].
  destruct (Qeqb_spec (key y) c) as [E|E].
  - specialize (H y (or_introl eq_refl)). lra.
  - apply IH. intros z Hz. apply H. now right.
Qed.

Lemma insert_desc_with_key : forall c x l, sorted_desc l ->
  with_key c (insert_desc key x l) = with_key c l ++ (if Qeqb (key x) c then [x] else []).
Proof.
  unfold with_key. induction l as [|y t IH]; intros Hs; simpl.
  - destruct (Qeqb (key x) c); reflexivity.
  - destruct Hs as [Hy Hs].
    destruct (Qltb_spec (key y) (key x)) as [Hlt|Hge].
    + simpl. destruct (Qeqb_spec (key x) c) as [Ex|Ex].
      * assert (Hn : with_key c (y :: t) = []).
        { apply with_key_none. intros z [<-|Hz]; [lra|]. specialize (Hy z Hz). lra. }
        unfold with_key in Hn. simpl in Hn. rewrite Hn. reflexivity.
      * now rewrite app_nil_r.
    + simpl. rewrite (IH Hs). destruct (Qeqb (key y) c); reflexivity.
Qed.

Lemma fold_insert_with_key : forall c l acc, sorted_desc acc ->
  with_key c (fold_left (fun acc x => insert_desc key x acc) l acc) = with_key c acc ++ with_key c l.
Proof.
  induction l as [|x t IH]; intros acc Hs; simpl; [now rewrite app_nil_r|].
  rewrite IH by now apply insert_desc_sorted.
  rewrite insert_desc_with_key by assumption.
  rewrite <- app_assoc. destruct (Qeqb (key x) c); reflexivity.
Qed.

Theorem sort_desc_stable : forall c l, with_key c (sort_desc key l) = with_key c l.
Proof. intros c l. unfold sort_desc. now rewrite fold_insert_with_key. Qed.

End Sort.

(* the ranking does not depend on anything but the confidences:
   sorting commutes with any key-preserving relabelling *)
Lemma insert_desc_map : forall A B (ka : A -> Q) (kb : B -> Q) (f : A -> B),
  (forall x, kb (f x) = ka x) ->
  forall x l, insert_desc kb (f x) (map f l) = map f (insert_desc ka x l).
Proof.
  intros A B ka kb f Hk x. induction l as [|y t IH]; simpl; [reflexivity|].
  rewrite !Hk. destruct (Qltb (ka y) (ka x)); simpl; [reflexivity|now rewrite IH].
Qed.

Lemma sort_desc_map : forall A B (ka : A -> Q) (kb : B -> Q) (f : A -> B),
  (forall x, kb (f x) = ka x) ->
  forall l, sort_desc kb (map f l) = map f (sort_desc ka l).
Proof.
  intros A B ka kb f Hk l. unfold sort_desc.
  change (@nil B) with (map f (@nil A)). generalize (@nil A) as acc.
  induction l as [|x t IH]; intros acc; simpl; [reflexivity|].
  rewrite (insert_desc_map _ _ ka kb f Hk). apply IH.
Qed.
