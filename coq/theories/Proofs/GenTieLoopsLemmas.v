(* Helper lemmas and tactics of Props/GenTieLoops.v (generated LOOP functions = hand models, for lists of any length).

   Nothing here mentions a generated definition (Gen/Loops.v is regenerated on every run; this file is not):
     1. the shapes the translator emits for Python's list operations, as facts about the standard library:
          xs[-1]      (if 1 <=? length xs then nth_error xs (length xs - 1) else None)            [py_last_*]
          xs[i]       nth_error xs i                                                              [nth_error_*]
          xs[i] = v   firstn i xs ++ v :: skipn (S i) xs                                          [set_*]
     2. LOOP RULES: a fold_left over seq 0 n / rev (seq 0 n) / a list, in the error monad, computes `G` when every
        iteration takes G (before) to G (after)  -- the induction over the length of the list is done once, here;
     3. facts about the hand models in the form the loops build them (AP.env_go with one more point at the end, AP.area
        as a left-to-right sum, AP.points by position);
     4. the tactic [loop_step] that evaluates one iteration of a generated body: it never looks at the shape of a particular
        function, it only resolves list accesses from the hypotheses, reduces the monad and splits comparisons. *)
From Coq Require Import List Bool ZArith Arith Lia.
From PE Require Import Base.QUtil.
From PE Require Model.Filter Model.AP Proofs.APRanking.
Import ListNotations.
Import Filter.
Open Scope nat_scope.

(* ---- 1. list accesses -------------------------------------------------------------------------------------------- *)
Lemma last_cons_default {A} (a d : A) l : last (a :: l) d = last l a.
Proof. revert a d; induction l as [|b l IH]; intros; [reflexivity|]. change (last (a :: b :: l) d) with (last (b :: l) d). rewrite !IH. reflexivity. Qed.

(* xs[-1] as the translator renders it = the last element, if any *)
Definition py_last {A} (l : list A) : option A := match l with [] => None | a :: t => Some (last t a) end.
Arguments py_last {A} !l /.

Lemma py_last_snoc {A} (l : list A) x : py_last (l ++ [x]) = Some x.
Proof. destruct l as [|a l]; [reflexivity|]. simpl. rewrite last_last. reflexivity. Qed.

Lemma py_last_eq {A} (l : list A) :
  (if Nat.leb 1 (length l) then nth_error l (length l - 1) else None) = py_last l.
Proof.
  destruct l as [|b l] using rev_ind; [reflexivity|]. rewrite py_last_snoc.
  rewrite app_length; simpl length. replace (length l + 1 - 1) with (length l) by lia.
  replace (Nat.leb 1 (length l + 1)) with true by (symmetry; apply Nat.leb_le; lia).
  rewrite nth_error_app2 by lia. rewrite Nat.sub_diag. reflexivity.
Qed.

Lemma snoc_cases {A} (l : list A) : l = [] \/ exists l0 x, l = l0 ++ [x].
Proof. destruct l as [|a l] using rev_ind; [left; reflexivity | right; eauto]. Qed.

Lemma nth_error_in_range {A} (l : list A) i : i < length l -> exists x, nth_error l i = Some x.
Proof. intros H. destruct (nth_error l i) eqn:E; [eauto|]. apply nth_error_None in E. lia. Qed.

Lemma skipn_nth_cons {A} (l : list A) i x : nth_error l i = Some x -> skipn i l = x :: skipn (S i) l.
Proof.
  revert l; induction i; intros [|a l] H; simpl in *; try discriminate.
  - inversion H; subst; reflexivity.
  - apply IHi in H. exact H.
Qed.

Lemma firstn_nth_snoc {A} (l : list A) i x : nth_error l i = Some x -> firstn (S i) l = firstn i l ++ [x].
Proof.
  revert l; induction i; intros [|a l] H; simpl in *; try discriminate.
  - inversion H; subst; reflexivity.
  - f_equal. apply IHi in H. exact H.
Qed.

(* xs[i] = v on a list whose first i elements are already final and whose tail is still the initial filler *)
Lemma set_prefix_repeat {A} (done : list A) (d v : A) k :
  firstn (length done) (done ++ repeat d (S k)) ++ v :: skipn (S (length done)) (done ++ repeat d (S k))
  = (done ++ [v]) ++ repeat d k.
Proof.
  induction done as [|a done IH]; simpl; [reflexivity|]. f_equal. exact IH.
Qed.

(* ---- 2. loop rules ----------------------------------------------------------------------------------------------- *)
Lemma rev_seq_S n : rev (seq 0 (S n)) = n :: rev (seq 0 n).
Proof. rewrite seq_S, rev_app_distr. reflexivity. Qed.

(* for i in reversed(range(n)) *)
Lemma loop_down {St} (body : res St -> nat -> res St) (G : nat -> St) n s0 :
  s0 = G n ->
  (forall i, i < n -> body (Ok (G (S i))) i = Ok (G i)) ->
  fold_left body (rev (seq 0 n)) (Ok s0) = Ok (G 0).
Proof.
  intros -> H. induction n as [|n IH]; [reflexivity|].
  rewrite rev_seq_S. simpl fold_left. rewrite H by lia. apply IH. intros; apply H; lia.
Qed.

(* for i in range(n) *)
Lemma loop_up {St} (body : res St -> nat -> res St) (G : nat -> St) n s0 :
  s0 = G 0 ->
  (forall i, i < n -> body (Ok (G i)) i = Ok (G (S i))) ->
  fold_left body (seq 0 n) (Ok s0) = Ok (G n).
Proof.
  intros -> H. induction n as [|n IH]; [reflexivity|].
  rewrite seq_S, fold_left_app. rewrite IH by (intros; apply H; lia). simpl. apply H. lia.
Qed.

(* for x in xs: G is a function of the elements already seen *)
Lemma loop_list {St A} (body : res St -> A -> res St) (G : list A -> St) xs s0 :
  s0 = G [] ->
  (forall seen x rest, xs = seen ++ x :: rest -> body (Ok (G seen)) x = Ok (G (seen ++ [x]))) ->
  fold_left body xs (Ok s0) = Ok (G xs).
Proof.
  intros -> H. induction xs as [|x xs IH] using rev_ind; [reflexivity|].
  rewrite fold_left_app. rewrite IH. { simpl. apply (H xs x []). reflexivity. }
  intros seen y rest E. apply (H seen y (rest ++ [x])). rewrite E, <- app_assoc. reflexivity.
Qed.

(* for i, x in enumerate(xs) *)
Lemma combine_seq_snoc_from {A} (xs : list A) x k :
  combine (seq k (S (length xs))) (xs ++ [x]) = combine (seq k (length xs)) xs ++ [(k + length xs, x)].
Proof.
  revert k; induction xs as [|y xs IH]; intros k.
  - simpl. rewrite Nat.add_0_r. reflexivity.
  - change (length (y :: xs)) with (S (length xs)).
    replace (seq k (S (S (length xs)))) with (k :: seq (S k) (S (length xs))) by reflexivity.
    replace (seq k (S (length xs))) with (k :: seq (S k) (length xs)) by reflexivity.
    cbn [combine app]. f_equal. rewrite (IH (S k)). f_equal. f_equal. f_equal. lia.
Qed.
Lemma combine_seq_snoc {A} (xs : list A) x :
  combine (seq 0 (length (xs ++ [x]))) (xs ++ [x]) = combine (seq 0 (length xs)) xs ++ [(length xs, x)].
Proof. rewrite app_length; simpl length. rewrite Nat.add_1_r. apply (combine_seq_snoc_from xs x 0). Qed.

Lemma combine_seq_app {A} (xs ys : list A) k :
  combine (seq k (length (xs ++ ys))) (xs ++ ys) = combine (seq k (length xs)) xs ++ combine (seq (k + length xs) (length ys)) ys.
Proof.
  revert k; induction xs as [|x xs IH]; intros k.
  - simpl. rewrite Nat.add_0_r. reflexivity.
  - cbn [length app]. replace (seq k (S (length (xs ++ ys)))) with (k :: seq (S k) (length (xs ++ ys))) by reflexivity.
    replace (seq k (S (length xs))) with (k :: seq (S k) (length xs)) by reflexivity.
    cbn [combine app]. f_equal. rewrite IH. f_equal. f_equal. f_equal. lia.
Qed.

Lemma loop_enum {St A} (body : res St -> nat * A -> res St) (G : nat -> St) (xs : list A) s0 :
  s0 = G 0 ->
  (forall i x, nth_error xs i = Some x -> body (Ok (G i)) (i, x) = Ok (G (S i))) ->
  fold_left body (combine (seq 0 (length xs)) xs) (Ok s0) = Ok (G (length xs)).
Proof.
  intros -> H. induction xs as [|x xs IH] using rev_ind; [reflexivity|].
  rewrite combine_seq_snoc, fold_left_app. rewrite IH.
  - simpl. rewrite app_length. simpl. rewrite Nat.add_1_r. apply H.
    rewrite nth_error_app2 by lia. rewrite Nat.sub_diag. reflexivity.
  - intros i y E. apply H. rewrite nth_error_app1; [exact E|]. apply nth_error_Some. congruence.
Qed.

(* an error before the loop / inside it stays an error *)
Lemma loop_err_index {St A} (body : res St -> A -> res St) xs :
  (forall x, body ErrIndex x = ErrIndex) -> fold_left body xs ErrIndex = ErrIndex.
Proof. intros H. induction xs; simpl; [reflexivity|]. rewrite H. exact IHxs. Qed.

(* ---- 3. the hand models in the form the loops build them ------------------------------------------------------------ *)
Import AP.
Open Scope Q_scope.

(* one more point (the next lower rank) at the end of the scanned list: it joins the envelope exactly when its precision is
   STRICTLY above the last precision of the envelope so far (= the running maximum; cur when the envelope is still empty) *)
Lemma env_go_snoc cur L p r :
  env_go cur (L ++ [(p, r)]) =
    if Qltb (last (map fst (env_go cur L)) cur) p then env_go cur L ++ [(p, r)] else env_go cur L.
Proof.
  revert cur; induction L as [|[p' r'] L IH]; intros; simpl.
  - destruct (Qltb cur p); reflexivity.
  - destruct (Qltb cur p') eqn:E.
    + rewrite IH. change (map fst ((p', r') :: env_go p' L)) with (p' :: map fst (env_go p' L)).
      rewrite last_cons_default. destruct (Qltb _ p); reflexivity.
    + apply IH.
Qed.

Lemma combine_snoc {A B} (l1 : list A) (l2 : list B) a b :
  length l1 = length l2 -> combine (l1 ++ [a]) (l2 ++ [b]) = combine l1 l2 ++ [(a, b)].
Proof.
  revert l2; induction l1; intros [|y l2] H; simpl in *; try discriminate; [reflexivity|].
  f_equal. apply IHl1. lia.
Qed.

Lemma envelope_snoc_lists (p0 r0 : list Q) pl rl :
  length p0 = length r0 ->
  envelope (rev (combine (p0 ++ [pl]) (r0 ++ [rl]))) = (pl, rl) :: env_go pl (rev (combine p0 r0)).
Proof. intros H. rewrite combine_snoc by exact H. rewrite rev_app_distr. reflexivity. Qed.

(* the envelope after the indices  n-1 ... i  have been scanned, and the state of the loop at that point *)
Definition env_at (p r : list Q) (pl : Q) (i : nat) : list pt := env_go pl (rev (combine (skipn i p) (skipn i r))).
Definition env_state (p r : list Q) (pl rl : Q) (i : nat) : list Q * list Q :=
  (pl :: map fst (env_at p r pl i), rl :: map snd (env_at p r pl i)).

Lemma env_state_start p r pl rl n : (length r <= n)%nat -> env_state p r pl rl n = ([pl], [rl]).
Proof. intros H. unfold env_state, env_at. rewrite (skipn_all2 r) by exact H. rewrite combine_nil. reflexivity. Qed.

Lemma env_at_step p r pl i pi ri :
  nth_error p i = Some pi -> nth_error r i = Some ri ->
  env_at p r pl i =
    if Qltb (last (map fst (env_at p r pl (S i))) pl) pi then env_at p r pl (S i) ++ [(pi, ri)] else env_at p r pl (S i).
Proof.
  intros Hp Hr. unfold env_at. rewrite (skipn_nth_cons _ _ _ Hp), (skipn_nth_cons _ _ _ Hr).
  simpl combine. simpl rev. apply env_go_snoc.
Qed.

Lemma combine_app_trunc {A B} (l1 x : list A) (l2 : list B) : length l1 = length l2 -> combine (l1 ++ x) l2 = combine l1 l2.
Proof. revert l2; induction l1; intros [|b l2] H; simpl in *; try discriminate; [apply combine_nil|]. f_equal. apply IHl1. lia. Qed.

(* what interpolate_precision_recall_list returns: the envelope followed by the closing element (last maximum, recall 0) *)
Definition closed (e : list pt) : list Q * list Q := (map fst e ++ [last (map fst e) 0], map snd e ++ [0]).

Lemma env_state_0 p r pl rl :
  env_state p r pl rl 0 = (map fst ((pl, rl) :: env_go pl (rev (combine p r))), map snd ((pl, rl) :: env_go pl (rev (combine p r)))).
Proof. reflexivity. Qed.

(* Q addition is associative and has 0 as a unit for LEIBNIZ equality (numerators and denominators are computed), so the
   left-to-right running sum of the code and the right-nested AP.area are equal, not merely == *)
Lemma Qplus_assoc_eq (a b c : Q) : a + (b + c) = (a + b) + c.
Proof.
  destruct a as [an ad], b as [bn bd], c as [cn cd]. unfold Qplus; simpl. f_equal.
  - rewrite !Pos2Z.inj_mul. ring.
  - rewrite Pos.mul_assoc. reflexivity.
Qed.
Lemma Qplus_0_l_eq (a : Q) : 0 + a = a.
Proof. destruct a as [an ad]. unfold Qplus; cbn [Qnum Qden]. f_equal; first [ring | reflexivity]. Qed.
Lemma Qplus_0_r_eq (a : Q) : a + 0 = a.
Proof. destruct a as [an ad]. unfold Qplus; cbn [Qnum Qden]. f_equal; first [ring | apply Pos.mul_1_r]. Qed.

(* AP.area as the left-to-right sum the code computes: the accumulator after the positions 0 .. i-1 *)
Fixpoint area_pre (acc : Q) (e : list pt) (i : nat) {struct i} : Q :=
  match i, e with
  | S j, (p, r) :: t => area_pre (acc + p * (r - nextr t)) t j
  | _, _ => acc
  end.

Lemma area_pre_all acc e : area_pre acc e (length e) = acc + area e.
Proof.
  revert acc; induction e as [|[p r] e IH]; intros; simpl.
  - symmetry; apply Qplus_0_r_eq.
  - rewrite IH. symmetry. apply Qplus_assoc_eq.
Qed.

(* the lists the code indexes are the envelope's precisions / recalls followed by the closing element (any precision x,
   recall 0); position i reads precision i, recall i and recall i + 1 *)
Lemma area_nth (e : list pt) (x : Q) i :
  (i < length e)%nat ->
  exists p r r', nth_error (map fst e ++ [x]) i = Some p /\ nth_error (map snd e ++ [0]) i = Some r /\
                 nth_error (map snd e ++ [0]) (i + 1)%nat = Some r' /\
                 forall acc, area_pre acc e (S i) = area_pre acc e i + p * (r - r').
Proof.
  revert i; induction e as [|[p r] e IH]; intros i H; simpl in H; [lia|].
  destruct i.
  - exists p, r, (nextr e). simpl. repeat split; try reflexivity.
    destruct e as [|[? ?] ?]; reflexivity.
  - destruct (IH i) as (p1 & r1 & r1' & H1 & H2 & H3 & H4); [lia|]. exists p1, r1, r1'.
    simpl. repeat split; try assumption. intros acc. apply H4.
Qed.

(* ---- points (get_precision_recall_list) by position ------------------------------------------------------------------ *)
Lemma points_app i n l1 l2 : points i n (l1 ++ l2) = points i n l1 ++ points (length l1 + i)%nat n l2.
Proof.
  revert i; induction l1 as [|x l1 IH]; intros; simpl; [reflexivity|].
  f_equal. rewrite IH. f_equal. f_equal. lia.
Qed.

Lemma points_length i n l : length (points i n l) = length l.
Proof. revert i; induction l; intros; simpl; [reflexivity|]. f_equal. apply IHl. Qed.

Lemma set_at {A} (done : list A) (d v : A) k i :
  length done = i ->
  firstn i (done ++ repeat d (S k)) ++ v :: skipn (S i) (done ++ repeat d (S k)) = (done ++ [v]) ++ repeat d k.
Proof. intros <-. apply set_prefix_repeat. Qed.

(* the two lists of get_precision_recall_list after the positions 0 .. i-1 have been written (the rest is still 0.0) *)
Definition pr_state (n : nat) (tps : list Q) (i : nat) : list Q * list Q :=
  (map fst (points 0 n (firstn i tps)) ++ repeat 0 (length tps - i),
   map snd (points 0 n (firstn i tps)) ++ repeat 0 (length tps - i)).

Lemma pr_state_step n tps i tp :
  nth_error tps i = Some tp ->
  exists k, (length tps - i = S k)%nat /\ (length tps - S i = k)%nat /\
            length (map fst (points 0 n (firstn i tps))) = i /\ length (map snd (points 0 n (firstn i tps))) = i /\
            points 0 n (firstn (S i) tps) =
              points 0 n (firstn i tps) ++ [(tp / Qnat (S i), match n with O => 0 | _ => tp / Qnat n end)].
Proof.
  intros H. assert (Hi : (i < length tps)%nat) by (apply nth_error_Some; congruence).
  exists (length tps - S i)%nat. repeat split; try lia.
  - rewrite map_length, points_length, firstn_length. lia.
  - rewrite map_length, points_length, firstn_length. lia.
  - rewrite (firstn_nth_snoc _ _ _ H), points_app. simpl. rewrite firstn_length.
    replace (Nat.min i (length tps) + 0)%nat with i by lia. reflexivity.
Qed.

(* ---- Ap._calculate_tp_fp: per-rank TP / FP values, then running sums --------------------------------------------------- *)
(* what Ap._calculate_tp_fp returns for the ranked list l (n = objects_results_num, normally length l) *)
Definition tpfp_result (m : mode) (num_gt n : nat) (l : list res) : list Q * list Q :=
  match l with
  | [] => (map (fun _ => 0) (seq 0 num_gt), map (fun i => Qnat (S i)) (seq 0 num_gt))
  | _ => (cumsum 0 (map tpval (map (classify m) l) ++ repeat 0 (n - length l)),
          cumsum 0 (map fpval (map (classify m) l) ++ repeat 0 (n - length l)))
  end.

Definition tpfp_state (m : mode) (n : nat) (rs : list res) (i : nat) : list Q * list Q :=
  (map tpval (map (classify m) (firstn i rs)) ++ repeat 0 (n - i),
   map fpval (map (classify m) (firstn i rs)) ++ repeat 0 (n - i)).

Lemma tpfp_step m n rs i x :
  nth_error rs i = Some x -> (length rs <= n)%nat ->
  exists k, (n - i = S k)%nat /\ (n - S i = k)%nat /\
            length (map tpval (map (classify m) (firstn i rs))) = i /\
            length (map fpval (map (classify m) (firstn i rs))) = i /\
            firstn (S i) rs = firstn i rs ++ [x].
Proof.
  intros H Hn. assert (Hi : (i < length rs)%nat) by (apply nth_error_Some; congruence).
  exists (n - S i)%nat. repeat split; try lia.
  - rewrite !map_length, firstn_length. lia.
  - rewrite !map_length, firstn_length. lia.
  - apply firstn_nth_snoc. exact H.
Qed.

Lemma repeat_seq_const {A} (d : A) n : map (fun _ => d) (seq 0 n) = repeat d n.
Proof. generalize 0%nat. induction n; intros; simpl; [reflexivity|]. f_equal. apply IHn. Qed.

(* the lists of AP.ap_model are those of the ranked (sorted) results *)
Lemma ap_model_lists m num_gt rs :
  (tp_list (ap_model m num_gt rs), fp_list (ap_model m num_gt rs)) =
    tpfp_result m num_gt (length rs) (sort_desc conf rs).
Proof.
  pose proof (Permutation.Permutation_length (APRanking.sort_desc_perm conf rs)) as HL.
  destruct rs as [|a t]; [reflexivity|].
  unfold ap_model, tpfp_result. destruct (sort_desc conf (a :: t)) as [|b u] eqn:E; [simpl in HL; discriminate|].
  rewrite HL, Nat.sub_diag. simpl repeat. rewrite !app_nil_r. reflexivity.
Qed.

(* ---- 4. one iteration of a generated body --------------------------------------------------------------------------- *)
Ltac len_lia :=
  first [ solve [ rewrite ?app_length, ?repeat_length in *; cbn [length] in *; lia ]
        | solve [ rewrite ?app_length, ?map_length, ?repeat_length in *; cbn [length] in *; lia ] ].

Ltac loop_step :=
  repeat first
    [ progress cbn [bind fst snd map py_last negb andb orb]
    | rewrite py_last_eq
    | rewrite py_last_snoc
    | match goal with H : nth_error ?l ?i = _ |- context [nth_error ?l ?i] => rewrite H end
    | rewrite nth_error_app1 by len_lia
    | match goal with
      | |- context [Qltb ?a ?b] => destruct (Qltb_spec a b)
      | |- context [Qleb ?a ?b] => destruct (Qleb_spec a b)
      | |- context [Nat.ltb ?a ?b] => destruct (Nat.ltb_spec a b); try (exfalso; len_lia)
      | |- context [Nat.leb ?a ?b] => destruct (Nat.leb_spec a b); try (exfalso; len_lia)
      | |- context [Nat.eqb ?a ?b] => destruct (Nat.eqb_spec a b); try (exfalso; len_lia)
      end ].

(* closes a leaf: the two sides are equal, or the comparisons taken on the way contradict each other *)
Ltac loop_leaf := first [ solve [ rewrite ?map_app; reflexivity ] | solve [ exfalso; lra ] ].

(* ---- 5. the proof scripts of Props/GenTieLoops.v (each theorem there is compiled on its own, so what two theorems share
   lives here; the scripts are run on the generated definitions AFTER the caller has unfolded them) -------------------------- *)

(* goal:  <body of interpolate_precision_recall_list> P (r0 ++ [rl]) = Ok (closed ((pl, rl) :: env_go pl (rev (combine P r0))))
   where P is syntactically  _ ++ [pl];  Hlen : length r0 <= length P *)
Ltac interpolate_script P r0 pl rl :=
  loop_step;
  replace (length (r0 ++ [rl]) - 1)%nat with (length r0) by (rewrite app_length; simpl; lia);
  rewrite (loop_down _ (env_state P r0 pl rl) (length r0));
  [ rewrite env_state_0; loop_step; unfold closed; cbn [map fst snd]; rewrite last_cons_default; reflexivity
  | rewrite env_state_start by lia; reflexivity
  | let i := fresh "i" in let Hi := fresh "Hi" in let pi := fresh "pi" in let ri := fresh "ri" in
    let Hp := fresh "Hp" in let Hr := fresh "Hr" in
    intros i Hi;
    destruct (nth_error_in_range P i) as [pi Hp]; [lia|];
    destruct (nth_error_in_range r0 i) as [ri Hr]; [lia|];
    unfold env_state; rewrite (env_at_step _ _ _ _ _ _ Hp Hr);
    generalize (env_at P r0 pl (S i)); intro;
    loop_step; loop_leaf ].

(* goal:  <body of interpolate_precision_recall_list> P (r0 ++ [rl]) = ErrIndex;  Hlen : length P < length r0 *)
Ltac interpolate_error_script P r0 rl :=
  loop_step;
  replace (length (r0 ++ [rl]) - 1)%nat with (S (length r0 - 1)) by (rewrite app_length; simpl; lia);
  rewrite rev_seq_S; cbn [fold_left bind];
  replace (nth_error P (length r0 - 1)) with (@None Q) by (symmetry; apply nth_error_None; lia);
  cbn [bind]; rewrite loop_err_index by (intros; reflexivity); reflexivity.

(* goal:  <body of _calculate_ap, after the call of interpolate has been replaced by its value `closed E`> = Ok (area E) *)
Ltac area_script E :=
  unfold closed; cbn [bind];
  replace (length (map fst E ++ [last (map fst E) 0%Q]) - 1)%nat with (length E) by (rewrite app_length, map_length; simpl; lia);
  rewrite (loop_up _ (area_pre 0 E) (length E));
  [ cbn [bind]; rewrite area_pre_all, Qplus_0_l_eq; reflexivity
  | reflexivity
  | let i := fresh "i" in let Hi := fresh "Hi" in let a := fresh "a" in let b := fresh "b" in let c := fresh "c" in
    let H1 := fresh "H" in let H2 := fresh "H" in let H3 := fresh "H" in let H4 := fresh "H" in
    intros i Hi; destruct (area_nth E (last (map fst E) 0) i Hi) as (a & b & c & H1 & H2 & H3 & H4);
    loop_step; rewrite H4; loop_leaf ].

(* goal:  <body of get_precision_recall_list> tps n = Ok (map fst (points 0 n tps), map snd (points 0 n tps)) *)
Ltac precision_recall_script tps n :=
  cbv zeta; rewrite ?repeat_length;
  rewrite (loop_up _ (pr_state n tps) (length tps));
  [ cbn [bind]; unfold pr_state; rewrite firstn_all, Nat.sub_diag; simpl repeat; rewrite !app_nil_r; reflexivity
  | unfold pr_state; rewrite Nat.sub_0_r; reflexivity
  | let i := fresh "i" in let Hi := fresh "Hi" in let tp := fresh "tp" in let Htp := fresh "Htp" in
    let k := fresh "k" in let K1 := fresh "K" in let K2 := fresh "K" in let L1 := fresh "L" in let L2 := fresh "L" in
    let Hpts := fresh "Hpts" in
    intros i Hi; destruct (nth_error_in_range tps i Hi) as [tp Htp];
    destruct (pr_state_step n tps i tp Htp) as (k & K1 & K2 & L1 & L2 & Hpts);
    unfold pr_state; rewrite Hpts, K1, K2; loop_step;
    rewrite (set_at _ _ _ _ _ L1), (set_at _ _ _ _ _ L2), !map_app, Nat.add_1_r; cbn [map fst snd];
    destruct n; first [lia | reflexivity] ].

(* goal:  <body of Ap._calculate_tp_fp> m num_gt n rs = Ok (tpfp_result m num_gt n rs);  Hn : length rs <= n *)
(* one iteration of the loop of Ap._calculate_tp_fp:  goal  forall i x, nth_error rs i = Some x -> <body> = Ok (tpfp_state m n rs (S i));
   needs  length rs <= n  among the hypotheses *)
Ltac tp_fp_step m n rs1 :=
  let i := fresh "i" in let x := fresh "x" in let Hx := fresh "Hx" in
  let k := fresh "k" in let K1 := fresh "K" in let K2 := fresh "K" in let L1 := fresh "L" in let L2 := fresh "L" in
  let Hf := fresh "Hf" in
  intros i x Hx; destruct (tpfp_step m n rs1 i x Hx) as (k & K1 & K2 & L1 & L2 & Hf); [first [assumption | lia]|];
  unfold tpfp_state; rewrite Hf, K1, K2, !map_app; cbn [map]; unfold classify;
  destruct (thr x); cbn [tpval fpval];
  [ match goal with |- context [is_result_correct ?a ?b ?c] => destruct (is_result_correct a b c) end; cbn [tpval fpval] | ];
  loop_step;
  rewrite ?(set_at _ _ _ _ _ L1), ?(set_at _ _ _ _ _ L2), <- ?app_assoc; reflexivity.

Ltac tp_fp_script m num_gt n rs :=
  let r0_ := fresh "r" in let rs0_ := fresh "rs" in let rs1 := fresh "rs" in let E1 := fresh "E" in let Hpos := fresh "Hpos" in
  destruct rs as [|r0_ rs0_];
  [ cbn [length Nat.eqb]; destruct num_gt; [reflexivity|]; cbn [Nat.eqb]; cbv zeta; unfold tpfp_result;
    rewrite repeat_seq_const; reflexivity
  | remember (r0_ :: rs0_) as rs1 eqn:E1;
    assert (Hpos : (0 < length rs1)%nat) by (rewrite E1; simpl; lia);
    loop_step; cbv zeta;
    rewrite (loop_enum _ (tpfp_state m n rs1) rs1);
    [ cbn [bind]; unfold tpfp_state, tpfp_result; rewrite firstn_all;
      match goal with H : (length rs1 <= n)%nat |- _ => clear H end; clear Hpos;
      destruct rs1; [discriminate E1 | reflexivity]
    | unfold tpfp_state; rewrite Nat.sub_0_r; reflexivity
    | tp_fp_step m n rs1 ] ].

(* goal:  <body of Ap._calculate_tp_fp> m num_gt (length pre) (pre ++ x :: post) = ErrIndex;  Hx : thr x = Some t
   (the first rank beyond the lists the code allocated is a targeted one: the item assignment raises) *)
Ltac tp_fp_error_script m pre x post t Hx :=
  let Hpos := fresh "Hpos" in
  assert (Hpos : (0 < length (pre ++ x :: post))%nat) by (rewrite app_length; simpl; lia);
  loop_step; cbv zeta;
  rewrite (combine_seq_app pre (x :: post) 0), fold_left_app;
  rewrite (loop_enum _ (tpfp_state m (length pre) pre) pre);
  [ cbn [length];
    replace (seq (0 + length pre) (S (length post))) with (length pre :: seq (S (length pre)) (length post)) by reflexivity;
    cbn [combine fold_left bind]; rewrite Hx; unfold tpfp_state; rewrite firstn_all, Nat.sub_diag; cbn [repeat]; rewrite !app_nil_r;
    rewrite !map_length;
    destruct (is_result_correct m (Some t) x); cbn [negb bind]; rewrite Nat.ltb_irrefl; cbn [bind];
    rewrite loop_err_index by (intros [? ?]; reflexivity); reflexivity
  | unfold tpfp_state; rewrite Nat.sub_0_r; reflexivity
  | tp_fp_step m (length pre) pre ].
