From Coq Require Import List Bool ZArith String Lia Psatz.
From PE Require Import Base.QUtil Model.Geom2 Model.Filter Model.Matching Model.AP Model.FrameInv
                       Proofs.Geom2Proofs Proofs.APEnvelope Proofs.APKinds.
Import ListNotations.
Open Scope Q_scope.

(* ---- ego-relative coordinates are recovered exactly ------------------------------------------------- *)
Lemma unmove_move_pt m p : motion_unit m -> pt_eq (unmove_pt m (move_pt m p)) p.
Proof.
  unfold motion_unit. intros U. destruct p as [x y].
  unfold unmove_pt, move_pt, add_pt, Geom2.rot, pt_eq. cbn [fst snd]. split.
  - setoid_replace (mc m * (mc m * x - ms m * y + mtx m - mtx m) - - ms m * (ms m * x + mc m * y + mty m - mty m))
      with ((mc m * mc m + ms m * ms m) * x) by ring. rewrite U. ring.
  - setoid_replace (- ms m * (mc m * x - ms m * y + mtx m - mtx m) + mc m * (ms m * x + mc m * y + mty m - mty m))
      with ((mc m * mc m + ms m * ms m) * y) by ring. rewrite U. ring.
Qed.

Lemma unmove_move_pt3 m x y z : motion_unit m ->
  let '(x', y', z') := unmove_pt3 m (move_pt3 m (x, y, z)) in x' == x /\ y' == y /\ z' == z.
Proof.
  intros U. unfold move_pt3, unmove_pt3. cbn [fst snd].
  destruct (unmove_move_pt m (x, y) U) as [A B].
  destruct (move_pt m (x, y)) as [a b] eqn:E. cbn [fst snd] in *.
  repeat split; [exact A|exact B|ring].
Qed.

(* ---- the range filter decides the same ------------------------------------------------------------------ *)
Lemma sqrt_unique d d' s s' : 0 <= d -> 0 <= d' -> d * d == s -> d' * d' == s' -> s == s' -> d == d'.
Proof. intros. nra. Qed.

Lemma qabs_ext x y : x == y -> qabs x == qabs y.
Proof. intros H. unfold qabs. destruct (Qltb_spec x 0), (Qltb_spec y 0); lra. Qed.

Lemma in_range_equiv c sel p p' : pos_equiv p p' -> in_range c sel p = in_range c sel p'.
Proof.
  destruct p as [[x y] d], p' as [[x' y'] d']. unfold pos_equiv. cbn [fst snd]. intros (Hx & Hy & Hd).
  unfold in_range.
  assert (E1 : forall b, Qltb (qabs x) b = Qltb (qabs x') b) by (intro b; now rewrite (qabs_ext x x' Hx)).
  assert (E2 : forall b, Qltb (qabs y) b = Qltb (qabs y') b) by (intro b; now rewrite (qabs_ext y y' Hy)).
  assert (E3 : forall b, Qltb d b = Qltb d' b) by (intro b; now rewrite Hd).
  assert (E4 : forall b, Qltb b d = Qltb b d') by (intro b; now rewrite Hd).
  unfold when, holds.
  destruct (c_max_x c) as [l1|], (c_max_y c) as [l2|], (c_max_dist c) as [l3|], (c_min_dist c) as [l4|];
    try destruct (sel l1); try destruct (sel l2); try destruct (sel l3); try destruct (sel l4);
    rewrite ?E1, ?E2, ?E3, ?E4; reflexivity.
Qed.

Lemma kept_pos_equiv c is_gt o p p' : pos_equiv p p' ->
  kept c true is_gt (set_pos o (Some p)) = kept c true is_gt (set_pos o (Some p')).
Proof.
  intros H. unfold kept, set_pos, position_of, use_unknown_threshold, targeted, ignored, points_ok, uuid_ok,
    bound_for, contains_any, contains, when. cbn.
  rewrite (in_range_equiv c qmean p p' H).
  destruct (lbl_is_fp (o_label o)); [reflexivity|]. cbn.
  match goal with |- (if ?b then _ else _) = _ => destruct b end; [reflexivity|].
  f_equal. f_equal.
  match goal with |- context [in_range c ?sel p] => rewrite (in_range_equiv c sel p p' H) end.
  reflexivity.
Qed.

(* the distance fact is determined by x and y *)
Lemma pos_facts_equiv x y d x' y' d' :
  pos_facts_ok (x, y, d) -> pos_facts_ok (x', y', d') -> x == x' -> y == y' -> pos_equiv (x, y, d) (x', y', d').
Proof.
  unfold pos_facts_ok, pos_equiv. cbn [fst snd]. intros [D0 D] [D0' D'] Hx Hy. repeat split; try assumption.
  apply (sqrt_unique d d' (x * x + y * y) (x' * x' + y' * y')); auto. now rewrite Hx, Hy.
Qed.

(* ---- plane distance ------------------------------------------------------------------------------------------ *)
Lemma Forall2_pt_eq_sqnorm l l' : Forall2 pt_eq l l' -> Forall2 Qeq (map sqnorm l) (map sqnorm l').
Proof.
  induction 1 as [|p q l l' [H1 H2] H IH]; cbn [map]; constructor; [|assumption].
  unfold sqnorm, sq. now rewrite H1, H2.
Qed.

(* value of plane_sq_at: independent of the left/right assignment *)
Definition plane_val (i j : nat) (e g : list Geom2.pt) : option Q :=
  match nth_error e i, nth_error g i, nth_error e j, nth_error g j with
  | Some ei, Some gi, Some ej, Some gj => Some ((1 # 2) * (sqdist_bev ei gi + sqdist_bev ej gj))
  | _, _, _, _ => None
  end.

Lemma plane_sq_at_val i j (e g : list Geom2.pt) : List.length e = List.length g -> oQeq (plane_sq_at (i, j) e g) (plane_val i j e g).
Proof.
  intros L. unfold plane_sq_at, plane_val.
  assert (N : forall k, nth_error e k = None <-> nth_error g k = None)
    by (intro k; rewrite !nth_error_None, L; tauto).
  destruct (nth_error g i) as [gi|] eqn:Gi.
  2:{ destruct (nth_error e i); [|exact I]. destruct (nth_error e j); exact I. }
  destruct (nth_error g j) as [gj|] eqn:Gj.
  2:{ destruct (nth_error e i); [|exact I]. destruct (nth_error e j); exact I. }
  destruct (nth_error e i) as [ei|] eqn:Ei; [|apply N in Ei; congruence].
  destruct (nth_error e j) as [ej|] eqn:Ej; [|apply N in Ej; congruence].
  unfold left_right. destruct (Qltb (cross0 gi gj) 0); rewrite ?Ei, ?Gi, ?Ej, ?Gj; cbn [oQeq]; ring.
Qed.

Lemma moved_corners m b : Forall2 pt_eq (corners (move_box m b)) (map (move_pt m) (corners b)).
Proof. apply corners_move. Qed.

Lemma Forall2_map_r {A B C} (R : A -> C -> Prop) (f : B -> C) l l' :
  Forall2 R l (map f l') -> Forall2 (fun a b => R a (f b)) l l'.
Proof.
  revert l. induction l' as [|b t IH]; intros l H; inversion H; subst; constructor; auto.
Qed.

Lemma plane_val_move m i j e g : motion_unit m ->
  oQeq (plane_val i j (corners (move_box m e)) (corners (move_box m g))) (plane_val i j (corners e) (corners g)).
Proof.
  intros U. unfold plane_val.
  pose proof (Forall2_map_r _ _ _ _ (moved_corners m e)) as He.
  pose proof (Forall2_map_r _ _ _ _ (moved_corners m g)) as Hg.
  pose proof (Forall2_nth_error _ _ _ He i) as Ei. pose proof (Forall2_nth_error _ _ _ Hg i) as Gi.
  pose proof (Forall2_nth_error _ _ _ He j) as Ej. pose proof (Forall2_nth_error _ _ _ Hg j) as Gj.
  destruct (nth_error (corners (move_box m e)) i) as [ei'|], (nth_error (corners e) i) as [ei|]; try contradiction; [|exact I].
  destruct (nth_error (corners (move_box m g)) i) as [gi'|], (nth_error (corners g) i) as [gi|]; try contradiction; [|exact I].
  destruct (nth_error (corners (move_box m e)) j) as [ej'|], (nth_error (corners e) j) as [ej|]; try contradiction; [|exact I].
  destruct (nth_error (corners (move_box m g)) j) as [gj'|], (nth_error (corners g) j) as [gj|]; try contradiction; [|exact I].
  cbn [oQeq].
  rewrite (sqdist_bev_pt_eq _ _ _ _ Ei Gi), (sqdist_bev_pt_eq _ _ _ _ Ej Gj), !(sqdist_bev_move m) by exact U.
  reflexivity.
Qed.

Lemma oQeq_trans a b c : oQeq a b -> oQeq b c -> oQeq a c.
Proof. destruct a, b, c; cbn; try tauto. intros H1 H2. now rewrite H1. Qed.
Lemma oQeq_sym a b : oQeq a b -> oQeq b a.
Proof. destruct a, b; cbn; try tauto. intros H. now symmetry. Qed.

Lemma corners_length b : List.length (corners b) = 4%nat.
Proof. reflexivity. Qed.

Lemma unmove_pt_eq m a b : pt_eq a b -> pt_eq (unmove_pt m a) (unmove_pt m b).
Proof.
  intros [H1 H2]. unfold unmove_pt, Geom2.rot, pt_eq. cbn [fst snd]. now rewrite H1, H2.
Qed.

Lemma pt_eq_trans a b c : pt_eq a b -> pt_eq b c -> pt_eq a c.
Proof. intros [A1 A2] [B1 B2]. split; [now rewrite A1|now rewrite A2]. Qed.

Lemma unmove_corners m g : motion_unit m ->
  Forall2 pt_eq (map (unmove_pt m) (corners (move_box m g))) (corners g).
Proof.
  intros U. pose proof (Forall2_map_r _ _ _ _ (moved_corners m g)) as Hg.
  induction Hg as [|p' p t' t Hp Ht IH]; cbn [map]; constructor; [|exact IH].
  eapply pt_eq_trans; [apply unmove_pt_eq; exact Hp|]. now apply unmove_move_pt.
Qed.

Theorem plane_sq_map_invariant m e g : motion_unit m -> oQeq (plane_sq_map m e g) (plane_sq_box e g).
Proof.
  intros U. unfold plane_sq_map, plane_sq_box, plane_sq.
  assert (S : plane_sel (map (unmove_pt m) (corners (move_box m g))) = plane_sel (corners g)).
  { unfold plane_sel. now rewrite (argsort_congr _ _ (Forall2_pt_eq_sqnorm _ _ (unmove_corners m g U))). }
  rewrite S. destruct (plane_sel (corners g)) as [[i j]|]; [|exact I].
  eapply oQeq_trans; [apply plane_sq_at_val; now rewrite !corners_length|].
  eapply oQeq_trans; [apply plane_val_move; exact U|].
  apply oQeq_sym. apply plane_sq_at_val. now rewrite !corners_length.
Qed.

(* ---- height intersection ------------------------------------------------------------------------------------ *)
Lemma height_intersection_move m e g : height_intersection (move_box m e) (move_box m g) == height_intersection e g.
Proof.
  unfold height_intersection, move_box, qmax, qmin. cbn [bz bh]. q_cases; lra.
Qed.

(* ---- matching depends on the score table only up to == ---------------------------------------------------- *)
Definition key_equiv (k k' : nat -> nat -> option Q) : Prop := forall e g, cell_equiv (k e g) (k' e g).

Definition cand_equiv (a b : option cand) : Prop :=
  match a, b with
  | None, None => True
  | Some (s, e, g), Some (s', e', g') => s == s' /\ e = e' /\ g = g'
  | _, _ => False
  end.

Lemma better_ext mx a a' b b' : a == a' -> b == b' -> better mx a b = better mx a' b'.
Proof. intros Ha Hb. unfold better. destruct mx; now rewrite Ha, Hb. Qed.

Lemma upd_equiv mx k k' b b' e g :
  key_equiv k k' -> cand_equiv b b' -> cand_equiv (upd mx k b e g) (upd mx k' b' e g).
Proof.
  intros Hk Hb. unfold upd. specialize (Hk e g). unfold cell_equiv in Hk.
  destruct (k e g) as [s|], (k' e g) as [s'|]; try contradiction; [|exact Hb].
  destruct b as [[[sb eb] gb]|], b' as [[[sb' eb'] gb']|]; cbn in Hb; try contradiction.
  - destruct Hb as (Hs & -> & ->). rewrite (better_ext mx s s' sb sb' Hk Hs).
    destruct (better mx s' sb'); cbn; auto.
  - cbn. auto.
Qed.

Lemma scan_row_equiv mx k k' e gs : key_equiv k k' -> forall b b',
  cand_equiv b b' -> cand_equiv (scan_row mx k e gs b) (scan_row mx k' e gs b').
Proof.
  intros Hk. induction gs as [|g t IH]; intros b b' Hb; cbn [scan_row]; [exact Hb|].
  apply IH. now apply upd_equiv.
Qed.

Lemma scan_equiv mx k k' es gs : key_equiv k k' -> forall b b',
  cand_equiv b b' -> cand_equiv (scan mx k es gs b) (scan mx k' es gs b').
Proof.
  intros Hk. induction es as [|e t IH]; intros b b' Hb; cbn [scan]; [exact Hb|].
  apply IH. now apply scan_row_equiv.
Qed.

Lemma argbest_equiv mx k k' es gs : key_equiv k k' -> argbest mx k es gs = argbest mx k' es gs.
Proof.
  intros Hk. unfold argbest. pose proof (scan_equiv mx k k' es gs Hk None None I) as H.
  destruct (scan mx k es gs None) as [[[s e] g]|], (scan mx k' es gs None) as [[[s' e'] g']|]; cbn in H; try contradiction.
  - destruct H as (_ & -> & ->). reflexivity.
  - reflexivity.
Qed.

Lemma stage_equiv fuel mx k k' : key_equiv k k' -> forall es gs, stage fuel mx k es gs = stage fuel mx k' es gs.
Proof.
  intros Hk. induction fuel as [|f IH]; intros es gs; cbn [stage]; [reflexivity|].
  rewrite (argbest_equiv mx k k' es gs Hk). destruct (argbest mx k' es gs) as [[e g]|]; [|reflexivity].
  now rewrite IH.
Qed.

Lemma masked_equiv c c' ok : key_equiv c c' -> key_equiv (masked c ok) (masked c' ok).
Proof. intros H e g. unfold masked. destruct (ok e g); [apply H|exact I]. Qed.

Theorem match_core_equiv mx fpv c c' ok n m :
  key_equiv c c' -> match_core mx fpv c ok n m = match_core mx fpv c' ok n m.
Proof.
  intros H. unfold match_core, match_stages.
  rewrite (stage_equiv n mx _ _ (masked_equiv c c' ok H)).
  destruct (stage n mx (masked c' ok) (seq 0 n) (seq 0 m)) as [[p1 es1] gs1].
  rewrite (stage_equiv (List.length es1) mx c c' H). reflexivity.
Qed.

(* ---- TP decision and AP ---------------------------------------------------------------------------------------- *)
Lemma better_than_ext md v v' t t' : cell_equiv v v' -> t == t' -> better_than md v t = better_than md v' t'.
Proof.
  intros Hv Ht. unfold better_than. destruct v as [x|], v' as [x'|]; cbn in Hv; try contradiction; [|reflexivity].
  destruct md; now rewrite Hv, Ht.
Qed.

Definition kind_equiv (k k' : kind) : Prop :=
  match k, k' with
  | TPw w, TPw w' => w == w'
  | FPr, FPr => True
  | IGN, IGN => True
  | _, _ => False
  end.

Lemma kind_equiv_le ks ks' : Forall2 kind_equiv ks ks' -> kinds_le ks ks' /\ kinds_le ks' ks.
Proof.
  induction 1 as [|k k' t t' Hk H [IH1 IH2]]; [split; constructor|].
  split; constructor; auto; destruct k, k'; cbn in *; try contradiction; lra.
Qed.

Lemma kind_equiv_weights ks ks' : Forall2 kind_equiv ks ks' -> weights_ok ks -> weights_ok ks'.
Proof.
  induction 1 as [|k k' t t' Hk H IH]; intros W x Hx; [destruct Hx|].
  destruct Hx as [<-|Hx].
  - pose proof (W k (or_introl eq_refl)). destruct k, k'; cbn in *; try contradiction; lra.
  - apply IH; [intros y Hy; apply W; now right|exact Hx].
Qed.

Theorem ap_of_kinds_equiv n ks ks' :
  Forall2 kind_equiv ks ks' -> weights_ok ks -> ap_of_kinds n ks == ap_of_kinds n ks'.
Proof.
  intros H W. destruct (kind_equiv_le _ _ H) as [L1 L2].
  pose proof (kind_equiv_weights _ _ H W) as W'.
  pose proof (ap_monotone n ks ks' L1 W W'). pose proof (ap_monotone n ks' ks L2 W' W). lra.
Qed.
