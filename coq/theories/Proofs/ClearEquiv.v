(* C07 (tracking part): the CLEAR model depends on the per-pair matching scores only up to ==.
   Two renderings of one scene (ego frame / map frame) give object results with the same identities,
   labels and label decisions and with matching scores that are equal as numbers (C06/C07: centre
   distance, plane distance, IoU are invariant); then every counter of CLEAR (TP, FP, id switches,
   number of results) is identical and the accumulated score, MOTA and MOTP are equal. *)
From Coq Require Import List Bool Arith ZArith QArith Setoid Morphisms Lqa.
From PE Require Import Base.QUtil Model.Clear.
Import ListNotations.
Open Scope Q_scope.

Definition gtm_equiv (g g' : gtm) : Prop :=
  g_id g = g_id g' /\ g_lab g = g_lab g' /\ g_fp g = g_fp g' /\ g_labok g = g_labok g' /\ g_score g == g_score g'.

Definition ogtm_equiv (a b : option gtm) : Prop :=
  match a, b with
  | None, None => True
  | Some g, Some g' => gtm_equiv g g'
  | _, _ => False
  end.

Definition res_equiv (r r' : result) : Prop :=
  r_est r = r_est r' /\ r_elab r = r_elab r' /\ ogtm_equiv (r_gt r) (r_gt r').

Definition frame_equiv (f f' : frame) : Prop := Forall2 res_equiv f f'.

Definition targets_equiv (T T' : targets) : Prop :=
  Forall2 (fun a b => fst a = fst b /\ snd a == snd b) T T'.

Definition counters_equiv (a b : counters) : Prop :=
  c_tp a = c_tp b /\ c_fp a = c_fp b /\ c_sw a = c_sw b /\ c_score a == c_score b /\ c_num a = c_num b.

Definition oQ_equiv (a b : option Q) : Prop :=
  match a, b with
  | None, None => True
  | Some x, Some y => x == y
  | _, _ => False
  end.

Lemma better_equiv m v v' t t' : v == v' -> t == t' -> better m v t = better m v' t'.
Proof. intros Hv Ht. unfold better. destruct m; now rewrite Hv, Ht. Qed.

Lemma is_correct_equiv m t t' r r' : t == t' -> res_equiv r r' -> is_correct m t r = is_correct m t' r'.
Proof.
  intros Ht (_ & _ & Hg). unfold is_correct.
  destruct (r_gt r) as [g|], (r_gt r') as [g'|]; simpl in Hg; try contradiction; [|reflexivity].
  destruct Hg as (_ & _ & Hfp & Hok & Hs). rewrite Hfp, Hok, (better_equiv m _ _ _ _ Hs Ht). reflexivity.
Qed.

Lemma thr_label_equiv r r' : res_equiv r r' -> thr_label r = thr_label r'.
Proof.
  intros (_ & He & Hg). unfold thr_label.
  destruct (r_gt r) as [g|], (r_gt r') as [g'|]; simpl in Hg; try contradiction; [|exact He].
  destruct Hg as (_ & Hl & _). exact Hl.
Qed.

Lemma label_threshold_equiv T T' lab : targets_equiv T T' -> oQ_equiv (label_threshold T lab) (label_threshold T' lab).
Proof.
  induction 1 as [|[l t] [l' t'] T T' [Hl Ht] _ IH]; simpl; [exact I|].
  simpl in Hl, Ht. subst l'. destruct (Nat.eqb l lab); [exact Ht|exact IH].
Qed.

Lemma same_est_equiv c c' p p' : res_equiv c c' -> res_equiv p p' -> same_est c p = same_est c' p'.
Proof. intros (A & B & _) (C & D & _). unfold same_est. now rewrite A, B, C, D. Qed.

Lemma is_switched_equiv c c' p p' : res_equiv c c' -> res_equiv p p' -> is_switched c p = is_switched c' p'.
Proof.
  intros Hc Hp. unfold is_switched. rewrite (same_est_equiv _ _ _ _ Hc Hp).
  destruct Hc as (_ & _ & Gc), Hp as (_ & _ & Gp).
  destruct (r_gt c) as [gc|], (r_gt c') as [gc'|]; simpl in Gc; try contradiction; [|reflexivity].
  destruct (r_gt p) as [gp|], (r_gt p') as [gp'|]; simpl in Gp; try contradiction; [|reflexivity].
  destruct Gc as (A & _), Gp as (B & _). now rewrite A, B.
Qed.

Lemma is_same_equiv c c' p p' : res_equiv c c' -> res_equiv p p' -> is_same c p = is_same c' p'.
Proof.
  intros Hc Hp. unfold is_same. rewrite (same_est_equiv _ _ _ _ Hc Hp).
  destruct Hc as (_ & _ & Gc), Hp as (_ & _ & Gp).
  destruct (r_gt c) as [gc|], (r_gt c') as [gc'|]; simpl in Gc; try contradiction; [|reflexivity].
  destruct (r_gt p) as [gp|], (r_gt p') as [gp'|]; simpl in Gp; try contradiction; [|reflexivity].
  destruct Gc as (A & _), Gp as (B & _). now rewrite A, B.
Qed.

Lemma score_of_equiv r r' : res_equiv r r' -> score_of r == score_of r'.
Proof.
  intros (_ & _ & Hg). unfold score_of.
  destruct (r_gt r) as [g|], (r_gt r') as [g'|]; simpl in Hg; try contradiction; [|reflexivity].
  destruct Hg as (_ & _ & _ & _ & Hs). exact Hs.
Qed.

Definition ores_equiv (a b : option result) : Prop :=
  match a, b with
  | None, None => True
  | Some x, Some y => res_equiv x y
  | _, _ => False
  end.

Lemma scan_equiv m t t' c c' ps ps' sw :
  t == t' -> res_equiv c c' -> frame_equiv ps ps' ->
  ores_equiv (fst (scan m t c ps sw)) (fst (scan m t' c' ps' sw)) /\
  snd (scan m t c ps sw) = snd (scan m t' c' ps' sw).
Proof.
  intros Ht Hc Hps. revert sw. induction Hps as [|p p' ps ps' Hp _ IH]; intros sw; simpl; [split; [exact I|reflexivity]|].
  rewrite (is_correct_equiv m t t' p p' Ht Hp).
  destruct (is_correct m t' p'); simpl; [|apply IH].
  rewrite (is_switched_equiv c c' p p' Hc Hp).
  destruct (is_switched c' p'); simpl; [split; [exact I|reflexivity]|].
  rewrite (is_same_equiv c c' p p' Hc Hp).
  destruct (is_same c' p'); simpl; [split; [exact Hp|reflexivity]|apply IH].
Qed.

Definition decision_equiv (a b : decision) : Prop :=
  match a, b with
  | DIgnored, DIgnored => True
  | DCarry s, DCarry s' => s == s'
  | DNew s sw, DNew s' sw' => s == s' /\ sw = sw'
  | DFp, DFp => True
  | _, _ => False
  end.

Lemma decide_equiv m T T' ps ps' c c' :
  targets_equiv T T' -> frame_equiv ps ps' -> res_equiv c c' ->
  decision_equiv (decide m T ps c) (decide m T' ps' c').
Proof.
  intros HT Hps Hc. unfold decide. rewrite (thr_label_equiv c c' Hc).
  pose proof (label_threshold_equiv T T' (thr_label c') HT) as Hl.
  destruct (label_threshold T (thr_label c')) as [t|], (label_threshold T' (thr_label c')) as [t'|]; simpl in Hl; try contradiction; [|exact I].
  destruct (scan_equiv m t t' c c' ps ps' false Hl Hc Hps) as [A B].
  destruct (scan m t c ps false) as [o sw], (scan m t' c' ps' false) as [o' sw']. simpl in A, B. subst sw'.
  destruct o as [p|], o' as [p'|]; simpl in A; try contradiction.
  - simpl. now apply score_of_equiv.
  - rewrite (is_correct_equiv m t t' c c' Hl Hc). destruct (is_correct m t' c'); simpl; [|exact I].
    split; [now apply score_of_equiv|reflexivity].
Qed.

Lemma apply_dec_equiv a a' d d' : counters_equiv a a' -> decision_equiv d d' -> counters_equiv (apply_dec a d) (apply_dec a' d').
Proof.
  intros (A & B & C & D & E) Hd. destruct d, d'; simpl in Hd; try contradiction; unfold apply_dec, counters_equiv; cbn [c_tp c_fp c_sw c_score c_num].
  - repeat split; assumption.
  - split; [congruence|]. split; [congruence|]. split; [congruence|]. split; [now rewrite D, Hd|congruence].
  - destruct Hd as [Hs ->]. split; [congruence|]. split; [congruence|]. split; [destruct sw0; congruence|]. split; [now rewrite D, Hs|congruence].
  - split; [congruence|]. split; [congruence|]. split; [congruence|]. split; [exact D|congruence].
Qed.

Lemma calc_tp_fp_equiv m T T' ps ps' cs cs' :
  targets_equiv T T' -> frame_equiv ps ps' -> frame_equiv cs cs' ->
  counters_equiv (calc_tp_fp m T ps cs) (calc_tp_fp m T' ps' cs').
Proof.
  intros HT Hps Hcs. unfold calc_tp_fp.
  assert (Hz : counters_equiv zero zero) by (repeat split; reflexivity).
  revert Hz. generalize zero at 1 3. generalize zero.
  induction Hcs as [|c c' cs cs' Hc _ IH]; intros a a' Ha; simpl; [exact Ha|].
  apply IH. apply apply_dec_equiv; [exact Ha|now apply decide_equiv].
Qed.

Lemma add_counters_equiv a a' b b' n : counters_equiv a a' -> counters_equiv b b' ->
  counters_equiv (add_counters a b n) (add_counters a' b' n).
Proof.
  intros (A & B & C & D & E) (A' & B' & C' & D' & E'). unfold add_counters, counters_equiv; cbn [c_tp c_fp c_sw c_score c_num].
  repeat split; try congruence. now rewrite D, D'.
Qed.

Lemma Forall2_length_eq {A B} (R : A -> B -> Prop) l l' : Forall2 R l l' -> length l = length l'.
Proof. induction 1; simpl; congruence. Qed.

Lemma accumulate_equiv m T T' prev prev' rest rest' a a' :
  targets_equiv T T' -> frame_equiv prev prev' -> Forall2 frame_equiv rest rest' -> counters_equiv a a' ->
  counters_equiv (accumulate m T prev rest a) (accumulate m T' prev' rest' a').
Proof.
  intros HT Hp Hr. revert prev prev' Hp a a'. induction Hr as [|cur cur' rest rest' Hc _ IH]; intros prev prev' Hp a a' Ha; simpl; [exact Ha|].
  apply IH; [exact Hc|]. rewrite (Forall2_length_eq _ _ _ Hc).
  apply add_counters_equiv; [exact Ha|now apply calc_tp_fp_equiv].
Qed.

Lemma clear_counts_equiv m T T' h h' :
  targets_equiv T T' -> Forall2 frame_equiv h h' -> counters_equiv (clear_counts m T h) (clear_counts m T' h').
Proof.
  intros HT Hh. unfold clear_counts. destruct Hh as [|f f' rest rest' Hf Hr]; [repeat split; reflexivity|].
  apply accumulate_equiv; try assumption. repeat split; reflexivity.
Qed.

Lemma max0_equiv x y : x == y -> max0 x == max0 y.
Proof. intros H. unfold max0. rewrite H. destruct (Qltb 0 y); [exact H|reflexivity]. Qed.

Lemma mota_equiv n a a' : counters_equiv a a' -> oQ_equiv (mota_of n a) (mota_of n a').
Proof.
  intros (A & B & C & _). unfold mota_of. destruct n; [exact I|]. simpl. rewrite A, B, C. reflexivity.
Qed.

Lemma motp_equiv a a' : counters_equiv a a' -> oQ_equiv (motp_of a) (motp_of a').
Proof.
  intros (A & _ & _ & D & _). unfold motp_of. rewrite <- A. destruct (c_tp a); [exact I|]. simpl. now rewrite D.
Qed.

(* the statement used by Props/C07.v *)
Theorem clear_frame_invariant m T T' numgt h h' :
  targets_equiv T T' -> Forall2 frame_equiv h h' ->
  let k := make_clear m T numgt h in
  let k' := make_clear m T' numgt h' in
  c_tp (k_cnt k) = c_tp (k_cnt k') /\ c_fp (k_cnt k) = c_fp (k_cnt k') /\ c_sw (k_cnt k) = c_sw (k_cnt k') /\
  c_num (k_cnt k) = c_num (k_cnt k') /\
  oQ_equiv (k_mota k) (k_mota k') /\ oQ_equiv (k_motp k) (k_motp k').
Proof.
  intros HT Hh. cbv zeta. unfold make_clear; cbn [k_cnt k_mota k_motp].
  pose proof (clear_counts_equiv m T T' h h' HT Hh) as Hc.
  destruct Hc as (A & B & C & D & E).
  repeat split; try assumption.
  - apply mota_equiv. repeat split; assumption.
  - apply motp_equiv. repeat split; assumption.
Qed.
