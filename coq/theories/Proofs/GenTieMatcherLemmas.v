(* Helper lemmas and tactics of Props/GenTieMatcher.v (the object matcher translated from the source = Model/Matching.v).

   Nothing here mentions a generated FUNCTION; the file is stated over the fixed prelude of Gen/loops_matcher.v (the error monad and
   the numpy / list vocabulary over `tbl A` = list of rows):
     1. loop rules: a fold is the state function of the elements seen [fold_list_rule]; a fold with a break flag is the bounded
        iteration [iterl] ([fold_break]);
     2. the table of a function of the object identities [tab] and what the numpy vocabulary does to it: np.full + item assignment
        row by row / cell by cell [fill_table, fill_row, np_setitem2_at], views and masks [np_last0_tab, np_last1_tab, np_where_tab],
        np.isnan(..).all() [isnan_all_tab], np.nanargmin / nanargmax + np.unravel_index = the model's row-major arg-best [pick_spec],
        list.pop / np.delete = removal of the chosen identity [pick_spec];
     3. the greedy loop with its break = Matching.stage, with the flag [stagef, stage1_loop, stage2_loop];
     4. the proof scripts (each theorem of Props/GenTieMatcher.v is compiled on its own, so what they share lives here). *)
From Coq Require Import List Bool Arith Lia.
From PE Require Import Base.QUtil Model.Matching Proofs.MatchingProofs Proofs.MatchingArgbest.
From PE Require Gen.loops_matcher.
Import Gen.loops_matcher.
Import ListNotations.
Close Scope Q_scope.
Open Scope list_scope.

(* ---- 0. the monad ---------------------------------------------------------------------------------------------------------- *)
Lemma bind_ok_r {A} (r : res A) : bind r (fun x => Ok x) = r.
Proof. destruct r; reflexivity. Qed.

(* ---- 1. loop rules ----------------------------------------------------------------------------------------------------------- *)
Lemma fold_err {A S} (F : res S -> A -> res S) l e : (forall e x, F (Err e) x = Err e) -> fold_left F l (Err e) = Err e.
Proof. intros H. induction l as [|x l IH]; [reflexivity|]. cbn. rewrite H. exact IH. Qed.

(* a loop without break: the state after the elements `seen` is G seen *)
Lemma fold_list_rule {A S} (F : res S -> A -> res S) (G : list A -> S) l :
  (forall seen x, F (Ok (G seen)) x = Ok (G (seen ++ [x]))) ->
  fold_left F l (Ok (G [])) = Ok (G l).
Proof.
  intros H. change l with ([] ++ l) at 2. generalize (@nil A) as seen.
  induction l as [|x l IH]; intros seen; cbn [fold_left].
  - rewrite app_nil_r. reflexivity.
  - rewrite H, IH, <- app_assoc. reflexivity.
Qed.

(* a loop with a break flag: at most one iteration per element, stopped by the first `true` *)
Fixpoint iterl {A S} (l : list A) (body : S -> A -> res (bool * S)) (s : S) : res (bool * S) :=
  match l with
  | [] => Ok (false, s)
  | x :: r =>
      match body s x with
      | Ok (true, s') => Ok (true, s')
      | Ok (false, s') => iterl r body s'
      | Err e => Err e
      end
  end.

Lemma fold_break {A S} (F : res (bool * S) -> A -> res (bool * S)) l s :
  (forall s x, F (Ok (true, s)) x = Ok (true, s)) ->
  (forall e x, F (Err e) x = Err e) ->
  fold_left F l (Ok (false, s)) = iterl l (fun s x => F (Ok (false, s)) x) s.
Proof.
  intros Ht He. revert s. induction l as [|x l IH]; intros s; cbn [fold_left iterl]; [reflexivity|].
  destruct (F (Ok (false, s)) x) as [[[|] s']|e].
  - clear IH. induction l as [|y l IH]; [reflexivity|]. cbn [fold_left]. rewrite Ht. exact IH.
  - apply IH.
  - apply fold_err. exact He.
Qed.

(* ---- 2. tables ------------------------------------------------------------------------------------------------------------------ *)
Definition tab {A} (f : nat -> nat -> A) (es gs : list nat) : tbl A := map (fun e => map (f e) gs) es.

Lemma tab_ext {A} (f f' : nat -> nat -> A) es gs : (forall e g, f e g = f' e g) -> tab f es gs = tab f' es gs.
Proof. intros H. unfold tab. apply map_ext. intros e. apply map_ext. intros g. apply H. Qed.

Lemma tab_length {A} (f : nat -> nat -> A) es gs : length (tab f es gs) = length es.
Proof. apply map_length. Qed.

(* -- item assignment *)
Lemma list_set_at {A} (pre : list A) x v post : list_set (pre ++ x :: post) (length pre) v = Some (pre ++ v :: post).
Proof. induction pre as [|a pre IH]; cbn; [reflexivity|]. rewrite IH. reflexivity. Qed.

Lemma nth_error_at {A} (pre : list A) x post : nth_error (pre ++ x :: post) (length pre) = Some x.
Proof. induction pre as [|a pre IH]; cbn; [reflexivity|exact IH]. Qed.

Lemma np_setitem2_at {A} (done : tbl A) pre x post rest v :
  np_setitem2 (done ++ (pre ++ x :: post) :: rest) (length done) (length pre) v = Ok (done ++ (pre ++ v :: post) :: rest).
Proof. unfold np_setitem2. rewrite nth_error_at, list_set_at, list_set_at. reflexivity. Qed.

(* -- np.full filled row by row: rows before the current one are final, the current and later ones still hold the default *)
Lemma fill_table {A} (F : res (tbl A) -> nat * nat -> res (tbl A)) (c : nat -> nat -> A) (d : A) es gs :
  (forall done i e rest, length done = i ->
     F (Ok (done ++ repeat d (length gs) :: rest)) (i, e) = Ok (done ++ map (c e) gs :: rest)) ->
  fold_left F (combine (seq 0 (length es)) es) (Ok (np_full2 (length es) (length gs) d)) = Ok (tab c es gs).
Proof.
  intros H. unfold np_full2.
  change (repeat (repeat d (length gs)) (length es)) with ([] ++ repeat (repeat d (length gs)) (length es)).
  change (tab c es gs) with ([] ++ tab c es gs). change 0 with (length (@nil (list A))).
  generalize (@nil (list A)) as done.
  induction es as [|e es IH]; intros done; [reflexivity|].
  cbn [length seq combine fold_left repeat tab map].
  rewrite (H done (length done) e _ eq_refl).
  replace (S (length done)) with (length (done ++ [map (c e) gs])) by (rewrite app_length; cbn; lia).
  replace (done ++ map (c e) gs :: repeat (repeat d (length gs)) (length es))
    with ((done ++ [map (c e) gs]) ++ repeat (repeat d (length gs)) (length es)) by (rewrite <- app_assoc; reflexivity).
  rewrite IH, <- app_assoc. reflexivity.
Qed.

(* -- one row filled cell by cell *)
Lemma fill_row {A} (F : res (tbl A) -> nat * nat -> res (tbl A)) (c : nat -> A) (d : A) (done rest : tbl A) gs :
  (forall pre j g post, length pre = j ->
     F (Ok (done ++ (pre ++ d :: post) :: rest)) (j, g) = Ok (done ++ (pre ++ c g :: post) :: rest)) ->
  fold_left F (combine (seq 0 (length gs)) gs) (Ok (done ++ repeat d (length gs) :: rest)) = Ok (done ++ map c gs :: rest).
Proof.
  intros H.
  change (repeat d (length gs)) with ([] ++ repeat d (length gs)). change (map c gs) with ([] ++ map c gs).
  change 0 with (length (@nil A)). generalize (@nil A) as pre.
  induction gs as [|g gs IH]; intros pre; [reflexivity|].
  cbn [length seq combine fold_left repeat map].
  rewrite (H pre (length pre) g _ eq_refl).
  replace (S (length pre)) with (length (pre ++ [c g])) by (rewrite app_length; cbn; lia).
  replace (pre ++ c g :: repeat d (length gs)) with ((pre ++ [c g]) ++ repeat d (length gs)) by (rewrite <- app_assoc; reflexivity).
  rewrite IH, <- app_assoc. reflexivity.
Qed.

(* -- views and masks *)
Lemma np_last0_tab {A B} (f : nat -> nat -> A * B) es gs : np_last0 (tab f es gs) = tab (fun e g => fst (f e g)) es gs.
Proof. unfold np_last0, tab. rewrite map_map. apply map_ext. intros e. apply map_map. Qed.

Lemma np_last1_tab {A B} (f : nat -> nat -> A * B) es gs : np_last1 (tab f es gs) = tab (fun e g => snd (f e g)) es gs.
Proof. unfold np_last1, tab. rewrite map_map. apply map_ext. intros e. apply map_map. Qed.

Lemma combine_map_same {A B C} (f : A -> B) (g : A -> C) l : combine (map f l) (map g l) = map (fun x => (f x, g x)) l.
Proof. induction l as [|x l IH]; cbn; [reflexivity|]. rewrite IH. reflexivity. Qed.

Lemma np_where_tab (b : nat -> nat -> bool) (f : nat -> nat -> option Q) es gs :
  np_where_nan (tab b es gs) (tab f es gs) = tab (fun e g => if b e g then f e g else None) es gs.
Proof.
  unfold np_where_nan, tab. rewrite combine_map_same, map_map. apply map_ext. intros e. cbn [fst snd].
  rewrite combine_map_same, map_map. reflexivity.
Qed.

(* -- pop / delete *)
Lemma remove_nth_at {A} (l : list A) i : i < length l -> remove_nth l i = Some (firstn i l ++ skipn (S i) l).
Proof.
  revert i. induction l as [|x l IH]; intros i H; [cbn in H; lia|].
  destruct i as [|i]; [reflexivity|]. cbn [remove_nth firstn skipn app]. rewrite IH by (cbn in H; lia). reflexivity.
Qed.

Lemma remove_nth_nodup (l : list nat) i x : NoDup l -> nth_error l i = Some x -> remove_nth l i = Some (remove_first x l).
Proof.
  revert i. induction l as [|y l IH]; intros i ND H; [destruct i; discriminate|].
  inversion ND as [|? ? Hy ND']; subst. destruct i as [|i]; cbn in H.
  - inversion H; subst. cbn. rewrite Nat.eqb_refl. reflexivity.
  - cbn [remove_nth remove_first]. destruct (Nat.eqb x y) eqn:E.
    + apply Nat.eqb_eq in E. subst. exfalso. apply Hy. eapply nth_error_In; eauto.
    + rewrite (IH i ND' H). reflexivity.
Qed.

Lemma remove_first_nodup x l : NoDup l -> NoDup (remove_first x l).
Proof.
  induction l as [|y l IH]; intros ND; [constructor|]. inversion ND as [|? ? Hy ND']; subst. cbn.
  destruct (Nat.eqb x y); [exact ND'|]. constructor; [|apply IH; exact ND'].
  intros H. apply Hy. eapply remove_first_in; eauto.
Qed.

Lemma list_pop_nodup (l : list nat) i x : NoDup l -> nth_error l i = Some x -> list_pop l i = Ok (x, remove_first x l).
Proof. intros ND H. unfold list_pop. rewrite H, (remove_nth_nodup l i x ND H). reflexivity. Qed.

Lemma np_delete0_tab {A} (f : nat -> nat -> A) es gs i e :
  NoDup es -> nth_error es i = Some e -> np_delete0 (tab f es gs) i = Ok (tab f (remove_first e es) gs).
Proof.
  intros ND H. unfold np_delete0.
  assert (R : forall l j, remove_nth (map (fun e => map (f e) gs) l) j =
                          match remove_nth l j with Some l' => Some (map (fun e => map (f e) gs) l') | None => None end).
  { induction l as [|y l IH]; intros j; [destruct j; reflexivity|]. destruct j as [|j]; [reflexivity|].
    cbn [map remove_nth]. rewrite IH. destruct (remove_nth l j); reflexivity. }
  unfold tab. rewrite R, (remove_nth_nodup es i e ND H). reflexivity.
Qed.

Lemma np_delete1_tab {A} (f : nat -> nat -> A) es gs j g :
  NoDup gs -> nth_error gs j = Some g -> np_delete1 (tab f es gs) j = Ok (tab f es (remove_first g gs)).
Proof.
  intros ND H.
  assert (R : forall (h : nat -> A) l k, remove_nth (map h l) k = match remove_nth l k with Some l' => Some (map h l') | None => None end).
  { induction l as [|y l IH]; intros k; [destruct k; reflexivity|]. destruct k as [|k]; [reflexivity|].
    cbn [map remove_nth]. rewrite IH. destruct (remove_nth l k); reflexivity. }
  induction es as [|e es IH]; [reflexivity|].
  cbn [tab map np_delete1]. rewrite R, (remove_nth_nodup gs j g ND H). fold (tab f es gs). rewrite IH. reflexivity.
Qed.

(* -- np.isnan(table).all() <-> the model finds no candidate *)
Lemma isnan_all_tab mx key es gs :
  np_isnan_all (tab key es gs) = match argbest mx key es gs with None => true | Some _ => false end.
Proof.
  destruct (argbest mx key es gs) as [[e0 g0]|] eqn:E.
  - apply argbest_some in E. destruct E as (Ie & Ig & s & K & _).
    apply not_true_is_false. intros H. unfold np_isnan_all, tab in H. rewrite forallb_forall in H.
    specialize (H (map (key e0) gs) (in_map _ _ _ Ie)). rewrite forallb_forall in H.
    specialize (H (key e0 g0) (in_map _ _ _ Ig)). rewrite K in H. discriminate.
  - unfold np_isnan_all, tab. apply forallb_forall. intros r Hr. apply in_map_iff in Hr. destruct Hr as (e & <- & Ie).
    apply forallb_forall. intros c Hc. apply in_map_iff in Hc. destruct Hc as (g & <- & Ig).
    rewrite (argbest_none mx key es gs E e g Ie Ig). reflexivity.
Qed.

(* -- np.nanargmin / nanargmax over the flattened table = the model's scan over the cells in row-major order *)
Definition ltof (mx : bool) : Q -> Q -> bool := if mx then (fun a b => Qltb b a) else (fun a b => Qltb a b).

Lemma ltof_better mx a b : ltof mx a b = better mx a b.
Proof. destruct mx; reflexivity. Qed.

Definition keyc (key : nat -> nat -> option Q) (c : nat * nat) : option Q := key (fst c) (snd c).

Lemma concat_tab key es gs : concat (tab key es gs) = map (keyc key) (cells es gs).
Proof.
  unfold tab, cells. induction es as [|e es IH]; [reflexivity|].
  cbn [map concat flat_map]. rewrite map_app, IH, map_map. reflexivity.
Qed.

Definition rel (all : list (nat * nat)) (bp : option (Q * nat)) (bm : option cand) : Prop :=
  match bp, bm with
  | None, None => True
  | Some (s, k), Some (s', e, g) => s = s' /\ nth_error all k = Some (e, g)
  | _, _ => False
  end.

Lemma flat_scan mx key : forall cs pre bp bm,
  rel (pre ++ cs) bp bm ->
  rel (pre ++ cs) (nanarg_from (ltof mx) (map (keyc key) cs) (length pre) bp) (fold_left (step mx key) cs bm).
Proof.
  induction cs as [|c cs IH]; intros pre bp bm R; [exact R|].
  cbn [map nanarg_from fold_left].
  assert (A : pre ++ c :: cs = (pre ++ [c]) ++ cs) by (rewrite <- app_assoc; reflexivity).
  assert (L : S (length pre) = length (pre ++ [c])) by (rewrite app_length; cbn; lia).
  assert (N : nth_error ((pre ++ [c]) ++ cs) (length pre) = Some c) by (rewrite <- A; apply nth_error_at).
  unfold step at 2, upd, keyc at 1. destruct c as [e g]. cbn [fst snd] in *.
  destruct (key e g) as [s|]; rewrite A, L.
  - apply IH. rewrite <- A in *.
    destruct bp as [[sp k]|], bm as [[[sm e1] g1]|]; cbn [rel] in R; try contradiction.
    + destruct R as [<- Hk]. rewrite ltof_better. destruct (better mx s sp); cbn [rel]; split; auto.
    + cbn [rel]. split; auto.
  - apply IH. rewrite <- A. exact R.
Qed.

Lemma nth_error_cells es gs k e g :
  nth_error (cells es gs) k = Some (e, g) ->
  nth_error es (k / length gs) = Some e /\ nth_error gs (k mod length gs) = Some g /\ k < length es * length gs.
Proof.
  unfold cells. revert k. induction es as [|e0 es IH]; intros k H; [destruct k; discriminate|].
  cbn [flat_map] in H. destruct (Nat.lt_ge_cases k (length gs)) as [Lt|Ge].
  - rewrite nth_error_app1 in H by (rewrite map_length; exact Lt).
    rewrite nth_error_map in H. destruct (nth_error gs k) as [g1|] eqn:G; [|discriminate]. cbn in H. inversion H; subst.
    rewrite Nat.div_small, Nat.mod_small by exact Lt. cbn [nth_error length]. repeat split; auto. lia.
  - rewrite nth_error_app2 in H by (rewrite map_length; exact Ge). rewrite map_length in H.
    assert (M : length gs <> 0).
    { intros Z. destruct gs; [|discriminate]. clear -H. cbn in H. induction es; cbn in H; [destruct (k - 0); discriminate|auto]. }
    destruct (IH _ H) as (He & Hg & Hb).
    replace k with ((k - length gs) + 1 * length gs) by lia.
    rewrite Nat.div_add, Nat.mod_add by exact M. rewrite Nat.add_1_r. cbn [nth_error length]. repeat split; auto. lia.
Qed.

Lemma tab_shape {A} (f : nat -> nat -> A) es gs : es <> [] -> np_shape2 (tab f es gs) = Ok (length es, length gs).
Proof. destruct es as [|e es]; [congruence|]. intros _. cbn. rewrite !map_length. reflexivity. Qed.

(* THE characterisation used by the greedy loops: when the model picks (e, g), numpy's flat arg-best, unravelled with the shape of
   the table, is a position (i, j) holding exactly that pair, and popping / deleting at (i, j) removes the identities e and g *)
Lemma pick_spec mx key es gs e g :
  NoDup es -> NoDup gs -> argbest mx key es gs = Some (e, g) ->
  exists k i j,
    np_nanarg (ltof mx) (tab key es gs) = Ok k /\
    np_shape2 (tab key es gs) = Ok (length es, length gs) /\
    np_unravel_index k (length es, length gs) = Ok (i, j) /\
    list_pop es i = Ok (e, remove_first e es) /\
    list_pop gs j = Ok (g, remove_first g gs) /\
    (forall A (f : nat -> nat -> A), np_delete0 (tab f es gs) i = Ok (tab f (remove_first e es) gs)) /\
    (forall A (f : nat -> nat -> A) es', np_delete1 (tab f es' gs) j = Ok (tab f es' (remove_first g gs))).
Proof.
  intros NDe NDg H. unfold argbest in H. rewrite scan_fold in H.
  pose proof (flat_scan mx key (cells es gs) [] None None I) as R. cbn [app length] in R.
  unfold np_nanarg. rewrite concat_tab.
  destruct (fold_left (step mx key) (cells es gs) None) as [[[s e1] g1]|]; [|discriminate]. inversion H; subst e1 g1. clear H.
  destruct (nanarg_from (ltof mx) (map (keyc key) (cells es gs)) 0 None) as [[s' k]|]; [|contradiction].
  destruct R as [_ N]. destruct (nth_error_cells es gs k e g N) as (He & Hg & Hb).
  exists k, (k / length gs), (k mod length gs). repeat split.
  - apply tab_shape. intros Z. subst es. destruct (k / length gs); discriminate.
  - unfold np_unravel_index. cbn [fst snd]. apply Nat.ltb_lt in Hb. rewrite Hb. reflexivity.
  - apply list_pop_nodup; assumption.
  - apply list_pop_nodup; assumption.
  - intros A f. apply np_delete0_tab; assumption.
  - intros A f es'. apply np_delete1_tab; assumption.
Qed.

Lemma np_nanargmax_eq t : np_nanargmax t = np_nanarg (ltof true) t.
Proof. reflexivity. Qed.
Lemma np_nanargmin_eq t : np_nanargmin t = np_nanarg (ltof false) t.
Proof. reflexivity. Qed.

(* ---- 3. the greedy loop ------------------------------------------------------------------------------------------------------ *)
(* Matching.stage with the flag of the loop: true = left by `break` (no candidate), false = the range ran out *)
Fixpoint stagef (fuel : nat) (mx : bool) (key : nat -> nat -> option Q) (es gs : list nat)
  : bool * (list (nat * nat) * list nat * list nat) :=
  match fuel with
  | O => (false, ([], es, gs))
  | S f =>
      match argbest mx key es gs with
      | None => (true, ([], es, gs))
      | Some (e, g) =>
          let '(b, (ps, es', gs')) := stagef f mx key (remove_first e es) (remove_first g gs) in
          (b, ((e, g) :: ps, es', gs'))
      end
  end.

Lemma stagef_stage fuel mx key : forall es gs, snd (stagef fuel mx key es gs) = stage fuel mx key es gs.
Proof.
  induction fuel as [|f IH]; intros es gs; [reflexivity|]. cbn [stagef stage].
  destruct (argbest mx key es gs) as [[e g]|]; [|reflexivity].
  rewrite <- IH. destruct (stagef f mx key (remove_first e es) (remove_first g gs)) as [b [[ps es'] gs']]. reflexivity.
Qed.

Lemma stagef_nodup fuel mx key : forall es gs b ps es' gs',
  stagef fuel mx key es gs = (b, (ps, es', gs')) -> NoDup es -> NoDup gs -> NoDup es' /\ NoDup gs'.
Proof.
  induction fuel as [|f IH]; intros es gs b ps es' gs' H; cbn [stagef] in H.
  - inversion H; subst. auto.
  - destruct (argbest mx key es gs) as [[e g]|].
    + destruct (stagef f mx key (remove_first e es) (remove_first g gs)) as [b1 [[ps1 es1] gs1]] eqn:S.
      inversion H; subst. intros A B. eapply IH; [exact S| |]; apply remove_first_nodup; assumption.
    + inversion H; subst. auto.
Qed.

Definition results := list (nat * option nat).

(* stage 1: state (score table, masked scores, results, estimates left, ground truths left) *)
Lemma stage1_loop {X A2} (body : tbl A2 * tbl (option Q) * results * list nat * list nat -> X -> res (bool * (tbl A2 * tbl (option Q) * results * list nat * list nat)))
      mx key (f2 : nat -> nat -> A2) :
  (forall rs es gs x, NoDup es -> NoDup gs ->
     body (tab f2 es gs, tab key es gs, rs, es, gs) x =
       match argbest mx key es gs with
       | None => Ok (true, (tab f2 es gs, tab key es gs, rs, es, gs))
       | Some (e, g) => Ok (false, (tab f2 (remove_first e es) (remove_first g gs), tab key (remove_first e es) (remove_first g gs),
                                    rs ++ [(e, Some g)], remove_first e es, remove_first g gs))
       end) ->
  forall l rs es gs, NoDup es -> NoDup gs ->
    iterl l body (tab f2 es gs, tab key es gs, rs, es, gs) =
      let '(b, (ps, es', gs')) := stagef (length l) mx key es gs in
      Ok (b, (tab f2 es' gs', tab key es' gs', rs ++ map paired ps, es', gs')).
Proof.
  intros H. induction l as [|x l IH]; intros rs es gs NDe NDg; cbn [iterl length stagef].
  - rewrite app_nil_r. reflexivity.
  - rewrite H by assumption. destruct (argbest mx key es gs) as [[e g]|].
    + rewrite IH by (apply remove_first_nodup; assumption).
      destruct (stagef (length l) mx key (remove_first e es) (remove_first g gs)) as [b [[ps es'] gs']].
      cbn [map]. rewrite <- app_assoc. reflexivity.
    + rewrite app_nil_r. reflexivity.
Qed.

(* stage 2: state (results, estimates left, ground truths left, rest scores) *)
Lemma stage2_loop {X} (body : results * list nat * list nat * tbl (option Q) -> X -> res (bool * (results * list nat * list nat * tbl (option Q))))
      mx key :
  (forall rs es gs x, NoDup es -> NoDup gs ->
     body (rs, es, gs, tab key es gs) x =
       match argbest mx key es gs with
       | None => Ok (true, (rs, es, gs, tab key es gs))
       | Some (e, g) => Ok (false, (rs ++ [(e, Some g)], remove_first e es, remove_first g gs,
                                    tab key (remove_first e es) (remove_first g gs)))
       end) ->
  forall l rs es gs, NoDup es -> NoDup gs ->
    iterl l body (rs, es, gs, tab key es gs) =
      let '(b, (ps, es', gs')) := stagef (length l) mx key es gs in
      Ok (b, (rs ++ map paired ps, es', gs', tab key es' gs')).
Proof.
  intros H. induction l as [|x l IH]; intros rs es gs NDe NDg; cbn [iterl length stagef].
  - rewrite app_nil_r. reflexivity.
  - rewrite H by assumption. destruct (argbest mx key es gs) as [[e g]|].
    + rewrite IH by (apply remove_first_nodup; assumption).
      destruct (stagef (length l) mx key (remove_first e es) (remove_first g gs)) as [b [[ps es'] gs']].
      cbn [map]. rewrite <- app_assoc. reflexivity.
    + rewrite app_nil_r. reflexivity.
Qed.

(* ---- 4. the score table and the model's cells ---------------------------------------------------------------------------------- *)
(* what one cell of the (score, flag) table holds, in terms of the facts the translated function reads *)
Definition cell2 (mm : Mode) (est_frame gt_frame : nat -> nat) (thr : nat -> option Q) (value : Mode -> nat -> nat -> option Q)
           (okf : nat -> nat -> bool) (e g : nat) : option Q * bool :=
  if Nat.eqb (est_frame e) (gt_frame g) && match thr g with None => true | Some t => meth_better value (mm, e, g) t end
  then (value mm e g, okf e g) else (None, false).

(* the model's cell from the same facts: Matching.score_cell (direction of the MODE for the radius test) *)
Definition mcell (md : Mode) (est_frame gt_frame : nat -> nat) (thr : nat -> option Q) (value : Mode -> nat -> nat -> option Q)
           (e g : nat) : option Q :=
  score_cell (maximize_of md) (Nat.eqb (est_frame e) (gt_frame g)) (thr g) (value md e g).

Lemma cell2_fst md ef gf thr value okf e g : fst (cell2 md ef gf thr value okf e g) = mcell md ef gf thr value e g.
Proof.
  unfold cell2, mcell, score_cell, meth_better, meth_value. cbn [fst snd].
  destruct (Nat.eqb (ef e) (gf g)); [|reflexivity]. cbn [andb].
  destruct (thr g) as [t|]; destruct (value md e g) as [s|]; try reflexivity.
  destruct (better (maximize_of md) s t); reflexivity.
Qed.

Lemma cell2_masked md ef gf thr value okf e g :
  (if snd (cell2 md ef gf thr value okf e g) then mcell md ef gf thr value e g else None)
  = masked (mcell md ef gf thr value) okf e g.
Proof.
  unfold masked. rewrite <- (cell2_fst md ef gf thr value okf). unfold cell2.
  destruct (_ && _); cbn [fst snd]; [reflexivity|]. destruct (okf e g); reflexivity.
Qed.

Lemma seq_nodup n : NoDup (seq 0 n).
Proof. apply seq_NoDup. Qed.

Lemma list_is_empty_seq n : @list_is_empty nat (seq 0 n) = Nat.eqb n 0.
Proof. destruct n; reflexivity. Qed.

(* the facts of Model/Matching.v's record as the functions the translated code reads; a pair for which a fact is missing is treated
   as lying in different frames, exactly as [cell_of] treats it (never the case for facts_wf) *)
Definition est_frame_of (F : Facts) (e : nat) : nat := nth e (f_est_frame F) 0.
Definition gt_frame_of (F : Facts) (g : nat) : nat := nth g (f_gt_frame F) 0.
Definition thr_of (F : Facts) (g : nat) : option Q := nth g (f_gt_thr F) None.
Definition value_of (F : Facts) (_ : Mode) (e g : nat) : option Q :=
  match lookup2 (f_value F) e g with Some v => v | None => None end.

Lemma scores_tab md ef gf thr value okf es gs :
  np_last0 (tab (cell2 md ef gf thr value okf) es gs) = tab (mcell md ef gf thr value) es gs.
Proof. rewrite np_last0_tab. apply tab_ext. intros e g. apply cell2_fst. Qed.

Lemma masked_tab md ef gf thr value okf es gs :
  np_where_nan (np_last1 (tab (cell2 md ef gf thr value okf) es gs)) (np_last0 (tab (cell2 md ef gf thr value okf) es gs))
  = tab (masked (mcell md ef gf thr value) okf) es gs.
Proof.
  rewrite np_last1_tab, scores_tab, np_where_tab. apply tab_ext. intros e g. apply cell2_masked.
Qed.

(* ---- 5. tactics ------------------------------------------------------------------------------------------------------------------ *)
Ltac destruct_pairs := repeat match goal with p : (_ * _)%type |- _ => destruct p end.

(* one iteration of a greedy loop over the table of [key]: goal  <body> (.., tab key es gs, ..) x = match argbest mx key es gs with .. end *)
Ltac greedy_body mx key :=
  let rs := fresh "rs" in let es := fresh "es" in let gs := fresh "gs" in let x := fresh "x" in
  let NDe := fresh "NDe" in let NDg := fresh "NDg" in
  intros rs es gs x NDe NDg; cbn [bind];
  rewrite ?(isnan_all_tab mx key es gs);
  let e := fresh "e" in let g := fresh "g" in let A := fresh "A" in
  destruct (argbest mx key es gs) as [[e g]|] eqn:A; cbn [negb]; [|reflexivity];
  let k := fresh "k" in let i := fresh "i" in let j := fresh "j" in
  let Hk := fresh "Hk" in let Hsh := fresh "Hsh" in let Hij := fresh "Hij" in let Hpe := fresh "Hpe" in let Hpg := fresh "Hpg" in
  let Hd0 := fresh "Hd0" in let Hd1 := fresh "Hd1" in
  destruct (pick_spec mx key es gs e g NDe NDg A) as (k & i & j & Hk & Hsh & Hij & Hpe & Hpg & Hd0 & Hd1);
  destruct mx; rewrite ?np_nanargmax_eq, ?np_nanargmin_eq;
  repeat first [ rewrite Hk | rewrite Hsh | rewrite Hij | rewrite Hpe | rewrite Hpg | rewrite Hd0 | rewrite Hd1
               | progress cbn [bind fst snd negb] ];
  reflexivity.

(* ---- 6. the model only looks at the cells of the remaining identities: match_core on facts that agree on [0, n) x [0, m) --------- *)
Lemma scan_row_ext mx key key' e gs : (forall g, In g gs -> key e g = key' e g) ->
  forall b, scan_row mx key e gs b = scan_row mx key' e gs b.
Proof.
  induction gs as [|g gs IH]; intros H b; [reflexivity|]. cbn [scan_row]. unfold upd.
  rewrite (H g (or_introl eq_refl)). apply IH. intros g' Hg. apply H. now right.
Qed.

Lemma scan_ext mx key key' es gs : (forall e g, In e es -> In g gs -> key e g = key' e g) ->
  forall b, scan mx key es gs b = scan mx key' es gs b.
Proof.
  induction es as [|e es IH]; intros H b; [reflexivity|]. cbn [scan].
  rewrite (scan_row_ext mx key key' e gs) by (intros g Hg; apply H; [now left|exact Hg]).
  apply IH. intros e' g He Hg. apply H; [now right|exact Hg].
Qed.

Lemma stage_ext mx key key' fuel : forall es gs, (forall e g, In e es -> In g gs -> key e g = key' e g) ->
  stage fuel mx key es gs = stage fuel mx key' es gs.
Proof.
  induction fuel as [|f IH]; intros es gs H; [reflexivity|]. cbn [stage]. unfold argbest.
  rewrite (scan_ext mx key key' es gs H).
  destruct (scan mx key' es gs None) as [[[s e] g]|]; [|reflexivity].
  rewrite (IH (remove_first e es) (remove_first g gs)); [reflexivity|].
  intros e' g' He Hg. apply H; eapply remove_first_in; eauto.
Qed.

Lemma stage_rest_incl mx key fuel : forall es gs ps es' gs',
  stage fuel mx key es gs = (ps, es', gs') -> incl es' es /\ incl gs' gs.
Proof.
  induction fuel as [|f IH]; intros es gs ps es' gs' H; cbn [stage] in H.
  - inversion H; subst. split; apply incl_refl.
  - destruct (argbest mx key es gs) as [[e g]|].
    + destruct (stage f mx key (remove_first e es) (remove_first g gs)) as [[ps1 es1] gs1] eqn:S. inversion H; subst.
      destruct (IH _ _ _ _ _ S) as [A B]. split; intros x Hx; eapply remove_first_in; eauto.
    + inversion H; subst. split; apply incl_refl.
Qed.

Lemma match_core_ext mx fpv cell cell' ok ok' n m :
  (forall e g, e < n -> g < m -> cell e g = cell' e g) -> (forall e g, e < n -> g < m -> ok e g = ok' e g) ->
  match_core mx fpv cell ok n m = match_core mx fpv cell' ok' n m.
Proof.
  intros Hc Ho. unfold match_core, match_stages.
  destruct (Nat.eqb n 0); [reflexivity|]. destruct (Nat.eqb m 0); [reflexivity|].
  rewrite (stage_ext mx (masked cell ok) (masked cell' ok') n (seq 0 n) (seq 0 m)).
  2:{ intros e g He Hg. apply in_seq in He. apply in_seq in Hg. unfold masked. rewrite Hc, Ho by lia. reflexivity. }
  destruct (stage n mx (masked cell' ok') (seq 0 n) (seq 0 m)) as [[p1 es1] gs1] eqn:S1.
  destruct (stage_rest_incl _ _ _ _ _ _ _ _ S1) as [I1 I2].
  rewrite (stage_ext mx cell cell' (length es1) es1 gs1); [reflexivity|].
  intros e g He Hg. apply I1, in_seq in He. apply I2, in_seq in Hg. apply Hc; lia.
Qed.

Lemma nth_error_nth_lt {A} (l : list A) i d : i < length l -> nth_error l i = Some (nth i l d).
Proof. revert i. induction l as [|x l IH]; intros i H; [cbn in H; lia|]. destruct i; [reflexivity|]. cbn. apply IH. cbn in H. lia. Qed.

Lemma cell_of_facts md F e g : facts_wf F = true -> e < length (f_est_frame F) -> g < length (f_gt_frame F) ->
  mcell md (est_frame_of F) (gt_frame_of F) (thr_of F) (value_of F) e g = cell_of (maximize_of md) F e g.
Proof.
  unfold facts_wf. rewrite !andb_true_iff, !Nat.eqb_eq. intros [[[[[[Ht _] _] _] _] _] _] He Hg.
  unfold mcell, cell_of, est_frame_of, gt_frame_of, thr_of, value_of.
  rewrite (nth_error_nth_lt (f_est_frame F) e 0 He), (nth_error_nth_lt (f_gt_frame F) g 0 Hg).
  rewrite (nth_error_nth_lt (f_gt_thr F) g None) by lia.
  destruct (lookup2 (f_value F) e g) as [v|]; [reflexivity|].
  unfold score_cell. destruct (Nat.eqb _ _); reflexivity.
Qed.
