(* C13: the manager state machine refines the history-independent specification; pooling lemmas. *)
From Coq Require Import List Bool Arith Lia Permutation.
From PE Require Import Base.QUtil Model.AP Model.Manager Proofs.APRanking.
Import ListNotations.

Section ManagerProofs.
Variables Frame Ests Cfg Core Track Scene : Type.
Variable G : Frame -> Ests -> Cfg -> Core.
Variable W : Frame -> Ests -> Cfg -> Frame.
Variable T : option Core -> Core -> Track.
Variable Sc : list Core -> Scene.

Notation step := (step Frame Ests Cfg Core Track Scene G W T Sc).
Notation run := (run Frame Ests Cfg Core Track Scene G W T Sc).
Notation cores := (cores Frame Ests Cfg Core G).
Notation spec_out := (spec_out Frame Ests Cfg Core Track Scene G T Sc).
Notation spec_outs := (spec_outs Frame Ests Cfg Core Track Scene G T Sc).

Lemma cores_app : forall d a b, cores d (a ++ b) = cores d a ++ cores d b.
Proof.
  induction a as [|[i e c|] a IH]; intros b; simpl; [reflexivity| |apply IH].
  destruct (nth_error d i); simpl; now rewrite IH.
Qed.

(* invariant of the copying manager: dataset untouched, history = cores of the calls so far *)
Lemma step_copy_inv : forall d before s o,
  ds s = d -> hist s = cores d before ->
  let '(s', x) := step true s o in
  ds s' = d /\ hist s' = cores d (before ++ [o]) /\ x = spec_out d before o.
Proof.
  intros d before s o Hd Hh. destruct o as [i e c|]; simpl.
  - rewrite Hd. rewrite cores_app. simpl. destruct (nth_error d i) as [f|] eqn:E; simpl.
    + rewrite Hh. repeat split; auto.
    + rewrite app_nil_r. repeat split; auto.
  - rewrite cores_app. simpl. rewrite app_nil_r, Hh. auto.
Qed.

Theorem run_copy_refines_spec : forall ops d before s,
  ds s = d -> hist s = cores d before ->
  let '(s', outs) := run true s ops in
  ds s' = d /\ hist s' = cores d (before ++ ops) /\ outs = spec_outs d before ops.
Proof.
  induction ops as [|o ops IH]; intros d before s Hd Hh; simpl.
  - rewrite app_nil_r. auto.
  - pose proof (step_copy_inv d before s o Hd Hh) as H1.
    destruct (step true s o) as [s1 x]. destruct H1 as [Hd1 [Hh1 Hx]].
    specialize (IH d (before ++ [o]) s1 Hd1 Hh1).
    destruct (run true s1 ops) as [s2 xs]. destruct IH as [Hd2 [Hh2 Hxs]].
    rewrite <- app_assoc in Hh2. simpl in Hh2. subst x xs. auto.
Qed.

(* from a freshly loaded manager *)
Corollary manager_refines_spec : forall d ops,
  let '(s', outs) := run true (init Frame Core d) ops in
  ds s' = d /\ outs = spec_outs d [] ops.
Proof.
  intros d ops. pose proof (run_copy_refines_spec ops d [] (init Frame Core d) eq_refl eq_refl) as H.
  destruct (run true (init Frame Core d) ops) as [s' outs]. tauto.
Qed.

(* the answer to a call does not depend on what was evaluated before, except through the object
   results of the immediately preceding successful call (tracking) / the pooled results (scene) *)
Theorem frame_answer_history_independent : forall d before1 before2 i e c,
  last_opt (cores d before1) = last_opt (cores d before2) ->
  spec_out d before1 (Add i e c) = spec_out d before2 (Add i e c).
Proof. intros d b1 b2 i e c H. simpl. destruct (nth_error d i); [now rewrite H|reflexivity]. Qed.

Theorem frame_core_independent_of_history : forall d before i e c f,
  nth_error d i = Some f ->
  exists tr, spec_out d before (Add i e c) = FrameOut (G f e c) tr.
Proof. intros d before i e c f H. simpl. rewrite H. eexists. reflexivity. Qed.

Theorem scene_answer_is_pooled : forall d before,
  spec_out d before Query = SceneOut (Sc (cores d before)).
Proof. reflexivity. Qed.

Theorem queries_do_not_matter : forall d before, cores d (filter (fun o => match o with Query => false | _ => true end) before) = cores d before.
Proof.
  induction before as [|[i e c|] t IH]; simpl; [reflexivity| |exact IH].
  destruct (nth_error d i); now rewrite IH.
Qed.

End ManagerProofs.

(* ---- without the copy the property fails: a tiny instance ------------------------------------------------
   Frame = list of object ids; the config is a bound; evaluating keeps the objects below the bound. *)
Definition toyG (f : list nat) (e : unit) (c : nat) : list nat := filter (fun x => Nat.ltb x c) f.
Definition toyW := toyG.
Definition toyT (p : option (list nat)) (c : list nat) : unit := tt.
Definition toyS (l : list (list nat)) : nat := length (concat l).

Theorem no_copy_refuted :
  exists d ops,
    let '(s', outs) := run (list nat) unit nat (list nat) unit nat toyG toyW toyT toyS false (init _ _ d) ops in
    ds s' <> d /\ outs <> spec_outs (list nat) unit nat (list nat) unit nat toyG toyT toyS d [] ops.
Proof.
  exists [[1%nat; 5%nat]], [Add 0%nat tt 3%nat; Add 0%nat tt 9%nat]. vm_compute. split; intros H; discriminate H.
Qed.

(* ---- pooling ------------------------------------------------------------------------------------------------ *)
Open Scope Q_scope.

Lemma count_label_app : forall L a b, count_label L (a ++ b) = (count_label L a + count_label L b)%nat.
Proof. intros. unfold count_label. now rewrite filter_app, app_length. Qed.

(* ground-truth counts add up over frames *)
Theorem gt_counts_add : forall L (gtss : list (list nat)),
  count_label L (concat gtss) = fold_right (fun g acc => (count_label L g + acc)%nat) 0%nat gtss.
Proof.
  induction gtss as [|g t IH]; simpl; [reflexivity|]. now rewrite count_label_app, IH.
Qed.

Lemma label_results_app : forall targets L t a b,
  label_results targets L t (a ++ b) = label_results targets L t a ++ label_results targets L t b.
Proof. intros. unfold label_results. now rewrite filter_app, map_app. Qed.

(* the per-label bucket of the pooled results is the concatenation of the per-frame buckets *)
Theorem label_results_concat : forall targets L t (frames : list (list lres)),
  label_results targets L t (concat frames) = concat (map (label_results targets L t) frames).
Proof.
  induction frames as [|f fs IH]; simpl; [reflexivity|]. now rewrite label_results_app, IH.
Qed.

(* ---- order independence with distinct confidences ---------------------------------------------------------- *)
Section Distinct.
Context {A : Type} (key : A -> Q).

Fixpoint distinct_keys (l : list A) : Prop :=
  match l with
  | [] => True
  | x :: t => (forall y, In y t -> ~ key y == key x) /\ distinct_keys t
  end.

Fixpoint strictly_sorted (l : list A) : Prop :=
  match l with
  | [] => True
  | x :: t => (forall y, In y t -> key y < key x) /\ strictly_sorted t
  end.

Lemma distinct_keys_perm : forall l l', Permutation l l' -> distinct_keys l -> distinct_keys l'.
Proof.
  induction 1 as [|x l l' H IH|x y l|l l' l'' H1 IH1 H2 IH2]; simpl; auto.
  - intros [Hx Hd]. split; [|auto]. intros z Hz. apply Hx. apply (Permutation_in _ (Permutation_sym H) Hz).
  - intros [Hy [Hx Hd]]. split; [|split; [|assumption]].
    + intros z [<-|Hz]; [|now apply Hx]. intro E. apply (Hy x (or_introl eq_refl)). now symmetry.
    + intros z Hz. apply Hy. now right.
Qed.

Lemma sorted_distinct_strict : forall l, sorted_desc key l -> distinct_keys l -> strictly_sorted l.
Proof.
  induction l as [|x t IH]; simpl; [auto|]. intros [Hs Hs'] [Hd Hd']. split; [|auto].
  intros y Hy. specialize (Hs y Hy). specialize (Hd y Hy).
  destruct (Qlt_le_dec (key y) (key x)); [assumption|]. exfalso. apply Hd. lra.
Qed.

Lemma strictly_sorted_perm_eq : forall l l', strictly_sorted l -> strictly_sorted l' -> Permutation l l' -> l = l'.
Proof.
  induction l as [|x t IH]; intros l' Hs Hs' Hp.
  - apply Permutation_nil in Hp. now subst.
  - destruct l' as [|x' t']; [apply Permutation_sym, Permutation_nil in Hp; discriminate|].
    destruct Hs as [Hx Hs]. destruct Hs' as [Hx' Hs'].
    assert (E : x = x').
    { assert (I1 : In x (x' :: t')) by (apply (Permutation_in _ Hp); now left).
      assert (I2 : In x' (x :: t)) by (apply (Permutation_in _ (Permutation_sym Hp)); now left).
      destruct I1 as [->|I1]; [reflexivity|]. destruct I2 as [->|I2]; [reflexivity|].
      specialize (Hx' x I1). specialize (Hx x' I2). lra. }
    subst x'. f_equal. apply IH; auto. now apply Permutation_cons_inv in Hp.
Qed.

Theorem sort_desc_perm_unique : forall l l',
  Permutation l l' -> distinct_keys l -> sort_desc key l = sort_desc key l'.
Proof.
  intros l l' Hp Hd. apply strictly_sorted_perm_eq.
  - apply sorted_distinct_strict; [apply sort_desc_sorted|].
    apply (distinct_keys_perm l); [symmetry; apply sort_desc_perm|assumption].
  - apply sorted_distinct_strict; [apply sort_desc_sorted|].
    apply (distinct_keys_perm l); [|assumption]. rewrite Hp. symmetry. apply sort_desc_perm.
  - rewrite (sort_desc_perm key l), (sort_desc_perm key l'). assumption.
Qed.
End Distinct.

Lemma Permutation_concat : forall A (l l' : list (list A)), Permutation l l' -> Permutation (concat l) (concat l').
Proof.
  induction 1 as [|x l l' H IH|x y l|l l' l'' H1 IH1 H2 IH2]; simpl; auto.
  - now apply Permutation_app_head.
  - rewrite !app_assoc. apply Permutation_app_tail. apply Permutation_app_comm.
  - now transitivity (concat l').
Qed.

Lemma Permutation_filter : forall A (f : A -> bool) l l', Permutation l l' -> Permutation (filter f l) (filter f l').
Proof.
  induction 1 as [|x l l' H IH|x y l|l l' l'' H1 IH1 H2 IH2]; simpl; auto.
  - destruct (f x); auto.
  - destruct (f x), (f y); auto. apply perm_swap.
  - now transitivity (filter f l').
Qed.

Lemma ap_model_perm : forall m n rs rs',
  Permutation rs rs' -> distinct_keys conf rs -> ap_model m n rs = ap_model m n rs'.
Proof.
  intros m n rs rs' Hp Hd. destruct rs as [|r rs].
  - apply Permutation_nil in Hp. now subst.
  - destruct rs' as [|r' rs']; [apply Permutation_sym, Permutation_nil in Hp; discriminate|].
    unfold ap_model. now rewrite (sort_desc_perm_unique conf _ _ Hp Hd).
Qed.

(* pooled AP does not depend on the order in which frames were added, when confidences are distinct *)
Theorem pooled_ap_order_independent : forall m n targets L t (frames frames' : list (list lres)),
  Permutation frames frames' ->
  distinct_keys conf (label_results targets L t (concat frames)) ->
  ap_model m n (label_results targets L t (concat frames)) = ap_model m n (label_results targets L t (concat frames')).
Proof.
  intros m n targets L t frames frames' Hp Hd. apply ap_model_perm; [|assumption].
  unfold label_results. apply Permutation_map, Permutation_filter, Permutation_concat, Hp.
Qed.

Theorem pooled_count_order_independent : forall L (gtss gtss' : list (list nat)),
  Permutation gtss gtss' -> count_label L (concat gtss) = count_label L (concat gtss').
Proof.
  intros L a b Hp. unfold count_label. apply Permutation_length, Permutation_filter, Permutation_concat, Hp.
Qed.
