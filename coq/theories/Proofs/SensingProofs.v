(* Proofs about Model/Sensing.v: every ground truth lands in exactly one of the three result lists,
   and the non-detection remainder is "in the cloud and outside every scaled box". *)
From Coq Require Import List Bool ZArith Arith Lia Permutation.
From PE Require Import Base.QUtil Model.Winding Model.Sensing Proofs.WindingProofs.
Import ListNotations.
Open Scope Q_scope.

(* ------------------------------------------------------------------------------------------ *)
(* detection: success / fail / warning                                                         *)
(* ------------------------------------------------------------------------------------------ *)
Definition is_warning (r : sensing_result) : bool := r_occluded r.
Definition is_success (r : sensing_result) : bool := negb (r_occluded r) && r_detected r.
Definition is_fail (r : sensing_result) : bool := negb (r_occluded r) && negb (r_detected r).

Lemma eval_detection_filters cfg cloud l :
  eval_detection cfg cloud l =
  (filter is_success (map (sensing_result_of cfg cloud) l),
   filter is_fail (map (sensing_result_of cfg cloud) l),
   filter is_warning (map (sensing_result_of cfg cloud) l)).
Proof.
  induction l as [|ig t IH]; cbn [eval_detection map filter]; [reflexivity|].
  rewrite IH. unfold is_success, is_fail, is_warning.
  destruct (r_occluded (sensing_result_of cfg cloud ig)), (r_detected (sensing_result_of cfg cloud ig));
    reflexivity.
Qed.

Lemma three_way_perm {A} (f g h : A -> bool) (l : list A) :
  (forall x, (f x = true /\ g x = false /\ h x = false) \/ (f x = false /\ g x = true /\ h x = false) \/
             (f x = false /\ g x = false /\ h x = true)) ->
  Permutation l (filter f l ++ filter g l ++ filter h l).
Proof.
  intros H. induction l as [|x t IH]; cbn [filter app]; [constructor|].
  destruct (H x) as [(F & G & K)|[(F & G & K)|(F & G & K)]]; rewrite F, G, K.
  - cbn [app]. constructor. exact IH.
  - apply Permutation_cons_app. exact IH.
  - rewrite app_assoc. apply Permutation_cons_app. rewrite <- app_assoc. exact IH.
Qed.

Lemma verdict_exclusive r :
  (is_success r = true /\ is_fail r = false /\ is_warning r = false) \/
  (is_success r = false /\ is_fail r = true /\ is_warning r = false) \/
  (is_success r = false /\ is_fail r = false /\ is_warning r = true).
Proof. unfold is_success, is_fail, is_warning. destruct (r_occluded r), (r_detected r); cbn; tauto. Qed.

Lemma map_fst_indexed {A} (l : list A) : map fst (indexed l) = seq 0 (length l).
Proof.
  unfold indexed. generalize 0%nat. induction l as [|x t IH]; intros n; cbn; [reflexivity|].
  f_equal. apply IH.
Qed.

Lemma map_snd_indexed {A} (l : list A) : map snd (indexed l) = l.
Proof.
  unfold indexed. generalize 0%nat. induction l as [|x t IH]; intros n; cbn; [reflexivity|].
  f_equal. apply IH.
Qed.

Lemma In_indexed {A} (l : list A) i x : In (i, x) (indexed l) <-> nth_error l i = Some x.
Proof.
  unfold indexed.
  assert (G : forall n, In (i, x) (combine (seq n (length l)) l) <-> (n <= i)%nat /\ nth_error l (i - n) = Some x).
  { induction l as [|y t IH]; intros n; cbn [length seq combine In].
    - split; [intros []|]. intros [_ H]. destruct (i - n)%nat; discriminate.
    - rewrite IH. split.
      + intros [E|[Hle H]].
        * injection E as <- <-. split; [lia|]. rewrite Nat.sub_diag. reflexivity.
        * split; [lia|]. replace (i - n)%nat with (S (i - S n)) by lia. exact H.
      + intros [Hle H]. destruct (Nat.eq_dec n i) as [E|E].
        * left. subst i. rewrite Nat.sub_diag in H. cbn in H. congruence.
        * right. split; [lia|]. replace (i - n)%nat with (S (i - S n)) in H by lia. exact H. }
  rewrite G. rewrite Nat.sub_0_r. split; [intros [_ H]; exact H|intros H; split; [lia|exact H]].
Qed.

Lemma r_obj_results cfg cloud gts :
  map r_obj (map (sensing_result_of cfg cloud) (indexed gts)) = seq 0 (length gts).
Proof. rewrite map_map. cbn [sensing_result_of r_obj]. apply map_fst_indexed. Qed.

(* every ground truth (by index) occurs exactly once in success ++ fail ++ warning *)
Theorem object_trichotomy cfg cloud gts :
  let '(su, fa, wa) := eval_detection cfg cloud (indexed gts) in
  Permutation (seq 0 (length gts)) (map r_obj su ++ map r_obj fa ++ map r_obj wa) /\
  (length su + length fa + length wa = length gts)%nat /\
  NoDup (map r_obj su ++ map r_obj fa ++ map r_obj wa).
Proof.
  rewrite eval_detection_filters.
  set (rs := map (sensing_result_of cfg cloud) (indexed gts)).
  assert (P : Permutation rs (filter is_success rs ++ filter is_fail rs ++ filter is_warning rs))
    by (apply three_way_perm; apply verdict_exclusive).
  assert (P2 : Permutation (seq 0 (length gts))
                 (map r_obj (filter is_success rs) ++ map r_obj (filter is_fail rs) ++ map r_obj (filter is_warning rs))).
  { rewrite <- !map_app. rewrite <- (r_obj_results cfg cloud gts). apply Permutation_map. exact P. }
  split; [exact P2|]. split.
  - apply Permutation_length in P. rewrite !app_length in P. unfold rs in P at 1.
    rewrite map_length in P. unfold indexed in P. rewrite combine_length, seq_length, Nat.min_id in P. lia.
  - eapply Permutation_NoDup; [exact P2|]. apply seq_NoDup.
Qed.

(* which list: warning iff annotated as fully occluded (tested first); otherwise success iff the
   number of inside points reaches the threshold *)
Theorem detection_lists_spec cfg cloud gts r :
  let '(su, fa, wa) := eval_detection cfg cloud (indexed gts) in
  let from_gt := exists i g, nth_error gts i = Some g /\ r = sensing_result_of cfg cloud (i, g) in
  (In r wa <-> from_gt /\ r_occluded r = true) /\
  (In r su <-> from_gt /\ r_occluded r = false /\ r_detected r = true) /\
  (In r fa <-> from_gt /\ r_occluded r = false /\ r_detected r = false).
Proof.
  rewrite eval_detection_filters. cbv zeta.
  assert (G : In r (map (sensing_result_of cfg cloud) (indexed gts)) <->
              exists i g, nth_error gts i = Some g /\ r = sensing_result_of cfg cloud (i, g)).
  { rewrite in_map_iff. split.
    - intros [[i g] [E H]]. exists i, g. rewrite <- In_indexed. auto.
    - intros [i [g [H E]]]. exists (i, g). rewrite In_indexed. auto. }
  rewrite !filter_In, G. unfold is_warning, is_success, is_fail.
  rewrite !andb_true_iff, !negb_true_iff. tauto.
Qed.

Theorem sensing_result_spec cfg cloud i g :
  let r := sensing_result_of cfg cloud (i, g) in
  r_obj r = i /\
  r_inside r = box_crop_idx (g_box g) (scale_of cfg g) true cloud /\
  r_num r = length (r_inside r) /\
  r_num r = inside_num (g_box g) (scale_of cfg g) cloud /\
  (r_detected r = true <-> (c_min_points cfg <= Z.of_nat (r_num r))%Z) /\
  (r_occluded r = true <-> g_vis g = Some V_NONE).
Proof.
  cbn. repeat split; auto.
  - unfold inside_num, box_crop, box_crop_idx. rewrite idx_filter_length. reflexivity.
  - apply Z.leb_le.
  - apply Z.leb_le.
  - unfold is_occluded. destruct (g_vis g) as [[]|]; intros; try discriminate; reflexivity.
  - intros ->. reflexivity.
Qed.

(* ------------------------------------------------------------------------------------------ *)
(* non-detection                                                                               *)
(* ------------------------------------------------------------------------------------------ *)
Definition outside_all {A} (get : A -> point) (cfg : sensing_config) (gts : list gt_object) (a : A) : bool :=
  forallb (fun g => box_selected (g_box g) (scale_of cfg g) false (get a)) gts.

Lemma filter_filter {A} (f g : A -> bool) l : filter f (filter g l) = filter (fun x => g x && f x) l.
Proof.
  induction l as [|x t IH]; cbn [filter]; [reflexivity|].
  destruct (g x); cbn [filter andb]; [destruct (f x)|]; rewrite IH; reflexivity.
Qed.

Lemma crop_outside_boxes_filter {A} (get : A -> point) cfg gts : forall pc,
  crop_outside_boxes get cfg gts pc = filter (outside_all get cfg gts) pc.
Proof.
  unfold crop_outside_boxes, outside_all.
  induction gts as [|g t IH]; intros pc; cbn [fold_left forallb].
  - induction pc as [|x s IHs]; cbn [filter]; [reflexivity|]. f_equal. exact IHs.
  - rewrite IH. rewrite filter_filter. reflexivity.
Qed.

Lemma eval_non_detection_filter {A} (get : A -> point) cfg gts pcs :
  eval_non_detection get cfg gts pcs =
  filter (fun pc => match pc with [] => false | _ => true end) (map (crop_outside_boxes get cfg gts) pcs).
Proof.
  induction pcs as [|pc t IH]; cbn [eval_non_detection map filter]; [reflexivity|].
  destruct (crop_outside_boxes get cfg gts pc); rewrite IH; reflexivity.
Qed.

(* a point is outside a box's selection iff it is not in its inside selection *)
Lemma outside_all_spec {A} (get : A -> point) cfg gts a :
  outside_all get cfg gts a = true <->
  forall g, In g gts -> box_selected (g_box g) (scale_of cfg g) true (get a) = false.
Proof.
  unfold outside_all. rewrite forallb_forall. split; intros H g Hg; specialize (H g Hg);
    unfold box_selected in *; rewrite selected_partition in *; destruct (selected _ false (get a)); auto; discriminate.
Qed.

(* reported as a non-detection failure <=> in one of the given clouds and inside no scaled box *)
Theorem non_detection_spec {A} (get : A -> point) cfg gts pcs a :
  In a (concat (eval_non_detection get cfg gts pcs)) <->
  exists pc, In pc pcs /\ In a pc /\
             forall g, In g gts -> box_selected (g_box g) (scale_of cfg g) true (get a) = false.
Proof.
  rewrite eval_non_detection_filter, in_concat. split.
  - intros [l [Hl Ha]]. apply filter_In in Hl. destruct Hl as [Hl _]. apply in_map_iff in Hl.
    destruct Hl as [pc [E Hpc]]. subst l. rewrite crop_outside_boxes_filter in Ha.
    apply filter_In in Ha. destruct Ha as [Ha Ho]. exists pc. rewrite <- outside_all_spec. auto.
  - intros [pc [Hpc [Ha Ho]]]. exists (crop_outside_boxes get cfg gts pc).
    assert (I : In a (crop_outside_boxes get cfg gts pc))
      by (rewrite crop_outside_boxes_filter; apply filter_In; rewrite outside_all_spec; auto).
    split; [|exact I]. apply filter_In. split; [apply in_map; exact Hpc|].
    destruct (crop_outside_boxes get cfg gts pc); [destruct I|reflexivity].
Qed.

(* each reported array is a non-empty, order-preserving sub-array of one input cloud *)
Theorem non_detection_shape {A} (get : A -> point) cfg gts pcs :
  eval_non_detection get cfg gts pcs =
  filter (fun pc => match pc with [] => false | _ => true end)
         (map (filter (outside_all get cfg gts)) pcs).
Proof.
  rewrite eval_non_detection_filter. f_equal. apply map_ext. apply crop_outside_boxes_filter.
Qed.

(* cropping again with the same boxes changes nothing: the manager already removed the points
   inside the boxes, evaluate_frame removes them a second time *)
Theorem crop_outside_idempotent {A} (get : A -> point) cfg gts pc :
  crop_outside_boxes get cfg gts (crop_outside_boxes get cfg gts pc) = crop_outside_boxes get cfg gts pc.
Proof.
  rewrite !crop_outside_boxes_filter, filter_filter. apply filter_ext. intros a. apply andb_diag.
Qed.

(* SensingEvaluationManager.crop_pointcloud: one array per area = rows inside the area's prism and
   inside no scaled box *)
Theorem manager_crop_spec {A} (get : A -> point) cfg gts cloud areas :
  manager_crop get cfg gts cloud areas =
  map (fun area => filter (fun a => selected area true (get a) && outside_all get cfg gts a) cloud) areas.
Proof.
  unfold manager_crop. apply map_ext. intros area. rewrite crop_outside_boxes_filter, filter_filter. reflexivity.
Qed.

(* ------------------------------------------------------------------------------------------ *)
(* yaw-only ground truths: the lists in geometric terms                                        *)
(* ------------------------------------------------------------------------------------------ *)
Definition yaw_gt : Type := (yaw_params * Q * option visibility)%type.   (* box, distance, visibility *)
Definition gt_of (t : yaw_gt) : gt_object := mkGT (box_of (fst (fst t))) (snd (fst t)) (snd t).
Definition scale_at (cfg : sensing_config) (t : yaw_gt) : Q := bbox_scale (snd (fst t)) (c_s0 cfg) (c_s100 cfg).

(* the rows counted for a ground truth are exactly the rows geometrically inside its scaled box *)
Theorem detection_rows_exact cfg cloud i (t : yaw_gt) :
  yaw_ok (fst (fst t)) -> 0 < scale_at cfg t ->
  (forall p, In p cloud -> slab_in (fst (fst t)) (scale_at cfg t) p \/ slab_out (fst (fst t)) (scale_at cfg t) p) ->
  forall j, In j (r_inside (sensing_result_of cfg cloud (i, gt_of t))) <->
            exists p, nth_error cloud j = Some p /\ slab_in (fst (fst t)) (scale_at cfg t) p.
Proof.
  intros Hq Hk Hb j. cbn [sensing_result_of r_inside snd gt_of g_box]. unfold box_crop_idx.
  rewrite idx_filter_In. change (scale_of cfg (gt_of t)) with (scale_at cfg t).
  destruct (box_crop_exact (fst (fst t)) (scale_at cfg t) cloud Hq Hk Hb) as [E _].
  split; intros [p [Hn Hs]]; exists p; split; auto.
  - apply (E p). unfold box_crop. apply filter_In. split; [eapply nth_error_In; eauto|exact Hs].
  - assert (In p (box_crop (box_of (fst (fst t))) (scale_at cfg t) true cloud))
      by (apply E; split; [eapply nth_error_In; eauto|exact Hs]).
    unfold box_crop in H. apply filter_In in H. tauto.
Qed.

(* non-detection failures = rows of the given clouds that are strictly outside every scaled box
   (for rows that are not on a box boundary) *)
Theorem non_detection_slabs cfg (ts : list yaw_gt) (pcs : list (list point)) p :
  (forall t, In t ts -> yaw_ok (fst (fst t)) /\ 0 < scale_at cfg t /\
                        (slab_in (fst (fst t)) (scale_at cfg t) p \/ slab_out (fst (fst t)) (scale_at cfg t) p)) ->
  (In p (concat (eval_non_detection (fun q => q) cfg (map gt_of ts) pcs)) <->
   (exists pc, In pc pcs /\ In p pc) /\ forall t, In t ts -> slab_out (fst (fst t)) (scale_at cfg t) p).
Proof.
  intros H. rewrite non_detection_spec. split.
  - intros [pc [Hpc [Hp Ho]]]. split; [exists pc; auto|]. intros t Ht.
    destruct (H t Ht) as (Hq & Hk & [Hin|Hout]); [|exact Hout].
    specialize (Ho (gt_of t) (in_map gt_of _ _ Ht)).
    destruct (box_selected_slabs (fst (fst t)) (scale_at cfg t) p Hq Hk) as [I _].
    change (scale_of cfg (gt_of t)) with (scale_at cfg t) in Ho. cbn [gt_of g_box] in Ho.
    rewrite (I Hin) in Ho. discriminate.
  - intros [[pc [Hpc Hp]] Ho]. exists pc. split; [exact Hpc|]. split; [exact Hp|].
    intros g Hg. apply in_map_iff in Hg. destruct Hg as [t [<- Ht]].
    destruct (H t Ht) as (Hq & Hk & _).
    destruct (box_selected_slabs (fst (fst t)) (scale_at cfg t) p Hq Hk) as [_ O].
    change (scale_of cfg (gt_of t)) with (scale_at cfg t). cbn [gt_of g_box]. apply O, Ho, Ht.
Qed.

Lemma fr_nondet_eval cfg gts cloud pcs :
  fr_nondet (evaluate_frame cfg gts cloud pcs) = eval_non_detection (fun p => p) cfg gts pcs.
Proof. unfold evaluate_frame. destruct (eval_detection cfg cloud (indexed gts)) as [[su fa] wa]. reflexivity. Qed.
