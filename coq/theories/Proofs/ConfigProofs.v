(* Proofs about the model of configuration acceptance (C15, part 2). *)
From Coq Require Import String List Bool Arith Lia.
From PE Require Import Base.QUtil Base.StrUtil Model.EnumParse Gen.Enums Gen.ConfigTables Gen.LabelTables
                       Model.PyVal Model.Threshold Model.Config Proofs.ThresholdProofs.
Import ListNotations.
Open Scope string_scope.
Open Scope nat_scope.

Lemma bind_ok {A B} (r : res A) (f : A -> res B) b :
  bind r f = Ok b -> exists a, r = Ok a /\ f a = Ok b.
Proof. destruct r as [a|e]; simpl; intros H; [now exists a|discriminate]. Qed.

Ltac binv H :=
  let a := fresh "a" in let Ha := fresh "Ha" in
  apply bind_ok in H; destruct H as [a [Ha H]].

(* ---------- the steps *)
Definition task_supported (c : cfg) : Prop :=
  exists s, lookup "evaluation_task" c = Some (Str s) /\ In s perception_support_tasks.

Lemma check_tasks_ok c task :
  check_tasks c = Ok task ->
  exists s, lookup "evaluation_task" c = Some (Str s) /\ In s perception_support_tasks /\
            run_parser EvaluationTask_enum set_task s = Member task.
Proof.
  unfold check_tasks. destruct (lookup "evaluation_task" c) as [[q|b|s| |l|l]|]; try discriminate.
  destruct (mem_str s perception_support_tasks) eqn:E; [|discriminate].
  destruct (run_parser EvaluationTask_enum set_task s) eqn:P; try discriminate.
  intros H. injection H as <-. exists s. split; [reflexivity|]. split; [now apply mem_str_In|exact P].
Qed.

Lemma label_count_ok c n_all :
  label_count c = Ok n_all -> lookup "label_prefix" c <> None /\ 1 <= n_all.
Proof.
  unfold label_count. destruct (lookup "label_prefix" c) as [[q|b|s| |l|l]|]; try discriminate.
  intros H. split; [discriminate|].
  destruct (String.eqb s "autoware").
  { injection H as <-. apply Nat.leb_le. vm_compute. reflexivity. }
  destruct (String.eqb s "traffic_light").
  { injection H as <-. apply Nat.leb_le. vm_compute. reflexivity. }
  destruct (String.eqb s "blinker" || String.eqb s "brake_lamp"); discriminate.
Qed.

Lemma target_count_ok v n_all n : target_count v n_all = Ok n -> 1 <= n_all -> 1 <= n.
Proof.
  unfold target_count. destruct v as [q|b|s| |l|l]; try discriminate.
  - destruct (Nat.eqb_spec (String.length s) 0); intros H; injection H as <-; lia.
  - intros H; injection H as <-; auto.
  - destruct (Nat.eqb_spec (length l) 0); [intros H; injection H as <-; auto|].
    destruct (forallb is_str l); [|discriminate]. intros H; injection H as <-; lia.
  - destruct (Nat.eqb_spec (length l) 0); [intros H; injection H as <-; auto|].
    destruct (forallb is_str l); [|discriminate]. intros H; injection H as <-; lia.
Qed.

Lemma opt_thresholds_ok v n o :
  opt_thresholds v n = Ok o ->
  (o = None /\ v = NoneV) \/ (exists w, o = Some w /\ v <> NoneV /\ set_thresholds v n false = Ok w).
Proof.
  unfold opt_thresholds. destruct v; simpl; try (intros H; injection H as <-; left; auto; fail);
    intros H; binv H; injection H as <-; right; exists a; repeat split; auto; discriminate.
Qed.

Lemma is_none_false v : is_none v = false <-> v <> NoneV.
Proof. destruct v; simpl; split; intros; try discriminate; try reflexivity; try congruence. Qed.

Definition range_shape (n : nat) (c : cfg) (rg : option pyval * option pyval * option pyval * option pyval) : Prop :=
  match rg with
  | (mx, my, md, mnd) =>
      (xy_given c = true /\ (exists x y, mx = Some x /\ my = Some y /\ normal_flat n x /\ normal_flat n y) /\
       md = None /\ mnd = None) \/
      (xy_given c = false /\ dist_given c = true /\ mx = None /\ my = None /\
       (exists d e, md = Some d /\ mnd = Some e /\ normal_flat n d /\ normal_flat n e)) \/
      (xy_given c = false /\ dist_given c = false /\ mx = None /\ my = None /\ md = None /\ mnd = None)
  end.

Lemma ranges_ok sw task c n rg :
  ranges sw task c n = Ok rg ->
  range_shape n c rg /\ (task_is_3d task = true -> xy_given c = true \/ dist_given c = true) /\
  (rejects_both_ranges sw = true -> xy_given c && dist_given c = false).
Proof.
  unfold ranges. destruct (rejects_both_ranges sw && xy_given c && dist_given c) eqn:Eb; [discriminate|].
  assert (Hb : rejects_both_ranges sw = true -> xy_given c && dist_given c = false).
  { intros Hs. rewrite Hs in Eb. exact Eb. }
  destruct (xy_given c) eqn:Exy.
  - intros H. binv H. binv H. injection H as <-. split; [|split; [auto|exact Hb]]. left. split; [exact Exy|].
    split; [|auto]. exists a, a0. repeat split; auto; eapply set_thresholds_shape_flat; eauto.
  - destruct (dist_given c) eqn:Ed.
    + intros H. binv H. binv H. injection H as <-. split; [|split; [auto|exact Hb]]. right; left. repeat split; auto.
      exists a, a0. repeat split; auto; eapply set_thresholds_shape_flat; eauto.
    + destruct (task_is_3d task) eqn:E3; simpl; [discriminate|]. intros H. injection H as <-.
      split; [|split; [discriminate|exact Hb]]. right; right. repeat split; auto.
Qed.

Lemma parse_frames_ok fr k : parse_frames fr = Ok k -> k = length fr.
Proof.
  revert k. induction fr as [|f t IH]; simpl; intros k H; [now injection H|].
  destruct (run_parser FrameID_enum FrameID_from_value f); try discriminate.
  binv H. injection H as <-. f_equal. auto.
Qed.

Lemma check_frames_ok task fr :
  check_frames task fr = Ok tt -> task_is_3d task = true -> length fr = 1.
Proof.
  unfold check_frames. intros H H3. binv H. apply parse_frames_ok in Ha. rewrite H3 in H. simpl in H.
  destruct (Nat.eqb_spec a 1); simpl in H; [congruence|discriminate].
Qed.

Definition metric_shape (n : nat) (w : pyval) : Prop :=
  exists rows, w = List (map List rows) /\ (forall r, In r rows -> length r = n /\ all_real r = true).

Lemma metric_lists_ok keys c n ms :
  metric_lists keys c n = Ok ms ->
  length ms = length keys /\ forall w, In w ms -> metric_shape n w.
Proof.
  revert ms. induction keys as [|k t IH]; simpl; intros ms H.
  - injection H as <-. split; [reflexivity|]. intros w [].
  - binv H. binv H. injection H as <-. destruct (IH a0 Ha0) as [Hl Hs]. split; [simpl; now rewrite Hl|].
    intros w [<-|Hin]; [|auto]. destruct (metric_given (get k c)).
    + apply set_thresholds_shape_nested in Ha. destruct Ha as [_ [rows [-> [_ Hr]]]]. exists rows. auto.
    + injection Ha as <-. exists []. split; [reflexivity|]. intros r [].
Qed.

Lemma metrics_ok task c n m :
  metrics task c n = Ok m ->
  forall ms, m = Some ms -> length ms = 4 /\ forall w, In w ms -> metric_shape n w.
Proof.
  unfold metrics. intros H ms ->.
  destruct (mem_str task detection_tasks).
  { binv H. injection H as <-. apply (metric_lists_ok metric_keys c n a Ha). }
  destruct (mem_str task tracking_tasks).
  { binv H. injection H as <-. apply (metric_lists_ok metric_keys c n a Ha). }
  destruct (String.eqb task "PREDICTION"); [discriminate|].
  destruct (String.eqb task "CLASSIFICATION2D"); [|discriminate].
  binv H. injection H as <-. apply (metric_lists_ok metric_keys c n a Ha).
Qed.

(* ---------- inversion of an accepted configuration *)
Lemma accept_inv sw c fr a :
  accept sw c fr = Ok a ->
  exists n_all rg radii conf,
    check_tasks c = Ok (a_task a) /\ label_policy c = Ok tt /\ label_count c = Ok n_all /\
    target_count (get "target_labels" c) n_all = Ok (a_n a) /\
    ranges sw (a_task a) c (a_n a) = Ok rg /\
    opt_thresholds (get "max_matchable_radii" c) (a_n a) = Ok radii /\
    opt_thresholds (get "min_point_numbers" c) (a_n a) = Ok (f_min_points (a_filters a)) /\
    (a_task a = "DETECTION" -> f_min_points (a_filters a) <> None) /\
    opt_thresholds (get "confidence_threshold" c) (a_n a) = Ok conf /\
    check_frames (a_task a) fr = Ok tt /\
    (rejects_unknown_keys sw = true -> has_unknown_key c = false) /\
    metrics (a_task a) c (a_n a) = Ok (a_metrics a) /\
    a_filters a = {| f_max_x := fst (fst (fst rg)); f_max_y := snd (fst (fst rg)); f_max_dist := snd (fst rg);
                     f_min_dist := snd rg; f_radii := radii; f_min_points := f_min_points (a_filters a);
                     f_conf := conf |}.
Proof.
  unfold accept. intros H.
  apply bind_ok in H. destruct H as [task [H1 H]].
  apply bind_ok in H. destruct H as [[] [H2 H]].
  apply bind_ok in H. destruct H as [n_all [H3 H]].
  apply bind_ok in H. destruct H as [n [H4 H]].
  apply bind_ok in H. destruct H as [rg [H5 H]].
  apply bind_ok in H. destruct H as [radii [H6 H]].
  apply bind_ok in H. destruct H as [minp [H7 H]].
  destruct (String.eqb task "DETECTION" && match minp with None => true | Some _ => false end) eqn:Ed; [discriminate|].
  apply bind_ok in H. destruct H as [conf [H8 H]].
  apply bind_ok in H. destruct H as [[] [H9 H]].
  apply bind_ok in H. destruct H as [[] [Hu H]].
  apply bind_ok in H. destruct H as [m [H10 H]].
  destruct rg as [[[mx my] md] mnd]. injection H as <-. simpl.
  exists n_all, (mx, my, md, mnd), radii, conf. repeat split; auto.
  - intros ->. simpl in Ed. destruct minp; [discriminate|discriminate].
  - intros Hs. rewrite Hs in Hu. simpl in Hu. destruct (has_unknown_key c); [discriminate|reflexivity].
Qed.

(* ---------- C15: acceptance is sound, as far as the code goes *)
Definition mandatory_present (c : cfg) (a : accepted) : Prop :=
  lookup "evaluation_task" c <> None /\ lookup "label_prefix" c <> None /\
  (a_task a = "DETECTION" -> get "min_point_numbers" c <> NoneV).

Theorem config_accept_sound_partial sw c fr a :
  accept sw c fr = Ok a ->
  task_supported c /\
  (task_is_3d (a_task a) = true -> (xy_given c = true \/ dist_given c = true) /\ length fr = 1) /\
  mandatory_present c a.
Proof.
  intros H. apply accept_inv in H.
  destruct H as [n_all [rg [radii [conf [H1 [H2 [H3 [H4 [H5 [H6 [H7 [Hd [H8 [H9 [Hu [H10 Hf]]]]]]]]]]]]]]]].
  apply check_tasks_ok in H1. destruct H1 as [s [Hs [Hin Hp]]].
  split; [exists s; auto|]. split.
  - intros H3d. split; [apply (proj1 (proj2 (ranges_ok _ _ _ _ _ H5)) H3d)|apply (check_frames_ok _ _ H9 H3d)].
  - split; [rewrite Hs; discriminate|]. split; [apply (label_count_ok _ _ H3)|].
    intros Ht. specialize (Hd Ht). apply opt_thresholds_ok in H7.
    destruct H7 as [[Hn _]|[w [_ [Hv _]]]]; [contradiction|exact Hv].
Qed.

(* which range kind an accepted configuration uses: x/y wins, the distance bounds are dropped *)
Theorem range_kind_selection sw c fr a :
  accept sw c fr = Ok a ->
  let f := a_filters a in
  (xy_given c = true -> f_max_x f <> None /\ f_max_y f <> None /\ f_max_dist f = None /\ f_min_dist f = None) /\
  (xy_given c = false -> dist_given c = true ->
     f_max_x f = None /\ f_max_y f = None /\ f_max_dist f <> None /\ f_min_dist f <> None) /\
  (xy_given c = false -> dist_given c = false ->
     f_max_x f = None /\ f_max_y f = None /\ f_max_dist f = None /\ f_min_dist f = None).
Proof.
  intros H. apply accept_inv in H.
  destruct H as [n_all [rg [radii [conf [H1 [H2 [H3 [H4 [H5 [H6 [H7 [Hd [H8 [H9 [Hu [H10 Hf]]]]]]]]]]]]]]]].
  apply ranges_ok in H5. destruct H5 as [Hs _]. destruct rg as [[[mx my] md] mnd]. simpl in Hf. cbv zeta. rewrite Hf. simpl.
  destruct Hs as [[Exy [[x [y [-> [-> _]]]] [-> ->]]]|[[Exy [Ed [-> [-> [d [e [-> [-> _]]]]]]]]|[Exy [Ed [-> [-> [-> ->]]]]]]];
    repeat split; intros; try congruence; try discriminate.
Qed.

Definition full_conclusion (c : cfg) (fr : list string) (a : accepted) : Prop :=
  task_supported c /\
  (task_is_3d (a_task a) = true -> xorb (xy_given c) (dist_given c) = true) /\
  mandatory_present c a /\
  has_unknown_key c = false.

(* the full statement holds exactly under these two guards *)
Theorem config_accept_sound_guarded sw c fr a :
  accept sw c fr = Ok a ->
  (full_conclusion c fr a <->
   (task_is_3d (a_task a) = true -> xy_given c && dist_given c = false) /\ has_unknown_key c = false).
Proof.
  intros H. destruct (config_accept_sound_partial sw c fr a H) as [Hs [H3 Hm]]. unfold full_conclusion. split.
  - intros [_ [Hx [_ Hu]]]. split; [|exact Hu]. intros H3d. specialize (Hx H3d).
    destruct (xy_given c), (dist_given c); simpl in *; congruence.
  - intros [Hg Hu]. split; [exact Hs|]. split; [|split; [exact Hm|exact Hu]].
    intros H3d. specialize (Hg H3d). destruct (H3 H3d) as [[Hx|Hx] _]; rewrite Hx in *.
    + destruct (dist_given c); simpl in *; congruence.
    + destruct (xy_given c); simpl in *; congruence.
Qed.

(* with both repairs in place the statement holds at full strength *)
Theorem config_accept_sound_when_repaired sw c fr a :
  rejects_both_ranges sw = true -> rejects_unknown_keys sw = true ->
  accept sw c fr = Ok a -> full_conclusion c fr a.
Proof.
  intros Hb Hk H. apply (config_accept_sound_guarded sw c fr a H). apply accept_inv in H.
  destruct H as [n_all [rg [radii [conf [H1 [H2 [H3 [H4 [H5 [H6 [H7 [Hd [H8 [H9 [Hu [H10 Hf]]]]]]]]]]]]]]]].
  split; [|exact (Hu Hk)]. intros _. apply (proj2 (proj2 (ranges_ok _ _ _ _ _ H5)) Hb).
Qed.

(* ---------- the two refutations (F7, F8) *)
Definition valid_detection : cfg :=
  [("evaluation_task", Str "detection");
   ("target_labels", List [Str "car"; Str "bicycle"; Str "pedestrian"; Str "motorbike"]);
   ("max_x_position", Num 100); ("max_y_position", Num 100);
   ("min_point_numbers", List [Num 0; Num 0; Num 0; Num 0]);
   ("label_prefix", Str "autoware");
   ("center_distance_thresholds", List [List [Num 1; Num 1; Num 1; Num 1]; List [Num 2; Num 2; Num 2; Num 2]]);
   ("plane_distance_thresholds", List [Num 2; Num 3]);
   ("iou_2d_thresholds", List [Num (1#2)]);
   ("iou_3d_thresholds", List [Num (1#2)])].

Definition both_ranges : cfg := ("max_distance", Num 100) :: ("min_distance", Num 10) :: valid_detection.
Definition unknown_parameter : cfg := ("foo_thresholds", List [Num (4#5)]) :: valid_detection.

Theorem valid_detection_accepted :
  exists a, accept current valid_detection ["base_link"] = Ok a /\ full_conclusion valid_detection ["base_link"] a /\
            a_n a = 4.
Proof.
  eexists. split; [vm_compute; reflexivity|]. split; [|reflexivity].
  unfold full_conclusion. split; [exists "detection"; split; [reflexivity|]; vm_compute; tauto|].
  split; [intros _; vm_compute; reflexivity|]. split; [|vm_compute; reflexivity].
  repeat split; try (vm_compute; discriminate).
Qed.

Theorem refuted_both_range_kinds :
  exists a, accept current both_ranges ["base_link"] = Ok a /\ task_is_3d (a_task a) = true /\
            xy_given both_ranges = true /\ dist_given both_ranges = true.
Proof. eexists. split; [vm_compute; reflexivity|]. repeat split; vm_compute; reflexivity. Qed.

Theorem refuted_unknown_parameter :
  exists a, accept current unknown_parameter ["base_link"] = Ok a /\ has_unknown_key unknown_parameter = true.
Proof. eexists. split; [vm_compute; reflexivity|]. vm_compute. reflexivity. Qed.

Theorem config_accept_sound_refuted :
  ~ (forall c fr a, accept current c fr = Ok a -> full_conclusion c fr a).
Proof.
  intros H. destruct refuted_unknown_parameter as [a [Ha Hu]].
  destruct (H _ _ _ Ha) as [_ [_ [_ Hn]]]. congruence.
Qed.

Theorem config_accept_sound_refuted_F7_alone :
  ~ (forall c fr a, accept current c fr = Ok a ->
       task_is_3d (a_task a) = true -> xorb (xy_given c) (dist_given c) = true).
Proof.
  intros H. destruct refuted_both_range_kinds as [a [Ha [H3 [Hx Hd]]]].
  specialize (H _ _ _ Ha H3). rewrite Hx, Hd in H. discriminate.
Qed.

Theorem witnesses_rejected_when_repaired :
  accept repaired both_ranges ["base_link"] = Err RuntimeError /\
  accept repaired unknown_parameter ["base_link"] = Err MetricsParameterError /\
  exists a, accept repaired valid_detection ["base_link"] = Ok a.
Proof. split; [vm_compute; reflexivity|]. split; [vm_compute; reflexivity|]. eexists. vm_compute. reflexivity. Qed.

(* ---------- F8 exactly: keys the constructor does not read have no influence at all *)
Section Ext.
  Variables c c' : cfg.
  Hypothesis Hext : forall k, In k read_keys -> lookup k c = lookup k c'.

  Lemma get_ext k : In k read_keys -> get k c = get k c'.
  Proof. intros H. unfold get. now rewrite (Hext k H). Qed.

  Ltac inkeys := unfold read_keys; simpl; tauto.

  Lemma check_tasks_ext : check_tasks c = check_tasks c'.
  Proof. unfold check_tasks. rewrite (Hext "evaluation_task") by inkeys. reflexivity. Qed.
  Lemma label_policy_ext : label_policy c = label_policy c'.
  Proof. unfold label_policy. rewrite (get_ext "matching_label_policy") by inkeys. reflexivity. Qed.
  Lemma label_count_ext : label_count c = label_count c'.
  Proof. unfold label_count. rewrite (Hext "label_prefix") by inkeys. reflexivity. Qed.
  Lemma ranges_ext sw task n : ranges sw task c n = ranges sw task c' n.
  Proof.
    unfold ranges, xy_given, dist_given.
    rewrite (get_ext "max_x_position"), (get_ext "max_y_position"), (get_ext "max_distance"), (get_ext "min_distance") by inkeys.
    reflexivity.
  Qed.
  Lemma metric_lists_ext keys n : (forall k, In k keys -> In k read_keys) -> metric_lists keys c n = metric_lists keys c' n.
  Proof.
    induction keys as [|k t IH]; simpl; intros H; [reflexivity|].
    rewrite (get_ext k) by (apply H; auto). rewrite IH by (intros; apply H; auto). reflexivity.
  Qed.
  Lemma metrics_ext task n : metrics task c n = metrics task c' n.
  Proof.
    unfold metrics. rewrite (metric_lists_ext metric_keys n); [reflexivity|].
    unfold metric_keys, read_keys. simpl. tauto.
  Qed.

  Lemma accept_ext sw fr : rejects_unknown_keys sw = false -> accept sw c fr = accept sw c' fr.
  Proof.
    intros Hsw. unfold accept. rewrite Hsw. cbn [andb]. rewrite check_tasks_ext. destruct (check_tasks c') as [task|]; [simpl|reflexivity].
    rewrite label_policy_ext. destruct (label_policy c') as [[]|]; [simpl|reflexivity].
    rewrite label_count_ext. destruct (label_count c') as [n_all|]; [simpl|reflexivity].
    rewrite (get_ext "target_labels") by inkeys.
    destruct (target_count (get "target_labels" c') n_all) as [n|]; [simpl|reflexivity].
    rewrite ranges_ext. destruct (ranges sw task c' n) as [rg|]; [simpl|reflexivity].
    rewrite (get_ext "max_matchable_radii") by inkeys.
    destruct (opt_thresholds (get "max_matchable_radii" c') n) as [radii|]; [simpl|reflexivity].
    rewrite (get_ext "min_point_numbers") by inkeys.
    destruct (opt_thresholds (get "min_point_numbers" c') n) as [minp|]; [simpl|reflexivity].
    destruct (String.eqb task "DETECTION" && match minp with None => true | Some _ => false end); [reflexivity|].
    rewrite (get_ext "confidence_threshold") by inkeys.
    destruct (opt_thresholds (get "confidence_threshold" c') n) as [conf|]; [simpl|reflexivity].
    destruct (check_frames task fr) as [[]|]; [simpl|reflexivity].
    rewrite metrics_ext. reflexivity.
  Qed.
End Ext.

Theorem unknown_keys_ignored sw c k v fr :
  rejects_unknown_keys sw = false ->
  ~ In k read_keys -> accept sw ((k, v) :: c) fr = accept sw c fr.
Proof.
  intros Hsw Hk. apply accept_ext; [|exact Hsw]. intros k' Hin. simpl.
  destruct (String.eqb_spec k' k) as [->|]; [contradiction|reflexivity].
Qed.

(* ---------- accepted lists have the target length *)
Theorem accepted_lists_have_target_length sw c fr a :
  accept sw c fr = Ok a ->
  1 <= a_n a /\
  (forall w, In (Some w) (filters_list (a_filters a)) -> normal_flat (a_n a) w) /\
  (forall ms, a_metrics a = Some ms -> length ms = 4 /\ forall w, In w ms -> metric_shape (a_n a) w).
Proof.
  intros H. apply accept_inv in H.
  destruct H as [n_all [rg [radii [conf [H1 [H2 [H3 [H4 [H5 [H6 [H7 [Hd [H8 [H9 [Hu [H10 Hf]]]]]]]]]]]]]]]].
  set (n := a_n a) in *.
  assert (Hn : 1 <= n) by (apply (target_count_ok _ _ _ H4); apply (label_count_ok _ _ H3)).
  assert (Hopt : forall v o w, opt_thresholds v n = Ok o -> o = Some w -> normal_flat n w).
  { intros v o w Ho ->. apply opt_thresholds_ok in Ho. destruct Ho as [[Hc _]|[w' [Hw [_ Hs]]]]; [discriminate|].
    injection Hw as <-. eapply set_thresholds_shape_flat; eauto. }
  apply ranges_ok in H5. destruct H5 as [Hs _]. destruct rg as [[[mx my] md] mnd]. simpl in Hf.
  split; [exact Hn|]. split.
  - intros w Hin. rewrite Hf in Hin. simpl in Hin.
    destruct Hs as [[_ [[x [y [-> [-> [Hx Hy]]]]] [-> ->]]]|[[_ [_ [-> [-> [d [e [-> [-> [Hdd He]]]]]]]]]|[_ [_ [-> [-> [-> ->]]]]]]];
      destruct Hin as [E|[E|[E|[E|[E|[E|[E|[]]]]]]]]; try discriminate;
      try (injection E as <-; assumption);
      try (eapply Hopt; [exact H6|exact E]); try (eapply Hopt; [exact H7|exact E]); try (eapply Hopt; [exact H8|exact E]).
  - intros ms Hms. apply (metrics_ok _ _ _ _ H10 ms Hms).
Qed.

(* regression (repaired in /repo by `fix: normalise and validate min_distance ...`): min_distance goes
   through set_thresholds like the other bounds *)
Definition min_distance_str : cfg :=
  [("evaluation_task", Str "detection"); ("label_prefix", Str "autoware");
   ("target_labels", List [Str "car"; Str "bicycle"]);
   ("max_distance", Num 3); ("min_distance", Str "zz"); ("min_point_numbers", Num 0)].
Definition min_distance_per_label : cfg :=
  [("evaluation_task", Str "detection"); ("label_prefix", Str "autoware");
   ("target_labels", List [Str "car"; Str "bicycle"]);
   ("max_distance", Num 3); ("min_distance", List [Num 0; Num 1]); ("min_point_numbers", Num 0)].

Theorem min_distance_validated :
  accept current min_distance_str ["base_link"] = Err ThresholdError /\
  exists a, accept current min_distance_per_label ["base_link"] = Ok a /\
            f_min_dist (a_filters a) = Some (List [Num 0; Num 1]).
Proof. split; [vm_compute; reflexivity|]. eexists. split; [vm_compute; reflexivity|reflexivity]. Qed.

(* ---------- CriticalObjectFilterConfig / PerceptionPassFailConfig: lengths are checked *)
(* a per-frame list that was accepted: exactly n real numbers, returned unchanged *)
Definition checked_list (n : nat) (w : pyval) : Prop :=
  exists l, py_items w = Some l /\ length l = n /\ all_real l = true.

Lemma opt_check_ok v n o :
  opt_check v n = Ok o ->
  (o = None /\ v = NoneV) \/ (o = Some v /\ v <> NoneV /\ checked_list n v).
Proof.
  unfold opt_check. destruct (is_none v) eqn:E.
  - intros H. injection H as <-. left. destruct v; try discriminate. auto.
  - intros H. binv H. injection H as <-. apply check_thresholds_ok in Ha. destruct Ha as [-> [l [Hi [Hr Hl]]]].
    right. split; [reflexivity|]. split; [now apply is_none_false|]. exists l. auto.
Qed.

Lemma check_thresholds_checked v n w : check_thresholds v n = Ok w -> w = v /\ checked_list n v.
Proof. intros H. apply check_thresholds_ok in H. destruct H as [-> [l [Hi [Hr Hl]]]]. split; [reflexivity|]. exists l. auto. Qed.

Theorem critical_length_checked is2d n_all a k :
  critical_accept is2d n_all a = Ok k -> 1 <= n_all ->
  1 <= k_n k /\
  (forall w, In (Some w) [k_max_x k; k_max_y k; k_max_dist k; k_min_dist k; k_min_points k; k_conf k] ->
             checked_list (k_n k) w) /\
  (is2d = false -> (k_max_x k <> None /\ k_max_y k <> None) \/ (k_max_dist k <> None /\ k_min_dist k <> None)).
Proof.
  unfold critical_accept. intros H Hall. cbv zeta in H.
  apply bind_ok in H. destruct H as [n [Hn H]].
  apply bind_ok in H. destruct H as [rg [Hrg H]].
  apply bind_ok in H. destruct H as [minp [Hmp H]].
  apply bind_ok in H. destruct H as [conf [Hcf H]].
  destruct rg as [[[x y] d] e]. injection H as <-. simpl.
  split; [apply (target_count_ok _ _ _ Hn Hall)|].
  assert (Hrange : (forall w, In (Some w) [x; y; d; e] -> checked_list n w) /\
                   (is2d = false -> (x <> None /\ y <> None) \/ (d <> None /\ e <> None))).
  { destruct (py_truthy (get "max_x_position_list" a) && py_truthy (get "max_y_position_list" a)).
    - apply bind_ok in Hrg. destruct Hrg as [xl [Hx Hrg]]. apply bind_ok in Hrg. destruct Hrg as [yl [Hy Hrg]].
      injection Hrg as <- <- <- <-. apply check_thresholds_checked in Hx, Hy. destruct Hx as [-> Hx], Hy as [-> Hy].
      split; [|intros _; left; split; discriminate].
      intros w [E|[E|[E|[E|[]]]]]; try discriminate; injection E as <-; assumption.
    - destruct (py_truthy (get "max_distance_list" a) && py_truthy (get "min_distance_list" a)).
      + apply bind_ok in Hrg. destruct Hrg as [dl [Hdd Hrg]]. apply bind_ok in Hrg. destruct Hrg as [el [He Hrg]].
        injection Hrg as <- <- <- <-. apply check_thresholds_checked in Hdd, He. destruct Hdd as [-> Hdd], He as [-> He].
        split; [|intros _; right; split; discriminate].
        intros w [E|[E|[E|[E|[]]]]]; try discriminate; injection E as <-; assumption.
      + destruct is2d; [|discriminate]. injection Hrg as <- <- <- <-. split; [|discriminate].
        intros w [E|[E|[E|[E|[]]]]]; discriminate. }
  destruct Hrange as [Hr1 Hr2]. split; [|exact Hr2].
  intros w Hin. simpl in Hin. destruct Hin as [E|[E|[E|[E|[E|[E|[]]]]]]];
    try (apply Hr1; simpl; rewrite E; tauto).
  - subst minp. apply opt_check_ok in Hmp. destruct Hmp as [[Hc _]|[Hc [_ Hk]]]; [discriminate|]. injection Hc as ->. exact Hk.
  - subst conf. apply opt_check_ok in Hcf. destruct Hcf as [[Hc _]|[Hc [_ Hk]]]; [discriminate|]. injection Hc as ->. exact Hk.
Qed.

Theorem passfail_length_checked n_all a p :
  passfail_accept n_all a = Ok p -> 1 <= n_all ->
  1 <= p_n p /\ (forall w, In (Some w) [p_matching p; p_conf p] -> checked_list (p_n p) w).
Proof.
  unfold passfail_accept. intros H Hall.
  apply bind_ok in H. destruct H as [n [Hn H]].
  apply bind_ok in H. destruct H as [m [Hm H]].
  apply bind_ok in H. destruct H as [conf [Hcf H]].
  injection H as <-. simpl. split; [apply (target_count_ok _ _ _ Hn Hall)|].
  intros w [E|[E|[]]].
  - subst m. apply opt_check_ok in Hm. destruct Hm as [[Hc _]|[Hc [_ Hk]]]; [discriminate|]. injection Hc as ->. exact Hk.
  - subst conf. apply opt_check_ok in Hcf. destruct Hcf as [[Hc _]|[Hc [_ Hk]]]; [discriminate|]. injection Hc as ->. exact Hk.
Qed.

(* a list of the wrong length or with a non-number is an error, whichever argument it is *)
Theorem opt_check_rejects v n l :
  py_items v = Some l -> length l <> n \/ all_real l = false -> exists e, opt_check v n = Err e.
Proof.
  intros Hi Hbad. destruct (opt_check v n) as [o|e] eqn:E; [|now exists e]. exfalso.
  apply opt_check_ok in E. destruct E as [[_ ->]|[_ [_ [l' [Hi' [Hl Hr]]]]]]; [discriminate|].
  rewrite Hi in Hi'. injection Hi' as <-. destruct Hbad; congruence.
Qed.
