(* C11 -- proofs about Model/Classif.v: the nested-loop matchers (bookkeeping invariant, exhaustiveness of the
   guarded loops, first-fit over a key-equality condition is maximum, the generic matcher equals its declarative
   description) and the classification scores (counting definitions, ranges, the perfect case). *)
From Coq Require Import List Bool Arith ZArith QArith Lia Permutation Psatz.
From PE Require Import Base.QUtil Model.Classif.
Import ListNotations.
Local Open Scope nat_scope.

(* ------------------------------------------------------------------------------------------ *)
(* identities                                                                                  *)
(* ------------------------------------------------------------------------------------------ *)
Lemma indexed_from_ids : forall l k, map fst (indexed_from k l) = seq k (length l).
Proof. induction l as [|o t IH]; intros k; simpl; [reflexivity|]. now rewrite IH. Qed.

Lemma indexed_from_objs : forall l k, map snd (indexed_from k l) = l.
Proof. induction l as [|o t IH]; intros k; simpl; [reflexivity|]. now rewrite IH. Qed.

Lemma indexed_ids l : map fst (indexed l) = seq 0 (length l).
Proof. apply indexed_from_ids. Qed.
Lemma indexed_objs l : map snd (indexed l) = l.
Proof. apply indexed_from_objs. Qed.
Lemma indexed_NoDup l : NoDup (map fst (indexed l)).
Proof. rewrite indexed_ids. apply seq_NoDup. Qed.
Lemma indexed_length l : length (indexed l) = length l.
Proof. unfold indexed. generalize 0. induction l as [|o t IH]; intros k; simpl; auto. Qed.

Lemma In_indexed_from : forall l k i o, In (i, o) (indexed_from k l) <-> (k <= i /\ nth_error l (i - k) = Some o).
Proof.
  induction l as [|x t IH]; intros k i o; simpl.
  - split; [tauto|]. intros [_ H]. destruct (i - k); discriminate.
  - rewrite IH. split.
    + intros [H|[H1 H2]].
      * inversion H; subst. split; [lia|]. now rewrite Nat.sub_diag.
      * split; [lia|]. replace (i - k) with (S (i - S k)) by lia. exact H2.
    + intros [H1 H2]. destruct (Nat.eq_dec i k) as [->|Hne].
      * rewrite Nat.sub_diag in H2. simpl in H2. left. congruence.
      * right. split; [lia|]. replace (i - k) with (S (i - S k)) in H2 by lia. exact H2.
Qed.

(* an object of [indexed l] is exactly (position, element) *)
Lemma In_indexed l i o : In (i, o) (indexed l) <-> nth_error l i = Some o.
Proof.
  unfold indexed. rewrite In_indexed_from, Nat.sub_0_r. split; [tauto|]. intros; split; [lia|assumption].
Qed.

Lemma ids_inj (L : list iobj) x y : NoDup (map fst L) -> In x L -> In y L -> fst x = fst y -> x = y.
Proof.
  induction L as [|a t IH]; simpl; intros ND Hx Hy E; [tauto|].
  inversion ND as [|? ? Hn ND']; subst.
  destruct Hx as [->|Hx], Hy as [->|Hy]; auto.
  - exfalso. apply Hn. rewrite E. now apply in_map.
  - exfalso. apply Hn. rewrite <- E. now apply in_map.
Qed.

Lemma mem_id_In i l : mem_id i l = true <-> In i (map fst l).
Proof.
  induction l as [|x t IH]; simpl; [split; [discriminate|tauto]|].
  destruct (Nat.eqb_spec (fst x) i); [tauto|]. rewrite IH. split; [tauto|]. intros [H|H]; [contradiction|assumption].
Qed.

Lemma mem_id_false i l : mem_id i l = false <-> ~ In i (map fst l).
Proof. rewrite <- mem_id_In. destruct (mem_id i l); split; congruence. Qed.

Lemma remove_id_split : forall l i l', remove_id i l = Some l' ->
  exists l1 x l2, l = l1 ++ x :: l2 /\ l' = l1 ++ l2 /\ fst x = i /\ ~ In i (map fst l1).
Proof.
  induction l as [|a t IH]; simpl; intros i l' H; [discriminate|].
  destruct (Nat.eqb_spec (fst a) i) as [E|NE].
  - inversion H; subst. exists [], a, l'. simpl. tauto.
  - destruct (remove_id i t) as [t'|] eqn:Ht; [|discriminate]. inversion H; subst.
    destruct (IH _ _ Ht) as (l1 & x & l2 & -> & -> & Hx & Hn).
    exists (a :: l1), x, l2. simpl. repeat split; auto. intros [?|?]; [contradiction|auto].
Qed.

Lemma mem_id_remove : forall l i, mem_id i l = true -> exists l', remove_id i l = Some l'.
Proof.
  induction l as [|a t IH]; simpl; intros i H; [discriminate|].
  destruct (Nat.eqb (fst a) i); [eauto|]. destruct (IH _ H) as [t' ->]. eauto.
Qed.

Lemma remove_id_mem l i l' : remove_id i l = Some l' -> mem_id i l = true.
Proof.
  intros H. destruct (remove_id_split _ _ _ H) as (l1 & x & l2 & -> & _ & Hx & _).
  apply mem_id_In. rewrite map_app. apply in_or_app. right. simpl. auto.
Qed.

Lemma remove_id_app_notin l1 x l2 : ~ In (fst x) (map fst l1) -> remove_id (fst x) (l1 ++ x :: l2) = Some (l1 ++ l2).
Proof.
  induction l1 as [|a t IH]; simpl; intros H.
  - now rewrite Nat.eqb_refl.
  - destruct (Nat.eqb_spec (fst a) (fst x)) as [E|NE]; [exfalso; auto|].
    rewrite IH; auto.
Qed.

(* ------------------------------------------------------------------------------------------ *)
(* loop invariant principle for the nested loops                                               *)
(* ------------------------------------------------------------------------------------------ *)
Definition step_ok (guard : bool) (cond : obj -> obj -> bool)
           (P : list result -> list iobj -> list iobj -> Prop) (e g : iobj) : Prop :=
  forall R E G E' G',
    P R E G -> cond (snd e) (snd g) = true ->
    (guard = true -> mem_id (fst e) E = true /\ mem_id (fst g) G = true) ->
    remove_id (fst e) E = Some E' -> remove_id (fst g) G = Some G' ->
    uuid_is_none e = false -> uuid_is_none g = false ->
    P (R ++ [(e, Some g)]) E' G'.

Lemma inner_inv guard cond P e : forall gs R E G R' E' G',
  (forall g, In g gs -> step_ok guard cond P e g) ->
  P R E G -> inner guard cond e gs R E G = Ok (R', E', G') -> P R' E' G'.
Proof.
  induction gs as [|g gs IH]; intros R E G R' E' G' Hs HP H; simpl in H.
  - inversion H; subst; assumption.
  - destruct (uuid_is_none e || uuid_is_none g) eqn:Hu; [discriminate|].
    apply orb_false_iff in Hu. destruct Hu as [Hue Hug].
    destruct (cond (snd e) (snd g) && (if guard then mem_id (fst e) E && mem_id (fst g) G else true)) eqn:Hc.
    + apply andb_true_iff in Hc. destruct Hc as [Hc Hg].
      destruct (remove_id (fst e) E) as [E1|] eqn:HE; [|discriminate].
      destruct (remove_id (fst g) G) as [G1|] eqn:HG; [|discriminate].
      eapply IH; [intros; apply Hs; now right| |exact H].
      eapply (Hs g (or_introl eq_refl)); eauto.
      intros ->. now apply andb_true_iff in Hg.
    + eapply IH; [intros; apply Hs; now right|exact HP|exact H].
Qed.

Lemma outer_inv guard cond P gs : forall es R E G R' E' G',
  (forall e g, In e es -> In g gs -> step_ok guard cond P e g) ->
  P R E G -> outer guard cond es gs R E G = Ok (R', E', G') -> P R' E' G'.
Proof.
  induction es as [|e es IH]; intros R E G R' E' G' Hs HP H; simpl in H.
  - inversion H; subst; assumption.
  - destruct (inner guard cond e gs R E G) as [[[R1 E1] G1]|] eqn:Hi; [|discriminate].
    eapply IH; [intros; apply Hs; auto; now right| |exact H].
    eapply inner_inv; [|exact HP|exact Hi]. intros; apply Hs; auto. now left.
Qed.

(* ------------------------------------------------------------------------------------------ *)
(* the bookkeeping invariant: results + working copies are a rearrangement of the inputs        *)
(* ------------------------------------------------------------------------------------------ *)
Lemma gts_of_app R1 R2 : gts_of (R1 ++ R2) = gts_of R1 ++ gts_of R2.
Proof. apply flat_map_app. Qed.

Definition Inv (E0 G0 : list iobj) (R : list result) (E G : list iobj) : Prop :=
  Permutation E0 (map fst R ++ E) /\ Permutation G0 (gts_of R ++ G).

Lemma Inv_init E0 G0 : Inv E0 G0 [] E0 G0.
Proof. split; simpl; apply Permutation_refl. Qed.

Lemma perm_remove (L0 A L L' : list iobj) (x : iobj) :
  NoDup (map fst L0) -> In x L0 -> Permutation L0 (A ++ L) -> remove_id (fst x) L = Some L' ->
  Permutation L0 ((A ++ [x]) ++ L').
Proof.
  intros ND Hx HP Hr.
  destruct (remove_id_split _ _ _ Hr) as (l1 & y & l2 & -> & -> & Hy & _).
  assert (y = x).
  { apply (ids_inj L0); auto. eapply Permutation_in; [apply Permutation_sym; exact HP|].
    apply in_or_app. right. apply in_elt. }
  subst y. rewrite <- app_assoc. simpl.
  eapply Permutation_trans; [exact HP|]. apply Permutation_app_head.
  apply Permutation_sym, Permutation_middle.
Qed.

Lemma Inv_step E0 G0 e g R E G E' G' :
  NoDup (map fst E0) -> NoDup (map fst G0) -> In e E0 -> In g G0 ->
  Inv E0 G0 R E G -> remove_id (fst e) E = Some E' -> remove_id (fst g) G = Some G' ->
  Inv E0 G0 (R ++ [(e, Some g)]) E' G'.
Proof.
  intros NE NG He Hg [PE PG] HE HG. split.
  - rewrite map_app. simpl. eapply perm_remove; eauto.
  - rewrite gts_of_app. simpl. eapply perm_remove; eauto.
Qed.

Lemma NoDup_app_disj {A} (l1 l2 : list A) x : NoDup (l1 ++ l2) -> In x l1 -> ~ In x l2.
Proof.
  induction l1 as [|a t IH]; simpl; intros ND H; [tauto|].
  inversion ND as [|? ? Hn ND']; subst. destruct H as [->|H]; [|auto].
  intros H2. apply Hn. apply in_or_app. now right.
Qed.

Lemma NoDup_app_l {A} (l1 l2 : list A) : NoDup (l1 ++ l2) -> NoDup l1.
Proof.
  induction l1 as [|a t IH]; simpl; intros ND; [constructor|].
  inversion ND as [|? ? Hn ND']; subst. constructor; [|auto].
  intros H. apply Hn. apply in_or_app. now left.
Qed.
Lemma NoDup_app_r {A} (l1 l2 : list A) : NoDup (l1 ++ l2) -> NoDup l2.
Proof.
  induction l1 as [|a t IH]; simpl; intros ND; [assumption|].
  inversion ND; subst. auto.
Qed.

Lemma perm_facts (L0 A L : list iobj) :
  NoDup (map fst L0) -> Permutation L0 (A ++ L) ->
  NoDup (map fst A) /\ NoDup (map fst L) /\ incl A L0 /\ incl L L0 /\
  (forall x, In x A -> ~ In (fst x) (map fst L)).
Proof.
  intros ND HP.
  assert (ND' : NoDup (map fst A ++ map fst L)).
  { rewrite <- map_app. eapply Permutation_NoDup; [apply Permutation_map; exact HP|exact ND]. }
  repeat split.
  - eapply NoDup_app_l; exact ND'.
  - eapply NoDup_app_r; exact ND'.
  - intros x Hx. eapply Permutation_in; [apply Permutation_sym; exact HP|]. apply in_or_app. now left.
  - intros x Hx. eapply Permutation_in; [apply Permutation_sym; exact HP|]. apply in_or_app. now right.
  - intros x Hx. eapply NoDup_app_disj; [exact ND'|]. now apply in_map.
Qed.

(* what every appended result looks like *)
Definition pair_ok (es gs : list iobj) (cond : obj -> obj -> bool) (r : result) : Prop :=
  exists e g, r = (e, Some g) /\ In e es /\ In g gs /\ cond (snd e) (snd g) = true.

Lemma outer_Inv guard cond E0 G0 es gs R E G R' E' G' :
  NoDup (map fst E0) -> NoDup (map fst G0) -> incl es E0 -> incl gs G0 ->
  Inv E0 G0 R E G -> outer guard cond es gs R E G = Ok (R', E', G') ->
  Inv E0 G0 R' E' G' /\ exists D, R' = R ++ D /\ Forall (pair_ok es gs cond) D.
Proof.
  intros NE NG Ies Igs HI H.
  apply (outer_inv guard cond
           (fun R1 E1 G1 => Inv E0 G0 R1 E1 G1 /\ exists D, R1 = R ++ D /\ Forall (pair_ok es gs cond) D)
           gs es R E G R' E' G'); auto.
  - intros e g He Hg R1 E1 G1 E2 G2 [HI1 (D & -> & HD)] Hc _ HE HG _ _. split.
    + eapply Inv_step; eauto.
    + exists (D ++ [(e, Some g)]). rewrite app_assoc. split; [reflexivity|].
      apply Forall_app. split; [assumption|]. constructor; [|constructor].
      exists e, g. auto.
  - split; [assumption|]. exists []. rewrite app_nil_r. auto.
Qed.

(* the working copies only shrink *)
Lemma remove_id_incl l i l' : remove_id i l = Some l' -> incl l' l.
Proof.
  intros H. destruct (remove_id_split _ _ _ H) as (l1 & x & l2 & -> & -> & _).
  intros y Hy. apply in_app_or in Hy. apply in_or_app. destruct Hy; [now left|right; now right].
Qed.

Lemma inner_shrink guard cond e gs R E G R' E' G' :
  inner guard cond e gs R E G = Ok (R', E', G') -> incl E' E /\ incl G' G.
Proof.
  intros H.
  apply (inner_inv guard cond (fun _ E1 G1 => incl E1 E /\ incl G1 G) e gs R E G R' E' G'); auto.
  - intros g _ R1 E1 G1 E2 G2 [H1 H2] _ _ HE HG _ _. split.
    + eapply incl_tran; [eapply remove_id_incl; eauto|assumption].
    + eapply incl_tran; [eapply remove_id_incl; eauto|assumption].
  - split; apply incl_refl.
Qed.

Lemma outer_shrink guard cond es gs R E G R' E' G' :
  outer guard cond es gs R E G = Ok (R', E', G') -> incl E' E /\ incl G' G.
Proof.
  intros H.
  apply (outer_inv guard cond (fun _ E1 G1 => incl E1 E /\ incl G1 G) gs es R E G R' E' G'); auto.
  - intros e g _ _ R1 E1 G1 E2 G2 [H1 H2] _ _ HE HG _ _. split.
    + eapply incl_tran; [eapply remove_id_incl; eauto|assumption].
    + eapply incl_tran; [eapply remove_id_incl; eauto|assumption].
  - split; apply incl_refl.
Qed.

Lemma remove_id_NoDup l i l' :
  NoDup (map fst l) -> remove_id i l = Some l' -> NoDup (map fst l') /\ ~ In i (map fst l').
Proof.
  intros ND H. destruct (remove_id_split _ _ _ H) as (l1 & x & l2 & -> & -> & Hx & _).
  rewrite map_app in *. simpl in ND. rewrite Hx in ND. split.
  - eapply NoDup_remove_1; exact ND.
  - eapply NoDup_remove_2; exact ND.
Qed.

Lemma incl_ids (l l' : list iobj) i : incl l' l -> In i (map fst l') -> In i (map fst l).
Proof. intros Hi H. apply in_map_iff in H. destruct H as (x & <- & Hx). apply in_map. auto. Qed.

(* ------------------------------------------------------------------------------------------ *)
(* guarded loops: nothing that satisfies the condition is left over                            *)
(* ------------------------------------------------------------------------------------------ *)
Lemma inner_max cond e : forall gs R E G R' E' G',
  NoDup (map fst E) -> NoDup (map fst G) ->
  inner true cond e gs R E G = Ok (R', E', G') ->
  (NoDup (map fst E') /\ NoDup (map fst G')) /\
  forall g, In g gs -> cond (snd e) (snd g) = true ->
            ~ (In (fst e) (map fst E') /\ In (fst g) (map fst G')).
Proof.
  induction gs as [|g0 gs IH]; intros R E G R' E' G' NE NG H; simpl in H.
  - inversion H; subst. split; [auto|]. intros g [].
  - destruct (uuid_is_none e || uuid_is_none g0) eqn:Hu; [discriminate|].
    destruct (cond (snd e) (snd g0) && (mem_id (fst e) E && mem_id (fst g0) G)) eqn:Hc.
    + destruct (remove_id (fst e) E) as [E1|] eqn:HE; [|discriminate].
      destruct (remove_id (fst g0) G) as [G1|] eqn:HG; [|discriminate].
      destruct (remove_id_NoDup _ _ _ NE HE) as [NE1 Hn1].
      destruct (remove_id_NoDup _ _ _ NG HG) as [NG1 _].
      destruct (IH _ _ _ _ _ _ NE1 NG1 H) as [ND Hmax]. split; [exact ND|].
      intros g [<-|Hg] Hcg; [|auto].
      intros [He _]. apply Hn1. destruct (inner_shrink _ _ _ _ _ _ _ _ _ _ H) as [Hi _].
      eapply incl_ids; eauto.
    + destruct (IH _ _ _ _ _ _ NE NG H) as [ND Hmax]. split; [exact ND|].
      intros g [<-|Hg] Hcg; [|auto].
      intros [He Hg0]. destruct (inner_shrink _ _ _ _ _ _ _ _ _ _ H) as [Hi1 Hi2].
      rewrite Hcg in Hc. simpl in Hc. apply andb_false_iff in Hc.
      destruct Hc as [Hc|Hc]; apply mem_id_false in Hc; apply Hc; eapply incl_ids; eauto.
Qed.

Lemma outer_max cond gs : forall es R E G R' E' G',
  NoDup (map fst E) -> NoDup (map fst G) ->
  outer true cond es gs R E G = Ok (R', E', G') ->
  (NoDup (map fst E') /\ NoDup (map fst G')) /\
  forall e g, In e es -> In g gs -> cond (snd e) (snd g) = true ->
              ~ (In (fst e) (map fst E') /\ In (fst g) (map fst G')).
Proof.
  induction es as [|e0 es IH]; intros R E G R' E' G' NE NG H; simpl in H.
  - inversion H; subst. split; [auto|]. intros e g [].
  - destruct (inner true cond e0 gs R E G) as [[[R1 E1] G1]|] eqn:Hi; [|discriminate].
    destruct (inner_max _ _ _ _ _ _ _ _ _ NE NG Hi) as [[NE1 NG1] Hm1].
    destruct (IH _ _ _ _ _ _ NE1 NG1 H) as [ND Hmax]. split; [exact ND|].
    intros e g [<-|He] Hg Hc; [|auto].
    intros [H1 H2]. destruct (outer_shrink _ _ _ _ _ _ _ _ _ _ H) as [Hi1 Hi2].
    apply (Hm1 g Hg Hc). split; eapply incl_ids; eauto.
Qed.

(* guarded loops never fail on a remove; they fail exactly on a missing uuid *)
Lemma inner_guard_no_remove_error cond e : forall gs R E G,
  inner true cond e gs R E G <> Error ErrRemove.
Proof.
  induction gs as [|g0 gs IH]; intros R E G; simpl; [discriminate|].
  destruct (uuid_is_none e || uuid_is_none g0); [discriminate|].
  destruct (cond (snd e) (snd g0) && (mem_id (fst e) E && mem_id (fst g0) G)) eqn:Hc; [|apply IH].
  apply andb_true_iff in Hc. destruct Hc as [_ Hc]. apply andb_true_iff in Hc. destruct Hc as [H1 H2].
  destruct (mem_id_remove _ _ H1) as [E1 ->]. destruct (mem_id_remove _ _ H2) as [G1 ->]. apply IH.
Qed.

Lemma outer_guard_no_remove_error cond gs : forall es R E G,
  outer true cond es gs R E G <> Error ErrRemove.
Proof.
  induction es as [|e es IH]; intros R E G; simpl; [discriminate|].
  destruct (inner true cond e gs R E G) as [[[R1 E1] G1]|x] eqn:Hi; [apply IH|].
  intros H. inversion H; subst. eapply inner_guard_no_remove_error; eauto.
Qed.

(* ------------------------------------------------------------------------------------------ *)
(* counting                                                                                    *)
(* ------------------------------------------------------------------------------------------ *)
Definition cnt {A} (f : A -> bool) (l : list A) : nat := length (filter f l).

Lemma cnt_app {A} (f : A -> bool) l1 l2 : cnt f (l1 ++ l2) = cnt f l1 + cnt f l2.
Proof. unfold cnt. now rewrite filter_app, app_length. Qed.

Lemma cnt_perm {A} (f : A -> bool) l l' : Permutation l l' -> cnt f l = cnt f l'.
Proof.
  unfold cnt. induction 1; simpl; auto.
  - destruct (f x); simpl; auto.
  - destruct (f x), (f y); simpl; auto.
  - congruence.
Qed.

Lemma cnt_map {A B} (f : B -> bool) (g : A -> B) l : cnt f (map g l) = cnt (fun x => f (g x)) l.
Proof. unfold cnt. induction l as [|a t IH]; simpl; auto. destruct (f (g a)); simpl; auto. Qed.

Lemma cnt_pos_ex {A} (f : A -> bool) l : 0 < cnt f l -> exists x, In x l /\ f x = true.
Proof.
  unfold cnt. induction l as [|a t IH]; simpl; [lia|].
  destruct (f a) eqn:Fa; [exists a; auto|]. intros H. destruct (IH H) as (x & ? & ?). exists x. auto.
Qed.

Lemma cnt_le_length {A} (f : A -> bool) l : cnt f l <= length l.
Proof. unfold cnt. induction l as [|a t IH]; simpl; auto. destruct (f a); simpl; lia. Qed.

Lemma cnt_all {A} (f : A -> bool) l : (forall x, In x l -> f x = true) -> cnt f l = length l.
Proof.
  unfold cnt. induction l as [|a t IH]; simpl; intros H; auto.
  rewrite (H a (or_introl eq_refl)). simpl. f_equal. apply IH. auto.
Qed.

Lemma cnt_none {A} (f : A -> bool) l : (forall x, In x l -> f x = false) -> cnt f l = 0.
Proof.
  unfold cnt. induction l as [|a t IH]; simpl; intros H; auto.
  rewrite (H a (or_introl eq_refl)). apply IH. auto.
Qed.

Lemma cnt_ext {A} (f g : A -> bool) l : (forall x, In x l -> f x = g x) -> cnt f l = cnt g l.
Proof.
  unfold cnt. induction l as [|a t IH]; simpl; intros H; auto.
  rewrite (H a (or_introl eq_refl)). destruct (g a); simpl; rewrite IH; auto.
Qed.

Lemma NoDup_map_filter {A B} (f : A -> B) (q : A -> bool) l : NoDup (map f l) -> NoDup (map f (filter q l)).
Proof.
  induction l as [|a t IH]; simpl; intros ND; [constructor|].
  inversion ND as [|? ? Hn ND']; subst. destruct (q a); simpl; [|auto].
  constructor; [|auto]. intros H. apply Hn. apply in_map_iff in H. destruct H as (x & Hx & Hin).
  apply filter_In in Hin. rewrite <- Hx. apply in_map. tauto.
Qed.

(* keys: two lists whose per-key counts are dominated have dominated lengths *)
Definition key := (nat * nat * option nat)%type.
Definition key_eqb (a b : key) : bool :=
  let '(a1, a2, a3) := a in let '(b1, b2, b3) := b in
  Nat.eqb a1 b1 && Nat.eqb a2 b2 &&
  match a3, b3 with Some x, Some y => Nat.eqb x y | None, None => true | _, _ => false end.

Lemma key_eqb_eq a b : key_eqb a b = true <-> a = b.
Proof.
  destruct a as [[a1 a2] a3], b as [[b1 b2] b3]. unfold key_eqb. split.
  - intros H. apply andb_true_iff in H. destruct H as [H H3]. apply andb_true_iff in H. destruct H as [H1 H2].
    apply Nat.eqb_eq in H1, H2. subst.
    destruct a3, b3; try discriminate; [apply Nat.eqb_eq in H3; subst|]; reflexivity.
  - intros H. inversion H; subst. rewrite !Nat.eqb_refl. destruct b3; [apply Nat.eqb_refl|reflexivity].
Qed.

Lemma key_eqb_refl a : key_eqb a a = true.
Proof. now apply key_eqb_eq. Qed.

Lemma key_count_le {A B} (ka : A -> key) (kb : B -> key) : forall (la : list A) (lb : list B),
  (forall k, cnt (fun a => key_eqb (ka a) k) la <= cnt (fun b => key_eqb (kb b) k) lb) ->
  length la <= length lb.
Proof.
  induction la as [|a la IH]; intros lb H; simpl; [lia|].
  assert (H0 := H (ka a)). unfold cnt at 1 in H0. simpl in H0. rewrite key_eqb_refl in H0. simpl in H0.
  destruct (cnt_pos_ex (fun b => key_eqb (kb b) (ka a)) lb) as (b & Hb & Kb); [lia|].
  apply in_split in Hb. destruct Hb as (l1 & l2 & ->).
  assert (length la <= length (l1 ++ l2)).
  { apply IH. intros k. specialize (H k). rewrite cnt_app in *. unfold cnt in *. simpl in H.
    apply key_eqb_eq in Kb.
    destruct (key_eqb (ka a) k) eqn:K1; destruct (key_eqb (kb b) k) eqn:K2; simpl in H; try lia.
    apply key_eqb_eq in K2. rewrite <- Kb, K2, key_eqb_refl in K1. discriminate. }
  rewrite app_length in *. simpl. lia.
Qed.

(* ------------------------------------------------------------------------------------------ *)
(* first-fit over a key-equality condition is maximum                                          *)
(* ------------------------------------------------------------------------------------------ *)
Section Greedy.
  Variable kappa : obj -> key.
  Variable cond : obj -> obj -> bool.
  Hypothesis cond_key : forall a b, cond a b = true <-> kappa a = kappa b.
  Variables E0 G0 : list iobj.
  Hypothesis NE : NoDup (map fst E0).
  Hypothesis NG : NoDup (map fst G0).

  Definition kf (k : key) (x : iobj) : bool := key_eqb (kappa (snd x)) k.
  Definition cR (k : key) (R : list result) : nat := cnt (fun r : result => kf k (fst r)) R.
  Definition cP (k : key) (P : list (iobj * iobj)) : nat := cnt (fun p : iobj * iobj => kf k (fst p)) P.

  Lemma cnt_ests_of R k : cnt (kf k) (map fst R) = cR k R.
  Proof. apply cnt_map. Qed.

  Lemma cnt_gts_of R k :
    Forall (pair_ok E0 G0 cond) R -> cnt (kf k) (gts_of R) = cR k R.
  Proof.
    unfold cR. induction 1 as [|r R Hr _ IH]; [reflexivity|].
    destruct Hr as (e & g & -> & _ & _ & Hc). apply cond_key in Hc.
    change (gts_of ((e, Some g) :: R)) with ([g] ++ gts_of R).
    change ((e, Some g) :: R) with ([(e, Some g)] ++ R).
    rewrite !cnt_app, IH. f_equal. unfold cnt, kf. simpl. rewrite Hc.
    destruct (key_eqb (kappa (snd g)) k); reflexivity.
  Qed.

  Lemma pairing_count_le (P : list (iobj * iobj)) k :
    NoDup (map fst P) -> NoDup (map snd P) ->
    (forall p, In p P -> In (fst p) E0 /\ In (snd p) G0 /\ kappa (snd (fst p)) = kappa (snd (snd p))) ->
    cP k P <= cnt (kf k) E0 /\ cP k P <= cnt (kf k) G0.
  Proof.
    intros N1 N2 HP. unfold cP, cnt. split.
    - rewrite <- (map_length fst (filter _ P)). apply NoDup_incl_length.
      + now apply NoDup_map_filter.
      + intros x Hx. apply in_map_iff in Hx. destruct Hx as (p & <- & Hp). apply filter_In in Hp.
        destruct Hp as [Hp Hk]. apply filter_In. split; [apply HP; assumption|assumption].
    - rewrite <- (map_length snd (filter _ P)). apply NoDup_incl_length.
      + now apply NoDup_map_filter.
      + intros x Hx. apply in_map_iff in Hx. destruct Hx as (p & <- & Hp). apply filter_In in Hp.
        destruct Hp as [Hp Hk]. apply filter_In. destruct (HP p Hp) as (_ & H2 & H3).
        split; [assumption|]. unfold kf in *. now rewrite <- H3.
  Qed.

  Lemma greedy_max R1 E1 G1 :
    outer true cond E0 G0 [] E0 G0 = Ok (R1, E1, G1) ->
    forall P : list (iobj * iobj),
      NoDup (map fst P) -> NoDup (map snd P) ->
      (forall p, In p P -> In (fst p) E0 /\ In (snd p) G0 /\ kappa (snd (fst p)) = kappa (snd (snd p))) ->
      length P <= length R1.
  Proof.
    intros H P N1 N2 HP.
    destruct (outer_Inv true cond E0 G0 E0 G0 [] E0 G0 R1 E1 G1 NE NG (incl_refl _) (incl_refl _)
                        (Inv_init E0 G0) H) as [[PE PG] (D & HD & HF)].
    simpl in HD. subst D.
    destruct (outer_max cond G0 E0 [] E0 G0 R1 E1 G1 NE NG H) as [_ Hmax].
    apply (key_count_le (fun p : iobj * iobj => kappa (snd (fst p))) (fun r : result => kappa (snd (fst r)))).
    intros k. change (cP k P <= cR k R1).
    destruct (pairing_count_le P k N1 N2 HP) as [LE LG].
    rewrite (cnt_perm (kf k) _ _ PE), cnt_app, cnt_ests_of in LE.
    rewrite (cnt_perm (kf k) _ _ PG), cnt_app, (cnt_gts_of R1 k HF) in LG.
    destruct (cnt (kf k) E1) as [|n1] eqn:C1; [lia|].
    destruct (cnt (kf k) G1) as [|n2] eqn:C2; [lia|].
    exfalso.
    destruct (cnt_pos_ex (kf k) E1) as (e & He & Ke); [lia|].
    destruct (cnt_pos_ex (kf k) G1) as (g & Hg & Kg); [lia|].
    destruct (perm_facts E0 (map fst R1) E1 NE PE) as (_ & _ & _ & IE & _).
    destruct (perm_facts G0 (gts_of R1) G1 NG PG) as (_ & _ & _ & IG & _).
    apply (Hmax e g (IE _ He) (IG _ Hg)).
    - apply cond_key. unfold kf in *. apply key_eqb_eq in Ke, Kg. congruence.
    - split; now apply in_map.
  Qed.
End Greedy.

(* ------------------------------------------------------------------------------------------ *)
(* the conditions, declaratively                                                               *)
(* ------------------------------------------------------------------------------------------ *)
Lemma uuid_eqb_eq a b : uuid_eqb a b = true <-> o_uuid a = o_uuid b.
Proof.
  unfold uuid_eqb. destruct (o_uuid a), (o_uuid b); split; intros H; try discriminate; try reflexivity.
  - apply Nat.eqb_eq in H. congruence.
  - inversion H. apply Nat.eqb_refl.
Qed.

Lemma cond_id_iff a b : cond_id a b = true <-> o_uuid a = o_uuid b /\ o_cam a = o_cam b.
Proof. unfold cond_id, cam_eqb. rewrite andb_true_iff, uuid_eqb_eq, Nat.eqb_eq. tauto. Qed.

Lemma cond_label_iff uf a b :
  cond_label uf a b = true <->
  o_label a = o_label b /\ o_cam a = o_cam b /\ (uf = true -> o_uuid a = o_uuid b).
Proof.
  unfold cond_label, cam_eqb, label_eqb. destruct uf.
  - rewrite !andb_true_iff, uuid_eqb_eq, !Nat.eqb_eq. tauto.
  - rewrite !andb_true_iff, !Nat.eqb_eq. split; [intros [? ?]; repeat split; auto; discriminate|tauto].
Qed.

Definition key1 (uf : bool) (o : obj) : key := (o_cam o, o_label o, if uf then o_uuid o else None).

Lemma cond_label_key uf a b : cond_label uf a b = true <-> key1 uf a = key1 uf b.
Proof.
  rewrite cond_label_iff. unfold key1. destruct uf; split.
  - intros (H1 & H2 & H3). rewrite H1, H2, H3; auto.
  - intros H. inversion H. auto.
  - intros (H1 & H2 & _). rewrite H1, H2; auto.
  - intros H. inversion H. repeat split; auto. discriminate.
Qed.

Lemma est_ids_map R : est_ids R = map fst (map fst R).
Proof. unfold est_ids. now rewrite map_map. Qed.
Lemma est_ids_app R1 R2 : est_ids (R1 ++ R2) = est_ids R1 ++ est_ids R2.
Proof. apply map_app. Qed.
Lemma gt_ids_app R1 R2 : gt_ids (R1 ++ R2) = gt_ids R1 ++ gt_ids R2.
Proof. unfold gt_ids. now rewrite gts_of_app, map_app. Qed.

Lemma used_or_left (L0 A L : list iobj) x :
  Permutation L0 (A ++ L) -> In x L0 -> In (fst x) (map fst A) \/ In x L.
Proof.
  intros HP Hx. apply (Permutation_in _ HP) in Hx. apply in_app_or in Hx.
  destruct Hx; [left; now apply in_map|now right].
Qed.

(* ------------------------------------------------------------------------------------------ *)
(* the traffic-light matcher                                                                   *)
(* ------------------------------------------------------------------------------------------ *)
Inductive tlr_run (uf : bool) (ests gts : list obj) (R : list result) : Prop :=
| TlrRun (R1 : list result) (E1 G1 : list iobj) (D2 : list result) (E2 G2 : list iobj)
    (tr_stage1 : outer true (cond_label uf) (indexed ests) (indexed gts) [] (indexed ests) (indexed gts)
                 = Ok (R1, E1, G1))
    (tr_stage2 : outer true cond_id E1 G1 R1 E1 G1 = Ok (R, E2, G2))
    (tr_split : R = R1 ++ D2)
    (tr_inv1 : Inv (indexed ests) (indexed gts) R1 E1 G1)
    (tr_pairs1 : Forall (pair_ok (indexed ests) (indexed gts) (cond_label uf)) R1)
    (tr_inv2 : Inv (indexed ests) (indexed gts) R E2 G2)
    (tr_pairs2 : Forall (pair_ok E1 G1 cond_id) D2)
    (tr_max1 : forall e g, In e (indexed ests) -> In g (indexed gts) -> cond_label uf (snd e) (snd g) = true ->
                           ~ (In (fst e) (map fst E1) /\ In (fst g) (map fst G1)))
    (tr_max2 : forall e g, In e E1 -> In g G1 -> cond_id (snd e) (snd g) = true ->
                           ~ (In (fst e) (map fst E2) /\ In (fst g) (map fst G2))).

Lemma tlr_decompose uf ests gts R : tlr_match uf ests gts = Ok R -> tlr_run uf ests gts R.
Proof.
  unfold tlr_match, tlr_stage1. intros H.
  set (E0 := indexed ests) in *. set (G0 := indexed gts) in *.
  assert (NE : NoDup (map fst E0)) by apply indexed_NoDup.
  assert (NG : NoDup (map fst G0)) by apply indexed_NoDup.
  destruct (outer true (cond_label uf) E0 G0 [] E0 G0) as [[[R1 E1] G1]|] eqn:H1; [|discriminate].
  destruct (outer true cond_id E1 G1 R1 E1 G1) as [[[R2 E2] G2]|] eqn:H2; [|discriminate].
  inversion H; subst R2; clear H.
  destruct (outer_Inv _ _ E0 G0 _ _ _ _ _ _ _ _ NE NG (incl_refl _) (incl_refl _) (Inv_init E0 G0) H1)
    as [I1 (D1 & HD1 & F1)]. simpl in HD1. subst D1.
  destruct (outer_max _ _ _ _ _ _ _ _ _ NE NG H1) as [[NE1 NG1] M1].
  destruct I1 as [PE1 PG1].
  destruct (perm_facts _ _ _ NE PE1) as (_ & _ & _ & IE1 & _).
  destruct (perm_facts _ _ _ NG PG1) as (_ & _ & _ & IG1 & _).
  destruct (outer_Inv _ _ E0 G0 _ _ _ _ _ _ _ _ NE NG IE1 IG1 (conj PE1 PG1) H2) as [I2 (D2 & HD2 & F2)].
  destruct (outer_max _ _ _ _ _ _ _ _ _ NE1 NG1 H2) as [_ M2].
  econstructor; eauto. split; assumption.
Qed.

Theorem tlr_one_to_one uf ests gts R :
  tlr_match uf ests gts = Ok R ->
  NoDup (est_ids R) /\ NoDup (gt_ids R) /\
  forall r, In r R -> exists e g, r = (e, Some g) /\ In e (indexed ests) /\ In g (indexed gts).
Proof.
  intros H. destruct (tlr_decompose _ _ _ _ H) as [R1 E1 G1 D2 E2 G2 _ _ Hs [PE1 PG1] F1 [PE2 PG2] F2 _ _].
  destruct (perm_facts _ _ _ (indexed_NoDup ests) PE2) as (N1 & _).
  destruct (perm_facts _ _ _ (indexed_NoDup gts) PG2) as (N2 & _).
  destruct (perm_facts _ _ _ (indexed_NoDup ests) PE1) as (_ & _ & _ & IE1 & _).
  destruct (perm_facts _ _ _ (indexed_NoDup gts) PG1) as (_ & _ & _ & IG1 & _).
  rewrite est_ids_map. repeat split; auto.
  intros r Hr. subst R. apply in_app_or in Hr. destruct Hr as [Hr|Hr].
  - rewrite Forall_forall in F1. destruct (F1 r Hr) as (e & g & -> & He & Hg & _). eauto.
  - rewrite Forall_forall in F2. destruct (F2 r Hr) as (e & g & -> & He & Hg & _). eauto 8.
Qed.

Theorem tlr_same_camera uf ests gts R :
  tlr_match uf ests gts = Ok R ->
  forall e g, In (e, Some g) R -> o_cam (snd e) = o_cam (snd g).
Proof.
  intros H e g Hr. destruct (tlr_decompose _ _ _ _ H) as [R1 E1 G1 D2 E2 G2 _ _ Hs _ F1 _ F2 _ _].
  subst R. apply in_app_or in Hr. destruct Hr as [Hr|Hr].
  - rewrite Forall_forall in F1. destruct (F1 _ Hr) as (e' & g' & Heq & _ & _ & Hc). inversion Heq; subst.
    apply cond_label_iff in Hc. tauto.
  - rewrite Forall_forall in F2. destruct (F2 _ Hr) as (e' & g' & Heq & _ & _ & Hc). inversion Heq; subst.
    apply cond_id_iff in Hc. tauto.
Qed.

Theorem tlr_stage_order uf ests gts R :
  tlr_match uf ests gts = Ok R ->
  exists R1 R2, R = R1 ++ R2 /\
    (forall e g, In (e, Some g) R1 ->
       o_label (snd e) = o_label (snd g) /\ o_cam (snd e) = o_cam (snd g) /\
       (uf = true -> o_uuid (snd e) = o_uuid (snd g))) /\
    (forall e g, In (e, Some g) R2 ->
       o_uuid (snd e) = o_uuid (snd g) /\ o_cam (snd e) = o_cam (snd g) /\
       o_label (snd e) <> o_label (snd g)) /\
    (forall e g, In e (indexed ests) -> In g (indexed gts) -> cond_label uf (snd e) (snd g) = true ->
       In (fst e) (est_ids R1) \/ In (fst g) (gt_ids R1)) /\
    (forall e g, In e (indexed ests) -> In g (indexed gts) -> cond_id (snd e) (snd g) = true ->
       In (fst e) (est_ids R) \/ In (fst g) (gt_ids R)).
Proof.
  intros H. destruct (tlr_decompose _ _ _ _ H) as [R1 E1 G1 D2 E2 G2 _ _ Hs [PE1 PG1] F1 [PE2 PG2] F2 M1 M2].
  destruct (perm_facts _ _ _ (indexed_NoDup ests) PE1) as (_ & _ & _ & IE1 & _).
  destruct (perm_facts _ _ _ (indexed_NoDup gts) PG1) as (_ & _ & _ & IG1 & _).
  exists R1, D2. split; [exact Hs|]. rewrite Forall_forall in F1, F2. repeat split.
  - destruct (F1 _ H0) as (e' & g' & Heq & _ & _ & Hc). inversion Heq; subst. apply cond_label_iff in Hc. tauto.
  - destruct (F1 _ H0) as (e' & g' & Heq & _ & _ & Hc). inversion Heq; subst. apply cond_label_iff in Hc. tauto.
  - destruct (F1 _ H0) as (e' & g' & Heq & _ & _ & Hc). inversion Heq; subst. apply cond_label_iff in Hc. tauto.
  - destruct (F2 _ H0) as (e' & g' & Heq & _ & _ & Hc). inversion Heq; subst. apply cond_id_iff in Hc. tauto.
  - destruct (F2 _ H0) as (e' & g' & Heq & _ & _ & Hc). inversion Heq; subst. apply cond_id_iff in Hc. tauto.
  - destruct (F2 _ H0) as (e' & g' & Heq & He & Hg & Hc). inversion Heq; subst e' g'.
    apply cond_id_iff in Hc. intros HL.
    apply (M1 e g (IE1 _ He) (IG1 _ Hg)).
    + apply cond_label_iff. repeat split; tauto.
    + split; now apply in_map.
  - intros e g He Hg Hc.
    destruct (used_or_left _ _ _ e PE1 He) as [U|Le]; [left; now rewrite est_ids_map|].
    destruct (used_or_left _ _ _ g PG1 Hg) as [U|Lg]; [right; exact U|].
    exfalso. apply (M1 e g He Hg Hc). split; now apply in_map.
  - intros e g He Hg Hc.
    destruct (used_or_left _ _ _ e PE2 He) as [U|Le2]; [left; now rewrite est_ids_map|].
    destruct (used_or_left _ _ _ g PG2 Hg) as [U|Lg2]; [right; exact U|].
    destruct (used_or_left _ _ _ e PE1 He) as [U|Le1].
    { left. rewrite Hs, est_ids_app. apply in_or_app. left. now rewrite est_ids_map. }
    destruct (used_or_left _ _ _ g PG1 Hg) as [U|Lg1].
    { right. rewrite Hs, gt_ids_app. apply in_or_app. now left. }
    exfalso. apply (M2 e g Le1 Lg1 Hc). split; now apply in_map.
Qed.

(* a competing pairing: one-to-one, between objects of the two lists *)
Definition pairing (ests gts : list obj) (P : list (iobj * iobj)) : Prop :=
  (forall p, In p P -> In (fst p) (indexed ests) /\ In (snd p) (indexed gts)) /\
  NoDup (map (fun p : iobj * iobj => fst (fst p)) P) /\
  NoDup (map (fun p : iobj * iobj => fst (snd p)) P).

Definition same_label_pair (p : iobj * iobj) : bool := label_eqb (snd (fst p)) (snd (snd p)).

Theorem tlr_label_pairs_maximal uf ests gts R :
  tlr_match uf ests gts = Ok R ->
  forall P, pairing ests gts P ->
    (forall p, In p P -> o_cam (snd (fst p)) = o_cam (snd (snd p)) /\
                         (uf = true -> o_uuid (snd (fst p)) = o_uuid (snd (snd p)))) ->
    cnt same_label_pair P <= cnt same_label_result R.
Proof.
  intros H P (Hin & N1 & N2) Hadm.
  destruct (tlr_decompose _ _ _ _ H) as [R1 E1 G1 D2 E2 G2 H1 _ Hs _ F1 _ _ _ _].
  assert (L1 : length (filter same_label_pair P) <= length R1).
  { apply (greedy_max (key1 uf) (cond_label uf) (cond_label_key uf) (indexed ests) (indexed gts)
                      (indexed_NoDup ests) (indexed_NoDup gts) R1 E1 G1 H1).
    - apply NoDup_map_filter. eapply NoDup_map_inv. rewrite map_map. exact N1.
    - apply NoDup_map_filter. eapply NoDup_map_inv. rewrite map_map. exact N2.
    - intros p Hp. apply filter_In in Hp. destruct Hp as [Hp HL].
      destruct (Hin p Hp) as [He Hg]. destruct (Hadm p Hp) as [Hc Hu]. repeat split; auto.
      apply cond_label_key. apply cond_label_iff. unfold same_label_pair, label_eqb in HL.
      apply Nat.eqb_eq in HL. auto. }
  subst R. rewrite cnt_app. rewrite (cnt_all same_label_result R1).
  - unfold cnt at 1. lia.
  - intros r Hr. rewrite Forall_forall in F1. destruct (F1 r Hr) as (e & g & -> & _ & _ & Hc).
    apply cond_label_iff in Hc. unfold same_label_result, label_eqb. simpl. apply Nat.eqb_eq. tauto.
Qed.

(* never a remove failure, never a ground-truth-less result; the only error is a missing uuid *)
Theorem tlr_error_only_uuid uf ests gts : tlr_match uf ests gts <> Error ErrRemove.
Proof.
  unfold tlr_match, tlr_stage1. intros H.
  destruct (outer true (cond_label uf) (indexed ests) (indexed gts) [] (indexed ests) (indexed gts))
    as [[[R1 E1] G1]|x] eqn:H1.
  - destruct (outer true cond_id E1 G1 R1 E1 G1) as [[[R2 E2] G2]|y] eqn:H2; [discriminate|].
    inversion H; subst. eapply outer_guard_no_remove_error; eauto.
  - inversion H; subst. eapply outer_guard_no_remove_error; eauto.
Qed.

(* ------------------------------------------------------------------------------------------ *)
(* the generic matcher equals its declarative description                                      *)
(* ------------------------------------------------------------------------------------------ *)
Definition okey (x : iobj) : option nat * nat := uuid_cam (snd x).
Definition uuid_set (x : iobj) : Prop := o_uuid (snd x) <> None.

Lemma uuid_set_false x : uuid_set x -> uuid_is_none x = false.
Proof. unfold uuid_set, uuid_is_none. destruct (o_uuid (snd x)); [reflexivity|congruence]. Qed.

Lemma cond_id_okey e g : cond_id (snd e) (snd g) = true <-> okey e = okey g.
Proof.
  rewrite cond_id_iff. unfold okey, uuid_cam. split; [intros [-> ->]; reflexivity|intros H; inversion H; auto].
Qed.

Lemma inner_id_nomatch e : forall gs R E G,
  uuid_set e -> (forall g, In g gs -> uuid_set g) ->
  (forall g, In g gs -> cond_id (snd e) (snd g) = false) ->
  inner false cond_id e gs R E G = Ok (R, E, G).
Proof.
  induction gs as [|g gs IH]; intros R E G Ue Ug Hn; simpl; [reflexivity|].
  rewrite (uuid_set_false e Ue), (uuid_set_false g (Ug g (or_introl eq_refl))). simpl.
  rewrite (Hn g (or_introl eq_refl)). simpl. apply IH; auto.
  - intros; apply Ug; now right.
  - intros; apply Hn; now right.
Qed.

Lemma id_partners_nil e gs :
  id_partners e gs = [] <-> forall g, In g gs -> cond_id (snd e) (snd g) = false.
Proof.
  unfold id_partners. induction gs as [|g gs IH]; simpl.
  - split; [intros _ g []|reflexivity].
  - destruct (cond_id (snd e) (snd g)) eqn:C.
    + split; [discriminate|]. intros H. specialize (H g (or_introl eq_refl)). congruence.
    + rewrite IH. split; [intros H g' [<-|Hg]; auto|intros H g' Hg; apply H; now right].
Qed.

Lemma inner_id_step e : forall gs R E G,
  uuid_set e -> (forall g, In g gs -> uuid_set g) -> NoDup (map okey gs) ->
  mem_id (fst e) E = true ->
  (forall g, In g gs -> cond_id (snd e) (snd g) = true -> mem_id (fst g) G = true) ->
  (id_partners e gs = [] /\ inner false cond_id e gs R E G = Ok (R, E, G)) \/
  (exists g0 E' G', id_partners e gs = [g0] /\ In g0 gs /\ cond_id (snd e) (snd g0) = true /\
                    remove_id (fst e) E = Some E' /\ remove_id (fst g0) G = Some G' /\
                    inner false cond_id e gs R E G = Ok (R ++ [(e, Some g0)], E', G')).
Proof.
  induction gs as [|g gs IH]; intros R E G Ue Ug ND ME MG.
  - left. split; reflexivity.
  - inversion ND as [|? ? Hnk ND']; subst.
    assert (Ug' : forall g', In g' gs -> uuid_set g') by (intros; apply Ug; now right).
    simpl inner. rewrite (uuid_set_false e Ue), (uuid_set_false g (Ug g (or_introl eq_refl))). simpl.
    unfold id_partners. simpl filter. fold (id_partners e gs).
    destruct (cond_id (snd e) (snd g)) eqn:C; simpl.
    + right.
      assert (Hno : forall g', In g' gs -> cond_id (snd e) (snd g') = false).
      { intros g' Hg'. destruct (cond_id (snd e) (snd g')) eqn:C'; [|reflexivity].
        exfalso. apply Hnk. apply cond_id_okey in C, C'. rewrite <- C, C'. now apply in_map. }
      destruct (mem_id_remove _ _ ME) as [E' HE].
      destruct (mem_id_remove _ _ (MG g (or_introl eq_refl) C)) as [G' HG].
      exists g, E', G'. rewrite HE, HG.
      rewrite (proj2 (id_partners_nil e gs) Hno).
      repeat split; auto. apply inner_id_nomatch; auto.
    + destruct (IH R E G Ue Ug' ND' ME) as [[Hp Hi]|(g0 & E' & G' & Hp & Hg0 & Hc & HE & HG & Hi)].
      * intros; apply MG; auto; now right.
      * left. auto.
      * right. exists g0, E', G'. repeat split; auto; now right.
Qed.

Lemma remove_id_mem_other l i j l' : remove_id i l = Some l' -> j <> i -> mem_id j l = true -> mem_id j l' = true.
Proof.
  intros H Hne Hm. destruct (remove_id_split _ _ _ H) as (l1 & x & l2 & -> & -> & Hx & _).
  apply mem_id_In in Hm. apply mem_id_In. rewrite map_app in *. apply in_app_or in Hm. apply in_or_app.
  destruct Hm as [Hm|Hm]; [now left|]. simpl in Hm. destruct Hm as [Hm|Hm]; [congruence|now right].
Qed.

Lemma existsb_partners e gs :
  existsb (fun g => cond_id (snd e) (snd g)) gs = negb (match id_partners e gs with [] => true | _ => false end).
Proof.
  unfold id_partners. induction gs as [|g gs IH]; simpl; [reflexivity|].
  destruct (cond_id (snd e) (snd g)); simpl; auto.
Qed.

Lemma outer_id_spec gs : forall es A R G,
  (forall e, In e es -> uuid_set e) -> (forall g, In g gs -> uuid_set g) ->
  NoDup (map okey es) -> NoDup (map okey gs) -> NoDup (map fst es) -> NoDup (map fst gs) ->
  (forall e, In e es -> ~ In (fst e) (map fst A)) ->
  (forall e g, In e es -> In g gs -> cond_id (snd e) (snd g) = true -> mem_id (fst g) G = true) ->
  exists G', outer false cond_id es gs R (A ++ es) G = Ok (R ++ id_pairs es gs, A ++ id_unpaired es gs, G').
Proof.
  induction es as [|e es IH]; intros A R G Ue Ug NKe NKg NIe NIg HA HG.
  - exists G. simpl. now rewrite !app_nil_r.
  - inversion NKe as [|? ? Hnk NKe']; subst. inversion NIe as [|? ? Hni NIe']; subst.
    assert (ME : mem_id (fst e) (A ++ e :: es) = true).
    { apply mem_id_In. rewrite map_app. apply in_or_app. right. now left. }
    change (outer false cond_id (e :: es) gs R (A ++ e :: es) G)
      with (match inner false cond_id e gs R (A ++ e :: es) G with
            | Error x => Error x
            | Ok (R', E', G') => outer false cond_id es gs R' E' G'
            end).
    destruct (inner_id_step e gs R (A ++ e :: es) G (Ue e (or_introl eq_refl)) Ug NKg ME)
      as [[Hp Hi]|(g0 & E' & G' & Hp & Hg0 & Hc & HE & HGr & Hi)].
    { intros g Hg Hcg. apply (HG e g); auto. now left. }
    + (* no partner: e stays in the working copy *)
      rewrite Hi. cbv beta iota.
      destruct (IH (A ++ [e]) R G) as [G' HO]; auto.
      * intros; apply Ue; now right.
      * intros e' He'. rewrite map_app. intros Hin. apply in_app_or in Hin. destruct Hin as [Hin|Hin].
        -- apply (HA e'); auto. now right.
        -- simpl in Hin. destruct Hin as [Hin|[]]. apply Hni. rewrite Hin. now apply in_map.
      * intros e' g He' Hg. apply HG; auto. now right.
      * exists G'. rewrite <- app_assoc in HO. change ([e] ++ es) with (e :: es) in HO. rewrite HO.
        unfold id_pairs, id_unpaired. simpl. fold (id_pairs es gs). fold (id_unpaired es gs).
        rewrite Hp. simpl. rewrite existsb_partners, Hp. simpl. now rewrite <- app_assoc.
    + (* one partner g0: both are removed *)
      rewrite Hi. cbv beta iota.
      assert (HE' : E' = A ++ es).
      { rewrite remove_id_app_notin in HE; [congruence|]. apply HA. now left. }
      subst E'.
      destruct (IH A (R ++ [(e, Some g0)]) G') as [G'' HO]; auto.
      * intros; apply Ue; now right.
      * intros; apply HA; now right.
      * intros e' g He' Hg Hcg. eapply remove_id_mem_other; [exact HGr| |apply (HG e' g); auto; now right].
        intros Heq. assert (g = g0) by (apply (ids_inj gs); auto). subst g.
        apply Hnk. apply cond_id_okey in Hc, Hcg. rewrite Hc, <- Hcg. now apply in_map.
      * exists G''. rewrite HO.
        unfold id_pairs, id_unpaired. simpl. fold (id_pairs es gs). fold (id_unpaired es gs).
        rewrite Hp. simpl. rewrite existsb_partners, Hp. simpl. now rewrite <- app_assoc.
Qed.

Lemma okey_indexed l : map okey (indexed l) = map uuid_cam l.
Proof. rewrite <- (indexed_objs l) at 2. rewrite map_map. reflexivity. Qed.

Lemma uuid_set_indexed l : all_uuid_set l -> forall x, In x (indexed l) -> uuid_set x.
Proof.
  intros H x Hx. apply H. rewrite <- (indexed_objs l). now apply in_map.
Qed.

Theorem id_match_eq_spec ests gts :
  all_uuid_set ests -> all_uuid_set gts -> NoDup (map uuid_cam ests) -> NoDup (map uuid_cam gts) ->
  id_match ests gts = Ok (id_spec ests gts).
Proof.
  intros Ue Ug Ke Kg. unfold id_match, id_spec.
  destruct (outer_id_spec (indexed gts) (indexed ests) [] [] (indexed gts)) as [G' H].
  - now apply uuid_set_indexed.
  - now apply uuid_set_indexed.
  - now rewrite okey_indexed.
  - now rewrite okey_indexed.
  - apply indexed_NoDup.
  - apply indexed_NoDup.
  - intros e _ [].
  - intros e g _ Hg _. apply mem_id_In. now apply in_map.
  - simpl in H. rewrite H.
    destruct (Nat.ltb 0 (length (id_unpaired (indexed ests) (indexed gts))) &&
              negb (existsb (fun e => o_tlcam (snd e)) (id_unpaired (indexed ests) (indexed gts))));
      [reflexivity|now rewrite app_nil_r].
Qed.

(* the declarative description, unfolded *)
Lemma In_id_pairs es gs e g :
  In (e, Some g) (id_pairs es gs) <->
  In e es /\ In g gs /\ o_uuid (snd e) = o_uuid (snd g) /\ o_cam (snd e) = o_cam (snd g).
Proof.
  unfold id_pairs, id_partners. rewrite in_flat_map. split.
  - intros (e' & He' & Hin). apply in_map_iff in Hin. destruct Hin as (g' & Heq & Hg').
    inversion Heq; subst. apply filter_In in Hg'. destruct Hg' as [Hg' Hc]. apply cond_id_iff in Hc. tauto.
  - intros (He & Hg & Hu & Hc). exists e. split; [assumption|]. apply in_map_iff. exists g. split; [reflexivity|].
    apply filter_In. split; [assumption|]. apply cond_id_iff. tauto.
Qed.

Lemma id_pairs_all_some es gs e : ~ In (e, None) (id_pairs es gs).
Proof.
  unfold id_pairs. rewrite in_flat_map. intros (e' & _ & Hin). apply in_map_iff in Hin.
  destruct Hin as (g & Heq & _). discriminate.
Qed.

Lemma In_id_unpaired es gs e :
  In e (id_unpaired es gs) <->
  In e es /\ forall g, In g gs -> ~ (o_uuid (snd e) = o_uuid (snd g) /\ o_cam (snd e) = o_cam (snd g)).
Proof.
  unfold id_unpaired. rewrite filter_In. split.
  - intros [He Hn]. split; [assumption|]. intros g Hg Hc. apply cond_id_iff in Hc.
    apply negb_true_iff in Hn.
    assert (X : existsb (fun g0 => cond_id (snd e) (snd g0)) gs = true) by (apply existsb_exists; eauto).
    congruence.
  - intros [He Hn]. split; [assumption|]. apply negb_true_iff.
    destruct (existsb (fun g0 => cond_id (snd e) (snd g0)) gs) eqn:X; [|reflexivity]. apply existsb_exists in X. destruct X as (g & Hg & Hc).
    apply cond_id_iff in Hc. exfalso. eapply Hn; eauto.
Qed.

Lemma gts_of_fp L : gts_of (fp_results L) = [].
Proof. induction L as [|a t IH]; simpl; auto. Qed.
Lemma est_ids_fp L : est_ids (fp_results L) = map fst L.
Proof. unfold est_ids, fp_results. rewrite map_map. reflexivity. Qed.

Theorem id_match_spec ests gts :
  all_uuid_set ests -> all_uuid_set gts -> NoDup (map uuid_cam ests) -> NoDup (map uuid_cam gts) ->
  exists R, id_match ests gts = Ok R /\
    (forall e g, In (e, Some g) R <->
       In e (indexed ests) /\ In g (indexed gts) /\
       o_uuid (snd e) = o_uuid (snd g) /\ o_cam (snd e) = o_cam (snd g)) /\
    NoDup (est_ids R) /\ NoDup (gt_ids R) /\
    (forall e, In (e, None) R <->
       In e (id_unpaired (indexed ests) (indexed gts)) /\
       existsb (fun x => o_tlcam (snd x)) (id_unpaired (indexed ests) (indexed gts)) = false).
Proof.
  intros Ue Ug Ke Kg. exists (id_spec ests gts). split; [now apply id_match_eq_spec|].
  assert (Hm := id_match_eq_spec ests gts Ue Ug Ke Kg).
  unfold id_match in Hm.
  destruct (outer false cond_id (indexed ests) (indexed gts) [] (indexed ests) (indexed gts))
    as [[[R1 E1] G1]|] eqn:HO; [|discriminate].
  destruct (outer_Inv _ _ (indexed ests) (indexed gts) _ _ _ _ _ _ _ _ (indexed_NoDup ests) (indexed_NoDup gts)
                      (incl_refl _) (incl_refl _) (Inv_init _ _) HO) as [[PE PG] _].
  destruct (outer_id_spec (indexed gts) (indexed ests) [] [] (indexed gts)) as [G' H];
    try (now apply uuid_set_indexed); try (now rewrite okey_indexed); try apply indexed_NoDup.
  { intros e _ []. }
  { intros e g _ Hg _. apply mem_id_In. now apply in_map. }
  simpl in H. rewrite H in HO. inversion HO; subst R1 E1 G1. clear HO Hm H.
  assert (NDE : NoDup (map fst (map fst (id_pairs (indexed ests) (indexed gts))) ++ map fst (id_unpaired (indexed ests) (indexed gts)))).
  { rewrite <- map_app. eapply Permutation_NoDup; [apply Permutation_map; exact PE|apply indexed_NoDup]. }
  assert (NDG : NoDup (gt_ids (id_pairs (indexed ests) (indexed gts)))).
  { unfold gt_ids. destruct (perm_facts _ _ _ (indexed_NoDup gts) PG) as (N & _). exact N. }
  unfold id_spec.
  set (L := id_unpaired (indexed ests) (indexed gts)) in *.
  set (PR := id_pairs (indexed ests) (indexed gts)) in *.
  set (FP := if Nat.ltb 0 (length L) && negb (existsb (fun e => o_tlcam (snd e)) L) then fp_results L else []).
  assert (Fa : forall e g, ~ In (e, Some g) FP).
  { intros e g Hin. unfold FP in Hin. destruct (_ && _) in Hin; [|contradiction].
    unfold fp_results in Hin. apply in_map_iff in Hin. destruct Hin as (? & Heq & _). discriminate. }
  assert (Fb : forall e, In (e, None) FP <-> In e L /\ existsb (fun x => o_tlcam (snd x)) L = false).
  { intros e. unfold FP. destruct (Nat.ltb 0 (length L) && negb (existsb (fun e => o_tlcam (snd e)) L)) eqn:Hc.
    - apply andb_true_iff in Hc. destruct Hc as [_ Hc]. apply negb_true_iff in Hc. split.
      + intros Hin. unfold fp_results in Hin. apply in_map_iff in Hin. destruct Hin as (x & Heq & Hx).
        inversion Heq; subst. auto.
      + intros [Hin _]. unfold fp_results. apply in_map_iff. exists e. auto.
    - split; [intros []|]. intros [Hin Hex]. apply andb_false_iff in Hc. destruct Hc as [Hc|Hc].
      + apply Nat.ltb_ge in Hc. destruct L; [contradiction|simpl in Hc; lia].
      + rewrite Hex in Hc. discriminate. }
  assert (Fc : est_ids FP = map fst L \/ est_ids FP = []).
  { unfold FP. destruct (_ && _); [left; apply est_ids_fp|right; reflexivity]. }
  assert (Fd : gts_of FP = []).
  { unfold FP. destruct (_ && _); [apply gts_of_fp|reflexivity]. }
  split; [|split; [|split]].
  - intros e g. split.
    + intros Hin. apply in_app_or in Hin. destruct Hin as [Hin|Hin]; [now apply In_id_pairs in Hin|].
      exfalso. eapply Fa; eauto.
    + intros Hs. apply in_or_app. left. now apply In_id_pairs.
  - rewrite est_ids_app, est_ids_map. destruct Fc as [-> | ->]; [exact NDE|].
    rewrite app_nil_r. eapply NoDup_app_l; exact NDE.
  - rewrite gt_ids_app. unfold gt_ids at 2. rewrite Fd. simpl. rewrite app_nil_r. exact NDG.
  - intros e. rewrite <- Fb. split.
    + intros Hin. apply in_app_or in Hin. destruct Hin as [Hin|Hin]; [exfalso; eapply id_pairs_all_some; eauto|auto].
    + intros Hin. apply in_or_app. now right.
Qed.

(* ------------------------------------------------------------------------------------------ *)
(* scores                                                                                      *)
(* ------------------------------------------------------------------------------------------ *)
Definition TPs (rs : list result) : nat := cnt is_label_correct rs.
Definition FPs (rs : list result) : nat := cnt (fun r => negb (is_label_correct r)) rs.

Lemma tp_fp_spec : forall rs a b, tp_fp rs a b = (a + TPs rs, b + FPs rs).
Proof.
  unfold TPs, FPs, cnt. induction rs as [|r t IH]; intros a b; simpl.
  - now rewrite !Nat.add_0_r.
  - destruct (is_label_correct r); simpl; rewrite IH; f_equal; lia.
Qed.

Lemma TPs_FPs rs : TPs rs + FPs rs = length rs.
Proof.
  unfold TPs, FPs, cnt. induction rs as [|r t IH]; simpl; auto.
  destruct (is_label_correct r); simpl; lia.
Qed.

Lemma TPs_le rs : TPs rs <= length rs.
Proof. apply cnt_le_length. Qed.

(* s is num/den, or inf when den = 0 *)
Definition is_ratio (s : score) (num den : Q) : Prop :=
  (den == 0 -> s = Inf)%Q /\ (~ den == 0 -> exists q, s = Fin q /\ q == num / den)%Q.

Lemma is_ratio_den s n d d' : (d == d')%Q -> is_ratio s n d -> is_ratio s n d'.
Proof.
  intros E [H1 H2]. split.
  - intros H. apply H1. now rewrite E.
  - intros H. destruct H2 as (q & -> & Hq); [now rewrite E|]. exists q. split; [reflexivity|]. now rewrite <- E.
Qed.

Lemma inject_Z_zero d : (inject_Z d == 0)%Q <-> d = 0%Z.
Proof.
  split; [|intros ->; reflexivity]. intros H. unfold Qeq, inject_Z in H. simpl in H. lia.
Qed.

Lemma ratio_is_ratio a d : is_ratio (ratio a d) (Qnat a) (inject_Z d).
Proof.
  unfold ratio, is_ratio. destruct (Z.eqb_spec d 0) as [->|Hd]; split; intros H.
  - reflexivity.
  - exfalso. apply H. reflexivity.
  - exfalso. apply Hd. now apply inject_Z_zero.
  - eexists; split; reflexivity.
Qed.

Lemma inject_Z_sub a b : (inject_Z (a - b) == inject_Z a - inject_Z b)%Q.
Proof. unfold Z.sub. rewrite inject_Z_plus, inject_Z_opp. reflexivity. Qed.

Lemma Qnat_zero n : (Qnat n == 0)%Q <-> n = 0.
Proof. unfold Qnat. rewrite inject_Z_zero. lia. Qed.

Lemma accuracy_is_ratio N G TP :
  is_ratio (accuracy_of N G TP) (Qnat TP) (Qnat N + Qnat G - Qnat TP).
Proof.
  unfold accuracy_of. eapply is_ratio_den; [|apply ratio_is_ratio].
  rewrite inject_Z_sub, inject_Z_plus. reflexivity.
Qed.

Definition in_unit (s : score) : Prop := match s with Fin q => (0 <= q /\ q <= 1)%Q | _ => True end.

Lemma ratio_unit a d : (Z.of_nat a <= d)%Z -> in_unit (ratio a d).
Proof.
  intros H. unfold ratio. destruct (Z.eqb_spec d 0) as [->|Hd]; simpl; [exact I|].
  assert (Hp : (0 < inject_Z d)%Q) by (change 0%Q with (inject_Z 0); rewrite <- Zlt_Qlt; lia).
  split.
  - apply Qdiv_nonneg; [apply Qnat_nonneg|exact Hp].
  - apply Qdiv_le_1; [exact Hp|]. unfold Qnat. rewrite <- Zle_Qle. exact H.
Qed.

Lemma f1_num_le p r : (0 <= p <= 1 -> 0 <= r <= 1 -> 0 <= (1 + 1) * p * r /\ (1 + 1) * p * r <= 1 * p + r)%Q.
Proof. intros [? ?] [? ?]. split; nra. Qed.

Lemma f1_accuracy_unit p r : in_unit p -> in_unit r -> in_unit (f1_accuracy p r).
Proof.
  destruct p as [p| |], r as [r| |]; simpl; auto. intros Hp Hr.
  destruct (Qeqb_spec (1 * p + r) 0) as [E|NE]; simpl; [exact I|].
  destruct (f1_num_le p r Hp Hr) as [H1 H2].
  assert (0 < 1 * p + r)%Q by (destruct Hp, Hr; destruct (Qlt_le_dec 0 (1 * p + r)); [assumption|exfalso; apply NE; lra]).
  split; [apply Qdiv_nonneg|apply Qdiv_le_1]; assumption.
Qed.

Lemma f1_summary_unit p r : in_unit p -> in_unit r -> in_unit (f1_summary p r).
Proof.
  destruct p as [p| |], r as [r| |]; simpl; auto. intros Hp Hr.
  destruct (Qeqb_spec (p + r) 0) as [E|NE]; simpl; [exact I|].
  destruct (f1_num_le p r Hp Hr) as [H1 H2].
  assert (0 < p + r)%Q by (destruct Hp, Hr; destruct (Qlt_le_dec 0 (p + r)); [assumption|exfalso; apply NE; lra]).
  split; [apply Qdiv_nonneg|apply Qdiv_le_1]; try assumption; lra.
Qed.

(* F1 of precision t/n and recall t/g is 2t/(n+g) *)
Lemma f1_counting (t n g : Q) : (0 < t -> 0 < n -> 0 < g ->
  (1 + 1) * (t / n) * (t / g) / (1 * (t / n) + t / g) == 2 * t / (n + g))%Q.
Proof. intros. field. repeat split; nra. Qed.

Lemma f1_counting' (t n g : Q) : (0 < t -> 0 < n -> 0 < g ->
  2 * (t / n) * (t / g) / (t / n + t / g) == 2 * t / (n + g))%Q.
Proof. intros. field. repeat split; nra. Qed.

Lemma pr_sum_pos (t n g : Q) : (0 < t -> 0 < n -> 0 < g -> 0 < t / n + t / g)%Q.
Proof.
  intros. assert (0 < t / n)%Q by (apply Qlt_shift_div_l; lra). assert (0 < t / g)%Q by (apply Qlt_shift_div_l; lra). lra.
Qed.

Lemma classification_accuracy_fields rs g :
  classification_accuracy rs g =
  mkAcc (length rs) g (TPs rs) (FPs rs) (accuracy_of (length rs) g (TPs rs))
        (ratio (TPs rs) (Z.of_nat (length rs))) (ratio (TPs rs) (Z.of_nat g))
        (f1_accuracy (ratio (TPs rs) (Z.of_nat (length rs))) (ratio (TPs rs) (Z.of_nat g))).
Proof. unfold classification_accuracy. rewrite tp_fp_spec. reflexivity. Qed.

Lemma Qnat_pos' n : n <> 0 -> (0 < Qnat n)%Q.
Proof. intros. apply Qnat_pos. lia. Qed.

Lemma zero_div x : (Qnat 0 / x == 0)%Q.
Proof. unfold Qdiv. change (Qnat 0) with 0%Q. ring. Qed.

(* the two F1 formulas on precision = TP/N and recall = TP/G *)
Lemma f1_accuracy_counts TP N G :
  ((N = 0 \/ G = 0 \/ TP = 0) -> f1_accuracy (ratio TP (Z.of_nat N)) (ratio TP (Z.of_nat G)) = Inf) /\
  (N <> 0 -> G <> 0 -> TP <> 0 ->
   exists q, f1_accuracy (ratio TP (Z.of_nat N)) (ratio TP (Z.of_nat G)) = Fin q /\
             (q == 2 * Qnat TP / (Qnat N + Qnat G))%Q).
Proof.
  unfold ratio.
  destruct (Z.eqb_spec (Z.of_nat N) 0) as [EN|NN]; [split; [reflexivity|intros; lia]|].
  destruct (Z.eqb_spec (Z.of_nat G) 0) as [EG|NG]; [split; [reflexivity|intros; lia]|].
  fold (Qnat N). fold (Qnat G). simpl f1_accuracy.
  assert (HN : (0 < Qnat N)%Q) by (apply Qnat_pos; lia).
  assert (HG : (0 < Qnat G)%Q) by (apply Qnat_pos; lia).
  destruct (Nat.eq_dec TP 0) as [->|NT].
  - split; [|intros; lia]. intros _.
    destruct (Qeqb_spec (1 * (Qnat 0 / Qnat N) + Qnat 0 / Qnat G) 0) as [E|NE]; [reflexivity|].
    exfalso. apply NE. rewrite !zero_div. ring.
  - assert (HT : (0 < Qnat TP)%Q) by (apply Qnat_pos; lia).
    split; [intros [?|[?|?]]; lia|]. intros _ _ _.
    destruct (Qeqb_spec (1 * (Qnat TP / Qnat N) + Qnat TP / Qnat G) 0) as [E|NE].
    + exfalso. assert (X := pr_sum_pos _ _ _ HT HN HG). lra.
    + eexists. split; [reflexivity|]. apply f1_counting; assumption.
Qed.

Lemma f1_summary_counts TP FP N G : TP + FP = N ->
  ((N = 0 \/ G = 0) -> f1_summary (ratio TP (Z.of_nat TP + Z.of_nat FP)) (ratio TP (Z.of_nat G)) = NaN) /\
  (N <> 0 -> G <> 0 -> TP = 0 -> f1_summary (ratio TP (Z.of_nat TP + Z.of_nat FP)) (ratio TP (Z.of_nat G)) = Inf) /\
  (N <> 0 -> G <> 0 -> TP <> 0 ->
   exists q, f1_summary (ratio TP (Z.of_nat TP + Z.of_nat FP)) (ratio TP (Z.of_nat G)) = Fin q /\
             (q == 2 * Qnat TP / (Qnat N + Qnat G))%Q).
Proof.
  intros HS. replace (Z.of_nat TP + Z.of_nat FP)%Z with (Z.of_nat N) by lia. unfold ratio.
  destruct (Z.eqb_spec (Z.of_nat N) 0) as [EN|NN].
  { split; [reflexivity|]. split; intros; lia. }
  destruct (Z.eqb_spec (Z.of_nat G) 0) as [EG|NG].
  { split; [reflexivity|]. split; intros; lia. }
  fold (Qnat N). fold (Qnat G). simpl f1_summary.
  assert (HN : (0 < Qnat N)%Q) by (apply Qnat_pos; lia).
  assert (HG : (0 < Qnat G)%Q) by (apply Qnat_pos; lia).
  split; [intros [?|?]; lia|].
  destruct (Nat.eq_dec TP 0) as [->|NT].
  - split; [|intros; lia]. intros _ _ _.
    destruct (Qeqb_spec (Qnat 0 / Qnat N + Qnat 0 / Qnat G) 0) as [E|NE]; [reflexivity|].
    exfalso. apply NE. rewrite !zero_div. ring.
  - assert (HT : (0 < Qnat TP)%Q) by (apply Qnat_pos; lia).
    split; [intros; lia|]. intros _ _ _.
    destruct (Qeqb_spec (Qnat TP / Qnat N + Qnat TP / Qnat G) 0) as [E|NE].
    + exfalso. assert (X := pr_sum_pos _ _ _ HT HN HG). lra.
    + eexists. split; [reflexivity|]. apply f1_counting'; assumption.
Qed.

(* ---- ClassificationAccuracy -------------------------------------------------------------- *)
Theorem accuracy_counting_defs rs g :
  let a := classification_accuracy rs g in
  let N := length rs in
  let TP := TPs rs in
  a_num_res a = N /\ a_num_gt a = g /\ a_tp a = TP /\ a_fp a = FPs rs /\ TP + FPs rs = N /\
  is_ratio (a_accuracy a) (Qnat TP) (Qnat N + Qnat g - Qnat TP) /\
  is_ratio (a_precision a) (Qnat TP) (Qnat N) /\
  is_ratio (a_recall a) (Qnat TP) (Qnat g) /\
  ((N = 0 \/ g = 0 \/ TP = 0) -> a_f1 a = Inf) /\
  (N <> 0 -> g <> 0 -> TP <> 0 -> exists q, a_f1 a = Fin q /\ (q == 2 * Qnat TP / (Qnat N + Qnat g))%Q).
Proof.
  cbv zeta. rewrite classification_accuracy_fields. simpl.
  repeat split; auto using TPs_FPs; try apply accuracy_is_ratio; try apply ratio_is_ratio;
    try apply (proj1 (f1_accuracy_counts _ _ _)); try apply (proj2 (f1_accuracy_counts _ _ _)).
  all: try (destruct (accuracy_is_ratio (length rs) g (TPs rs)) as [A B]; assumption).
  all: try (destruct (ratio_is_ratio (TPs rs) (Z.of_nat (length rs))) as [A B]; assumption).
  all: try (destruct (ratio_is_ratio (TPs rs) (Z.of_nat g)) as [A B]; assumption).
Qed.

Definition acc_in_unit (a : accuracy) : Prop :=
  in_unit (a_accuracy a) /\ in_unit (a_precision a) /\ in_unit (a_recall a) /\ in_unit (a_f1 a).

Theorem accuracy_unit_interval rs g :
  TPs rs <= g -> acc_in_unit (classification_accuracy rs g).
Proof.
  intros H. rewrite classification_accuracy_fields. unfold acc_in_unit. simpl.
  assert (H2 := TPs_le rs).
  assert (P : in_unit (ratio (TPs rs) (Z.of_nat (length rs)))) by (apply ratio_unit; lia).
  assert (R : in_unit (ratio (TPs rs) (Z.of_nat g))) by (apply ratio_unit; lia).
  repeat split; auto.
  - unfold accuracy_of. apply ratio_unit. lia.
  - now apply f1_accuracy_unit.
Qed.

Definition is_one (s : score) : Prop := exists q, s = Fin q /\ (q == 1)%Q.

Theorem accuracy_all_one_when_perfect rs g :
  0 < g -> length rs = g -> (forall r, In r rs -> is_label_correct r = true) ->
  let a := classification_accuracy rs g in
  is_one (a_accuracy a) /\ is_one (a_precision a) /\ is_one (a_recall a) /\ is_one (a_f1 a).
Proof.
  intros Hg HL Hall. cbv zeta.
  assert (HT : TPs rs = g) by (unfold TPs; rewrite cnt_all; auto).
  destruct (accuracy_counting_defs rs g) as (_ & _ & _ & _ & _ & [_ A] & [_ P] & [_ R] & _ & F).
  cbv zeta in *. rewrite HL, HT in *.
  assert (Hq : (0 < Qnat g)%Q) by (apply Qnat_pos; lia).
  unfold is_one. repeat split.
  - destruct A as (q & -> & Hq'); [lra|]. exists q. split; [reflexivity|]. rewrite Hq'. field. lra.
  - destruct P as (q & -> & Hq'); [lra|]. exists q. split; [reflexivity|]. rewrite Hq'. field. lra.
  - destruct R as (q & -> & Hq'); [lra|]. exists q. split; [reflexivity|]. rewrite Hq'. field. lra.
  - destruct F as (q & -> & Hq'); try lia. exists q. split; [reflexivity|]. rewrite Hq'. field. lra.
Qed.

(* ---- ClassificationMetricsScore._summarize ------------------------------------------------ *)
Definition Ntot (T : list nat) (rs : list result) : nat := list_sum (map (fun t => length (divide T rs t)) T).
Definition Gtot (T : list nat) (gts : list obj) : nat := list_sum (map (num_gt_of gts) T).
Definition TPtot (T : list nat) (rs : list result) : nat := list_sum (map (fun t => TPs (divide T rs t)) T).
Definition FPtot (T : list nat) (rs : list result) : nat := list_sum (map (fun t => FPs (divide T rs t)) T).

Lemma sum_by_map {A} (f : accuracy -> nat) (h : A -> accuracy) l :
  sum_by f (map h l) = list_sum (map (fun t => f (h t)) l).
Proof. induction l as [|a t IH]; simpl; auto. Qed.

Lemma TPtot_FPtot T' T rs :
  list_sum (map (fun t => TPs (divide T rs t)) T') + list_sum (map (fun t => FPs (divide T rs t)) T')
  = list_sum (map (fun t => length (divide T rs t)) T').
Proof.
  induction T' as [|t T' IH]; simpl; auto. rewrite <- IH, <- (TPs_FPs (divide T rs t)). lia.
Qed.

Lemma summarize_fields T rs gts :
  summarize (accuracies T rs gts) =
  (accuracy_of (Ntot T rs) (Gtot T gts) (TPtot T rs),
   ratio (TPtot T rs) (Z.of_nat (TPtot T rs) + Z.of_nat (FPtot T rs)),
   ratio (TPtot T rs) (Z.of_nat (Gtot T gts)),
   f1_summary (ratio (TPtot T rs) (Z.of_nat (TPtot T rs) + Z.of_nat (FPtot T rs)))
              (ratio (TPtot T rs) (Z.of_nat (Gtot T gts)))).
Proof.
  unfold summarize, accuracies, Ntot, Gtot, TPtot, FPtot. rewrite !sum_by_map.
  assert (E : forall (f : accuracy -> nat) (h : nat -> nat),
             (forall t, f (classification_accuracy (divide T rs t) (num_gt_of gts t)) = h t) ->
             list_sum (map (fun t => f (classification_accuracy (divide T rs t) (num_gt_of gts t))) T)
             = list_sum (map h T)).
  { intros f h Hf. f_equal. apply map_ext. exact Hf. }
  rewrite (E a_num_res (fun t => length (divide T rs t))),
          (E a_num_gt (num_gt_of gts)),
          (E a_tp (fun t => TPs (divide T rs t))),
          (E a_fp (fun t => FPs (divide T rs t)));
    try (intros t; rewrite classification_accuracy_fields; reflexivity).
  reflexivity.
Qed.

Theorem summary_counting_defs T rs gts a p r f :
  summarize (accuracies T rs gts) = (a, p, r, f) ->
  let N := Ntot T rs in let G := Gtot T gts in let TP := TPtot T rs in
  TP + FPtot T rs = N /\
  is_ratio a (Qnat TP) (Qnat N + Qnat G - Qnat TP) /\
  is_ratio p (Qnat TP) (Qnat N) /\
  is_ratio r (Qnat TP) (Qnat G) /\
  ((N = 0 \/ G = 0) -> f = NaN) /\
  (N <> 0 -> G <> 0 -> TP = 0 -> f = Inf) /\
  (N <> 0 -> G <> 0 -> TP <> 0 -> exists q, f = Fin q /\ (q == 2 * Qnat TP / (Qnat N + Qnat G))%Q).
Proof.
  rewrite summarize_fields. intros H. inversion H; subst a p r f; clear H. cbv zeta.
  assert (HS : TPtot T rs + FPtot T rs = Ntot T rs) by apply TPtot_FPtot.
  split; [exact HS|]. split; [apply accuracy_is_ratio|]. split.
  { eapply is_ratio_den; [|apply ratio_is_ratio]. rewrite inject_Z_plus. fold (Qnat (TPtot T rs)). fold (Qnat (FPtot T rs)).
    rewrite <- Qnat_plus, HS. reflexivity. }
  split; [apply ratio_is_ratio|].
  exact (f1_summary_counts _ _ _ (Gtot T gts) HS).
Qed.

Theorem summary_unit_interval T rs gts a p r f :
  summarize (accuracies T rs gts) = (a, p, r, f) ->
  TPtot T rs <= Gtot T gts ->
  in_unit a /\ in_unit p /\ in_unit r /\ in_unit f.
Proof.
  rewrite summarize_fields. intros H HL. inversion H; subst a p r f; clear H.
  assert (HS : TPtot T rs + FPtot T rs = Ntot T rs) by apply TPtot_FPtot.
  assert (P : in_unit (ratio (TPtot T rs) (Z.of_nat (TPtot T rs) + Z.of_nat (FPtot T rs)))) by (apply ratio_unit; lia).
  assert (R : in_unit (ratio (TPtot T rs) (Z.of_nat (Gtot T gts)))) by (apply ratio_unit; lia).
  repeat split; auto.
  - unfold accuracy_of. apply ratio_unit. lia.
  - now apply f1_summary_unit.
Qed.

Theorem summary_all_one_when_perfect T rs gts a p r f :
  summarize (accuracies T rs gts) = (a, p, r, f) ->
  0 < Gtot T gts -> Ntot T rs = Gtot T gts -> TPtot T rs = Gtot T gts ->
  is_one a /\ is_one p /\ is_one r /\ is_one f.
Proof.
  intros H Hg HN HT.
  destruct (summary_counting_defs T rs gts a p r f H) as (_ & [_ A] & [_ P] & [_ R] & _ & _ & F).
  cbv zeta in *. rewrite HN, HT in *.
  assert (Hq : (0 < Qnat (Gtot T gts))%Q) by (apply Qnat_pos; lia).
  unfold is_one. repeat split.
  - destruct A as (q & -> & Hq'); [lra|]. exists q. split; [reflexivity|]. rewrite Hq'. field. lra.
  - destruct P as (q & -> & Hq'); [lra|]. exists q. split; [reflexivity|]. rewrite Hq'. field. lra.
  - destruct R as (q & -> & Hq'); [lra|]. exists q. split; [reflexivity|]. rewrite Hq'. field. lra.
  - destruct F as (q & -> & Hq'); try lia. exists q. split; [reflexivity|]. rewrite Hq'. field. lra.
Qed.

(* ---- TP never exceeds the number of ground truths for the matchers' outputs ---------------- *)
Lemma TPs_le_gts_of rs : TPs rs <= length (gts_of rs).
Proof.
  unfold TPs, cnt. induction rs as [|r t IH]; simpl; auto.
  unfold is_label_correct at 1. destruct (snd r); simpl; [|exact IH].
  destruct (o_fp (snd i) || label_eqb (snd (fst r)) (snd i)); simpl; lia.
Qed.

Lemma tp_le_gt gts R :
  NoDup (gt_ids R) -> (forall e g, In (e, Some g) R -> In g (indexed gts)) -> TPs R <= length gts.
Proof.
  intros ND Hin. eapply Nat.le_trans; [apply TPs_le_gts_of|].
  assert (X : length (map fst (gts_of R)) <= length (map fst (indexed gts))).
  2:{ rewrite !map_length, indexed_length in X. exact X. }
  apply NoDup_incl_length; [exact ND|].
  intros i Hi. apply in_map_iff in Hi. destruct Hi as (g & <- & Hg). apply in_map.
  unfold gts_of in Hg. apply in_flat_map in Hg. destruct Hg as (r & Hr & Hg).
  destruct r as [e [g'|]]; simpl in Hg; [|contradiction]. destruct Hg as [<-|[]]. eapply Hin; eauto.
Qed.

Theorem tlr_tp_le_gt uf ests gts R : tlr_match uf ests gts = Ok R -> TPs R <= length gts.
Proof.
  intros H. destruct (tlr_one_to_one _ _ _ _ H) as (_ & ND & Hp). apply tp_le_gt; [exact ND|].
  intros e g Hin. destruct (Hp _ Hin) as (e' & g' & Heq & _ & Hg). inversion Heq; subst. exact Hg.
Qed.

Theorem id_tp_le_gt ests gts :
  all_uuid_set ests -> all_uuid_set gts -> NoDup (map uuid_cam ests) -> NoDup (map uuid_cam gts) ->
  exists R, id_match ests gts = Ok R /\ TPs R <= length gts.
Proof.
  intros Ue Ug Ke Kg. destruct (id_match_spec ests gts Ue Ug Ke Kg) as (R & HR & Hp & _ & ND & _).
  exists R. split; [exact HR|]. apply tp_le_gt; [exact ND|]. intros e g Hin. apply Hp in Hin. tauto.
Qed.

(* ---- the dispatch of get_object_results ---------------------------------------------------- *)
Lemma get_results_no_estimates tlr uf gts : get_object_results tlr uf [] gts = Ok [].
Proof. reflexivity. Qed.

Lemma get_results_no_ground_truth tlr uf ests :
  ests <> [] -> get_object_results tlr uf ests [] = Ok (fp_results (indexed ests)).
Proof. destruct ests; [congruence|reflexivity]. Qed.

Lemma get_results_dispatch tlr uf ests gts :
  ests <> [] -> gts <> [] ->
  get_object_results tlr uf ests gts = if tlr then tlr_match uf ests gts else id_match ests gts.
Proof. destruct ests; [congruence|]. destruct gts; [congruence|reflexivity]. Qed.

(* ---- success and rejection ------------------------------------------------------------------ *)
Lemma inner_guard_ok cond e : forall gs R E G,
  uuid_set e -> (forall g, In g gs -> uuid_set g) ->
  exists st, inner true cond e gs R E G = Ok st.
Proof.
  induction gs as [|g gs IH]; intros R E G Ue Ug; simpl; [eauto|].
  rewrite (uuid_set_false e Ue), (uuid_set_false g (Ug g (or_introl eq_refl))). simpl.
  assert (Ug' : forall g', In g' gs -> uuid_set g') by (intros; apply Ug; now right).
  destruct (cond (snd e) (snd g) && (mem_id (fst e) E && mem_id (fst g) G)) eqn:Hc; [|apply IH; auto].
  apply andb_true_iff in Hc. destruct Hc as [_ Hc]. apply andb_true_iff in Hc. destruct Hc as [H1 H2].
  destruct (mem_id_remove _ _ H1) as [E1 ->]. destruct (mem_id_remove _ _ H2) as [G1 ->]. apply IH; auto.
Qed.

Lemma outer_guard_ok cond gs : forall es R E G,
  (forall e, In e es -> uuid_set e) -> (forall g, In g gs -> uuid_set g) ->
  exists st, outer true cond es gs R E G = Ok st.
Proof.
  induction es as [|e es IH]; intros R E G Ue Ug; simpl; [eauto|].
  destruct (inner_guard_ok cond e gs R E G (Ue e (or_introl eq_refl)) Ug) as [[[R1 E1] G1] ->].
  apply IH; auto. intros; apply Ue; now right.
Qed.

Theorem tlr_match_ok uf ests gts :
  all_uuid_set ests -> all_uuid_set gts -> exists R, tlr_match uf ests gts = Ok R.
Proof.
  intros Ue Ug. unfold tlr_match, tlr_stage1.
  destruct (outer_guard_ok (cond_label uf) (indexed gts) (indexed ests) [] (indexed ests) (indexed gts))
    as [[[R1 E1] G1] H1]; try (now apply uuid_set_indexed).
  rewrite H1. destruct (outer_shrink _ _ _ _ _ _ _ _ _ _ H1) as [I1 I2].
  destruct (outer_guard_ok cond_id G1 E1 R1 E1 G1) as [[[R2 E2] G2] H2].
  - intros e He. apply (uuid_set_indexed ests Ue). auto.
  - intros g Hg. apply (uuid_set_indexed gts Ug). auto.
  - rewrite H2. eauto.
Qed.

Lemma inner_ok_uuid guard cond e : forall gs R E G st,
  inner guard cond e gs R E G = Ok st -> forall g, In g gs -> uuid_set e /\ uuid_set g.
Proof.
  induction gs as [|g0 gs IH]; intros R E G st H g Hg; simpl in *; [contradiction|].
  destruct (uuid_is_none e || uuid_is_none g0) eqn:Hu; [discriminate|].
  apply orb_false_iff in Hu. destruct Hu as [H1 H2].
  assert (X : uuid_set e /\ uuid_set g0).
  { unfold uuid_set, uuid_is_none in *. destruct (o_uuid (snd e)), (o_uuid (snd g0)); try discriminate.
    split; discriminate. }
  destruct Hg as [<-|Hg]; [exact X|].
  destruct (cond (snd e) (snd g0) && (if guard then mem_id (fst e) E && mem_id (fst g0) G else true)).
  - destruct (remove_id (fst e) E); [|discriminate]. destruct (remove_id (fst g0) G); [|discriminate]. eauto.
  - eauto.
Qed.

Lemma outer_ok_uuid guard cond gs : forall es R E G st,
  outer guard cond es gs R E G = Ok st -> forall e g, In e es -> In g gs -> uuid_set e /\ uuid_set g.
Proof.
  induction es as [|e0 es IH]; intros R E G st H e g He Hg; simpl in *; [contradiction|].
  destruct (inner guard cond e0 gs R E G) as [[[R1 E1] G1]|] eqn:Hi; [|discriminate].
  destruct He as [<-|He]; [eapply inner_ok_uuid; eauto|eauto].
Qed.

(* an object without uuid is never silently accepted (both lists non-empty, so that the loops look at it) *)
Theorem uuid_none_rejected tlr uf ests gts R :
  ests <> [] -> gts <> [] -> get_object_results tlr uf ests gts = Ok R ->
  all_uuid_set ests /\ all_uuid_set gts.
Proof.
  intros He Hg H. rewrite get_results_dispatch in H; auto.
  assert (X : exists guard cond st, outer guard cond (indexed ests) (indexed gts) [] (indexed ests) (indexed gts) = Ok st).
  { destruct tlr.
    - unfold tlr_match, tlr_stage1 in H.
      destruct (outer true (cond_label uf) (indexed ests) (indexed gts) [] (indexed ests) (indexed gts)) eqn:H1;
        [eauto|discriminate].
    - unfold id_match in H.
      destruct (outer false cond_id (indexed ests) (indexed gts) [] (indexed ests) (indexed gts)) eqn:H1;
        [eauto|discriminate]. }
  destruct X as (guard & cond & st & HO).
  assert (Hall := outer_ok_uuid _ _ _ _ _ _ _ _ HO).
  destruct ests as [|e0 ests']; [congruence|]. destruct gts as [|g0 gts']; [congruence|].
  split; intros o Ho.
  - apply In_nth_error in Ho. destruct Ho as [i Hi]. apply In_indexed in Hi.
    apply (Hall (i, o) (0, g0)); [exact Hi|now left].
  - apply In_nth_error in Ho. destruct Ho as [i Hi]. apply In_indexed in Hi.
    apply (Hall (0, e0) (i, o)); [now left|exact Hi].
Qed.

(* ---- per label: TP never exceeds the number of ground truths of that label ------------------- *)
Lemma gts_of_filter_incl f R : incl (gts_of (filter f R)) (gts_of R).
Proof.
  induction R as [|r R IH]; simpl; [apply incl_refl|].
  destruct (f r); simpl.
  - intros x Hx. apply in_app_or in Hx. apply in_or_app. destruct Hx; [now left|right; auto].
  - intros x Hx. apply in_or_app. right. auto.
Qed.

Lemma gts_of_filter_NoDup f R : NoDup (map fst (gts_of R)) -> NoDup (map fst (gts_of (filter f R))).
Proof.
  induction R as [|r R IH]; simpl; intros ND; [constructor|].
  rewrite map_app in ND.
  assert (ND' := NoDup_app_r _ _ ND).
  destruct (f r); simpl; [|auto].
  rewrite map_app. destruct (snd r) as [g|]; simpl in *; [|auto].
  inversion ND as [|? ? Hn _]; subst. constructor; [|auto].
  intros Hin. apply Hn. apply in_map_iff in Hin. destruct Hin as (x & Hx & Hin).
  apply in_map_iff. exists x. split; [assumption|]. now apply gts_of_filter_incl in Hin.
Qed.

Lemma all_correct_length L : (forall r, In r L -> is_label_correct r = true) -> length L = length (gts_of L).
Proof.
  induction L as [|r L IH]; simpl; intros H; [reflexivity|].
  assert (Hr := H r (or_introl eq_refl)). unfold is_label_correct in Hr.
  rewrite app_length. destruct (snd r); [|discriminate]. simpl. f_equal. apply IH. auto.
Qed.

Lemma filter_indexed_length (f : obj -> bool) : forall l k,
  length (filter (fun x : iobj => f (snd x)) (indexed_from k l)) = length (filter f l).
Proof. induction l as [|o t IH]; intros k; simpl; auto. destruct (f o); simpl; auto. Qed.

Lemma mem_nat_In x l : mem_nat x l = true <-> In x l.
Proof.
  induction l as [|y t IH]; simpl; [split; [discriminate|tauto]|].
  destruct (Nat.eqb_spec y x); [tauto|]. rewrite IH. split; [tauto|]. intros [?|?]; [contradiction|assumption].
Qed.

Lemma bucket_tp_le T R gts t :
  In t T -> (forall g, In g gts -> o_fp g = false) ->
  NoDup (gt_ids R) -> (forall e g, In (e, Some g) R -> In g (indexed gts)) ->
  TPs (divide T R t) <= num_gt_of gts t.
Proof.
  intros Ht Hfp ND Hin. unfold TPs, cnt, divide, num_gt_of.
  set (b := fun r : result => match bucket_label T r with Some l => Nat.eqb l t | None => false end).
  set (Rt := filter is_label_correct (filter b R)).
  rewrite (all_correct_length Rt) by (intros r Hr; apply filter_In in Hr; tauto).
  rewrite <- (filter_indexed_length (fun g => Nat.eqb (o_label g) t) gts 0). fold (indexed gts).
  assert (X : length (map fst (gts_of Rt))
               <= length (map fst (filter (fun x : iobj => Nat.eqb (o_label (snd x)) t) (indexed gts)))).
  2:{ rewrite !map_length in X. exact X. }
  apply NoDup_incl_length.
  - unfold Rt. apply gts_of_filter_NoDup, gts_of_filter_NoDup. exact ND.
  - intros i Hi. apply in_map_iff in Hi. destruct Hi as (g & <- & Hg). apply in_map.
    unfold gts_of in Hg. apply in_flat_map in Hg. destruct Hg as (r & Hr & Hg).
    destruct r as [e [g'|]]; simpl in Hg; [|contradiction]. destruct Hg as [<-|[]].
    apply filter_In in Hr. destruct Hr as [Hr Hc]. apply filter_In in Hr. destruct Hr as [Hr Hb].
    assert (Hg' := Hin _ _ Hr). apply filter_In. split; [exact Hg'|].
    assert (Hfp' : o_fp (snd g') = false).
    { apply Hfp. rewrite <- (indexed_objs gts). now apply in_map. }
    unfold is_label_correct in Hc. simpl in Hc. rewrite Hfp' in Hc. simpl in Hc.
    unfold label_eqb in Hc. apply Nat.eqb_eq in Hc.
    unfold b, bucket_label in Hb. simpl in Hb.
    destruct (mem_nat (o_label (snd e)) T) eqn:M.
    + rewrite <- Hc. exact Hb.
    + exact Hb.
Qed.

Lemma list_sum_le (f g : nat -> nat) T : (forall t, In t T -> f t <= g t) -> list_sum (map f T) <= list_sum (map g T).
Proof.
  induction T as [|t T IH]; simpl; intros H; [lia|].
  assert (f t <= g t) by (apply H; now left). assert (list_sum (map f T) <= list_sum (map g T)) by (apply IH; intros; apply H; now right). lia.
Qed.

Lemma total_tp_le T R gts :
  (forall g, In g gts -> o_fp g = false) ->
  NoDup (gt_ids R) -> (forall e g, In (e, Some g) R -> In g (indexed gts)) ->
  TPtot T R <= Gtot T gts.
Proof.
  intros Hfp ND Hin. unfold TPtot, Gtot. apply list_sum_le. intros t Ht. now apply bucket_tp_le.
Qed.

(* the traffic-light pipeline: summary scores are in [0,1] whenever they are numbers *)
Theorem tlr_summary_unit_interval uf ests gts R T a p r f :
  tlr_match uf ests gts = Ok R -> (forall g, In g gts -> o_fp g = false) ->
  summarize (accuracies T R gts) = (a, p, r, f) ->
  in_unit a /\ in_unit p /\ in_unit r /\ in_unit f.
Proof.
  intros H Hfp HS. eapply summary_unit_interval; [exact HS|].
  destruct (tlr_one_to_one _ _ _ _ H) as (_ & ND & Hp). apply total_tp_le; auto.
  intros e g Hin. destruct (Hp _ Hin) as (e' & g' & Heq & _ & Hg). inversion Heq; subst. exact Hg.
Qed.

Theorem id_summary_unit_interval ests gts T :
  all_uuid_set ests -> all_uuid_set gts -> NoDup (map uuid_cam ests) -> NoDup (map uuid_cam gts) ->
  (forall g, In g gts -> o_fp g = false) ->
  exists R, id_match ests gts = Ok R /\
    forall a p r f, summarize (accuracies T R gts) = (a, p, r, f) ->
                    in_unit a /\ in_unit p /\ in_unit r /\ in_unit f.
Proof.
  intros Ue Ug Ke Kg Hfp. destruct (id_match_spec ests gts Ue Ug Ke Kg) as (R & HR & Hp & _ & ND & _).
  exists R. split; [exact HR|]. intros a p r f HS. eapply summary_unit_interval; [exact HS|].
  apply total_tp_le; auto. intros e g Hin. apply Hp in Hin. tauto.
Qed.
