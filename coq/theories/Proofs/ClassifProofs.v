From Coq Require Import List Bool Arith ZArith QArith Lia.
From PE Require Import Base.QUtil Model.Classif.
Import ListNotations.
Lemma placeholder : True. Proof. exact I. Qed.
